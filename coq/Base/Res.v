(* Outcome monad: values, errors (by class), panics (by site). *)
From PV Require Export Base.Bytes.

Inductive err :=
| EInvalidData      (* ProtocolExceptionKind::InvalidData, incl. IOError::NoRemaining *)
| EBadVersion
| EDepthLimit
| ENegativeSize
| ESizeLimit
| ETransport        (* io::Error -> TransportException *)
| EOutOfFuel        (* model artefact: excluded by every theorem *)
| EOther.

Inductive site :=
| SPendingBoolWrite | SPendingBoolRead | SPendingBoolTwice | SNoFieldId | SUnwrap | SOverflow | SSplit | SAlloc | SOob | SOtherPanic.

Inductive res (A : Type) :=
| Ok (a : A)
| Err (e : err)
| Panic (s : site).
Arguments Ok {A} a.
Arguments Err {A} e.
Arguments Panic {A} s.

Definition bind {A B} (r : res A) (f : A -> res B) : res B :=
  match r with
  | Ok a => f a
  | Err e => Err e
  | Panic s => Panic s
  end.

Definition rmap {A B} (f : A -> B) (r : res A) : res B := bind r (fun a => Ok (f a)).

Notation "'let*' x ':=' r 'in' k" := (bind r (fun x => k))
  (at level 200, x pattern, r at level 100, k at level 200, right associativity).

Definition is_ok {A} (r : res A) : bool := match r with Ok _ => true | _ => false end.
Definition is_panic {A} (r : res A) : bool := match r with Panic _ => true | _ => false end.

Lemma bind_ok {A B} (a : A) (f : A -> res B) : bind (Ok a) f = f a.
Proof. reflexivity. Qed.
