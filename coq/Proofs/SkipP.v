(* C07: the recursive skippers simulate the readers.  Whenever a reader returns a value [v] from
   state [s] stopping in state [s'], the skipper started in [s] with a depth budget of at least
   [vdepth v] stops in exactly the same state [s'] and reports exactly the bytes consumed; with a
   smaller budget it fails with DepthLimit.  Because this holds for EVERY input on which the reader
   succeeds, it covers pilota's own encodings (via C01) and every other encoding the readers accept. *)
From PV Require Import Thrift.Skip Proofs.VarintP Proofs.TablesP Proofs.PrimP Proofs.HeaderP Proofs.RoundtripP Proofs.AsyncP.
From Coq Require Import ZifyN ZifyNat ZifyBool.
Open Scope Z_scope.

Lemma bind_inv {A B} (o : res A) (f : A -> res B) y :
  bind o f = Ok y -> exists x, o = Ok x /\ f x = Ok y.
Proof. destruct o as [x| |]; cbn; intros H; try discriminate. eauto. Qed.

Ltac binv H :=
  let x := fresh "x" in let s := fresh "s" in let E := fresh "E" in
  apply bind_inv in H; destruct H as [[x s] [E H]].

Lemma consumed_trans a b c : consumed a c = consumed a b + consumed b c.
Proof. unfold consumed. lia. Qed.
Lemma consumed_refl a : consumed a a = 0.
Proof. unfold consumed. lia. Qed.

Lemma take_consumed n s a s' : r_take n s = Ok (a, s') -> consumed s s' = Z.of_nat n.
Proof.
  unfold r_take. destruct (take n (rbuf s)) as [[x r]|] eqn:E; [|discriminate].
  intros H. injection H as <- <-. apply take_some in E as [E1 E2].
  unfold consumed, blen, set_buf. cbn [rbuf]. rewrite E1, app_length. lia.
Qed.

Lemma set_rc_consumed s c : consumed s (set_rc s c) = 0.
Proof. unfold consumed, blen, set_rc. cbn. lia. Qed.

(* depth of the members of a struct / container *)
Fixpoint fmax (fs : list (Z * tval)) : nat :=
  match fs with [] => O | (_, x) :: t => Nat.max (vdepth x) (fmax t) end.
Fixpoint emax (l : list tval) : nat :=
  match l with [] => O | x :: t => Nat.max (vdepth x) (emax t) end.
Fixpoint pmax (l : list (tval * tval)) : nat :=
  match l with [] => O | (k, x) :: t => Nat.max (Nat.max (vdepth k) (vdepth x)) (pmax t) end.

Lemma vdepth_struct fs : vdepth (VStruct fs) = S (fmax fs).
Proof. reflexivity. Qed.
Lemma vdepth_list et l : vdepth (VList et l) = S (emax l).
Proof. reflexivity. Qed.
Lemma vdepth_set et l : vdepth (VSet et l) = S (emax l).
Proof. reflexivity. Qed.
Lemma vdepth_map kt vt l : vdepth (VMap kt vt l) = S (pmax l).
Proof. reflexivity. Qed.

Lemma fmax_app a b : fmax (a ++ b) = Nat.max (fmax a) (fmax b).
Proof. induction a as [|[i x] t IH]; cbn [fmax app]; [reflexivity|]. rewrite IH. lia. Qed.
Lemma emax_app a b : emax (a ++ b) = Nat.max (emax a) (emax b).
Proof. induction a as [|x t IH]; cbn [emax app]; [reflexivity|]. rewrite IH. lia. Qed.
Lemma pmax_app a b : pmax (a ++ b) = Nat.max (pmax a) (pmax b).
Proof. induction a as [|[k x] t IH]; cbn [pmax app]; [reflexivity|]. rewrite IH. lia. Qed.

(* ------------------------------------------------------------------ *)
(* exact consumption of the binary headers *)

Lemma r_byte_consumed s b s' : r_byte s = Ok (b, s') -> consumed s s' = 1.
Proof. unfold r_byte. intros H. binv H. injection H as _ <-. apply take_consumed in E. exact E. Qed.

Lemma r_ttype_consumed s t s' : r_ttype s = Ok (t, s') -> consumed s s' = 1.
Proof.
  unfold r_ttype. intros H. binv H. destruct (ttype_of_byte x); [|discriminate].
  injection H as _ <-. eapply r_byte_consumed; eauto.
Qed.

Lemma r_fixed_consumed p n bits s z s' : r_fixed p n bits s = Ok (z, s') -> consumed s s' = Z.of_nat n.
Proof. unfold r_fixed. intros H. binv H. injection H as _ <-. eapply take_consumed; eauto. Qed.

Definition binlike (p : pk) : Prop := is_compact p = false.

Lemma r_field_begin_bin_consumed p s h s' : binlike p -> r_field_begin p s = Ok (h, s') ->
  consumed s s' = if ttype_eqb (fst h) TStop then 1 else 3.
Proof.
  intros Hb. destruct p; try discriminate Hb; cbn [r_field_begin]; intros H; binv H;
    pose proof (r_ttype_consumed _ _ _ E) as C1;
    (destruct x; [injection H as <- <-; exact C1 | ..]);
    binv H; injection H as <- <-; cbn [fst ttype_eqb];
    apply r_fixed_consumed in E0; rewrite (consumed_trans s s0 s1); lia.
Qed.

Lemma check_size_ok n s m : check_size n s = Ok m -> m = n.
Proof. unfold check_size. destruct (n <? 0); [discriminate|]. destruct (_ <? n); [discriminate|]. congruence. Qed.

Lemma r_coll_begin_bin_consumed p s h s' : binlike p -> r_coll_begin p s = Ok (h, s') -> consumed s s' = 5.
Proof.
  intros Hb. destruct p; try discriminate Hb; cbn [r_coll_begin]; intros H; binv H;
    apply r_ttype_consumed in E; binv H;
    destruct (check_size x0 s1) as [m| |]; cbn [bind] in H; try discriminate;
    injection H as _ <-; apply r_fixed_consumed in E0; rewrite (consumed_trans s s0 s1); lia.
Qed.

Lemma r_map_begin_bin_consumed p s h s' : binlike p -> r_map_begin p s = Ok (h, s') -> consumed s s' = 6.
Proof.
  intros Hb. destruct p; try discriminate Hb; cbn [r_map_begin]; intros H; binv H;
    apply r_ttype_consumed in E; binv H; apply r_ttype_consumed in E0; binv H;
    destruct (check_size x1 s2) as [m| |]; cbn [bind] in H; try discriminate;
    injection H as _ <-; apply r_fixed_consumed in E1;
    rewrite (consumed_trans s s0 s2), (consumed_trans s0 s1 s2); lia.
Qed.

Lemma hdr_count_eq p c s s' : (binlike p -> consumed s s' = c) -> hdr_count p c s s' = consumed s s'.
Proof. unfold hdr_count, binlike. destruct (is_compact p); auto. intros H. symmetry. auto. Qed.

(* ------------------------------------------------------------------ *)
(* the simulation statement *)

Definition SK (rd : ttype -> rst -> res (tval * rst)) (sk : nat -> ttype -> rst -> res (Z * rst)) : Prop :=
  forall ty s v s', rd ty s = Ok (v, s') ->
    forall d, ((vdepth v <= d)%nat -> sk d ty s = Ok (consumed s s', s')) /\
              ((d < vdepth v)%nat -> sk d ty s = Err EDepthLimit).

Section LoopsSK.
  Variable p : pk.
  Variable rec : ttype -> rst -> res (tval * rst).
  Variable srec : ttype -> rst -> res (Z * rst).
  Variable d : nat.
  Hypothesis Hrec : forall ty s v s', rec ty s = Ok (v, s') ->
    ((vdepth v <= d)%nat -> srec ty s = Ok (consumed s s', s')) /\
    ((d < vdepth v)%nat -> srec ty s = Err EDepthLimit).

  Lemma fields_sk : forall n s acc fs s', fields_loop p rec n s acc = Ok (fs, s') ->
    exists new, fs = rev acc ++ new /\
      forall az, ((fmax new <= d)%nat -> skip_fields p srec n s az = Ok (az + consumed s s', s')) /\
                 ((d < fmax new)%nat -> skip_fields p srec n s az = Err EDepthLimit).
  Proof.
    induction n as [|n IH]; intros s acc fs s' H; [discriminate|].
    cbn [fields_loop] in H. binv H. cbn [skip_fields]. rewrite E. cbn [bind].
    assert (HC : hdr_count p (if ttype_eqb (fst x) TStop then 1 else 3) s s0 = consumed s s0).
    { apply hdr_count_eq. intros Hb. eapply r_field_begin_bin_consumed; eauto. }
    destruct (ttype_eqb (fst x) TStop) eqn:Es.
    - injection H as <- <-. exists []. rewrite app_nil_r. split; [reflexivity|]. intros az. cbn [fmax].
      split; [|lia]. intros _. rewrite HC. reflexivity.
    - binv H. destruct (Hrec _ _ _ _ E0) as [Hok Hdeep].
      destruct (IH _ _ _ _ H) as (new & -> & Hn).
      exists ((match snd x with Some i => i | None => 0 end, x0) :: new).
      split; [cbn [rev]; rewrite <- app_assoc; reflexivity|].
      intros az. cbn [fmax]. split.
      + intros Hd. rewrite Hok by lia. cbn [bind].
        destruct (Hn (az + hdr_count p 3 s s0 + consumed s0 s1)) as [Hn1 _]. rewrite Hn1 by lia.
        rewrite HC. f_equal. f_equal. rewrite (consumed_trans s s0 s'), (consumed_trans s0 s1 s'). lia.
      + intros Hd. destruct (Nat.le_gt_cases (vdepth x0) d) as [Hle|Hgt].
        * rewrite Hok by lia. cbn [bind]. destruct (Hn (az + hdr_count p 3 s s0 + consumed s0 s1)) as [_ Hn2].
          apply Hn2. lia.
        * rewrite Hdeep by lia. reflexivity.
  Qed.

  Lemma elems_sk : forall m et n s acc l s', elems_loop rec m et n s acc = Ok (l, s') ->
    exists new, l = rev acc ++ new /\
      forall az, ((emax new <= d)%nat -> skip_elems srec m et n s az = Ok (az + consumed s s', s')) /\
                 ((d < emax new)%nat -> skip_elems srec m et n s az = Err EDepthLimit).
  Proof.
    induction m as [|m IH]; intros et n s acc l s' H; cbn [elems_loop] in H; cbn [skip_elems].
    - destruct (n <=? 0); [|discriminate]. injection H as <- <-. exists []. rewrite app_nil_r.
      split; [reflexivity|]. intros az. cbn [emax]. split; [|lia]. intros _. rewrite consumed_refl. f_equal. f_equal. lia.
    - destruct (n <=? 0).
      + injection H as <- <-. exists []. rewrite app_nil_r.
        split; [reflexivity|]. intros az. cbn [emax]. split; [|lia]. intros _. rewrite consumed_refl. f_equal. f_equal. lia.
      + binv H. destruct (Hrec _ _ _ _ E) as [Hok Hdeep].
        destruct (IH _ _ _ _ _ _ H) as (new & -> & Hn).
        exists (x :: new). split; [cbn [rev]; rewrite <- app_assoc; reflexivity|].
        intros az. cbn [emax]. split.
        * intros Hd. rewrite Hok by lia. cbn [bind]. destruct (Hn (az + consumed s s0)) as [Hn1 _].
          rewrite Hn1 by lia. f_equal. f_equal. rewrite (consumed_trans s s0 s'). lia.
        * intros Hd. destruct (Nat.le_gt_cases (vdepth x) d) as [Hle|Hgt].
          -- rewrite Hok by lia. cbn [bind]. destruct (Hn (az + consumed s s0)) as [_ Hn2]. apply Hn2. lia.
          -- rewrite Hdeep by lia. reflexivity.
  Qed.

  Lemma pairs_sk : forall m kt vt n s acc l s', pairs_loop rec m kt vt n s acc = Ok (l, s') ->
    exists new, l = rev acc ++ new /\
      forall az, ((pmax new <= d)%nat -> skip_pairs srec m kt vt n s az = Ok (az + consumed s s', s')) /\
                 ((d < pmax new)%nat -> skip_pairs srec m kt vt n s az = Err EDepthLimit).
  Proof.
    induction m as [|m IH]; intros kt vt n s acc l s' H; cbn [pairs_loop] in H; cbn [skip_pairs].
    - destruct (n <=? 0); [|discriminate]. injection H as <- <-. exists []. rewrite app_nil_r.
      split; [reflexivity|]. intros az. cbn [pmax]. split; [|lia]. intros _. rewrite consumed_refl. f_equal. f_equal. lia.
    - destruct (n <=? 0).
      + injection H as <- <-. exists []. rewrite app_nil_r.
        split; [reflexivity|]. intros az. cbn [pmax]. split; [|lia]. intros _. rewrite consumed_refl. f_equal. f_equal. lia.
      + binv H. binv H. destruct (Hrec _ _ _ _ E) as [Hok Hdeep]. destruct (Hrec _ _ _ _ E0) as [Hok2 Hdeep2].
        destruct (IH _ _ _ _ _ _ _ H) as (new & -> & Hn).
        exists ((x, x0) :: new). split; [cbn [rev]; rewrite <- app_assoc; reflexivity|].
        intros az. cbn [pmax]. split.
        * intros Hd. rewrite Hok by lia. cbn [bind]. rewrite Hok2 by lia. cbn [bind].
          destruct (Hn (az + consumed s s0 + consumed s0 s1)) as [Hn1 _].
          rewrite Hn1 by lia. f_equal. f_equal. rewrite (consumed_trans s s0 s'), (consumed_trans s0 s1 s'). lia.
        * intros Hd. destruct (Nat.le_gt_cases (vdepth x) d) as [Hle|Hgt].
          -- rewrite Hok by lia. cbn [bind]. destruct (Nat.le_gt_cases (vdepth x0) d) as [Hle2|Hgt2].
             ++ rewrite Hok2 by lia. cbn [bind].
                destruct (Hn (az + consumed s s0 + consumed s0 s1)) as [_ Hn2]. apply Hn2. lia.
             ++ rewrite Hdeep2 by lia. reflexivity.
          -- rewrite Hdeep by lia. reflexivity.
  Qed.
End LoopsSK.

(* leaves *)
Lemma vdepth_leaf_cases (dd : nat) : (1 <= dd)%nat \/ dd = O.
Proof. lia. Qed.

Lemma via_ok {A} (m : rm A) s x s' : m s = Ok (x, s') -> via m s = Ok (consumed s s', s').
Proof. unfold via. intros ->. reflexivity. Qed.

Lemma adv_ok n s a s' : r_take n s = Ok (a, s') -> adv n s = Ok (consumed s s', s').
Proof. unfold adv. intros H. rewrite H. cbn [bind]. rewrite (take_consumed _ _ _ _ H). reflexivity. Qed.

Theorem skip_sim p : forall f, SK (read_val p f) (skip_val p f).
Proof.
  induction f as [|f IH]; intros ty s v s' H d; [discriminate|].
  rewrite read_val_S in H.
  destruct ty; try discriminate.
  - (* bool *) binv H. injection H as <- <-. destruct d as [|d']; [split; [cbn [vdepth]; lia|reflexivity]|split; [intros _; cbn [skip_val]|cbn [vdepth]; lia]].
    destruct p; cbn [is_compact].
    1,2: cbn [r_bool] in E; binv E; injection E as _ <-; unfold r_i8 in E0; binv E0; injection E0 as _ <-; eapply adv_ok; eauto.
    eapply via_ok; eauto.
  - (* i8 *) binv H. injection H as <- <-. destruct d as [|d']; [split; [cbn [vdepth]; lia|reflexivity]|split; [intros _; cbn [skip_val]|cbn [vdepth]; lia]].
    destruct p; cbn [is_compact]. 3: eapply via_ok; eauto.
    all: unfold r_i8 in E; binv E; injection E as _ <-; eapply adv_ok; eauto.
  - (* double *) binv H. injection H as <- <-. destruct d as [|d']; [split; [cbn [vdepth]; lia|reflexivity]|split; [intros _; cbn [skip_val]|cbn [vdepth]; lia]].
    destruct p; cbn [is_compact]. 3: eapply via_ok; eauto.
    all: unfold r_double in E; binv E; injection E as _ <-; eapply adv_ok; eauto.
  - (* i16 *) binv H. injection H as <- <-. destruct d as [|d']; [split; [cbn [vdepth]; lia|reflexivity]|split; [intros _; cbn [skip_val]|cbn [vdepth]; lia]].
    destruct p; cbn [is_compact]. 3: eapply via_ok; eauto.
    all: cbn [r_i16] in E; unfold r_fixed in E; binv E; injection E as _ <-; eapply adv_ok; eauto.
  - (* i32 *) binv H. injection H as <- <-. destruct d as [|d']; [split; [cbn [vdepth]; lia|reflexivity]|split; [intros _; cbn [skip_val]|cbn [vdepth]; lia]].
    destruct p; cbn [is_compact]. 3: eapply via_ok; eauto.
    all: cbn [r_i32] in E; unfold r_fixed in E; binv E; injection E as _ <-; eapply adv_ok; eauto.
  - (* i64 *) binv H. injection H as <- <-. destruct d as [|d']; [split; [cbn [vdepth]; lia|reflexivity]|split; [intros _; cbn [skip_val]|cbn [vdepth]; lia]].
    destruct p; cbn [is_compact]. 3: eapply via_ok; eauto.
    all: cbn [r_i64] in E; unfold r_fixed in E; binv E; injection E as _ <-; eapply adv_ok; eauto.
  - (* binary *) binv H. injection H as <- <-. destruct d as [|d']; [split; [cbn [vdepth]; lia|reflexivity]|split; [intros _; cbn [skip_val]|cbn [vdepth]; lia]].
    destruct p; cbn [is_compact]. 3: eapply via_ok; eauto.
    all: unfold r_bytes in E; binv E; cbn [r_len] in E0; binv E0; injection E0 as <- <-.
    all: match goal with E1 : r_i32 _ ?s00 = Ok (?n, ?sa), E : r_split _ ?sa = Ok (_, ?sb) |- _ =>
      rewrite E1; cbn [bind]; unfold r_split in E; fold (blen sa) in E;
      destruct (wrap_u 64 n <=? Z.of_nat (blen sa)) eqn:El; [|discriminate];
      rewrite E; cbn [bind]; f_equal; f_equal;
      apply take_consumed in E; cbn [r_i32] in E1; apply r_fixed_consumed in E1;
      pose proof (wrap_u_range 64 n ltac:(lia)); rewrite (consumed_trans s00 sa sb); lia end.
  - (* struct *)
    binv H. binv H. binv H. injection H as <- <-. rewrite vdepth_struct.
    destruct d as [|d']; [split; [lia|reflexivity]|].
    cbn [skip_val]. rewrite E. cbn [bind].
    destruct (fields_sk p (read_val p f) (skip_val p f d') d' (fun ty s v s2 Hr => IH ty s v s2 Hr d') _ _ _ _ _ E0)
      as (new & Hnew & Hn). cbn [rev app] in Hnew. subst x0.
    destruct (Hn 0) as [Hn1 Hn2]. split.
    + intros Hd. rewrite Hn1 by lia. cbn [bind]. rewrite E1. cbn [bind]. f_equal. f_equal.
      assert (consumed s s0 = 0) by (destruct p; cbn [r_struct_begin] in E; injection E as _ <-; try apply consumed_refl; apply set_rc_consumed).
      assert (consumed s1 s2 = 0).
      { destruct p; cbn [r_struct_end] in E1; try (injection E1 as _ <-; apply consumed_refl).
        destruct (r_stack (rc s1)); [discriminate|]. injection E1 as _ <-. apply set_rc_consumed. }
      rewrite (consumed_trans s s0 s2), (consumed_trans s0 s1 s2). lia.
    + intros Hd. rewrite Hn2 by lia. reflexivity.
  - (* map *)
    binv H. binv H. injection H as <- <-. rewrite vdepth_map.
    destruct d as [|d']; [split; [lia|reflexivity]|].
    cbn [skip_val]. rewrite E. cbn [bind].
    destruct (pairs_sk (read_val p f) (skip_val p f d') d' (fun ty s v s1 Hr => IH ty s v s1 Hr d') _ _ _ _ _ _ _ _ E0)
      as (new & Hnew & Hn). cbn [rev app] in Hnew. subst x0.
    destruct (Hn (hdr_count p 6 s s0)) as [Hn1 Hn2]. split.
    + intros Hd. rewrite Hn1 by lia. f_equal. f_equal.
      rewrite (hdr_count_eq p 6 s s0) by (intros Hb; eapply r_map_begin_bin_consumed; eauto).
      rewrite (consumed_trans s s0 s1). lia.
    + intros Hd. apply Hn2. lia.
  - (* set *)
    binv H. binv H. injection H as <- <-. rewrite vdepth_set.
    destruct d as [|d']; [split; [lia|reflexivity]|].
    cbn [skip_val]. rewrite E. cbn [bind].
    destruct (elems_sk (read_val p f) (skip_val p f d') d' (fun ty s v s1 Hr => IH ty s v s1 Hr d') _ _ _ _ _ _ _ E0)
      as (new & Hnew & Hn). cbn [rev app] in Hnew. subst x0.
    destruct (Hn (hdr_count p 5 s s0)) as [Hn1 Hn2]. split.
    + intros Hd. rewrite Hn1 by lia. f_equal. f_equal.
      rewrite (hdr_count_eq p 5 s s0) by (intros Hb; eapply r_coll_begin_bin_consumed; eauto).
      rewrite (consumed_trans s s0 s1). lia.
    + intros Hd. apply Hn2. lia.
  - (* list *)
    binv H. binv H. injection H as <- <-. rewrite vdepth_list.
    destruct d as [|d']; [split; [lia|reflexivity]|].
    cbn [skip_val]. rewrite E. cbn [bind].
    destruct (elems_sk (read_val p f) (skip_val p f d') d' (fun ty s v s1 Hr => IH ty s v s1 Hr d') _ _ _ _ _ _ _ E0)
      as (new & Hnew & Hn). cbn [rev app] in Hnew. subst x0.
    destruct (Hn (hdr_count p 5 s s0)) as [Hn1 Hn2]. split.
    + intros Hd. rewrite Hn1 by lia. f_equal. f_equal.
      rewrite (hdr_count_eq p 5 s s0) by (intros Hb; eapply r_coll_begin_bin_consumed; eauto).
      rewrite (consumed_trans s s0 s1). lia.
    + intros Hd. apply Hn2. lia.
  - (* uuid *) binv H. injection H as <- <-. destruct d as [|d']; [split; [cbn [vdepth]; lia|reflexivity]|split; [intros _; cbn [skip_val]|cbn [vdepth]; lia]].
    destruct p; cbn [is_compact]. 3: eapply via_ok; eauto.
    all: unfold r_uuid in E; eapply adv_ok; eauto.
Qed.

(* ------------------------------------------------------------------ *)
(* the asynchronous skipper simulates the asynchronous reader *)

Definition ASK (rd : ttype -> rst -> res (tval * rst)) (sk : nat -> ttype -> rst -> res (unit * rst)) : Prop :=
  forall ty s v s', rd ty s = Ok (v, s') ->
    forall d, ((vdepth v <= d)%nat -> sk d ty s = Ok (tt, s')) /\
              ((d < vdepth v)%nat -> sk d ty s = Err EDepthLimit).

Section ALoopsSK.
  Variable p : pk.
  Variable rec : ttype -> rst -> res (tval * rst).
  Variable srec : ttype -> rst -> res (unit * rst).
  Variable d : nat.
  Hypothesis Hrec : forall ty s v s', rec ty s = Ok (v, s') ->
    ((vdepth v <= d)%nat -> srec ty s = Ok (tt, s')) /\
    ((d < vdepth v)%nat -> srec ty s = Err EDepthLimit).

  Lemma afields_sk : forall n s acc fs s', afields_loop p rec n s acc = Ok (fs, s') ->
    exists new, fs = rev acc ++ new /\
      ((fmax new <= d)%nat -> askip_fields p srec n s = Ok (tt, s')) /\
      ((d < fmax new)%nat -> askip_fields p srec n s = Err EDepthLimit).
  Proof.
    induction n as [|n IH]; intros s acc fs s' H; [discriminate|].
    cbn [afields_loop] in H. binv H. cbn [askip_fields]. rewrite E. cbn [bind].
    destruct (ttype_eqb (fst x) TStop) eqn:Es.
    - injection H as <- <-. exists []. rewrite app_nil_r. split; [reflexivity|]. cbn [fmax]. split; [reflexivity|lia].
    - binv H. destruct (Hrec _ _ _ _ E0) as [Hok Hdeep].
      destruct (IH _ _ _ _ H) as (new & -> & Hn1 & Hn2).
      exists ((match snd x with Some i => i | None => 0 end, x0) :: new).
      split; [cbn [rev]; rewrite <- app_assoc; reflexivity|]. cbn [fmax]. split.
      + intros Hd. rewrite Hok by lia. cbn [bind]. apply Hn1. lia.
      + intros Hd. destruct (Nat.le_gt_cases (vdepth x0) d) as [Hle|Hgt].
        * rewrite Hok by lia. cbn [bind]. apply Hn2. lia.
        * rewrite Hdeep by lia. reflexivity.
  Qed.

  Lemma aelems_sk : forall m et n s acc l s', elems_loop rec m et n s acc = Ok (l, s') ->
    exists new, l = rev acc ++ new /\
      ((emax new <= d)%nat -> askip_elems srec m et n s = Ok (tt, s')) /\
      ((d < emax new)%nat -> askip_elems srec m et n s = Err EDepthLimit).
  Proof.
    induction m as [|m IH]; intros et n s acc l s' H; cbn [elems_loop] in H; cbn [askip_elems].
    - destruct (n <=? 0); [|discriminate]. injection H as <- <-. exists []. rewrite app_nil_r.
      split; [reflexivity|]. cbn [emax]. split; [reflexivity|lia].
    - destruct (n <=? 0).
      + injection H as <- <-. exists []. rewrite app_nil_r. split; [reflexivity|]. cbn [emax]. split; [reflexivity|lia].
      + binv H. destruct (Hrec _ _ _ _ E) as [Hok Hdeep].
        destruct (IH _ _ _ _ _ _ H) as (new & -> & Hn1 & Hn2).
        exists (x :: new). split; [cbn [rev]; rewrite <- app_assoc; reflexivity|]. cbn [emax]. split.
        * intros Hd. rewrite Hok by lia. cbn [bind]. apply Hn1. lia.
        * intros Hd. destruct (Nat.le_gt_cases (vdepth x) d) as [Hle|Hgt].
          -- rewrite Hok by lia. cbn [bind]. apply Hn2. lia.
          -- rewrite Hdeep by lia. reflexivity.
  Qed.

  Lemma apairs_sk : forall m kt vt n s acc l s', pairs_loop rec m kt vt n s acc = Ok (l, s') ->
    exists new, l = rev acc ++ new /\
      ((pmax new <= d)%nat -> askip_pairs srec m kt vt n s = Ok (tt, s')) /\
      ((d < pmax new)%nat -> askip_pairs srec m kt vt n s = Err EDepthLimit).
  Proof.
    induction m as [|m IH]; intros kt vt n s acc l s' H; cbn [pairs_loop] in H; cbn [askip_pairs].
    - destruct (n <=? 0); [|discriminate]. injection H as <- <-. exists []. rewrite app_nil_r.
      split; [reflexivity|]. cbn [pmax]. split; [reflexivity|lia].
    - destruct (n <=? 0).
      + injection H as <- <-. exists []. rewrite app_nil_r. split; [reflexivity|]. cbn [pmax]. split; [reflexivity|lia].
      + binv H. binv H. destruct (Hrec _ _ _ _ E) as [Hok Hdeep]. destruct (Hrec _ _ _ _ E0) as [Hok2 Hdeep2].
        destruct (IH _ _ _ _ _ _ _ H) as (new & -> & Hn1 & Hn2).
        exists ((x, x0) :: new). split; [cbn [rev]; rewrite <- app_assoc; reflexivity|]. cbn [pmax]. split.
        * intros Hd. rewrite Hok by lia. cbn [bind]. rewrite Hok2 by lia. cbn [bind]. apply Hn1. lia.
        * intros Hd. destruct (Nat.le_gt_cases (vdepth x) d) as [Hle|Hgt].
          -- rewrite Hok by lia. cbn [bind]. destruct (Nat.le_gt_cases (vdepth x0) d) as [Hle2|Hgt2].
             ++ rewrite Hok2 by lia. cbn [bind]. apply Hn2. lia.
             ++ rewrite Hdeep2 by lia. reflexivity.
          -- rewrite Hdeep by lia. reflexivity.
  Qed.
End ALoopsSK.

Lemma drop_ok {A} (m : rm A) s x s' : m s = Ok (x, s') -> drop m s = Ok (tt, s').
Proof. unfold drop. intros ->. reflexivity. Qed.

Theorem askip_sim p : forall f, ASK (aread_val p f) (askip_val p f).
Proof.
  induction f as [|f IH]; intros ty s v s' H d; [discriminate|].
  cbn [aread_val] in H.
  destruct ty; try discriminate.
  1-7,12: binv H; injection H as <- <-;
    (destruct d as [|d']; [split; [cbn [vdepth]; lia|reflexivity]|split; [intros _; cbn [askip_val]; eapply drop_ok; eauto|cbn [vdepth]; lia]]).
  - (* struct *)
    binv H. binv H. binv H. injection H as <- <-. rewrite vdepth_struct.
    destruct d as [|d']; [split; [lia|reflexivity]|].
    cbn [askip_val]. rewrite E. cbn [bind].
    destruct (afields_sk p (aread_val p f) (askip_val p f d') d' (fun ty s v s' Hr => IH ty s v s' Hr d') _ _ _ _ _ E0)
      as (new & Hnew & Hn1 & Hn2). cbn [rev app] in Hnew. subst x0. split.
    + intros Hd. rewrite Hn1 by lia. cbn [bind]. rewrite E1. destruct x1. reflexivity.
    + intros Hd. rewrite Hn2 by lia. reflexivity.
  - (* map *)
    binv H. binv H. injection H as <- <-. rewrite vdepth_map.
    destruct d as [|d']; [split; [lia|reflexivity]|].
    cbn [askip_val]. rewrite E. cbn [bind].
    destruct (apairs_sk (aread_val p f) (askip_val p f d') d' (fun ty s v s' Hr => IH ty s v s' Hr d') _ _ _ _ _ _ _ _ E0)
      as (new & Hnew & Hn1 & Hn2). cbn [rev app] in Hnew. subst x0. split; intros Hd; [apply Hn1|apply Hn2]; lia.
  - (* set *)
    binv H. binv H. injection H as <- <-. rewrite vdepth_set.
    destruct d as [|d']; [split; [lia|reflexivity]|].
    cbn [askip_val]. rewrite E. cbn [bind].
    destruct (aelems_sk (aread_val p f) (askip_val p f d') d' (fun ty s v s' Hr => IH ty s v s' Hr d') _ _ _ _ _ _ _ E0)
      as (new & Hnew & Hn1 & Hn2). cbn [rev app] in Hnew. subst x0. split; intros Hd; [apply Hn1|apply Hn2]; lia.
  - (* list *)
    binv H. binv H. injection H as <- <-. rewrite vdepth_list.
    destruct d as [|d']; [split; [lia|reflexivity]|].
    cbn [askip_val]. rewrite E. cbn [bind].
    destruct (aelems_sk (aread_val p f) (askip_val p f d') d' (fun ty s v s' Hr => IH ty s v s' Hr d') _ _ _ _ _ _ _ E0)
      as (new & Hnew & Hn1 & Hn2). cbn [rev app] in Hnew. subst x0. split; intros Hd; [apply Hn1|apply Hn2]; lia.
Qed.

(* ------------------------------------------------------------------ *)
(* composed with C01: skipping what pilota wrote *)

Lemma vdepth_canon p v : vdepth (canon p v) = vdepth v.
Proof.
  induction v using tval_ind'; try reflexivity.
  - cbn [canon]. rewrite !vdepth_struct. f_equal.
    induction fs as [|[i x] t IHt]; [reflexivity|]. inversion H as [|? ? Hx Ht]; subst.
    cbn [map fmax]. cbn [snd] in Hx. rewrite Hx, IHt; auto.
  - cbn [canon]. rewrite !vdepth_list. f_equal.
    induction l as [|x t IHt]; [reflexivity|]. inversion H as [|? ? Hx Ht]; subst.
    cbn [map emax]. rewrite Hx, IHt; auto.
  - cbn [canon]. rewrite !vdepth_set. f_equal.
    induction l as [|x t IHt]; [reflexivity|]. inversion H as [|? ? Hx Ht]; subst.
    cbn [map emax]. rewrite Hx, IHt; auto.
  - cbn [canon].
    assert (E : pmax (map (fun '(a, b) => (canon p a, canon p b)) l) = pmax l).
    { induction l as [|[k x] t IHt]; [reflexivity|]. inversion H as [|? ? [Hk Hx] Ht]; subst.
      cbn [map pmax]. cbn [fst snd] in Hk, Hx. rewrite Hk, Hx, IHt; auto. }
    destruct l as [|q t].
    + destruct p; reflexivity.
    + unfold canon1. destruct p; cbn [map]; rewrite !vdepth_map; f_equal; exact E.
Qed.

Lemma consumed_app a r c c' : consumed (mkS (a ++ r) c) (mkS r c') = Z.of_nat (length a).
Proof. unfold consumed, blen. cbn [rbuf]. rewrite app_length. lia. Qed.

Theorem skip_written p k v c :
  wt v = true -> w_pend c = None ->
  exists ss, write_val p k v c = Ok (ss, c) /\
    forall fuel r rcx, (vsize v <= fuel)%nat -> idle rcx ->
      ((vdepth v <= skip_depth)%nat ->
         skip p fuel (ttype_of v) (mkS (flat ss ++ r) rcx) = Ok (Z.of_nat (length (flat ss)), mkS r rcx)) /\
      ((skip_depth < vdepth v)%nat ->
         skip p fuel (ttype_of v) (mkS (flat ss ++ r) rcx) = Err EDepthLimit).
Proof.
  intros Hwt Hp. destruct (roundtrip_val p k v Hwt c Hp) as (ss & Hw & _ & Hr).
  exists ss. split; [exact Hw|]. intros fuel r rcx Hf Hi.
  specialize (Hr fuel r rcx Hf Hi).
  destruct (skip_sim p fuel _ _ _ _ Hr skip_depth) as [H1 H2].
  rewrite vdepth_canon in H1, H2. rewrite consumed_app in H1. split; assumption.
Qed.

Theorem askip_written p k v c :
  wt v = true -> w_pend c = None ->
  exists ss, write_val p k v c = Ok (ss, c) /\
    forall fuel r, (vsize v <= fuel)%nat -> Z.of_nat (length (flat ss ++ r)) < 2 ^ 63 ->
      ((vdepth v <= skip_depth)%nat ->
         askip p fuel (ttype_of v) (mkS (flat ss ++ r) r0) = Ok (tt, mkS r r0)) /\
      ((skip_depth < vdepth v)%nat ->
         askip p fuel (ttype_of v) (mkS (flat ss ++ r) r0) = Err EDepthLimit).
Proof.
  intros Hwt Hp. destruct (async_roundtrip p k v c Hwt Hp) as (ss & Hw & Hr).
  exists ss. split; [exact Hw|]. intros fuel r Hf Hl.
  specialize (Hr fuel r Hf Hl).
  destruct (askip_sim p fuel _ _ _ _ Hr skip_depth) as [H1 H2].
  rewrite vdepth_canon in H1, H2. split; assumption.
Qed.

(* non-vacuity: a three-level value with a map and a uuid, skipped under all three protocols *)
Example skip_example :
  let v := VStruct [(1, VI32 7); (2, VList TStruct [VStruct [(5, VBool true)]; VStruct []]);
                    (3, VMap TBinary TI64 [(VBinary [x61], VI64 (-5))]); (9, VUuid (repeat x00 16))] in
  wt v = true /\
  forall p, match write_val p BContig v w0 with
            | Ok (ss, _) => skip p 40 TStruct (mkS (flat ss ++ [xff]) r0) = Ok (Z.of_nat (length (flat ss)), mkS [xff] r0)
            | _ => False
            end.
Proof. split; [reflexivity|]. intros p. destruct p; vm_compute; reflexivity. Qed.
