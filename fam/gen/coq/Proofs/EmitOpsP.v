(* The op rows the template model prescribes denote the model: for every schema S,
     den_enc (presc_tbl S ck) (presc_vop t) v = enc_ty S t v        den_size (presc_tbl S ck) (presc_vop t) v = size_ty S t v
   (every value, every declared type, every protocol and buffer kind).  With the table lemma of Proofs/EmitTableP.v
   (regenerated rows = prescribed rows, by computation) this closes  emitted text -> ops -> Gen.v  for the corpus. *)
From Coq Require Import String Lia.
From PVGen Require Import Gen GenSpec EmitOps EmitDen Proofs.GenBase.
Open Scope Z_scope.

(* no `_UnknownFields` variant inside the value: what a build without retention can hold *)
Fixpoint no_uu (v : gval) : bool :=
  match v with
  | GList l | GSet l => forallb no_uu l
  | GMap l => forallb (fun q => no_uu (fst q) && no_uu (snd q))%bool l
  | GStruct fs _ => forallb (fun q => no_uu (snd q)) fs
  | GUnion _ x => no_uu x
  | GUnionUnknown _ => false
  | _ => true
  end.

(* the arm of a void variant carries no id in the text; the lowering and the prescription write 0, which is the id the
   `Ok` variant of a reply has *)
Definition void_zero (S : schema) (vs : list (Z * ty)) : bool :=
  forallb (fun q => negb (is_void (resolve S (snd q))) || (fst q =? 0))%bool vs.
Definition void_variants_zero (S : schema) : bool :=
  forallb (fun d => match d with DUnion vs _ _ => void_zero S vs | _ => true end) S.

Definition ty_kind (t : ty) : option kind :=
  match t with
  | TyBool => Some KBool | TyI8 => Some KI8 | TyI16 => Some KI16 | TyI32 => Some KI32 | TyI64 => Some KI64
  | TyDouble => Some KF64 | TyString => Some KFastStr | TyBinary => Some KBytes | TyUuid => Some KUuid
  | _ => None
  end.

Section Presc.
  Variable S : schema.
  Variable ck : bool.
  Variable p : pk.
  Notation T := (presc_tbl S ck).

  Lemma row_presc n : row T n = match lookup S n with Some d => presc_row S ck d | None => ENone end.
  Proof. unfold row, presc_tbl, lookup. rewrite nth_error_map. destruct (nth_error S n); reflexivity. Qed.

  Lemma vres_presc sz : forall f t, vres T sz f (presc_vop S t) = presc_vop S (resolve_n S f t).
  Proof.
    induction f as [|f IH]; intros t; [reflexivity|]. destruct t; try reflexivity.
    cbn [presc_vop vres resolve_n]. rewrite row_presc. destruct (lookup S n) as [[| | |t']|]; try reflexivity.
    cbn [presc_row]. destruct sz; apply IH.
  Qed.

  Lemma vres_res sz t : vres T sz (vfuel T) (presc_vop S t) = presc_vop S (resolve S t).
  Proof. unfold vfuel, presc_tbl, resolve. rewrite map_length. apply vres_presc. Qed.

  Lemma find_ef_fields sz dfs id : find_ef (presc_fields S sz dfs) id = option_map (presc_field S sz) (find_field dfs id).
  Proof.
    induction dfs as [|f r IH]; [reflexivity|]. cbn [presc_fields map find_ef find_field]. cbn [presc_field ef_id].
    destruct (f_id f =? id); [reflexivity|exact IH].
  Qed.

  Lemma find_ef_variants sz vs id : void_zero S vs = true ->
    find_ef (presc_variants S sz vs) id = option_map (fun vt => presc_variant S sz (id, vt)) (find_variant vs id).
  Proof.
    induction vs as [|[i t] r IH]; intros Hz; [reflexivity|]. cbn [void_zero forallb fst snd] in Hz.
    apply andb_prop in Hz as [H1 H2]. cbn [presc_variants map find_ef find_variant].
    assert (E : ef_id (presc_variant S sz (i, t)) = i).
    { unfold presc_variant. cbn [fst snd]. destruct (is_void (resolve S t)); cbn [ef_id]; [|reflexivity].
      cbn [negb orb] in H1. apply Z.eqb_eq in H1. symmetry. exact H1. }
    rewrite E. destruct (i =? id) eqn:Ei; [|exact (IH H2)]. apply Z.eqb_eq in Ei. subst i. reflexivity.
  Qed.

  Hypothesis Hvz : void_variants_zero S = true.
  Lemma void_zero_lookup n vs vo kp : lookup S n = Some (DUnion vs vo kp) -> void_zero S vs = true.
  Proof.
    intros L. unfold void_variants_zero in Hvz. rewrite forallb_forall in Hvz.
    exact (Hvz _ (nth_error_In _ _ L)).
  Qed.

  Lemma resolve_base t : (match t with TyRef _ => False | _ => True end) -> resolve S t = t.
  Proof. destruct t; intros H; try reflexivity. destruct H. Qed.

  (* ---------- encode ---------- *)
  Section Enc.
    Variable k : bk.

    Definition den_elems (e1 : vop) : list gval -> wm :=
      fix go (l : list gval) : wm := match l with [] => wnop | x :: r => den_enc T p k e1 x ;; go r end.
    Definition den_pairs (ea eb : vop) : list (gval * gval) -> wm :=
      fix go (l : list (gval * gval)) : wm :=
        match l with [] => wnop | (a, b) :: r => den_enc T p k ea a ;; den_enc T p k eb b ;; go r end.
    Definition den_fields (enc : list efield) : list (Z * gval) -> wm :=
      fix go (fs : list (Z * gval)) : wm :=
        match fs with
        | [] => wnop
        | (id, x) :: r =>
            match find_ef enc id with
            | Some f => den_wfield p (fun e => den_enc T p k e x) (fun kd => w_kind p k kd x) (ef_op f) id ;; go r
            | None => wfail
            end
        end.

    Lemma den_enc_list e l : den_enc T p k e (GList l) =
      match vres T false (vfuel T) e with
      | VList et e1 => w_coll_begin p et (Z.of_nat (length l)) ;; den_elems e1 l
      | _ => wfail
      end.
    Proof. reflexivity. Qed.
    Lemma den_enc_set e l : den_enc T p k e (GSet l) =
      match vres T false (vfuel T) e with
      | VSet _ et e1 => w_coll_begin p et (Z.of_nat (length l)) ;; den_elems e1 l
      | _ => wfail
      end.
    Proof. reflexivity. Qed.
    Lemma den_enc_map e l : den_enc T p k e (GMap l) =
      match vres T false (vfuel T) e with
      | VMap _ kt vt ea eb => w_map_begin p kt vt (Z.of_nat (length l)) ;; den_pairs ea eb l
      | _ => wfail
      end.
    Proof. reflexivity. Qed.
    Lemma den_enc_struct e fs unk : den_enc T p k e (GStruct fs unk) =
      match vres T false (vfuel T) e with
      | VPath n =>
          match row T n with
          | EStruct _ enc _ _ _ _ => w_struct_begin p ;; den_fields enc fs ;; w_unknown k unk ;; w_field_stop p ;; w_struct_end p
          | _ => wfail
          end
      | _ => wfail
      end.
    Proof. reflexivity. Qed.
    Lemma den_enc_union e id x : den_enc T p k e (GUnion id x) =
      match vres T false (vfuel T) e with
      | VPath n =>
          match row T n with
          | EUnion _ enc _ _ _ _ =>
              match find_ef enc id with
              | Some f =>
                  w_struct_begin p ;;
                  den_wfield p (fun e => den_enc T p k e x) (fun kd => w_kind p k kd x) (ef_op f) id ;;
                  w_field_stop p ;; w_struct_end p
              | None => wfail
              end
          | _ => wfail
          end
      | _ => wfail
      end.
    Proof. reflexivity. Qed.

    Lemma enc_ty_kind t kd x : ty_kind t = Some kd -> enc_ty S p k t x = w_kind p k kd x.
    Proof. destruct t; intros H; inversion H; subst; destruct x; reflexivity. Qed.

    (* one field statement *)
    Lemma wfield_presc f id x :
      (forall t, den_enc T p k (presc_vop S t) x = enc_ty S p k t x) ->
      den_wfield p (fun e => den_enc T p k e x) (fun kd => w_kind p k kd x) (ef_op (presc_field S false f)) id
      = enc_field S p k f id x.
    Proof.
      intros IH. unfold enc_field, presc_field. cbn [ef_op].
      destruct (is_void (resolve S (f_ty f))) eqn:V; [reflexivity|].
      destruct (f_ty f) as [| | | | | | | | | |et|et|kt vt|n] eqn:E; cbn [presc_fop den_wfield].
      - rewrite (enc_ty_kind TyBool KBool x eq_refl). reflexivity.
      - rewrite (enc_ty_kind TyI8 KI8 x eq_refl). reflexivity.
      - rewrite (enc_ty_kind TyI16 KI16 x eq_refl). reflexivity.
      - rewrite (enc_ty_kind TyI32 KI32 x eq_refl). reflexivity.
      - rewrite (enc_ty_kind TyI64 KI64 x eq_refl). reflexivity.
      - rewrite (enc_ty_kind TyDouble KF64 x eq_refl). reflexivity.
      - rewrite (enc_ty_kind TyString KFastStr x eq_refl). reflexivity.
      - rewrite (enc_ty_kind TyBinary KBytes x eq_refl). reflexivity.
      - rewrite (enc_ty_kind TyUuid KUuid x eq_refl). reflexivity.
      - unfold resolve in V. cbn in V. discriminate V.
      - change (VList (ttype_of_ty S et) (presc_vop S et)) with (presc_vop S (TyList et)). rewrite IH. reflexivity.
      - change (VSet false (ttype_of_ty S et) (presc_vop S et)) with (presc_vop S (TySet et)). rewrite IH. reflexivity.
      - change (VMap false (ttype_of_ty S kt) (ttype_of_ty S vt) (presc_vop S kt) (presc_vop S vt)) with (presc_vop S (TyMap kt vt)).
        rewrite IH. reflexivity.
      - destruct (lookup S n) as [[| |ms|]|] eqn:L; cbn [den_wfield]; change (VPath n) with (presc_vop S (TyRef n)); rewrite IH;
          try reflexivity.
        unfold ttype_of_ty, resolve. cbn [resolve_n]. rewrite L. cbn. rewrite L. reflexivity.
    Qed.

    Theorem den_enc_presc : forall v t, (ck = true \/ no_uu v = true) ->
      den_enc T p k (presc_vop S t) v = enc_ty S p k t v.
    Proof.
      intros v. induction v as [b|z|z|z|z|z|l|l| |z|l HF|l HF|l HF|fs unk HF|id x IH|u] using gval_ind'; intros t Hu;
        try (cbn [den_enc enc_ty]; rewrite vres_res; destruct (resolve S t); reflexivity).
      - (* enum *)
        cbn [den_enc enc_ty]. rewrite vres_res. destruct (resolve S t); try reflexivity. cbn [presc_vop]. rewrite row_presc.
        destruct (lookup S n) as [[| | |]|]; reflexivity.
      - (* list *)
        rewrite den_enc_list, enc_ty_list, vres_res. destruct (resolve S t) as [| | | | | | | | | |et|et|kt vt|n]; try reflexivity.
        cbn [presc_vop]. f_equal.
        assert (Hl : ck = true \/ forallb no_uu l = true) by (destruct Hu as [?|Hu]; [left; assumption|right; exact Hu]).
        clear Hu. induction HF as [|x r Hx Hr IHr]; [reflexivity|]. cbn [den_elems]. rewrite enc_elems_cons.
        assert (Hx' : ck = true \/ no_uu x = true) by (destruct Hl as [?|Hl]; [left; assumption|right; cbn in Hl; apply andb_prop in Hl; tauto]).
        assert (Hr' : ck = true \/ forallb no_uu r = true) by (destruct Hl as [?|Hl]; [left; assumption|right; cbn in Hl; apply andb_prop in Hl; tauto]).
        rewrite (Hx et Hx'). f_equal. exact (IHr Hr').
      - (* set *)
        rewrite den_enc_set, enc_ty_set, vres_res. destruct (resolve S t) as [| | | | | | | | | |et|et|kt vt|n]; try reflexivity.
        cbn [presc_vop]. f_equal.
        assert (Hl : ck = true \/ forallb no_uu l = true) by (destruct Hu as [?|Hu]; [left; assumption|right; exact Hu]).
        clear Hu. induction HF as [|x r Hx Hr IHr]; [reflexivity|]. cbn [den_elems]. rewrite enc_elems_cons.
        assert (Hx' : ck = true \/ no_uu x = true) by (destruct Hl as [?|Hl]; [left; assumption|right; cbn in Hl; apply andb_prop in Hl; tauto]).
        assert (Hr' : ck = true \/ forallb no_uu r = true) by (destruct Hl as [?|Hl]; [left; assumption|right; cbn in Hl; apply andb_prop in Hl; tauto]).
        rewrite (Hx et Hx'). f_equal. exact (IHr Hr').
      - (* map *)
        rewrite den_enc_map, enc_ty_map, vres_res. destruct (resolve S t) as [| | | | | | | | | |et|et|kt vt|n]; try reflexivity.
        cbn [presc_vop]. f_equal.
        assert (Hl : ck = true \/ forallb (fun q => no_uu (fst q) && no_uu (snd q))%bool l = true)
          by (destruct Hu as [?|Hu]; [left; assumption|right; exact Hu]).
        clear Hu. induction HF as [|[a b] r [Ha Hb] Hr IHr]; [reflexivity|]. cbn [den_pairs]. rewrite enc_pairs_cons. cbn [fst snd] in *.
        assert (Hab : (ck = true \/ no_uu a = true) /\ (ck = true \/ no_uu b = true) /\
                      (ck = true \/ forallb (fun q => no_uu (fst q) && no_uu (snd q))%bool r = true)).
        { destruct Hl as [?|Hl]; [tauto|]. cbn in Hl. apply andb_prop in Hl as [H1 H2]. apply andb_prop in H1. tauto. }
        destruct Hab as (Ha' & Hb' & Hr'). rewrite (Ha kt Ha'), (Hb vt Hb'). do 2 f_equal. exact (IHr Hr').
      - (* struct *)
        rewrite den_enc_struct, enc_ty_struct, vres_res. destruct (resolve S t) as [| | | | | | | | | |et|et|kt vt|n]; try reflexivity.
        cbn [presc_vop]. rewrite row_presc. destruct (lookup S n) as [[dfs kp ia| | |]|]; try reflexivity.
        cbn [presc_row].
        assert (Hl : ck = true \/ forallb (fun q => no_uu (snd q)) fs = true) by (destruct Hu as [?|Hu]; [left; assumption|right; exact Hu]).
        clear Hu.
        enough (EF : den_fields (presc_fields S false dfs) fs = enc_fields S p k dfs fs) by (rewrite EF; reflexivity).
        induction HF as [|[id x] r Hx Hr IHr]; [reflexivity|]. cbn [den_fields]. rewrite enc_fields_cons. cbn [snd] in Hx.
        rewrite find_ef_fields. destruct (find_field dfs id) as [f|]; [|reflexivity]. cbn [option_map].
        assert (Hx' : ck = true \/ no_uu x = true) by (destruct Hl as [?|Hl]; [left; assumption|right; cbn in Hl; apply andb_prop in Hl; tauto]).
        assert (Hr' : ck = true \/ forallb (fun q => no_uu (snd q)) r = true)
          by (destruct Hl as [?|Hl]; [left; assumption|right; cbn in Hl; apply andb_prop in Hl; tauto]).
        rewrite (wfield_presc f id x (fun t0 => Hx t0 Hx')). f_equal. exact (IHr Hr').
      - (* union *)
        rewrite den_enc_union, enc_ty_union, vres_res. destruct (resolve S t) as [| | | | | | | | | |et|et|kt vt|n]; try reflexivity.
        cbn [presc_vop]. rewrite row_presc. destruct (lookup S n) as [[|vs vo kp| |]|] eqn:L; try reflexivity.
        cbn [presc_row]. rewrite (find_ef_variants false vs id (void_zero_lookup n vs vo kp L)).
        destruct (find_variant vs id) as [vt|]; [|reflexivity]. cbn [option_map].
        assert (Hx' : ck = true \/ no_uu x = true) by (destruct Hu as [?|Hu]; [left; assumption|right; exact Hu]).
        enough (EX : den_wfield p (fun e => den_enc T p k e x) (fun kd => w_kind p k kd x) (ef_op (presc_variant S false (id, vt))) id
                     = enc_field S p k (mkField id Required vt None) id x) by (rewrite EX; reflexivity).
        rewrite <- (wfield_presc (mkField id Required vt None) id x (fun t0 => IH t0 Hx')).
        unfold presc_variant, presc_field. cbn [fst snd f_ty f_id]. destruct (is_void (resolve S vt)); reflexivity.
      - (* unknown union payload *)
        cbn [den_enc enc_ty]. rewrite vres_res. destruct (resolve S t) as [| | | | | | | | | |et|et|kt vt|n]; try reflexivity.
        cbn [presc_vop]. rewrite row_presc. destruct (lookup S n) as [[|vs vo kp| |]|]; try reflexivity.
        cbn [presc_row]. destruct Hu as [->|Hu]; [|discriminate Hu]. cbn [andb]. destruct kp; reflexivity.
    Qed.
  End Enc.

  (* ---------- size ---------- *)
  Definition dsz_elems (e1 : vop) : list gval -> lm :=
    fix go (l : list gval) : lm := match l with [] => lret 0 | x :: r => den_size T p e1 x +++ go r end.
  Definition dsz_pairs (ea eb : vop) : list (gval * gval) -> lm :=
    fix go (l : list (gval * gval)) : lm :=
      match l with [] => lret 0 | (a, b) :: r => den_size T p ea a +++ den_size T p eb b +++ go r end.
  Definition dsz_fields (sz : list efield) : list (Z * gval) -> lm :=
    fix go (fs : list (Z * gval)) : lm :=
      match fs with
      | [] => lret 0
      | (id, x) :: r =>
          match find_ef sz id with
          | Some f => den_lfield p (fun e => den_size T p e x) (fun kd => l_kind p kd x) (ef_op f) id +++ go r
          | None => lfail
          end
      end.

  Lemma den_size_list e l : den_size T p e (GList l) =
    match vres T true (vfuel T) e with
    | VList et e1 => l_coll_begin p et (Z.of_nat (length l)) +++ dsz_elems e1 l
    | _ => lfail
    end.
  Proof. reflexivity. Qed.
  Lemma den_size_set e l : den_size T p e (GSet l) =
    match vres T true (vfuel T) e with
    | VSet _ et e1 => l_coll_begin p et (Z.of_nat (length l)) +++ dsz_elems e1 l
    | _ => lfail
    end.
  Proof. reflexivity. Qed.
  Lemma den_size_map e l : den_size T p e (GMap l) =
    match vres T true (vfuel T) e with
    | VMap _ kt vt ea eb => l_map_begin p kt vt (Z.of_nat (length l)) +++ dsz_pairs ea eb l
    | _ => lfail
    end.
  Proof. reflexivity. Qed.
  Lemma den_size_struct e fs unk : den_size T p e (GStruct fs unk) =
    match vres T true (vfuel T) e with
    | VPath n =>
        match row T n with
        | EStruct _ _ _ sz _ _ => l_struct_begin p +++ dsz_fields sz fs +++ l_unknown unk +++ l_field_stop p +++ l_struct_end p
        | _ => lfail
        end
    | _ => lfail
    end.
  Proof. reflexivity. Qed.
  Lemma den_size_union e id x : den_size T p e (GUnion id x) =
    match vres T true (vfuel T) e with
    | VPath n =>
        match row T n with
        | EUnion _ _ _ sz _ _ =>
            match find_ef sz id with
            | Some f =>
                l_struct_begin p +++
                den_lfield p (fun e => den_size T p e x) (fun kd => l_kind p kd x) (ef_op f) id +++
                l_field_stop p +++ l_struct_end p
            | None => lfail
            end
        | _ => lfail
        end
    | _ => lfail
    end.
  Proof. reflexivity. Qed.

  Lemma size_ty_kind t kd x : ty_kind t = Some kd -> size_ty S p t x = l_kind p kd x.
  Proof. destruct t; intros H; inversion H; subst; destruct x; reflexivity. Qed.

  Lemma lfield_presc f id x :
    (forall t, den_size T p (presc_vop S t) x = size_ty S p t x) ->
    den_lfield p (fun e => den_size T p e x) (fun kd => l_kind p kd x) (ef_op (presc_field S true f)) id
    = size_field S p f id x.
  Proof.
    intros IH. unfold size_field, presc_field. cbn [ef_op].
    destruct (is_void (resolve S (f_ty f))) eqn:V; [reflexivity|].
    destruct (f_ty f) as [| | | | | | | | | |et|et|kt vt|n] eqn:E; cbn [presc_fop den_lfield].
    - rewrite (size_ty_kind TyBool KBool x eq_refl). reflexivity.
    - rewrite (size_ty_kind TyI8 KI8 x eq_refl). reflexivity.
    - rewrite (size_ty_kind TyI16 KI16 x eq_refl). reflexivity.
    - rewrite (size_ty_kind TyI32 KI32 x eq_refl). reflexivity.
    - rewrite (size_ty_kind TyI64 KI64 x eq_refl). reflexivity.
    - rewrite (size_ty_kind TyDouble KF64 x eq_refl). reflexivity.
    - rewrite (size_ty_kind TyString KFastStr x eq_refl). reflexivity.
    - rewrite (size_ty_kind TyBinary KBytes x eq_refl). reflexivity.
    - rewrite (size_ty_kind TyUuid KUuid x eq_refl). reflexivity.
    - unfold resolve in V. cbn in V. discriminate V.
    - change (VList (ttype_of_ty S et) (presc_vop S et)) with (presc_vop S (TyList et)). rewrite IH. reflexivity.
    - change (VSet false (ttype_of_ty S et) (presc_vop S et)) with (presc_vop S (TySet et)). rewrite IH. reflexivity.
    - change (VMap false (ttype_of_ty S kt) (ttype_of_ty S vt) (presc_vop S kt) (presc_vop S vt)) with (presc_vop S (TyMap kt vt)).
      rewrite IH. reflexivity.
    - unfold size_field_ttype, is_nonenum_path.
      destruct (lookup S n) as [[| |ms|]|] eqn:L; cbn [den_lfield]; change (VPath n) with (presc_vop S (TyRef n)); rewrite IH;
        try reflexivity.
      unfold ttype_of_ty, resolve. cbn [resolve_n]. rewrite L. cbn. rewrite L. reflexivity.
  Qed.

  Theorem den_size_presc : forall v t, (ck = true \/ no_uu v = true) ->
    den_size T p (presc_vop S t) v = size_ty S p t v.
  Proof.
    intros v. induction v as [b|z|z|z|z|z|l|l| |z|l HF|l HF|l HF|fs unk HF|id x IH|u] using gval_ind'; intros t Hu;
      try (cbn [den_size size_ty]; rewrite vres_res; destruct (resolve S t); reflexivity).
    - cbn [den_size size_ty]. rewrite vres_res. destruct (resolve S t); try reflexivity. cbn [presc_vop]. rewrite row_presc.
      destruct (lookup S n) as [[| | |]|]; reflexivity.
    - rewrite den_size_list, size_ty_list, vres_res. destruct (resolve S t) as [| | | | | | | | | |et|et|kt vt|n]; try reflexivity.
      cbn [presc_vop]. f_equal.
      assert (Hl : ck = true \/ forallb no_uu l = true) by (destruct Hu as [?|Hu]; [left; assumption|right; exact Hu]).
      clear Hu. induction HF as [|x r Hx Hr IHr]; [reflexivity|]. cbn [dsz_elems]. rewrite size_elems_cons.
      assert (Hx' : ck = true \/ no_uu x = true) by (destruct Hl as [?|Hl]; [left; assumption|right; cbn in Hl; apply andb_prop in Hl; tauto]).
      assert (Hr' : ck = true \/ forallb no_uu r = true) by (destruct Hl as [?|Hl]; [left; assumption|right; cbn in Hl; apply andb_prop in Hl; tauto]).
      rewrite (Hx et Hx'). f_equal. exact (IHr Hr').
    - rewrite den_size_set, size_ty_set, vres_res. destruct (resolve S t) as [| | | | | | | | | |et|et|kt vt|n]; try reflexivity.
      cbn [presc_vop]. f_equal.
      assert (Hl : ck = true \/ forallb no_uu l = true) by (destruct Hu as [?|Hu]; [left; assumption|right; exact Hu]).
      clear Hu. induction HF as [|x r Hx Hr IHr]; [reflexivity|]. cbn [dsz_elems]. rewrite size_elems_cons.
      assert (Hx' : ck = true \/ no_uu x = true) by (destruct Hl as [?|Hl]; [left; assumption|right; cbn in Hl; apply andb_prop in Hl; tauto]).
      assert (Hr' : ck = true \/ forallb no_uu r = true) by (destruct Hl as [?|Hl]; [left; assumption|right; cbn in Hl; apply andb_prop in Hl; tauto]).
      rewrite (Hx et Hx'). f_equal. exact (IHr Hr').
    - rewrite den_size_map, size_ty_map, vres_res. destruct (resolve S t) as [| | | | | | | | | |et|et|kt vt|n]; try reflexivity.
      cbn [presc_vop]. f_equal.
      assert (Hl : ck = true \/ forallb (fun q => no_uu (fst q) && no_uu (snd q))%bool l = true)
        by (destruct Hu as [?|Hu]; [left; assumption|right; exact Hu]).
      clear Hu. induction HF as [|[a b] r [Ha Hb] Hr IHr]; [reflexivity|]. cbn [dsz_pairs]. rewrite size_pairs_cons. cbn [fst snd] in *.
      assert (Hab : (ck = true \/ no_uu a = true) /\ (ck = true \/ no_uu b = true) /\
                    (ck = true \/ forallb (fun q => no_uu (fst q) && no_uu (snd q))%bool r = true)).
      { destruct Hl as [?|Hl]; [tauto|]. cbn in Hl. apply andb_prop in Hl as [H1 H2]. apply andb_prop in H1. tauto. }
      destruct Hab as (Ha' & Hb' & Hr'). rewrite (Ha kt Ha'), (Hb vt Hb'). rewrite (IHr Hr'). reflexivity.
    - rewrite den_size_struct, size_ty_struct, vres_res. destruct (resolve S t) as [| | | | | | | | | |et|et|kt vt|n]; try reflexivity.
      cbn [presc_vop]. rewrite row_presc. destruct (lookup S n) as [[dfs kp ia| | |]|]; try reflexivity.
      cbn [presc_row].
      assert (Hl : ck = true \/ forallb (fun q => no_uu (snd q)) fs = true) by (destruct Hu as [?|Hu]; [left; assumption|right; exact Hu]).
      clear Hu.
      enough (EF : dsz_fields (presc_fields S true dfs) fs = size_fields S p dfs fs) by (rewrite EF; reflexivity).
      induction HF as [|[id x] r Hx Hr IHr]; [reflexivity|]. cbn [dsz_fields]. rewrite size_fields_cons. cbn [snd] in Hx.
      rewrite find_ef_fields. destruct (find_field dfs id) as [f|]; [|reflexivity]. cbn [option_map].
      assert (Hx' : ck = true \/ no_uu x = true) by (destruct Hl as [?|Hl]; [left; assumption|right; cbn in Hl; apply andb_prop in Hl; tauto]).
      assert (Hr' : ck = true \/ forallb (fun q => no_uu (snd q)) r = true)
        by (destruct Hl as [?|Hl]; [left; assumption|right; cbn in Hl; apply andb_prop in Hl; tauto]).
      rewrite (lfield_presc f id x (fun t0 => Hx t0 Hx')). rewrite (IHr Hr'). reflexivity.
    - rewrite den_size_union, size_ty_union, vres_res. destruct (resolve S t) as [| | | | | | | | | |et|et|kt vt|n]; try reflexivity.
      cbn [presc_vop]. rewrite row_presc. destruct (lookup S n) as [[|vs vo kp| |]|] eqn:L; try reflexivity.
      cbn [presc_row]. rewrite (find_ef_variants true vs id (void_zero_lookup n vs vo kp L)).
      destruct (find_variant vs id) as [vt|]; [|reflexivity]. cbn [option_map].
      assert (Hx' : ck = true \/ no_uu x = true) by (destruct Hu as [?|Hu]; [left; assumption|right; exact Hu]).
      enough (EX : den_lfield p (fun e => den_size T p e x) (fun kd => l_kind p kd x) (ef_op (presc_variant S true (id, vt))) id
                   = size_field S p (mkField id Required vt None) id x) by (rewrite EX; reflexivity).
      rewrite <- (lfield_presc (mkField id Required vt None) id x (fun t0 => IH t0 Hx')).
      unfold presc_variant, presc_field. cbn [fst snd f_ty f_id]. destruct (is_void (resolve S vt)); reflexivity.
    - cbn [den_size size_ty]. rewrite vres_res. destruct (resolve S t) as [| | | | | | | | | |et|et|kt vt|n]; try reflexivity.
      cbn [presc_vop]. rewrite row_presc. destruct (lookup S n) as [[|vs vo kp| |]|]; try reflexivity.
      cbn [presc_row]. destruct Hu as [->|Hu]; [|discriminate Hu]. cbn [andb]. destruct kp; reflexivity.
  Qed.
End Presc.
