#!/usr/bin/env python3
"""Translator plug-in of family `idl` (loaded by tools/extract.py).

Re-reads pilota-thrift-parser/src/parser/*.rs and regenerates fam/idl/coq/Generated/IdlConsts.v:
every string the nom parser matches on -- each `tag("..")` / `tag_no_case("..")` literal of every parser
file, the `one_of` / `none_of` character sets (list separators, the escape set of literal.rs and its control
character), the `take_until` / `take_till` delimiters of the comment parser, the keyword -> item dispatch
table of thrift.rs -- so that a changed keyword / separator / escape in the Rust source changes the model.

Each parser file has an EXPECTED SHAPE: the ordered list of (call kind, role name) of its literal sites
outside `#[cfg(test)]`.  The values are taken from the source, the roles from the shape; if the kinds or
their number differ the translator fails loudly (exit 2) -- it never keeps an old value.

A second generated file, IdlUnicode.v, holds the table of non-ASCII code points for which Rust's
`char::is_alphanumeric` is true (used by exactly one parser: `alphanumeric_or_underscore` under
`peek(not(..))`).  It is dumped from the toolchain's std by compiling and running a 20-line Rust program
with the `rustc` on PATH (cached under /verif/.cache/idl_unicode by rustc version).
"""
import hashlib, os, re, subprocess, sys

PARSER_DIR = "pilota-thrift-parser/src/parser"


def die(msg):
    print("extract_idl.py: " + msg, file=sys.stderr)
    sys.exit(2)


def read(repo, rel):
    p = os.path.join(repo, rel)
    try:
        return open(p, encoding="utf-8").read()
    except OSError as e:
        die(f"cannot read {p}: {e}")


def strip_tests_and_comments(src):
    # drop everything from the first `#[cfg(test)]` / `#[test]` on (test modules sit at the end of each file)
    m = re.search(r"^#\[(cfg\(test\)|test)\]", src, flags=re.M)
    if m:
        src = src[:m.start()]
    out = []
    i, n = 0, len(src)
    # remove // comments but not inside string literals
    while i < n:
        c = src[i]
        if c == '"':
            j = i + 1
            while j < n and src[j] != '"':
                j += 2 if src[j] == "\\" else 1
            out.append(src[i:j + 1]); i = j + 1
        elif src.startswith('r#"', i):
            j = src.index('"#', i + 3)
            out.append(src[i:j + 2]); i = j + 2
        elif c == "'" and i + 2 < n and (src[i + 2] == "'" or (src[i + 1] == "\\" and i + 3 < n and src[i + 3] == "'")):
            j = i + (3 if src[i + 1] != "\\" else 4)
            out.append(src[i:j]); i = j
        elif src.startswith("//", i):
            j = src.find("\n", i)
            i = n if j < 0 else j
        elif src.startswith("/*", i):
            j = src.find("*/", i + 2)
            i = n if j < 0 else j + 2
        else:
            out.append(c); i += 1
    return "".join(out)


def unescape(lit):
    """Rust "..." or r#"..."# literal -> bytes"""
    if lit.startswith('r#"'):
        return lit[3:-2].encode("utf-8")
    body = lit[1:-1]
    out = bytearray()
    i = 0
    while i < len(body):
        c = body[i]
        if c == "\\":
            e = body[i + 1]
            m = {"n": 10, "t": 9, "r": 13, "\\": 92, "'": 39, '"': 34, "0": 0}
            if e not in m:
                die(f"unsupported escape \\{e} in {lit}")
            out.append(m[e]); i += 2
        else:
            out += c.encode("utf-8"); i += 1
    return bytes(out)


def unescape_char(lit):
    b = unescape('"' + lit[1:-1] + '"')
    if len(b) != 1:
        die(f"non-ASCII or multi-byte char literal {lit}")
    return b


STR = r'(r#".*?"#|"(?:[^"\\]|\\.)*")'
CHR = r"('(?:[^'\\]|\\.)')"
SITE = re.compile(
    r"\b(tag_no_case|tag|one_of|take_until)\(\s*" + STR + r"\s*\)"          # 1,2
    r"|\b(take_till)\(\s*\|c\|\s*c\s*==\s*" + CHR + r"\s*\)"                # 3,4
    r"|\b(none_of)\(\s*concat!\(\s*" + STR + r"\s*,\s*\$char\s*\)\s*\)"     # 5,6
    r"|\b(tag)\(\s*\$char\s*\)"                                             # 7
    r"|\b(escaped)\("                                                       # 8
    r"|(gen_parse_quote)!\(\s*\w+\s*,\s*" + STR + r"\s*\)"                  # 9,10
    r"|" + STR + r"\s*=>\s*(unpack)!\((\w+)\)"                              # 11,12,13
    r"|\.(scope)\.0\s*==\s*" + STR,                                       # 14,15
    flags=re.S)


def sites(src):
    out = []
    for m in SITE.finditer(src):
        if m.group(1):
            out.append((m.group(1), unescape(m.group(2))))
        elif m.group(3):
            out.append(("take_till", unescape_char(m.group(4))))
        elif m.group(5):
            out.append(("none_of_concat", unescape(m.group(6))))
        elif m.group(7):
            out.append(("tag_char", b""))
        elif m.group(8):
            # escaped(normal, 'c', escapable): pick the control char that follows the first argument
            mm = re.compile(r"\)\s*,\s*" + CHR + r"\s*,").search(src, m.end())
            if not mm:
                die("escaped(..): control character not found")
            out.append(("escaped_ctrl", unescape_char(mm.group(1))))
        elif m.group(9):
            out.append(("quote", unescape(m.group(10))))
        elif m.group(12):
            out.append(("arm:" + m.group(13), unescape(m.group(11))))
        elif m.group(14):
            out.append(("scope_eq", unescape(m.group(15))))
    return out


# expected shape of every parser file: (kind, role)
SHAPES = {
    "mod.rs": [("tag", "sym_path_dot"), ("one_of", "set_list_separator"),
               ("tag", "cmt_line_open"), ("take_till", "cmt_line_stop"),
               ("tag", "cmt_block_open"), ("take_until", "cmt_block_until"), ("tag", "cmt_block_close"),
               ("tag", "cmt_hash_open"), ("take_till", "cmt_hash_stop")],
    "identifier.rs": [],
    "literal.rs": [("escaped_ctrl", "lit_ctrl"), ("none_of_concat", "lit_ctrl_in_none_of"),
                   ("one_of", "set_escapable"), ("tag", "lit_empty"), ("tag_char", None), ("tag_char", None),
                   ("quote", "lit_quote_single"), ("quote", "lit_quote_double")],
    "annotation.rs": [("tag", "sym_ann_open"), ("tag", "sym_ann_eq"), ("tag", "sym_ann_close")],
    "include.rs": [("tag", "kw_include"), ("tag", "kw_cpp_include")],
    "namespace.rs": [("tag", "kw_namespace")] + [("tag", "scope_%d" % i) for i in range(18)],
    "typedef.rs": [("tag", "kw_typedef")],
    "ty.rs": [("tag", "kw_cpp_type"),
              ("tag", "kw_ty_string"), ("tag", "kw_ty_void"), ("tag", "kw_ty_byte"), ("tag", "kw_ty_bool"),
              ("tag", "kw_ty_binary"), ("tag", "kw_ty_i8"), ("tag", "kw_ty_i16"), ("tag", "kw_ty_i32"),
              ("tag", "kw_ty_i64"), ("tag", "kw_ty_double"), ("tag", "kw_ty_uuid"),
              ("tag", "kw_ty_list"), ("tag", "sym_list_lt"), ("tag", "sym_list_gt"),
              ("tag", "kw_ty_set"), ("tag", "sym_set_lt"), ("tag", "sym_set_gt"),
              ("tag", "kw_ty_map"), ("tag", "sym_map_lt"), ("tag", "sym_map_gt")],
    "constant.rs": [("tag", "kw_true"), ("tag", "kw_false"),
                    ("tag", "sym_clist_open"), ("tag", "sym_clist_close"),
                    ("tag", "sym_cmap_open"), ("tag", "sym_cmap_colon"), ("tag", "sym_cmap_close"),
                    ("tag", "kw_const"), ("tag", "sym_const_eq"),
                    ("tag", "sym_int_minus"), ("tag", "sym_int_hex"),
                    ("tag", "sym_dbl_minus"), ("tag", "sym_dbl_plus"),
                    ("tag", "sym_dbl_dot_a"), ("tag_no_case", "sym_dbl_exp_a"),
                    ("tag", "sym_dbl_dot_b"), ("tag_no_case", "sym_dbl_exp_b"),
                    ("tag_no_case", "sym_dbl_exp_c")],
    "field.rs": [("tag", "kw_required"), ("tag", "kw_optional"), ("tag", "sym_field_colon"), ("tag", "sym_field_eq")],
    "struct_.rs": [("tag", "kw_struct"), ("tag", "kw_union"), ("tag", "kw_exception"),
                   ("tag", "sym_struct_open"), ("tag", "sym_struct_close")],
    "enum_.rs": [("tag", "sym_enum_eq"), ("tag", "kw_enum"), ("tag", "sym_enum_open"), ("tag", "sym_enum_close")],
    "function.rs": [("tag", "kw_oneway"), ("tag", "sym_fn_open"), ("tag", "sym_fn_close"),
                    ("tag", "kw_throws"), ("tag", "sym_throws_open"), ("tag", "sym_throws_close")],
    "service.rs": [("tag", "kw_service"), ("tag", "kw_extends"), ("tag", "sym_service_open"), ("tag", "sym_service_close")],
    "thrift.rs": [("arm:Include", "arm_include"), ("arm:CppInclude", "arm_cpp_include"),
                  ("arm:Namespace", "arm_namespace"), ("arm:Typedef", "arm_typedef"), ("arm:Constant", "arm_const"),
                  ("arm:Enum", "arm_enum"), ("arm:Struct", "arm_struct"), ("arm:Union", "arm_union"),
                  ("arm:Exception", "arm_exception"), ("arm:Service", "arm_service"),
                  ("scope_eq", "package_scope")],
}

# character-class closures and other code-like sites whose text is pinned (a change means the hand model
# of that clause must be re-read): (file, regex that must match exactly `count` times)
PINNED = [
    ("identifier.rs", r"satisfy\(\|c\| c\.is_ascii_alphabetic\(\) \|\| c == '_'\)", 1),
    ("identifier.rs", r"take_while\(\|c: char\| c\.is_ascii_alphanumeric\(\) \|\| c == '_'\)", 1),
    ("annotation.rs", r"satisfy\(\|c\| c\.is_ascii_alphabetic\(\) \|\| c == '_'\)", 1),
    ("annotation.rs", r"take_while\(\|c: char\| c\.is_ascii_alphanumeric\(\) \|\| c == '_' \|\| c == '\.'\)", 1),
    ("thrift.rs", r"satisfy\(\|c\| c\.is_ascii_alphabetic\(\)\)", 1),
    ("thrift.rs", r"take_while\(\|c: char\| c\.is_ascii_alphanumeric\(\) \|\| c == '_'\)", 1),
    ("thrift.rs", r"let \(input, _\) = opt\(blank\)\(input\)\?;\s*let \(remain, items\) = many_till\(", 1),
    ("mod.rs", r"satisfy\(\|c: char\| c\.is_alphanumeric\(\) \|\| c == '_'\)", 1),
    ("field.rs", r"id\.parse::<i32>\(\)", 1),
    ("constant.rs", r"i64::from_str_radix\(d, 16\)", 1),
]


def coq_bytes(b):
    """Coq term of type list byte"""
    return "[" + "; ".join('x%02x' % c for c in b) + "]"


def comment_of(b):
    s = b.decode("latin-1")
    s = "".join(ch if 32 <= ord(ch) < 127 and ch not in "*()\"" else "?" for ch in s)
    return s


def gen_consts(repo):
    out = ["(* GENERATED by tools/extract_idl.py from pilota-thrift-parser/src/parser/*.rs -- do not edit *)",
           "From Coq Require Import List.", "From Coq.Strings Require Import Byte.", "Import ListNotations.", ""]
    allvals = {}
    for fn in sorted(SHAPES):
        src = strip_tests_and_comments(read(repo, os.path.join(PARSER_DIR, fn)))
        got = sites(src)
        want = SHAPES[fn]
        if [k for k, _ in got] != [k for k, _ in want]:
            die(f"{fn}: unexpected shape: literal sites {[k for k, _ in got]} (expected {[k for k, _ in want]})")
        out.append(f"(* {fn} *)")
        for (kind, val), (_, role) in zip(got, want):
            if role is None:
                continue
            if role in allvals:
                die(f"duplicate role {role}")
            allvals[role] = val
            out.append(f"Definition {role} : list byte := {coq_bytes(val)}.  (* {kind} <{comment_of(val)}> *)")
        out.append("")
    for fn, rx, cnt in PINNED:
        src = strip_tests_and_comments(read(repo, os.path.join(PARSER_DIR, fn)))
        n = len(re.findall(rx, src))
        if n != cnt:
            die(f"{fn}: pinned clause /{rx}/ found {n} times (expected {cnt}); the hand model of this clause must be re-read")
    # every parser file is accounted for
    have = sorted(f for f in os.listdir(os.path.join(repo, PARSER_DIR)) if f.endswith(".rs"))
    if have != sorted(SHAPES):
        die(f"parser files changed: {have}")
    # derived tables
    scopes = [allvals["scope_%d" % i] for i in range(18)]
    out.append("Definition scope_tags : list (list byte) :=\n  [" + ";\n   ".join(coq_bytes(s) for s in scopes) + "].\n")
    # the none_of set of a quote parser = concat!(prefix, quote char)
    for q in ("single", "double"):
        v = allvals["lit_ctrl_in_none_of"] + allvals["lit_quote_" + q]
        out.append(f"Definition set_none_of_{q} : list byte := {coq_bytes(v)}.")
    if len(allvals["lit_quote_single"]) != 1 or len(allvals["lit_quote_double"]) != 1:
        die("quote delimiters are expected to be single bytes")
    for r in ("cmt_line_stop", "cmt_hash_stop", "lit_ctrl"):
        if len(allvals[r]) != 1:
            die(f"{r}: expected one byte")
    return "\n".join(out) + "\n"


DUMP_RS = r"""
fn main() {
    // ranges [lo, hi] of code points >= 0x80 with char::is_alphanumeric
    let mut start: Option<u32> = None;
    let mut prev = 0u32;
    for cp in 0x80u32..=0x110000 {
        let a = cp <= 0x10FFFF && char::from_u32(cp).map(|c| c.is_alphanumeric()).unwrap_or(false);
        match (a, start) {
            (true, None) => start = Some(cp),
            (false, Some(s)) => { println!("{} {}", s, prev); start = None; }
            _ => {}
        }
        prev = cp;
    }
}
"""


def unicode_ranges():
    root = os.path.join(os.path.dirname(os.path.abspath(__file__)), "..", ".cache", "idl_unicode")
    os.makedirs(root, exist_ok=True)
    try:
        ver = subprocess.run(["rustc", "--version", "--verbose"], capture_output=True, text=True, check=True).stdout
    except Exception as e:
        die(f"rustc not runnable: {e}")
    key = hashlib.sha256((ver + DUMP_RS).encode()).hexdigest()[:16]
    cache = os.path.join(root, key + ".txt")
    if not os.path.exists(cache):
        src = os.path.join(root, key + ".rs")
        exe = os.path.join(root, key + ".exe")
        open(src, "w").write(DUMP_RS)
        p = subprocess.run(["rustc", "-O", "-o", exe, src], capture_output=True, text=True)
        if p.returncode != 0:
            die("rustc failed on the unicode dump program: " + p.stderr[-400:])
        p = subprocess.run([exe], capture_output=True, text=True)
        if p.returncode != 0 or not p.stdout.strip():
            die("unicode dump program failed")
        tmp = cache + ".tmp%d" % os.getpid()
        open(tmp, "w").write("# " + ver.splitlines()[0] + "\n" + p.stdout)
        os.replace(tmp, cache)
        for f in (src, exe):
            try: os.remove(f)
            except OSError: pass
    lines = open(cache).read().splitlines()
    rs = [tuple(int(x) for x in l.split()) for l in lines if l and not l.startswith("#")]
    if len(rs) < 100 or any(lo > hi or lo < 0x80 for lo, hi in rs):
        die("implausible unicode table")
    return lines[0], rs


def gen_unicode(repo):
    ver, rs = unicode_ranges()
    n = sum(hi - lo + 1 for lo, hi in rs)
    # FNV-1a over the little-endian u32 of every member, the same digest pv-harness-idl's selftest prints
    h = 0xcbf29ce484222325
    for lo, hi in rs:
        for cp in range(lo, hi + 1):
            for b in cp.to_bytes(4, "little"):
                h ^= b
                h = (h * 0x100000001b3) & 0xFFFFFFFFFFFFFFFF
    out = ["(* GENERATED by tools/extract_idl.py by running the toolchain's char::is_alphanumeric over all code points",
           f"   >= 0x80 ({ver.lstrip('# ')}); {len(rs)} ranges, {n} code points, fnv={h:016x} -- do not edit *)",
           "From Coq Require Import NArith List.", "Import ListNotations.", "Open Scope N_scope.", "",
           f"Definition unicode_alnum_count : N := {n}.",
           "Definition unicode_alnum_ranges : list (N * N) :=", "  ["]
    out.append(";\n".join("   (%d, %d)" % r for r in rs))
    out.append("  ].")
    return "\n".join(out) + "\n"


def unicode_digest():
    """(count, fnv) of the generated table, for comparison with the harness selftest"""
    ver, rs = unicode_ranges()
    n = sum(hi - lo + 1 for lo, hi in rs)
    h = 0xcbf29ce484222325
    for lo, hi in rs:
        for cp in range(lo, hi + 1):
            for b in cp.to_bytes(4, "little"):
                h ^= b
                h = (h * 0x100000001b3) & 0xFFFFFFFFFFFFFFFF
    return n, "%016x" % h


GENERATORS = {
    "fam/idl/coq/Generated/IdlConsts.v": gen_consts,
    "fam/idl/coq/Generated/IdlUnicode.v": gen_unicode,
}

if __name__ == "__main__":
    repo = sys.argv[1] if len(sys.argv) > 1 else "/repo"
    sys.stdout.write(gen_consts(repo))
