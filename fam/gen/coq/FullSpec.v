(* Specification side of the last clause of C13 ("a reader with the full schema recovers the original value").

     sub_schema S W      S ⊑ W, decidable: the two schemas declare the same names (positions) with the same kinds;
                         typedefs agree; every field / variant the reader S declares is declared by the full schema W
                         with the same id, the same type and the same IDL default (requiredness and the const-ness of the
                         default may differ); a declaration of S that does NOT keep unknown fields has no extra
                         field / variant in W (what such a type ignores is lost by design)
     dfill W t a b       the permitted difference: b is a, except that some struct fields that hold their IDL default d
                         hold [fill_defaults W (f_ty f) d] instead -- the value every reader makes of the encoded default
                         (absent optional fields of d that have an IDL default themselves come back holding it: the
                         permitted round-trip difference of C02)
     defaults_closed W   every IDL default of W is already filled (all scalar / container-of-scalar defaults are): then
                         the difference vanishes
   Executable Gallina / one inductive relation; no proofs. *)
From PVGen Require Export Gen GenSpec EvoSpec KeepSpec.
From Coq Require Import Strings.Byte.
Open Scope Z_scope.

Fixpoint ty_eqb (a b : ty) {struct a} : bool :=
  match a, b with
  | TyBool, TyBool | TyI8, TyI8 | TyI16, TyI16 | TyI32, TyI32 | TyI64, TyI64 | TyDouble, TyDouble
  | TyString, TyString | TyBinary, TyBinary | TyUuid, TyUuid | TyVoid, TyVoid => true
  | TyList x, TyList y => ty_eqb x y
  | TySet x, TySet y => ty_eqb x y
  | TyMap x u, TyMap y v => ty_eqb x y && ty_eqb u v
  | TyRef n, TyRef m => Nat.eqb n m
  | _, _ => false
  end.

Fixpoint bytes_eqb (a b : list byte) {struct a} : bool :=
  match a, b with
  | [], [] => true
  | x :: a', y :: b' => Byte.eqb x y && bytes_eqb a' b'
  | _, _ => false
  end.

Fixpoint chunks_eqb (a b : list (list byte)) {struct a} : bool :=
  match a, b with
  | [], [] => true
  | x :: a', y :: b' => bytes_eqb x y && chunks_eqb a' b'
  | _, _ => false
  end.

Fixpoint gval_eqb (a b : gval) {struct a} : bool :=
  match a, b with
  | GBool x, GBool y => Bool.eqb x y
  | GI8 x, GI8 y => x =? y
  | GI16 x, GI16 y => x =? y
  | GI32 x, GI32 y => x =? y
  | GI64 x, GI64 y => x =? y
  | GDouble x, GDouble y => x =? y
  | GBytes x, GBytes y => bytes_eqb x y
  | GUuid x, GUuid y => bytes_eqb x y
  | GVoid, GVoid => true
  | GEnum x, GEnum y => x =? y
  | GList x, GList y =>
      (fix go (l m : list gval) {struct l} : bool :=
         match l, m with
         | [], [] => true
         | u :: l', v :: m' => gval_eqb u v && go l' m'
         | _, _ => false
         end) x y
  | GSet x, GSet y =>
      (fix go (l m : list gval) {struct l} : bool :=
         match l, m with
         | [], [] => true
         | u :: l', v :: m' => gval_eqb u v && go l' m'
         | _, _ => false
         end) x y
  | GMap x, GMap y =>
      (fix go (l m : list (gval * gval)) {struct l} : bool :=
         match l, m with
         | [], [] => true
         | (u1, u2) :: l', (v1, v2) :: m' => gval_eqb u1 v1 && gval_eqb u2 v2 && go l' m'
         | _, _ => false
         end) x y
  | GStruct f u, GStruct g v =>
      (fix go (l m : list (Z * gval)) {struct l} : bool :=
         match l, m with
         | [], [] => true
         | (i, x) :: l', (j, y) :: m' => (i =? j) && gval_eqb x y && go l' m'
         | _, _ => false
         end) f g && chunks_eqb u v
  | GUnion i x, GUnion j y => (i =? j) && gval_eqb x y
  | GUnionUnknown u, GUnionUnknown v => bytes_eqb u v
  | _, _ => false
  end.

(* same IDL default (the const flag only says HOW the emitted code installs it) *)
Definition dflt_eqb (a b : option (bool * gval)) : bool :=
  match a, b with
  | None, None => true
  | Some (_, x), Some (_, y) => gval_eqb x y
  | _, _ => false
  end.

(* the full schema's field g declares the reader's field f *)
Definition field_sub (f g : field) : bool :=
  (f_id f =? f_id g) && ty_eqb (f_ty f) (f_ty g) && dflt_eqb (f_dflt f) (f_dflt g).

Definition variant_sub (v w : Z * ty) : bool := (fst v =? fst w) && ty_eqb (snd v) (snd w).

Definition sub_decl (dS dW : decl) : bool :=
  match dS, dW with
  | DStruct fs kp _, DStruct fw _ _ =>
      forallb (fun f => existsb (field_sub f) fw) fs &&
      (kp || forallb (fun g => existsb (fun f => f_id f =? f_id g) fs) fw)
  | DUnion vs _ kp, DUnion vw _ _ =>
      forallb (fun v => existsb (variant_sub v) vw) vs &&
      (kp || forallb (fun w => existsb (fun v => fst v =? fst w) vs) vw)
  | DEnum _, DEnum _ => true
  | DTypedef a, DTypedef b => ty_eqb a b
  | _, _ => false
  end.

(* S ⊑ W *)
Fixpoint sub_schema (S W : schema) {struct S} : bool :=
  match S, W with
  | [], [] => true
  | a :: S', b :: W' => sub_decl a b && sub_schema S' W'
  | _, _ => false
  end.

(* ---------- the permitted difference ---------- *)
Inductive dfill (W : schema) : ty -> gval -> gval -> Prop :=
| df_refl t g : dfill W t g g
| df_dflt n dfs kp ia f b d :
    lookup W n = Some (DStruct dfs kp ia) -> In f dfs -> f_dflt f = Some (b, d) ->
    dfill W (f_ty f) d (fill_defaults W (f_ty f) d)
| df_list t et l l' : resolve W t = TyList et -> Forall2 (dfill W et) l l' -> dfill W t (GList l) (GList l')
| df_set t et l l' : resolve W t = TySet et -> Forall2 (dfill W et) l l' -> dfill W t (GSet l) (GSet l')
| df_map t kt vt l l' : resolve W t = TyMap kt vt ->
    Forall2 (fun a b => dfill W kt (fst a) (fst b) /\ dfill W vt (snd a) (snd b)) l l' -> dfill W t (GMap l) (GMap l')
| df_struct t n dfs kp ia fs fs' : resolve W t = TyRef n -> lookup W n = Some (DStruct dfs kp ia) ->
    Forall2 (fun a b => fst a = fst b /\ exists f, In f dfs /\ f_id f = fst a /\ dfill W (f_ty f) (snd a) (snd b)) fs fs' ->
    dfill W t (GStruct fs []) (GStruct fs' [])
| df_union t n vs vo kp id vt x x' : resolve W t = TyRef n -> lookup W n = Some (DUnion vs vo kp) ->
    find_variant vs id = Some vt -> dfill W vt x x' -> dfill W t (GUnion id x) (GUnion id x').

Definition defaults_closed (W : schema) : bool :=
  forallb (fun d => match d with
                    | DStruct fs _ _ =>
                        forallb (fun f => match f_dflt f with
                                          | Some (_, d) => gval_eqb (fill_defaults W (f_ty f) d) d
                                          | None => true
                                          end) fs
                    | _ => true
                    end) W.

(* field ids are pairwise distinct in every struct of the tree (what every writer produces: one wire field per declared
   field).  A repeated id is legal on the wire -- readers keep the LAST occurrence -- but the earlier occurrences are then
   lost by any decode / re-encode, with or without retention. *)
Fixpoint ids_distinct (v : tval) : bool :=
  match v with
  | VStruct fs =>
      nodup_ids (map fst fs) &&
      (fix go (fs : list (Z * tval)) : bool := match fs with [] => true | (_, x) :: r => ids_distinct x && go r end) fs
  | VList _ l | VSet _ l =>
      (fix go (l : list tval) : bool := match l with [] => true | x :: r => ids_distinct x && go r end) l
  | VMap _ _ l =>
      (fix go (l : list (tval * tval)) : bool :=
         match l with [] => true | (a, b) :: r => ids_distinct a && ids_distinct b && go r end) l
  | _ => true
  end.

(* ---------- zero-copy accounting of the emitted encoder on a LinkedBytes transport ----------
   what goes into nodes of its own (TBinary*OutputProtocol<&mut LinkedBytes> with zero_copy on): every string / binary
   payload and every retained unknown-field chunk of at least ZERO_COPY_THRESHOLD bytes, along the fields the encoder
   writes (a void-typed field writes nothing); everything else is copied.  Any other buffer flavour inserts nothing. *)
Definition bigk (k : bk) (l : list byte) : Z :=
  match k with
  | BLinked true => if zero_copy_threshold <=? Z.of_nat (length l) then Z.of_nat (length l) else 0
  | _ => 0
  end.

Fixpoint zc_total (S : schema) (k : bk) (t : ty) (v : gval) {struct v} : Z :=
  match v with
  | GBytes l => match resolve S t with TyString | TyBinary => bigk k l | _ => 0 end
  | GList l =>
      match resolve S t with
      | TyList et => (fix go (l : list gval) : Z := match l with [] => 0 | x :: r => zc_total S k et x + go r end) l
      | _ => 0
      end
  | GSet l =>
      match resolve S t with
      | TySet et => (fix go (l : list gval) : Z := match l with [] => 0 | x :: r => zc_total S k et x + go r end) l
      | _ => 0
      end
  | GMap l =>
      match resolve S t with
      | TyMap kt vt =>
          (fix go (l : list (gval * gval)) : Z :=
             match l with [] => 0 | (a, b) :: r => zc_total S k kt a + zc_total S k vt b + go r end) l
      | _ => 0
      end
  | GStruct fs unk =>
      match resolve S t with
      | TyRef n =>
          match lookup S n with
          | Some (DStruct dfs _ _) =>
              (fix go (fs : list (Z * gval)) : Z :=
                 match fs with
                 | [] => 0
                 | (id, x) :: r =>
                     match find_field dfs id with
                     | Some f => (if is_void (resolve S (f_ty f)) then 0 else zc_total S k (f_ty f) x) + go r
                     | None => 0
                     end
                 end) fs
              + fold_right (fun c a => bigk k c + a) 0 unk
          | _ => 0
          end
      | _ => 0
      end
  | GUnion id x =>
      match resolve S t with
      | TyRef n =>
          match lookup S n with
          | Some (DUnion vs _ _) =>
              match find_variant vs id with
              | Some vt => if is_void (resolve S vt) then 0 else zc_total S k vt x
              | None => 0
              end
          | _ => 0
          end
      | _ => 0
      end
  | GUnionUnknown u => bigk k u
  | _ => 0
  end.
