"""C02 -- generated Thrift types round trip under every protocol (sync and async).

Implementation oracle (what yields the replay files): for every emitted type T of the corpus, every
generated value v, every protocol and decode mode: bytes = REFERENCE encoding of v (pv/genref.py, written
from the Apache specs) ++ trailing bytes; the EMITTED T::decode / T::decode_async must return a value whose
Debug rendering, read back under the schema, equals fill_defaults(v), leave exactly the trailing bytes, and
the EMITTED encode of that value must reference-decode to the same value (exact double bits)."""
import os, random
from .. import core, gengen, genref, genrun

from ..gencheck import have_property_file
LEVEL = 'proof' if have_property_file('C02') else 'translation_validation'
PROP = 'C02'


def values_for(rng, sch, tname, tier):
    d = sch.types[tname]
    n = {'struct': 5, 'union': 6, 'enum': 2, 'typedef': 2}[d['kind']]
    if tier != 'quick':
        n *= 6
    ty = ('ref', tname)
    out = []
    for i in range(n):
        depth = [3, 2, 1, 3, 4, 0][i % 6]
        out.append(gengen.gen_value(rng, sch, ty, depth))
    if d['kind'] == 'struct':
        out.append(gengen.gen_value(rng, sch, ty, 0))       # only required fields
        # every optional field present
        full = {}
        for f in d['fields']:
            full[f['id']] = gengen.gen_value(rng, sch, f['ty'], 2)
        out.append(full)
    if d['kind'] == 'union':
        for var in d['variants']:
            out.append((var['id'], gengen.gen_value(rng, sch, var['ty'], 2)))
    return out


def gen_cases(gb, rng, tier):
    """-> list of dict(line, want, restlen, cfg, type, proto, mode, nontrivial)"""
    sch = gb.schema
    cases = []
    k = 0
    for cfg in gb.configs:
        for tname in sch.names_in(cfg):
            ty = ('ref', tname)
            for v in values_for(rng, sch, tname, tier):
                fv = gengen.fill_defaults(sch, ty, v)
                want = gengen.show(sch, ty, fv)
                want_nan = gengen.show(sch, ty, fv, nan_canon=True)
                nt = gengen.nontrivial(sch, ty, v)
                rest = bytes(rng.randrange(256) for _ in range(rng.choice([0, 0, 1, 5])))
                encs = {}
                for proto in genrun.SYNC_PROTOS:
                    rp = genrun.ref_proto(proto)
                    if rp not in encs:
                        encs[rp] = genref.encode(sch, ty, v, rp)
                    cases.append(dict(line=genrun.case_line('renc', cfg, tname, proto, 'sync', encs[rp] + rest),
                                      want=want, want_nan=want_nan, restlen=len(rest), cfg=cfg, type=tname, proto=proto, mode='sync', nontrivial=nt))
                for proto in genrun.ASYNC_PROTOS:
                    k += 1
                    if tier == 'quick' and (k * 7 // 3) % 3 != 0:
                        continue
                    mode = 'async:' + genrun.SCHEDULES[k % len(genrun.SCHEDULES)]
                    cases.append(dict(line=genrun.case_line('renc', cfg, tname, proto, mode, encs[proto] + rest),
                                      want=want, want_nan=want_nan, restlen=len(rest), cfg=cfg, type=tname, proto=proto, mode=mode, nontrivial=nt))
    return cases


def evaluate(gb, case, out):
    res = genrun.Res(out)
    why, size_why = genrun.check_roundtrip(gb, case['cfg'], case['type'], case['proto'], res, case['want'], case['restlen'], want_nan=case.get('want_nan'))
    if not why:
        return []
    cls = None
    if genrun.is_arg_swallow(gb.schema, case['cfg'], case['type'], case['mode']):
        cls = 'keep-is-arg-swallow'
    return [(why, cls)]


def run(chk, replay=None):
    from .. import gencheck
    return gencheck.run_check(chk, replay, PROP, gen_cases, evaluate,
                               rule="every emitted type of the corpus (structs, exceptions, unions, enums, typedefs, synthesised "
                                    "service Args/Result/Exception types) x generated values (depth 0-4; all-optional-present and "
                                    "required-only shapes; every union variant) x {binary, binary_le, compact, unchecked} sync + "
                                    "{binary, binary_le, compact} async under scripted schedules x builder configs; input = reference "
                                    "encoding ++ trailing bytes; non-trivial = value has a non-empty struct/container/union; distinct by "
                                    "SHA-1 of the case line")
