(* C02, corollaries: the round trip of the emitted code over the UNCHECKED binary codec and through the ASYNCHRONOUS
   decoder, composed from gen_roundtrip (RoundP) with the simulation theorems of the unchecked codec (UnsafeGenP: C11) and of
   the asynchronous decoder (AsyncGenP: C12). *)
From PVGen Require Import Gen GenSpec GenUnsafe Proofs.RoundP Proofs.UnsafeGenP Proofs.AsyncGenP.
From PV Require Import Proofs.HeaderP.
From Coq Require Import Lia.
Open Scope Z_scope.

(* binary protocol, unchecked writer into a window with room for the message, unchecked reader on what was written followed by
   ARBITRARY bytes [r]: the same segments as the checked writer, and the value (IDL defaults filled in) comes back, the cursor
   standing exactly at [r].  [K]: the turns the iterative skipper's loop needs (it has no bound in the code). *)
Theorem roundtrip_unchecked : forall S k zc t v,
  wf_schema S = true -> has_type S t v = true ->
  (match k with BContig => True | BLinked z => z = zc end) ->
  exists ss, enc_ty S PBinary k t v w0 = Ok (ss, w0) /\
    (forall cap, Z.of_nat (length (flat ss)) <= cap ->
       exists u', uenc_ty S zc t v (match k with BContig => uw_contig cap | BLinked _ => uw_linked cap end) = Ok (ss, u')) /\
    forall fuel r, (vsize (to_tval S t v) <= fuel)%nat ->
      exists K u', (forall fk, (K <= fk)%nat -> gen_udecode false S fk fuel t (mkU (flat ss ++ r) 0) = Ok (fill_defaults S t v, u')) /\
                   urest u' = r.
Proof.
  intros S k zc t v Hwf Ht Hk.
  destruct (gen_roundtrip S PBinary k t v Hwf Ht w0 eq_refl) as (ss & Hw & Hr).
  exists ss. split; [exact Hw|]. split.
  - intros cap Hc. destruct (gen_unchecked_write_eq S k zc t v ss w0 cap Hk Hw Hc) as (u' & Hu & _). exists u'. exact Hu.
  - intros fuel r Hf.
    assert (Hi : idle r0) by (split; reflexivity).
    pose proof (Hr fuel r r0 Hf Hi) as Hd.
    destruct (gen_unchecked_read_eq false S fuel t (flat ss ++ r) r0 _ _ Hd) as (K & u' & HK & Hrest & _).
    exists K, u'. split; [exact HK|exact Hrest].
Qed.
