(* C15, stage 5d: functions (oneway, result type, arguments, throws clause) and services (extends clause). *)
From PVIdl Require Import Comb Ast Parser Print Proofs.Total Proofs.RoundTok Proofs.RoundPath Proofs.RoundAnn Proofs.RoundTy
  Proofs.RoundKit Proofs.Lex Proofs.RoundNum Proofs.RoundConst Proofs.RoundDecl Proofs.RoundField.
From Coq Require Import ZifyN ZifyNat ZifyBool.
From Coq Require String.
Import String.StringSyntax.
Open Scope nat_scope.

Definition idh (b : byte) : bool := is_alpha b || is_underscore b.

(* the first byte of a type is the first byte of a word *)
Lemma ty_head (g : byte -> bool) t k : wf_ty t = true -> (forall b, idh b = true -> g b = true) -> hd_sat g (pr_ty t k) = true.
Proof.
  intros Hw Hg. destruct t as [b| | | |p]; cbn [pr_ty]; try (apply Hg; reflexivity).
  - destruct b; apply Hg; reflexivity.
  - cbn [wf_ty] in Hw. apply andb_prop in Hw. destruct Hw as [Hw _]. apply path_head; auto.
Qed.
Lemma type_head (g : byte -> bool) t k : wf_type t = true -> (forall b, idh b = true -> g b = true) -> hd_sat g (pr_type t k) = true.
Proof.
  intros Hw Hg. destruct t as [t [[bl a]|]]; cbn [pr_type wf_type] in *; [bsplit Hw|]; now apply ty_head.
Qed.

(* a keyword that is not a type word, followed by something that fails on a word character, fails on every type *)
Lemma ty_word_err {A} (kw : list byte) (rest : parser A) t k : wf_ty t = true -> forallb identch kw = true ->
  forallb (fun w => negb (bytes_eq w kw)) type_words = true ->
  match t with CTPath p => bytes_eq (cp_head p) kw = false | _ => True end ->
  (forall c r, identch c = true -> is_perr (rest (c :: r))) ->
  (ty_ends_word t = true -> nid k = true) ->
  is_perr ((fun i => do i, _ <- tag kw i ;; rest i) (pr_ty t k)).
Proof.
  intros Hw Hkw Hnw Hp Hrest Hk. cbn [type_words base_words app forallb] in Hnw.
  repeat match goal with H : _ && _ = true |- _ => apply andb_prop in H; destruct H end.
  repeat match goal with H : negb _ = true |- _ => apply negb_true_iff in H end.
  destruct t as [b|b1 b2 inner b3 cpp|cpp b1 b2 inner b3|cpp b1 b2 key b3 semi b4 value b5|p]; cbn [pr_ty wf_ty] in *.
  - destruct b; cbn [base_kw]; (apply container_word_err; [exact Hkw|reflexivity|apply Hk; reflexivity|assumption|exact Hrest]).
  - bsplit Hw. apply container_word_err; [exact Hkw|reflexivity| |assumption|exact Hrest]. apply blank_then; auto with bsdb.
  - bsplit Hw. apply container_word_err; [exact Hkw|reflexivity| |assumption|exact Hrest].
    destruct cpp as [c|]; cbn [pr_ocpp wf_ocpp] in *.
    + unfold pr_cpp, wf_cpp in *. match goal with H : _ && _ = true |- _ => bsplit H end. apply blank_then; auto with bsdb.
      intros E. match goal with H : negb (is_nil (cc_b1 c)) = true |- _ => rewrite E in H; discriminate end.
    + apply blank_then; auto with bsdb.
  - bsplit Hw. apply container_word_err; [exact Hkw|reflexivity| |assumption|exact Hrest].
    destruct cpp as [c|]; cbn [pr_ocpp wf_ocpp] in *.
    + unfold pr_cpp, wf_cpp in *. match goal with H : _ && _ = true |- _ => bsplit H end. apply blank_then; auto with bsdb.
      intros E. match goal with H : negb (is_nil (cc_b1 c)) = true |- _ => rewrite E in H; discriminate end.
    + apply blank_then; auto with bsdb.
  - apply andb_prop in Hw. destruct Hw as [Hw _]. unfold wf_path in Hw. apply andb_prop in Hw. destruct Hw as [Hh Ht].
    unfold pr_path. apply container_word_err; [exact Hkw|exact Hh|apply path_tail_head; auto|exact Hp|exact Hrest].
Qed.

Lemma type_word_err {A} (kw : list byte) (rest : parser A) t k : wf_type t = true -> forallb identch kw = true ->
  forallb (fun w => negb (bytes_eq w kw)) type_words = true ->
  match type_path_head t with Some h => bytes_eq h kw = false | None => True end ->
  (forall c r, identch c = true -> is_perr (rest (c :: r))) ->
  (type_ends_word t = true -> nid k = true) ->
  is_perr ((fun i => do i, _ <- tag kw i ;; rest i) (pr_type t k)).
Proof.
  intros Hw Hkw Hnw Hp Hrest Hk. destruct t as [t [[bl a]|]]; cbn [pr_type wf_type type_ends_word type_path_head] in *.
  - bsplit Hw. apply ty_word_err; auto; [destruct t; auto|]. intros _. apply blank_then; auto with bsdb.
  - apply ty_word_err; auto. destruct t; auto.
Qed.

Lemma head_not_in_1 t w ws : head_not_in t (w :: ws) = true ->
  match type_path_head t with Some h => bytes_eq h w = false | None => True end /\ head_not_in t ws = true.
Proof.
  unfold head_not_in. destruct (type_path_head t) as [h|]; [|auto]. cbn [bytes_in]. intros H. apply negb_true_iff, orb_false_elim in H.
  destruct H as [H1 H2]. split; [exact H1|]. now rewrite H2.
Qed.

Section Fn.
Variable lf : nat.
Variable whole : list byte.
Hypothesis Hlf : length whole < lf.
Variable df : nat.
Hypothesis Hdf : length whole < df.

Definition p_oneway : parser unit := fun i => do i, _ <- tag kw_oneway i ;; p_blank lf i.
Definition p_throws : parser (list Field) :=
  fun i => do i, _ <- tag kw_throws i ;; do i, _ <- opt (p_blank lf) i ;; do i, _ <- tag sym_throws_open i ;;
           do i, fs <- many1 lf (fld lf df) i ;; do i, _ <- opt (p_blank lf) i ;; do i, _ <- tag sym_throws_close i ;; POk i fs.
Lemma p_function_eq i : p_function lf df i =
  (do i, oneway <- pmap is_some (opt p_oneway) i ;;
   do i, t <- p_type lf df i ;; do i, _ <- p_blank lf i ;; do i, name <- p_ident i ;; do i, _ <- opt (p_blank lf) i ;;
   do i, _ <- tag sym_fn_open i ;; do i, arguments <- opt (many1 lf (fld lf df)) i ;; do i, _ <- opt (p_blank lf) i ;;
   do i, _ <- tag sym_fn_close i ;; do i, _ <- opt (p_blank lf) i ;; do i, throws <- opt p_throws i ;;
   do i, _ <- opt (p_blank lf) i ;; do i, an <- opt (p_annotations lf) i ;; do i, _ <- opt (p_list_separator lf) i ;;
   POk i (mkFunction name oneway t (map default_to_required (unwrap_or_default arguments))
                     (unwrap_or_default throws) (unwrap_or_default an))).
Proof. reflexivity. Qed.

Lemma throws_rest_err c r : identch c = true ->
  is_perr ((fun i => do i, _ <- opt (p_blank lf) i ;; do i, _ <- tag sym_throws_open i ;;
             do i, fs <- many1 lf (fld lf df) i ;; do i, _ <- opt (p_blank lf) i ;; do i, _ <- tag sym_throws_close i ;; POk i fs) (c :: r)).
Proof.
  intros Hc. cbn beta. rewrite (opt_err (p_blank lf)) by (now apply identch_not_blank). cbn [pbind]. apply pbind_err.
  apply tag_hd_ne. destruct (Byte.eqb c x28) eqn:E; [|reflexivity]. apply byte_dec_bl in E. subst. discriminate.
Qed.

(* the body of a function after the optional oneway *)
Definition fn_body (f : cfunction) (k : list byte) : list byte :=
  pr_type (fn_type f) (pr_blank (fn_b1 f) (fn_cname f ++ pr_blank (fn_b2 f)
     (txt "(" ++ pr_blank (fn_b0 f) (pr_fields (fn_args f) (txt ")" ++ pr_blank (fn_b3 f) (pr_throws (fn_cthrows f)
       (pr_oanns (fn_canns f) (pr_sep (fn_sep f) k)))))))).
Lemma pr_function_body f k : pr_function f k =
  match fn_coneway f with Some b => txt "oneway" ++ pr_blank b (fn_body f k) | None => fn_body f k end.
Proof. unfold pr_function, fn_body. destruct (fn_coneway f); reflexivity. Qed.

Lemma fld_err_nodigit b X : wf_blank b = true -> nb X = true -> hd_sat (fun c => negb (is_digit c)) X = true ->
  sfx (pr_blank b X) whole -> is_perr (fld lf df (pr_blank b X)).
Proof.
  intros Hb Hn Hd S. unfold fld. destruct (oblank lf whole Hlf b X Hb Hn S) as [o ->]. cbn [pbind].
  unfold p_field. apply pbind_err. unfold p_field_id. apply map_res_err, pbind_err, digit1_err, Hd.
Qed.

Lemma many1_err {A} (p : parser A) fuel i : is_perr (p i) -> is_perr (many1 fuel p i).
Proof. unfold many1. destruct (p i); cbn; intros H; try contradiction; exact I. Qed.

Lemma annkey_head (g : byte -> bool) key X : is_annkey key = true -> (forall b, idh b = true -> g b = true) -> hd_sat g (key ++ X) = true.
Proof.
  destruct key as [|h t]; [discriminate|]. cbn [is_annkey]. intros H Hg. apply andb_prop in H. destruct H as [H _]. cbn. now apply Hg.
Qed.
Lemma idh_nodigit b : idh b = true -> negb (is_digit b) = true.
Proof. destruct b; vm_compute; intro H; try reflexivity; discriminate H. Qed.
Lemma idh_nb b : idh b = true -> negb (blank_start b) = true.
Proof. destruct b; vm_compute; intro H; try reflexivity; discriminate H. Qed.

(* a function is not read as the throws clause of the function before it -- not even when its result type begins with
   the word throws: the clause continues with '(' and a field (which begins with a digit), a type with a '.', an
   annotation list (whose keys begin with a letter) or the function name *)
Lemma fn_not_throws f k : wf_function f = true -> sfx (pr_function f k) whole -> is_perr (p_throws (pr_function f k)).
Proof.
  intros Hw S. rewrite pr_function_body in *. unfold wf_function in Hw. bsplit Hw.
  destruct (fn_coneway f) as [b|].
  - unfold p_throws. apply pbind_err. apply tag_mism. reflexivity.
  - unfold fn_body in *. destruct (fn_type f) as [ty an] eqn:Et.
    assert (Wt : wf_type (CType ty an) = true) by assumption.
    assert (Hb1 : nid (pr_blank (fn_b1 f) (fn_cname f ++ pr_blank (fn_b2 f) (txt "(" ++ pr_blank (fn_b0 f) (pr_fields (fn_args f)
                   (txt ")" ++ pr_blank (fn_b3 f) (pr_throws (fn_cthrows f) (pr_oanns (fn_canns f) (pr_sep (fn_sep f) k)))))))) = true).
    { apply blank_then; auto with bsdb. intros E.
      match goal with H : negb (is_nil (fn_b1 f)) = true |- _ => rewrite E in H; discriminate end. }
    destruct (match ty with CTPath p => bytes_eq (cp_head p) kw_throws | _ => false end) eqn:Eh.
    + (* the result type begins with the word throws *)
      destruct ty as [| | | |[h tl]]; try discriminate. cbn [cp_head] in Eh. apply bytes_eq_eq in Eh. subst h.
      assert (Wp : wf_path (mkCPath kw_throws tl) = true).
      { destruct an as [[bl a]|]; cbn [wf_type wf_ty] in Wt; bsplit Wt; assumption. }
      unfold wf_path in Wp. cbn [cp_head cp_tail] in Wp. apply andb_prop in Wp. destruct Wp as [_ Wtl].
      unfold p_throws.
      destruct tl as [|[[b1 b2] s0] tl].
      * destruct an as [[bl a]|]; cbn [pr_type pr_ty] in *; unfold pr_path in *; cbn [cp_head cp_tail pr_path_tail] in *.
        -- cbn [wf_type] in Wt. bsplit Wt. rewrite tag_ok. cbn [pbind].
           match goal with |- context [opt (p_blank lf) (pr_blank bl ?X)] =>
             destruct (oblank lf whole Hlf bl X ltac:(assumption) eq_refl ltac:(sfx_of S)) as [o ->] end. cbn [pbind].
           unfold pr_anns in *. tg sym_throws_open (txt "("). apply pbind_err, many1_err.
           destruct a as [|a0 a]; [discriminate|]. cbn [pr_ann_list] in *. unfold pr_ann in S |- * at 1.
           unfold wf_anns in *. match goal with H : negb (is_nil (a0 :: a)) && wf_ann_list (a0 :: a) = true |- _ => cbn [is_nil negb andb wf_ann_list] in H; bsplit H end.
           match goal with H : wf_ann a0 = true |- _ => unfold wf_ann in H; bsplit H end.
           apply fld_err_nodigit; [assumption| | |sfx_of S].
           ++ apply annkey_head; auto using idh_nb.
           ++ apply annkey_head; auto using idh_nodigit.
        -- rewrite tag_ok. cbn [pbind].
           match goal with |- context [opt (p_blank lf) (pr_blank (fn_b1 f) ?X)] =>
             destruct (oblank lf whole Hlf (fn_b1 f) X ltac:(assumption) ltac:(now apply ident_nb) ltac:(sfx_of S)) as [o ->] end. cbn [pbind].
           apply pbind_err. assert (Hp := ident_noparen (fn_cname f) (pr_blank (fn_b2 f) (txt "(" ++ pr_blank (fn_b0 f) (pr_fields (fn_args f)
                   (txt ")" ++ pr_blank (fn_b3 f) (pr_throws (fn_cthrows f) (pr_oanns (fn_canns f) (pr_sep (fn_sep f) k))))))) ltac:(assumption)).
           unfold noparen in Hp. destruct (fn_cname f ++ _) as [|c0 r0]; [exact I|]. apply tag_hd_ne. cbn in Hp. now apply negb_true_iff in Hp.
      * cbn [forallb fst snd] in Wtl. bsplit Wtl.
        assert (E : forall X, pr_type (CType (CTPath (mkCPath kw_throws ((b1, b2, s0) :: tl))) an) X =
                    kw_throws ++ pr_blank b1 (txt "." ++ pr_blank b2 (s0 ++ pr_path_tail tl (match an with Some (bl, a) => pr_blank bl (pr_anns a X) | None => X end)))).
        { intros X. destruct an as [[bl a]|]; reflexivity. }
        rewrite E in *. rewrite tag_ok. cbn [pbind].
        match goal with |- context [opt (p_blank lf) (pr_blank b1 ?X)] =>
          destruct (oblank lf whole Hlf b1 X ltac:(assumption) eq_refl ltac:(sfx_of S)) as [o ->] end. cbn [pbind].
        apply pbind_err. exact I.
    + apply (type_word_err kw_throws _ (CType ty an)); auto using throws_rest_err; try reflexivity.
      cbn [type_path_head]. destruct ty; auto.
Qed.

Lemma function_head (g : byte -> bool) f k : wf_function f = true -> (forall b, idh b = true -> g b = true) ->
  hd_sat g (pr_function f k) = true.
Proof.
  intros Hw Hg. rewrite pr_function_body. unfold wf_function in Hw. bsplit Hw.
  destruct (fn_coneway f) as [b|]; [apply Hg; reflexivity|]. unfold fn_body. now apply type_head.
Qed.

Lemma len_function f k : wf_function f = true -> length k < length (pr_function f k).
Proof.
  intros Hw. rewrite pr_function_body. unfold wf_function in Hw. bsplit Hw.
  assert (L : length k < length (fn_body f k)).
  { unfold fn_body.
    match goal with |- _ < length (pr_type ?t (pr_blank ?b (?n ++ ?X))) =>
      pose proof (sfx_len _ _ (sfx_type t _ _ (sfx_blank _ b _ (sfx_refl (n ++ X))))) as L1;
      assert (L2 : length k <= length X) by (apply sfx_len; repeat sfx_step) end.
    rewrite app_length in L1. assert (I : is_ident (fn_cname f) = true) by assumption.
    destruct (fn_cname f); [discriminate|]. cbn [length] in L1. clear - L1 L2. lia. }
  destruct (fn_coneway f) as [b|]; [|exact L]. rewrite app_length. pose proof (len_blank b (fn_body f k)) as L3. clear - L L3. lia.
Qed.

(* [fnfollow f k]: what the text after the function must not be mistaken for *)
Definition fn_bare (f : cfunction) : bool := is_none (fn_cthrows f) && is_none (fn_canns f) && sep_none (fn_sep f).

Theorem rt_function f k : wf_function f = true -> nosep k = true -> (function_closed f = false -> stop k = true) ->
  (fn_bare f = true -> is_perr (p_throws k)) -> sfx (pr_function f k) whole ->
  p_function lf df (pr_function f k) = POk k (erase_function f).
Proof.
  intros Hw Hns Hop Hth S. rewrite pr_function_body in *. rewrite p_function_eq.
  destruct f as [ow t b1 name b2 b0 args b3 th a sp].
  unfold wf_function, fn_body, erase_function, function_closed, fn_bare in *.
  cbn [fn_coneway fn_type fn_b1 fn_cname fn_b2 fn_b0 fn_args fn_b3 fn_cthrows fn_canns fn_sep] in *. bsplit Hw.
  assert (Wt : wf_type t = true) by assumption.
  set (Y := pr_oanns a (pr_sep sp k)) in *.
  assert (HY : forall g : byte -> bool, g x28 = true -> g x2c = true -> g x3b = true ->
               (is_none a = true -> sep_none sp = true -> hd_sat g k = true) -> hd_sat g Y = true).
  { intros g G1 G2 G3 GK. unfold Y. destruct a as [l|]; cbn [pr_oanns pr_anns]; [exact G1|].
    destruct sp as [|[|] bl]; cbn [pr_sep sep_byte]; auto. }
  assert (Kst : is_none a = true -> sep_none sp = true -> stop k = true).
  { intros E1 E2. apply Hop. destruct a; [discriminate|]. reflexivity. }
  assert (NY : nb Y = true) by (apply HY; try reflexivity; intros; apply stop_nb; auto).
  set (B := pr_type t (pr_blank b1 (name ++ pr_blank b2 (txt "(" ++ pr_blank b0 (pr_fields args (txt ")" ++ pr_blank b3 (pr_throws th Y))))))) in *.
  (* oneway *)
  match goal with |- context [pmap ?f (opt p_oneway) ?X] => assert (E0 : pmap f (opt p_oneway) X = POk B (negb (is_none ow))) end.
  { unfold pmap. destruct ow as [b|].
    - match goal with H : _ && _ = true |- _ => bsplit H end.
      erewrite opt_ok; [reflexivity|]. unfold p_oneway. tg kw_oneway (txt "oneway").
      apply (mblank lf whole Hlf); auto; [now apply type_head_nb|sfx_of S].
    - rewrite opt_err; [reflexivity|]. unfold p_oneway.
      assert (Hnid : type_ends_word t = true -> nid (pr_blank b1 (name ++ pr_blank b2 (txt "(" ++ pr_blank b0 (pr_fields args (txt ")" ++ pr_blank b3 (pr_throws th Y)))))) = true).
      { intros _. apply blank_then; auto with bsdb. intros E.
        match goal with H : negb (is_nil b1) = true |- _ => rewrite E in H; discriminate end. }
      destruct (match t with CType (CTPath p) _ => bytes_eq (cp_head p) kw_oneway | _ => false end) eqn:Eh.
      + (* the result type is a path that begins with the word oneway: the word is followed by the '.' *)
        destruct t as [[| | | |[h tl]] an]; try discriminate. cbn [cp_head] in Eh. apply bytes_eq_eq in Eh. subst h.
        match goal with H : oneway_head_ok _ = true |- _ => cbn [oneway_head_ok cp_head cp_tail] in H;
          change (bytes_eq kw_oneway (txt "oneway")) with true in H; cbn [negb orb] in H end.
        subst B. destruct tl as [|[[c1 c2] s0] tl].
        * destruct an as [[bl0 an0]|]; [|discriminate]. destruct bl0; [|discriminate].
          cbn [pr_type pr_ty]; unfold pr_path, pr_anns; cbn [cp_head cp_tail pr_path_tail pr_blank];
            rewrite tag_ok; cbn [pbind]; apply blank_err; reflexivity.
        * destruct c1; [|discriminate].
          destruct an as [[bl0 an0]|]; cbn [pr_type pr_ty]; unfold pr_path; cbn [cp_head cp_tail pr_path_tail pr_blank];
            rewrite tag_ok; cbn [pbind]; apply blank_err; reflexivity.
      + apply (type_word_err kw_oneway _ t); auto; try reflexivity; [|intros c r Hc; now apply identch_not_blank].
        destruct t as [[] ?]; cbn [type_path_head]; auto. }
  rewrite E0. cbn [pbind].
  assert (SB : sfx B whole) by (destruct ow; sfx_of S). clear E0.
  unfold B in *. clear B.
  assert (F : tyfollow lf (type_ends_word t) (pr_blank b1 (name ++ pr_blank b2 (txt "(" ++ pr_blank b0 (pr_fields args (txt ")" ++ pr_blank b3 (pr_throws th Y))))))).
  { apply (tyfollow_name lf whole Hlf); auto; try reflexivity; [|sfx_of SB]. intros E.
    match goal with H : negb (is_nil b1) = true |- _ => rewrite E in H; discriminate end. }
  rewrite (rt_type lf whole Hlf df t _ (type_depth_sfx whole df t _ SB Hdf) Wt F SB). cbn [pbind].
  mbk lf whole Hlf SB ltac:(now apply ident_nb).
  rewrite (rt_ident name) by (assumption || (apply blank_then; auto with bsdb)). cbn [pbind].
  obk lf whole Hlf SB ltac:(reflexivity). tg sym_fn_open (txt "(").
  change (txt ")" ++ pr_blank b3 (pr_throws th Y)) with (x29 :: pr_blank b3 (pr_throws th Y)) in *.
  (* arguments *)
  assert (EA : exists R1 oa ob, opt (many1 lf (fld lf df)) (pr_blank b0 (pr_fields args (x29 :: pr_blank b3 (pr_throws th Y)))) = POk R1 oa /\
                 opt (p_blank lf) R1 = POk (x29 :: pr_blank b3 (pr_throws th Y)) ob /\ unwrap_or_default oa = map erase_field args).
  { destruct args as [|f0 args].
    - cbn [pr_fields].
      destruct (oblank lf whole Hlf b0 (x29 :: pr_blank b3 (pr_throws th Y)) ltac:(assumption) eq_refl ltac:(sfx_of SB)) as [ob Eb].
      exists (pr_blank b0 (x29 :: pr_blank b3 (pr_throws th Y))), None, ob. split; [|split; [exact Eb|reflexivity]].
      apply opt_err. unfold many1.
      pose proof (fld_stop lf whole Hlf df b0 x29 (pr_blank b3 (pr_throws th Y)) ltac:(assumption) (or_intror eq_refl) ltac:(sfx_of SB)) as E.
      destruct (fld lf df (pr_blank b0 (x29 :: pr_blank b3 (pr_throws th Y)))); cbn in E; try contradiction. exact I.
    - exists (x29 :: pr_blank b3 (pr_throws th Y)), (Some (map erase_field (f0 :: args))), None. split; [|split; [|reflexivity]].
      + apply opt_ok. apply (fields_many1 lf whole Hlf df Hdf); auto; [discriminate|sfx_of SB].
      + apply opt_err, blank_err. reflexivity. }
  destruct EA as (R1 & oa & ob & EA1 & EA2 & EA3). rewrite EA1. cbn [pbind]. rewrite EA2. cbn [pbind]. clear EA1 EA2.
  change (x29 :: pr_blank b3 (pr_throws th Y)) with (sym_fn_close ++ pr_blank b3 (pr_throws th Y)). rewrite tag_ok. cbn [pbind].
  obk lf whole Hlf SB ltac:(destruct th; cbn [pr_throws]; [reflexivity|exact NY]).
  (* throws *)
  assert (ET : exists R2 ot obt, opt p_throws (pr_throws th Y) = POk R2 ot /\ opt (p_blank lf) R2 = POk Y obt /\
                 unwrap_or_default ot = match th with Some t => map erase_field (th_fields t) | None => [] end).
  { destruct th as [[t1 t0 tfs t2]|]; cbn [pr_throws wf_throws th_b1 th_b0 th_fields th_b2] in *.
    - match goal with H : _ && _ = true |- _ => bsplit H end.
      destruct (oblank lf whole Hlf t2 Y ltac:(assumption) NY ltac:(sfx_of SB)) as [obt Eb].
      exists (pr_blank t2 Y), (Some (map erase_field tfs)), obt. split; [|split; [exact Eb|reflexivity]].
      apply opt_ok. unfold p_throws. tg kw_throws (txt "throws").
      obk lf whole Hlf SB ltac:(reflexivity). tg sym_throws_open (txt "(").
      change (txt ")" ++ pr_blank t2 Y) with (x29 :: pr_blank t2 Y) in *.
      assert (Hne : tfs <> []) by (intros E; subst tfs; discriminate).
      rewrite (fields_many1 lf whole Hlf df Hdf tfs t0 (pr_blank t2 Y) x29 Hne (or_intror eq_refl) ltac:(assumption) ltac:(assumption) ltac:(sfx_of SB)).
      cbn [pbind]. rewrite (opt_err (p_blank lf)) by (apply blank_err; reflexivity). cbn [pbind].
      change (x29 :: pr_blank t2 Y) with (sym_throws_close ++ pr_blank t2 Y). rewrite tag_ok. reflexivity.
    - exists Y, None, None. split; [|split; [apply opt_err, blank_err, NY|reflexivity]].
      apply opt_err. unfold Y. destruct a as [l|]; cbn [pr_oanns pr_anns].
      + unfold p_throws. apply pbind_err. exact I.
      + destruct sp as [|[|] bl]; cbn [pr_sep sep_byte]; [apply Hth; reflexivity| |]; unfold p_throws; apply pbind_err; exact I. }
  destruct ET as (R2 & ot & obt & ET1 & ET2 & ET3). rewrite ET1. cbn [pbind]. rewrite ET2. cbn [pbind]. clear ET1 ET2.
  subst Y.
  rewrite (oanns_ok lf whole Hlf a (pr_sep sp k) ltac:(assumption)); [| |destruct th; sfx_of SB].
  2:{ intros ->. destruct sp as [|[|] bl]; cbn [pr_sep sep_byte]; try reflexivity. apply stop_noparen, Kst; reflexivity. }
  cbn [pbind].
  assert (ES : exists os, opt (p_list_separator lf) (pr_sep sp k) = POk k os).
  { destruct sp as [|semi bl].
    - exists None. apply opt_err. unfold p_list_separator. apply pbind_err. cbn [pr_sep]. destruct k as [|c r]; [exact I|].
      unfold nosep in Hns. cbn [hd_sat] in Hns. cbn [one_of]. destruct (bmem c set_list_separator); [discriminate|exact I].
    - assert (Sk : stop k = true) by (apply Hop; destruct a; reflexivity).
      apply (osep_ok lf whole Hlf); auto using stop_nb, stop_nosep. destruct th; sfx_of SB. }
  destruct ES as [os ->]. cbn [pbind].
  rewrite EA3, ET3, unwrap_oanns. reflexivity.
Qed.

(* ---------- services ---------- *)
Lemma type_err_close k : is_perr (p_type lf df (x7d :: k)).
Proof.
  destruct df as [|d]; [lia|]. unfold p_type, p_type_of. apply pbind_err. rewrite p_ty_eq.
  rewrite alt_skip by (apply (base_alts_err [x7d] k); repeat apply Forall_cons; try apply Forall_nil; reflexivity).
  rewrite alt_err by (unfold alt_list; apply pbind_err; exact I).
  rewrite alt_err by (unfold alt_set; apply pbind_err; exact I).
  rewrite alt_err by (unfold alt_map; apply pbind_err; exact I).
  apply alt_last_err, pmap_err, path_err. reflexivity.
Qed.

Definition fnp : parser Function := fun i => do i, _ <- opt (p_blank lf) i ;; p_function lf df i.
Definition p_extends : parser Path :=
  fun i => do i, _ <- p_blank lf i ;; do i, _ <- tag kw_extends i ;; do i, _ <- p_blank lf i ;; p_path lf i.
Lemma p_service_eq i : p_service lf df i =
  (do i, _ <- tag kw_service i ;; do i, _ <- p_blank lf i ;; do i, name <- p_ident i ;; do i, extends <- opt p_extends i ;;
   do i, _ <- opt (p_blank lf) i ;; do i, _ <- tag sym_service_open i ;; do i, functions <- many0 lf fnp i ;;
   do i, _ <- opt (p_blank lf) i ;; do i, _ <- tag sym_service_close i ;; do i, _ <- opt (p_blank lf) i ;;
   do i, an <- opt (p_annotations lf) i ;; do i, _ <- opt (p_list_separator lf) i ;;
   POk i (mkService name extends functions (unwrap_or_default an))).
Proof. reflexivity. Qed.

Lemma fn_stop b3 k : wf_blank b3 = true -> sfx (pr_blank b3 (x7d :: k)) whole -> is_perr (fnp (pr_blank b3 (x7d :: k))).
Proof.
  intros Hb S. unfold fnp. destruct (oblank lf whole Hlf b3 (x7d :: k) Hb eq_refl S) as [o ->]. cbn [pbind].
  rewrite p_function_eq. unfold pmap. rewrite (opt_err p_oneway) by (unfold p_oneway; apply pbind_err; exact I). cbn [pbind].
  apply pbind_err, type_err_close.
Qed.

Lemma fns_head (g : byte -> bool) l pc b3 k : wf_fns pc l = true -> wf_blank b3 = true ->
  (forall b, blank_start b = true -> g b = true) -> (forall b, idh b = true -> g b = true) -> g x7d = true ->
  hd_sat g (pr_fns l (pr_blank b3 (x7d :: k))) = true.
Proof.
  intros Hw Hb G1 G2 G3. destruct l as [|[b f] l]; cbn [pr_fns wf_fns] in *.
  - apply blank_then; auto.
  - bsplit Hw. apply blank_then; auto. intros _. now apply function_head.
Qed.

Lemma idh_nosep b : idh b = true -> negb (bmem b set_list_separator) = true.
Proof. intros H. now rewrite (identhead_nosep b H). Qed.

Lemma fns_loop : forall l pc b3 k fuel, wf_fns pc l = true -> wf_blank b3 = true -> (last_closed pc l || is_nil b3) = true ->
  sfx (pr_fns l (pr_blank b3 (x7d :: k))) whole -> length (pr_fns l (pr_blank b3 (x7d :: k))) < fuel ->
  many0 fuel fnp (pr_fns l (pr_blank b3 (x7d :: k))) = POk (pr_blank b3 (x7d :: k)) (map (fun x => erase_function (snd x)) l).
Proof.
  induction l as [|[b f] rest IH]; intros pc b3 k fuel Hw Hb3 Hlast S Hf; (destruct fuel as [|fu]; [lia|]);
    cbn [pr_fns wf_fns last_closed map snd] in *.
  - apply many0_stop. now apply fn_stop.
  - bsplit Hw. assert (Wf : wf_function f = true) by assumption. assert (Wr : wf_fns (function_closed f) rest = true) by assumption.
    remember (pr_fns rest (pr_blank b3 (x7d :: k))) as K eqn:EK.
    assert (NSK : nosep K = true) by (subst K; eapply fns_head; eauto using bs_nosep, idh_nosep).
    assert (Kopen : function_closed f = false -> (exists g K', K = pr_function g K' /\ wf_function g = true) \/ K = x7d :: k).
    { intros Ec. rewrite Ec in *. destruct rest as [|[b' g] rest].
      - right. cbn [last_closed] in Hlast. cbn [orb] in Hlast. destruct b3; [|discriminate]. subst K. reflexivity.
      - left. cbn [wf_fns pr_fns] in *. bsplit Wr. match goal with H : false || is_nil b' = true |- _ => cbn [orb] in H; destruct b'; [|discriminate] end.
        subst K. cbn [pr_blank]. eauto. }
    assert (SK : function_closed f = false -> stop K = true).
    { intros Ec. destruct (Kopen Ec) as [[g [K' [-> Wg]]] | ->]; [|reflexivity]. apply function_head; auto using idh_stop. }
    assert (TK : fn_bare f = true -> is_perr (p_throws K)).
    { intros Eb. assert (Ec : function_closed f = false).
      { unfold fn_bare, function_closed in *. bsplit Eb. match goal with H : is_none (fn_canns f) = true |- _ => now rewrite H end. }
      destruct (Kopen Ec) as [[g [K' [-> Wg]]] | ->]; [apply fn_not_throws; [exact Wg|sfx_of S]|]. unfold p_throws. apply pbind_err. exact I. }
    assert (E1 : fnp (pr_blank b (pr_function f K)) = POk K (erase_function f)).
    { unfold fnp. destruct (oblank lf whole Hlf b (pr_function f K) ltac:(assumption)) as [o ->]; [| exact S |].
      - apply function_head; auto. intros c Hc. apply stop_nb with (k := [c]). cbn. now apply idh_stop.
      - cbn [pbind]. apply rt_function; auto. sfx_of S. }
    assert (L : length K < length (pr_blank b (pr_function f K))).
    { pose proof (len_blank b (pr_function f K)) as L1. pose proof (len_function f K Wf) as L2. clear - L1 L2. lia. }
    rewrite (many0_step _ fu _ K (erase_function f) E1 L). rewrite EK.
    rewrite (IH (function_closed f) b3 k fu Wr Hb3 Hlast); [reflexivity|rewrite <- EK; sfx_of S|rewrite <- EK; clear - L Hf; lia].
Qed.

Theorem rt_service eof c k : wf_service eof c = true -> (eof = true -> k = []) -> nosep k = true ->
  (tail_open (sv_tail c) = true -> stop k = true) -> sfx (pr_service c k) whole ->
  p_service lf df (pr_service c k) = POk k (erase_service c).
Proof.
  intros Hw He Hns Hop S. destruct c as [b1 name ext b2 fns b3 tl]. unfold wf_service, pr_service, erase_service in *.
  cbn [sv_b1 sv_cname sv_cextends sv_b2 sv_fns sv_b3 sv_tail] in *. bsplit Hw. rewrite p_service_eq.
  tg kw_service (txt "service").
  mbk lf whole Hlf S ltac:(now apply ident_nb).
  set (X := pr_blank b2 (txt "{" ++ pr_fns fns (pr_blank b3 (txt "}" ++ pr_tail tl k)))) in *.
  assert (NX : nid X = true) by (unfold X; apply blank_then; auto with bsdb).
  rewrite (rt_ident name).
  2: assumption.
  2:{ destruct ext as [[[e1 e2] p]|]; cbn [pr_extends wf_extends] in *; [|exact NX].
      match goal with H : _ && _ = true |- _ => bsplit H end. apply blank_then; auto with bsdb. intros E.
      match goal with H : negb (is_nil e1) = true |- _ => rewrite E in H; discriminate end. }
  cbn [pbind].
  assert (EE : opt p_extends (pr_extends ext X) = POk X (match ext with Some (_, _, p) => Some (erase_path p) | None => None end)).
  { destruct ext as [[[e1 e2] p]|]; cbn [pr_extends wf_extends] in *.
    - match goal with H : _ && _ = true |- _ => bsplit H end. apply opt_ok. unfold p_extends.
      mbk lf whole Hlf S ltac:(reflexivity). tg kw_extends (txt "extends").
      mbk lf whole Hlf S ltac:(apply path_head; auto; intros c Hc; apply stop_nb with (k := [c]); cbn; now apply idh_stop).
      apply (rt_path lf whole Hlf); auto; [|sfx_of S]. split; [exact NX|]. left. unfold p_path_sep, X.
      destruct (oblank lf whole Hlf b2 (txt "{" ++ pr_fns fns (pr_blank b3 (txt "}" ++ pr_tail tl k))) ltac:(assumption) eq_refl ltac:(sfx_of S)) as [o ->].
      cbn [pbind]. apply pbind_err. exact I.
    - apply opt_err. unfold p_extends, X. destruct b2 as [|a0 b2].
      + cbn [pr_blank]. apply pbind_err, blank_err. reflexivity.
      + rewrite (mblank lf whole Hlf (a0 :: b2)) by (auto; sfx_of S). cbn [pbind]. apply pbind_err. exact I. }
  rewrite EE. cbn [pbind]. unfold X in *. clear X NX EE.
  obk lf whole Hlf S ltac:(reflexivity). tg sym_service_open (txt "{").
  change (txt "}" ++ pr_tail tl k) with (x7d :: pr_tail tl k) in *.
  rewrite (fns_loop fns true b3 (pr_tail tl k) lf ltac:(assumption) ltac:(assumption) ltac:(assumption))
    by (first [solve [sfx_of S] | eapply sfx_lt; [exact Hlf|sfx_of S]]).
  cbn [pbind].
  obk lf whole Hlf S ltac:(reflexivity).
  change (x7d :: pr_tail tl k) with (sym_service_close ++ pr_tail tl k). rewrite tag_ok. cbn [pbind].
  destruct (tail_steps lf whole Hlf eof tl k ltac:(assumption) He Hns Hop ltac:(sfx_of S)) as (o2 & o3 & E1 & E2 & E3).
  rewrite E1. cbn [pbind]. rewrite E2. cbn [pbind]. rewrite E3. cbn [pbind]. rewrite unwrap_oanns. reflexivity.
Qed.

End Fn.

(* non-vacuity: a service with an extends clause, a oneway function whose result type is named "throws", a function with a
   throws clause followed directly by a function whose result type begins with the word throws *)
Example rt_service_example :
  let ty s := CType (CTPath (mkCPath s [])) None in
  let fld1 := mkCField (txt "1") [] [BWs (txt " ")] None (ty (txt "optionalFoo")) [BWs (txt " ")] (txt "a") [] None None SepNone in
  let f1 := mkCFunction (Some [BWs (txt " ")]) (ty (txt "throws")) [BWs (txt " ")] (txt "f") [] [] [] [] None None (SepSome false []) in
  let f2 := mkCFunction None (CType (CTBase BVoid) None) [BWs (txt " ")] (txt "g") [] [BBlock (txt "x")] [fld1] []
                        (Some (mkCThrows [] [] [fld1] [])) None SepNone in
  let f3 := mkCFunction None (ty (txt "throwsX")) [BLine []; BWs [x0a]] (txt "h") [] [] [] [] None (Some [mkCAnn [] (txt "k") [] [] (mkLit false []) [] SepNone]) SepNone in
  let c := mkCService [BWs (txt " ")] (txt "services") (Some ([BWs (txt " ")], [BWs (txt " ")], mkCPath (txt "a") [([], [], txt "b")])) []
                      [([BWs (txt " ")], f1); ([], f2); ([], f3)] [BHash (txt "e"); BWs [x0a]] (mkTail [] None SepNone) in
  wf_service true c = true /\ p_service 300 300 (pr_service c []) = POk [] (erase_service c) /\
  pr_service c [] = txt "service services extends a.b{ oneway throws f(),void g(/*x*/1: optionalFoo a)throws(1: optionalFoo a)throwsX//"
                    ++ x0a :: txt "h()(k='')#e" ++ x0a :: txt "}".
Proof. vm_compute. repeat split. Qed.
