"""C05 -- Protobuf encode/decode round trip and encoded_len agreement."""
from .. import pbcodec as pc


def groups(rng, tier):
    n = 4000 if tier == "quick" else 80000
    def both(case, out):
        return pc.oracle_rt(case, out)
    wire = pc.gen_wire_cases(rng, n // 4)
    def wire_oracle(case, out):
        if out.startswith("PANIC") or out.startswith("CRASH") or out.startswith("HANG") or "ORACLE-FAIL" in out:
            return "varint/key codec: " + out[:200]
        t = case.split()
        o = pc.strip_tail(out).split()
        if t[0] == "ve":
            want = pc.ref_varint(int(t[1]))
            if o[0] != pc.hx(want) or o[1] != "L%d" % len(want):
                return "encode_varint/encoded_len_varint(%s) = %s" % (t[1], " ".join(o))
        if t[0] == "key":
            want = pc.ref_key(int(t[1]), int(t[2]))
            if o[0] != pc.hx(want) or o[1] != "L%d" % len(want):
                return "encode_key/key_len(%s) = %s" % (t[1], " ".join(o))
        return None
    return [("roundtrip", pc.gen_rt_cases(rng, n), both), ("varint-key", wire, wire_oracle)]


RULE = ("codec level: rt/rtr/rtp cases = every codec module of pilota::prost::encoding (7 varint-family, 6 fixed-width, string, "
        "faststr, bytes as Bytes and as Vec<u8>) x tag (boundaries 1,15,16,2047,2048,..,2^29-1 and random) x single / repeated / "
        "packed (0..130 elements) x boundary and random values (NaN payloads, -0.0, i32/i64 extremes, multi-byte UTF-8) x trailing "
        "bytes; varint-key cases = every varint length and the 10-byte overflow edge through three buffer chunkings, keys of all "
        "wire types; generated-message level = pv/pbgen.run_c05 over the fixed .proto corpus compiled by the real pilota-build, "
        "both settings of pb-encode-default-value; the group codec (encoding::group, which pilota-build cannot emit) through the "
        "driver's hand-written GroupHolder<M> over every corpus message M as group body (grp lines: optional absent / present "
        "with an EMPTY body / with content, required empty / with content, repeated [] / [empty] / mixtures with empty elements): "
        "bytes = [StartGroup key, body, EndGroup key] per group field (independent reference), encoded_len = bytes, "
        "encoded_len_repeated = bytes of encode_repeated, Message::encode into an exactly sized buffer, decode(encode(x)) keeps "
        "presence, count, order and content; every decode also over non-contiguous layouts of the same bytes (two chunks cut at "
        "every position / after continuation bytes, Buf::chain, pieces of 1..7 bytes, a wrapped VecDeque<u8>): same answer; "
        "non-trivial = carries at least one value; distinct by SHA-1 of the case line")


def run(chk, replay=None):
    return pc.engine(chk, "C05", replay, groups, RULE, gen_fn="run_c05")
