(* C12: schedule independence of the whole asynchronous value reader: over every event list, e_read_val
   returns what aread_val returns on the delivered bytes and leaves the events that deliver exactly the
   unread bytes; with C12_value / C12_outcome: in-memory = asynchronous under every schedule. *)
From Coq Require Import Lia.
From PV Require Import Thrift.AsyncEvVal Proofs.AsyncEvP Proofs.HeaderP Proofs.RoundtripP Proofs.AsyncP Proofs.AsyncErrP.
Open Scope Z_scope.

Lemma ev_eq_pure {X B} (o : res X) (f : X -> res (B * est)) (g : X -> res (B * rst)) :
  (forall x, ev_eq (f x) (g x)) -> ev_eq (bind o f) (bind o g).
Proof. intros H. destruct o as [x|e|st]; cbn [bind ev_eq]; auto. Qed.

Lemma ev_eq_err {A} e : @ev_eq A (Err e) (Err e).
Proof. reflexivity. Qed.

Lemma abs_set_rc s c : abs (e_set_rc s c) = set_rc (abs s) c.
Proof. reflexivity. Qed.

Ltac ev_step :=
  first [ apply ev_eq_ret | apply ev_eq_err
        | apply ev_eq_bind; [first [apply e_take_eq|apply e_byte_eq|apply e_i8_eq|apply e_varint_eq|apply e_i16_eq|apply e_i32_eq|apply e_i64_eq|apply e_double_eq|apply e_uuid_eq|apply e_bytes_eq]|intros ? ?]
        | apply ev_eq_pure; intros ? ].

Lemma e_ttype_eq s : ev_eq (e_ttype s) (a_ttype (abs s)).
Proof. unfold e_ttype, a_ttype. ev_step. destruct (ttype_of_byte x); ev_step. Qed.

Lemma e_bool_eq p s : ev_eq (e_bool p s) (a_bool p (abs s)).
Proof.
  destruct p; cbn [e_bool a_bool]; try (ev_step; ev_step).
  change (rc (abs s)) with (erc s). destruct (r_pbool (erc s)); [reflexivity|].
  ev_step. destruct (ctype_of_code x) as [[]|]; ev_step.
Qed.

Lemma e_struct_begin_eq p s : ev_eq (e_struct_begin p s) (a_struct_begin p (abs s)).
Proof. destruct p; reflexivity. Qed.
Lemma e_struct_end_eq p s : ev_eq (e_struct_end p s) (a_struct_end p (abs s)).
Proof.
  destruct p; try reflexivity. unfold e_struct_end, a_struct_end, r_struct_end. change (rc (abs s)) with (erc s).
  destruct (r_stack (erc s)); reflexivity.
Qed.

Lemma e_field_begin_eq p s : ev_eq (e_field_begin p s) (a_field_begin p (abs s)).
Proof.
  destruct p; cbn [e_field_begin a_field_begin].
  1,2: apply ev_eq_bind; [apply e_ttype_eq|]; intros ty s1; destruct ty; try (ev_step; ev_step); ev_step.
  ev_step. cbv zeta. change (rc (abs s')) with (erc s').
  apply ev_eq_bind.
  - destruct (x mod 16 =? ctype_code CBooleanTrue); [reflexivity|].
    destruct (x mod 16 =? ctype_code CBooleanFalse); [reflexivity|].
    destruct (ctype_of_code (x mod 16)) as [ct|]; [|reflexivity]. destruct (ttype_of_ctype ct); reflexivity.
  - intros ty s1. change (rc (abs s1)) with (erc s1).
    destruct ty; try reflexivity;
      (destruct (negb (x / 16 =? 0)); [reflexivity|]; ev_step; reflexivity).
Qed.

Lemma e_coll_begin_eq p s : ev_eq (e_coll_begin p s) (a_coll_begin p (abs s)).
Proof.
  destruct p; cbn [e_coll_begin a_coll_begin].
  1,2: apply ev_eq_bind; [apply e_ttype_eq|]; intros et s1; ev_step; ev_step.
  ev_step. ev_step. destruct (negb (x / 16 =? 15)); [ev_step|]. ev_step. ev_step.
Qed.

Lemma e_map_begin_eq p s : ev_eq (e_map_begin p s) (a_map_begin p (abs s)).
Proof.
  destruct p; cbn [e_map_begin a_map_begin].
  1,2: apply ev_eq_bind; [apply e_ttype_eq|]; intros kt s1; apply ev_eq_bind; [apply e_ttype_eq|]; intros vt s2; ev_step; ev_step.
  ev_step. cbv zeta. destruct (wrap_s 32 x =? 0); [ev_step|]. ev_step. ev_step. ev_step. ev_step.
Qed.

Section LoopsEv.
  Variable p : pk.
  Variable erec : ttype -> est -> res (tval * est).
  Variable arec : ttype -> rst -> res (tval * rst).
  Hypothesis Hrec : forall ty s, ev_eq (erec ty s) (arec ty (abs s)).

  Lemma efields_eq : forall n s acc, ev_eq (efields_loop p erec n s acc) (afields_loop p arec n (abs s) acc).
  Proof.
    induction n as [|n IH]; intros s acc; [reflexivity|]. cbn [efields_loop afields_loop].
    apply ev_eq_bind; [apply e_field_begin_eq|]. intros h s1.
    destruct (ttype_eqb (fst h) TStop); [apply ev_eq_ret|].
    apply ev_eq_bind; [apply Hrec|]. intros x s2. apply IH.
  Qed.
  Lemma eelems_eq : forall m et n s acc, ev_eq (eelems_loop erec m et n s acc) (elems_loop arec m et n (abs s) acc).
  Proof.
    induction m as [|m IH]; intros et n s acc; cbn [eelems_loop elems_loop].
    - destruct (n <=? 0); reflexivity.
    - destruct (n <=? 0); [reflexivity|]. apply ev_eq_bind; [apply Hrec|]. intros x s1. apply IH.
  Qed.
  Lemma epairs_eq : forall m kt vt n s acc, ev_eq (epairs_loop erec m kt vt n s acc) (pairs_loop arec m kt vt n (abs s) acc).
  Proof.
    induction m as [|m IH]; intros kt vt n s acc; cbn [epairs_loop pairs_loop].
    - destruct (n <=? 0); reflexivity.
    - destruct (n <=? 0); [reflexivity|]. apply ev_eq_bind; [apply Hrec|]. intros a s1.
      apply ev_eq_bind; [apply Hrec|]. intros b s2. apply IH.
  Qed.
End LoopsEv.

Theorem e_read_val_eq step p : forall f ty s, ev_eq (e_read_val step p f ty s) (aread_val p f ty (abs s)).
Proof.
  induction f as [|f IH]; intros ty s; [reflexivity|]. cbn [e_read_val aread_val].
  destruct ty; try reflexivity.
  - apply ev_eq_bind; [apply e_bool_eq|]. intros; apply ev_eq_ret.
  - ev_step. ev_step.
  - ev_step. ev_step.
  - ev_step. ev_step.
  - ev_step. ev_step.
  - ev_step. ev_step.
  - ev_step. ev_step.
  - apply ev_eq_bind; [apply e_struct_begin_eq|]. intros u s1.
    apply ev_eq_bind; [apply efields_eq, IH|]. intros fs s2.
    apply ev_eq_bind; [apply e_struct_end_eq|]. intros u2 s3. apply ev_eq_ret.
  - apply ev_eq_bind; [apply e_map_begin_eq|]. intros h s1.
    apply ev_eq_bind; [apply epairs_eq, IH|]. intros l s2. apply ev_eq_ret.
  - apply ev_eq_bind; [apply e_coll_begin_eq|]. intros h s1.
    apply ev_eq_bind; [apply eelems_eq, IH|]. intros l s2. apply ev_eq_ret.
  - apply ev_eq_bind; [apply e_coll_begin_eq|]. intros h s1.
    apply ev_eq_bind; [apply eelems_eq, IH|]. intros l s2. apply ev_eq_ret.
  - ev_step. ev_step.
Qed.

(* ---- the skipper ---- *)
Lemma e_drop_eq {A} (m : em A) (am : rm A) s : ev_eq (m s) (am (abs s)) -> ev_eq (e_drop m s) (drop am (abs s)).
Proof. intros H. unfold e_drop, drop. apply ev_eq_bind; [exact H|]. intros; apply ev_eq_ret. Qed.

Section SkipLoopsEv.
  Variable p : pk.
  Variable erec : ttype -> est -> res (unit * est).
  Variable arec : ttype -> rst -> res (unit * rst).
  Hypothesis Hrec : forall ty s, ev_eq (erec ty s) (arec ty (abs s)).

  Lemma eskip_fields_eq : forall n s, ev_eq (eskip_fields p erec n s) (askip_fields p arec n (abs s)).
  Proof.
    induction n as [|n IH]; intros s; [reflexivity|]. cbn [eskip_fields askip_fields].
    apply ev_eq_bind; [apply e_field_begin_eq|]. intros h s1.
    destruct (ttype_eqb (fst h) TStop); [apply ev_eq_ret|].
    apply ev_eq_bind; [apply Hrec|]. intros x s2. apply IH.
  Qed.
  Lemma eskip_elems_eq : forall m et n s, ev_eq (eskip_elems erec m et n s) (askip_elems arec m et n (abs s)).
  Proof.
    induction m as [|m IH]; intros et n s; cbn [eskip_elems askip_elems].
    - destruct (n <=? 0); reflexivity.
    - destruct (n <=? 0); [reflexivity|]. apply ev_eq_bind; [apply Hrec|]. intros x s1. apply IH.
  Qed.
  Lemma eskip_pairs_eq : forall m kt vt n s, ev_eq (eskip_pairs erec m kt vt n s) (askip_pairs arec m kt vt n (abs s)).
  Proof.
    induction m as [|m IH]; intros kt vt n s; cbn [eskip_pairs askip_pairs].
    - destruct (n <=? 0); reflexivity.
    - destruct (n <=? 0); [reflexivity|]. apply ev_eq_bind; [apply Hrec|]. intros a s1.
      apply ev_eq_bind; [apply Hrec|]. intros b s2. apply IH.
  Qed.
End SkipLoopsEv.

Theorem e_skip_val_eq step p : forall f d ty s, ev_eq (e_skip_val step p f d ty s) (askip_val p f d ty (abs s)).
Proof.
  induction f as [|f IH]; intros d ty s; [reflexivity|]. destruct d as [|d]; [reflexivity|].
  cbn [e_skip_val askip_val].
  destruct ty; try reflexivity.
  - apply e_drop_eq, e_bool_eq.
  - apply e_drop_eq, e_i8_eq.
  - apply e_drop_eq, e_double_eq.
  - apply e_drop_eq, e_i16_eq.
  - apply e_drop_eq, e_i32_eq.
  - apply e_drop_eq, e_i64_eq.
  - apply e_drop_eq, e_bytes_eq.
  - apply ev_eq_bind; [apply e_struct_begin_eq|]. intros u s1.
    apply ev_eq_bind; [apply eskip_fields_eq; intros; apply IH|]. intros u2 s2. apply e_struct_end_eq.
  - apply ev_eq_bind; [apply e_map_begin_eq|]. intros h s1. apply eskip_pairs_eq. intros; apply IH.
  - apply ev_eq_bind; [apply e_coll_begin_eq|]. intros h s1. apply eskip_elems_eq. intros; apply IH.
  - apply ev_eq_bind; [apply e_coll_begin_eq|]. intros h s1. apply eskip_elems_eq. intros; apply IH.
  - apply e_drop_eq, e_uuid_eq.
Qed.

(* ================================================================== *)
(* C12_value_schedule_free *)
Theorem value_schedule_free step p f ty es l rcx :
  bytes_of es = l ->
  ev_eq (e_read_val step p f ty (mkE es rcx)) (aread_val p f ty (mkS l rcx)) /\
  forall d, ev_eq (e_skip_val step p f d ty (mkE es rcx)) (askip_val p f d ty (mkS l rcx)).
Proof.
  intros <-. change (mkS (bytes_of es) rcx) with (abs (mkE es rcx)). split; [apply e_read_val_eq|intros d; apply e_skip_val_eq].
Qed.

Lemma ev_eq_ok {A} (o1 : res (A * est)) (o2 : res (A * rst)) v s' :
  ev_eq o1 o2 -> o2 = Ok (v, s') -> exists es', o1 = Ok (v, mkE es' (rc s')) /\ bytes_of es' = rbuf s'.
Proof.
  destruct o1 as [[x s1]|e|st]; cbn [ev_eq]; intros -> H; try discriminate.
  injection H as <- <-. exists (ebuf s1). destruct s1; split; reflexivity.
Qed.
Lemma ev_eq_errd {A} (o1 : res (A * est)) (o2 : res (A * rst)) e : ev_eq o1 o2 -> o2 = Err e -> o1 = Err e.
Proof. destruct o1 as [[x s1]|e1|st]; cbn [ev_eq]; intros -> H; try discriminate. injection H as ->. reflexivity. Qed.

(* with C12_outcome: the in-memory reader on l and the asynchronous reader over ANY delivery schedule
   of l agree: same value, the unread events deliver exactly the bytes the in-memory reader left,
   same reader context; an error whenever the in-memory reader reports one *)
Theorem sync_async_every_schedule step p f ty es l rcx :
  bytes_of es = l -> idle rcx -> Z.of_nat (length l) < 2 ^ 63 ->
  match read_val p f ty (mkS l rcx) with
  | Ok (v, s') => exists es', e_read_val step p f ty (mkE es rcx) = Ok (v, mkE es' (rc s')) /\ bytes_of es' = rbuf s'
  | Err _ => exists e', e_read_val step p f ty (mkE es rcx) = Err e'
  | Panic _ => True
  end.
Proof.
  intros Hb Hi Hl. destruct (value_schedule_free step p f ty es l rcx Hb) as [HE _].
  pose proof (async_outcome p f ty l rcx Hi Hl) as HO.
  destruct (read_val p f ty (mkS l rcx)) as [[v s']|e|st]; [|destruct HO as [e' HO]; exists e'|exact I].
  - eapply ev_eq_ok; eauto.
  - eapply ev_eq_errd; eauto.
Qed.

(* non-vacuity: a compact struct {1: bool true, 2: string "ab", 3: list<i32> [1, -1]} followed by a byte,
   delivered whole, byte by byte with Pending in between, and with Pending inside every multi-byte read *)
Example value_schedule_examples :
  let v := VStruct [(1, VBool true); (2, VBinary [x61; x62]); (3, VList TI32 [VI32 1; VI32 (-1)])] in
  forall p, match write_val p BContig v w0 with
            | Ok (ss, _) =>
                let l := flat ss ++ [xff] in
                let P := fun es => bytes_of es = l /\
                           exists es', e_read_val (fun n => n) p 9 TStruct (mkE es r0) = Ok (v, mkE es' r0) /\ bytes_of es' = [xff] /\
                                       e_skip_val (fun n => n) p 9 3 TStruct (mkE es r0) = Ok (tt, mkE es' r0) in
                P [Chunk l] /\ P (flat_map (fun b => [Pend; Chunk [b]; Chunk []]) l) /\ P [Chunk (firstn 5 l); Pend; Chunk (skipn 5 l)]
            | _ => False
            end.
Proof.
  intros v p. subst v.
  destruct p;
    match goal with |- context [write_val ?p ?k ?v ?c] =>
      let r := eval vm_compute in (write_val p k v c) in change (write_val p k v c) with r end;
    cbv beta iota zeta;
    (split; [|split]); (split; [vm_compute; reflexivity|]); eexists; (split; [vm_compute; reflexivity|]); split; vm_compute; reflexivity.
Qed.
