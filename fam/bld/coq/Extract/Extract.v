(* Extraction of the executable models of the bld family for the correspondence runner.
   Directives: ExtrOcamlBasic only (bool, option, unit, list, prod, sumbool, sumor -> OCaml's).
   string / ascii / nat stay the extracted inductive types.  No Extract Constant. *)
Require Extraction.
Require Import ExtrOcamlBasic.
From PVBld Require Import Names Paths BoxCycle Pipeline Derive Dedup Collect Effective.

Extraction "model.ml"
  display ident_token_ok rust_name emitted collides
  related_path wrelated_path resolve_item
  box_decisions is_nested union_cycle_b
  layout layout_pred generate_unique_name lower_message lower_message_pinned
  decisions verdict closed_b ws_complete_b
  layout_pred_dedup collect_items helper_items exception_path duplicates.
