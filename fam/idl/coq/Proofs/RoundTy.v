(* C15, stage 2: types (recursive: list / set / map to any depth, cpp_type clauses, annotation lists), every layout.
   The parser tries a cpp_type clause, a '.', and an annotation list after every type, which is why the lemmas carry
   *follow conditions* (what the text after the type must not be mistaken for). *)
From PVIdl Require Import Comb Ast Parser Print Proofs.Total Proofs.RoundTok Proofs.RoundPath Proofs.RoundAnn.
From Coq Require Import ZifyN ZifyNat ZifyBool.
From Coq Require String.
Import String.StringSyntax.
Open Scope nat_scope.

(* ---------- types ---------- *)
Fixpoint simple_ty (t : cty) : bool :=
  match t with
  | CTBase _ | CTPath _ => true
  | CTList _ _ inner _ cpp => simple_type inner && match cpp with None => true | Some _ => false end
  | CTSet cpp _ _ inner _ => simple_type inner && match cpp with None => true | Some _ => false end
  | CTMap cpp _ _ key _ _ _ value _ =>
    simple_type key && simple_type value && match cpp with None => true | Some _ => false end
  end
with simple_type (t : ctype) : bool :=
  match t with CType t None => simple_ty t | CType _ (Some _) => false end.

Fixpoint ty_depth (t : cty) : nat :=
  match t with
  | CTBase _ | CTPath _ => 0
  | CTList _ _ inner _ _ | CTSet _ _ _ inner _ => S (type_depth inner)
  | CTMap _ _ _ key _ _ _ value _ => S (Nat.max (type_depth key) (type_depth value))
  end
with type_depth (t : ctype) : nat := match t with CType t _ => ty_depth t end.

(* what follows a Ty: an optional blank and then something that is neither a cpp_type clause nor a '.'; if there is no
   blank and the type ends with a word, something that ends the word *)
Definition nolt (k : list byte) : bool := hd_sat (fun b => negb (Byte.eqb b x3c)) k.
Definition tyfollow0 (lf : nat) (ends_word : bool) (k : list byte) : Prop :=
  exists bl k', k = pr_blank bl k' /\ wf_blank bl = true /\ nb k' = true /\
    is_perr (p_cpp_type lf k') /\ is_perr (tag sym_path_dot k') /\ nolt k' = true /\
    (bl = [] -> ends_word = true -> wordend k' = true).

(* what follows an optional cpp_type clause: an optional blank and then something that is not the word cpp_type
   followed by a blank and a literal *)
Definition cppfollow (lf : nat) (k : list byte) : Prop :=
  exists bl k', k = pr_blank bl k' /\ wf_blank bl = true /\ nb k' = true /\ is_perr (p_cpp_type lf k').

(* what follows a Type: the same, and not an annotation list either *)
Definition tyfollow (lf : nat) (ends_word : bool) (k : list byte) : Prop :=
  exists bl k', k = pr_blank bl k' /\ wf_blank bl = true /\ nb k' = true /\
    is_perr (p_cpp_type lf k') /\ is_perr (tag sym_path_dot k') /\ is_perr (p_annotations lf k') /\ nolt k' = true /\
    (bl = [] -> ends_word = true -> wordend k' = true).

Lemma tyfollow_0 lf e k : tyfollow lf e k -> tyfollow0 lf e k.
Proof. intros [bl [k' [E [Hw [Hn [Hc [Hd [_ [Hl He]]]]]]]]]. exists bl, k'. tauto. Qed.

Lemma tyfollow0_cpp lf e k : tyfollow0 lf e k -> cppfollow lf k.
Proof. intros [bl [k' [E [Hw [Hn [Hc _]]]]]]. exists bl, k'. tauto. Qed.

Fixpoint mism (kw s : list byte) : bool :=
  match kw, s with
  | a :: kw', b :: s' => if Byte.eqb b a then mism kw' s' else true
  | _, _ => false
  end.

Lemma mism_strip kw : forall s k, mism kw s = true -> strip_prefix kw (s ++ k) = None.
Proof.
  induction kw as [|a kw IH]; intros s k H; [discriminate|]. destruct s as [|b s]; [discriminate|].
  cbn [mism] in H. cbn [app strip_prefix]. destruct (Byte.eqb b a); [auto|reflexivity].
Qed.

Lemma tag_mism kw s k : mism kw s = true -> is_perr (tag kw (s ++ k)).
Proof. intros H. unfold tag. now rewrite (mism_strip kw s k H). Qed.

Lemma base_err kw t s k : mism kw s = true -> is_perr (p_base_ty kw t (s ++ k)).
Proof. intros H. unfold p_base_ty, p_keyword. apply pbind_err, pbind_err, tag_mism, H. Qed.

Lemma base_ok kw t s k : kw = s -> wordend k = true -> p_base_ty kw t (s ++ k) = POk k t.
Proof. intros -> H. unfold p_base_ty. now rewrite rt_keyword. Qed.

Lemma base_ident_err kw t s k :
  forallb identch kw = true -> is_ident s = true -> hd_sat (fun b => negb (identch b)) k = true ->
  bytes_eq s kw = false -> is_perr (p_base_ty kw t (s ++ k)).
Proof. intros. unfold p_base_ty. apply pbind_err. now apply keyword_not_ident. Qed.

(* the alternatives of Ty::parse, named *)
Definition alt_list (lf : nat) (p_type : parser Type_) : parser Ty :=
  fun i => do i, _ <- tag kw_ty_list i ;; do i, _ <- opt (p_blank lf) i ;; do i, _ <- tag sym_list_lt i ;;
           do i, _ <- opt (p_blank lf) i ;; do i, inner <- p_type i ;; do i, _ <- opt (p_blank lf) i ;;
           do i, _ <- tag sym_list_gt i ;;
           do i, cpp <- opt (fun i => do i, _ <- p_blank lf i ;; p_cpp_type lf i) i ;; POk i (TList inner cpp).
Definition alt_set (lf : nat) (p_type : parser Type_) : parser Ty :=
  fun i => do i, _ <- tag kw_ty_set i ;; do i, cpp <- opt (fun i => do i, _ <- p_blank lf i ;; p_cpp_type lf i) i ;;
           do i, _ <- opt (p_blank lf) i ;; do i, _ <- tag sym_set_lt i ;; do i, _ <- opt (p_blank lf) i ;;
           do i, inner <- p_type i ;; do i, _ <- opt (p_blank lf) i ;; do i, _ <- tag sym_set_gt i ;; POk i (TSet inner cpp).
Definition alt_map (lf : nat) (p_type : parser Type_) : parser Ty :=
  fun i => do i, _ <- tag kw_ty_map i ;; do i, cpp <- opt (fun i => do i, _ <- p_blank lf i ;; p_cpp_type lf i) i ;;
           do i, _ <- opt (p_blank lf) i ;; do i, _ <- tag sym_map_lt i ;; do i, _ <- opt (p_blank lf) i ;;
           do i, k <- p_type i ;; do i, _ <- opt (p_blank lf) i ;; do i, _ <- p_list_separator lf i ;;
           do i, _ <- opt (p_blank lf) i ;; do i, v <- p_type i ;; do i, _ <- opt (p_blank lf) i ;;
           do i, _ <- tag sym_map_gt i ;; POk i (TMap k v cpp).

Definition base_alts : list (parser Ty) :=
  [ p_base_ty kw_ty_string TString; p_base_ty kw_ty_void TVoid; p_base_ty kw_ty_byte TByte; p_base_ty kw_ty_bool TBool;
    p_base_ty kw_ty_binary TBinary; p_base_ty kw_ty_i8 TI8; p_base_ty kw_ty_i16 TI16; p_base_ty kw_ty_i32 TI32;
    p_base_ty kw_ty_i64 TI64; p_base_ty kw_ty_double TDouble; p_base_ty kw_ty_uuid TUuid ].

Lemma p_ty_eq lf d i :
  p_ty lf (S d) i =
  alt (base_alts ++ [alt_list lf (p_type_of lf (p_ty lf d)); alt_set lf (p_type_of lf (p_ty lf d));
                     alt_map lf (p_type_of lf (p_ty lf d)); pmap TPath (p_path lf)]) i.
Proof. reflexivity. Qed.

Lemma alt_skip {A} (ps : list (parser A)) q qs i :
  Forall (fun p => is_perr (p i)) ps -> alt (ps ++ q :: qs) i = alt (q :: qs) i.
Proof.
  induction ps as [|p ps IH]; intros F; [reflexivity|]. inversion F; subst. cbn [app].
  destruct ps as [|p' ps']; cbn [app] in *; rewrite alt_err by assumption; auto.
Qed.

Lemma base_alts_err s k : Forall (fun kw => mism kw s = true)
    [kw_ty_string; kw_ty_void; kw_ty_byte; kw_ty_bool; kw_ty_binary; kw_ty_i8; kw_ty_i16; kw_ty_i32; kw_ty_i64;
     kw_ty_double; kw_ty_uuid] ->
  Forall (fun p : parser Ty => is_perr (p (s ++ k))) base_alts.
Proof.
  intros F. unfold base_alts.
  repeat (match goal with H : Forall _ (_ :: _) |- _ => inversion H; clear H; subst end).
  repeat apply Forall_cons; try apply Forall_nil; apply base_err; assumption.
Qed.

Section Types.
Variable lf : nat.
Variable whole : list byte.
Hypothesis Hlf : length whole < lf.

Lemma follow_wordend e k : tyfollow0 lf e k -> e = true -> wordend k = true.
Proof.
  intros [bl [k' [-> [Hw [Hn [_ [_ [_ Hwe]]]]]]]] He. apply blank_then; auto. apply blank_start_wordend.
Qed.

Lemma follow_nocpp k : cppfollow lf k -> sfx k whole ->
  opt (fun i => do i, _ <- p_blank lf i ;; p_cpp_type lf i) k = POk k None.
Proof.
  intros [bl [k' [-> [Hw [Hn Hc]]]]] S. apply opt_err. destruct bl as [|a bl].
  - cbn [pr_blank]. apply pbind_err, blank_err, Hn.
  - rewrite (rt_blank lf (a :: bl) k' Hw ltac:(discriminate) Hn (sfx_lt lf whole _ Hlf S)). cbn [pbind]. exact Hc.
Qed.

Lemma follow_nodot e k : tyfollow0 lf e k -> sfx k whole -> is_perr (p_path_sep lf k).
Proof.
  intros [bl [k' [-> [Hw [Hn [_ [Hd _]]]]]]] S. unfold p_path_sep.
  destruct (oblank lf whole Hlf bl k' Hw Hn S) as [o ->]. cbn [pbind]. apply pbind_err, Hd.
Qed.

Lemma follow_noann e k : tyfollow lf e k -> sfx k whole ->
  opt (fun i => do i, pr <- permutation2 (opt (p_blank lf)) (p_annotations lf) i ;; POk i (snd pr)) k = POk k None.
Proof.
  intros [bl [k' [-> [Hw [Hn [_ [_ [Ha _]]]]]]]] S. apply opt_err, pbind_err. unfold permutation2.
  destruct (oblank lf whole Hlf bl k' Hw Hn S) as [o ->]. apply pbind_err, Ha.
Qed.

Lemma tyfollow_punct e bl c r : wf_blank bl = true -> (c = x3e \/ c = x2c \/ c = x3b) -> tyfollow lf e (pr_blank bl (c :: r)).
Proof.
  intros Hw Hc. exists bl, (c :: r). split; [reflexivity|]. split; [exact Hw|].
  destruct Hc as [->|[->| ->]]; repeat split; try reflexivity; try exact I;
    try (unfold p_cpp_type; apply pbind_err; exact I); try (unfold p_annotations; apply pbind_err; exact I).
Qed.

(* the '<' of a container type after its (absent) cpp_type clause; the '.' of a path *)
Lemma cppfollow_punct bl c r : wf_blank bl = true -> (c = x3c \/ c = x2e) -> cppfollow lf (pr_blank bl (c :: r)).
Proof.
  intros Hw Hc. exists bl, (c :: r). split; [reflexivity|]. split; [exact Hw|].
  destruct Hc as [->| ->]; repeat split; try reflexivity; unfold p_cpp_type; apply pbind_err; exact I.
Qed.

(* a Ty followed by the annotation list of its Type *)
Lemma tyfollow0_paren e bl a r : wf_blank bl = true -> tyfollow0 lf e (pr_blank bl (pr_anns a r)).
Proof.
  intros Hw. exists bl, (pr_anns a r). split; [reflexivity|]. split; [exact Hw|].
  repeat split; try reflexivity; try exact I; try (unfold p_cpp_type; apply pbind_err; exact I).
Qed.

Lemma ty_head_nb t k : wf_ty t = true -> nb (pr_ty t k) = true.
Proof.
  destruct t as [b| | | |p]; cbn [pr_ty]; intros H; try reflexivity.
  - destruct b; reflexivity.
  - cbn [wf_ty] in H. apply andb_prop in H. destruct H as [H _]. unfold wf_path in H. apply andb_prop in H.
    destruct H as [H _]. unfold pr_path. now apply ident_nb.
Qed.

Lemma type_head_nb t k : wf_type t = true -> nb (pr_type t k) = true.
Proof.
  destruct t as [t [[bl a]|]]; cbn [pr_type wf_type]; intros H; [|now apply ty_head_nb].
  apply andb_prop in H. destruct H as [H _]. apply andb_prop in H. destruct H as [H _]. now apply ty_head_nb.
Qed.

(* a word that begins with list / set / map but is longer is not a container type *)
Lemma container_word_err {A} (kw : list byte) (rest : parser A) s k :
  forallb identch kw = true -> is_ident s = true -> hd_sat (fun b => negb (identch b)) k = true ->
  bytes_eq s kw = false ->
  (forall c r, identch c = true -> is_perr (rest (c :: r))) ->
  is_perr ((fun i => do i, _ <- tag kw i ;; rest i) (s ++ k)).
Proof.
  intros Hkw Hs Hk Hne Hrest. cbn beta. unfold tag. destruct (strip_prefix kw (s ++ k)) as [r|] eqn:E; [|exact I].
  destruct (strip_prefix_word kw s k r Hkw (ident_forall s Hs) Hk Hne E) as [c [r' [-> Hc]]]. cbn [pbind]. auto.
Qed.

Lemma identch_not_blank c r : identch c = true -> is_perr (p_blank lf (c :: r)).
Proof.
  intros H. apply blank_err. cbn. destruct (blank_start c) eqn:E; [|reflexivity].
  rewrite (blank_start_not_identch c E) in H. discriminate.
Qed.

Lemma identch_not_lt c r : identch c = true -> is_perr (tag [x3c] (c :: r)).
Proof. intros H. apply tag_hd_ne. destruct (Byte.eqb c x3c) eqn:E; [|reflexivity]. apply byte_dec_bl in E. subst. discriminate. Qed.

Lemma nb_sep semi x : nb (sep_byte semi :: x) = true.
Proof. destruct semi; reflexivity. Qed.

Lemma bytes_eq_eq a : forall b, bytes_eq a b = true -> a = b.
Proof.
  induction a as [|x a IH]; intros [|y b] H; cbn [bytes_eq] in H; try discriminate; [reflexivity|].
  apply andb_prop in H. destruct H as [H1 H2]. apply byte_dec_bl in H1. subst. f_equal. auto.
Qed.

Lemma nolt_err k : nolt k = true -> is_perr (tag [x3c] k).
Proof. destruct k as [|c k]; [intros _; exact I|]. cbn. intros H. apply tag_hd_ne. now apply negb_true_iff in H. Qed.

(* the words list / set / map as type names: what follows the word (the rest of the path, then what follows the type)
   is, after an optional blank, not a '<' -- and not a cpp_type clause *)
Lemma tail_nolt {A} (rest : parser A) tl k e :
  forallb (fun x => wf_blank (fst (fst x)) && wf_blank (snd (fst x)) && is_ident (snd x)) tl = true ->
  tyfollow0 lf e k -> sfx (pr_path_tail tl k) whole ->
  is_perr ((fun i => do i, _ <- opt (p_blank lf) i ;; do i, _ <- tag [x3c] i ;; rest i) (pr_path_tail tl k)).
Proof.
  intros Ht Hf S. cbn beta. destruct tl as [|[[b1 b2] s0] tl]; cbn [pr_path_tail] in *.
  - destruct Hf as [bl [k' [-> [Hw [Hn [_ [_ [Hl _]]]]]]]].
    destruct (oblank lf whole Hlf bl k' Hw Hn S) as [o ->]. cbn [pbind]. apply pbind_err, nolt_err, Hl.
  - cbn [forallb fst snd] in Ht. bsplit Ht.
    destruct (oblank lf whole Hlf b1 (txt "." ++ pr_blank b2 (s0 ++ pr_path_tail tl k)) Ht eq_refl S) as [o ->]. cbn [pbind].
    apply pbind_err. exact I.
Qed.

Lemma tail_cppfollow tl k e :
  forallb (fun x => wf_blank (fst (fst x)) && wf_blank (snd (fst x)) && is_ident (snd x)) tl = true ->
  tyfollow0 lf e k -> cppfollow lf (pr_path_tail tl k).
Proof.
  intros Ht Hf. destruct tl as [|[[b1 b2] s0] tl]; cbn [pr_path_tail] in *; [exact (tyfollow0_cpp _ _ _ Hf)|].
  cbn [forallb fst snd] in Ht. bsplit Ht. apply (cppfollow_punct b1 x2e); [assumption|tauto].
Qed.

Ltac ob S := obk lf whole Hlf S ltac:(first [reflexivity | apply nb_sep | apply type_head_nb; assumption]).

(* the optional cpp_type clause of a container type *)
Lemma ocpp_ok cpp k : wf_ocpp cpp = true -> (cpp = None -> cppfollow lf k) -> sfx (pr_ocpp cpp k) whole ->
  opt (fun i => do i, _ <- p_blank lf i ;; p_cpp_type lf i) (pr_ocpp cpp k) = POk k (erase_ocpp cpp).
Proof.
  intros Hw Hf S. destruct cpp as [c|]; cbn [pr_ocpp wf_ocpp erase_ocpp option_map] in *.
  - apply opt_ok. exact (rt_cpp lf whole Hlf c k Hw S).
  - exact (follow_nocpp k (Hf eq_refl) S).
Qed.

Lemma tyfollow0_weaken e k : tyfollow0 lf e k -> tyfollow0 lf false k.
Proof. intros [bl [k' [E [Hw [Hn [Hc [Hd [Hl _]]]]]]]]. exists bl, k'. repeat split; auto. discriminate. Qed.

Lemma rt_ty : forall d t k,
  ty_depth t < d -> wf_ty t = true -> tyfollow0 lf (ty_ends_word t) k -> sfx (pr_ty t k) whole ->
  p_ty lf d (pr_ty t k) = POk k (erase_ty t).
Proof.
  induction d as [|d IH]; intros t k Hd Hw Hf S; [lia|].
  (* the Type level, for the inner types *)
  assert (IHT : forall c r, type_depth c < d -> wf_type c = true ->
            tyfollow lf (type_ends_word c) r -> sfx (pr_type c r) whole ->
            p_type_of lf (p_ty lf d) (pr_type c r) = POk r (erase_type c)).
  { intros [t' [[bl a]|]] r Hd' Hw' Hf' S'; cbn [pr_type wf_type type_depth type_ends_word erase_type] in *; unfold p_type_of.
    - bsplit Hw'. destruct a as [|a0 a]; [discriminate|].
      rewrite (IH t' _ Hd' Hw' (tyfollow0_paren _ bl _ _ W0) S'). cbn [pbind].
      erewrite opt_ok; [reflexivity|]. unfold permutation2.
      destruct (oblank lf whole Hlf bl (pr_anns (a0 :: a) r) W0 eq_refl ltac:(sfx_of S')) as [o ->].
      rewrite (rt_anns lf whole Hlf (a0 :: a) r W) by (sfx_of S'). reflexivity.
    - rewrite (IH t' r Hd' Hw' (tyfollow_0 _ _ _ Hf') S'). cbn [pbind].
      rewrite (follow_noann _ r Hf') by (sfx_of S'). reflexivity. }
  rewrite p_ty_eq. destruct t as [b|b1 b2 inner b3 cpp|cpp b1 b2 inner b3|cpp b1 b2 key b3 semi b4 value b5|p].
  - (* base types *)
    cbn [pr_ty erase_ty ty_ends_word] in *. pose proof (follow_wordend _ k Hf eq_refl) as We.
    unfold base_alts. cbn [app].
    destruct b; cbn [base_kw base_ast];
      repeat (rewrite alt_err by (apply base_err; reflexivity));
      (apply alt_ok, base_ok; [reflexivity|exact We]).
  - (* list *)
    cbn [pr_ty erase_ty wf_ty ty_depth ty_ends_word] in *. bsplit Hw.
    rewrite alt_skip by (apply base_alts_err; repeat apply Forall_cons; try apply Forall_nil; reflexivity).
    apply alt_ok. unfold alt_list.
    tg kw_ty_list (txt "list"). ob S. tg sym_list_lt (txt "<"). ob S.
    assert (F3 : tyfollow lf (type_ends_word inner) (pr_blank b3 (txt ">" ++ pr_ocpp cpp k)))
      by (apply (tyfollow_punct _ b3 x3e); [assumption|tauto]).
    rewrite (IHT inner _ ltac:(clear - Hd; lia) ltac:(assumption) F3 ltac:(sfx_of S)). cbn [pbind].
    ob S. tg sym_list_gt (txt ">").
    rewrite (ocpp_ok cpp k ltac:(assumption) (fun _ => tyfollow0_cpp _ _ _ Hf) ltac:(sfx_of S)). reflexivity.
  - (* set *)
    cbn [pr_ty erase_ty wf_ty ty_depth] in *. bsplit Hw.
    rewrite alt_skip by (apply base_alts_err; repeat apply Forall_cons; try apply Forall_nil; reflexivity).
    rewrite alt_err by (unfold alt_list; apply pbind_err; exact I).
    apply alt_ok. unfold alt_set.
    tg kw_ty_set (txt "set").
    match goal with |- context [opt _ (pr_ocpp cpp ?X)] =>
      assert (Fl : cppfollow lf X) by (apply (cppfollow_punct b1 x3c); [assumption|tauto]);
      rewrite (ocpp_ok cpp X ltac:(assumption) (fun _ => Fl) ltac:(sfx_of S)) end.
    cbn [pbind]. ob S. tg sym_set_lt (txt "<"). ob S.
    assert (F3 : tyfollow lf (type_ends_word inner) (pr_blank b3 (txt ">" ++ k)))
      by (apply (tyfollow_punct _ b3 x3e); [assumption|tauto]).
    rewrite (IHT inner _ ltac:(clear - Hd; lia) ltac:(assumption) F3 ltac:(sfx_of S)). cbn [pbind].
    ob S. tg sym_set_gt (txt ">"). reflexivity.
  - (* map *)
    cbn [pr_ty erase_ty wf_ty ty_depth] in *. bsplit Hw.
    rewrite alt_skip by (apply base_alts_err; repeat apply Forall_cons; try apply Forall_nil; reflexivity).
    rewrite alt_err by (unfold alt_list; apply pbind_err; exact I).
    rewrite alt_err by (unfold alt_set; apply pbind_err; exact I).
    apply alt_ok. unfold alt_map.
    tg kw_ty_map (txt "map").
    match goal with |- context [opt _ (pr_ocpp cpp ?X)] =>
      assert (Fl : cppfollow lf X) by (apply (cppfollow_punct b1 x3c); [assumption|tauto]);
      rewrite (ocpp_ok cpp X ltac:(assumption) (fun _ => Fl) ltac:(sfx_of S)) end.
    cbn [pbind]. ob S. tg sym_map_lt (txt "<"). ob S.
    assert (Fk : tyfollow lf (type_ends_word key) (pr_blank b3 (sep_byte semi :: pr_blank b4 (pr_type value (pr_blank b5 (txt ">" ++ k)))))).
    { apply tyfollow_punct; [assumption|]. destruct semi; cbn [sep_byte]; tauto. }
    assert (Dk : type_depth key < d) by (clear - Hd; lia). assert (Dv : type_depth value < d) by (clear - Hd; lia).
    assert (Sk : sfx (pr_type key (pr_blank b3 (sep_byte semi :: pr_blank b4 (pr_type value (pr_blank b5 (txt ">" ++ k)))))) whole) by (sfx_of S).
    assert (Sv : sfx (pr_type value (pr_blank b5 (txt ">" ++ k))) whole) by (sfx_of S).
    rewrite (IHT key _ Dk ltac:(assumption) Fk Sk). cbn [pbind].
    ob S.
    unfold p_list_separator. cbn [one_of].
    assert (M : bmem (sep_byte semi) set_list_separator = true) by (destruct semi; reflexivity). rewrite M. cbn [pbind].
    ob S.
    rewrite (opt_err (p_blank lf)) by (apply blank_err, type_head_nb; assumption). cbn [pbind].
    assert (F5 : tyfollow lf (type_ends_word value) (pr_blank b5 (txt ">" ++ k)))
      by (apply (tyfollow_punct _ b5 x3e); [assumption|tauto]).
    rewrite (IHT value _ Dv ltac:(assumption) F5 Sv). cbn [pbind].
    ob S. tg sym_map_gt (txt ">"). reflexivity.
  - (* path *)
    cbn [pr_ty erase_ty wf_ty] in *. apply andb_prop in Hw. destruct Hw as [Hwp Hnw].
    pose proof Hwp as Hwp'. unfold wf_path in Hwp'. apply andb_prop in Hwp'. destruct Hwp' as [Hh Ht].
    destruct p as [h tl]. cbn [cp_head cp_tail] in *. unfold pr_path in *. cbn [cp_head cp_tail] in *.
    assert (Hk1 : hd_sat (fun b => negb (identch b)) k = true).
    { apply wordend_identch, (follow_wordend _ k Hf eq_refl). }
    pose proof (path_tail_head tl k Ht Hk1) as Hrest.
    apply negb_true_iff in Hnw. cbn [bytes_in base_words] in Hnw.
    repeat (apply orb_false_elim in Hnw; destruct Hnw as [? Hnw]).
    rewrite alt_skip.
    2:{ unfold base_alts. repeat apply Forall_cons; try apply Forall_nil;
          (apply base_ident_err; [reflexivity|exact Hh|exact Hrest|assumption]). }
    assert (ST : sfx (pr_path_tail tl k) whole) by (sfx_of S).
    rewrite alt_err.
    2:{ destruct (bytes_eq h kw_ty_list) eqn:El.
        - apply bytes_eq_eq in El. subst h. unfold alt_list. rewrite tag_ok. cbn [pbind].
          change sym_list_lt with [x3c]. exact (tail_nolt _ tl k _ Ht Hf ST).
        - apply (container_word_err kw_ty_list _ h _ eq_refl Hh Hrest); [assumption|]. intros c r Hc.
          rewrite (opt_err (p_blank lf)) by (now apply identch_not_blank). cbn [pbind]. apply pbind_err.
          change sym_list_lt with [x3c]. now apply identch_not_lt. }
    rewrite alt_err.
    2:{ destruct (bytes_eq h kw_ty_set) eqn:El.
        - apply bytes_eq_eq in El. subst h. unfold alt_set. rewrite tag_ok. cbn [pbind].
          rewrite (follow_nocpp _ (tail_cppfollow tl k _ Ht Hf) ST). cbn [pbind].
          change sym_set_lt with [x3c]. exact (tail_nolt _ tl k _ Ht Hf ST).
        - apply (container_word_err kw_ty_set _ h _ eq_refl Hh Hrest); [assumption|]. intros c r Hc.
          rewrite opt_err by (apply pbind_err; now apply identch_not_blank). cbn [pbind].
          rewrite (opt_err (p_blank lf)) by (now apply identch_not_blank). cbn [pbind]. apply pbind_err.
          change sym_set_lt with [x3c]. now apply identch_not_lt. }
    rewrite alt_err.
    2:{ destruct (bytes_eq h kw_ty_map) eqn:El.
        - apply bytes_eq_eq in El. subst h. unfold alt_map. rewrite tag_ok. cbn [pbind].
          rewrite (follow_nocpp _ (tail_cppfollow tl k _ Ht Hf) ST). cbn [pbind].
          change sym_map_lt with [x3c]. exact (tail_nolt _ tl k _ Ht Hf ST).
        - apply (container_word_err kw_ty_map _ h _ eq_refl Hh Hrest); [assumption|]. intros c r Hc.
          rewrite opt_err by (apply pbind_err; now apply identch_not_blank). cbn [pbind].
          rewrite (opt_err (p_blank lf)) by (now apply identch_not_blank). cbn [pbind]. apply pbind_err.
          change sym_map_lt with [x3c]. now apply identch_not_lt. }
    cbn [alt]. unfold pmap. change (h ++ pr_path_tail tl k) with (pr_path (mkCPath h tl) k).
    rewrite (rt_path lf whole Hlf (mkCPath h tl) k Hwp (conj Hk1 (or_introl (follow_nodot _ k Hf ltac:(sfx_of S)))) S). reflexivity.
Qed.

(* Type::parse inverts the printing of every type under every layout *)
Theorem rt_type : forall df t k,
  type_depth t < df -> wf_type t = true -> tyfollow lf (type_ends_word t) k ->
  sfx (pr_type t k) whole ->
  p_type lf df (pr_type t k) = POk k (erase_type t).
Proof.
  intros df [t [[bl a]|]] k Hd Hw Hf S; cbn [pr_type wf_type type_depth type_ends_word erase_type] in *; unfold p_type, p_type_of.
  - bsplit Hw. destruct a as [|a0 a]; [discriminate|].
    rewrite (rt_ty df t _ Hd Hw (tyfollow0_paren _ bl _ _ W0) S). cbn [pbind].
    erewrite opt_ok; [reflexivity|]. unfold permutation2.
    destruct (oblank lf whole Hlf bl (pr_anns (a0 :: a) k) W0 eq_refl ltac:(sfx_of S)) as [o ->].
    rewrite (rt_anns lf whole Hlf (a0 :: a) k W) by (sfx_of S). reflexivity.
  - rewrite (rt_ty df t k Hd Hw (tyfollow_0 _ _ _ Hf) S). cbn [pbind].
    rewrite (follow_noann _ k Hf) by (sfx_of S). reflexivity.
Qed.

End Types.

(* layout independence for types: two layouts of the same type parse to the same tree *)
Corollary type_layout_free lf whole1 whole2 df t1 t2 k1 k2 :
  length whole1 < lf -> length whole2 < lf ->
  type_depth t1 < df -> wf_type t1 = true -> tyfollow lf (type_ends_word t1) k1 -> sfx (pr_type t1 k1) whole1 ->
  type_depth t2 < df -> wf_type t2 = true -> tyfollow lf (type_ends_word t2) k2 -> sfx (pr_type t2 k2) whole2 ->
  erase_type t1 = erase_type t2 ->
  exists a, p_type lf df (pr_type t1 k1) = POk k1 a /\ p_type lf df (pr_type t2 k2) = POk k2 a.
Proof.
  intros L1 L2 D1 W1 F1 X1 D2 W2 F2 X2 E. exists (erase_type t1). split.
  - exact (rt_type lf whole1 L1 df t1 k1 D1 W1 F1 X1).
  - rewrite E. exact (rt_type lf whole2 L2 df t2 k2 D2 W2 F2 X2).
Qed.

(* non-vacuity: map /*c*/ < listing , list<i32x>#h\n > followed by " x" -- a keyword-prefixed path, all three
   comment styles of blank; the hypotheses of rt_type hold and the parser returns the erased tree *)
Example rt_type_example :
  let t := CType (CTMap None [BBlock (txt "c")] [BWs (txt " ")]
                   (CType (CTPath (mkCPath (txt "listing") [])) None) [BWs (txt " ")] false []
                   (CType (CTList [] [] (CType (CTPath (mkCPath (txt "i32x") [([], [BLine (txt "d"); BWs [x0a]], txt "optionalFoo")])) None) [] None) None)
                   [BHash (txt "h"); BWs [x0a]]) None in
  let k := txt " x" in
  wf_type t = true /\ simple_type t = true /\ type_depth t = 2 /\
  p_type 100 3 (pr_type t k) = POk k (erase_type t) /\
  erase_type t = MkType (TMap (MkType (TPath [txt "listing"]) [])
                              (MkType (TList (MkType (TPath [txt "i32x"; txt "optionalFoo"]) []) None) []) None) [].
Proof. vm_compute. repeat split. Qed.
