(* The lexical nesting depth of a text: the measure that bounds the native recursion of the parser (C16_depth).

   [scan] is a one-byte-at-a-time scanner with the lexical states of Thrift IDL (normal text, the three comment
   styles, the two quote styles with backslash escapes).  In normal text it keeps the running balance
     (number of '<' '[' '{' seen) - (number of '>' ']' '}' seen)
   and returns the largest balance reached; brackets inside comments and string literals are not counted.
   [nesting s := scan LN 0 s] -- the deepest bracket nesting of s.

   This file proves the facts about [scan] that the totality proof needs: how each *successful* token parser moves
   the scanner (tokens made of plain bytes, comments and literals are neutral; an opening bracket lowers the nesting
   of what remains by one; a closing bracket raises it by at most one). *)
From PVIdl Require Import Comb Ast Parser.
From Coq Require Import ZifyN ZifyNat ZifyBool.
Open Scope Z_scope.

Inductive lst := LN | LSlash | LLine | LBlock | LBlockStar | LQ (dq : bool) | LQesc (dq : bool).

Definition is_opener (b : byte) : bool := bmem b [x3c; x5b; x7b].   (* '<' '[' '{' *)
Definition is_closer (b : byte) : bool := bmem b [x3e; x5d; x7d].   (* '>' ']' '}' *)
Definition quote_byte (dq : bool) : byte := if dq then x22 else x27.

Definition stepN (k : Z) (b : byte) : lst * Z :=
  if Byte.eqb b x2f then (LSlash, k)
  else if Byte.eqb b x23 then (LLine, k)
  else if Byte.eqb b x27 then (LQ false, k)
  else if Byte.eqb b x22 then (LQ true, k)
  else if is_opener b then (LN, k + 1)
  else if is_closer b then (LN, k - 1)
  else (LN, k).

Definition step (st : lst) (k : Z) (b : byte) : lst * Z :=
  match st with
  | LN => stepN k b
  | LSlash => if Byte.eqb b x2f then (LLine, k) else if Byte.eqb b x2a then (LBlock, k) else stepN k b
  | LLine => if Byte.eqb b x0a then (LN, k) else (LLine, k)
  | LBlock => if Byte.eqb b x2a then (LBlockStar, k) else (LBlock, k)
  | LBlockStar => if Byte.eqb b x2f then (LN, k) else if Byte.eqb b x2a then (LBlockStar, k) else (LBlock, k)
  | LQ dq => if Byte.eqb b x5c then (LQesc dq, k) else if Byte.eqb b (quote_byte dq) then (LN, k) else (LQ dq, k)
  | LQesc dq => (LQ dq, k)
  end.

Fixpoint scan (st : lst) (k : Z) (i : input) : Z :=
  match i with
  | [] => k
  | b :: r => Z.max k (scan (fst (step st k b)) (snd (step st k b)) r)
  end.

Definition nesting (i : input) : Z := scan LN 0 i.

(* ---------- arithmetic of the scanner ---------- *)
Lemma scan_ge st k i : k <= scan st k i.
Proof. destruct i; cbn [scan]; lia. Qed.

Lemma stepN_shift k c b : stepN (k + c) b = (fst (stepN k b), snd (stepN k b) + c).
Proof.
  unfold stepN. repeat match goal with |- context [if ?x then _ else _] => destruct x end; cbn [fst snd]; f_equal; lia.
Qed.

Lemma step_shift st k c b : step st (k + c) b = (fst (step st k b), snd (step st k b) + c).
Proof.
  destruct st; cbn [step]; try apply stepN_shift;
    repeat match goal with |- context [if ?x then _ else _] => destruct x end; cbn [fst snd]; try reflexivity;
    apply stepN_shift.
Qed.

Lemma scan_shift i : forall st k c, scan st (k + c) i = scan st k i + c.
Proof.
  induction i as [|b r IH]; intros st k c; cbn [scan]; [reflexivity|].
  rewrite step_shift. cbn [fst snd]. rewrite IH. lia.
Qed.

Lemma stepN_le k b : snd (stepN k b) <= k + 1.
Proof. unfold stepN. repeat match goal with |- context [if ?x then _ else _] => destruct x end; cbn [snd]; lia. Qed.

Lemma step_le st k b : snd (step st k b) <= k + 1.
Proof.
  destruct st; cbn [step]; try apply stepN_le;
    repeat match goal with |- context [if ?x then _ else _] => destruct x end; cbn [snd]; try lia; apply stepN_le.
Qed.

Lemma scan_le_len i : forall st k, scan st k i <= k + Z.of_nat (length i).
Proof.
  induction i as [|b r IH]; intros st k; cbn [scan length]; [lia|].
  pose proof (IH (fst (step st k b)) (snd (step st k b))). pose proof (step_le st k b). lia.
Qed.

Lemma nesting_nonneg i : 0 <= nesting i.
Proof. apply scan_ge. Qed.

Lemma nesting_le_len i : nesting i <= Z.of_nat (length i).
Proof. pose proof (scan_le_len i LN 0). unfold nesting. lia. Qed.

Lemma nesting_range i : 0 <= nesting i <= Z.of_nat (length i).
Proof. split; [apply nesting_nonneg | apply nesting_le_len]. Qed.

(* non-vacuity: brackets in comments and literals do not count, closers give levels back *)
Example nesting_examples :
  nesting [x3c; x3c; x3e; x3c] = 2                                   (* "<<><" *)
  /\ nesting [x3c; x2f; x2a; x3e; x3e; x2a; x2f; x3c] = 2             (* "</*>>*/<" *)
  /\ nesting [x5b; x27; x5b; x5c; x27; x5b; x27; x7b; x7d; x5d] = 2   (* "['[\'['{}]" *)
  /\ nesting [x3c; x23; x3c; x3c; x0a; x3e] = 1.                     (* "<#<<\n>" *)
Proof. vm_compute. repeat split. Qed.

(* ---------- plain bytes ---------- *)
Definition special (b : byte) : bool :=
  Byte.eqb b x2f || Byte.eqb b x23 || Byte.eqb b x27 || Byte.eqb b x22 || is_opener b || is_closer b.
Definition plain (b : byte) : bool := negb (special b).

Lemma stepN_plain k b : plain b = true -> stepN k b = (LN, k).
Proof.
  unfold plain, special, stepN. intros H.
  destruct (Byte.eqb b x2f), (Byte.eqb b x23), (Byte.eqb b x27), (Byte.eqb b x22), (is_opener b), (is_closer b);
    cbn in H; try discriminate; reflexivity.
Qed.

Lemma scan_plain k b r : plain b = true -> scan LN k (b :: r) = scan LN k r.
Proof. intros H. cbn [scan step]. rewrite (stepN_plain _ _ H). cbn [fst snd]. pose proof (scan_ge LN k r). lia. Qed.

Lemma scan_plain_app t : forall k r, forallb plain t = true -> scan LN k (t ++ r) = scan LN k r.
Proof.
  induction t as [|b t IH]; intros k r H; cbn [app]; [reflexivity|].
  cbn [forallb] in H. apply andb_prop in H. destruct H as [Hb Ht]. rewrite scan_plain by exact Hb. auto.
Qed.

Lemma nesting_plain_app t r : forallb plain t = true -> nesting (t ++ r) = nesting r.
Proof. apply scan_plain_app. Qed.

Lemma span_forallb cond i : forallb cond (fst (span cond i)) = true.
Proof.
  induction i as [|b i IH]; cbn [span]; [reflexivity|].
  destruct (cond b) eqn:E; [|reflexivity]. destruct (span cond i) as [p r]. cbn [fst forallb] in *. now rewrite E, IH.
Qed.

Lemma span_stop cond i : match snd (span cond i) with [] => True | b :: _ => cond b = false end.
Proof.
  induction i as [|b i IH]; cbn [span]; [exact I|].
  destruct (cond b) eqn:E; [|cbn [snd]; exact E]. destruct (span cond i) as [p r]. cbn [snd] in *. exact IH.
Qed.

Lemma span_eq cond i : i = fst (span cond i) ++ snd (span cond i).
Proof.
  induction i as [|b i IH]; cbn [span]; auto.
  destruct (cond b); cbn [fst snd app]; auto.
  destruct (span cond i) as [p r]; cbn [fst snd app] in *. now f_equal.
Qed.

Lemma forallb_imp {A} (f g : A -> bool) l : (forall x, f x = true -> g x = true) -> forallb f l = true -> forallb g l = true.
Proof.
  intros H. induction l as [|x l IH]; cbn [forallb]; [auto|]. intros E. apply andb_prop in E. destruct E as [E1 E2].
  rewrite (H _ E1), (IH E2). reflexivity.
Qed.

(* ---------- brackets ---------- *)
Lemma opener_cases b : is_opener b = true -> b = x3c \/ b = x5b \/ b = x7b.
Proof.
  unfold is_opener. cbn [bmem]. intros H.
  destruct (Byte.eqb b x3c) eqn:E1; [left; now apply byte_dec_bl|].
  destruct (Byte.eqb b x5b) eqn:E2; [right; left; now apply byte_dec_bl|].
  destruct (Byte.eqb b x7b) eqn:E3; [right; right; now apply byte_dec_bl|]. discriminate.
Qed.

Lemma closer_cases b : is_closer b = true -> b = x3e \/ b = x5d \/ b = x7d.
Proof.
  unfold is_closer. cbn [bmem]. intros H.
  destruct (Byte.eqb b x3e) eqn:E1; [left; now apply byte_dec_bl|].
  destruct (Byte.eqb b x5d) eqn:E2; [right; left; now apply byte_dec_bl|].
  destruct (Byte.eqb b x7d) eqn:E3; [right; right; now apply byte_dec_bl|]. discriminate.
Qed.

Lemma nesting_opener b r : is_opener b = true -> nesting (b :: r) = nesting r + 1.
Proof.
  intros H. unfold nesting. cbn [scan step].
  assert (E : stepN 0 b = (LN, 0 + 1)) by (destruct (opener_cases b H) as [->|[->| ->]]; reflexivity).
  rewrite E. cbn [fst snd]. rewrite scan_shift. pose proof (scan_ge LN 0 r). lia.
Qed.

Lemma nesting_closer b r : is_closer b = true -> nesting r <= nesting (b :: r) + 1.
Proof.
  intros H. unfold nesting. cbn [scan step].
  assert (E : stepN 0 b = (LN, -1)) by (destruct (closer_cases b H) as [->|[->| ->]]; reflexivity).
  rewrite E. cbn [fst snd]. pose proof (scan_shift r LN (-1) 1) as Hs. change (-1 + 1) with 0 in Hs. lia.
Qed.

(* ---------- comments ---------- *)
Lemma scan_line_body p : forall k r,
  forallb (fun b => negb (Byte.eqb b x0a)) p = true ->
  match r with [] => True | b :: _ => b = x0a end ->
  scan LLine k (p ++ r) = scan LN k r.
Proof.
  induction p as [|b p IH]; intros k r Hp Hr; cbn [app].
  - destruct r as [|b r]; [reflexivity|]. subst b. reflexivity.
  - cbn [forallb] in Hp. apply andb_prop in Hp. destruct Hp as [Hb Hp].
    cbn [scan step]. destruct (Byte.eqb b x0a); [discriminate|]. cbn [fst snd].
    rewrite IH by assumption. pose proof (scan_ge LN k r). lia.
Qed.

Definition not_slash_head (i : input) : Prop := match i with b :: _ => b <> x2f | [] => True end.

Lemma strip_star_slash i r : strip_prefix [x2a; x2f] i = Some r -> i = x2a :: x2f :: r.
Proof. intros H. apply (f_equal (fun x => x)) in H. revert H. cbn [strip_prefix].
  destruct i as [|a [|b i]]; try discriminate.
  - destruct (Byte.eqb a x2a); discriminate.
  - destruct (Byte.eqb a x2a) eqn:E1; [|discriminate]. destruct (Byte.eqb b x2f) eqn:E2; [|discriminate].
    intros H. inversion H; subst. apply byte_dec_bl in E1, E2. now subst.
Qed.

Lemma scan_block i : forall p r, find_sub [x2a; x2f] i = Some (p, r) ->
  forall k st, (st = LBlock \/ (st = LBlockStar /\ not_slash_head i)) ->
  exists r2, r = x2a :: x2f :: r2 /\ scan st k i = scan LN k r2.
Proof.
  induction i as [|b i IH]; intros p r H k st Hst.
  - cbn in H. discriminate.
  - cbn [find_sub] in H. destruct (strip_prefix [x2a; x2f] (b :: i)) as [r0|] eqn:E.
    + inversion H; subst p r. apply strip_star_slash in E. inversion E; subst b i. exists r0. split; [reflexivity|].
      pose proof (scan_ge LN k r0).
      destruct Hst as [->|[-> _]].
      * change (scan LBlock k (x2a :: x2f :: r0)) with (Z.max k (Z.max k (scan LN k r0))). lia.
      * change (scan LBlockStar k (x2a :: x2f :: r0)) with (Z.max k (Z.max k (scan LN k r0))). lia.
    + destruct (find_sub [x2a; x2f] i) as [[p' r']|] eqn:F; [|discriminate]. inversion H; subst p r.
      assert (Hnext : forall st', (st' = LBlock \/ (st' = LBlockStar /\ not_slash_head i)) ->
                exists r2, r' = x2a :: x2f :: r2 /\ scan st' k i = scan LN k r2) by (intros; eapply IH; eauto).
      assert (Hstar : b = x2a -> not_slash_head i).
      { intros ->. destruct i as [|c i]; [exact I|]. cbn [not_slash_head]. intros ->. cbn in E. discriminate. }
      cbn [scan]. destruct Hst as [->|[-> Hns]]; cbn [step].
      * destruct (Byte.eqb b x2a) eqn:Eb; cbn [fst snd].
        -- apply byte_dec_bl in Eb. destruct (Hnext LBlockStar) as [r2 [-> Hs]]; [right; auto|].
           exists r2. split; [reflexivity|]. rewrite Hs. pose proof (scan_ge LN k r2). lia.
        -- destruct (Hnext LBlock) as [r2 [-> Hs]]; [left; auto|].
           exists r2. split; [reflexivity|]. rewrite Hs. pose proof (scan_ge LN k r2). lia.
      * cbn [not_slash_head] in Hns. destruct (Byte.eqb b x2f) eqn:Es; [apply byte_dec_bl in Es; contradiction|].
        destruct (Byte.eqb b x2a) eqn:Eb; cbn [fst snd].
        -- apply byte_dec_bl in Eb. destruct (Hnext LBlockStar) as [r2 [-> Hs]]; [right; auto|].
           exists r2. split; [reflexivity|]. rewrite Hs. pose proof (scan_ge LN k r2). lia.
        -- destruct (Hnext LBlock) as [r2 [-> Hs]]; [left; auto|].
           exists r2. split; [reflexivity|]. rewrite Hs. pose proof (scan_ge LN k r2). lia.
Qed.

Definition neutral {A} (p : parser A) : Prop := forall i r a, p i = POk r a -> nesting r = nesting i.

Lemma strip_prefix_eq t i r : strip_prefix t i = Some r -> i = t ++ r.
Proof.
  revert i; induction t as [|c t IH]; intros i H; cbn [strip_prefix] in H.
  - now inversion H.
  - destruct i as [|b i]; [discriminate|]. destruct (Byte.eqb b c) eqn:E; [|discriminate].
    apply byte_dec_bl in E. subst. cbn [app]. f_equal. auto.
Qed.

Lemma line_tail_neutral (stop : list byte) i r p k :
  stop = [x0a] -> take_till (fun b => bmem b stop) i = POk r p -> scan LLine k i = scan LN k r.
Proof.
  intros -> H. unfold take_till, take_while in H.
  pose proof (span_eq (fun b => negb (bmem b [x0a])) i) as E1.
  pose proof (span_forallb (fun b => negb (bmem b [x0a])) i) as E2.
  pose proof (span_stop (fun b => negb (bmem b [x0a])) i) as E3.
  destruct (span (fun b => negb (bmem b [x0a])) i) as [p' r']. inversion H; subst r' p'. cbn [fst snd] in *.
  rewrite E1 at 1. apply scan_line_body.
  - eapply forallb_imp; [|exact E2]. intros x. cbn [bmem]. now rewrite orb_false_r.
  - destruct r as [|b r]; [exact I|]. cbn [bmem] in E3. rewrite orb_false_r in E3.
    apply negb_false_iff in E3. now apply byte_dec_bl.
Qed.

Lemma neutral_comment : neutral p_comment.
Proof.
  intros i r a H. unfold p_comment in H. cbn [alt] in H. unfold nesting.
  (* first alternative: // *)
  unfold tag at 1 in H. change cmt_line_open with [x2f; x2f] in H.
  destruct (strip_prefix [x2f; x2f] i) as [i1|] eqn:E1; cbn [pbind] in H.
  { apply strip_prefix_eq in E1. subst i.
    destruct (take_till (fun b => bmem b cmt_line_stop) i1) as [r1 p1| | | |] eqn:T; try discriminate.
    inversion H; subst r1.
    change (scan LN 0 ([x2f; x2f] ++ i1)) with (Z.max 0 (Z.max 0 (scan LLine 0 i1))).
    rewrite (line_tail_neutral cmt_line_stop i1 r p1 0 eq_refl T). pose proof (scan_ge LN 0 r). lia. }
  (* second alternative: /* ... */ *)
  unfold tag at 1 in H. change cmt_block_open with [x2f; x2a] in H.
  destruct (strip_prefix [x2f; x2a] i) as [i1|] eqn:E2; cbn [pbind] in H.
  { apply strip_prefix_eq in E2. subst i. unfold take_until in H. change cmt_block_until with [x2a; x2f] in H.
    destruct (find_sub [x2a; x2f] i1) as [[p1 r1]|] eqn:F; cbn [pbind] in H.
    - destruct (scan_block i1 p1 r1 F 0 LBlock (or_introl eq_refl)) as [r2 [-> Hs]].
      change cmt_block_close with [x2a; x2f] in H. cbn in H. inversion H; subst r.
      change (scan LN 0 ([x2f; x2a] ++ i1)) with (Z.max 0 (Z.max 0 (scan LBlock 0 i1))).
      rewrite Hs. pose proof (scan_ge LN 0 r2). lia.
    - (* the block alternative failed with an Error: third alternative, which cannot match "/*" *)
      change cmt_hash_open with [x23] in H. cbn in H. discriminate. }
  (* third alternative: # *)
  unfold tag at 1 in H. change cmt_hash_open with [x23] in H.
  destruct (strip_prefix [x23] i) as [i1|] eqn:E3; cbn [pbind] in H; [|discriminate].
  apply strip_prefix_eq in E3. subst i.
  destruct (take_till (fun b => bmem b cmt_hash_stop) i1) as [r1 p1| | | |] eqn:T; try discriminate.
  inversion H; subst r1.
  change (scan LN 0 ([x23] ++ i1)) with (Z.max 0 (scan LLine 0 i1)).
  rewrite (line_tail_neutral cmt_hash_stop i1 r p1 0 eq_refl T). pose proof (scan_ge LN 0 r). lia.
Qed.

(* ---------- literals ---------- *)
Lemma escaped_loop_quote dq none_set esc_set fuel :
  (forall b, bmem b none_set = false -> Byte.eqb b x5c = false /\ Byte.eqb b (quote_byte dq) = false) ->
  forall inp i i2 v,
  escaped_loop fuel (none_of none_set) x5c (one_of esc_set) inp i = POk i2 v ->
  forall k, scan (LQ dq) k i = scan (LQ dq) k i2.
Proof.
  intros Hset. induction fuel as [|f IH]; intros inp i i2 v H k; [discriminate|].
  cbn [escaped_loop] in H. destruct i as [|b tl]; [inversion H; reflexivity|].
  cbn [none_of] in H. destruct (bmem b none_set) eqn:Eb.
  - (* normal char refused *)
    destruct (Byte.eqb b x5c) eqn:Ec.
    + destruct tl as [|c tl']; [discriminate|]. cbn [one_of] in H.
      destruct (bmem c esc_set); [|discriminate].
      assert (S2 : forall x, scan (LQ dq) k (b :: c :: x) = scan (LQ dq) k x).
      { intros x. cbn [scan step]. rewrite Ec. cbn [fst snd step]. pose proof (scan_ge (LQ dq) k x). lia. }
      destruct (is_nil tl') eqn:En.
      * inversion H; subst. destruct tl'; [|discriminate]. rewrite S2. reflexivity.
      * rewrite S2. eapply IH; eauto.
    + destruct (same_len (b :: tl) inp); [discriminate|]. inversion H; subst. reflexivity.
  - destruct (Hset b Eb) as [N1 N2].
    assert (S1 : scan (LQ dq) k (b :: tl) = scan (LQ dq) k tl).
    { cbn [scan step]. rewrite N1, N2. cbn [fst snd]. pose proof (scan_ge (LQ dq) k tl). lia. }
    destruct (is_nil tl) eqn:En.
    + inversion H; subst. destruct tl; [|discriminate]. rewrite S1. reflexivity.
    + destruct (same_len tl (b :: tl)).
      * inversion H; subst. exact S1.
      * rewrite S1. eapply IH; eauto.
Qed.

Lemma neutral_quote lf dq q none_set :
  q = [quote_byte dq] ->
  (forall b, bmem b none_set = false -> Byte.eqb b x5c = false /\ Byte.eqb b (quote_byte dq) = false) ->
  neutral (p_quote_parser lf q none_set).
Proof.
  intros -> Hset i r a H. unfold p_quote_parser in H. change (one_byte lit_ctrl) with x5c in H.
  unfold tag at 1 in H. destruct (strip_prefix [quote_byte dq] i) as [i1|] eqn:E1; cbn [pbind] in H; [|discriminate].
  apply strip_prefix_eq in E1. subst i.
  assert (Hopen : forall x, nesting ([quote_byte dq] ++ x) = scan (LQ dq) 0 x).
  { intros x. unfold nesting. destruct dq.
    - change (scan LN 0 ([quote_byte true] ++ x)) with (Z.max 0 (scan (LQ true) 0 x)).
      pose proof (scan_ge (LQ true) 0 x). lia.
    - change (scan LN 0 ([quote_byte false] ++ x)) with (Z.max 0 (scan (LQ false) 0 x)).
      pose proof (scan_ge (LQ false) 0 x). lia. }
  assert (Hclose : forall x y, strip_prefix [quote_byte dq] x = Some y -> scan (LQ dq) 0 x = nesting y).
  { intros x y E. apply strip_prefix_eq in E. subst x. unfold nesting. cbn [app scan step].
    assert (Q1 : Byte.eqb (quote_byte dq) x5c = false) by (destruct dq; reflexivity).
    assert (Q2 : Byte.eqb (quote_byte dq) (quote_byte dq) = true) by (destruct dq; reflexivity).
    rewrite Q1, Q2. cbn [fst snd]. pose proof (scan_ge LN 0 y). lia. }
  rewrite Hopen. cbn [alt] in H. unfold escaped in H.
  destruct (escaped_loop lf (none_of none_set) x5c (one_of set_escapable) i1 i1) as [i2 v| | | |] eqn:L;
    cbn [pbind] in H; try discriminate.
  - unfold tag in H. destruct (strip_prefix [quote_byte dq] i2) as [i3|] eqn:E3; cbn [pbind] in H; [|discriminate].
    inversion H; subst i3. rewrite (escaped_loop_quote dq none_set set_escapable lf Hset _ _ _ _ L 0).
    symmetry. now apply Hclose.
  - change lit_empty with (@nil byte) in H. cbn [tag strip_prefix pbind] in H. unfold tag in H.
    destruct (strip_prefix [quote_byte dq] i1) as [i3|] eqn:E3; cbn [pbind] in H; [|discriminate].
    inversion H; subst i3. symmetry. now apply Hclose.
Qed.

Lemma neutral_single_quote lf : neutral (p_single_quote lf).
Proof.
  apply (neutral_quote lf false); [reflexivity|]. intros b. change set_none_of_single with [x5c; x27].
  cbn [bmem quote_byte]. rewrite orb_false_r. intros H. apply orb_false_elim in H. exact H.
Qed.

Lemma neutral_double_quote lf : neutral (p_double_quote lf).
Proof.
  apply (neutral_quote lf true); [reflexivity|]. intros b. change set_none_of_double with [x5c; x22].
  cbn [bmem quote_byte]. rewrite orb_false_r. intros H. apply orb_false_elim in H. exact H.
Qed.

Lemma neutral_literal lf : neutral (p_literal lf).
Proof.
  intros i r a H. unfold p_literal in H. cbn [alt] in H.
  destruct (p_single_quote lf i) as [r1 a1| | | |] eqn:E; try discriminate.
  - inversion H; subst. eapply neutral_single_quote; eauto.
  - eapply neutral_double_quote; eauto.
Qed.

(* ---------- plain-byte primitives ---------- *)
Lemma neutral_tag t : forallb plain t = true -> neutral (tag t).
Proof.
  intros Ht i r a H. unfold tag in H. destruct (strip_prefix t i) as [r0|] eqn:E; [|discriminate].
  inversion H; subst. apply strip_prefix_eq in E. subst i. symmetry. now apply nesting_plain_app.
Qed.

Lemma neutral_take_while cond : (forall b, cond b = true -> plain b = true) -> neutral (take_while cond).
Proof.
  intros Hc i r a H. unfold take_while in H. pose proof (span_eq cond i) as E1. pose proof (span_forallb cond i) as E2.
  destruct (span cond i) as [p r']. cbn [fst snd] in *. inversion H; subst r' a. rewrite E1. symmetry.
  apply nesting_plain_app. eapply forallb_imp; eauto.
Qed.

Lemma neutral_span1 cond k : (forall b, cond b = true -> plain b = true) -> neutral (span1 cond k).
Proof.
  intros Hc i r a H. unfold span1 in H. pose proof (span_eq cond i) as E1. pose proof (span_forallb cond i) as E2.
  destruct (span cond i) as [p r']. cbn [fst snd] in *. destruct (is_nil p); [discriminate|]. inversion H; subst r' a.
  rewrite E1. symmetry. apply nesting_plain_app. eapply forallb_imp; eauto.
Qed.

Lemma neutral_satisfy_b cond : (forall b, cond b = true -> plain b = true) -> neutral (satisfy_b cond).
Proof.
  intros Hc i r a H. destruct i as [|b i]; [discriminate|]. cbn [satisfy_b] in H. destruct (cond b) eqn:E; [|discriminate].
  inversion H; subst. symmetry. apply (nesting_plain_app [a]). cbn [forallb]. now rewrite (Hc _ E).
Qed.

Lemma neutral_one_of set : forallb plain set = true -> neutral (one_of set).
Proof.
  intros Hs i r a H. destruct i as [|b i]; [discriminate|]. cbn [one_of] in H. destruct (bmem b set) eqn:E; [|discriminate].
  inversion H; subst. symmetry. apply (nesting_plain_app [a]). cbn [forallb]. rewrite andb_true_r.
  revert E. clear H. induction set as [|c s IH]; cbn [bmem forallb] in *; [discriminate|].
  apply andb_prop in Hs. destruct Hs as [Hc Hs]. intros E. apply orb_prop in E. destruct E as [E|E].
  - apply byte_dec_bl in E. now subst.
  - auto.
Qed.

Lemma lower_e b : Byte.eqb (lower_ascii b) (lower_ascii x65) = true -> plain b = true.
Proof. destruct b; vm_compute; intro H; try reflexivity; discriminate H. Qed.

Lemma neutral_tag_no_case_e : neutral (tag_no_case [x65]).
Proof.
  intros i r a H. unfold tag_no_case in H. cbn [strip_prefix_nc] in H. destruct i as [|b i]; [discriminate|].
  destruct (Byte.eqb (lower_ascii b) (lower_ascii x65)) eqn:E; [|discriminate]. inversion H; subst.
  symmetry. apply (nesting_plain_app [b]). cbn [forallb]. now rewrite (lower_e _ E).
Qed.

(* the character classes of the token parsers contain plain bytes only *)
Ltac byte_cases := let b := fresh "b" in let H := fresh "H" in
  intros b; destruct b; vm_compute; intro H; try reflexivity; discriminate H.

Lemma plain_ident_head : forall b, (is_alpha b || is_underscore b) = true -> plain b = true.
Proof. byte_cases. Qed.
Lemma plain_ident_tail : forall b, (is_alnum b || is_underscore b) = true -> plain b = true.
Proof. byte_cases. Qed.
Lemma plain_annkey_tail : forall b, (is_alnum b || is_underscore b || is_dot b) = true -> plain b = true.
Proof. byte_cases. Qed.
Lemma plain_alpha : forall b, is_alpha b = true -> plain b = true.
Proof. byte_cases. Qed.
Lemma plain_digit : forall b, is_digit b = true -> plain b = true.
Proof. byte_cases. Qed.
Lemma plain_hexdigit : forall b, is_hexdigit b = true -> plain b = true.
Proof. byte_cases. Qed.
Lemma plain_space : forall b, is_space b = true -> plain b = true.
Proof. byte_cases. Qed.
