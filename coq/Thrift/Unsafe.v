(* L1/L2: the unchecked binary codec (pilota/src/thrift/binary_unsafe.rs).
   Every raw access (get_unchecked, copy_nonoverlapping, unwrap_unchecked on a slice conversion) is
   modelled with an explicit bounds test whose failure is the outcome [Panic SOob] -- an
   out-of-bounds access is undefined behaviour in Rust, a VALUE of the model here.  Panics of safe
   calls (Bytes::split_to, Bytes::advance beyond the end) are [Panic SSplit].

   Writer.  [uw_room] is the capacity left in the window `buf` from the current index,
   [uw_room_tr] the initialised length of the transport left from the current index: on a BytesMut
   transport write_i16/i32/i64/double index `self.trans` (the initialised slice) while every other
   writer indexes `self.buf`; on LinkedBytes everything goes through `buf` ([uw_room_tr] = None).
   advance_mut re-windows without changing the room.  [uw_idx] is `index` (reset by advance_mut).

   Reader.  [ubuf] is the window (= the transport's remaining bytes), [uidx] the index into it;
   advance / split_to re-window. *)
From PV Require Export Thrift.Interp Thrift.Skip.
Open Scope Z_scope.

(* ------------------------------------------------------------------ *)
(* writer *)
Record uwst := mkUW {
  uw_room : Z;
  uw_room_tr : option Z;     (* Some: BytesMut transport; None: LinkedBytes *)
  uw_idx : Z;
  uw_zc : Z                  (* zero_copy_len *)
}.
Definition uwm := uwst -> res (list seg * uwst).

Definition uwseq (a b : uwm) : uwm := fun s =>
  let* (s1, c1) := a s in
  let* (s2, c2) := b c1 in
  Ok (s1 ++ s2, c2).
Infix ";;;" := uwseq (at level 61, left associativity).
Definition uwnop : uwm := fun s => Ok ([], s).

Definition took (s : uwst) (n : Z) : uwst :=
  mkUW (uw_room s - n) (option_map (fun r => r - n) (uw_room_tr s)) (uw_idx s + n) (uw_zc s).

(* a write through `self.buf` *)
Definition uw_buf (l : list byte) : uwm := fun s =>
  let n := Z.of_nat (length l) in
  if n <=? uw_room s then Ok ([Copy l], took s n) else Panic SOob.
(* a write through `self.trans` (BytesMut) / `self.buf` (LinkedBytes) *)
Definition uw_tr (l : list byte) : uwm := fun s =>
  let n := Z.of_nat (length l) in
  match uw_room_tr s with
  | Some rt => if n <=? rt then Ok ([Copy l], took s n) else Panic SOob
  | None => if n <=? uw_room s then Ok ([Copy l], took s n) else Panic SOob
  end.

(* advance_mut(self.index): only on LinkedBytes *)
Definition uw_commit : uwm := fun s =>
  match uw_room_tr s with
  | None => Ok ([], mkUW (uw_room s) None 0 (uw_zc s))
  | Some _ => Ok ([], s)
  end.

Definition uw_byte (b : Z) : uwm := uw_buf [z2b b].
Definition uw_i8 (z : Z) : uwm := uw_buf [z2b z].
Definition uw_i16 (z : Z) : uwm := uw_tr (be_bytes 2 (wrap_u 16 z)).
Definition uw_i32 (z : Z) : uwm := uw_tr (be_bytes 4 (wrap_u 32 z)).
Definition uw_i64 (z : Z) : uwm := uw_tr (be_bytes 8 (wrap_u 64 z)).
Definition uw_double (bits : Z) : uwm := uw_tr (be_bytes 8 bits).
Definition uw_uuid (l : list byte) : uwm := uw_buf l.
Definition uw_bool (b : bool) : uwm := uw_i8 (if b then 1 else 0).

Definition uw_field_begin (ty : ttype) (id : Z) : uwm :=
  uw_buf (z2b (ttype_code ty) :: be_bytes 2 (wrap_u 16 id)) ;;; uw_commit.
Definition uw_field_stop : uwm := uw_byte (ttype_code TStop).

(* write_bytes: length, then copy -- or, on LinkedBytes with zero_copy and a payload of at least
   ZERO_COPY_THRESHOLD bytes: advance_mut, insert the payload as its own node, re-window *)
Definition uw_bytes (zc : bool) (b : list byte) : uwm :=
  uw_i32 (wrap_s 32 (Z.of_nat (length b))) ;;;
  (fun s =>
     match uw_room_tr s with
     | None =>
         if zc && (zero_copy_threshold <=? Z.of_nat (length b))
         then Ok ([Node b], mkUW (uw_room s) None 0 (uw_zc s + Z.of_nat (length b)))
         else uw_buf b s
     | Some _ => uw_buf b s
     end).

Definition uw_coll_begin (et : ttype) (n : Z) : uwm := uw_byte (ttype_code et) ;;; uw_i32 (wrap_s 32 n).
Definition uw_map_begin (kt vt : ttype) (n : Z) : uwm :=
  uw_byte (ttype_code kt) ;;; uw_byte (ttype_code vt) ;;; uw_i32 (wrap_s 32 n).

Section UWrite.
  Variable zc : bool.
  Fixpoint uwrite_val (v : tval) : uwm :=
    match v with
    | VBool b => uw_bool b
    | VI8 z => uw_i8 z
    | VI16 z => uw_i16 z
    | VI32 z => uw_i32 z
    | VI64 z => uw_i64 z
    | VDouble b => uw_double b
    | VBinary l => uw_bytes zc l
    | VUuid l => uw_uuid l
    | VStruct fs =>
        (fix go (fs : list (Z * tval)) : uwm :=
           match fs with
           | [] => uwnop
           | (id, x) :: t => uw_field_begin (ttype_of x) id ;;; uwrite_val x ;;; go t
           end) fs ;;; uw_field_stop
    | VList et l | VSet et l =>
        uw_coll_begin et (Z.of_nat (length l)) ;;;
        (fix go (l : list tval) : uwm :=
           match l with [] => uwnop | x :: t => uwrite_val x ;;; go t end) l
    | VMap kt vt l =>
        uw_map_begin kt vt (Z.of_nat (length l)) ;;;
        (fix go (l : list (tval * tval)) : uwm :=
           match l with [] => uwnop | (a, b) :: t => uwrite_val a ;;; uwrite_val b ;;; go t end) l
    end.

  Definition uwrite_fields : list (Z * tval) -> uwm :=
    fix go (fs : list (Z * tval)) : uwm :=
      match fs with
      | [] => uwnop
      | (id, x) :: t => uw_field_begin (ttype_of x) id ;;; uwrite_val x ;;; go t
      end.
  Definition uwrite_elems : list tval -> uwm :=
    fix go (l : list tval) : uwm := match l with [] => uwnop | x :: t => uwrite_val x ;;; go t end.
  Definition uwrite_pairs : list (tval * tval) -> uwm :=
    fix go (l : list (tval * tval)) : uwm :=
      match l with [] => uwnop | (a, b) :: t => uwrite_val a ;;; uwrite_val b ;;; go t end.

  Fixpoint uwrite_vals (vs : list tval) : uwm :=
    match vs with [] => uwnop | v :: t => uwrite_val v ;;; uwrite_vals t end.
End UWrite.

(* a transport set up as the contract prescribes: BytesMut pre-sized to [cap] initialised bytes with
   the window over exactly those bytes; LinkedBytes with [cap] bytes of spare capacity *)
Definition uw_contig (cap : Z) : uwst := mkUW cap (Some cap) 0 0.
Definition uw_linked (cap : Z) : uwst := mkUW cap None 0 0.

(* ------------------------------------------------------------------ *)
(* reader *)
Record ust := mkU { ubuf : list byte; uidx : nat }.
Definition um (A : Type) := ust -> res (A * ust).

Definition urest (s : ust) : list byte := skipn (uidx s) (ubuf s).

(* get_unchecked(index .. index + n) *)
Definition u_get (n : nat) : um (list byte) := fun s =>
  if Nat.leb (uidx s + n) (length (ubuf s))
  then Ok (firstn n (skipn (uidx s) (ubuf s)), mkU (ubuf s) (uidx s + n))
  else Panic SOob.

(* self.advance(self.index): Bytes::advance panics beyond the end *)
Definition u_rewindow : um unit := fun s =>
  if Nat.leb (uidx s) (length (ubuf s)) then Ok (tt, mkU (skipn (uidx s) (ubuf s)) 0) else Panic SSplit.

(* trans.split_to(len); buf re-windowed *)
Definition u_split (n : Z) : um (list byte) := fun s =>
  if n <=? Z.of_nat (length (ubuf s))
  then Ok (firstn (Z.to_nat n) (ubuf s), mkU (skipn (Z.to_nat n) (ubuf s)) (uidx s))
  else Panic SSplit.

Definition u_byte : um Z := fun s => let* (a, s) := u_get 1 s in Ok (of_le a, s).
Definition u_i8 : um Z := fun s => let* (a, s) := u_get 1 s in Ok (wrap_s 8 (of_le a), s).
Definition u_fixed (n : nat) (bits : Z) : um Z := fun s =>
  let* (a, s) := u_get n s in Ok (wrap_s bits (of_be a), s).
Definition u_i16 : um Z := u_fixed 2 16.
Definition u_i32 : um Z := u_fixed 4 32.
Definition u_i64 : um Z := u_fixed 8 64.
Definition u_double : um Z := fun s => let* (a, s) := u_get 8 s in Ok (of_be a, s).
Definition u_uuid : um (list byte) := u_get 16.
Definition u_bool : um bool := fun s => let* (b, s) := u_i8 s in Ok (negb (b =? 0), s).

(* read_bytes: read_i32; advance(index); split_to(len as usize) *)
Definition u_bytes : um (list byte) := fun s =>
  let* (n, s) := u_i32 s in
  let* (_, s) := u_rewindow s in
  u_split (wrap_u 64 n) s.

Definition u_ttype : um ttype := fun s =>
  let* (b, s) := u_byte s in
  match ttype_of_byte b with
  | Some t => Ok (t, s)
  | None => Err EInvalidData
  end.

Definition u_field_begin : um (ttype * option Z) := fun s =>
  let* (ty, s) := u_ttype s in
  match ty with
  | TStop => Ok ((TStop, Some 0), s)
  | _ => let* (id, s) := u_i16 s in Ok ((ty, Some id), s)
  end.

(* no size check: `size as usize` *)
Definition u_coll_begin : um (ttype * Z) := fun s =>
  let* (et, s) := u_ttype s in
  let* (n, s) := u_i32 s in
  Ok ((et, wrap_u 64 n), s).
Definition u_map_begin : um (ttype * ttype * Z) := fun s =>
  let* (kt, s) := u_ttype s in
  let* (vt, s) := u_ttype s in
  let* (n, s) := u_i32 s in
  Ok ((kt, vt, wrap_u 64 n), s).

Section ULoops.
  Variable rec : ttype -> ust -> res (tval * ust).
  Fixpoint ufields_loop (n : nat) (s : ust) (acc : list (Z * tval)) {struct n} : res (list (Z * tval) * ust) :=
    match n with
    | O => Err EOutOfFuel
    | S n' =>
        let* (h, s) := u_field_begin s in
        if ttype_eqb (fst h) TStop then Ok (rev acc, s)
        else
          let* (x, s) := rec (fst h) s in
          ufields_loop n' s ((match snd h with Some i => i | None => 0 end, x) :: acc)
    end.
  Fixpoint uelems_loop (m : nat) (et : ttype) (n : Z) (s : ust) (acc : list tval) {struct m} : res (list tval * ust) :=
    if n <=? 0 then Ok (rev acc, s) else
    match m with
    | O => Err EOutOfFuel
    | S m' => let* (x, s) := rec et s in uelems_loop m' et (n - 1) s (x :: acc)
    end.
  Fixpoint upairs_loop (m : nat) (kt vt : ttype) (n : Z) (s : ust) (acc : list (tval * tval)) {struct m}
    : res (list (tval * tval) * ust) :=
    if n <=? 0 then Ok (rev acc, s) else
    match m with
    | O => Err EOutOfFuel
    | S m' =>
        let* (a, s) := rec kt s in
        let* (b, s) := rec vt s in
        upairs_loop m' kt vt (n - 1) s ((a, b) :: acc)
    end.
End ULoops.

Fixpoint uread_val (fuel : nat) (ty : ttype) (s : ust) {struct fuel} : res (tval * ust) :=
  match fuel with
  | O => Err EOutOfFuel
  | S f =>
      match ty with
      | TBool => let* (b, s) := u_bool s in Ok (VBool b, s)
      | TI8 => let* (z, s) := u_i8 s in Ok (VI8 z, s)
      | TI16 => let* (z, s) := u_i16 s in Ok (VI16 z, s)
      | TI32 => let* (z, s) := u_i32 s in Ok (VI32 z, s)
      | TI64 => let* (z, s) := u_i64 s in Ok (VI64 z, s)
      | TDouble => let* (z, s) := u_double s in Ok (VDouble z, s)
      | TBinary => let* (l, s) := u_bytes s in Ok (VBinary l, s)
      | TUuid => let* (l, s) := u_uuid s in Ok (VUuid l, s)
      | TStruct =>
          let* (fs, s) := ufields_loop (uread_val f) (S f) s [] in Ok (VStruct fs, s)
      | TList =>
          let* (h, s) := u_coll_begin s in
          let* (l, s) := uelems_loop (uread_val f) (S f) (fst h) (snd h) s [] in
          Ok (VList (fst h) l, s)
      | TSet =>
          let* (h, s) := u_coll_begin s in
          let* (l, s) := uelems_loop (uread_val f) (S f) (fst h) (snd h) s [] in
          Ok (VSet (fst h) l, s)
      | TMap =>
          let* (h, s) := u_map_begin s in
          let* (l, s) := upairs_loop (uread_val f) (S f) (fst (fst h)) (snd (fst h)) (snd h) s [] in
          Ok (VMap (fst (fst h)) (snd (fst h)) l, s)
      | TStop | TVoid => Err EInvalidData
      end
  end.

Fixpoint uread_vals (fuel : nat) (tys : list ttype) (s : ust) : res (list tval * ust) :=
  match tys with
  | [] => Ok ([], s)
  | ty :: t =>
      let* (v, s) := uread_val fuel ty s in
      let* (vs, s) := uread_vals fuel t s in
      Ok (v :: vs, s)
  end.

(* ------------------------------------------------------------------ *)
(* the iterative skipper (skip / skip_till_depth of TBinaryUnsafeInputProtocol) *)
Record frame := mkF { fr_t0 : ttype; fr_t1 : ttype; fr_len : Z }.   (* SkipData { ttype: [T; 2], len: u32 } *)

Definition fixed_size (t : ttype) : Z := nth (Z.to_nat (ttype_code t)) binary_fixed_size 0.

(* index += n without any check (the bytes are not touched) *)
Definition u_bump (n : Z) : um unit := fun s => Ok (tt, mkU (ubuf s) (uidx s + Z.to_nat n)).

(* skip_stack_pop! *)
Definition stack_pop (st : list frame) : list frame :=
  match st with
  | [] => []
  | f :: t => if fr_len f - 1 =? 0 then t else mkF (fr_t0 f) (fr_t1 f) (fr_len f - 1) :: t
  end.

(* one turn of the `loop`: returns either the final count or the next (ttype, len, stack, state) *)
Inductive turn := Done (len : Z) (s : ust) | Next (ty : ttype) (len : Z) (st : list frame) (s : ust).

Definition after_match (len : Z) (st : list frame) (s : ust) : turn :=
  match st with
  | [] => Done len s
  | top :: _ =>
      let ty := if Z.land (fr_len top) 1 =? 0 then fr_t0 top else fr_t1 top in
      if ttype_eqb ty TStruct then Next ty len st s else Next ty len (stack_pop st) s
  end.

Definition iter_turn (ty : ttype) (len : Z) (st : list frame) (s : ust) : res turn :=
  match ty with
  | TBool | TI8 => let* (_, s) := u_bump 1 s in Ok (after_match (len + 1) st s)
  | TI16 => let* (_, s) := u_bump 2 s in Ok (after_match (len + 2) st s)
  | TI32 => let* (_, s) := u_bump 4 s in Ok (after_match (len + 4) st s)
  | TI64 | TDouble => let* (_, s) := u_bump 8 s in Ok (after_match (len + 8) st s)
  | TUuid => let* (_, s) := u_bump 16 s in Ok (after_match (len + 16) st s)
  | TBinary =>
      let* (n, s) := u_i32 s in
      let n := wrap_u 64 n in
      let* (_, s) := u_bump n s in Ok (after_match (len + 4 + n) st s)
  | TStruct =>
      let* (h, s) := u_field_begin s in
      if ttype_eqb (fst h) TStop then
        match st with
        | [] => Panic SUnwrap                                   (* stack.last_mut().unwrap() *)
        | _ => Ok (after_match (len + 1) (stack_pop st) s)
        end
      else
        let fs := fixed_size (fst h) in
        if 0 <? fs then
          let* (_, s) := u_bump fs s in Ok (Next TStruct (len + 3 + fs) st s)     (* `continue` *)
        else Ok (after_match (len + 3) (mkF (fst h) (fst h) 1 :: st) s)
  | TList | TSet =>
      let* (h, s) := u_coll_begin s in
      let len := len + 5 in
      if snd h =? 0 then Ok (after_match len st s)
      else
        let fs := fixed_size (fst h) in
        if 0 <? fs then let* (_, s) := u_bump (fs * snd h) s in Ok (after_match (len + fs * snd h) st s)
        else Ok (after_match len (mkF (fst h) (fst h) (wrap_u 32 (snd h)) :: st) s)
  | TMap =>
      let* (h, s) := u_map_begin s in
      let len := len + 6 in
      let kt := fst (fst h) in let vt := snd (fst h) in let n := snd h in
      if n <=? 0 then Ok (after_match len st s)
      else
        let kf := fixed_size kt in let vf := fixed_size vt in
        if (0 <? kf) && (0 <? vf) then
          let* (_, s) := u_bump ((kf + vf) * n) s in Ok (after_match (len + (kf + vf) * n) st s)
        else Ok (after_match len (mkF kt vt (wrap_u 32 (n * 2)) :: st) s)
  | TStop | TVoid => Err EDepthLimit
  end.

Fixpoint iter_loop (fuel : nat) (ty : ttype) (len : Z) (st : list frame) (s : ust) : res (Z * ust) :=
  match fuel with
  | O => Err EOutOfFuel
  | S f =>
      let* t := iter_turn ty len st s in
      match t with
      | Done n s' => Ok (n, s')
      | Next ty' len' st' s' => iter_loop f ty' len' st' s'
      end
  end.

Definition skip_iter (fuel : nat) (ty : ttype) (s : ust) : res (Z * ust) :=
  iter_loop fuel ty 0 (match ty with TStruct => mkF TStruct TStruct 1 :: nil | _ => nil end) s.

(* TInputProtocol::skip: rewind to the field header (3 bytes), re-window, then skip_till_depth *)
Definition u_skip (fuel : nat) (ty : ttype) (s : ust) : res (Z * ust) :=
  if Nat.ltb (uidx s) 3 then Panic SOverflow          (* debug_assert!(index >= FIELD_BEGIN_LEN) *)
  else
    if Nat.leb (uidx s - 3) (length (ubuf s))
    then skip_iter fuel ty (mkU (skipn (uidx s - 3) (ubuf s)) 3)
    else Panic SSplit.

(* ------------------------------------------------------------------ *)
(* a tolerant struct reader, as generated decoders are: fields whose id is in [skipid] are skipped
   with the protocol's skipper, the others are read; a skipped field is reported as
   (id, VList TVoid [VI64 count]) (TVoid never is the element type of a real list).  One version per
   reader family: in-memory (binary, binary-LE, compact), asynchronous, unchecked. *)
Definition skipped (c : Z) : tval := VList TVoid [VI64 c].

Section Tolerant.
  Variable p : pk.
  Variable skipid : Z -> bool.

  Fixpoint tfields (n : nat) (fuel : nat) (s : rst) (acc : list (Z * tval)) {struct n} : res (list (Z * tval) * rst) :=
    match n with
    | O => Err EOutOfFuel
    | S n' =>
        let* (h, s) := r_field_begin p s in
        if ttype_eqb (fst h) TStop then Ok (rev acc, s)
        else
          let id := match snd h with Some i => i | None => 0 end in
          if skipid id then
            let* (c, s) := skip p fuel (fst h) s in tfields n' fuel s ((id, skipped c) :: acc)
          else
            let* (x, s) := read_val p fuel (fst h) s in tfields n' fuel s ((id, x) :: acc)
    end.
  Definition tread_struct (fuel : nat) (s : rst) : res (tval * rst) :=
    let* (_, s) := r_struct_begin p s in
    let* (fs, s) := tfields fuel fuel s [] in
    let* (_, s) := r_struct_end p s in
    Ok (VStruct fs, s).

  Fixpoint atfields (n : nat) (fuel : nat) (s : rst) (acc : list (Z * tval)) {struct n} : res (list (Z * tval) * rst) :=
    match n with
    | O => Err EOutOfFuel
    | S n' =>
        let* (h, s) := a_field_begin p s in
        if ttype_eqb (fst h) TStop then Ok (rev acc, s)
        else
          let id := match snd h with Some i => i | None => 0 end in
          if skipid id then
            let* (_, s) := askip p fuel (fst h) s in atfields n' fuel s ((id, skipped (-1)) :: acc)
          else
            let* (x, s) := aread_val p fuel (fst h) s in atfields n' fuel s ((id, x) :: acc)
    end.
  Definition atread_struct (fuel : nat) (s : rst) : res (tval * rst) :=
    let* (_, s) := a_struct_begin p s in
    let* (fs, s) := atfields fuel fuel s [] in
    let* (_, s) := a_struct_end p s in
    Ok (VStruct fs, s).

  Fixpoint utfields (n : nat) (fuel : nat) (s : ust) (acc : list (Z * tval)) {struct n} : res (list (Z * tval) * ust) :=
    match n with
    | O => Err EOutOfFuel
    | S n' =>
        let* (h, s) := u_field_begin s in
        if ttype_eqb (fst h) TStop then Ok (rev acc, s)
        else
          let id := match snd h with Some i => i | None => 0 end in
          if skipid id then
            let* (c, s) := u_skip fuel (fst h) s in utfields n' fuel s ((id, skipped c) :: acc)
          else
            let* (x, s) := uread_val fuel (fst h) s in utfields n' fuel s ((id, x) :: acc)
    end.
  Definition utread_struct (fuel : nat) (s : ust) : res (tval * ust) :=
    let* (fs, s) := utfields fuel fuel s [] in Ok (VStruct fs, s).
End Tolerant.
