#!/bin/sh
# builds the bld model runner from the freshly extracted model (fam/bld/coq/model.ml, model.mli); the binary lives in _build/ (git-ignored)
set -e
cd "$(dirname "$0")"
mkdir -p _build
cp ../coq/model.ml ../coq/model.mli main.ml _build/
cd _build
ocamlfind ocamlopt -O3 -w -a -o runner.bin model.mli model.ml main.ml 2>/dev/null || ocamlfind ocamlopt -w -a -o runner.bin model.mli model.ml main.ml
cd ..
cat > runner <<'EOS'
#!/bin/sh
ulimit -s unlimited 2>/dev/null || ulimit -s "$(ulimit -Hs)" 2>/dev/null || true
exec "$(dirname "$0")/_build/runner.bin" "$@"
EOS
chmod +x runner
