(* C20, literal level: the lowering of IDL literals modelled in Lit.v means what the IDL says (LitSpec.v), for every
   literal (induction over the literal, unbounded nesting), every type, every schema whose defaults avoid the panic
   classes of LitClass.v.  Also: the regenerated arm tables are the ones the model was written against. *)
From PVGen Require Import Lit LitSpec LitClass Proofs.LitNum.
From Coq Require Import Lia ZifyBool.
Open Scope Z_scope.

(* ---------- the regenerated tables are the ones the model was written against ---------- *)
Definition model_lit_into_ty_arms : list arm :=
  [ ([(LPPath, CPAny)], FDyn);            (*  0 *)
    ([(LPString, CPStr)], FTrue);         (*  1 *)
    ([(LPString, CPString)], FFalse);     (*  2 *)
    ([(LPString, CPFastStr)], FTrue);     (*  3 *)
    ([(LPInt, CPI8)], FTrue);             (*  4 *)
    ([(LPInt, CPI16)], FTrue);            (*  5 *)
    ([(LPInt, CPI32)], FTrue);            (*  6 *)
    ([(LPInt, CPI64)], FTrue);            (*  7 *)
    ([(LPInt, CPF32)], FTrue);            (*  8 *)
    ([(LPInt, CPF64)], FTrue);            (*  9 *)
    ([(LPInt, CPAdtEnum)], FTrue);        (* 10 *)
    ([(LPFloat, CPF64)], FTrue);          (* 11 *)
    ([(LPFloat, CPOrderedF64)], FTrue);   (* 12 *)
    ([(LPAny, CPAdtNewType)], FDyn);      (* 13 *)
    ([(LPMap, CPStaticRef)], FFalse);     (* 14 *)
    ([(LPList, CPArray)], FDyn);          (* 15 *)
    ([(LPList, CPVec)], FFalse);          (* 16 *)
    ([(LPList, CPSet)], FFalse);          (* 17 *)
    ([(LPList, CPBTreeSet)], FFalse);     (* 18 *)
    ([(LPBool, CPBool)], FTrue);          (* 19 *)
    ([(LPInt, CPBool)], FTrue);           (* 20 *)
    ([(LPString, CPBytes)], FTrue);       (* 21 *)
    ([(LPMap, CPAdtStruct)], FDyn) ].     (* 22 *)

Lemma lit_into_ty_arms_pinned : lit_into_ty_arms = model_lit_into_ty_arms.
Proof. reflexivity. Qed.

Lemma lit_as_rvalue_arms_pinned :
  lit_as_rvalue_arms = [ ([(LPMap, CPLazyStaticRef)], FFalse); ([(LPMap, CPMap)], FFalse); ([(LPMap, CPBTreeMap)], FFalse);
                         ([(LPList, CPLazyStaticRef)], FFalse); ([(LPList, CPMap)], FFalse); ([(LPList, CPBTreeMap)], FFalse) ].
Proof. reflexivity. Qed.

Lemma ident_into_ty_arms_pinned :
  ident_into_ty_arms = [ ([(CPStr, CPFastStr)], FTrue);
                         ([(CPAdtEnum, CPI64); (CPAdtEnum, CPI32); (CPAdtEnum, CPI16); (CPAdtEnum, CPI8)], FTrue) ].
Proof. reflexivity. Qed.

Lemma lit_scalars_pinned :
  int_float_casts = [(CPF32, CPF32); (CPF64, CPF64)] /\ int_bool_test = (true, 0) /\
  lazy_static_kinds = [CPString; CPLazyStaticRef; CPStaticRef; CPVec; CPMap; CPBTreeMap] /\
  const_ty_overrides = [(CPString, [CPStr]); (CPFastStr, [CPStr]); (CPVec, [CPArray]); (CPSet, [CPStaticRef; CPSet]);
                        (CPBTreeSet, [CPStaticRef; CPBTreeSet]); (CPMap, [CPStaticRef; CPMap]); (CPBTreeMap, [CPStaticRef; CPBTreeMap])].
Proof. repeat split; reflexivity. Qed.

(* const_cty is the transformer those overrides describe *)
Lemma const_cty_overrides S0 a b :
  ckind S0 (const_cty RString) = Some CPStr /\ ckind S0 (const_cty RFastStr) = Some CPStr /\
  const_cty (RVec a) = CArray (const_cty a) /\
  const_cty (RSet a) = CStaticRef (CSet (undyn (const_cty a))) /\
  const_cty (RBTreeSet a) = CStaticRef (CBTreeSet (undyn (const_cty a))) /\
  const_cty (RMap a b) = CStaticRef (CMap (undyn (const_cty a)) (undyn (const_cty b))) /\
  const_cty (RBTreeMap a b) = CStaticRef (CBTreeMap (undyn (const_cty a)) (undyn (const_cty b))).
Proof. repeat split; reflexivity. Qed.

(* ---------- induction over literals ---------- *)
Section lit_ind.
  Variable P : lit -> Prop.
  Hypothesis Hmem : forall e m, P (LMember e m).
  Hypothesis Hconst : forall c, P (LConst c).
  Hypothesis Hbool : forall b, P (LBool b).
  Hypothesis Hstr : forall s, P (LString s).
  Hypothesis Hint : forall i, P (LInt i).
  Hypothesis Hfloat : forall s, P (LFloat s).
  Hypothesis Hlist : forall l, Forall P l -> P (LList l).
  Hypothesis Hmap : forall m, Forall (fun kv => P (fst kv) /\ P (snd kv)) m -> P (LMap m).

  Fixpoint lit_ind' (l : lit) : P l :=
    match l with
    | LMember e m => Hmem e m
    | LConst c => Hconst c
    | LBool b => Hbool b
    | LString s => Hstr s
    | LInt i => Hint i
    | LFloat s => Hfloat s
    | LList els => Hlist els ((fix go (l : list lit) : Forall P l :=
                                 match l with [] => Forall_nil _ | x :: t => Forall_cons x (lit_ind' x) (go t) end) els)
    | LMap m => Hmap m ((fix go (l : list (lit * lit)) : Forall (fun kv => P (fst kv) /\ P (snd kv)) l :=
                           match l with
                           | [] => Forall_nil _
                           | (a, b) :: t => Forall_cons (a, b) (conj (lit_ind' a) (lit_ind' b)) (go t)
                           end) m)
    end.
End lit_ind.


Lemma byte_eqb_eq a b : byte_eqb a b = true <-> a = b.
Proof. unfold byte_eqb. split; [apply Byte.byte_dec_bl | apply Byte.byte_dec_lb]. Qed.

Lemma bytes_eqb_eq a b : bytes_eqb a b = true <-> a = b.
Proof.
  revert b. induction a as [|x a IH]; destruct b as [|y b]; cbn; try (split; congruence).
  rewrite Bool.andb_true_iff, byte_eqb_eq, IH. split; [intros [-> ->]; reflexivity|intros H; injection H; auto].
Qed.

Lemma cty_eqb_eq a b : cty_eqb a b = true -> a = b.
Proof.
  revert b. induction a; destruct b; cbn; try discriminate; try reflexivity; intros H;
    try (apply Bool.andb_true_iff in H; destruct H as [H1 H2]); f_equal; auto.
  apply Nat.eqb_eq; assumption.
Qed.
Lemma cty_eqb_refl a : cty_eqb a a = true.
Proof. induction a; cbn; auto; try (rewrite IHa1, IHa2; reflexivity). apply Nat.eqb_refl. Qed.

(* ---------- strings: pasting between Rust quotes after escape_double_quotes means what the IDL says ---------- *)
Lemma idl_rust_escape x b : idl_escape x = Some b -> rust_escape x = Some b.
Proof. destruct x; cbn; intros H; try discriminate; exact H. Qed.

Lemma unescape_agree n : forall s b, (length s <= n)%nat -> idl_unescape s = Some b -> rust_unescape (escape_dq s) = Some b.
Proof.
  induction n as [|n IH]; intros s b Hl H.
  - destruct s; [cbn in *; exact H|cbn in Hl; lia].
  - destruct s as [|c r]; [exact H|]. cbn [idl_unescape escape_dq] in *.
    destruct (byte_eqb c bslash) eqn:Eb.
    + destruct r as [|x r']; [discriminate|].
      destruct (idl_escape x) as [b0|] eqn:Ex; [|discriminate].
      destruct (idl_unescape r') as [t|] eqn:Et; [|discriminate]. injection H as <-.
      cbn [rust_unescape]. rewrite Eb, (idl_rust_escape _ _ Ex), (IH r' t); [reflexivity|cbn in Hl; lia|exact Et].
    + destruct (idl_unescape r) as [t|] eqn:Et; [|discriminate]. injection H as <-.
      assert (Hr : rust_unescape (escape_dq r) = Some t) by (apply IH; [cbn in Hl; lia|exact Et]).
      destruct (byte_eqb c dquote) eqn:Eq.
      * apply byte_eqb_eq in Eq. subst c. cbn [rust_unescape]. change (byte_eqb bslash bslash) with true. cbn match.
        change (rust_escape dquote) with (Some dquote). rewrite Hr. reflexivity.
      * cbn [rust_unescape]. rewrite Eb, Eq, Hr. reflexivity.
Qed.

Lemma string_value_ok s b : idl_unescape s = Some b -> string_value s = LOk (GBytes b).
Proof. intros H. unfold string_value. rewrite (unescape_agree (length s) s b (le_n _) H). reflexivity. Qed.

(* ---------- typedef chains: peel (model) vs sresolve (specification) ---------- *)
Fixpoint rres_n (S : lschema) (f : nat) (t : rty) : rty :=
  match f with
  | O => t
  | Datatypes.S f' =>
      match t with
      | RPath n => match item S n with Some (INewType a) => rres_n S f' a | _ => t end
      | _ => t
      end
  end.
Definition rres (S : lschema) : rty -> rty := rres_n S (pfuel S).

Lemma peel_item S f t : peel S f (item_cty t) = item_cty (rres_n S f t).
Proof.
  revert t. induction f as [|f IH]; intros t; [reflexivity|]. destruct t; try reflexivity.
  cbn [item_cty peel rres_n]. destruct (item S n) as [[]|]; auto.
Qed.

Lemma sres_erase S f t : ckind S (peel S f (item_cty t)) <> Some CPArc -> sresolve_n S f (erase t) = erase (rres_n S f t).
Proof.
  revert t. induction f as [|f IH]; intros t H.
  - reflexivity.
  - destruct t; try reflexivity.
    + exfalso. apply H. reflexivity.
    + cbn [erase sresolve_n rres_n item_cty peel] in *. unfold sitem. unfold item in *.
      destruct (nth_error (ls_items S) n) as [[]|]; auto.
Qed.

(* a const type whose const-context CodegenTy is a field's CodegenTy is that field's type *)
Lemma item_cty_not_u8 t : item_cty t <> CU8.
Proof. destruct t; discriminate. Qed.

Lemma const_item_eq a : forall t, const_cty a = item_cty t -> a = t.
Proof.
  induction a; intros t H; destruct t; cbn in H; try discriminate; try reflexivity.
  all: try (injection H as H; f_equal; auto; fail).
  injection H as H. symmetry in H. exfalso. exact (item_cty_not_u8 _ H).
Qed.

Lemma ident_eq_item S c ct lc t : nth_error (ls_consts S) c = Some (ct, lc) ->
  ident_ty_of_const S c = Some (item_cty t) -> ct = t.
Proof.
  unfold ident_ty_of_const. intros -> H. injection H as H.
  destruct (const_cty ct) eqn:Ec; try (rewrite <- Ec in H; exact (const_item_eq _ _ H)).
  destruct t; discriminate.
Qed.

Lemma ident_str S c ct lc : nth_error (ls_consts S) c = Some (ct, lc) ->
  ident_ty_of_const S c = Some CStr -> is_string_rty ct = true.
Proof.
  unfold ident_ty_of_const. intros -> H. injection H as H. destruct ct; cbn in H; try discriminate; reflexivity.
Qed.

(* the loops of the specification, named *)
Definition spec_list (rec : lit -> ty -> option gval) (et : ty) : list lit -> option (list gval) :=
  fix go (els : list lit) : option (list gval) :=
    match els with
    | [] => Some []
    | x :: r => match rec x et, go r with Some a, Some b => Some (a :: b) | _, _ => None end
    end.
Definition spec_pairs (rec : lit -> ty -> option gval) (kt vt : ty) : list (lit * lit) -> option (list (gval * gval)) :=
  fix go (m : list (lit * lit)) : option (list (gval * gval)) :=
    match m with
    | [] => Some []
    | (k, v) :: r =>
        match rec k kt, rec v vt, go r with
        | Some a, Some b, Some c => Some ((a, b) :: c)
        | _, _, _ => None
        end
    end.

Definition spec_look (rec : lit -> ty -> option gval) (name : list byte) (fty : ty) : list (lit * lit) -> option (option gval) :=
  fix go (m : list (lit * lit)) : option (option gval) :=
    match m with
    | [] => Some None
    | (k, v) :: m' =>
        match k with
        | LString s => if bytes_eqb s name then match rec v fty with Some x => Some (Some x) | None => None end else go m'
        | _ => None
        end
    end.

Definition spec_fields (rec : lit -> ty -> option gval) (empty : ty -> option gval) (m : list (lit * lit))
  : list lfield -> option (list (Z * gval)) :=
  fix fields (fs : list lfield) : option (list (Z * gval)) :=
    match fs with
    | [] => Some []
    | f :: r =>
        match spec_look rec (lf_name f) (erase (lf_ty f)) m, fields r with
        | Some (Some x), Some rest => Some ((lf_id f, x) :: rest)
        | Some None, Some rest =>
            match lf_req f with
            | Optional => Some rest
            | Required => match empty (erase (lf_ty f)) with Some d => Some ((lf_id f, d) :: rest) | None => None end
            end
        | _, _ => None
        end
    end.

Definition low_fields (rec : lit -> cty -> lres (gval * bool)) (dflt : rty -> lres gval) (m : list (lit * lit))
  : list lfield -> lres (list (Z * gval) * bool) :=
  fix fields (fs : list lfield) : lres (list (Z * gval) * bool) :=
    match fs with
    | [] => LOk ([], true)
    | f :: r =>
        let+ found := low_look rec (lf_name f) (item_cty (lf_ty f)) m in
        let+ here :=
          match found with
          | Some (x, c) => LOk (Some x, c)
          | None =>
              match lf_req f with
              | Optional => LOk (None, true)
              | Required => let+ d := dflt (lf_ty f) in LOk (Some d, false)
              end
          end in
        let+ rest := fields r in
        LOk (match fst here with Some x => (lf_id f, x) :: fst rest | None => fst rest end, snd here && snd rest)
    end.

Definition class_over (S : lschema) (v : lit) (s : list byte) : list lfield -> option pclass :=
  fix over (fs : list lfield) : option pclass :=
    match fs with
    | [] => None
    | f :: fr =>
        match (if bytes_eqb s (lf_name f) then pclass_into S v (item_cty (lf_ty f)) else None) with
        | Some c => Some c
        | None => over fr
        end
    end.
Definition class_pairs (S : lschema) (fs : list lfield) : list (lit * lit) -> option pclass :=
  fix go (m : list (lit * lit)) : option pclass :=
    match m with
    | [] => None
    | (k, v) :: r =>
        match (match k with LString s => class_over S v s fs | _ => None end) with
        | Some c => Some c
        | None => go r
        end
    end.

Lemma class_over_in S v s fs f : class_over S v s fs = None -> In f fs -> bytes_eqb s (lf_name f) = true ->
  pclass_into S v (item_cty (lf_ty f)) = None.
Proof.
  induction fs as [|g fr IH]; intros H Hin Hb; [destruct Hin|].
  cbn [class_over] in H. destruct Hin as [->|Hin].
  - rewrite Hb in H. destruct (pclass_into S v (item_cty (lf_ty f))); [discriminate|reflexivity].
  - destruct (if bytes_eqb s (lf_name g) then _ else _); [discriminate|]. apply IH; assumption.
Qed.
Lemma snorm_n_ref_stop S f n : (forall a, sitem S n <> Some (INewType a)) -> snorm_n S (Datatypes.S f) (TyRef n) = TyRef n.
Proof.
  intros H. cbn [snorm_n]. destruct (sitem S n) as [[]|] eqn:E; try reflexivity. exfalso. exact (H _ eq_refl).
Qed.
Lemma snorm_ref_stop S n : (forall a, sitem S n <> Some (INewType a)) -> snorm S (TyRef n) = TyRef n.
Proof. intros H. exact (snorm_n_ref_stop S (31 + length (ls_items S)) n H). Qed.

Section Main.
  Variable parse_f64 : list byte -> option Z.
  Variable S : lschema.
  Variable cval : nat -> lres gval.
  Variable dflt : rty -> lres gval.
  Variable cv : nat -> option gval.
  Variable empty : ty -> option gval.
  Hypothesis HC : forall c v, const_simple S c = true -> cv c = Some v -> cval c = LOk v.
  Hypothesis HD : forall t d, empty (erase t) = Some d -> dflt t = LOk d.

  Notation into := (lit_into_ty parse_f64 S cval dflt).
  Notation val := (lit_value parse_f64 S cv empty).

  Definition crel (t : rty) (ty : cty) : Prop := ty = item_cty t \/ (ty = CStr /\ is_string_rty t = true).

  Definition good (l : lit) : Prop :=
    forall t ty v, crel t ty -> val l (erase t) = Some v -> pclass_into S l ty = None -> exists c, into l ty = LOk (v, c).

  Definition nonpath (l : lit) : bool := match l with LMember _ _ | LConst _ => false | _ => true end.

  Lemma pre l t : nonpath l = true -> pclass_into S l (item_cty t) = None ->
    peel S (pfuel S) (item_cty t) = item_cty (rres S t) /\ sresolve S (erase t) = erase (rres S t).
  Proof.
    intros Hn Hp. split; [apply peel_item|]. apply sres_erase. intros Hk.
    destruct l; try discriminate; cbn [pclass_into] in Hp; unfold pfuel in *;
      set (p := peel S _ (item_cty t)) in *; clearbody p;
      destruct p; cbn [ckind] in Hk; try discriminate;
      match type of Hk with context [item S ?n] => destruct (item S n) as [[]|]; discriminate end.
  Qed.

  Ltac split_item :=
    try match goal with
        | n : nat |- _ => let E := fresh "Ei" in destruct (nth_error (ls_items S) n) as [[]|] eqn:E
        end.
  Ltac simp_item Hv Hp :=
    cbn in Hv, Hp |- *; unfold sitem, item in *;
    try match goal with E : nth_error (ls_items S) _ = _ |- _ => rewrite E in * end; cbn in Hv, Hp |- *.

  Lemma good_int z : good (LInt z).
  Proof.
    intros t ty v [->|[-> Hs]] Hv Hp.
    - destruct (pre (LInt z) t eq_refl Hp) as (Ep & Es).
      cbn [lit_into_ty lit_value pclass_into] in *. rewrite Ep in *. rewrite Es in Hv. clear Ep Es.
      destruct (rres S t); split_item; simp_item Hv Hp; try discriminate;
        repeat match type of Hv with (if ?b then _ else _) = _ => destruct b eqn:?; try discriminate end;
        try (injection Hv as <-; try (eexists; reflexivity)).
      rewrite int_to_double_model. eexists; reflexivity.
    - destruct t; try discriminate; cbn in Hv; discriminate.
  Qed.

  Lemma good_bool b : good (LBool b).
  Proof.
    intros t ty v [->|[-> Hs]] Hv Hp.
    - destruct (pre (LBool b) t eq_refl Hp) as (Ep & Es).
      cbn [lit_into_ty lit_value pclass_into] in *. rewrite Ep in *. rewrite Es in Hv. clear Ep Es.
      destruct (rres S t); split_item; simp_item Hv Hp; try discriminate.
      injection Hv as <-. eexists; reflexivity.
    - destruct t; try discriminate; cbn in Hv; discriminate.
  Qed.

  Lemma good_float s : good (LFloat s).
  Proof.
    intros t ty v [->|[-> Hs]] Hv Hp.
    - destruct (pre (LFloat s) t eq_refl Hp) as (Ep & Es).
      cbn [lit_into_ty lit_value pclass_into] in *. rewrite Ep in *. rewrite Es in Hv. clear Ep Es.
      destruct (rres S t); split_item; simp_item Hv Hp; try discriminate;
        destruct (parse_f64 s); try discriminate; injection Hv as <-; eexists; reflexivity.
    - destruct t; try discriminate; cbn in Hv; discriminate.
  Qed.

  Lemma good_string s : good (LString s).
  Proof.
    intros t ty v [->|[-> Hs]] Hv Hp.
    - destruct (pre (LString s) t eq_refl Hp) as (Ep & Es).
      cbn [lit_into_ty lit_value pclass_into] in *. rewrite Ep in *. rewrite Es in Hv. clear Ep Es.
      destruct (rres S t); split_item; simp_item Hv Hp; try discriminate;
        destruct (idl_unescape s) as [b|] eqn:Eu; try discriminate; injection Hv as <-;
        rewrite (string_value_ok _ _ Eu); eexists; reflexivity.
    - destruct t; try discriminate; cbn in Hv |- *;
        (destruct (idl_unescape s) as [b|] eqn:Eu; [|discriminate]); injection Hv as <-;
        rewrite (string_value_ok _ _ Eu); eexists; reflexivity.
  Qed.

  Lemma good_member e m : good (LMember e m).
  Proof.
    intros t ty v Hrel Hv Hp. cbn [lit_value] in Hv. unfold sitem in Hv.
    destruct (nth_error (ls_items S) e) as [[| ms | |]|] eqn:Ei; try discriminate.
    destruct (nth_error ms m) as [z|] eqn:Em; try discriminate.
    cbn [pclass_into] in Hp. cbn [lit_into_ty]. unfold item. rewrite Ei, Em. unfold ident_into_ty.
    destruct (cty_eqb (CAdt e) ty) eqn:Eeq.
    - apply cty_eqb_eq in Eeq. subst ty. destruct Hrel as [Hrel|[Hrel _]]; [|discriminate].
      destruct t; try discriminate. injection Hrel as <-.
      unfold sresolve in Hv. cbn [erase sresolve_n] in Hv. unfold sitem in Hv. rewrite Ei in Hv. rewrite Nat.eqb_refl in Hv.
      injection Hv as <-. eexists; reflexivity.
    - cbn [orb] in Hp. destruct ty; try discriminate; (destruct Hrel as [Hrel|[Hrel _]]; [|discriminate]);
        destruct t; try discriminate; cbn in Hv;
        match type of Hv with (if ?b then _ else _) = _ => destruct b eqn:Eb; try discriminate end;
        injection Hv as <-; cbn; unfold item; rewrite Ei; cbn; rewrite wrap_id by (lia || exact Eb); eexists; reflexivity.
  Qed.

  Lemma ty_eqb_refl a : ty_eqb a a = true.
  Proof. induction a; cbn; auto; try (rewrite IHa1, IHa2; reflexivity). apply Nat.eqb_refl. Qed.

  Lemma good_const c : good (LConst c).
  Proof.
    intros t ty v Hrel Hv Hp. cbn [lit_value] in Hv.
    destruct (nth_error (ls_consts S) c) as [[ct lc]|] eqn:Ec; [|discriminate].
    cbn [pclass_into] in Hp. cbn [lit_into_ty].
    destruct (ident_ty_of_const S c) as [it|] eqn:Eit; [|discriminate].
    unfold ident_into_ty.
    destruct (cty_eqb it ty) eqn:Eeq.
    - apply cty_eqb_eq in Eeq. subst it.
      assert (Hs : const_simple S c = true /\ erase ct = erase t).
      { unfold const_simple. rewrite Ec, Eit. destruct Hrel as [->|[-> Hs]].
        - rewrite (ident_eq_item _ _ _ _ _ Ec Eit), cty_eqb_refl. split; reflexivity.
        - pose proof (ident_str _ _ _ _ Ec Eit) as Hct. rewrite Hct. split; [apply Bool.orb_true_r|].
          destruct ct; try discriminate; destruct t; try discriminate; reflexivity. }
      destruct Hs as [Hs He]. rewrite He, ty_eqb_refl in Hv.
      rewrite (HC _ _ Hs Hv). eexists; reflexivity.
    - cbn [orb] in Hp.
      destruct (is_str_cty it && is_faststr_cty ty) eqn:Esf.
      + destruct it; try discriminate. destruct ty; try discriminate.
        pose proof (ident_str _ _ _ _ Ec Eit) as Hct.
        assert (Hs : const_simple S c = true).
        { unfold const_simple. rewrite Ec, Eit, Hct. apply Bool.orb_true_r. }
        assert (He : erase ct = erase t).
        { destruct Hrel as [Hrel|[Hrel _]]; [|discriminate].
          destruct ct; try discriminate; destruct t; try discriminate; reflexivity. }
        rewrite He, ty_eqb_refl in Hv. cbn. rewrite (HC _ _ Hs Hv). eexists; reflexivity.
      + cbn [orb] in Hp.
        destruct (ckind S it) as [ik|] eqn:Eik; [|discriminate]. destruct ik; try discriminate.
        destruct (is_int_cty ty) eqn:Eint; [|discriminate].
        (* the const's CodegenTy is an enum Adt: it is the field CodegenTy of its own type *)
        assert (Hs : const_simple S c = true).
        { unfold const_simple. rewrite Ec, Eit.
          unfold ident_ty_of_const in Eit. rewrite Ec in Eit. injection Eit as Eit.
          destruct ct; cbn in Eit; subst it; cbn in Eik; try discriminate. cbn [item_cty]. rewrite cty_eqb_refl. reflexivity. }
        (* ct is a path to an enum / union item, t an integer type *)
        assert (Hct : exists n, ct = RPath n /\ it = CAdt n /\ (forall a, sitem S n <> Some (INewType a))).
        { unfold ident_ty_of_const in Eit. rewrite Ec in Eit. injection Eit as Eit.
          destruct ct; cbn in Eit; subst it; cbn in Eik; try discriminate.
          exists n. split; [reflexivity|]. split; [reflexivity|]. intros a Ha. unfold sitem in Ha. unfold item in Eik.
          rewrite Ha in Eik. discriminate. }
        destruct Hct as (n & -> & -> & Hnn).
        destruct Hrel as [->|[-> _]]; [|discriminate].
        assert (Ht : snorm S (erase t) = erase t /\ sresolve S (erase t) = erase t /\
                     (erase t = TyI8 \/ erase t = TyI16 \/ erase t = TyI32 \/ erase t = TyI64)).
        { destruct t; try discriminate; (split; [reflexivity|split; [reflexivity|]]); auto. }
        destruct Ht as (Hn1 & Hr1 & Hty).
        cbn [erase] in Hv. rewrite (snorm_ref_stop S n Hnn), Hn1, Hr1 in Hv.
        assert (Hne : ty_eqb (TyRef n) (erase t) = false) by (destruct Hty as [E | [E | [E | E]]]; rewrite E; reflexivity).
        rewrite Hne in Hv.
        destruct (cv c) as [[]|] eqn:Ecv; try discriminate.
        destruct (sitem S n) as [[]|]; try discriminate.
        rewrite (HC _ _ Hs Ecv).
        destruct t; try discriminate; cbn [erase int_at] in Hv;
          match type of Hv with (if ?b then _ else _) = _ => destruct b eqn:Eb; try discriminate end;
          injection Hv as <-; cbn; rewrite wrap_id by (lia || exact Eb); eexists; reflexivity.
  Qed.

  Lemma list_ok els : Forall good els -> forall a vs,
    spec_list val (erase a) els = Some vs ->
    first_class (fun x => pclass_into S x (item_cty a)) els = None ->
    exists xs, low_list into (item_cty a) els = LOk xs /\ map fst xs = vs.
  Proof.
    induction 1 as [|x r Hx Hr IH]; intros a vs Hv Hp.
    - injection Hv as <-. exists []. split; reflexivity.
    - cbn [spec_list] in Hv. destruct (val x (erase a)) as [va|] eqn:Ea; [|discriminate].
      fold (spec_list val (erase a)) in Hv. destruct (spec_list val (erase a) r) as [vr|] eqn:Er; [|discriminate].
      injection Hv as <-. cbn [first_class] in Hp.
      destruct (pclass_into S x (item_cty a)) eqn:Ex; [discriminate|].
      fold (first_class (fun x => pclass_into S x (item_cty a))) in Hp.
      destruct (Hx a (item_cty a) va (or_introl eq_refl) Ea Ex) as (c & Hc).
      destruct (IH a vr Er Hp) as (xs & Hxs & Hm).
      exists ((va, c) :: xs). split; [|cbn; rewrite Hm; reflexivity].
      cbn [low_list]. rewrite Hc. cbn [lbind]. fold (low_list into (item_cty a)). rewrite Hxs. reflexivity.
  Qed.

  Lemma good_list els : Forall good els -> good (LList els).
  Proof.
    intros HF t ty v [->|[-> Hs]] Hv Hp.
    - destruct (pre (LList els) t eq_refl Hp) as (Ep & Es).
      cbn [lit_into_ty lit_value pclass_into] in *. rewrite Ep in *. rewrite Es in Hv. clear Ep Es.
      destruct (rres S t) as [| | | | | | | | | | | | |a|a|a| | | |]; split_item; simp_item Hv Hp; try discriminate.
      + change (match spec_list val (erase a) els with Some vs => Some (GList vs) | None => None end = Some v) in Hv.
        change (first_class (fun x => pclass_into S x (item_cty a)) els = None) in Hp.
        change (exists c, (let+ xs := low_list into (item_cty a) els in LOk (GList (map fst xs), false)) = LOk (v, c)).
        destruct (spec_list val (erase a) els) as [vs|] eqn:Ev; [|discriminate]. injection Hv as <-.
        destruct (list_ok els HF a vs Ev Hp) as (xs & -> & <-). eexists; reflexivity.
      + change (match spec_list val (erase a) els with Some vs => Some (GSet vs) | None => None end = Some v) in Hv.
        change (first_class (fun x => pclass_into S x (item_cty a)) els = None) in Hp.
        change (exists c, (let+ xs := low_list into (item_cty a) els in LOk (GSet (map fst xs), false)) = LOk (v, c)).
        destruct (spec_list val (erase a) els) as [vs|] eqn:Ev; [|discriminate]. injection Hv as <-.
        destruct (list_ok els HF a vs Ev Hp) as (xs & -> & <-). eexists; reflexivity.
      + change (match spec_list val (erase a) els with Some vs => Some (GSet vs) | None => None end = Some v) in Hv.
        change (first_class (fun x => pclass_into S x (item_cty a)) els = None) in Hp.
        change (exists c, (let+ xs := low_list into (item_cty a) els in LOk (GSet (map fst xs), false)) = LOk (v, c)).
        destruct (spec_list val (erase a) els) as [vs|] eqn:Ev; [|discriminate]. injection Hv as <-.
        destruct (list_ok els HF a vs Ev Hp) as (xs & -> & <-). eexists; reflexivity.
    - destruct t; try discriminate; cbn in Hv; discriminate.
  Qed.

  Definition good2 (kv : lit * lit) : Prop := good (fst kv) /\ good (snd kv).

  Lemma look_ok m : Forall good2 m -> forall fs f, class_pairs S fs m = None -> In f fs -> forall res,
    spec_look val (lf_name f) (erase (lf_ty f)) m = Some res ->
    match res with
    | Some x => exists c, low_look into (lf_name f) (item_cty (lf_ty f)) m = LOk (Some (x, c))
    | None => low_look into (lf_name f) (item_cty (lf_ty f)) m = LOk None
    end.
  Proof.
    induction 1 as [|[k w] r [Hk Hw] Hr IH]; intros fs f Hp Hin res Hv.
    - injection Hv as <-. reflexivity.
    - cbn [spec_look] in Hv. cbn [low_look]. cbn [class_pairs] in Hp.
      destruct k; try discriminate.
      destruct (class_over S w s fs) eqn:Eo; [discriminate|].
      fold (class_pairs S fs) in Hp. fold (spec_look val (lf_name f) (erase (lf_ty f))) in Hv.
      fold (low_look into (lf_name f) (item_cty (lf_ty f))).
      destruct (bytes_eqb s (lf_name f)) eqn:Eb.
      + destruct (val w (erase (lf_ty f))) as [x|] eqn:Ex; [|discriminate]. injection Hv as <-.
        cbn [snd] in Hw.
        destruct (Hw (lf_ty f) (item_cty (lf_ty f)) x (or_introl eq_refl) Ex (class_over_in _ _ _ _ _ Eo Hin Eb)) as (c & Hc).
        exists c. rewrite Hc. reflexivity.
      + exact (IH fs f Hp Hin res Hv).
  Qed.

  Lemma fields_ok m : Forall good2 m -> forall fs0, class_pairs S fs0 m = None -> forall fs out, incl fs fs0 ->
    spec_fields val empty m fs = Some out -> exists c, low_fields into dflt m fs = LOk (out, c).
  Proof.
    intros Hm fs0 Hp. induction fs as [|f r IH]; intros out Hin Hv.
    - injection Hv as <-. eexists; reflexivity.
    - cbn [spec_fields] in Hv. fold (spec_fields val empty m) in Hv. cbn [low_fields]. fold (low_fields into dflt m).
      destruct (spec_look val (lf_name f) (erase (lf_ty f)) m) as [res|] eqn:El; [|discriminate].
      pose proof (look_ok m Hm fs0 f Hp (Hin f (or_introl eq_refl)) res El) as Hl.
      assert (Hin' : incl r fs0) by (intros x Hx; apply Hin; right; exact Hx).
      destruct res as [x|].
      + destruct Hl as (c & ->). destruct (spec_fields val empty m r) as [rest|] eqn:Er; [|discriminate].
        injection Hv as <-. destruct (IH rest Hin' eq_refl) as (c' & ->). eexists; reflexivity.
      + rewrite Hl. destruct (spec_fields val empty m r) as [rest|] eqn:Er; [|discriminate].
        destruct (IH rest Hin' eq_refl) as (c' & Hc'). cbn [lbind].
        destruct (lf_req f).
        * destruct (empty (erase (lf_ty f))) as [d|] eqn:Ee; [|discriminate]. injection Hv as <-.
          rewrite (HD _ _ Ee). cbn [lbind]. rewrite Hc'. eexists; reflexivity.
        * injection Hv as <-. cbn [lbind]. rewrite Hc'. eexists; reflexivity.
  Qed.

  Lemma good_map m : Forall good2 m -> good (LMap m).
  Proof.
    intros HF t ty v [->|[-> Hs]] Hv Hp.
    - destruct (pre (LMap m) t eq_refl Hp) as (Ep & Es).
      cbn [lit_into_ty lit_value pclass_into] in *. rewrite Ep in *. rewrite Es in Hv. clear Ep Es.
      destruct (rres S t); split_item; simp_item Hv Hp; try discriminate.
      repeat match type of Hv with (if ?b then None else _) = _ => destruct b; [discriminate|] end.
      match goal with E : nth_error (ls_items S) _ = Some (IStruct ?fs _ _) |- _ =>
        change (match spec_fields val empty m fs with Some out => Some (GStruct out []) | None => None end = Some v) in Hv;
        change (class_pairs S fs m = None) in Hp;
        change (exists c, (let+ out := low_fields into dflt m fs in LOk (GStruct (fst out) [], snd out)) = LOk (v, c));
        destruct (spec_fields val empty m fs) as [out|] eqn:Ef; [|discriminate]; injection Hv as <-;
        destruct (fields_ok m HF fs Hp fs out (incl_refl _) Ef) as (c & ->); eexists; reflexivity
      end.
    - destruct t; try discriminate; cbn in Hv; discriminate.
  Qed.

  Theorem lit_good : forall l, good l.
  Proof.
    induction l using lit_ind'.
    - apply good_member. - apply good_const. - apply good_bool. - apply good_string. - apply good_int. - apply good_float.
    - apply good_list; assumption.
    - apply good_map; assumption.
  Qed.

  (* ---------- the top of a default: lit_as_rvalue ---------- *)
  Notation top := (lit_as_rvalue parse_f64 S cval dflt).

  Lemma pairs_ok m : forall kt vt kvs,
    spec_pairs val (erase kt) (erase vt) m = Some kvs ->
    first_class (fun kv => match pclass_into S (fst kv) (item_cty kt) with
                           | Some c => Some c
                           | None => pclass_into S (snd kv) (item_cty vt)
                           end) m = None ->
    low_pairs into (item_cty kt) (item_cty vt) m = LOk kvs.
  Proof.
    induction m as [|[k w] r IH]; intros kt vt kvs Hv Hp.
    - injection Hv as <-. reflexivity.
    - cbn [spec_pairs] in Hv. fold (spec_pairs val (erase kt) (erase vt)) in Hv.
      destruct (val k (erase kt)) as [a|] eqn:Ea; [|discriminate].
      destruct (val w (erase vt)) as [b|] eqn:Eb; [|discriminate].
      destruct (spec_pairs val (erase kt) (erase vt) r) as [c|] eqn:Er; [|discriminate]. injection Hv as <-.
      cbn [first_class fst snd] in Hp.
      destruct (pclass_into S k (item_cty kt)) eqn:Ek; [discriminate|].
      destruct (pclass_into S w (item_cty vt)) eqn:Ew; [discriminate|].
      match type of Hp with ?f r = None => change (first_class (fun kv => match pclass_into S (fst kv) (item_cty kt) with
                           | Some c => Some c
                           | None => pclass_into S (snd kv) (item_cty vt)
                           end) r = None) in Hp end.
      destruct (lit_good k kt _ a (or_introl eq_refl) Ea Ek) as (ca & Ha).
      destruct (lit_good w vt _ b (or_introl eq_refl) Eb Ew) as (cb & Hb).
      cbn [low_pairs]. rewrite Ha, Hb. cbn [lbind fst]. fold (low_pairs into (item_cty kt) (item_cty vt)).
      rewrite (IH kt vt c Er Hp). reflexivity.
  Qed.

  Lemma top_good l t v : val l (erase t) = Some v -> pclass_top S l (item_cty t) = None ->
    exists c, top l (item_cty t) = LOk (v, c).
  Proof.
    intros Hv Hp.
    assert (Hinto : pclass_into S l (item_cty t) = None -> exists c, into l (item_cty t) = LOk (v, c)).
    { intros H. exact (lit_good l t _ v (or_introl eq_refl) Hv H). }
    destruct t; try (unfold lit_as_rvalue; destruct l; cbn; apply Hinto; exact Hp).
    - (* RMap *)
      destruct l; try (unfold lit_as_rvalue; cbn; apply Hinto; exact Hp); try (cbn in Hv; discriminate).
      + cbn in Hv. destruct l; [|discriminate]. injection Hv as <-. eexists; reflexivity.
      + cbn [lit_value erase] in Hv. unfold sresolve in Hv. cbn [sresolve_n] in Hv.
        change (match spec_pairs val (erase t1) (erase t2) l with Some kvs => Some (GMap kvs) | None => None end = Some v) in Hv.
        destruct (spec_pairs val (erase t1) (erase t2) l) as [kvs|] eqn:Es; [|discriminate]. injection Hv as <-.
        cbn [pclass_top item_cty] in Hp.
        unfold lit_as_rvalue. cbn. unfold mk_map. rewrite (pairs_ok l t1 t2 kvs Es Hp). eexists; reflexivity.
    - (* RBTreeMap *)
      destruct l; try (unfold lit_as_rvalue; cbn; apply Hinto; exact Hp); try (cbn in Hv; discriminate).
      + cbn in Hv. destruct l; [|discriminate]. injection Hv as <-. eexists; reflexivity.
      + cbn [lit_value erase] in Hv. unfold sresolve in Hv. cbn [sresolve_n] in Hv.
        change (match spec_pairs val (erase t1) (erase t2) l with Some kvs => Some (GMap kvs) | None => None end = Some v) in Hv.
        destruct (spec_pairs val (erase t1) (erase t2) l) as [kvs|] eqn:Es; [|discriminate]. injection Hv as <-.
        cbn [pclass_top item_cty] in Hp.
        unfold lit_as_rvalue. cbn. unfold mk_map. rewrite (pairs_ok l t1 t2 kvs Es Hp). eexists; reflexivity.
    - (* RPath *)
      unfold lit_as_rvalue. cbn [item_cty ckind]. destruct (item S n) as [[]|]; destruct l; cbn; apply Hinto; exact Hp.
  Qed.
End Main.

(* ---------- typedef / Arc chains for Default::default() ---------- *)
Lemma erase_unarc t : erase (unarc t) = erase t.
Proof. induction t; cbn; auto. Qed.
Lemma unarc_not_arc t a : unarc t <> RArc a.
Proof. induction t; cbn; try discriminate; auto. Qed.
Lemma rstrip_not_arc S f : forall t a, rstrip_n S f t <> RArc a.
Proof.
  induction f as [|f IH]; intros t a; cbn [rstrip_n]; [apply unarc_not_arc|].
  destruct (unarc t) eqn:E; try discriminate.
  - rewrite <- E. apply unarc_not_arc.
  - destruct (item S n) as [[]|]; try discriminate. apply IH.
Qed.
Lemma sres_rstrip S f : forall t, sresolve_n S f (erase t) = erase (rstrip_n S f t).
Proof.
  induction f as [|f IH]; intros t; cbn [sresolve_n rstrip_n]; [symmetry; apply erase_unarc|].
  rewrite <- (erase_unarc t). destruct (unarc t) eqn:E; try reflexivity.
  - exfalso. exact (unarc_not_arc _ _ E).
  - cbn [erase]. unfold sitem, item. destruct (nth_error (ls_items S) n) as [[]|]; auto.
Qed.

Lemma rvalue_eq_into pf S cval dflt l ty :
  (forall k, ckind S ty = Some k -> k <> CPLazyStaticRef /\ k <> CPMap /\ k <> CPBTreeMap) ->
  lit_as_rvalue pf S cval dflt l ty = lit_into_ty pf S cval dflt l ty.
Proof.
  intros H. unfold lit_as_rvalue. destruct (ckind S ty) as [k|]; [|reflexivity].
  specialize (H k eq_refl). destruct H as (H1 & H2 & H3).
  destruct k; try congruence; destruct l; reflexivity.
Qed.

Lemma ident_item_kind S c ct lc : nth_error (ls_consts S) c = Some (ct, lc) ->
  ident_ty_of_const S c = Some (item_cty ct) ->
  forall k, ckind S (item_cty ct) = Some k -> k <> CPLazyStaticRef /\ k <> CPMap /\ k <> CPBTreeMap.
Proof.
  unfold ident_ty_of_const. intros -> H k Hk. injection H as H.
  destruct ct; cbn in H, Hk; try discriminate; try (injection Hk as <-; repeat split; discriminate).
  destruct (item S n) as [[]|]; try discriminate; injection Hk as <-; repeat split; discriminate.
Qed.

(* the struct clause of ev's QDefault, named *)
Definition ev_fields (top : lit -> cty -> lres (gval * bool)) (dflt : rty -> lres gval) : list lfield -> lres (list (Z * gval)) :=
  fix fields (fs : list lfield) : lres (list (Z * gval)) :=
    match fs with
    | [] => LOk []
    | fd :: r =>
        let+ here :=
          match lf_dflt fd with
          | Some l => let+ x := top l (item_cty (lf_ty fd)) in LOk (Some (fst x))
          | None =>
              match lf_req fd with
              | Optional => LOk None
              | Required => let+ x := dflt (lf_ty fd) in LOk (Some x)
              end
          end in
        let+ rest := fields r in
        LOk (match here with Some x => (lf_id fd, x) :: rest | None => rest end)
    end.

Section Fuel.
  Variable parse_f64 : list byte -> option Z.
  Variable S : lschema.
  Hypothesis Hcf : class_free_schema S = true.

  Lemma field_class_free n fs k a f l : nth_error (ls_items S) n = Some (IStruct fs k a) -> In f fs -> lf_dflt f = Some l ->
    pclass_top S l (item_cty (lf_ty f)) = None.
  Proof.
    intros Hn Hin Hd. unfold class_free_schema in Hcf. apply Bool.andb_true_iff in Hcf. destruct Hcf as [H1 _].
    rewrite forallb_forall in H1. specialize (H1 _ (nth_error_In _ _ Hn)). cbn [item_class_free] in H1.
    rewrite forallb_forall in H1. specialize (H1 _ Hin). rewrite Hd in H1.
    destruct (pclass_top S l (item_cty (lf_ty f))); [discriminate|reflexivity].
  Qed.

  Lemma const_class_free_at c ct lc it : nth_error (ls_consts S) c = Some (ct, lc) -> ident_ty_of_const S c = Some it ->
    const_simple S c = true -> pclass_into S lc it = None.
  Proof.
    intros Hc Hi Hs. unfold class_free_schema in Hcf. apply Bool.andb_true_iff in Hcf. destruct Hcf as [_ H2].
    rewrite forallb_forall in H2.
    assert (Hlt : (c < length (ls_consts S))%nat) by (apply nth_error_Some; congruence).
    specialize (H2 c ltac:(apply in_seq; lia)). unfold const_class_free in H2. rewrite Hs, Hc, Hi in H2.
    destruct (pclass_into S lc it); [discriminate|reflexivity].
  Qed.

  Definition PC (f : nat) : Prop := forall c v, const_simple S c = true ->
    sv parse_f64 S f (SConst c) = Some v -> ev parse_f64 S f (QConst c) = LOk v.
  Definition PD (f : nat) : Prop := forall t d,
    sv parse_f64 S f (SEmpty (erase t)) = Some d -> ev parse_f64 S f (QDefault t) = LOk d.

  Lemma fields_default f (HC : PC f) (HD : PD f) n fs0 k a : nth_error (ls_items S) n = Some (IStruct fs0 k a) ->
    forall fs out, incl fs fs0 ->
    sempty_fields (lit_value parse_f64 S (fun c => sv parse_f64 S f (SConst c)) (fun t => sv parse_f64 S f (SEmpty t)))
                  (fun t => sv parse_f64 S f (SEmpty t)) fs = Some out ->
    ev_fields (lit_as_rvalue parse_f64 S (fun c => ev parse_f64 S f (QConst c)) (fun t => ev parse_f64 S f (QDefault t)))
              (fun t => ev parse_f64 S f (QDefault t)) fs = LOk out.
  Proof.
    intros Hn. induction fs as [|fd r IH]; intros out Hin Hv.
    - injection Hv as <-. reflexivity.
    - cbn [sempty_fields] in Hv. cbn [ev_fields].
      assert (Hin' : incl r fs0) by (intros x Hx; apply Hin; right; exact Hx).
      destruct (lf_dflt fd) as [l|] eqn:Ed.
      + destruct (lit_value _ _ _ _ l (erase (lf_ty fd))) as [x|] eqn:Ex; [|discriminate].
        destruct (top_good parse_f64 S _ _ _ _ HC HD l (lf_ty fd) x Ex
                    (field_class_free _ _ _ _ _ _ Hn (Hin fd (or_introl eq_refl)) Ed)) as (c & ->).
        cbn [lbind fst].
        match type of Hv with match ?g r with _ => _ end = _ => destruct (g r) as [rest|] eqn:Er; [|discriminate] end.
        injection Hv as <-. rewrite (IH rest Hin' eq_refl). reflexivity.
      + destruct (lf_req fd).
        * destruct (sv parse_f64 S f (SEmpty (erase (lf_ty fd)))) as [x|] eqn:Ex; [|discriminate].
          rewrite (HD _ _ Ex). cbn [lbind].
          match type of Hv with match ?g r with _ => _ end = _ => destruct (g r) as [rest|] eqn:Er; [|discriminate] end.
          injection Hv as <-. rewrite (IH rest Hin' eq_refl). reflexivity.
        * cbn [lbind].
          match type of Hv with match ?g r with _ => _ end = _ => destruct (g r) as [rest|] eqn:Er; [|discriminate] end.
          injection Hv as <-. rewrite (IH rest Hin' eq_refl). reflexivity.
  Qed.

  Lemma ev_sv f : PC f /\ PD f.
  Proof.
    induction f as [|f [HC HD]]; [split; intros ? ? ?; try intros ?; discriminate|].
    split.
    - intros c v Hs Hv. cbn [sv] in Hv. cbn [ev].
      destruct (nth_error (ls_consts S) c) as [[ct lc]|] eqn:Ec; [|discriminate].
      destruct (ident_ty_of_const S c) as [it|] eqn:Ei; [|unfold const_simple in Hs; rewrite Ec, Ei in Hs; discriminate].
      pose proof (const_class_free_at _ _ _ _ Ec Ei Hs) as Hp.
      unfold const_simple in Hs. rewrite Ec, Ei in Hs. unfold def_lit.
      destruct (cty_eqb it (item_cty ct)) eqn:Eq.
      + apply cty_eqb_eq in Eq. subst it.
        rewrite (rvalue_eq_into _ _ _ _ lc _ (ident_item_kind _ _ _ _ Ec Ei)).
        destruct (lit_good parse_f64 S _ _ _ _ HC HD lc ct _ v (or_introl eq_refl) Hv Hp) as (cc & ->).
        destruct (should_lazy_static S (item_cty ct)); reflexivity.
      + cbn [orb] in Hs.
        assert (it = CStr).
        { unfold ident_ty_of_const in Ei. rewrite Ec in Ei. injection Ei as <-. destruct ct; try discriminate; reflexivity. }
        subst it.
        rewrite (rvalue_eq_into _ _ _ _ lc CStr) by (intros k Hk; injection Hk as <-; repeat split; discriminate).
        destruct (lit_good parse_f64 S _ _ _ _ HC HD lc ct CStr v (or_intror (conj eq_refl Hs)) Hv Hp) as (cc & ->).
        destruct (should_lazy_static S CStr); reflexivity.
    - intros t d Hv. cbn [sv] in Hv. cbn [ev]. unfold sempty_step in Hv.
      unfold sresolve in Hv. rewrite sres_rstrip in Hv. fold (pfuel S) in Hv. fold (rstrip S t) in Hv.
      pose proof (rstrip_not_arc S (pfuel S) t) as Hna. fold (rstrip S t) in Hna.
      destruct (rstrip S t) eqn:Er; cbn [erase] in Hv; try (injection Hv as <-; reflexivity).
      + exfalso. exact (Hna _ eq_refl).
      + unfold sitem in Hv. unfold item.
        destruct (nth_error (ls_items S) n) as [[fs k a|ms|vs vo k|a]|] eqn:En; try discriminate.
        * match type of Hv with match ?g with _ => _ end = _ => destruct g as [out|] eqn:Ef; [|discriminate] end.
          injection Hv as <-.
          change (lbind (ev_fields (lit_as_rvalue parse_f64 S (fun c => ev parse_f64 S f (QConst c)) (fun t => ev parse_f64 S f (QDefault t)))
                                   (fun t => ev parse_f64 S f (QDefault t)) fs) (fun out => LOk (GStruct out [])) = LOk (GStruct out [])).
          rewrite (fields_default f HC HD n fs k a En fs out (incl_refl _) Ef). reflexivity.
        * injection Hv as <-. reflexivity.
        * destruct vs as [|[id vt] vr]; [discriminate|].
          destruct (sv parse_f64 S f (SEmpty (erase vt))) as [x|] eqn:Ex; [|discriminate]. injection Hv as <-.
          rewrite (HD _ _ Ex). reflexivity.
  Qed.
End Fuel.
