(* The decidable classes of (literal, target type) shapes on which Context::lit_into_ty / ident_into_ty still panic although
   the literal is well-typed IDL, AFTER the repairs of F-14g (container literal inside container literal), F-14i (const of
   set type), F-14l (enum member / const through a typedef'd target) and of the missing arms (Int at OrderedF64, string
   const at a std String field).  What is left (property C14: the generator must not panic):

     PCPathConvert     a const / enum-member reference that ident_into_ty cannot convert: panic!("invalid convert").  Left:
                       a REFERENCE to a const of list / set / map type (its CodegenTy is Array / LazyStaticRef, never the
                       field's Vec / AHashSet / AHashMap), a const of a typedef type used at the aliased type.  path_ok is a
                       sufficient condition: the target itself, or the end of the target's typedef chain, is the const's type
                       or one of the conversions; a const whose type is a typedef strictly INSIDE the chain is accepted by the
                       generator but not by path_ok.
     PCNestedMap       a map-typed target where only lit_into_ty looks: a map KEY that is a map (no Rust map is hashable),
                       an element of a const Array, the definition of a const that is no lazy static.
     PCNoArm           any literal at a `rust_wrapper_arc` type, a string at `binary` with rust_type = "vec".
     PCConstContainer  a StaticRef / LazyStaticRef type (const context only).
     PCDangling        a reference to a const that does not exist (model artefact).

   [pclass_into en l ty = None] is a SUFFICIENT condition for the lowering to succeed on a well-typed literal
   (Proofs/LitP.v); the three open classes have a witness that they do panic (Proofs/LitTopP.v).  No proofs here. *)
From PVGen Require Export Lit.

Inductive pclass := PCPathConvert | PCNestedMap | PCNoArm | PCConstContainer | PCDangling
                     | PCFloatSigns    (* a double constant written `-+x` while the generator parses with f64::from_str *)
                     | PCFloatExp.     (* an exponent with several `-` signs or 0x digits while the generator parses with f64::from_str *)

Definition is_int_cty (ty : cty) : bool := match ty with CI8 | CI16 | CI32 | CI64 => true | _ => false end.
Definition is_str_cty (ty : cty) : bool := match ty with CStr => true | _ => false end.
Definition is_faststr_cty (ty : cty) : bool := match ty with CFastStr => true | _ => false end.

Definition first_class {A} (f : A -> option pclass) : list A -> option pclass :=
  fix go (l : list A) : option pclass :=
    match l with
    | [] => None
    | x :: r => match f x with Some c => Some c | None => go r end
    end.

Section Class.
  Variable S : lschema.

  Definition is_string_cty (ty : cty) : bool := match ty with CString => true | _ => false end.
  Definition is_arc_cty (ty : cty) : bool := match ty with CArc _ => true | _ => false end.

  (* may the path, whose CodegenTy is [it], be used at [ty]?  Syntactically the target, or the type at the end of the target's
     typedef chain, or one of the conversions of ident_into_ty there.  (A const whose type is a typedef strictly inside
     the chain is accepted by the generator too; it is left out of this sufficient condition.) *)
  Definition path_ok (it ty : cty) : bool :=
    let fin := peel S (pfuel S) ty in
    cty_eqb it ty || (cty_eqb it fin && negb (is_arc_cty fin)) || (is_str_cty it && (is_faststr_cty fin || is_string_cty fin))
    || (match ckind S it with Some CPAdtEnum => is_int_cty fin | _ => false end).

  (* [en]: is the literal looked at by lit_as_rvalue (true) or by lit_into_ty only (false: map keys, elements of a const Array,
     the definition of a const that is no lazy static) *)
  Fixpoint pclass_into (en : bool) (l : lit) (ty : cty) {struct l} : option pclass :=
    match l with
    | LMember e _ => if path_ok (CAdt e) ty then None else Some PCPathConvert
    | LConst c =>
        match ident_ty_of_const S c with
        | Some it => if path_ok it ty then None else Some PCPathConvert
        | None => Some PCDangling
        end
    | _ =>
        match (match l with
               | LFloat s => if float_exp_plain s && float_sign_plain s then None
                             else Some (if float_exp_plain s then PCFloatSigns else PCFloatExp)
               | _ => None
               end) with
        | Some c => Some c
        | None =>
        match peel S (pfuel S) ty with
        | CArc _ => Some PCNoArm
        | CMap kt vt | CBTreeMap kt vt =>
            if en || is_nt S ty then
              match l with
              | LMap m =>
                  (fix go (m : list (lit * lit)) : option pclass :=
                     match m with
                     | [] => None
                     | (k, v) :: r =>
                         match pclass_into false k kt with
                         | Some c => Some c
                         | None => match pclass_into true v vt with Some c => Some c | None => go r end
                         end
                     end) m
              | _ => None
              end
            else Some PCNestedMap
        | CStaticRef _ | CLazyStaticRef _ => Some PCConstContainer
        | CVec inner | CSet inner | CBTreeSet inner =>
            match l with
            | LList els =>
                (fix go (els : list lit) : option pclass :=
                   match els with
                   | [] => None
                   | x :: r => match pclass_into true x inner with Some c => Some c | None => go r end
                   end) els
            | LString _ => Some PCNoArm
            | _ => None
            end
        | CArray inner =>
            match l with
            | LList els =>
                (fix go (els : list lit) : option pclass :=
                   match els with
                   | [] => None
                   | x :: r => match pclass_into false x inner with Some c => Some c | None => go r end
                   end) els
            | _ => None
            end
        | CAdt n =>
            match l, item S n with
            | LMap m, Some (IStruct fs _ _) =>
                (* every value, at the type of every member its key names *)
                (fix go (m : list (lit * lit)) : option pclass :=
                   match m with
                   | [] => None
                   | (k, v) :: r =>
                       match
                         (match k with
                          | LString s =>
                              (fix over (fs : list lfield) : option pclass :=
                                 match fs with
                                 | [] => None
                                 | f :: fr =>
                                     match (if bytes_eqb s (lf_name f) then pclass_into true v (item_cty (lf_ty f)) else None) with
                                     | Some c => Some c
                                     | None => over fr
                                     end
                                 end) fs
                          | _ => None
                          end)
                       with
                       | Some c => Some c
                       | None => go r
                       end
                   end) m
            | _, _ => None
            end
        | _ => None
        end
        end
    end.

  (* at the top of a default: lit_as_rvalue *)
  Definition pclass_top (l : lit) (ty : cty) : option pclass := pclass_into true l ty.

  (* a const whose codegen type is the one a field of the same IDL type has (scalars, binary, enums, structs, typedefs)
     or a string: the consts a default can refer to without PCPathConvert *)
  Definition is_string_rty (t : rty) : bool := match t with RString | RFastStr => true | _ => false end.
  Definition const_simple (c : nat) : bool :=
    match nth_error (ls_consts S) c, ident_ty_of_const S c with
    | Some (ct, _), Some it => cty_eqb it (item_cty ct) || is_string_rty ct
    | _, _ => false
    end.

  (* the generator does not meet a panic class on any field default, nor in the definition of a simple const *)
  Definition item_class_free (i : litem) : bool :=
    match i with
    | IStruct fs _ _ =>
        forallb (fun f => match lf_dflt f with
                          | Some l => match pclass_top l (item_cty (lf_ty f)) with None => true | Some _ => false end
                          | None => true
                          end) fs
    | _ => true
    end.
  Definition const_class_free (c : nat) : bool :=
    if const_simple c then
      match nth_error (ls_consts S) c, ident_ty_of_const S c with
      | Some (_, l), Some it => match pclass_into (should_lazy_static S it) l it with None => true | Some _ => false end
      | _, _ => false
      end
    else true.
  Definition class_free_schema : bool :=
    forallb item_class_free (ls_items S) && forallb const_class_free (seq 0 (length (ls_consts S))).
End Class.
