(* Mirror of pilota-thrift-parser/src/descriptor/*.rs.
   Arc<str> / String / Ident / Literal are byte lists; IntConstant(i64) is a Z (the parser only produces
   values in [-i64::MAX, i64::MAX]); DoubleConstant(Arc<str>) is the recognised source text -- the parser
   never converts it to f64 (the map_res closure of DoubleConstant::parse is infallible and keeps the
   text), so no floating-point rounding is modelled anywhere; File.path (filled in by the caller) is not
   modelled. *)
From PV Require Export Base.Bytes.
Open Scope Z_scope.

Definition str := list byte.

Definition Ident := str.
Definition Literal := str.
Definition Path := list Ident.                       (* Path { segments } *)

Record Annotation := mkAnnotation { a_key : str; a_value : Literal }.
Definition Annotations := list Annotation.

Inductive Ty :=
| TString | TVoid | TByte | TBool | TBinary | TI8 | TI16 | TI32 | TI64 | TDouble | TUuid
| TList (value : Type_) (cpp_type : option Literal)
| TSet (value : Type_) (cpp_type : option Literal)
| TMap (key value : Type_) (cpp_type : option Literal)
| TPath (p : Path)
with Type_ :=
| MkType (ty : Ty) (anns : Annotations).

Inductive ConstValue :=
| CBool (b : bool)
| CPath (p : Path)
| CString (l : Literal)
| CInt (z : Z)
| CDouble (text : str)
| CList (l : list ConstValue)
| CMap (l : list (ConstValue * ConstValue)).

Inductive Attribute := AOptional | ARequired | ADefault.

Record Field := mkField {
  f_id : Z;                         (* i32 *)
  f_name : Ident;
  f_attribute : Attribute;
  f_ty : Type_;
  f_default : option ConstValue;
  f_annotations : Annotations }.

Record StructLike := mkStructLike { s_name : Ident; s_fields : list Field; s_annotations : Annotations }.

Record EnumValue := mkEnumValue { ev_name : Ident; ev_value : option Z; ev_annotations : Annotations }.
Record Enum := mkEnum { e_name : Ident; e_values : list EnumValue; e_annotations : Annotations }.

Record Function := mkFunction {
  fn_name : Ident;
  fn_oneway : bool;
  fn_result_type : Type_;
  fn_arguments : list Field;
  fn_throws : list Field;
  fn_annotations : Annotations }.

Record Service := mkService {
  sv_name : Ident;
  sv_extends : option Path;
  sv_functions : list Function;
  sv_annotations : Annotations }.

Record Namespace := mkNamespace { ns_scope : str; ns_name : Path; ns_annotations : option Annotations }.
Record Typedef := mkTypedef { td_type : Type_; td_alias : Ident; td_annotations : Annotations }.
Record Constant := mkConstant { c_name : Ident; c_type : Type_; c_value : ConstValue; c_annotations : Annotations }.

Inductive Item :=
| IInclude (path : Literal)
| ICppInclude (path : Literal)
| INamespace (n : Namespace)
| ITypedef (t : Typedef)
| IConstant (c : Constant)
| IEnum (e : Enum)
| IStruct (s : StructLike)
| IUnion (s : StructLike)
| IException (s : StructLike)
| IService (s : Service).

(* File { package, items } ([path] is set by the caller after parsing) *)
Record File := mkFile { file_package : option Path; file_items : list Item }.
