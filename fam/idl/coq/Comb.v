(* Gallina versions of the nom 7.1.3 combinators used by pilota-thrift-parser, over [list byte] input.

   Written from the nom source (~/.cargo/registry/src/*/nom-7.1.3/src/{bytes,character}/complete.rs,
   combinator/mod.rs, branch/mod.rs, sequence/mod.rs, multi/mod.rs, traits.rs, error.rs) for the
   instantiation  Input = &str,  Error = nom::error::Error<&str>.

   * Result: nom's three-way IResult -- [POk rest value] / [PErr] (Err::Error, recoverable: alt, opt,
     many0 ... backtrack on it) / [PFail] (Err::Failure, propagates through everything) -- plus [PPanic]
     (a Rust panic, e.g. an unwrap on a conversion) and [PFuel] (model artefact, shown unreachable).
     An error carries what nom::error::Error carries: the input at the error position (compared by its
     length in the correspondence) and the ErrorKind.  [ParseError::append] and [ParseError::or] of
     that error type return the inner / the later error, hence [alt] yields the error of its last
     alternative and many1 / many_till / permutation yield the error of the embedded parser.
   * Input is a byte list.  A Rust &str is valid UTF-8; the model is total on all byte lists (a superset).
     Char-level primitives whose character sets are ASCII ([one_of], [none_of], [satisfy] with an ASCII
     predicate, the [take_*] / [*digit1] / [multispace1] families) are modelled byte-wise: on valid UTF-8
     they behave identically, because every byte of a multi-byte character is >= 0x80 and is therefore
     treated like the character itself (not in an ASCII set / not matching an ASCII predicate), and all the
     loops that embed them ([escaped]) only observe the position after the whole character.
     The one predicate that is not ASCII, [char::is_alphanumeric], decodes a UTF-8 scalar ([utf8_head]) and
     looks it up in the table regenerated from the toolchain (Generated/IdlUnicode.v).
   * Loops ([many0], [many1], [many0_count], [many_till], [separated_list1], [escaped]) take loop fuel;
     every iteration consumes at least one byte (nom checks it at run time and returns an error
     otherwise), so fuel > length input never runs out (Proofs/Total.v). *)
From PV Require Export Base.Bytes.
From PVIdl Require Export Generated.IdlUnicode.
Open Scope Z_scope.

Definition input := list byte.

Inductive ekind :=
| KTag | KMapRes | KAlt | KSeparatedList | KMany0 | KMany1 | KManyTill | KMany0Count | KTakeUntil
| KDigit | KHexDigit | KMultiSpace | KEof | KOneOf | KNoneOf | KEscaped | KNot | KPermutation
| KSatisfy | KFail.

Inductive fuelkind := FLoop | FDepth.

(* where Rust code can panic: Result::unwrap on a failed conversion, an arithmetic negation that overflows (debug build),
   a slice &s[a..b] with a > b, b > len or an end that is not on a char boundary *)
Inductive psite := SiteUnwrap | SiteNeg | SiteSlice.

Inductive pres (A : Type) : Type :=
| POk (rest : input) (a : A)
| PErr (at_ : input) (k : ekind)      (* nom::Err::Error *)
| PFail (at_ : input) (k : ekind)     (* nom::Err::Failure *)
| PPanic (s : psite)
| PFuel (f : fuelkind).
Arguments POk {A} rest a.
Arguments PErr {A} at_ k.
Arguments PFail {A} at_ k.
Arguments PPanic {A} s.
Arguments PFuel {A} f.

Definition parser (A : Type) := input -> pres A.

Definition pbind {A B} (r : pres A) (f : input -> A -> pres B) : pres B :=
  match r with
  | POk i a => f i a
  | PErr i k => PErr i k
  | PFail i k => PFail i k
  | PPanic s => PPanic s
  | PFuel f => PFuel f
  end.

(* [do i, x <- p i ;; k]  is Rust's  [let (i, x) = p(i)?; k]  (and one component of a [tuple((..))]) *)
Notation "'do' i , x <- r ;; k" := (pbind r (fun i x => k))
  (at level 200, i name, x pattern, r at level 100, k at level 200, right associativity).

Definition pmap {A B} (f : A -> B) (p : parser A) : parser B :=
  fun i => do i, a <- p i ;; POk i (f a).

(* ---------- bytes and classes ---------- *)

Definition bn (b : byte) : N := Byte.to_N b.

Definition between (lo hi : N) (b : byte) : bool := (N.leb lo (bn b)) && (N.leb (bn b) hi).

Definition is_digit (b : byte) : bool := between 48 57 b.
Definition is_upper (b : byte) : bool := between 65 90 b.
Definition is_lower (b : byte) : bool := between 97 122 b.
Definition is_alpha (b : byte) : bool := is_upper b || is_lower b.           (* char::is_ascii_alphabetic *)
Definition is_alnum (b : byte) : bool := is_alpha b || is_digit b.           (* char::is_ascii_alphanumeric *)
Definition is_hexdigit (b : byte) : bool := is_digit b || between 65 70 b || between 97 102 b.
Definition is_space (b : byte) : bool :=                                     (* nom multispace: ' ' \t \r \n *)
  let n := bn b in (N.eqb n 32) || (N.eqb n 9) || (N.eqb n 13) || (N.eqb n 10).
Definition is_underscore (b : byte) : bool := N.eqb (bn b) 95.
Definition is_dot (b : byte) : bool := N.eqb (bn b) 46.

Fixpoint bmem (b : byte) (s : list byte) : bool :=
  match s with
  | [] => false
  | c :: s' => Byte.eqb b c || bmem b s'
  end.

(* traits.rs lowercase of ASCII letters; used by tag_no_case (see the note there) *)
Definition lower_ascii (b : byte) : byte :=
  if is_upper b then match Byte.of_N (bn b + 32) with Some c => c | None => b end else b.

Definition is_nil {A} (l : list A) : bool := match l with [] => true | _ => false end.

(* InputLength comparisons [i1.input_len() == len] without computing lengths *)
Fixpoint same_len {A} (a b : list A) : bool :=
  match a, b with
  | [], [] => true
  | _ :: a', _ :: b' => same_len a' b'
  | _, _ => false
  end.

(* [input.offset(&rest)] followed by [input.slice(..index)]: the prefix of [i] that was consumed to reach
   its suffix [rest] *)
Fixpoint drop_len {A B} (r : list A) (i : list B) : list B :=
  match r, i with
  | _ :: r', _ :: i' => drop_len r' i'
  | _, _ => i
  end.
Fixpoint take_len {A B} (k : list A) (i : list B) : list B :=
  match k, i with
  | _ :: k', b :: i' => b :: take_len k' i'
  | _, _ => []
  end.
Definition consumed (i rest : input) : list byte := take_len (drop_len rest i) i.

(* ---------- bytes::complete ---------- *)

Fixpoint strip_prefix (t i : list byte) : option input :=
  match t with
  | [] => Some i
  | c :: t' =>
    match i with
    | [] => None
    | b :: i' => if Byte.eqb b c then strip_prefix t' i' else None
    end
  end.

(* tag: compare bytes; CompareResult::Incomplete (input shorter than the tag) is an Error too *)
Definition tag (t : list byte) : parser (list byte) :=
  fun i => match strip_prefix t i with
           | Some r => POk r t
           | None => PErr i KTag
           end.

(* tag_no_case on &str compares [char::to_lowercase] expansions char by char and then splits at
   [tag.len()] bytes.  The only tag used is "e"; the model compares ASCII-lowercased bytes, which is the same
   function provided no other char lowercases to "e" (checked exhaustively by the harness selftest). *)
Fixpoint strip_prefix_nc (t i : list byte) : option (list byte * input) :=
  match t with
  | [] => Some ([], i)
  | c :: t' =>
    match i with
    | [] => None
    | b :: i' =>
      if Byte.eqb (lower_ascii b) (lower_ascii c)
      then match strip_prefix_nc t' i' with Some (m, r) => Some (b :: m, r) | None => None end
      else None
    end
  end.

Definition tag_no_case (t : list byte) : parser (list byte) :=
  fun i => match strip_prefix_nc t i with
           | Some (m, r) => POk r m
           | None => PErr i KTag
           end.

(* split_at_position_complete: longest prefix satisfying [cond] (possibly empty), never fails *)
Fixpoint span (cond : byte -> bool) (i : input) : list byte * input :=
  match i with
  | [] => ([], [])
  | b :: i' => if cond b then let '(p, r) := span cond i' in (b :: p, r) else ([], i)
  end.

Definition take_while (cond : byte -> bool) : parser (list byte) :=
  fun i => let '(p, r) := span cond i in POk r p.

Definition take_till (stop : byte -> bool) : parser (list byte) :=
  take_while (fun b => negb (stop b)).

(* split_at_position1_complete: the prefix must be non-empty *)
Definition span1 (cond : byte -> bool) (k : ekind) : parser (list byte) :=
  fun i => let '(p, r) := span cond i in
           if is_nil p then PErr i k else POk r p.

Definition digit1 := span1 is_digit KDigit.
Definition hex_digit1 := span1 is_hexdigit KHexDigit.
Definition multispace1 := span1 is_space KMultiSpace.

(* take_until(t): everything before the first occurrence of t (not consumed) *)
Fixpoint find_sub (t : list byte) (i : input) : option (list byte * input) :=
  match strip_prefix t i with
  | Some _ => Some ([], i)
  | None =>
    match i with
    | [] => None
    | b :: i' => match find_sub t i' with Some (p, r) => Some (b :: p, r) | None => None end
    end
  end.

Definition take_until (t : list byte) : parser (list byte) :=
  fun i => match find_sub t i with
           | Some (p, r) => POk r p
           | None => PErr i KTakeUntil
           end.

(* ---------- character::complete ---------- *)

(* satisfy with a predicate that is false on every non-ASCII char *)
Definition satisfy_b (cond : byte -> bool) : parser byte :=
  fun i => match i with
           | b :: r => if cond b then POk r b else PErr i KSatisfy
           | [] => PErr i KSatisfy
           end.

Definition one_of (set : list byte) : parser byte :=
  fun i => match i with
           | b :: r => if bmem b set then POk r b else PErr i KOneOf
           | [] => PErr i KOneOf
           end.

Definition none_of (set : list byte) : parser byte :=
  fun i => match i with
           | b :: r => if bmem b set then PErr i KNoneOf else POk r b
           | [] => PErr i KNoneOf
           end.

(* first UTF-8 scalar of the input and what follows it.  Ill-formed sequences (impossible in a &str) decode
   as U+FFFD over one byte. *)
Definition cont_bits (b : byte) : option N :=
  let n := bn b in if (N.leb 128 n) && (N.ltb n 192) then Some (n - 128)%N else None.

Definition utf8_head (i : input) : option (N * input) :=
  match i with
  | [] => None
  | b0 :: r =>
    let n0 := bn b0 in
    let bad := Some (65533%N, r) in
    if N.ltb n0 128 then Some (n0, r)
    else if N.ltb n0 192 then bad
    else if N.ltb n0 224 then
      match r with
      | b1 :: r1 => match cont_bits b1 with
                    | Some c1 => Some (((n0 - 192) * 64 + c1)%N, r1)
                    | None => bad end
      | _ => bad
      end
    else if N.ltb n0 240 then
      match r with
      | b1 :: b2 :: r2 => match cont_bits b1, cont_bits b2 with
                          | Some c1, Some c2 => Some ((((n0 - 224) * 64 + c1) * 64 + c2)%N, r2)
                          | _, _ => bad end
      | _ => bad
      end
    else
      match r with
      | b1 :: b2 :: b3 :: r3 => match cont_bits b1, cont_bits b2, cont_bits b3 with
                                | Some c1, Some c2, Some c3 =>
                                  Some (((((n0 - 240) * 64 + c1) * 64 + c2) * 64 + c3)%N, r3)
                                | _, _, _ => bad end
      | _ => bad
      end
  end.

Fixpoint in_ranges (cp : N) (rs : list (N * N)) : bool :=
  match rs with
  | [] => false
  | (lo, hi) :: rs' => if N.ltb cp lo then false else if N.leb cp hi then true else in_ranges cp rs'
  end.

(* char::is_alphanumeric : ASCII letters and digits, and the regenerated table above 0x7f
   (the table is sorted, [in_ranges] stops at the first range beyond cp) *)
Definition is_alphanumeric_cp (cp : N) : bool :=
  if N.ltb cp 128 then
    ((N.leb 48 cp) && (N.leb cp 57)) || ((N.leb 65 cp) && (N.leb cp 90)) || ((N.leb 97 cp) && (N.leb cp 122))
  else in_ranges cp unicode_alnum_ranges.

(* satisfy with a predicate on Unicode scalars *)
Definition satisfy_c (cond : N -> bool) : parser N :=
  fun i => match utf8_head i with
           | Some (cp, r) => if cond cp then POk r cp else PErr i KSatisfy
           | None => PErr i KSatisfy
           end.

(* ---------- combinator ---------- *)

Definition opt {A} (p : parser A) : parser (option A) :=
  fun i => match p i with
           | POk r a => POk r (Some a)
           | PErr _ _ => POk i None
           | PFail r k => PFail r k
           | PPanic s => PPanic s
           | PFuel f => PFuel f
           end.

Definition peek {A} (p : parser A) : parser A :=
  fun i => match p i with
           | POk _ a => POk i a
           | e => e
           end.

Definition not_ {A} (p : parser A) : parser unit :=
  fun i => match p i with
           | POk _ _ => PErr i KNot
           | PErr _ _ => POk i tt
           | PFail r k => PFail r k
           | PPanic s => PPanic s
           | PFuel f => PFuel f
           end.

Definition recognize {A} (p : parser A) : parser (list byte) :=
  fun i => match p i with
           | POk r _ => POk r (consumed i r)
           | PErr r k => PErr r k
           | PFail r k => PFail r k
           | PPanic s => PPanic s
           | PFuel f => PFuel f
           end.

(* map_res: a failed conversion is an Error at the position where the embedded parser started *)
Definition map_res {A B} (p : parser A) (f : A -> option B) : parser B :=
  fun i => match p i with
           | POk r a => match f a with Some b => POk r b | None => PErr i KMapRes end
           | PErr r k => PErr r k
           | PFail r k => PFail r k
           | PPanic s => PPanic s
           | PFuel f => PFuel f
           end.

(* map(p, |x| f(x).unwrap()): a failed conversion panics (pinned field-id clause, Proofs/Pinned.v) *)
Definition map_unwrap {A B} (p : parser A) (f : A -> option B) : parser B :=
  fun i => match p i with
           | POk r a => match f a with Some b => POk r b | None => PPanic SiteUnwrap end
           | PErr r k => PErr r k
           | PFail r k => PFail r k
           | PPanic s => PPanic s
           | PFuel f => PFuel f
           end.

Definition eof : parser (list byte) :=
  fun i => match i with [] => POk i [] | _ => PErr i KEof end.

(* ---------- branch ---------- *)

(* alt((p1, .., pn)): first parser that does not return Error; if all do, the last error *)
Fixpoint alt {A} (ps : list (parser A)) : parser A :=
  fun i => match ps with
           | [] => PErr i KAlt
           | [p] => p i
           | p :: ps' => match p i with
                         | PErr _ _ => alt ps' i
                         | r => r
                         end
           end.

(* permutation((p, q)): repeatedly apply the first not-yet-successful parser that succeeds *)
Definition permutation2 {A B} (p : parser A) (q : parser B) : parser (A * B) :=
  fun i => match p i with
           | POk i1 a => (* continue; res.0 set; only q remains *)
             do i2, b <- q i1 ;; POk i2 (a, b)
           | PErr _ _ =>
             match q i with
             | POk i1 b => (* continue; only p remains *)
               do i2, a <- p i1 ;; POk i2 (a, b)
             | PErr r k => PErr r k      (* err = e1.or(e2) = e2 *)
             | PFail r k => PFail r k
             | PPanic s => PPanic s
             | PFuel f => PFuel f
             end
           | PFail r k => PFail r k
           | PPanic s => PPanic s
           | PFuel f => PFuel f
           end.

(* ---------- multi ---------- *)

Fixpoint many0 {A} (fuel : nat) (p : parser A) (i : input) : pres (list A) :=
  match fuel with
  | O => PFuel FLoop
  | S f =>
    match p i with
    | PErr _ _ => POk i []
    | POk i1 a =>
      if same_len i1 i then PErr i KMany0
      else do r, l <- many0 f p i1 ;; POk r (a :: l)
    | PFail r k => PFail r k
    | PPanic s => PPanic s
    | PFuel f => PFuel f
    end
  end.

(* the loop of many1 after its first element: like many0 with ErrorKind::Many1 *)
Fixpoint many1_loop {A} (fuel : nat) (p : parser A) (i : input) : pres (list A) :=
  match fuel with
  | O => PFuel FLoop
  | S f =>
    match p i with
    | PErr _ _ => POk i []
    | POk i1 a =>
      if same_len i1 i then PErr i KMany1
      else do r, l <- many1_loop f p i1 ;; POk r (a :: l)
    | PFail r k => PFail r k
    | PPanic s => PPanic s
    | PFuel f => PFuel f
    end
  end.

Definition many1 {A} (fuel : nat) (p : parser A) : parser (list A) :=
  fun i => match p i with
           | POk i1 a => do r, l <- many1_loop fuel p i1 ;; POk r (a :: l)   (* no progress check on the first *)
           | PErr r k => PErr r k
           | PFail r k => PFail r k
           | PPanic s => PPanic s
           | PFuel f => PFuel f
           end.

Fixpoint many0_count {A} (fuel : nat) (p : parser A) (i : input) : pres nat :=
  match fuel with
  | O => PFuel FLoop
  | S f =>
    match p i with
    | PErr _ _ => POk i O
    | POk i1 _ =>
      if same_len i1 i then PErr i KMany0Count
      else do r, n <- many0_count f p i1 ;; POk r (S n)
    | PFail r k => PFail r k
    | PPanic s => PPanic s
    | PFuel f => PFuel f
    end
  end.

(* many_till(f, g): g is tried first at every round *)
Fixpoint many_till {A B} (fuel : nat) (f : parser A) (g : parser B) (i : input) : pres (list A * B) :=
  match fuel with
  | O => PFuel FLoop
  | S n =>
    match g i with
    | POk i1 b => POk i1 ([], b)
    | PErr _ _ =>
      match f i with
      | PErr r k => PErr r k
      | POk i1 a =>
        if same_len i1 i then PErr i1 KManyTill
        else do r, lb <- many_till n f g i1 ;; POk r (a :: fst lb, snd lb)
      | PFail r k => PFail r k
      | PPanic s => PPanic s
      | PFuel x => PFuel x
      end
    | PFail r k => PFail r k
    | PPanic s => PPanic s
    | PFuel x => PFuel x
    end
  end.

(* separated_list1(sep, f): the loop after the first element.  An Error of [sep], or of [f] after a
   separator, ends the list *before* that separator. *)
Fixpoint sep_loop {A B} (fuel : nat) (sep : parser B) (f : parser A) (i : input) : pres (list A) :=
  match fuel with
  | O => PFuel FLoop
  | S n =>
    match sep i with
    | PErr _ _ => POk i []
    | POk i1 _ =>
      if same_len i1 i then PErr i1 KSeparatedList
      else match f i1 with
           | PErr _ _ => POk i []
           | POk i2 a => do r, l <- sep_loop n sep f i2 ;; POk r (a :: l)
           | PFail r k => PFail r k
           | PPanic s => PPanic s
           | PFuel x => PFuel x
           end
    | PFail r k => PFail r k
    | PPanic s => PPanic s
    | PFuel x => PFuel x
    end
  end.

Definition separated_list1 {A B} (fuel : nat) (sep : parser B) (f : parser A) : parser (list A) :=
  fun i => do i1, a <- f i ;; do r, l <- sep_loop fuel sep f i1 ;; POk r (a :: l).

(* bytes::complete::escaped(normal, control_char, escapable).  [inp] is the input the combinator was
   called on (results are slices of it), [i] the current position. *)
Fixpoint escaped_loop {A B} (fuel : nat) (normal : parser A) (ctrl : byte) (escapable : parser B)
         (inp i : input) : pres (list byte) :=
  match fuel with
  | O => PFuel FLoop
  | S f =>
    match i with
    | [] => POk [] inp                          (* while i.input_len() > 0 *)
    | b :: tl =>
      match normal i with
      | POk i2 _ =>
        if is_nil i2 then POk [] inp            (* consumed everything *)
        else if same_len i2 i then POk i2 (consumed inp i2)   (* normal consumed nothing *)
        else escaped_loop f normal ctrl escapable inp i2
      | PErr _ _ =>
        if Byte.eqb b ctrl then
          match tl with
          | [] => PErr inp KEscaped              (* next >= i.input_len() *)
          | _ =>
            match escapable tl with
            | POk i2 _ => if is_nil i2 then POk [] inp else escaped_loop f normal ctrl escapable inp i2
            | PErr r k => PErr r k
            | PFail r k => PFail r k
            | PPanic s => PPanic s
            | PFuel x => PFuel x
            end
          end
        else if same_len i inp then PErr inp KEscaped          (* index == 0 *)
        else POk i (consumed inp i)
      | PFail r k => PFail r k
      | PPanic s => PPanic s
      | PFuel x => PFuel x
      end
    end
  end.

Definition escaped {A B} (fuel : nat) (normal : parser A) (ctrl : byte) (escapable : parser B)
  : parser (list byte) :=
  fun i => escaped_loop fuel normal ctrl escapable i i.

(* ---------- numeric conversions (str::parse::<i64>, i64::from_str_radix(_, 16), str::parse::<i32>) on a
   non-empty string of ASCII digits: the value if it fits, an error otherwise; leading zeros are fine ---------- *)

Definition digit_val (b : byte) : Z :=
  let n := Z.of_N (bn b) in
  if is_digit b then n - 48
  else if between 65 70 b then n - 55
  else if between 97 102 b then n - 87
  else 0.

(* Rust accumulates with checked_mul / checked_add and stops with an error at the first overflow; the
   accumulator never decreases, so stopping early is the same as comparing the final value *)
Fixpoint digits_val (radix max : Z) (acc : Z) (ds : list byte) : option Z :=
  match ds with
  | [] => Some acc
  | d :: ds' =>
    let v := acc * radix + digit_val d in
    if v <=? max then digits_val radix max v ds' else None
  end.

Definition i64_max : Z := 9223372036854775807.
Definition i64_min : Z := -9223372036854775808.

(* ---------- partial operations: the panic-capable operations of the parser files, with their preconditions ----------
   [-v] on an i64 (debug build: "attempt to negate with overflow" for i64::MIN) *)
Definition checked_neg (v : Z) : option Z := if Z.eqb v i64_min then None else Some (- v).
(* [&s[a..b]] on a &str: a <= b <= len and both ends on char boundaries (a byte 10xxxxxx continues a character) *)
Definition is_cont (b : byte) : bool := between 128 191 b.
Definition boundary (i : input) (n : nat) : bool :=
  match skipn n i with [] => Nat.leb n (length i) | b :: _ => negb (is_cont b) end.
Definition slice_p (i : input) (a b : nat) : option input :=
  if Nat.leb a b && Nat.leb b (length i) && boundary i a && boundary i b then Some (firstn (b - a) (skipn a i)) else None.
Definition i32_max : Z := 2147483647.

Definition parse_unsigned (radix max : Z) (ds : list byte) : option Z := digits_val radix max 0 ds.
