(* Specification side of C20's literal theorems: the MEANING of a Thrift IDL constant / default value at a Thrift
   type, written from the Thrift IDL semantics (Apache Thrift IDL document, "Constant values"; the behaviour of the
   Apache compiler's generated constructors) and NOT from pilota-build/src/middle/context.rs:

     * an integer at an integer type is that integer (it must fit); at `bool` it is true iff non-zero; at `double`
       it is the double nearest to it (ties to even; exact below 2^53);
     * a double constant at `double` is the double nearest to the decimal text ([parse_f64], the Section variable the
       model Lit.v shares: decimal -> binary64 is not re-implemented here);
     * a string at `string` / `binary` is its bytes with the IDL escapes resolved;
     * an enum-typed value is written as the qualified member name or as the declared number of a member; a member
       name at an integer type is its number;
     * a reference to a constant is the constant's value; the constant's type must be the target's, or both must resolve
       (typedefs at the top) to the same type; a constant of enum type may also be used as its number at an integer type;
     * `[..]` at list / set, `{k: v, ..}` at map (and `[]` for the empty map), element by element;
     * `{"field": v, ..}` at a struct: named members get their values, an optional member that is not named stays
       unset, a required member that is not named holds its type's empty value;
     * a typedef is its target; annotations (pilota.rust_type, rust_wrapper_arc) do not change the meaning.

   [lit_value] returns None on anything ill-typed, so "well-typed" is "has a value" (well_typed_lit).
   pv/gengen.py `lit_value` / `expected_default` is a second, independent implementation of the same semantics; the
   check compares the two and the emitted code on every default of the corpus.
   Executable Gallina only (no proofs). *)
From PVGen Require Export Lit.
Open Scope Z_scope.

(* ---------- escapes of IDL string literals ---------- *)
Definition idl_escape (n : byte) : option byte :=
  if byte_eqb n x6e then Some x0a            (* \n *)
  else if byte_eqb n x74 then Some x09       (* \t *)
  else if byte_eqb n x72 then Some x0d       (* \r *)
  else if byte_eqb n bslash then Some bslash
  else if byte_eqb n dquote then Some dquote
  else if byte_eqb n x27 then Some x27
  else None.

Fixpoint idl_unescape (s : list byte) : option (list byte) :=
  match s with
  | [] => Some []
  | c :: r =>
      if byte_eqb c bslash then
        match r with
        | n :: r' =>
            match idl_escape n, idl_unescape r' with
            | Some b, Some t => Some (b :: t)
            | _, _ => None
            end
        | [] => None
        end
      else match idl_unescape r with Some t => Some (c :: t) | None => None end
  end.

(* ---------- integer -> double ---------- *)
(* the double nearest to a natural number, by its two neighbours on the binary64 grid *)
Definition nearest53 (n : Z) : Z :=
  if n <? 2 ^ 53 then n
  else
    let ulp := 2 ^ (Z.log2 n - 52) in
    let lo := n - n mod ulp in
    let hi := lo + ulp in
    if 2 * (n - lo) <? ulp then lo
    else if ulp <? 2 * (n - lo) then hi
    else if Z.even (lo / ulp) then lo else hi.

(* IEEE 754 binary64 interchange format of a non-zero integer that is a double: sign, biased exponent, fraction *)
Definition ieee_bits (v : Z) : Z :=
  if v =? 0 then 0
  else
    let a := Z.abs v in
    let e := Z.log2 a in
    (if v <? 0 then 1 else 0) * 2 ^ 63 + (e + 1023) * 2 ^ 52 + ((a * 2 ^ 52) / 2 ^ e - 2 ^ 52).

Definition int_to_double (i : Z) : Z := ieee_bits (Z.sgn i * nearest53 (Z.abs i)).

(* ---------- types up to typedefs ---------- *)
Section Spec.
  Variable parse_f64 : list byte -> option Z.
  Variable S : lschema.

  Definition sitem (n : nat) : option litem := nth_error (ls_items S) n.

  Fixpoint sresolve_n (fuel : nat) (t : ty) : ty :=
    match fuel with
    | O => t
    | Datatypes.S f =>
        match t with
        | TyRef n => match sitem n with Some (INewType a) => sresolve_n f (erase a) | _ => t end
        | _ => t
        end
    end.
  Definition sresolve : ty -> ty := sresolve_n (Datatypes.S (length (ls_items S))).

  Fixpoint ty_eqb (a b : ty) : bool :=
    match a, b with
    | TyBool, TyBool | TyI8, TyI8 | TyI16, TyI16 | TyI32, TyI32 | TyI64, TyI64 | TyDouble, TyDouble | TyString, TyString
    | TyBinary, TyBinary | TyUuid, TyUuid | TyVoid, TyVoid => true
    | TyList x, TyList y | TySet x, TySet y => ty_eqb x y
    | TyMap x1 x2, TyMap y1 y2 => ty_eqb x1 y1 && ty_eqb x2 y2
    | TyRef n, TyRef m => Nat.eqb n m
    | _, _ => false
    end.

  (* a type whose typedefs could not be resolved (cyclic typedefs, dangling reference): nothing is well-typed at it *)
  Definition unresolved (t : ty) : bool :=
    match t with
    | TyRef n => match sitem n with Some (INewType _) | None => true | _ => false end
    | _ => false
    end.

  Definition int_at (t : ty) (z : Z) : option gval :=
    match t with
    | TyI8 => if in_sb 8 z then Some (GI8 z) else None
    | TyI16 => if in_sb 16 z then Some (GI16 z) else None
    | TyI32 => if in_sb 32 z then Some (GI32 z) else None
    | TyI64 => if in_sb 64 z then Some (GI64 z) else None
    | _ => None
    end.

  Section Val.
    Variable cv : nat -> option gval.        (* the value of constant c *)
    Variable empty : ty -> option gval.      (* the empty value of a type *)

    Fixpoint lit_value (l : lit) (t : ty) {struct l} : option gval :=
      match l with
      | LConst c =>
          match nth_error (ls_consts S) c with
          | Some (ct, _) =>
              let rt := sresolve t in
              let rc := sresolve (erase ct) in
              if unresolved rt then None
              else if ty_eqb (erase ct) t || ty_eqb rc rt
              then cv c                                  (* the same type, or the same type once the typedefs at the top are resolved *)
              else
                (* a constant of enum type used as a number *)
                match rc, cv c with
                | TyRef e, Some (GEnum z) =>
                    match sitem e with Some (IEnum _) => int_at rt z | _ => None end
                | _, _ => None
                end
          | None => None
          end
      | LMember e m =>
          match sitem e with
          | Some (IEnum ms) =>
              match nth_error ms m with
              | Some z =>
                  match sresolve t with
                  | TyRef n => if Nat.eqb n e then Some (GEnum z) else None
                  | rt => int_at rt z                          (* a member name used as a number *)
                  end
              | None => None
              end
          | _ => None
          end
      | LBool b => match sresolve t with TyBool => Some (GBool b) | _ => None end
      | LInt z =>
          match sresolve t with
          | TyBool => Some (GBool (negb (z =? 0)))
          | TyDouble => if in_sb 64 z then Some (GDouble (int_to_double z)) else None
          | TyRef n =>
              match sitem n with
              | Some (IEnum ms) => if existsb (Z.eqb z) ms then Some (GEnum z) else None     (* a declared number *)
              | _ => None
              end
          | rt => int_at rt z
          end
      | LFloat s =>
          match sresolve t with
          | TyDouble => match parse_f64 (sign_norm (exp_norm s)) with Some b => Some (GDouble b) | None => None end
              (* `-+x` is -(x); the exponent is an IDL integer constant (sign parity, 0x digits): Lit.exp_norm *)
          | _ => None
          end
      | LString s =>
          match sresolve t with
          | TyString | TyBinary => match idl_unescape s with Some b => Some (GBytes b) | None => None end
          | _ => None
          end
      | LList els =>
          match sresolve t with
          | TyList et =>
              match (fix go (els : list lit) : option (list gval) :=
                       match els with
                       | [] => Some []
                       | x :: r => match lit_value x et, go r with Some a, Some b => Some (a :: b) | _, _ => None end
                       end) els with
              | Some vs => Some (GList vs)
              | None => None
              end
          | TySet et =>
              match (fix go (els : list lit) : option (list gval) :=
                       match els with
                       | [] => Some []
                       | x :: r => match lit_value x et, go r with Some a, Some b => Some (a :: b) | _, _ => None end
                       end) els with
              | Some vs => Some (GSet vs)
              | None => None
              end
          | TyMap _ _ => match els with [] => Some (GMap []) | _ => None end
          | _ => None
          end
      | LMap m =>
          match sresolve t with
          | TyMap kt vt =>
              match (fix go (m : list (lit * lit)) : option (list (gval * gval)) :=
                       match m with
                       | [] => Some []
                       | (k, v) :: r =>
                           match lit_value k kt, lit_value v vt, go r with
                           | Some a, Some b, Some c => Some ((a, b) :: c)
                           | _, _, _ => None
                           end
                       end) m with
              | Some kvs => Some (GMap kvs)
              | None => None
              end
          | TyRef n =>
              match sitem n with
              | Some (IStruct fs _ _) =>
                  (* every key is a string ... *)
                  if negb (forallb (fun kv => match fst kv with LString _ => true | _ => false end) m) then None
                  (* ... that names a member *)
                  else if negb (forallb (fun kv => match fst kv with
                                                   | LString s => existsb (fun f => bytes_eqb s (lf_name f)) fs
                                                   | _ => false
                                                   end) m) then None
                  (* ... at most once *)
                  else if negb ((fix nodup (m : list (lit * lit)) : bool :=
                                   match m with
                                   | [] => true
                                   | (k, _) :: r =>
                                       negb (existsb (fun kv => match k, fst kv with
                                                                | LString a, LString b => bytes_eqb a b
                                                                | _, _ => false
                                                                end) r) && nodup r
                                   end) m) then None
                  else
                    match (fix fields (fs : list lfield) : option (list (Z * gval)) :=
                             match fs with
                             | [] => Some []
                             | f :: r =>
                                 match
                                   (fix go (m : list (lit * lit)) : option (option gval) :=
                                      match m with
                                      | [] => Some None
                                      | (k, v) :: m' =>
                                          match k with
                                          | LString s =>
                                              if bytes_eqb s (lf_name f)
                                              then match lit_value v (erase (lf_ty f)) with Some x => Some (Some x) | None => None end
                                              else go m'
                                          | _ => None
                                          end
                                      end) m,
                                   fields r
                                 with
                                 | Some (Some x), Some rest => Some ((lf_id f, x) :: rest)
                                 | Some None, Some rest =>
                                     match lf_req f with
                                     | Optional => Some rest                       (* stays unset *)
                                     | Required => match empty (erase (lf_ty f)) with
                                                   | Some d => Some ((lf_id f, d) :: rest)
                                                   | None => None
                                                   end
                                     end
                                 | _, _ => None
                                 end
                             end) fs with
                    | Some out => Some (GStruct out [])
                    | None => None
                    end
              | _ => None
              end
          | _ => None
          end
      end.
  End Val.

  (* ---------- constants and empty values, by unfolding through the schema ---------- *)
  Inductive squery := SConst (c : nat) | SEmpty (t : ty).

  (* the empty value of a type, given the valuation of literals: zero / empty string / no elements; an enum's empty value
     is 0; a struct's: each field holds its IDL default where there is one, an optional field without default is unset, a
     required field without default holds its type's empty value; a union's: its first member, empty *)
  Section Empty.
    Variable lv : lit -> ty -> option gval.
    Variable rec : ty -> option gval.

    Definition sempty_fields : list lfield -> option (list (Z * gval)) :=
      fix fields (fs : list lfield) : option (list (Z * gval)) :=
        match fs with
        | [] => Some []
        | fd :: r =>
            match
              (match lf_dflt fd with
               | Some l => match lv l (erase (lf_ty fd)) with Some x => Some (Some x) | None => None end
               | None => match lf_req fd with
                         | Optional => Some None
                         | Required => match rec (erase (lf_ty fd)) with Some x => Some (Some x) | None => None end
                         end
               end), fields r
            with
            | Some (Some x), Some rest => Some ((lf_id fd, x) :: rest)
            | Some None, Some rest => Some rest
            | _, _ => None
            end
        end.

    Definition sempty_step (t : ty) : option gval :=
      match sresolve t with
      | TyBool => Some (GBool false)
      | TyI8 => Some (GI8 0) | TyI16 => Some (GI16 0) | TyI32 => Some (GI32 0) | TyI64 => Some (GI64 0)
      | TyDouble => Some (GDouble 0)
      | TyString | TyBinary => Some (GBytes [])
      | TyUuid => Some (GUuid (repeat x00 16))
      | TyVoid => Some GVoid
      | TyList _ => Some (GList []) | TySet _ => Some (GSet []) | TyMap _ _ => Some (GMap [])
      | TyRef n =>
          match sitem n with
          | Some (IEnum _) => Some (GEnum 0)
          | Some (IStruct fs _ _) => match sempty_fields fs with Some l => Some (GStruct l []) | None => None end
          | Some (IUnion ((id, vt) :: _) _ _) => match rec (erase vt) with Some d => Some (GUnion id d) | None => None end
          | _ => None
          end
      end.
  End Empty.

  Fixpoint sv (fuel : nat) (q : squery) : option gval :=
    match fuel with
    | O => None
    | Datatypes.S f =>
        let cv := fun c => sv f (SConst c) in
        let empty := fun t => sv f (SEmpty t) in
        match q with
        | SConst c =>
            match nth_error (ls_consts S) c with
            | Some (ct, l) => lit_value cv empty l (erase ct)
            | None => None
            end
        | SEmpty t => sempty_step (lit_value cv empty) empty t
        end
    end.

  Definition lit_value_n (fuel : nat) (t : ty) (l : lit) : option gval :=
    lit_value (fun c => sv fuel (SConst c)) (fun t => sv fuel (SEmpty t)) l t.

  (* "well-typed": the literal has a meaning at the type *)
  Definition well_typed_lit_n (fuel : nat) (t : ty) (l : lit) : bool :=
    match lit_value_n fuel t l with Some _ => true | None => false end.

  (* ---------- the expected Default value of a type, from the IDL alone ---------- *)
  (* literals valued with unfolding fuel F; nesting of by-value required fields bounded by k *)
  Fixpoint sempty_n (F : nat) (k : nat) (t : ty) : option gval :=
    match k with
    | O => None
    | Datatypes.S k' => sempty_step (fun l t => lit_value_n F t l) (sempty_n F k') t
    end.
End Spec.

Definition lit_value_top (parse_f64 : list byte -> option Z) (S : lschema) (t : ty) (l : lit) : option gval :=
  lit_value_n parse_f64 S (efuel S) t l.
Definition well_typed_lit (parse_f64 : list byte -> option Z) (S : lschema) (t : ty) (l : lit) : bool :=
  well_typed_lit_n parse_f64 S (efuel S) t l.

(* every field default of the schema is well-typed *)
Definition lits_typed (parse_f64 : list byte -> option Z) (S : lschema) : bool :=
  forallb (fun i => match i with
                    | IStruct fs _ _ =>
                        forallb (fun f => match lf_dflt f with
                                          | Some l => well_typed_lit parse_f64 S (erase (lf_ty f)) l
                                          | None => true
                                          end) fs
                    | _ => true
                    end) (ls_items S).

(* C20: the value T::default() must hold, for the struct / union / enum / typedef with index n *)
Definition expected_default (parse_f64 : list byte -> option Z) (S : lschema) (n : nat) : option gval :=
  sempty_n parse_f64 S (efuel S) (Datatypes.S (Datatypes.S (length (ls_items S)))) (TyRef n).
