(* Lemmas about Derive.v (C14): the AutoDerive walk keeps its map closed under "contains" -- an item that ends up
   with the derive (Yes or Delay) only contains items that end up with it -- because every path PathCollector finds
   is an edge of the graph the downgrade consults (the workspace graph; true of every graph since the repair of
   finding F-14s); hence every derived impl type-checks (the predicate closures decide exactly "consists of supporting
   kinds" since the repair of finding F-14k). *)
From Coq Require Import String List Bool Arith Lia.
From PVBld Require Import Generated.DeriveTables BoxCycle Derive Proofs.BoxCycleP.
Import ListNotations.

(* ---- the tables the model reads / was written against ------------------------------------------------------- *)
(* TyKind has exactly the members the model's [base] and [dty] have, in source order *)
Lemma ty_kinds_as_modelled : ty_kind_names = (map base_name all_base ++ container_names)%list.
Proof. vm_compute. reflexivity. Qed.

(* holds_kind looks through Vec / BTreeSet / Arc and BTreeMap ([holds_kind]); the PartialOrd instance runs first *)
Lemma pred_shape_as_modelled :
  pred_through1 = ["Vec"; "BTreeSet"; "Arc"]%string /\ pred_through2 = ["BTreeMap"%string] /\
  derive_instances = ["#[derive(PartialOrd)]"%string; "#[derive(Hash, Eq, Ord)]"%string].
Proof. vm_compute. auto. Qed.

(* the downgrade of delayed items consults the workspace graph *)
Lemma downgrade_uses_workspace_graph : downgrade_graph = "workspace_graph"%string.
Proof. vm_compute. reflexivity. Qed.

Lemma downgrade_edges_ws g : downgrade_edges g = ws_edges g.
Proof. unfold downgrade_edges. rewrite downgrade_uses_workspace_graph. reflexivity. Qed.

(* the source text of the functions the model transcribes (digests computed by the translator) *)
Lemma derive_sources_pinned :
  derive_source_digests =
  [("holds_kind", "c3ed8c572afd2116c317c92ab16e05052d8ce277ef50e79fa88d9ba6f0f7d69d");
   ("can_derive", "e6c946441c3ff744581bf7897ff9751fe64391d2d66d5951f3c8263906375974");
   ("on_item", "3087f3389d8da7768eb91312194279e0760b049174352720037ba704d37c5a3b");
   ("on_emit", "600bf82f1cd1bff75792f2b718e510832081107158bb16bb3c20ac5f06474e53");
   ("PathCollector", "5dc335484c242e94ca7654df11fcc4f8306a6c5fbd86fc83e7ec26a5770f5f06");
   ("Visitor", "70f2539c72228a2de151fc02eab3ffebe233f830eb6fcc4928d403be61466685");
   ("walk_ty", "16be0680876d461277b94b77193edad97f262cf001d84917d6e16e25f8be043b");
   ("WorkspaceGraph::from_items", "64f22fe9bd23268e1dc164a6733df09b3176cb242a2e9f35242a23f3213be92f");
   ("WorkspaceGraph::is_nested", "a85b2a9e42f556cc3f2797790988aad5a9031816d38166572950d1eb42bcdc11");
   ("TypeGraph::from_items", "154daad86c71f45c0f6484f588a8d1c740bb4a9db0df315ebf718551b6975830");
   ("TypeGraph::is_nested", "a85b2a9e42f556cc3f2797790988aad5a9031816d38166572950d1eb42bcdc11")]%string.
Proof. vm_compute. reflexivity. Qed.

Local Arguments remove_nat : simpl never.
Local Arguments downgrade_map : simpl never.

(* ---- association lists, sets as lists -------------------------------------------------------------------------- *)
Lemma getm_setm_eq m d c : getm (setm m d c) d = Some c.
Proof. unfold getm, setm. cbn [find fst snd]. now rewrite Nat.eqb_refl. Qed.

Lemma getm_setm_neq m d c x : x <> d -> getm (setm m d c) x = getm m x.
Proof.
  intros N. unfold getm, setm. cbn [find fst snd].
  destruct (Nat.eqb d x) eqn:Q; [apply Nat.eqb_eq in Q; congruence|reflexivity].
Qed.

Lemma memb_in d l : memb d l = true <-> In d l.
Proof.
  unfold memb. rewrite existsb_exists. split.
  - intros [x [H Q]]. apply Nat.eqb_eq in Q. now subst.
  - intros H. exists d. split; [assumption|apply Nat.eqb_refl].
Qed.

Lemma memb_false d l : memb d l = false <-> ~ In d l.
Proof. rewrite <- memb_in. destruct (memb d l); split; congruence. Qed.

Lemma in_remove_nat d l x : In x (remove_nat d l) <-> In x l /\ x <> d.
Proof. unfold remove_nat. rewrite filter_In, negb_true_iff, Nat.eqb_neq. tauto. Qed.

Lemma find_item_in g d it : find_item g d = Some it -> In (d, it) g.
Proof.
  unfold find_item. destruct (find _ g) as [[k v]|] eqn:F; [|discriminate].
  intros H. injection H as <-. apply find_some in F. destruct F as [I Q]. cbn in Q. apply Nat.eqb_eq in Q. now subst.
Qed.

Lemma in_find_item g d it : In (d, it) g -> exists it', find_item g d = Some it'.
Proof.
  intros I. unfold find_item. destruct (find _ g) as [[k v]|] eqn:F; [eauto|].
  exfalso. eapply find_none in F; [|exact I]. cbn in F. now rewrite Nat.eqb_refl in F.
Qed.

(* the downgrade: exactly the delayed items that reach d become No *)
Lemma getm_downgrade_map E d dl m x :
  getm (downgrade_map E d dl m) x = if memb x dl && reachb E x d then Some No else getm m x.
Proof.
  unfold downgrade_map. revert m. induction dl as [|a dl IH]; intros m; cbn [fold_left memb existsb]; [reflexivity|].
  rewrite IH. fold (memb x dl).
  destruct (Nat.eqb x a) eqn:Q.
  - apply Nat.eqb_eq in Q. subst a. cbn [orb].
    destruct (reachb E x d) eqn:R.
    + rewrite andb_true_r. destruct (memb x dl); [reflexivity|]. cbn [andb]. apply getm_setm_eq.
    + now rewrite !andb_false_r.
  - cbn [orb]. destruct (memb x dl && reachb E x d); [reflexivity|].
    destruct (reachb E a d); [|reflexivity]. apply getm_setm_neq. apply Nat.eqb_neq in Q. exact Q.
Qed.

(* ---- the invariant of one top-level call --------------------------------------------------------------------------- *)
Section Spec.
  Variable g : dgraph.
  Variable pred : dty -> bool.
  Variable E : list (nat * nat).

  Definition is_type (d : nat) : Prop := exists it ds, find_item g d = Some it /\ deps it = Some ds.

  (* every path names a type item *)
  Hypothesis Hclosed : forall d p, In p (paths_of g d) -> is_type p.
  (* every path is an edge of the graph the downgrade consults *)
  Hypothesis Hedges : forall d p, In p (paths_of g d) -> In (d, p) E.

  Definition okm (m : cmapT) (d : nat) : Prop := getm m d = Some Yes \/ getm m d = Some Delay.

  (* what holds of the map between two top-level calls *)
  Record TopInv (m : cmapT) : Prop := {
    top_yes : forall d, getm m d = Some Yes -> forall p, In p (paths_of g d) -> getm m p = Some Yes;
    top_delay : forall d, getm m d = Some Delay -> forall p, In p (paths_of g d) -> okm m p;
    top_pred : forall d, okm m d -> exists it ds, find_item g d = Some it /\ deps it = Some ds /\ existsb pred ds = false }.

  Variable m0 : cmapT.     (* the map at the start of the top-level call *)

  Record Inv (s : st) : Prop := {
    inv_a : forall d, getm m0 d <> None -> getm (cmap s) d = getm m0 d;
    inv_del : forall d, In d (del s) ->
                getm m0 d = None /\ (getm (cmap s) d = Some Delay \/ getm (cmap s) d = Some No);
    inv_vis : forall d, In d (vis s) -> getm (cmap s) d = None;
    inv_yes : forall d, getm (cmap s) d = Some Yes -> forall p, In p (paths_of g d) -> getm (cmap s) p = Some Yes;
    inv_delay : forall d, getm (cmap s) d = Some Delay -> getm m0 d = None ->
                  In d (del s) /\ forall p, In p (paths_of g d) -> okm (cmap s) p \/ In p (vis s);
    inv_pred : forall d, okm (cmap s) d ->
                 exists it ds, find_item g d = Some it /\ deps it = Some ds /\ existsb pred ds = false }.

  (* entries only change from Delay to No, and only inside a call that answers No *)
  Definition mono (b : bool) (s s' : st) : Prop :=
    forall x, getm (cmap s) x <> None ->
      getm (cmap s') x = getm (cmap s) x \/
      (b = true /\ getm (cmap s) x = Some Delay /\ getm (cmap s') x = Some No).

  Definition same_vis (s s' : st) : Prop := forall x, In x (vis s') <-> In x (vis s).

  Definition res_fact (s s' : st) (d : nat) (r : cd) : Prop :=
    match r with
    | Yes => getm (cmap s') d = Some Yes
    | Delay => getm (cmap s') d = Some Delay \/ In d (vis s)
    | No => True
    end.

  Definition post (d : nat) (s : st) (r : cd) (s' : st) : Prop :=
    Inv s' /\ same_vis s s' /\ mono (is_no r) s s' /\ incl (del s) (del s') /\ res_fact s s' d r.

  Lemma mono_refl b s : mono b s s.
  Proof. intros x _. now left. Qed.

  Lemma mono_dom b s s' x : mono b s s' -> getm (cmap s) x <> None -> getm (cmap s') x <> None.
  Proof. intros M N. destruct (M x N) as [Q|[_ [_ Q]]]; rewrite Q; [assumption|discriminate]. Qed.

  Lemma mono_trans b1 b2 s1 s2 s3 : mono b1 s1 s2 -> mono b2 s2 s3 -> mono (b1 || b2) s1 s3.
  Proof.
    intros M1 M2 x N. pose proof (mono_dom _ _ _ _ M1 N) as N2.
    destruct (M1 x N) as [Q1|[B1 [Q1 Q1']]]; destruct (M2 x N2) as [Q2|[B2 [Q2 Q2']]].
    - left. congruence.
    - right. subst b2. rewrite orb_true_r. repeat split; congruence.
    - right. subst b1. cbn. repeat split; congruence.
    - rewrite Q1' in Q2. discriminate.
  Qed.

  Lemma mono_false_eq s s' x : mono false s s' -> getm (cmap s) x <> None -> getm (cmap s') x = getm (cmap s) x.
  Proof. intros M N. destruct (M x N) as [Q|[B _]]; [assumption|discriminate]. Qed.

  Lemma mono_yes b s s' x : mono b s s' -> getm (cmap s) x = Some Yes -> getm (cmap s') x = Some Yes.
  Proof.
    intros M Q. assert (N : getm (cmap s) x <> None) by congruence.
    destruct (M x N) as [Q'|[_ [Q' _]]]; congruence.
  Qed.

  (* the invariant reads [vis] through membership only *)
  Lemma inv_vis_equiv s v :
    (forall x, In x v <-> In x (vis s)) -> Inv s -> Inv (mkSt (cmap s) v (del s)).
  Proof.
    intros Q I. destruct I as [A D V Y L P]. constructor; cbn [cmap vis del]; auto.
    - intros d H. apply V. now apply Q.
    - intros d H1 H2. destruct (L d H1 H2) as [L1 L2]. split; [assumption|].
      intros p Hp. destruct (L2 p Hp) as [O|O]; [now left|right; now apply Q].
  Qed.

  (* visiting.insert(def_id) for an id that is in neither the map nor the set *)
  Lemma inv_push_vis s d :
    Inv s -> getm (cmap s) d = None -> Inv (mkSt (cmap s) (d :: vis s) (del s)).
  Proof.
    intros I N. destruct I as [A D V Y L P]. constructor; cbn [cmap vis del]; auto.
    - intros x [<-|H]; auto.
    - intros x H1 H2. destruct (L x H1 H2) as [L1 L2]. split; [assumption|].
      intros p Hp. destruct (L2 p Hp) as [O|O]; [now left|right; now right].
  Qed.

  (* ---- the three ways a fresh item is finished ---------------------------------------------------------------- *)
  (* No without downgrade (the predicate said No): nothing else changes *)
  Lemma inv_finish_no s d :
    Inv s -> getm (cmap s) d = None -> ~ In d (vis s) ->
    Inv (mkSt (setm (cmap s) d No) (vis s) (del s)).
  Proof.
    intros I N NV. destruct I as [A D V Y L P].
    assert (NE : forall x, getm (cmap s) x <> None -> x <> d) by (intros x H ->; congruence).
    assert (OK : forall x, okm (cmap s) x -> x <> d) by (intros x [H|H]; apply NE; congruence).
    constructor; cbn [cmap vis del].
    - intros x H. rewrite getm_setm_neq; [auto|]. apply NE. rewrite A; assumption.
    - intros x H. destruct (D x H) as [D1 D2]. split; [assumption|].
      rewrite getm_setm_neq; [assumption|]. apply NE. destruct D2 as [Q|Q]; rewrite Q; discriminate.
    - intros x H. rewrite getm_setm_neq; [auto|]. intros ->. contradiction.
    - intros x H p Hp. destruct (Nat.eq_dec x d) as [->|Nx]; [rewrite getm_setm_eq in H; discriminate|].
      rewrite getm_setm_neq in H by assumption. specialize (Y x H p Hp).
      rewrite getm_setm_neq; [assumption|]. apply NE. congruence.
    - intros x H H0. destruct (Nat.eq_dec x d) as [->|Nx]; [rewrite getm_setm_eq in H; discriminate|].
      rewrite getm_setm_neq in H by assumption. destruct (L x H H0) as [L1 L2]. split; [assumption|].
      intros p Hp. destruct (L2 p Hp) as [O|O]; [left|now right].
      unfold okm. rewrite getm_setm_neq; [assumption|now apply OK].
    - intros x O. apply P. unfold okm in *.
      destruct (Nat.eq_dec x d) as [->|Nx]; [rewrite getm_setm_eq in O; destruct O; discriminate|].
      now rewrite getm_setm_neq in O by assumption.
  Qed.

  (* Yes: every path answered Yes *)
  Lemma inv_finish_yes s d it ds :
    Inv s -> getm (cmap s) d = None -> find_item g d = Some it -> deps it = Some ds -> existsb pred ds = false ->
    (forall p, In p (paths_of g d) -> getm (cmap s) p = Some Yes) ->
    Inv (mkSt (setm (cmap s) d Yes) (remove_nat d (vis s)) (del s)).
  Proof.
    intros I N F Dp Pr AllY. destruct I as [A D V Y L P].
    assert (NE : forall x, getm (cmap s) x <> None -> x <> d) by (intros x H ->; congruence).
    assert (OK : forall x, okm (cmap s) x -> x <> d) by (intros x [H|H]; apply NE; congruence).
    constructor; cbn [cmap vis del].
    - intros x H. rewrite getm_setm_neq; [auto|]. apply NE. rewrite A; assumption.
    - intros x H. destruct (D x H) as [D1 D2]. split; [assumption|].
      rewrite getm_setm_neq; [assumption|]. apply NE. destruct D2 as [Q|Q]; rewrite Q; discriminate.
    - intros x H. apply in_remove_nat in H. destruct H as [H Nx]. rewrite getm_setm_neq; auto.
    - intros x H p Hp. destruct (Nat.eq_dec x d) as [->|Nx].
      + specialize (AllY p Hp). rewrite getm_setm_neq; [assumption|]. apply NE. congruence.
      + rewrite getm_setm_neq in H by assumption. specialize (Y x H p Hp).
        rewrite getm_setm_neq; [assumption|]. apply NE. congruence.
    - intros x H H0. destruct (Nat.eq_dec x d) as [->|Nx]; [rewrite getm_setm_eq in H; discriminate|].
      rewrite getm_setm_neq in H by assumption. destruct (L x H H0) as [L1 L2]. split; [assumption|].
      intros p Hp. destruct (L2 p Hp) as [O|O].
      + left. unfold okm. rewrite getm_setm_neq; [assumption|now apply OK].
      + destruct (Nat.eq_dec p d) as [->|Np].
        * left. left. apply getm_setm_eq.
        * right. apply in_remove_nat. now split.
    - intros x O. unfold okm in O. destruct (Nat.eq_dec x d) as [->|Nx].
      + exists it, ds. auto.
      + rewrite getm_setm_neq in O by assumption. now apply P.
  Qed.

  (* Delay: every path answered Yes or Delay; the item joins `delayed` *)
  Lemma inv_finish_delay s d it ds :
    Inv s -> getm (cmap s) d = None -> find_item g d = Some it -> deps it = Some ds -> existsb pred ds = false ->
    (forall p, In p (paths_of g d) -> okm (cmap s) p \/ In p (vis s)) ->
    Inv (mkSt (setm (cmap s) d Delay) (remove_nat d (vis s)) (d :: del s)).
  Proof.
    intros I N F Dp Pr AllD. destruct I as [A D V Y L P].
    assert (NE : forall x, getm (cmap s) x <> None -> x <> d) by (intros x H ->; congruence).
    assert (OK : forall x, okm (cmap s) x -> x <> d) by (intros x [H|H]; apply NE; congruence).
    assert (M0 : getm m0 d = None).
    { destruct (getm m0 d) eqn:Q; [|reflexivity]. assert (H : getm m0 d <> None) by congruence.
      apply A in H. congruence. }
    assert (step : forall p, okm (cmap s) p \/ In p (vis s) ->
                   okm (setm (cmap s) d Delay) p \/ In p (remove_nat d (vis s))).
    { intros p [O|O].
      - left. unfold okm. rewrite getm_setm_neq; [assumption|now apply OK].
      - destruct (Nat.eq_dec p d) as [->|Np].
        + left. right. apply getm_setm_eq.
        + right. apply in_remove_nat. now split. }
    constructor; cbn [cmap vis del].
    - intros x H. rewrite getm_setm_neq; [auto|]. apply NE. rewrite A; assumption.
    - intros x [<-|H].
      + split; [assumption|]. left. apply getm_setm_eq.
      + destruct (D x H) as [D1 D2]. split; [assumption|].
        rewrite getm_setm_neq; [assumption|]. apply NE. destruct D2 as [Q|Q]; rewrite Q; discriminate.
    - intros x H. apply in_remove_nat in H. destruct H as [H Nx]. rewrite getm_setm_neq; auto.
    - intros x H p Hp. destruct (Nat.eq_dec x d) as [->|Nx]; [rewrite getm_setm_eq in H; discriminate|].
      rewrite getm_setm_neq in H by assumption. specialize (Y x H p Hp).
      rewrite getm_setm_neq; [assumption|]. apply NE. congruence.
    - intros x H H0. destruct (Nat.eq_dec x d) as [->|Nx].
      + split; [now left|]. intros p Hp. apply step. now apply AllD.
      + rewrite getm_setm_neq in H by assumption. destruct (L x H H0) as [L1 L2]. split; [now right|].
        intros p Hp. apply step. now apply L2.
    - intros x O. unfold okm in O. destruct (Nat.eq_dec x d) as [->|Nx].
      + exists it, ds. auto.
      + rewrite getm_setm_neq in O by assumption. now apply P.
  Qed.

  (* No after a path answered No: the delayed items that reach d are downgraded.  This is where the edges matter. *)
  Lemma inv_finish_downgrade s d :
    Inv s -> getm (cmap s) d = None -> In d (vis s) ->
    Inv (mkSt (setm (downgrade_map E d (del s) (cmap s)) d No) (remove_nat d (vis s)) (del s)).
  Proof.
    intros I N InV. destruct I as [A D V Y L P].
    assert (NE : forall x, getm (cmap s) x <> None -> x <> d) by (intros x H ->; congruence).
    assert (OK : forall x, okm (cmap s) x -> x <> d) by (intros x [H|H]; apply NE; congruence).
    set (m' := downgrade_map E d (del s) (cmap s)).
    assert (G : forall x, getm m' x = if memb x (del s) && reachb E x d then Some No else getm (cmap s) x)
      by (intros x; apply getm_downgrade_map).
    (* an entry that is not No afterwards was not touched *)
    assert (keep : forall x c, c <> No -> getm m' x = Some c ->
                   getm (cmap s) x = Some c /\ (In x (del s) -> ~ reach E x d)).
    { intros x c Nc H. rewrite G in H. destruct (memb x (del s) && reachb E x d) eqn:Q.
      - congruence.
      - split; [assumption|]. intros Hd R. apply memb_in in Hd. apply reachb_correct in R. rewrite Hd, R in Q. discriminate. }
    assert (untouched : forall x, ~ In x (del s) -> getm m' x = getm (cmap s) x).
    { intros x H. rewrite G. apply memb_false in H. now rewrite H. }
    constructor; cbn [cmap vis del].
    - intros x H. assert (Hx : getm (cmap s) x <> None) by (rewrite A; assumption).
      rewrite getm_setm_neq by (now apply NE). rewrite untouched; [now apply A|].
      intros Hd. apply D in Hd. destruct Hd as [Hd _]. contradiction.
    - intros x H. destruct (D x H) as [D1 D2]. split; [assumption|].
      assert (Nx : x <> d) by (apply NE; destruct D2 as [Q|Q]; rewrite Q; discriminate).
      rewrite getm_setm_neq by assumption. rewrite G.
      destruct (memb x (del s) && reachb E x d); [now right|assumption].
    - intros x H. apply in_remove_nat in H. destruct H as [H Nx]. rewrite getm_setm_neq by assumption.
      rewrite untouched; [now apply V|]. intros Hd. apply D in Hd. destruct Hd as [_ [Q|Q]]; rewrite (V x H) in Q; discriminate.
    - intros x H p Hp. destruct (Nat.eq_dec x d) as [->|Nx]; [rewrite getm_setm_eq in H; discriminate|].
      rewrite getm_setm_neq in H by assumption.
      destruct (keep x Yes ltac:(discriminate) H) as [H' _]. specialize (Y x H' p Hp).
      rewrite getm_setm_neq by (apply NE; congruence).
      rewrite untouched; [assumption|]. intros Hd. apply D in Hd. destruct Hd as [_ [Q|Q]]; congruence.
    - intros x H H0. destruct (Nat.eq_dec x d) as [->|Nx]; [rewrite getm_setm_eq in H; discriminate|].
      rewrite getm_setm_neq in H by assumption.
      destruct (keep x Delay ltac:(discriminate) H) as [H' NR].
      destruct (L x H' H0) as [L1 L2]. split; [assumption|]. specialize (NR L1).
      intros p Hp. pose proof (Hedges x p Hp) as Edge.
      destruct (L2 p Hp) as [O|O].
      + (* p had the derive: it was not downgraded, or x would reach d through it *)
        left. assert (Np : p <> d) by now apply OK.
        unfold okm. rewrite getm_setm_neq by assumption. rewrite G.
        destruct (memb p (del s) && reachb E p d) eqn:Q; [|exact O].
        exfalso. apply andb_true_iff in Q. destruct Q as [_ Q]. apply reachb_correct in Q.
        apply NR. eapply reach_step; eauto.
      + (* p is being visited: it is not d, or x would reach d directly *)
        right. apply in_remove_nat. split; [assumption|]. intros ->.
        apply NR. eapply reach_step; [exact Edge|constructor].
    - intros x O. apply P. unfold okm in *.
      destruct (Nat.eq_dec x d) as [->|Nx]; [rewrite getm_setm_eq in O; destruct O; discriminate|].
      rewrite getm_setm_neq in O by assumption.
      destruct O as [O|O]; [left|right]; eapply keep; eauto; discriminate.
  Qed.

  (* frame facts of the downgrade *)
  Lemma mono_downgrade s d :
    Inv s -> getm (cmap s) d = None ->
    mono true s (mkSt (setm (downgrade_map E d (del s) (cmap s)) d No) (remove_nat d (vis s)) (del s)).
  Proof.
    intros I N x Hx. cbn [cmap]. assert (Nx : x <> d) by (intros ->; congruence).
    rewrite getm_setm_neq by assumption. rewrite getm_downgrade_map.
    destruct (memb x (del s) && reachb E x d) eqn:Q; [|now left].
    apply andb_true_iff in Q. destruct Q as [Q _]. apply memb_in in Q.
    destruct (inv_del s I x Q) as [_ [H|H]]; [right; auto|left; congruence].
  Qed.

  (* ---- the list of paths ------------------------------------------------------------------------------------------ *)
  Lemma walk_list_spec f :
    (forall d s r s', Inv s -> is_type d -> f d s = Done (r, s') -> post d s r s') ->
    forall ps s rs s',
      Inv s -> (forall p, In p ps -> is_type p) -> walk_list f ps s = Done (rs, s') ->
      Inv s' /\ same_vis s s' /\ mono (existsb is_no rs) s s' /\ incl (del s) (del s') /\
      (existsb is_no rs = false -> forall p, In p ps -> okm (cmap s') p \/ In p (vis s)) /\
      (existsb is_no rs = false -> existsb is_delay rs = false -> forall p, In p ps -> getm (cmap s') p = Some Yes).
  Proof.
    intros Hf. induction ps as [|p r IH]; intros s rs s' I T W; cbn [walk_list] in W.
    - injection W as <- <-. split; [assumption|]. split; [intros x; tauto|]. split; [apply mono_refl|].
      split; [apply incl_refl|]. split; [intros _ p []|intros _ _ p []].
    - destruct (f p s) as [[b sa]| |] eqn:Fp; try discriminate.
      destruct (walk_list f r sa) as [[bs sb]| |] eqn:Wr; try discriminate.
      injection W as <- <-.
      destruct (Hf p s b sa I (T p (or_introl eq_refl)) Fp) as [Ia [Va [Ma [Da Ra]]]].
      destruct (IH sa bs sb Ia (fun q H => T q (or_intror H)) Wr) as [Ib [Vb [Mb [Db [Di Dii]]]]].
      cbn [existsb].
      assert (first : is_no b = false -> existsb is_no bs = false -> okm (cmap sb) p \/ In p (vis s)).
      { intros B1 B2. rewrite B2 in Mb. destruct b; cbn in Ra; try discriminate.
        - left. left. eapply mono_yes; eauto.
        - destruct Ra as [Ra|Ra]; [|now right]. left. right.
          rewrite (mono_false_eq sa sb p Mb); congruence. }
      split; [assumption|]. split; [intros x; rewrite (Vb x); apply Va|].
      split; [eapply mono_trans; eauto|]. split; [eapply incl_tran; eauto|]. split.
      + intros B q [<-|Hq]; apply orb_false_iff in B; destruct B as [B1 B2]; [now apply first|].
        destruct (Di B2 q Hq) as [O|O]; [now left|right; now apply Va].
      + intros B B' q Hq. apply orb_false_iff in B. destruct B as [B1 B2].
        apply orb_false_iff in B'. destruct B' as [B1' B2'].
        destruct Hq as [<-|Hq]; [|now apply Dii].
        destruct b; try discriminate. cbn in Ra. eapply mono_yes; eauto.
  Qed.

  Lemma paths_of_eq d it ds : find_item g d = Some it -> deps it = Some ds -> paths_of g d = flat_map collect ds.
  Proof. intros F D. unfold paths_of. now rewrite F, D. Qed.

  (* ---- the walk ---------------------------------------------------------------------------------------------------- *)
  Lemma can_derive_spec fuel :
    forall d s r s', Inv s -> is_type d -> can_derive g pred E fuel d s = Done (r, s') -> post d s r s'.
  Proof.
    induction fuel as [|f IH]; intros d s r s' I T C; cbn [can_derive] in C; [discriminate|].
    destruct (getm (cmap s) d) as [b|] eqn:G.
    { (* already decided *)
      injection C as <- <-. unfold post. split; [assumption|]. split; [intros x; tauto|].
      split; [apply mono_refl|]. split; [apply incl_refl|].
      destruct b; cbn; auto. }
    destruct (memb d (vis s)) eqn:MV.
    { (* being visited *)
      injection C as <- <-. unfold post. split; [assumption|]. split; [intros x; tauto|].
      split; [apply mono_refl|]. split; [apply incl_refl|]. cbn. right. now apply memb_in. }
    apply memb_false in MV.
    destruct T as [it [ds [F Dp]]]. rewrite F, Dp in C.
    pose proof (paths_of_eq d it ds F Dp) as PE.
    assert (SV : forall v, (forall x, In x v <-> In x (d :: vis s)) ->
                 forall x, In x (remove_nat d v) <-> In x (vis s)).
    { intros v Q x. rewrite in_remove_nat, Q. cbn. split; [intros [[<-|H] N]; [congruence|assumption]|].
      intros H. split; [now right|]. intros ->. contradiction. }
    destruct (existsb pred ds) eqn:Pr.
    { (* the predicate says No *)
      injection C as <- <-. unfold post. cbn [cmap vis del].
      split.
      { apply (inv_vis_equiv (mkSt (setm (cmap s) d No) (vis s) (del s))); cbn [cmap vis del].
        - apply SV. tauto.
        - now apply inv_finish_no. }
      split; [intros x; cbn [vis]; apply SV; tauto|].
      split; [|split; [apply incl_refl|exact Logic.I]].
      intros x Hx. left. cbn [cmap]. apply getm_setm_neq. intros ->. congruence. }
    set (s1 := mkSt (cmap s) (d :: vis s) (del s)) in *.
    assert (I1 : Inv s1) by now apply inv_push_vis.
    destruct (walk_list (can_derive g pred E f) (flat_map collect ds) s1) as [[rs s2]| |] eqn:W; try discriminate.
    destruct (walk_list_spec (can_derive g pred E f) IH (flat_map collect ds) s1 rs s2 I1) as [I2 [V2 [M2 [D2 [Di Dii]]]]].
    { intros p Hp. apply (Hclosed d). now rewrite PE. }
    { exact W. }
    assert (G2 : getm (cmap s2) d = None).
    { apply (inv_vis s2 I2). apply V2. now left. }
    assert (M2' : forall b, mono b s s2 -> forall sx, cmap sx = cmap s2 -> mono b s sx).
    { intros b M sx Q x Hx. rewrite Q. now apply M. }
    destruct (existsb is_no rs) eqn:AnyNo.
    { (* a path answered No: downgrade *)
      injection C as <- <-. unfold post, downgrade. cbn [cmap vis del is_no].
      split.
      { apply inv_finish_downgrade; [assumption|assumption|]. apply V2. now left. }
      split; [intros x; cbn [vis]; apply SV; exact V2|].
      split; [|split; [exact D2|exact Logic.I]].
      change true with (true || true). eapply mono_trans; [exact M2|]. now apply mono_downgrade. }
    destruct (existsb is_delay rs) eqn:AnyDelay.
    { (* Delay *)
      injection C as <- <-. unfold post. cbn [cmap vis del is_no].
      assert (AllD : forall p, In p (paths_of g d) -> okm (cmap s2) p \/ In p (vis s2)).
      { intros p Hp. rewrite PE in Hp. destruct (Di eq_refl p Hp) as [O|O]; [now left|right; now apply V2]. }
      split; [eapply inv_finish_delay; eauto|].
      split; [intros x; cbn [vis]; apply SV; exact V2|].
      split.
      { intros x Hx. left. cbn [cmap]. rewrite getm_setm_neq by (intros ->; congruence).
        now apply (mono_false_eq s1 s2 x M2). }
      split; [intros x Hx; right; now apply D2|].
      cbn. left. apply getm_setm_eq. }
    (* Yes *)
    injection C as <- <-. unfold post. cbn [cmap vis del is_no].
    split.
    { eapply inv_finish_yes; eauto. intros p Hp. rewrite PE in Hp. now apply Dii. }
    split; [intros x; cbn [vis]; apply SV; exact V2|].
    split.
    { intros x Hx. left. cbn [cmap]. rewrite getm_setm_neq by (intros ->; congruence).
      now apply (mono_false_eq s1 s2 x M2). }
    split; [exact D2|]. cbn. apply getm_setm_eq.
  Qed.
End Spec.

(* ---- between top-level calls ----------------------------------------------------------------------------------------- *)
Section Top.
  Variable g : dgraph.
  Variable pred : dty -> bool.
  Variable E : list (nat * nat).
  Hypothesis Hclosed : forall d p, In p (paths_of g d) -> is_type g p.
  Hypothesis Hedges : forall d p, In p (paths_of g d) -> In (d, p) E.

  Lemma top_empty : TopInv g pred [].
  Proof. constructor; unfold okm; cbn; intros; try discriminate. destruct H; discriminate. Qed.

  Lemma inv_start m : TopInv g pred m -> Inv g pred m (mkSt m [] []).
  Proof.
    intros [Y L P]. constructor; cbn [cmap vis del]; auto.
    - intros d [].
    - intros d [].
    - intros d H N. congruence.
  Qed.

  Lemma on_item_top fuel m d m' :
    TopInv g pred m -> on_item g pred E fuel m d = Done m' -> TopInv g pred m'.
  Proof.
    intros T O. unfold on_item in O.
    destruct (can_derive g pred E fuel d (mkSt m [] [])) as [[r s']| |] eqn:C; try discriminate.
    injection O as <-.
    destruct (find_item g d) as [it|] eqn:F; [destruct (deps it) as [ds|] eqn:Dp|].
    - (* a type item *)
      destruct (can_derive_spec g pred E Hclosed Hedges m fuel d _ r s' (inv_start m T)) as [I [V _]];
        [exists it, ds; auto|exact C|].
      destruct I as [A D Vi Y L P]. destruct T as [TY TL TP]. constructor; auto.
      intros x H p Hp. destruct (getm m x) as [c|] eqn:Q.
      + assert (N : getm m x <> None) by congruence. pose proof (A x N) as Ax. rewrite Q in Ax.
        assert (c = Delay) by congruence. subst c.
        destruct (TL x Q p Hp) as [O|O]; [left|right]; rewrite A; congruence.
      + destruct (L x H Q) as [_ L2]. destruct (L2 p Hp) as [O|O]; [assumption|].
        apply V in O. destruct O.
    - (* Service / Const / Mod: the map is not touched *)
      destruct fuel as [|f]; cbn [can_derive cmap vis] in C; [discriminate|].
      destruct (getm m d); [injection C as <- <-; exact T|].
      cbn [memb existsb] in C. rewrite F, Dp in C. injection C as <- <-. exact T.
    - destruct fuel as [|f]; cbn [can_derive cmap vis] in C; [discriminate|].
      destruct (getm m d); [injection C as <- <-; exact T|].
      cbn [memb existsb] in C. rewrite F in C. discriminate.
  Qed.

  Lemma run_items_top fuel order :
    forall m m', TopInv g pred m -> run_items g pred E fuel order m = Done m' -> TopInv g pred m'.
  Proof.
    induction order as [|d r IH]; intros m m' T R; cbn [run_items] in R; [injection R as <-; exact T|].
    destruct (on_item g pred E fuel m d) as [m1| |] eqn:O; try discriminate.
    eapply IH; [|exact R]. eapply on_item_top; eauto.
  Qed.
End Top.

(* ---- from the closed map to "every derived impl type-checks" ------------------------------------------------------------ *)
Lemma derives_okm m d : derives m d = true <-> okm m d.
Proof.
  unfold derives, okm. destruct (getm m d) as [[| |]|]; split; intros H; try discriminate; auto;
    destruct H; discriminate.
Qed.

(* the predicate closures decide exactly "consists of supporting kinds" (by cases over the regenerated tables) *)
Lemma pred_adequate tr t : pred_no tr t = negb (kinds_ok tr t).
Proof.
  unfold pred_no.
  induction t as [b|d|t IH|t _|t IH|k _ v _|k IHk v IHv|t IH]; cbn [holds_kind kinds_ok]; auto.
  - destruct tr, b; vm_compute; reflexivity.
  - destruct tr; vm_compute; reflexivity.
  - destruct tr; vm_compute; reflexivity.
  - destruct tr; vm_compute; reflexivity.
  - rewrite IHk, IHv. now rewrite negb_andb.
Qed.

Lemma topinv_consistent tr g m :
  TopInv g (pred_no tr) m -> consistent tr g (derives m).
Proof.
  intros [Y L P] d it ds F Dp Dd. apply derives_okm in Dd.
  destruct (P d Dd) as [it' [ds' [F' [Dp' Pr]]]]. rewrite F in F'. injection F' as <-. rewrite Dp in Dp'. injection Dp' as <-.
  apply forallb_forall. intros t Ht. unfold ty_ok. apply andb_true_iff. split.
  - assert (Pt : pred_no tr t = false).
    { destruct (pred_no tr t) eqn:Q; [|reflexivity].
      assert (existsb (pred_no tr) ds = true) by (apply existsb_exists; eauto). congruence. }
    rewrite pred_adequate in Pt. now apply negb_false_iff in Pt.
  - apply forallb_forall. intros p Hp. apply derives_okm.
    assert (In p (paths_of g d)).
    { unfold paths_of. rewrite F, Dp. apply in_flat_map. eauto. }
    destruct Dd as [Q|Q]; [left; eapply Y; eauto|eapply L; eauto].
Qed.

(* the derive set is closed under "contains", so the transitive statement follows from the local one *)
Lemma consistent_supports tr g D d : consistent tr g D -> D d = true -> supports tr g d.
Proof.
  intros C Dd d' it ds R. revert Dd. induction R as [d|d p d' Hp R IH]; intros Dd F Dp.
  - pose proof (C d it ds F Dp Dd) as H. apply forallb_forall. intros t Ht.
    eapply forallb_forall in H; [|exact Ht]. unfold ty_ok in H. now apply andb_true_iff in H.
  - apply IH; [|assumption|assumption].
    unfold paths_of in Hp. destruct (find_item g d) as [it0|] eqn:F0; [|destruct Hp].
    destruct (deps it0) as [ds0|] eqn:D0; [|destruct Hp].
    pose proof (C d it0 ds0 F0 D0 Dd) as H. apply in_flat_map in Hp. destruct Hp as [t [Ht Hp]].
    eapply forallb_forall in H; [|exact Ht]. unfold ty_ok in H. apply andb_true_iff in H. destruct H as [_ H].
    eapply forallb_forall in H; eauto.
Qed.

(* ---- the decidable side conditions ---------------------------------------------------------------------------------------- *)
Lemma closed_b_closed g : closed_b g = true -> forall d p, In p (paths_of g d) -> is_type g p.
Proof.
  intros C d p Hp. unfold paths_of in Hp.
  destruct (find_item g d) as [it|] eqn:F; [|destruct Hp]. destruct (deps it) as [ds|] eqn:Dp; [|destruct Hp].
  unfold closed_b in C. eapply forallb_forall in C; [|exact (find_item_in g d it F)]. cbn [snd] in C. rewrite Dp in C.
  eapply forallb_forall in C; [|exact Hp]. unfold is_type_b in C. unfold is_type.
  destruct (find_item g p) as [it'|] eqn:F'; [|discriminate]. destruct (deps it') as [ds'|] eqn:D'; [|discriminate].
  exists it', ds'. auto.
Qed.

Lemma ws_complete_edges g : ws_complete_b g = true -> forall d p, In p (paths_of g d) -> In (d, p) (ws_edges g).
Proof.
  intros C d p Hp. unfold paths_of in Hp.
  destruct (find_item g d) as [it|] eqn:F; [|destruct Hp]. destruct (deps it) as [ds|] eqn:Dp; [|destruct Hp].
  pose proof (find_item_in g d it F) as I.
  unfold ws_complete_b in C. eapply forallb_forall in C; [|exact I]. cbn [snd] in C. rewrite Dp in C.
  eapply forallb_forall in C; [|exact Hp]. apply memb_in in C.
  unfold ws_edges. apply in_flat_map. exists (d, it). split; [assumption|].
  unfold item_edges. cbn [fst snd]. rewrite Dp. now apply in_map.
Qed.

Lemma ws_visit_collect t : ws_visit t = collect t.
Proof.
  induction t as [b|d|t IH|t IH|t IH|k IHk v IHv|k IHk v IHv|t IH]; cbn [ws_visit collect]; auto; now rewrite IHk, IHv.
Qed.

(* since the repair of F-14s the workspace graph has an edge for every path PathCollector finds *)
Lemma ws_complete_all g : ws_complete_b g = true.
Proof.
  unfold ws_complete_b. apply forallb_forall. intros [d it] _. cbn [snd]. destruct (deps it) as [ds|]; [|reflexivity].
  apply forallb_forall. intros p Hp. apply memb_in.
  apply in_flat_map in Hp. destruct Hp as [t [Ht Hp]]. apply in_flat_map. exists t. split; [assumption|].
  now rewrite ws_visit_collect.
Qed.

(* ---- C14_derive_sound -------------------------------------------------------------------------------------------------------- *)
Theorem derive_sound tr g order m :
  run tr g order = Done m ->
  closed_b g = true ->
  consistent tr g (derives m) /\ forall d, derives m d = true -> supports tr g d.
Proof.
  intros R C. unfold run in R.
  assert (T : TopInv g (pred_no tr) m).
  { eapply run_items_top; [apply closed_b_closed; exact C| |apply top_empty|exact R].
    rewrite downgrade_edges_ws. apply ws_complete_edges. apply ws_complete_all. }
  pose proof (topinv_consistent tr g m T) as Cs. split; [exact Cs|].
  intros d Dd. eapply consistent_supports; eauto.
Qed.

(* ---- termination: fuel = number of items + 1 always suffices ---------------------------------------------------------------- *)
Lemma filter_length_le {A} (p q : A -> bool) l :
  (forall x, In x l -> p x = true -> q x = true) -> length (filter p l) <= length (filter q l).
Proof.
  induction l as [|a l IH]; intros H; cbn; [lia|].
  assert (IH' : length (filter p l) <= length (filter q l)) by (apply IH; intros; apply H; cbn; auto).
  destruct (p a) eqn:Pa.
  - rewrite (H a (or_introl eq_refl) Pa). cbn. lia.
  - destruct (q a); cbn; lia.
Qed.

Lemma filter_length_lt {A} (p q : A -> bool) l a :
  (forall x, In x l -> p x = true -> q x = true) -> In a l -> p a = false -> q a = true ->
  length (filter p l) < length (filter q l).
Proof.
  induction l as [|b l IH]; intros H I Pa Qa; [destruct I|]. cbn.
  assert (Hl : forall x, In x l -> p x = true -> q x = true) by (intros; apply H; cbn; auto).
  destruct I as [->|I].
  - rewrite Pa, Qa. cbn. pose proof (filter_length_le p q l Hl). lia.
  - specialize (IH Hl I Pa Qa). destruct (p b) eqn:Pb.
    + rewrite (H b (or_introl eq_refl) Pb). cbn. lia.
    + destruct (q b); cbn; lia.
Qed.

Section Termination.
  Variable g : dgraph.
  Variable pred : dty -> bool.
  Variable E : list (nat * nat).
  Hypothesis Hclosed : forall d p, In p (paths_of g d) -> is_type g p.

  Definition undecided (s : st) (d : nat) : bool :=
    negb (memb d (vis s)) && match getm (cmap s) d with None => true | Some _ => false end.
  Definition mu (s : st) : nat := length (filter (undecided s) (map fst g)).

  (* the state only grows *)
  Definition grows (s s' : st) : Prop :=
    (forall x, In x (vis s) -> In x (vis s')) /\ (forall x, getm (cmap s) x <> None -> getm (cmap s') x <> None).

  Lemma grows_refl s : grows s s.
  Proof. split; auto. Qed.

  Lemma grows_trans s1 s2 s3 : grows s1 s2 -> grows s2 s3 -> grows s1 s3.
  Proof. intros [A B] [C D]. split; auto. Qed.

  Lemma undecided_mono s s' x : grows s s' -> undecided s' x = true -> undecided s x = true.
  Proof.
    intros [V M] H. unfold undecided in *. apply andb_true_iff in H. destruct H as [H1 H2].
    apply andb_true_iff. split.
    - apply negb_true_iff. apply negb_true_iff in H1. apply memb_false. apply memb_false in H1. auto.
    - destruct (getm (cmap s) x) eqn:Q; [|reflexivity].
      assert (N : getm (cmap s) x <> None) by congruence. apply M in N. destruct (getm (cmap s') x); [discriminate|congruence].
  Qed.

  Lemma mu_mono s s' : grows s s' -> mu s' <= mu s.
  Proof. intros G. unfold mu. apply filter_length_le. intros x _. now apply undecided_mono. Qed.

  Lemma find_item_fst d it : find_item g d = Some it -> In d (map fst g).
  Proof. intros F. apply find_item_in in F. change d with (fst (d, it)). now apply in_map. Qed.

  Lemma walk_list_terminates f n :
    (forall d s, is_type g d -> mu s < n -> exists r s', f d s = Done (r, s') /\ grows s s') ->
    forall ps s, (forall p, In p ps -> is_type g p) -> mu s < n ->
      exists rs s', walk_list f ps s = Done (rs, s') /\ grows s s'.
  Proof.
    intros Hf. induction ps as [|p r IH]; intros s T M; cbn [walk_list].
    - exists [], s. split; [reflexivity|apply grows_refl].
    - destruct (Hf p s (T p (or_introl eq_refl)) M) as [b [sa [Fp Ga]]]. rewrite Fp.
      destruct (IH sa (fun q H => T q (or_intror H))) as [bs [sb [Wr Gb]]].
      { pose proof (mu_mono s sa Ga). lia. }
      rewrite Wr. exists (b :: bs), sb. split; [reflexivity|eapply grows_trans; eauto].
  Qed.

  Lemma grows_finish s s2 d r m2 dl :
    grows (mkSt (cmap s) (d :: vis s) (del s)) s2 -> ~ In d (vis s) ->
    (forall x, getm (cmap s2) x <> None -> getm m2 x <> None) ->
    grows s (mkSt (setm m2 d r) (remove_nat d (vis s2)) dl).
  Proof.
    intros [V M] NV K. split; cbn [cmap vis].
    - intros x H. apply in_remove_nat. split; [apply V; now right|]. intros ->. contradiction.
    - intros x H. destruct (Nat.eq_dec x d) as [->|N]; [rewrite getm_setm_eq; discriminate|].
      rewrite getm_setm_neq by assumption. apply K. now apply M.
  Qed.

  Lemma can_derive_terminates fuel :
    forall d s, is_type g d -> mu s < fuel -> exists r s', can_derive g pred E fuel d s = Done (r, s') /\ grows s s'.
  Proof.
    induction fuel as [|f IH]; intros d s T M; [lia|]. cbn [can_derive].
    destruct (getm (cmap s) d) as [b|] eqn:G; [exists b, s; split; [reflexivity|apply grows_refl]|].
    destruct (memb d (vis s)) eqn:MV; [exists Delay, s; split; [reflexivity|apply grows_refl]|].
    destruct T as [it [ds [F Dp]]]. rewrite F, Dp.
    pose proof MV as NV. apply memb_false in NV.
    set (s1 := mkSt (cmap s) (d :: vis s) (del s)).
    assert (G1 : grows s s1) by (split; cbn; auto).
    assert (M1 : mu s1 < f).
    { assert (mu s1 < mu s); [|lia]. unfold mu. apply filter_length_lt with (a := d).
      - intros x _. now apply undecided_mono.
      - eapply find_item_fst; eauto.
      - unfold undecided, s1. cbn [vis memb existsb]. now rewrite Nat.eqb_refl.
      - unfold undecided. now rewrite MV, G. }
    destruct (existsb pred ds).
    { unfold finish. eexists _, _. split; [reflexivity|]. apply grows_finish with (s2 := s1); auto. apply grows_refl. }
    destruct (walk_list_terminates (can_derive g pred E f) f IH (flat_map collect ds) s1) as [rs [s2 [W G2]]]; [|exact M1|].
    { intros p Hp. apply (Hclosed d). unfold paths_of. now rewrite F, Dp. }
    rewrite W. unfold finish, downgrade.
    destruct (existsb is_no rs); [|destruct (existsb is_delay rs)]; eexists _, _; (split; [reflexivity|]);
      cbn [cmap vis del]; apply grows_finish with (s2 := s2); auto.
    intros x H. rewrite getm_downgrade_map. destruct (memb x (del s2) && reachb E x d); [discriminate|assumption].
  Qed.

  Lemma mu_bound s : mu s <= length g.
  Proof. unfold mu. rewrite <- (map_length fst g). apply filter_len_le. Qed.

  Lemma on_item_terminates m d :
    In d (map fst g) -> exists m', on_item g pred E (S (length g)) m d = Done m'.
  Proof.
    intros I. unfold on_item.
    destruct (find_item g d) as [it|] eqn:F; [destruct (deps it) as [ds|] eqn:Dp|].
    - destruct (can_derive_terminates (S (length g)) d (mkSt m [] [])) as [r [s' [C _]]].
      + exists it, ds. auto.
      + pose proof (mu_bound (mkSt m [] [])). lia.
      + rewrite C. eauto.
    - cbn [can_derive cmap vis]. destruct (getm m d); [eauto|]. cbn [memb existsb]. rewrite F, Dp. eauto.
    - exfalso. apply in_map_iff in I. destruct I as [[k it] [Q I]]. cbn in Q. subst k.
      apply in_find_item in I. destruct I as [it' I]. congruence.
  Qed.

  Lemma run_items_terminates order :
    forall m, (forall d, In d order -> In d (map fst g)) -> exists m', run_items g pred E (S (length g)) order m = Done m'.
  Proof.
    induction order as [|d r IH]; intros m H; cbn [run_items]; [eauto|].
    destruct (on_item_terminates m d (H d (or_introl eq_refl))) as [m1 O]. rewrite O.
    apply IH. intros x Hx. apply H. now right.
  Qed.
End Termination.

Theorem derive_terminates tr g order :
  closed_b g = true -> (forall d, In d order -> In d (map fst g)) -> exists m, run tr g order = Done m.
Proof.
  intros C H. unfold run. apply run_items_terminates; [apply closed_b_closed; exact C|exact H].
Qed.

(* ---- completeness of No, and #[derive(Hash, Eq, Ord)] implies #[derive(PartialOrd)] ------------------------------------------
   (derive(Ord) needs a PartialOrd impl on the same item: rustc E0277 otherwise) *)
Section NoComplete.
  Variable g : dgraph.
  Variable pred : dty -> bool.
  Variable E : list (nat * nat).
  Hypothesis Hclosed : forall d p, In p (paths_of g d) -> is_type g p.
  (* the graph the downgrade consults has no edge that is not a path *)
  Hypothesis Hsub : forall a b, In (a, b) E -> In b (paths_of g a).

  (* d contains, transitively, an item one of whose types the predicate rejects *)
  Definition bad (d : nat) : Prop :=
    exists d' it ds, contains g d d' /\ find_item g d' = Some it /\ deps it = Some ds /\ existsb pred ds = true.

  Lemma contains_trans a b c : contains g a b -> contains g b c -> contains g a c.
  Proof. induction 1; [auto|]. intros. eapply contains_step; eauto. Qed.

  Lemma reach_contains a b : reach E a b -> contains g a b.
  Proof. induction 1; [constructor|]. eapply contains_step; eauto. Qed.

  Lemma bad_step d p : In p (paths_of g d) -> bad p -> bad d.
  Proof. intros H [d' [it [ds [C R]]]]. exists d', it, ds. split; [eapply contains_step; eauto|exact R]. Qed.

  Definition NI (m : cmapT) : Prop := forall x, getm m x = Some No -> bad x.

  Lemma walk_list_no f :
    (forall d s r s', NI (cmap s) -> is_type g d -> f d s = Done (r, s') -> NI (cmap s') /\ (r = No -> bad d)) ->
    forall ps s rs s', NI (cmap s) -> (forall p, In p ps -> is_type g p) -> walk_list f ps s = Done (rs, s') ->
      NI (cmap s') /\ (existsb is_no rs = true -> exists p, In p ps /\ bad p).
  Proof.
    intros Hf. induction ps as [|p r IH]; intros s rs s' N T W; cbn [walk_list] in W.
    - injection W as <- <-. split; [assumption|]. cbn. discriminate.
    - destruct (f p s) as [[b sa]| |] eqn:Fp; try discriminate.
      destruct (walk_list f r sa) as [[bs sb]| |] eqn:Wr; try discriminate.
      injection W as <- <-.
      destruct (Hf p s b sa N (T p (or_introl eq_refl)) Fp) as [Na Ba].
      destruct (IH sa bs sb Na (fun q H => T q (or_intror H)) Wr) as [Nb Bb].
      split; [assumption|]. cbn [existsb]. intros H. apply orb_true_iff in H. destruct H as [H|H].
      + exists p. split; [now left|]. apply Ba. now destruct b.
      + destruct (Bb H) as [q [Hq Bq]]. exists q. split; [now right|assumption].
  Qed.

  Lemma can_derive_no fuel :
    forall d s r s', NI (cmap s) -> is_type g d -> can_derive g pred E fuel d s = Done (r, s') ->
      NI (cmap s') /\ (r = No -> bad d).
  Proof.
    induction fuel as [|f IH]; intros d s r s' N T C; cbn [can_derive] in C; [discriminate|].
    destruct (getm (cmap s) d) as [b|] eqn:G.
    { injection C as <- <-. split; [assumption|]. intros ->. now apply N. }
    destruct (memb d (vis s)); [injection C as <- <-; split; [assumption|discriminate]|].
    destruct T as [it [ds [F Dp]]]. rewrite F, Dp in C.
    assert (setNI : forall m c, NI m -> (c = No -> bad d) -> NI (setm m d c)).
    { intros m c Nm H x Hx. destruct (Nat.eq_dec x d) as [->|Nx].
      - rewrite getm_setm_eq in Hx. injection Hx as ->. now apply H.
      - rewrite getm_setm_neq in Hx by assumption. now apply Nm. }
    destruct (existsb pred ds) eqn:Pr.
    { injection C as <- <-. cbn [cmap].
      assert (B : bad d) by (exists d, it, ds; split; [constructor|auto]).
      split; [apply setNI; auto|auto]. }
    destruct (walk_list (can_derive g pred E f) (flat_map collect ds) (mkSt (cmap s) (d :: vis s) (del s)))
      as [[rs s2]| |] eqn:W; try discriminate.
    destruct (walk_list_no (can_derive g pred E f) IH (flat_map collect ds) (mkSt (cmap s) (d :: vis s) (del s)) rs s2 N) as [N2 B2];
      [| exact W |].
    { intros p Hp. apply (Hclosed d). unfold paths_of. now rewrite F, Dp. }
    destruct (existsb is_no rs) eqn:AnyNo.
    { injection C as <- <-. cbn [cmap downgrade].
      assert (B : bad d).
      { destruct (B2 eq_refl) as [p [Hp Bp]]. apply (bad_step d p); [|assumption]. unfold paths_of. now rewrite F, Dp. }
      split; [|auto]. apply setNI; [|auto].
      intros x Hx. rewrite getm_downgrade_map in Hx.
      destruct (memb x (del s2) && reachb E x d) eqn:Q; [|now apply N2].
      apply andb_true_iff in Q. destruct Q as [_ Q]. apply reachb_correct in Q. apply reach_contains in Q.
      destruct B as [d' [it' [ds' [C' R']]]]. exists d', it', ds'. split; [eapply contains_trans; eauto|exact R']. }
    destruct (existsb is_delay rs); injection C as <- <-; cbn [cmap]; (split; [apply setNI; [assumption|discriminate]|discriminate]).
  Qed.

  Lemma run_items_no fuel order :
    forall m m', NI m -> run_items g pred E fuel order m = Done m' -> NI m'.
  Proof.
    induction order as [|d r IH]; intros m m' N R; cbn [run_items] in R; [injection R as <-; exact N|].
    destruct (on_item g pred E fuel m d) as [m1| |] eqn:O; try discriminate.
    eapply IH; [|exact R]. unfold on_item in O.
    destruct (can_derive g pred E fuel d (mkSt m [] [])) as [[r0 s']| |] eqn:C; try discriminate. injection O as <-.
    destruct (find_item g d) as [it|] eqn:F; [destruct (deps it) as [ds|] eqn:Dp|].
    - apply (can_derive_no fuel d (mkSt m [] []) r0 s' N); [exists it, ds; auto|exact C].
    - destruct fuel as [|f]; cbn [can_derive cmap vis] in C; [discriminate|].
      destruct (getm m d); [injection C as <- <-; exact N|].
      cbn [memb existsb] in C. rewrite F, Dp in C. injection C as <- <-. exact N.
    - destruct fuel as [|f]; cbn [can_derive cmap vis] in C; [discriminate|].
      destruct (getm m d); [injection C as <- <-; exact N|].
      cbn [memb existsb] in C. rewrite F in C. discriminate.
  Qed.

  (* entries are never removed, and a call on a type item leaves it decided or being visited *)
  Lemma walk_list_dom f :
    (forall d s r s', f d s = Done (r, s') -> forall x, getm (cmap s) x <> None -> getm (cmap s') x <> None) ->
    forall ps s rs s', walk_list f ps s = Done (rs, s') -> forall x, getm (cmap s) x <> None -> getm (cmap s') x <> None.
  Proof.
    intros Hf. induction ps as [|p r IH]; intros s rs s' W; cbn [walk_list] in W; [injection W as <- <-; auto|].
    destruct (f p s) as [[b sa]| |] eqn:Fp; try discriminate.
    destruct (walk_list f r sa) as [[bs sb]| |] eqn:Wr; try discriminate.
    injection W as <- <-. intros x H. eapply IH; eauto.
  Qed.

  Lemma can_derive_dom fuel :
    forall d s r s', can_derive g pred E fuel d s = Done (r, s') ->
      (forall x, getm (cmap s) x <> None -> getm (cmap s') x <> None) /\
      (is_type g d -> getm (cmap s') d <> None \/ In d (vis s)).
  Proof.
    induction fuel as [|f IH]; intros d s r s' C; cbn [can_derive] in C; [discriminate|].
    destruct (getm (cmap s) d) as [b|] eqn:G.
    { injection C as <- <-. split; [auto|]. intros _. left. congruence. }
    destruct (memb d (vis s)) eqn:MV.
    { injection C as <- <-. split; [auto|]. intros _. right. now apply memb_in. }
    destruct (find_item g d) as [it|] eqn:F; [|discriminate].
    destruct (deps it) as [ds|] eqn:Dp.
    2:{ injection C as <- <-. split; [auto|]. intros [it' [ds' [F' D']]]. congruence. }
    assert (setd : forall m c x, getm m x <> None -> getm (setm m d c) x <> None).
    { intros m c x H. destruct (Nat.eq_dec x d) as [->|N]; [rewrite getm_setm_eq; discriminate|now rewrite getm_setm_neq]. }
    destruct (existsb pred ds).
    { injection C as <- <-. cbn [cmap]. split; [intros x H; now apply setd|]. intros _. left. rewrite getm_setm_eq. discriminate. }
    destruct (walk_list (can_derive g pred E f) (flat_map collect ds) (mkSt (cmap s) (d :: vis s) (del s)))
      as [[rs s2]| |] eqn:W; try discriminate.
    pose proof (walk_list_dom (can_derive g pred E f) (fun d s r s' H => proj1 (IH d s r s' H)) _ _ _ _ W) as D2. cbn [cmap] in D2.
    destruct (existsb is_no rs); [|destruct (existsb is_delay rs)]; injection C as <- <-; cbn [cmap downgrade];
      (split; [|intros _; left; rewrite getm_setm_eq; discriminate]); intros x H; apply setd; auto.
    rewrite getm_downgrade_map. destruct (memb x (del s2) && reachb E x d); [discriminate|auto].
  Qed.

  Lemma run_items_dom fuel order :
    forall m m', run_items g pred E fuel order m = Done m' ->
      (forall x, getm m x <> None -> getm m' x <> None) /\
      (forall d, In d order -> is_type g d -> getm m' d <> None).
  Proof.
    induction order as [|d r IH]; intros m m' R; cbn [run_items] in R.
    - injection R as <-. split; [auto|intros d []].
    - destruct (on_item g pred E fuel m d) as [m1| |] eqn:O; try discriminate.
      destruct (IH m1 m' R) as [K1 K2]. unfold on_item in O.
      destruct (can_derive g pred E fuel d (mkSt m [] [])) as [[r0 s']| |] eqn:C; try discriminate. injection O as <-.
      destruct (can_derive_dom fuel d _ r0 s' C) as [D1 D2]. cbn [cmap vis] in *.
      split; [intros x H; apply K1; now apply D1|].
      intros x [<-|Hx] T; [|now apply K2]. apply K1. destruct (D2 T) as [H|[]]. exact H.
  Qed.
End NoComplete.

Lemma ws_visit_sub t p : In p (ws_visit t) -> In p (collect t).
Proof. now rewrite ws_visit_collect. Qed.

(* with unique ids, every edge of the workspace graph is a path of its source item *)
Lemma ws_edges_sub g : NoDup (map fst g) -> forall a b, In (a, b) (ws_edges g) -> In b (paths_of g a).
Proof.
  intros ND a b H. unfold ws_edges in H. apply in_flat_map in H. destruct H as [[k it] [I H]].
  unfold item_edges in H. cbn [fst snd] in H. destruct (deps it) as [ds|] eqn:Dp; [|destruct H].
  apply in_map_iff in H. destruct H as [x [Q H]]. injection Q as -> ->.
  destruct (in_find_item g a it I) as [it' F]. pose proof (find_item_in g a it' F) as I'.
  assert (it' = it) by (eapply NoDup_fst_unique; eauto). subst it'.
  unfold paths_of. rewrite F, Dp. apply in_flat_map in H. destruct H as [t [Ht H]].
  apply in_flat_map. exists t. split; [assumption|now apply ws_visit_sub].
Qed.

Lemma pred_po_heo t : pred_no PO t = true -> pred_no HEO t = true.
Proof.
  rewrite !pred_adequate, !negb_true_iff.
  induction t as [b|d|t IH|t _|t IH|k _ v _|k IHk v IHv|t IH]; cbn [kinds_ok]; auto; try discriminate.
  intros H. apply andb_false_iff in H. apply andb_false_iff. destruct H; [left|right]; auto.
Qed.

Theorem derive_ord_implies_partialord g order mp mh :
  NoDup (map fst g) -> closed_b g = true ->
  run PO g order = Done mp -> run HEO g order = Done mh ->
  forall d, In d order -> derives mh d = true -> derives mp d = true.
Proof.
  intros ND C RP RH d Hd Dh. unfold run in *. pose proof (ws_complete_all g) as W.
  pose proof (closed_b_closed g C) as Hc.
  assert (Hsub : forall a b, In (a, b) (downgrade_edges g) -> In b (paths_of g a))
    by (rewrite downgrade_edges_ws; now apply ws_edges_sub).
  assert (TH : TopInv g (pred_no HEO) mh).
  { eapply run_items_top; [exact Hc| |apply top_empty|exact RH]. rewrite downgrade_edges_ws. now apply ws_complete_edges. }
  apply derives_okm in Dh. destruct (top_pred _ _ _ TH d Dh) as [it [ds [F [Dp _]]]].
  assert (T : is_type g d) by (exists it, ds; auto).
  destruct (run_items_dom g (pred_no PO) (downgrade_edges g) _ order [] mp RP) as [_ K].
  specialize (K d Hd T).
  destruct (derives mp d) eqn:Dpo; [reflexivity|exfalso].
  assert (Q : getm mp d = Some No).
  { unfold derives in Dpo. destruct (getm mp d) as [[| |]|]; congruence. }
  assert (N : NI g (pred_no PO) mp).
  { eapply run_items_no; [exact Hc|exact Hsub| |exact RP]. intros x H. cbn in H. discriminate. }
  destruct (N d Q) as [d' [it' [ds' [R [F' [D' B]]]]]].
  (* the HEO set is closed under contains, so d' carries Hash/Eq/Ord although one of its types is rejected *)
  assert (Od' : okm mh d').
  { clear - R Dh TH. induction R as [x|x p y Hp R IH]; [assumption|]. apply IH.
    destruct Dh as [H|H]; [left; eapply (top_yes _ _ _ TH); eauto|eapply (top_delay _ _ _ TH); eauto]. }
  destruct (top_pred _ _ _ TH d' Od') as [it2 [ds2 [F2 [D2 P2]]]].
  rewrite F' in F2. injection F2 as <-. rewrite D' in D2. injection D2 as <-.
  apply existsb_exists in B. destruct B as [t [Ht Bt]]. apply pred_po_heo in Bt.
  assert (existsb (pred_no HEO) ds' = true) by (apply existsb_exists; eauto). congruence.
Qed.

(* ---- the witnesses of the two repaired findings -------------------------------------------------------------------------------- *)
(* finding F-14k (repaired): struct S { 1: map<i32, double> m (pilota.rust_type = "btree") } got #[derive(Hash, Eq, Ord)]
   because the predicate closure tested the top of the type only; it looks inside btree containers now *)
Definition btree_double : dgraph := [(0, DMsg [DBTreeMap (DBase BI32) (DBase BF64)])].

Example derive_btree_fixed :
  decisions HEO btree_double [0] = Done [(0, No)] /\ decisions PO btree_double [0] = Done [(0, Yes)] /\
  verdict HEO btree_double [0] = Done true.
Proof. repeat split; vm_compute; reflexivity. Qed.

(* finding F-14s (repaired): struct A { 1: B b, 2: N n }  struct B { 1: optional A a (pilota.rust_wrapper_arc = "true") }
   struct N { 1: double x } -- B is delayed on A, A becomes No through N; the edge B -> A below Arc (likewise below
   BTreeSet / BTreeMap) was not in the workspace graph, so B was not downgraded and kept the derive.  It is downgraded now. *)
Definition arc_cycle : dgraph :=
  [(0, DMsg [DPath 1; DPath 2]); (1, DMsg [DArc (DPath 0)]); (2, DMsg [DBase BF64])].
Definition btree_cycle : dgraph :=
  [(0, DMsg [DPath 1; DPath 2]); (1, DMsg [DBTreeSet (DPath 0)]); (2, DMsg [DBase BF64])].

Example derive_cycle_edge_fixed :
  forall g, g = arc_cycle \/ g = btree_cycle ->
    decisions HEO g [0; 1; 2] = Done [(0, No); (1, No); (2, No)] /\
    decisions PO g [0; 1; 2] = Done [(0, Delay); (1, Delay); (2, Yes)] /\
    verdict HEO g [0; 1; 2] = Done true.
Proof. intros g [-> | ->]; repeat split; vm_compute; reflexivity. Qed.

(* ---- non-vacuity: cycles closed through list / map / optional fields with a float leaf in a LATER field, in both
   declaration orders (the shape on which a downgrade through the type graph instead of the workspace graph goes wrong):
   the hypotheses of derive_sound hold, nobody gets Hash/Eq/Ord, everybody gets PartialOrd *)
Definition list_cycle : dgraph :=
  [(0, DMsg [DVec (DPath 1); DPath 2]);                       (* A { edges: list<B>, weight: L } *)
   (1, DMsg [DVec (DVec (DPath 0))]);                         (* B { targets: list<list<A>> } *)
   (2, DMsg [DBase BF64]);                                    (* L { value: double } *)
   (3, DNewType (DVec (DPath 4)));                            (* typedef list<E> T *)
   (4, DEnum [[]; []]);                                       (* enum E *)
   (5, DEnum [[DPath 3]; [DBTreeSet (DBase BI32)]]);          (* union U { T t; set<i32> (btree) s } *)
   (6, DService);
   (7, DMsg [DMap (DBase BFastStr) (DPath 3)])].              (* M { m: map<string, T> } *)

Example derive_nonvacuous :
  closed_b list_cycle = true /\
  decisions HEO list_cycle [0; 1; 2; 3; 4; 5; 6; 7] = Done [(0, No); (1, No); (2, No); (3, Yes); (4, Yes); (5, Yes); (7, No)] /\
  decisions HEO list_cycle [7; 6; 5; 1; 0; 2] = Done [(0, No); (1, No); (2, No); (3, Yes); (4, Yes); (5, Yes); (7, No)] /\
  decisions PO list_cycle [0; 1; 2; 3; 4; 5; 6; 7] = Done [(0, Delay); (1, Delay); (2, Yes); (3, Yes); (4, Yes); (5, Yes); (7, No)] /\
  verdict HEO list_cycle [1; 0] = Done true.
Proof. repeat split; vm_compute; reflexivity. Qed.

Example derive_ord_nonvacuous :
  NoDup (map fst list_cycle) /\
  (exists mp mh, run PO list_cycle [5; 0; 7] = Done mp /\ run HEO list_cycle [5; 0; 7] = Done mh /\
                 derives mh 5 = true /\ derives mp 5 = true /\ derives mh 0 = false /\ derives mp 0 = true).
Proof.
  split; [cbn; repeat constructor; cbn; intuition discriminate|].
  eexists. eexists. split; [vm_compute; reflexivity|]. split; [vm_compute; reflexivity|]. repeat split; vm_compute; reflexivity.
Qed.
