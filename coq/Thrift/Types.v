(* Thrift wire type enums (constructors fixed here; their numeric codes and the
   conversion tables are REGENERATED from the Rust source into Generated/ThriftConsts.v). *)
From PV Require Export Base.Varint.

Inductive ttype :=
| TStop | TVoid | TBool | TI8 | TDouble | TI16 | TI32 | TI64 | TBinary | TStruct | TMap | TSet | TList | TUuid.

Inductive ctype :=
| CStop | CBooleanTrue | CBooleanFalse | CByte | CI16 | CI32 | CI64 | CDouble | CBinary | CList | CSet | CMap | CStruct | CUuid.

Inductive mtype := MCall | MReply | MException | MOneWay.

Definition ttype_eqb (a b : ttype) : bool :=
  match a, b with
  | TStop, TStop | TVoid, TVoid | TBool, TBool | TI8, TI8 | TDouble, TDouble | TI16, TI16
  | TI32, TI32 | TI64, TI64 | TBinary, TBinary | TStruct, TStruct | TMap, TMap | TSet, TSet
  | TList, TList | TUuid, TUuid => true
  | _, _ => false
  end.

Lemma ttype_eqb_spec a b : reflect (a = b) (ttype_eqb a b).
Proof. destruct a, b; cbn; constructor; congruence. Qed.

Definition all_ttypes : list ttype :=
  [TStop; TVoid; TBool; TI8; TDouble; TI16; TI32; TI64; TBinary; TStruct; TMap; TSet; TList; TUuid].
Definition all_ctypes : list ctype :=
  [CStop; CBooleanTrue; CBooleanFalse; CByte; CI16; CI32; CI64; CDouble; CBinary; CList; CSet; CMap; CStruct; CUuid].
