(* Numeric facts for the literal model (C20): `i as f64` of Lit.v (rne / z2f, closed form over Z) is round-to-nearest,
   ties-to-even onto the binary64 grid, stated WITHOUT real numbers: a double is m * 2^e with |m| < 2^53, e >= -1074;
   distances to the integer i are compared after scaling by 2^1074, so everything is an integer.  The specification's
   neighbour formulation (LitSpec.nearest53 / ieee_bits) is the same function. *)
From PVGen Require Import Lit LitSpec.
From Coq Require Import Lia ZifyBool.
Open Scope Z_scope.

Lemma no_double_between k q m E : 0 < k -> 2 ^ 52 <= q -> 0 <= m < 2 ^ 53 -> 0 <= E ->
  ~ (q * 2 ^ (k + 1074) < m * 2 ^ E < (q + 1) * 2 ^ (k + 1074)).
Proof.
  intros Hk Hq Hm HE. destruct (Z_le_gt_dec (k + 1074) E) as [Hle|Hgt].
  - assert (EE : 2 ^ E = 2 ^ (k + 1074) * 2 ^ (E - (k + 1074))) by (rewrite <- Z.pow_add_r by lia; f_equal; lia).
    rewrite EE.
    assert (0 < 2 ^ (k + 1074)) by (apply Z.pow_pos_nonneg; lia).
    assert (0 < 2 ^ (E - (k + 1074))) by (apply Z.pow_pos_nonneg; lia).
    set (U := 2 ^ (k + 1074)) in *. set (W := 2 ^ (E - (k + 1074))) in *. intros [A B].
    replace (m * (U * W)) with ((m * W) * U) in A, B by ring.
    apply Z.mul_lt_mono_pos_r in A; [|assumption]. apply Z.mul_lt_mono_pos_r in B; [|assumption]. lia.
  - assert (EE : 2 ^ (k + 1074) = 2 ^ E * 2 ^ (k + 1074 - E)) by (rewrite <- Z.pow_add_r by lia; f_equal; lia).
    rewrite EE.
    assert (0 < 2 ^ E) by (apply Z.pow_pos_nonneg; lia).
    assert (2 ^ 1 <= 2 ^ (k + 1074 - E)) by (apply Z.pow_le_mono_r; lia).
    set (P := 2 ^ E) in *. set (V := 2 ^ (k + 1074 - E)) in *. change (2 ^ 1) with 2 in *. intros [A _].
    replace (q * (P * V)) with ((q * V) * P) in A by ring.
    apply Z.mul_lt_mono_pos_r in A; [|assumption].
    change (2 ^ 53) with (2 * 2 ^ 52) in Hm. assert (2 * 2 ^ 52 <= q * V) by nia. lia.
Qed.

Lemma rne53_parts n : 0 < n -> 0 < Z.log2 n + 1 - 53 ->
  let k := Z.log2 n + 1 - 53 in
  2 ^ 52 <= n / 2 ^ k < 2 ^ 53 /\ 0 <= n mod 2 ^ k < 2 ^ k /\ n = (n / 2 ^ k) * 2 ^ k + n mod 2 ^ k /\ 2 ^ k = 2 * 2 ^ (k - 1).
Proof.
  intros Hn Hk k. pose proof (Z.log2_spec n Hn) as [Hlo Hhi].
  assert (P : 0 < 2 ^ k) by (apply Z.pow_pos_nonneg; lia).
  assert (E1 : 2 ^ Z.log2 n = 2 ^ 52 * 2 ^ k) by (rewrite <- Z.pow_add_r by lia; f_equal; lia).
  assert (E2 : 2 ^ Z.succ (Z.log2 n) = 2 ^ 53 * 2 ^ k) by (rewrite <- Z.pow_add_r by lia; f_equal; lia).
  split; [split|].
  - apply Z.div_le_lower_bound; lia.
  - apply Z.div_lt_upper_bound; lia.
  - split; [apply Z.mod_pos_bound; lia|]. split.
    + pose proof (Z.div_mod n (2 ^ k)). lia.
    + replace k with (1 + (k - 1)) at 1 by lia. rewrite Z.pow_add_r by lia. reflexivity.
Qed.

Lemma rne53_nearest_mag n m E : 0 <= n -> 0 <= m < 2 ^ 53 -> 0 <= E ->
  Z.abs (n - fst (rne 53 n) * 2 ^ snd (rne 53 n)) * 2 ^ 1074 <= Z.abs (n * 2 ^ 1074 - m * 2 ^ E).
Proof.
  intros Hn Hm HE. unfold rne.
  destruct (Z.log2 n + 1 - 53 <=? 0) eqn:Ek.
  - cbn [fst snd]. rewrite Z.pow_0_r, Z.mul_1_r, Z.sub_diag. cbn. lia.
  - assert (Hk : 0 < Z.log2 n + 1 - 53) by lia.
    assert (Hn0 : 0 < n).
    { destruct (Z.eq_dec n 0) as [->|]; [cbn in Hk; lia|lia]. }
    destruct (rne53_parts n Hn0 Hk) as (Hq & Hr & Hdm & Hh).
    pose proof (no_double_between _ _ _ _ Hk (proj1 Hq) Hm HE) as Hnb.
    set (k := Z.log2 n + 1 - 53) in *. cbn [fst snd].
    assert (EU : 2 ^ (k + 1074) = 2 ^ k * 2 ^ 1074) by (apply Z.pow_add_r; lia).
    rewrite EU in Hnb.
    assert (PK : 0 < 2 ^ 1074) by (apply Z.pow_pos_nonneg; lia).
    assert (Ph : 0 < 2 ^ (k - 1)) by (apply Z.pow_pos_nonneg; lia).
    set (q := n / 2 ^ k) in *. set (r := n mod 2 ^ k) in *. set (h := 2 ^ (k - 1)) in *.
    set (K := 2 ^ 1074) in *. set (X := m * 2 ^ E) in *. rewrite Hh in *. clearbody q r h K X.
    destruct ((h <? r) || ((r =? h) && Z.odd q)) eqn:Eup.
    + assert (Hrh : h <= r) by lia.
      replace (n - (q + 1) * (2 * h)) with (- (2 * h - r)) by lia. rewrite Z.abs_opp, Z.abs_eq by lia.
      assert (h * K <= r * K) by nia.
      replace (n * K) with (q * (2 * h * K) + r * K) by lia.
      replace ((q + 1) * (2 * h * K)) with (q * (2 * h * K) + 2 * (h * K)) in Hnb by ring.
      replace ((2 * h - r) * K) with (2 * (h * K) - r * K) by ring.
      assert (r * K < 2 * (h * K)) by nia. lia.
    + assert (Hrh : r <= h) by lia.
      replace (n - q * (2 * h)) with r by lia. rewrite Z.abs_eq by lia.
      assert (r * K <= h * K) by nia.
      replace (n * K) with (q * (2 * h * K) + r * K) by lia.
      replace ((q + 1) * (2 * h * K)) with (q * (2 * h * K) + 2 * (h * K)) in Hnb by ring.
      assert (0 <= r * K) by nia. lia.
Qed.

Theorem z2f53_nearest i m e : Z.abs m < 2 ^ 53 -> -1074 <= e ->
  Z.abs (i - z2f 53 i) * 2 ^ 1074 <= Z.abs (i * 2 ^ 1074 - m * 2 ^ (e + 1074)).
Proof.
  intros Hm He. unfold z2f.
  pose proof (rne53_nearest_mag (Z.abs i) (Z.abs m) (e + 1074) (Z.abs_nonneg i)) as H.
  destruct (rne 53 (Z.abs i)) as (q, k). cbn [fst snd] in H.
  specialize (H ltac:(lia) ltac:(lia)).
  assert (PK : 0 < 2 ^ 1074) by (apply Z.pow_pos_nonneg; lia).
  assert (PP : 0 < 2 ^ (e + 1074)) by (apply Z.pow_pos_nonneg; lia).
  set (K := 2 ^ 1074) in *. set (P := 2 ^ (e + 1074)) in *. set (r := q * 2 ^ k) in *. clearbody K P r.
  assert (E1 : Z.abs i * K = Z.abs (i * K)) by (rewrite Z.abs_mul, (Z.abs_eq K); lia).
  assert (E2 : Z.abs m * P = Z.abs (m * P)) by (rewrite Z.abs_mul, (Z.abs_eq P); lia).
  rewrite E1, E2 in H.
  assert (D : Z.abs (i - Z.sgn i * r) <= Z.abs (Z.abs i - r)).
  { destruct (Z.sgn_spec i) as [[? ->]|[[? ->]|[? ->]]]; lia. }
  assert (Z.abs (i - Z.sgn i * r) * K <= Z.abs (Z.abs i - r) * K) by nia.
  lia.
Qed.

(* ties go to the even significand *)
Lemma rne53_tie_even_mag n m E : 0 <= n -> 0 <= m < 2 ^ 53 -> 0 <= E ->
  Z.abs (n - fst (rne 53 n) * 2 ^ snd (rne 53 n)) * 2 ^ 1074 = Z.abs (n * 2 ^ 1074 - m * 2 ^ E) ->
  m * 2 ^ E <> fst (rne 53 n) * 2 ^ snd (rne 53 n) * 2 ^ 1074 ->
  Z.even (fst (rne 53 n)) = true.
Proof.
  intros Hn Hm HE. unfold rne.
  destruct (Z.log2 n + 1 - 53 <=? 0) eqn:Ek.
  - cbn [fst snd]. rewrite Z.pow_0_r, Z.mul_1_r, Z.sub_diag. cbn [Z.abs Z.mul]. lia.
  - assert (Hk : 0 < Z.log2 n + 1 - 53) by lia.
    assert (Hn0 : 0 < n).
    { destruct (Z.eq_dec n 0) as [->|]; [cbn in Hk; lia|lia]. }
    destruct (rne53_parts n Hn0 Hk) as (Hq & Hr & Hdm & Hh).
    pose proof (no_double_between _ _ _ _ Hk (proj1 Hq) Hm HE) as Hnb.
    set (k := Z.log2 n + 1 - 53) in *. cbn [fst snd].
    assert (EU : 2 ^ (k + 1074) = 2 ^ k * 2 ^ 1074) by (apply Z.pow_add_r; lia).
    rewrite EU in Hnb.
    assert (PK : 0 < 2 ^ 1074) by (apply Z.pow_pos_nonneg; lia).
    assert (Ph : 0 < 2 ^ (k - 1)) by (apply Z.pow_pos_nonneg; lia).
    set (q := n / 2 ^ k) in *. set (r := n mod 2 ^ k) in *. set (h := 2 ^ (k - 1)) in *.
    set (K := 2 ^ 1074) in *. set (X := m * 2 ^ E) in *. rewrite Hh in *. clearbody q r h K X.
    destruct ((h <? r) || ((r =? h) && Z.odd q)) eqn:Eup.
    + assert (Hrh : h <= r) by lia.
      replace (n - (q + 1) * (2 * h)) with (- (2 * h - r)) by lia. rewrite Z.abs_opp, Z.abs_eq by lia.
      assert (h * K <= r * K) by nia.
      replace (n * K) with (q * (2 * h * K) + r * K) by lia.
      replace ((q + 1) * (2 * h * K)) with (q * (2 * h * K) + 2 * (h * K)) in Hnb by ring.
      replace ((2 * h - r) * K) with (2 * (h * K) - r * K) by ring.
      replace ((q + 1) * (2 * h) * K) with (q * (2 * h * K) + 2 * (h * K)) by ring.
      assert (r * K < 2 * (h * K)) by nia. intros Heq Hne.
      assert (r * K = h * K) by lia. assert (r = h) by nia.
      rewrite Z.even_add. replace (Z.even 1) with false by reflexivity.
      rewrite <- Z.negb_odd. destruct (Z.odd q); [reflexivity|lia].
    + assert (Hrh : r <= h) by lia.
      replace (n - q * (2 * h)) with r by lia. rewrite Z.abs_eq by lia.
      assert (r * K <= h * K) by nia.
      replace (n * K) with (q * (2 * h * K) + r * K) by lia.
      replace ((q + 1) * (2 * h * K)) with (q * (2 * h * K) + 2 * (h * K)) in Hnb by ring.
      replace (q * (2 * h) * K) with (q * (2 * h * K)) by ring.
      assert (0 <= r * K) by nia. intros Heq Hne.
      assert (r * K = h * K) by lia. assert (r = h) by nia.
      rewrite <- Z.negb_odd. destruct (Z.odd q); [lia|reflexivity].
Qed.

(* the specification's neighbour formulation is the same function *)
Lemma nearest53_rne n : 0 <= n -> nearest53 n = fst (rne 53 n) * 2 ^ snd (rne 53 n).
Proof.
  intros Hn. unfold nearest53, rne.
  destruct (Z.eq_dec n 0) as [->|Hn0]; [reflexivity|].
  assert (Hpos : 0 < n) by lia. pose proof (Z.log2_spec n Hpos) as [Hlo Hhi].
  destruct (Z.log2 n + 1 - 53 <=? 0) eqn:Ek.
  - cbn [fst snd]. rewrite Z.pow_0_r, Z.mul_1_r.
    assert (2 ^ Z.succ (Z.log2 n) <= 2 ^ 53) by (apply Z.pow_le_mono_r; lia).
    replace (n <? 2 ^ 53) with true by lia. reflexivity.
  - assert (Hk : 0 < Z.log2 n + 1 - 53) by lia.
    assert (2 ^ 53 <= 2 ^ Z.log2 n) by (apply Z.pow_le_mono_r; lia).
    replace (n <? 2 ^ 53) with false by lia.
    destruct (rne53_parts n Hpos Hk) as (Hq & Hr & Hdm & Hh).
    replace (Z.log2 n - 52) with (Z.log2 n + 1 - 53) by lia.
    set (k := Z.log2 n + 1 - 53) in *. cbn [fst snd].
    assert (Ph : 0 < 2 ^ (k - 1)) by (apply Z.pow_pos_nonneg; lia).
    assert (Elo : n - n mod 2 ^ k = n / 2 ^ k * 2 ^ k) by lia.
    rewrite Elo. rewrite Z.div_mul by lia.
    replace (n - n / 2 ^ k * 2 ^ k) with (n mod 2 ^ k) by lia.
    set (q := n / 2 ^ k) in *. set (r := n mod 2 ^ k) in *. rewrite Hh in *. set (h := 2 ^ (k - 1)) in *. clearbody q r h.
    rewrite <- Z.negb_odd.
    destruct (2 * r <? 2 * h) eqn:E1; [replace (h <? r) with false by lia; replace (r =? h) with false by lia; cbn; lia|].
    destruct (2 * h <? 2 * r) eqn:E2; [replace (h <? r) with true by lia; cbn; lia|].
    replace (h <? r) with false by lia. replace (r =? h) with true by lia. cbn [orb andb].
    destruct (Z.odd q); cbn [negb]; lia.
Qed.

Lemma ieee_bits_enc v : ieee_bits v = f64_enc v.
Proof.
  unfold ieee_bits, f64_enc. destruct (v =? 0) eqn:E0; [reflexivity|].
  assert (Ha : 0 < Z.abs v) by lia. pose proof (Z.log2_nonneg (Z.abs v)) as He.
  set (a := Z.abs v) in *. set (e := Z.log2 a) in *.
  assert (Ef : (a * 2 ^ 52) / 2 ^ e = if 52 <=? e then a / 2 ^ (e - 52) else a * 2 ^ (52 - e)).
  { destruct (52 <=? e) eqn:E52.
    - replace (2 ^ e) with (2 ^ (e - 52) * 2 ^ 52) by (rewrite <- Z.pow_add_r by lia; f_equal; lia).
      apply Z.div_mul_cancel_r; apply Z.pow_nonzero; lia.
    - replace (2 ^ 52) with (2 ^ (52 - e) * 2 ^ e) by (rewrite <- Z.pow_add_r by lia; f_equal; lia).
      rewrite Z.mul_assoc. apply Z.div_mul. apply Z.pow_nonzero; lia. }
  rewrite Ef. destruct (v <? 0); lia.
Qed.

Theorem int_to_double_model i : int_to_double i = f64_enc (z2f 53 i).
Proof.
  unfold int_to_double, z2f. rewrite ieee_bits_enc, nearest53_rne by apply Z.abs_nonneg.
  destruct (rne 53 (Z.abs i)). reflexivity.
Qed.

Lemma wrap_id bits z : 0 < bits -> in_sb bits z = true -> wrap bits z = z.
Proof.
  intros Hb H. apply in_sb_spec in H. unfold in_s in H. unfold wrap.
  assert (E : 2 ^ bits = 2 * 2 ^ (bits - 1)).
  { replace bits with (1 + (bits - 1)) at 1 by lia. rewrite Z.pow_add_r by lia. reflexivity. }
  rewrite E. rewrite Z.mod_small by lia. lia.
Qed.

Example z2f_examples :
  f64_enc (z2f 53 1700000001) = 4744917124797956096 /\ z2f 53 1700000001 = 1700000001 /\
  f64_enc (z2f 53 (-16777217)) = 13938640846980120576 /\ z2f 53 (-16777217) = -16777217 /\
  z2f 24 (-16777217) = -16777216 /\ z2f 24 1700000001 = 1700000000 /\
  z2f 53 (2 ^ 53 + 1) = 2 ^ 53 /\ z2f 53 (2 ^ 53 + 3) = 2 ^ 53 + 4 /\ f64_enc (z2f 53 (2 ^ 53 + 1)) = 4845873199050653696 /\
  z2f 53 (2 ^ 63 - 1) = 2 ^ 63 /\ f64_enc (z2f 53 (2 ^ 63 - 1)) = 4890909195324358656 /\
  int_to_double (2 ^ 53 + 1) = 4845873199050653696.
Proof. vm_compute. repeat split; reflexivity. Qed.

(* the rounded magnitude is a double: 53-bit significand times a power of two *)
Lemma rne53_is_double n : 0 <= n ->
  exists m e, fst (rne 53 n) * 2 ^ snd (rne 53 n) = m * 2 ^ e /\ 0 <= m < 2 ^ 53 /\ 0 <= e.
Proof.
  intros Hn. unfold rne. destruct (Z.log2 n + 1 - 53 <=? 0) eqn:Ek.
  - exists n, 0. cbn [fst snd]. split; [reflexivity|]. split; [|lia]. split; [lia|].
    destruct (Z.eq_dec n 0) as [->|]; [reflexivity|].
    apply Z.log2_lt_pow2; lia.
  - assert (Hk : 0 < Z.log2 n + 1 - 53) by lia.
    assert (Hn0 : 0 < n) by (destruct (Z.eq_dec n 0) as [->|]; [cbn in Hk; lia|lia]).
    destruct (rne53_parts n Hn0 Hk) as (Hq & Hr & Hdm & Hh).
    set (k := Z.log2 n + 1 - 53) in *. cbn [fst snd].
    destruct ((2 ^ (k - 1) <? n mod 2 ^ k) || ((n mod 2 ^ k =? 2 ^ (k - 1)) && Z.odd (n / 2 ^ k))).
    + destruct (Z.eq_dec (n / 2 ^ k + 1) (2 ^ 53)) as [E|NE].
      * exists (2 ^ 52), (k + 1). rewrite E. split; [|split; lia].
        rewrite Z.pow_add_r by lia. change (2 ^ 53) with (2 ^ 52 * 2). ring.
      * exists (n / 2 ^ k + 1), k. split; [reflexivity|lia].
    + exists (n / 2 ^ k), k. split; [reflexivity|lia].
Qed.

(* f64_enc is the binary64 interchange layout: sign bit, biased exponent, 52 fraction bits *)
Lemma f64_enc_layout v : v <> 0 -> Z.abs v < 2 ^ 1024 ->
  exists s e f, f64_enc v = s * 2 ^ 63 + e * 2 ^ 52 + f /\ (s = 0 \/ s = 1) /\ (s = 1 <-> v < 0) /\
                0 < e < 2047 /\ 0 <= f < 2 ^ 52 /\
                ((Z.abs v * 2 ^ 52) mod 2 ^ (e - 1023) = 0 -> (2 ^ 52 + f) * 2 ^ (e - 1023) = Z.abs v * 2 ^ 52).
Proof.
  intros Hv Hb. rewrite <- ieee_bits_enc. unfold ieee_bits. replace (v =? 0) with false by lia.
  assert (Ha : 0 < Z.abs v) by lia. set (a := Z.abs v) in *.
  pose proof (Z.log2_spec a Ha) as [Hlo Hhi]. pose proof (Z.log2_nonneg a) as HL.
  assert (HL2 : Z.log2 a < 1024) by (apply Z.log2_lt_pow2; lia).
  set (L := Z.log2 a) in *.
  assert (PL : 0 < 2 ^ L) by (apply Z.pow_pos_nonneg; lia).
  assert (Hf : 2 ^ 52 <= a * 2 ^ 52 / 2 ^ L < 2 * 2 ^ 52).
  { split; [apply Z.div_le_lower_bound; nia|apply Z.div_lt_upper_bound; [lia|]].
    rewrite Z.pow_succ_r in Hhi by lia. nia. }
  exists (if v <? 0 then 1 else 0), (L + 1023), (a * 2 ^ 52 / 2 ^ L - 2 ^ 52).
  split; [reflexivity|]. split; [destruct (v <? 0); lia|]. split; [destruct (v <? 0) eqn:E; lia|].
  split; [lia|]. split; [lia|].
  replace (L + 1023 - 1023) with L by lia. intros Hd.
  pose proof (Z.div_mod (a * 2 ^ 52) (2 ^ L)). lia.
Qed.
