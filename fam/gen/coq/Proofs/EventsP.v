(* Schedule independence, for real: every primitive read of the async protocols, written through poll_read over an event
   list (chunks, empty chunks, Pending tokens, EOF), returns what the read of the concatenated bytes returns -- value, error,
   and the bytes consumed (the remaining events deliver exactly the remaining bytes) -- and so does every decoder that uses
   the stream only through these reads. *)
From Coq Require Import Lia.
From PVGen Require Import GenAsync GenEvents.
Open Scope Z_scope.

Lemma take_app_long n (c l : list byte) : (length c <= n)%nat ->
  take n (c ++ l) = match take (n - length c) l with Some (x, r) => Some (c ++ x, r) | None => None end.
Proof.
  intros H. unfold take. rewrite app_length.
  destruct (Nat.leb (n - length c) (length l)) eqn:E.
  - apply Nat.leb_le in E. replace (Nat.leb n (length c + length l)) with true by (symmetry; apply Nat.leb_le; lia).
    rewrite firstn_app, skipn_app. rewrite firstn_all2 by lia. rewrite skipn_all2 by lia. reflexivity.
  - apply Nat.leb_gt in E. replace (Nat.leb n (length c + length l)) with false by (symmetry; apply Nat.leb_gt; lia). reflexivity.
Qed.

(* ---------- one poll ---------- *)
Lemma poll_ready cap es got rest : poll_read cap es = Ready got rest ->
  got ++ bytes_of rest = bytes_of es /\ (length got <= cap)%nat /\ ((1 <= cap)%nat -> (1 <= length got)%nat) /\ (length rest <= length es)%nat.
Proof.
  destruct es as [|[c|] r]; cbn [poll_read]; try discriminate. destruct c as [|b c]; [discriminate|].
  destruct (Nat.leb (length (b :: c)) cap) eqn:E; intros H; injection H as <- <-.
  - apply Nat.leb_le in E. cbn [bytes_of length] in *. repeat split; lia.
  - apply Nat.leb_gt in E. cbn [bytes_of]. rewrite app_assoc, firstn_skipn. rewrite firstn_length. cbn [length] in *.
    repeat split; try lia.
Qed.
Lemma poll_notready cap es r : poll_read cap es = NotReady r -> bytes_of r = bytes_of es /\ (length r < length es)%nat.
Proof.
  destruct es as [|[c|] r0]; cbn [poll_read]; try discriminate.
  - destruct c as [|b c]; [intros H; injection H as <-; cbn; split; [reflexivity|lia]|]. destruct (Nat.leb (length (b :: c)) cap); discriminate.
  - intros H; injection H as <-. cbn. split; [reflexivity|lia].
Qed.
Lemma poll_eof cap es : poll_read cap es = Eof -> bytes_of es = [].
Proof.
  destruct es as [|[c|] r]; cbn [poll_read]; try discriminate; [reflexivity|].
  destruct c as [|b c]; [discriminate|]. destruct (Nat.leb (length (b :: c)) cap); discriminate.
Qed.

(* ---------- read_exact ---------- *)
Lemma ev_read_exact_spec : forall f n acc es, (length es + n < f)%nat ->
  match ev_read_exact f n acc es with
  | Some (a, es') => exists x, a = acc ++ x /\ take n (bytes_of es) = Some (x, bytes_of es')
  | None => take n (bytes_of es) = None
  end.
Proof.
  induction f as [|f IH]; intros n acc es Hf; [lia|]. destruct n as [|n].
  - cbn [ev_read_exact]. exists []. rewrite app_nil_r. split; reflexivity.
  - cbn [ev_read_exact]. destruct (poll_read (Datatypes.S n) es) as [got rest|r|] eqn:P.
    + destruct (poll_ready _ _ _ _ P) as (Hb & Hc & Hp & Hl). specialize (Hp ltac:(lia)).
      specialize (IH (Datatypes.S n - length got)%nat (acc ++ got) rest ltac:(lia)).
      rewrite <- Hb, (take_app_long _ got (bytes_of rest) Hc).
      destruct (ev_read_exact f (Datatypes.S n - length got) (acc ++ got) rest) as [[a es']|].
      * destruct IH as (x & -> & ->). exists (got ++ x). rewrite app_assoc. split; reflexivity.
      * rewrite IH. reflexivity.
    + destruct (poll_notready _ _ _ P) as (Hb & Hl). rewrite <- Hb. apply IH. lia.
    + rewrite (poll_eof _ _ P). reflexivity.
Qed.

Theorem ev_take_spec n es :
  match ev_take n es with
  | Some (a, es') => take n (bytes_of es) = Some (a, bytes_of es')
  | None => take n (bytes_of es) = None
  end.
Proof.
  unfold ev_take, ev_fuel. pose proof (ev_read_exact_spec (Datatypes.S (length es + n)) n [] es ltac:(lia)) as H.
  destruct (ev_read_exact (Datatypes.S (length es + n)) n [] es) as [[a es']|]; [|exact H].
  destruct H as (x & -> & H). exact H.
Qed.

(* ---------- read_varint_async ---------- *)
Lemma take_1 (l : list byte) : take 1 l = match l with [] => None | b :: r => Some ([b], r) end.
Proof. destruct l; reflexivity. Qed.

Lemma ev_rd_var_spec : forall k shift acc es,
  match ev_rd_var k shift acc es with
  | Ok (z, es') => rd_var k shift acc (bytes_of es) = Ok (z, bytes_of es')
  | Err e => rd_var k shift acc (bytes_of es) = Err e
  | Panic st => rd_var k shift acc (bytes_of es) = Panic st
  end.
Proof.
  induction k as [|k IH]; intros shift acc es; cbn [ev_rd_var rd_var]; pose proof (ev_take_spec 1 es) as H; rewrite take_1 in H;
    destruct (ev_take 1 es) as [[a es']|]; destruct (bytes_of es) as [|b r] eqn:B; try discriminate H; try reflexivity.
  injection H as <- Hr. cbv zeta. destruct (b2z b <? 128); [rewrite Hr; reflexivity|]. rewrite Hr. apply IH.
Qed.

Theorem ev_varint_spec m es :
  match ev_varint m es with
  | Ok (z, es') => a_varint m (mkS (bytes_of es) r0) = Ok (z, mkS (bytes_of es') r0)
  | Err e => a_varint m (mkS (bytes_of es) r0) = Err e
  | Panic st => a_varint m (mkS (bytes_of es) r0) = Panic st
  end.
Proof.
  unfold ev_varint, a_varint, read_var_u64. cbn [rbuf]. pose proof (ev_rd_var_spec m 0 0 es) as H.
  destruct (ev_rd_var m 0 0 es) as [[z es']|e|st]; rewrite H; reflexivity.
Qed.

(* ---------- Take::read_to_end, any positive step ---------- *)
Lemma firstn_app_long {A} n (x y : list A) : (length x <= n)%nat -> firstn n (x ++ y) = x ++ firstn (n - length x) y.
Proof. intros H. rewrite firstn_app, firstn_all2 by lia. reflexivity. Qed.
Lemma skipn_app_long {A} n (x y : list A) : (length x <= n)%nat -> skipn n (x ++ y) = skipn (n - length x) y.
Proof. intros H. rewrite skipn_app, skipn_all2 by lia. reflexivity. Qed.

Lemma ev_read_to_end_spec step : forall f limit acc es, (length es + limit < f)%nat ->
  let '(a, es') := ev_read_to_end f step limit acc es in
  a = acc ++ firstn limit (bytes_of es) /\ bytes_of es' = skipn limit (bytes_of es).
Proof.
  induction f as [|f IH]; intros limit acc es Hf; [lia|]. destruct limit as [|limit].
  - cbn [ev_read_to_end firstn skipn]. rewrite app_nil_r. split; reflexivity.
  - cbn [ev_read_to_end].
    destruct (poll_read (Nat.min (Datatypes.S (step (length acc))) (Datatypes.S limit)) es) as [got rest|r|] eqn:P.
    + destruct (poll_ready _ _ _ _ P) as (Hb & Hc & Hp & Hl). specialize (Hp ltac:(lia)).
      assert (Hg : (length got <= Datatypes.S limit)%nat) by lia.
      specialize (IH (Datatypes.S limit - length got)%nat (acc ++ got) rest ltac:(lia)).
      destruct (ev_read_to_end f step (Datatypes.S limit - length got) (acc ++ got) rest) as [a es'].
      destruct IH as (-> & ->). rewrite <- Hb, (firstn_app_long _ got _ Hg), (skipn_app_long _ got _ Hg), app_assoc. split; reflexivity.
    + destruct (poll_notready _ _ _ P) as (Hb & Hl). rewrite <- Hb. apply IH. lia.
    + rewrite (poll_eof _ _ P). destruct limit; cbn [firstn skipn]; rewrite app_nil_r; split; try reflexivity; rewrite (poll_eof _ _ P); reflexivity.
Qed.

(* ---------- read_exact_to_vec: both paths ---------- *)
Theorem ev_read_exact_to_vec_spec step len es :
  match ev_read_exact_to_vec step len es with
  | Some (a, es') => take len (bytes_of es) = Some (a, bytes_of es')
  | None => take len (bytes_of es) = None
  end.
Proof.
  unfold ev_read_exact_to_vec. destruct (Nat.leb len prealloc_limit); [apply ev_take_spec|].
  pose proof (ev_read_to_end_spec step (ev_fuel len es) len [] es ltac:(unfold ev_fuel; lia)) as H.
  destruct (ev_read_to_end (ev_fuel len es) step len [] es) as [v es']. destruct H as (-> & Hr). cbn [app].
  unfold take. rewrite firstn_length. destruct (Nat.eqb (Nat.min len (length (bytes_of es))) len) eqn:E.
  - apply Nat.eqb_eq in E. replace (Nat.leb len (length (bytes_of es))) with true by (symmetry; apply Nat.leb_le; lia).
    rewrite Hr. reflexivity.
  - apply Nat.eqb_neq in E. replace (Nat.leb len (length (bytes_of es))) with false by (symmetry; apply Nat.leb_gt; lia). reflexivity.
Qed.

(* ---------- every decoder that uses the stream only through these reads ---------- *)
Theorem run_schedule_free {A} step : forall (q : sprog A) es,
  match run_e step q es with
  | Ok (a, es') => run_b q (bytes_of es) = Ok (a, bytes_of es')
  | Err e => run_b q (bytes_of es) = Err e
  | Panic st => run_b q (bytes_of es) = Panic st
  end.
Proof.
  induction q as [a|e|n k IH|m k IH|n k IH]; intros es; cbn [run_e run_b]; try reflexivity.
  - pose proof (ev_take_spec n es) as H. destruct (ev_take n es) as [[a es']|]; rewrite H; [apply IH|reflexivity].
  - pose proof (ev_varint_spec m es) as H. unfold a_varint in H. cbn [rbuf] in H.
    destruct (ev_varint m es) as [[z es']|e|st]; destruct (read_var_u64 m (bytes_of es)) as [[z0 r0']|e0|st0]; try discriminate H.
    + cbn in H. inversion H; subst. apply IH.
    + injection H as <-. reflexivity.
    + injection H as ->. reflexivity.
  - pose proof (ev_read_exact_to_vec_spec step n es) as H. destruct (ev_read_exact_to_vec step n es) as [[a es']|]; rewrite H; [apply IH|reflexivity].
Qed.

(* any two delivery schedules of the same bytes: same value / error, same bytes left in the stream *)
Corollary run_two_schedules {A} step1 step2 (q : sprog A) es1 es2 : bytes_of es1 = bytes_of es2 ->
  match run_e step1 q es1, run_e step2 q es2 with
  | Ok (a1, r1), Ok (a2, r2) => a1 = a2 /\ bytes_of r1 = bytes_of r2
  | Err e1, Err e2 => e1 = e2
  | Panic s1, Panic s2 => s1 = s2
  | _, _ => False
  end.
Proof.
  intros Hb. pose proof (run_schedule_free step1 q es1) as H1. pose proof (run_schedule_free step2 q es2) as H2. rewrite Hb in H1.
  destruct (run_e step1 q es1) as [[a1 r1]|e1|s1]; destruct (run_e step2 q es2) as [[a2 r2]|e2|s2]; rewrite H1 in H2; try discriminate H2.
  - injection H2 as -> ->. split; reflexivity.
  - injection H2 as ->. reflexivity.
  - injection H2 as ->. reflexivity.
Qed.

(* the reads ARE the primitives of PV.Thrift.Async on the delivered bytes *)
Lemma run_b_take n l rc : a_take n (mkS l rc) = match run_b (STake n SRet) l with Ok (a, r) => Ok (a, mkS r rc) | Err e => Err e | Panic st => Panic st end.
Proof. unfold a_take. cbn [rbuf run_b]. destruct (take n l) as [[a r]|]; reflexivity. Qed.
Lemma run_b_varint m l rc : a_varint m (mkS l rc) = match run_b (SVarint m SRet) l with Ok (a, r) => Ok (a, mkS r rc) | Err e => Err e | Panic st => Panic st end.
Proof. unfold a_varint. cbn [rbuf run_b]. destruct (read_var_u64 m l) as [[a r]|e|st]; reflexivity. Qed.

(* ---------- non-vacuity, and the seeded variants FAIL the lemma ---------- *)
Definition es_x : stream := [Chunk [x01]; Pend; Chunk []; Chunk [x02; x03]; Pend; Chunk [x04]].

Example ev_take_nonvacuous :
  bytes_of es_x = [x01; x02; x03; x04] /\
  ev_take 2 es_x = Some ([x01; x02], [Chunk [x03]; Pend; Chunk [x04]]) /\
  ev_take 4 es_x = Some ([x01; x02; x03; x04], []) /\ ev_take 5 es_x = None.
Proof. repeat split; vm_compute; reflexivity. Qed.

(* seeded C12d: what arrived before a Pending is lost -- the read returns other bytes than the stream's first two *)
Example lossy_read_refuted :
  ev_read_exact_lossy (ev_fuel 2 es_x) 2 2 [] es_x = Some ([x02; x03], [Pend; Chunk [x04]]) /\
  take 2 (bytes_of es_x) = Some ([x01; x02], [x03; x04]).
Proof. split; vm_compute; reflexivity. Qed.

(* seeded C12b: without the Take limit a poll hands out bytes that belong to what FOLLOWS the value: bytes are consumed past the message *)
Example overread_refuted :
  let es := [Chunk [x01; x02; x03; x04; x05; x06]] in
  ev_read_vec_overread (fun _ => 4%nat) 2 es = Some ([x01; x02], []) /\
  take 2 (bytes_of es) = Some ([x01; x02], [x03; x04; x05; x06]).
Proof. split; vm_compute; reflexivity. Qed.
