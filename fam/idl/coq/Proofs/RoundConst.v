(* C15, stage 4b: constant values -- ConstValue::parse with its eight alternatives (literal, true, false, path, double,
   integer, [list], {map}), lists and maps nested to any depth, optional separators between the elements. *)
From PVIdl Require Import Comb Ast Parser Print Proofs.Total Proofs.RoundTok Proofs.RoundPath Proofs.RoundAnn Proofs.RoundTy
  Proofs.RoundKit Proofs.Lex Proofs.RoundNum.
From Coq Require Import ZifyN ZifyNat ZifyBool.
From Coq Require String.
Import String.StringSyntax.
Open Scope nat_scope.

(* ---------- suffixes / lengths of printed constants ---------- *)
Lemma sfx_minus r n k : sfx r k -> sfx r (minus_run n k).
Proof. induction n; cbn [minus_run]; intros H; [exact H|]. apply sfx_cons_r. auto. Qed.
Lemma sfx_int r i k : sfx r k -> sfx r (pr_int i k).
Proof. intros H. unfold pr_int. apply sfx_minus, sfx_app_r, sfx_app_r, H. Qed.
Lemma sfx_oexp r e k : sfx r k -> sfx r (pr_oexp e k).
Proof. destruct e as [[u i]|]; cbn [pr_oexp]; intros H; [|exact H]. unfold pr_exp. apply sfx_cons_r, sfx_int, H. Qed.
Lemma sfx_dbl r d k : sfx r k -> sfx r (pr_dbl d k).
Proof.
  intros H. unfold pr_dbl. apply sfx_app_r, sfx_app_r. destruct (cd_body d) as [ip fp ex|fp ex|ip ex]; cbn [pr_dbody].
  - apply sfx_app_r, sfx_cons_r, sfx_app_r, sfx_oexp, H.
  - apply sfx_cons_r, sfx_app_r, sfx_oexp, H.
  - apply sfx_app_r. apply (sfx_oexp r (Some ex)), H.
Qed.

Fixpoint sfx_const (v : cconst) : forall r k, sfx r k -> sfx r (pr_const v k)
with sfx_clist (l : clist) : forall r k, sfx r k -> sfx r (pr_clist l k)
with sfx_cmapl (l : cmapl) : forall r k, sfx r k -> sfx r (pr_cmapl l k).
Proof.
  - destruct v; cbn [pr_const]; intros r k H.
    + apply sfx_lit, H.
    + apply sfx_app_r, H.
    + apply sfx_path, H.
    + apply sfx_dbl, H.
    + apply sfx_int, H.
    + apply sfx_app_r, sfx_blank, sfx_clist, sfx_app_r, H.
    + apply sfx_app_r, sfx_blank, sfx_cmapl, sfx_app_r, H.
  - destruct l; cbn [pr_clist]; intros r k H; [exact H|]. apply sfx_const, sfx_blank, sfx_sep, sfx_clist, H.
  - destruct l as [|key b1 b2 v b3 s rest]; cbn [pr_cmapl]; intros r k H; [exact H|].
    apply sfx_const, sfx_blank, sfx_app_r, sfx_blank, sfx_const, sfx_blank, sfx_sep, sfx_cmapl, H.
Qed.

Ltac sfx_step ::=
  first [ apply sfx_refl | apply sfx_app_r | apply sfx_cons_r | apply sfx_blank | apply sfx_type | apply sfx_ty
        | apply sfx_ocpp | apply sfx_path_tail | apply sfx_path | apply sfx_lit | apply sfx_sep | apply sfx_anns | apply sfx_oanns
        | apply sfx_const | apply sfx_clist | apply sfx_cmapl | apply sfx_int | apply sfx_dbl ].

(* ---------- printers concatenate: pr c k = pr c [] ++ k ---------- *)
Lemma pr_atom_app a k : pr_atom a k = pr_atom a [] ++ k.
Proof.
  destruct a; cbn [pr_atom].
  - now rewrite app_nil_r.
  - rewrite app_nil_r. now rewrite <- app_assoc.
  - rewrite app_nil_r. now rewrite <- app_assoc.
  - rewrite app_nil_r. rewrite <- !app_assoc. reflexivity.
Qed.
Lemma pr_blank_app bl k : pr_blank bl k = pr_blank bl [] ++ k.
Proof. induction bl as [|a bl IH]; cbn [pr_blank]; [reflexivity|]. rewrite (pr_atom_app a (pr_blank bl [])), (pr_atom_app a (pr_blank bl k)), IH. now rewrite app_assoc. Qed.
Lemma pr_sep_app s k : pr_sep s k = pr_sep s [] ++ k.
Proof. destruct s as [|semi bl]; cbn [pr_sep]; [reflexivity|]. now rewrite (pr_blank_app bl k). Qed.
Lemma pr_lit_app l k : pr_lit l k = pr_lit l [] ++ k.
Proof. unfold pr_lit. cbn [app]. now rewrite <- app_assoc. Qed.
Lemma pr_path_tail_app t k : pr_path_tail t k = pr_path_tail t [] ++ k.
Proof.
  induction t as [|[[b1 b2] s0] t IH]; cbn [pr_path_tail]; [reflexivity|].
  rewrite (pr_blank_app b1 (txt "." ++ pr_blank b2 (s0 ++ pr_path_tail t k))), (pr_blank_app b1 (txt "." ++ pr_blank b2 (s0 ++ pr_path_tail t []))).
  rewrite (pr_blank_app b2 (s0 ++ pr_path_tail t k)), (pr_blank_app b2 (s0 ++ pr_path_tail t [])), IH.
  repeat rewrite <- app_assoc. cbn [app]. repeat rewrite <- app_assoc. reflexivity.
Qed.
Lemma pr_path_app p k : pr_path p k = pr_path p [] ++ k.
Proof. unfold pr_path. rewrite (pr_path_tail_app (cp_tail p) k). now rewrite app_assoc. Qed.

Fixpoint pr_const_app (v : cconst) : forall k, pr_const v k = pr_const v [] ++ k
with pr_clist_app (l : clist) : forall k, pr_clist l k = pr_clist l [] ++ k
with pr_cmapl_app (l : cmapl) : forall k, pr_cmapl l k = pr_cmapl l [] ++ k.
Proof.
  - destruct v; cbn [pr_const]; intros k.
    + apply pr_lit_app.
    + now rewrite app_nil_r.
    + apply pr_path_app.
    + apply pr_dbl_app.
    + apply pr_int_app.
    + rewrite (pr_clist_app els (txt "]" ++ k)), (pr_clist_app els (txt "]" ++ [])).
      rewrite (pr_blank_app b0 (pr_clist els [] ++ txt "]" ++ k)), (pr_blank_app b0 (pr_clist els [] ++ txt "]" ++ [])).
      repeat rewrite <- app_assoc. cbn [app]. repeat rewrite <- app_assoc. reflexivity.
    + rewrite (pr_cmapl_app els (txt "}" ++ k)), (pr_cmapl_app els (txt "}" ++ [])).
      rewrite (pr_blank_app b0 (pr_cmapl els [] ++ txt "}" ++ k)), (pr_blank_app b0 (pr_cmapl els [] ++ txt "}" ++ [])).
      repeat rewrite <- app_assoc. cbn [app]. repeat rewrite <- app_assoc. reflexivity.
  - destruct l as [|v b s rest]; cbn [pr_clist]; intros k; [reflexivity|].
    rewrite (pr_clist_app rest k).
    rewrite (pr_sep_app s (pr_clist rest [] ++ k)), (pr_sep_app s (pr_clist rest [])).
    rewrite (pr_blank_app b (pr_sep s [] ++ pr_clist rest [] ++ k)), (pr_blank_app b (pr_sep s [] ++ pr_clist rest [])).
    rewrite (pr_const_app v (pr_blank b [] ++ pr_sep s [] ++ pr_clist rest [] ++ k)), (pr_const_app v (pr_blank b [] ++ pr_sep s [] ++ pr_clist rest [])).
    repeat rewrite <- app_assoc. reflexivity.
  - destruct l as [|key b1 b2 v b3 s rest]; cbn [pr_cmapl]; intros k; [reflexivity|].
    rewrite (pr_cmapl_app rest k).
    rewrite (pr_sep_app s (pr_cmapl rest [] ++ k)), (pr_sep_app s (pr_cmapl rest [])).
    rewrite (pr_blank_app b3 (pr_sep s [] ++ pr_cmapl rest [] ++ k)), (pr_blank_app b3 (pr_sep s [] ++ pr_cmapl rest [])).
    rewrite (pr_const_app v (pr_blank b3 [] ++ pr_sep s [] ++ pr_cmapl rest [] ++ k)), (pr_const_app v (pr_blank b3 [] ++ pr_sep s [] ++ pr_cmapl rest [])).
    rewrite (pr_blank_app b2 (pr_const v [] ++ pr_blank b3 [] ++ pr_sep s [] ++ pr_cmapl rest [] ++ k)),
            (pr_blank_app b2 (pr_const v [] ++ pr_blank b3 [] ++ pr_sep s [] ++ pr_cmapl rest [])).
    rewrite (pr_blank_app b1 (txt ":" ++ pr_blank b2 [] ++ pr_const v [] ++ pr_blank b3 [] ++ pr_sep s [] ++ pr_cmapl rest [] ++ k)),
            (pr_blank_app b1 (txt ":" ++ pr_blank b2 [] ++ pr_const v [] ++ pr_blank b3 [] ++ pr_sep s [] ++ pr_cmapl rest [])).
    rewrite (pr_const_app key (pr_blank b1 [] ++ txt ":" ++ pr_blank b2 [] ++ pr_const v [] ++ pr_blank b3 [] ++ pr_sep s [] ++ pr_cmapl rest [] ++ k)),
            (pr_const_app key (pr_blank b1 [] ++ txt ":" ++ pr_blank b2 [] ++ pr_const v [] ++ pr_blank b3 [] ++ pr_sep s [] ++ pr_cmapl rest [])).
    repeat rewrite <- app_assoc. cbn [app]. repeat rewrite <- app_assoc. reflexivity.
Qed.

(* ---------- first bytes of printed constants ---------- *)
(* the bytes a constant value can begin with *)
Definition cvstart (b : byte) : bool :=
  Byte.eqb b x27 || Byte.eqb b x22 || is_alpha b || is_underscore b || is_digit b ||
  bmem b [x2d; x2b; x2e; x5b; x7b].

Lemma path_head (f : byte -> bool) p k : wf_path p = true -> (forall b, (is_alpha b || is_underscore b) = true -> f b = true) ->
  hd_sat f (pr_path p k) = true.
Proof.
  intros Hw Hf. unfold wf_path in Hw. apply andb_prop in Hw. destruct Hw as [Hh _]. unfold pr_path.
  destruct (cp_head p) as [|h t]; [discriminate|]. cbn [is_ident] in Hh. apply andb_prop in Hh. destruct Hh as [Hh _].
  cbn [app hd_sat]. auto.
Qed.

Lemma dbl_head (f : byte -> bool) d k : wf_dbl d = true -> f x2d = true -> f x2b = true -> f x2e = true ->
  (forall c, is_digit c = true -> f c = true) -> hd_sat f (pr_dbl d k) = true.
Proof.
  intros Hw H1 H2 H3 H4. destruct d as [[|] [|] b]; unfold pr_dbl, wf_dbl in *; cbn [cd_minus cd_plus cd_body app] in *; auto.
  now apply dbody_head.
Qed.

Lemma const_head (f : byte -> bool) v k : wf_const v = true -> (forall b, cvstart b = true -> f b = true) ->
  hd_sat f (pr_const v k) = true.
Proof.
  intros Hw Hf. destruct v as [l|b|p|d|i|b0 els|b0 els]; cbn [pr_const wf_const] in *.
  - destruct l as [[|] body]; cbn; apply Hf; reflexivity.
  - destruct b; cbn; apply Hf; reflexivity.
  - apply andb_prop in Hw. destruct Hw as [Hw _]. apply path_head; auto. intros b Hb. apply Hf. unfold cvstart.
    apply orb_prop in Hb. destruct Hb as [-> | ->]; repeat rewrite orb_true_r; reflexivity.
  - apply dbl_head; auto; try (apply Hf; reflexivity). intros c Hc. apply Hf. unfold cvstart. rewrite Hc.
    repeat rewrite orb_true_r; reflexivity.
  - apply int_head; auto; try (apply Hf; reflexivity). intros c Hc. apply Hf. unfold cvstart. rewrite Hc.
    repeat rewrite orb_true_r; reflexivity.
  - cbn. apply Hf; reflexivity.
  - cbn. apply Hf; reflexivity.
Qed.

Lemma cvstart_nb b : cvstart b = true -> negb (blank_start b) = true.
Proof. destruct b; vm_compute; intro H; try reflexivity; discriminate H. Qed.
Lemma cvstart_nosep b : cvstart b = true -> negb (bmem b set_list_separator) = true.
Proof. destruct b; vm_compute; intro H; try reflexivity; discriminate H. Qed.

Lemma const_nb v k : wf_const v = true -> nb (pr_const v k) = true.
Proof. intros H. apply const_head; auto using cvstart_nb. Qed.
Lemma const_nosep v k : wf_const v = true -> nosep (pr_const v k) = true.
Proof. intros H. apply const_head; auto using cvstart_nosep. Qed.

Lemma clist_nb l c k : wf_clist l = true -> negb (blank_start c) = true -> nb (pr_clist l (c :: k)) = true.
Proof. destruct l; cbn [pr_clist wf_clist]; intros H Hc; [exact Hc|]. bsplit H. now apply const_nb. Qed.
Lemma clist_nosep l c k : wf_clist l = true -> negb (bmem c set_list_separator) = true -> nosep (pr_clist l (c :: k)) = true.
Proof. destruct l; cbn [pr_clist wf_clist]; intros H Hc; [exact Hc|]. bsplit H. now apply const_nosep. Qed.
Lemma cmapl_nb l c k : wf_cmapl l = true -> negb (blank_start c) = true -> nb (pr_cmapl l (c :: k)) = true.
Proof. destruct l as [|key b1 b2 v b3 s rest]; cbn [pr_cmapl wf_cmapl]; intros H Hc; [exact Hc|]. bsplit H. now apply const_nb. Qed.
Lemma cmapl_nosep l c k : wf_cmapl l = true -> negb (bmem c set_list_separator) = true -> nosep (pr_cmapl l (c :: k)) = true.
Proof. destruct l as [|key b1 b2 v b3 s rest]; cbn [pr_cmapl wf_cmapl]; intros H Hc; [exact Hc|]. bsplit H. now apply const_nosep. Qed.

(* a value that does not begin with a word character or '.' begins with a byte that ends a word *)
Lemma const_wstop v k : wf_const v = true -> const_starts_word v = false -> const_starts_dot v = false ->
  wstop (pr_const v k) = true.
Proof.
  intros Hw H1 H2. destruct v as [l|b|p|d|i|b0 els|b0 els]; cbn [pr_const wf_const const_starts_word const_starts_dot] in *;
    try discriminate; try reflexivity.
  - destruct l as [[|] body]; reflexivity.
  - destruct d as [[|] [|] b]; cbn in H1; try discriminate; reflexivity.
  - destruct i as [[|n] hex ds]; cbn in H1; try discriminate. reflexivity.
Qed.

Lemma idh_nodot' b : (is_alpha b || is_underscore b) = true -> negb (Byte.eqb b x2e) = true.
Proof. exact (idh_nodot b). Qed.
Lemma digit_nodot b : is_digit b = true -> negb (Byte.eqb b x2e) = true.
Proof. destruct b; vm_compute; intro H; try reflexivity; discriminate H. Qed.

Lemma const_nodot v k : wf_const v = true -> const_starts_dot v = false -> nodot (pr_const v k) = true.
Proof.
  intros Hw H2. destruct v as [l|b|p|d|i|b0 els|b0 els]; cbn [pr_const wf_const const_starts_dot] in *; try reflexivity.
  - destruct l as [[|] body]; reflexivity.
  - destruct b; reflexivity.
  - apply andb_prop in Hw. destruct Hw as [Hw _]. apply path_head; auto using idh_nodot'.
  - destruct d as [[|] [|] b]; unfold pr_dbl, wf_dbl in *; cbn [cd_minus cd_plus cd_body app negb andb] in *; try reflexivity.
    destruct b as [ip fp ex|fp ex|ip ex]; try discriminate; cbn [pr_dbody wf_dbody] in *; bsplit Hw;
      (assert (Dip : is_digits ip = true) by assumption); (destruct ip as [|c ip]; [discriminate|]);
      cbn [app is_digits forallb] in *; apply andb_prop in Dip; destruct Dip as [Dc _]; unfold nodot; cbn [hd_sat];
      now apply digit_nodot.
  - apply int_head; auto using digit_nodot.
Qed.

(* ---------- what follows a value that ends with a word or a number ---------- *)
(* an optional blank (possibly the last of the text) and then something that does not continue the word / number; after a
   path, moreover, no '.' *)
Definition cvfollow (ew isp : bool) (k : list byte) : Prop :=
  ew = true -> exists eof bl k', k = pr_blank bl k' /\ wfb eof bl = true /\ (eof = true -> k' = []) /\ nb k' = true /\
    (bl = [] -> wstop k' = true) /\ (isp = true -> nodot k' = true).

Lemma cvfollow_wordend isp k : cvfollow true isp k -> wordend k = true.
Proof.
  intros H. destruct (H eq_refl) as [eof [bl [k' [-> [Hw [He [Hn [H1 _]]]]]]]]. eapply blank_then_e; eauto with bsdb.
  intros E. apply wstop_wordend. auto.
Qed.
Lemma cvfollow_nid isp k : cvfollow true isp k -> nid k = true.
Proof. intros H. apply wordend_identch. eapply cvfollow_wordend; eauto. Qed.
Lemma cvfollow_nodot isp k : cvfollow true isp k -> nodot k = true.
Proof.
  intros H. destruct (H eq_refl) as [eof [bl [k' [-> [Hw [He [Hn [H1 _]]]]]]]]. unfold nodot. eapply blank_then_e; eauto with bsdb.
  intros E. apply wstop_nodot. auto.
Qed.

(* ---------- the alternatives of ConstValue::parse, named ---------- *)
Definition cv_str (lf : nat) : parser ConstValue := pmap CString (p_literal lf).
Definition cv_true : parser ConstValue := fun i => do i, _ <- p_keyword kw_true i ;; POk i (CBool true).
Definition cv_false : parser ConstValue := fun i => do i, _ <- p_keyword kw_false i ;; POk i (CBool false).
Definition cv_path (lf : nat) : parser ConstValue := pmap CPath (p_path lf).
Definition cv_dbl (lf : nat) : parser ConstValue := pmap CDouble (p_double_constant lf).
Definition cv_int (lf : nat) : parser ConstValue := pmap CInt (p_int_constant lf).
Definition cv_elem (lf : nat) (cv : parser ConstValue) : parser ConstValue :=
  fun i => do i, _ <- opt (p_blank lf) i ;; do i, e <- cv i ;; do i, _ <- opt (p_blank lf) i ;;
           do i, _ <- opt (p_list_separator lf) i ;; POk i e.
Definition cv_list (lf : nat) (cv : parser ConstValue) : parser ConstValue :=
  fun i => do i, _ <- tag sym_clist_open i ;; do i, els <- many0 lf (cv_elem lf cv) i ;;
           do i, _ <- opt (p_blank lf) i ;; do i, _ <- tag sym_clist_close i ;; POk i (CList els).
Definition cv_kv (lf : nat) (cv : parser ConstValue) : parser (ConstValue * ConstValue) :=
  fun i => do i, _ <- opt (p_blank lf) i ;; do i, k <- cv i ;; do i, _ <- opt (p_blank lf) i ;;
           do i, _ <- tag sym_cmap_colon i ;; do i, _ <- opt (p_blank lf) i ;; do i, v <- cv i ;;
           do i, _ <- opt (p_blank lf) i ;; do i, _ <- opt (p_list_separator lf) i ;; POk i (k, v).
Definition cv_map (lf : nat) (cv : parser ConstValue) : parser ConstValue :=
  fun i => do i, _ <- tag sym_cmap_open i ;; do i, kvs <- many0 lf (cv_kv lf cv) i ;;
           do i, _ <- opt (p_blank lf) i ;; do i, _ <- tag sym_cmap_close i ;; POk i (CMap kvs).

Lemma p_cv_eq lf d i :
  p_const_value lf (S d) i =
  alt [cv_str lf; cv_true; cv_false; cv_path lf; cv_dbl lf; cv_int lf;
       cv_list lf (p_const_value lf d); cv_map lf (p_const_value lf d)] i.
Proof. reflexivity. Qed.

Lemma pmap_err {A B} (f : A -> B) (p : parser A) i : is_perr (p i) -> is_perr (pmap f p i).
Proof. intros H. unfold pmap. now apply pbind_err. Qed.

Lemma map_res_err {A B} (p : parser A) (f : A -> option B) i : is_perr (p i) -> is_perr (map_res p f i).
Proof. intros H. unfold map_res. destruct (p i); cbn in *; auto; contradiction. Qed.

Lemma recognize_err {A} (p : parser A) i : is_perr (p i) -> is_perr (recognize p i).
Proof. intros H. unfold recognize. destruct (p i); cbn in *; auto; contradiction. Qed.

Definition nidh (k : list byte) : bool := hd_sat (fun b => negb (is_alpha b || is_underscore b)) k.

Lemma ident_err k : nidh k = true -> is_perr (p_ident k).
Proof.
  intros H. unfold p_ident. apply recognize_err. destruct k as [|b k]; [exact I|]. cbn in H.
  cbn [satisfy_b]. apply negb_true_iff in H. rewrite H. exact I.
Qed.

Lemma path_err lf k : nidh k = true -> is_perr (p_path lf k).
Proof. intros H. unfold p_path, separated_list1. apply pbind_err. now apply ident_err. Qed.

(* no digit, no '.' : not a double; no digit, no '-' : not an integer *)
Definition nonum (k : list byte) : bool := hd_sat (fun b => negb (is_digit b) && negb (bmem b [x2d; x2b; x2e])) k.

Section Const.
Variable lf : nat.
Variable whole : list byte.
Hypothesis Hlf : length whole < lf.

Lemma dbl_alts_err_head k : hd_sat (fun b => negb (is_digit b) && negb (Byte.eqb b x2e)) k = true -> is_perr (alt (dbl_alts lf) k).
Proof.
  intros H. assert (Hd : hd_sat (fun b => negb (is_digit b)) k = true).
  { revert H. apply hd_sat_imp. intros b Hb. apply andb_prop in Hb. tauto. }
  assert (Hp : is_perr (tag [x2e] k)).
  { destruct k as [|b k]; [exact I|]. apply tag_hd_ne. cbn in H. apply andb_prop in H. destruct H as [_ H].
    now apply negb_true_iff in H. }
  unfold dbl_alts.
  rewrite alt_err by (unfold dbl_a; apply pbind_err; now apply digit1_err).
  rewrite alt_err by (unfold dbl_b; rewrite (opt_err digit1) by (now apply digit1_err); cbn [pbind]; apply pbind_err; exact Hp).
  apply alt_last_err. unfold dbl_c. apply pbind_err. now apply digit1_err.
Qed.

(* a run of digits followed by something that is neither a digit, nor '.', nor e / E *)
Definition nexp (k : list byte) : bool := hd_sat (fun b => negb (Byte.eqb (lower_ascii b) (lower_ascii x65))) k.
Lemma nexp_err e k : e = [x65] -> nexp k = true -> is_perr (tag_no_case e k).
Proof.
  intros -> H. destruct k as [|b k]; [exact I|]. unfold tag_no_case. cbn [strip_prefix_nc]. unfold nexp in H. cbn [hd_sat] in H.
  apply negb_true_iff in H. rewrite H. exact I.
Qed.
Lemma nid_nexp k : nid k = true -> nexp k = true.
Proof. apply hd_sat_imp. intros b. destruct b; vm_compute; intro H; try reflexivity; discriminate H. Qed.

Lemma dbl_alts_err_digits ds k : ds <> [] -> is_digits ds = true -> hd_sat (fun b => negb (is_digit b)) k = true ->
  nexp k = true -> nodot k = true -> is_perr (alt (dbl_alts lf) (ds ++ k)).
Proof.
  intros Hne Hd Hnd Hk Hdot.
  assert (Hp : is_perr (tag [x2e] k)).
  { destruct k as [|b k]; [exact I|]. apply tag_hd_ne. cbn in Hdot. now apply negb_true_iff in Hdot. }
  unfold dbl_alts.
  rewrite alt_err by (unfold dbl_a; rewrite (digit1_ok ds k Hne Hd Hnd); cbn [pbind]; apply pbind_err; exact Hp).
  rewrite alt_err by (unfold dbl_b; rewrite (opt_ok digit1 _ _ _ (digit1_ok ds k Hne Hd Hnd)); cbn [pbind]; apply pbind_err; exact Hp).
  apply alt_last_err. unfold dbl_c. rewrite (digit1_ok ds k Hne Hd Hnd). cbn [pbind]. apply pbind_err.
  now apply nexp_err.
Qed.

(* the same with the exact condition: no digit, no '.', no exponent follows *)
Lemma dbl_alts_err_digits_x ds k : ds <> [] -> is_digits ds = true -> hd_is is_digit k = false ->
  hd_is (fun b => Byte.eqb b x2e) k = false -> exp_starts k = false -> length k < lf -> is_perr (alt (dbl_alts lf) (ds ++ k)).
Proof.
  intros Hne Hd Hnd0 Hdot He Hf. pose proof (hd_is_sat _ k Hnd0) as Hnd.
  assert (Hp : is_perr (tag [x2e] k)).
  { destruct k as [|b k]; [exact I|]. apply tag_hd_ne. exact Hdot. }
  unfold dbl_alts.
  rewrite alt_err by (unfold dbl_a; rewrite (digit1_ok ds k Hne Hd Hnd); cbn [pbind]; apply pbind_err; exact Hp).
  rewrite alt_err by (unfold dbl_b; rewrite (opt_ok digit1 _ _ _ (digit1_ok ds k Hne Hd Hnd)); cbn [pbind]; apply pbind_err; exact Hp).
  apply alt_last_err. unfold dbl_c. rewrite (digit1_ok ds k Hne Hd Hnd). cbn [pbind].
  exact (exp_starts_err lf sym_dbl_exp_c k eq_refl He Hf).
Qed.

Lemma dbl_inner_err k : is_perr (alt (dbl_alts lf) k) -> hd_sat (fun b => negb (bmem b [x2d; x2b])) k = true ->
  is_perr (dbl_inner lf k).
Proof.
  intros H Hh. unfold dbl_inner.
  assert (H1 : is_perr (tag sym_dbl_minus k)).
  { destruct k as [|b k]; [exact I|]. apply tag_hd_ne. cbn in Hh. cbn [bmem] in Hh. destruct (Byte.eqb b x2d); [discriminate|reflexivity]. }
  assert (H2 : is_perr (tag sym_dbl_plus k)).
  { destruct k as [|b k]; [exact I|]. apply tag_hd_ne. cbn in Hh. cbn [bmem] in Hh. destruct (Byte.eqb b x2b); [|reflexivity].
    rewrite orb_true_r in Hh. discriminate. }
  rewrite (opt_err _ _ H1). cbn [pbind]. rewrite (opt_err _ _ H2). cbn [pbind]. exact H.
Qed.

Lemma dbl_err_of_inner k : is_perr (dbl_inner lf k) -> is_perr (p_double_constant lf k).
Proof. intros H. rewrite p_dbl_eq. now apply map_res_err, recognize_err. Qed.

(* an integer constant is not read as a double *)
(* [-] digits are not a double unless a '.' or an exponent follows; 0x.. and two or more '-' never are *)
Lemma int_digits_not_dbl (hex : bool) ds k : ds <> [] -> forallb (if hex then is_hexdigit else is_digit) ds = true ->
  (hex = false -> hd_is is_digit k = false /\ hd_is (fun b => Byte.eqb b x2e) k = false /\ exp_starts k = false /\ length k < lf) ->
  is_perr (alt (dbl_alts lf) ((if hex then txt "0x" else []) ++ ds ++ k)).
Proof.
  intros Hne Hd Hk. destruct hex; cbn [app].
  - change (txt "0x" ++ ds ++ k) with ([x30] ++ x78 :: ds ++ k). apply dbl_alts_err_digits; try reflexivity. discriminate.
  - destruct (Hk eq_refl) as [H1 [H2 [H3 H4]]]. now apply dbl_alts_err_digits_x.
Qed.

Lemma int_not_dbl i k : wf_int i = true -> int_stops i k = true -> int_not_double i k = true -> length k < lf ->
  is_perr (p_double_constant lf (pr_int i k)).
Proof.
  intros Hw Hst Hnd Hlen. apply dbl_err_of_inner. destruct i as [n hex ds]. unfold wf_int, pr_int, int_stops, int_not_double in *.
  cbn [ci_minus ci_hex ci_digits] in *. bsplit Hw.
  assert (Hne : ds <> []) by (intros ->; discriminate Hw).
  assert (Wd : forallb (if hex then is_hexdigit else is_digit) ds = true) by assumption.
  assert (Hb : n < 2 -> is_perr (alt (dbl_alts lf) ((if hex then txt "0x" else []) ++ ds ++ k))).
  { intros Hn. apply int_digits_not_dbl; auto. intros ->. cbn [orb] in Hnd.
    replace (Nat.leb 2 n) with false in Hnd by (symmetry; apply Nat.leb_gt; exact Hn). cbn [orb] in Hnd.
    apply negb_true_iff, orb_false_elim in Hnd. apply andb_prop in Hst. destruct Hst as [Hst _]. apply negb_true_iff in Hst. tauto. }
  set (rest := (if hex then txt "0x" else []) ++ ds ++ k) in *.
  assert (Hrest : hd_sat (fun b => negb (bmem b [x2d; x2b])) rest = true).
  { subst rest. destruct hex; [reflexivity|]. destruct ds as [|d ds]; [contradiction|]. cbn [app hd_sat forallb] in *.
    apply andb_prop in Wd. destruct Wd as [Wd _]. revert Wd. clear. destruct d; vm_compute; intro H; try reflexivity; discriminate H. }
  destruct n as [|n]; cbn [minus_run].
  - apply dbl_inner_err; [apply Hb; lia|exact Hrest].
  - unfold dbl_inner. change sym_dbl_minus with [x2d]. change (x2d :: minus_run n rest) with ([x2d] ++ minus_run n rest).
    rewrite (opt_ok (tag [x2d]) _ _ _ (tag_ok [x2d] _)). cbn [pbind].
    assert (H2 : is_perr (tag sym_dbl_plus (minus_run n rest))).
    { destruct n; cbn [minus_run]; [|exact I]. destruct rest as [|b r]; [exact I|]. apply tag_hd_ne. cbn in Hrest. cbn [bmem] in Hrest.
      destruct (Byte.eqb b x2b); [|reflexivity]. rewrite orb_true_r in Hrest. discriminate. }
    rewrite (opt_err _ _ H2). cbn [pbind]. destruct n as [|n]; cbn [minus_run]; [apply Hb; lia|].
    apply dbl_alts_err_head. reflexivity.
Qed.

Lemma int_err k : hd_sat (fun b => negb (is_digit b) && negb (Byte.eqb b x2d)) k = true -> is_perr (p_int_constant lf k).
Proof.
  intros H. rewrite p_int_eq.
  assert (H1 : is_perr (tag sym_int_minus k)).
  { destruct k as [|b k]; [exact I|]. apply tag_hd_ne. cbn in H. apply andb_prop in H. destruct H as [_ H]. now apply negb_true_iff in H. }
  destruct lf as [|f]; [lia|]. cbn [many0_count]. destruct (tag sym_int_minus k); cbn in H1; try contradiction. cbn [pbind].
  apply pbind_err. unfold int_alts. 
  assert (Hd : hd_sat (fun b => negb (is_digit b)) k = true).
  { revert H. apply hd_sat_imp. intros b Hb. apply andb_prop in Hb. tauto. }
  rewrite alt_err.
  - apply alt_last_err. apply map_res_err. now apply digit1_err.
  - unfold int_hex. apply pbind_err. destruct k as [|b k]; [exact I|]. apply tag_hd_ne. cbn in Hd.
    destruct (Byte.eqb b x30) eqn:E; [|reflexivity]. apply byte_dec_bl in E. subst b. discriminate Hd.
Qed.

(* the class of bytes on which the first six alternatives all fail: no quote, no word, no number *)
Definition punctc (b : byte) : bool :=
  negb (Byte.eqb b x27 || Byte.eqb b x22) && negb (is_alpha b || is_underscore b) && negb (is_digit b) &&
  negb (bmem b [x2d; x2b; x2e]).

Lemma kw_err_nidh kw k : kw <> [] -> forallb (fun c => is_alpha c || is_underscore c) kw = true -> nidh k = true -> is_perr (p_keyword kw k).
Proof.
  intros Hne Hkw H. unfold p_keyword. apply pbind_err. destruct kw as [|c t]; [contradiction|].
  apply (tag_hd_err (fun b => negb (is_alpha b || is_underscore b))); [|exact H].
  cbn [forallb] in Hkw. apply andb_prop in Hkw. destruct Hkw as [-> _]. reflexivity.
Qed.

Lemma six_err k : hd_sat punctc k = true ->
  is_perr (cv_str lf k) /\ is_perr (cv_true k) /\ is_perr (cv_false k) /\ is_perr (cv_path lf k) /\
  is_perr (cv_dbl lf k) /\ is_perr (cv_int lf k).
Proof.
  intros H.
  assert (Hq : noquote k = true) by (revert H; apply hd_sat_imp; intros b Hb; unfold punctc in Hb; bsplit Hb; assumption).
  assert (Hi : nidh k = true) by (revert H; apply hd_sat_imp; intros b Hb; unfold punctc in Hb; bsplit Hb; assumption).
  assert (Hn : hd_sat (fun b => negb (is_digit b) && negb (Byte.eqb b x2e)) k = true).
  { revert H. apply hd_sat_imp. intros b Hb. unfold punctc in Hb. bsplit Hb. cbn [bmem] in W.
    destruct (is_digit b); [discriminate|]. destruct (Byte.eqb b x2e); [|reflexivity]. rewrite !orb_true_r in W. discriminate. }
  assert (Hm : hd_sat (fun b => negb (is_digit b) && negb (Byte.eqb b x2d)) k = true).
  { revert H. apply hd_sat_imp. intros b Hb. unfold punctc in Hb. bsplit Hb. cbn [bmem] in W.
    destruct (is_digit b); [discriminate|]. destruct (Byte.eqb b x2d); [discriminate|reflexivity]. }
  assert (Hs : hd_sat (fun b => negb (bmem b [x2d; x2b])) k = true).
  { revert H. apply hd_sat_imp. intros b Hb. unfold punctc in Hb. bsplit Hb. cbn [bmem] in *.
    destruct (Byte.eqb b x2d); [discriminate|]. destruct (Byte.eqb b x2b); [discriminate|reflexivity]. }
  split; [apply pmap_err, lit_err, Hq|].
  split; [apply pbind_err, kw_err_nidh; [discriminate|reflexivity|exact Hi]|].
  split; [apply pbind_err, kw_err_nidh; [discriminate|reflexivity|exact Hi]|].
  split; [apply pmap_err, path_err, Hi|].
  split; [apply pmap_err, dbl_err_of_inner, dbl_inner_err; [apply dbl_alts_err_head, Hn|exact Hs]|].
  apply pmap_err, int_err, Hm.
Qed.

(* a closing bracket (or any punctuation other than '[' and '{') is not a constant value *)
Lemma cv_err_punct d k : hd_sat (fun b => punctc b && negb (Byte.eqb b x5b) && negb (Byte.eqb b x7b)) k = true ->
  is_perr (p_const_value lf (S d) k).
Proof.
  intros H. rewrite p_cv_eq.
  assert (Hp : hd_sat punctc k = true) by (revert H; apply hd_sat_imp; intros b Hb; bsplit Hb; assumption).
  destruct (six_err k Hp) as [E1 [E2 [E3 [E4 [E5 E6]]]]].
  rewrite alt_err by exact E1. rewrite alt_err by exact E2. rewrite alt_err by exact E3. rewrite alt_err by exact E4.
  rewrite alt_err by exact E5. rewrite alt_err by exact E6.
  rewrite alt_err.
  - apply alt_last_err. unfold cv_map. apply pbind_err. destruct k as [|b k]; [exact I|]. apply tag_hd_ne.
    cbn in H. bsplit H. now apply negb_true_iff in W.
  - unfold cv_list. apply pbind_err. destruct k as [|b k]; [exact I|]. apply tag_hd_ne.
    cbn in H. bsplit H. now apply negb_true_iff in W0.
Qed.

End Const.

(* ---------- depth ---------- *)
Fixpoint cv_depth (v : cconst) : nat :=
  match v with
  | CCList _ els => S (clist_depth els)
  | CCMap _ els => S (cmapl_depth els)
  | _ => 0
  end
with clist_depth (l : clist) : nat :=
  match l with CLNil => 0 | CLCons v _ _ rest => Nat.max (cv_depth v) (clist_depth rest) end
with cmapl_depth (l : cmapl) : nat :=
  match l with CMNil => 0 | CMCons key _ _ v _ _ rest => Nat.max (Nat.max (cv_depth key) (cv_depth v)) (cmapl_depth rest) end.

Lemma many0_stop {A} (p : parser A) f i : is_perr (p i) -> many0 (S f) p i = POk i [].
Proof. intros H. cbn [many0]. destruct (p i); cbn in H; try contradiction. reflexivity. Qed.

Lemma many0_step {A} (p : parser A) f i i1 a : p i = POk i1 a -> length i1 < length i ->
  many0 (S f) p i = (do r, l <- many0 f p i1 ;; POk r (a :: l)).
Proof. intros H L. cbn [many0]. rewrite H. now rewrite (same_len_shorter _ _ L). Qed.

(* heads of the rest of an element list *)
Lemma clist_wstop rest c k : wf_clist rest = true -> clist_starts_word rest = false -> clist_starts_dot rest = false ->
  wstopc c = true -> wstop (pr_clist rest (c :: k)) = true.
Proof.
  destruct rest as [|v b s rest]; cbn [pr_clist wf_clist clist_starts_word clist_starts_dot]; intros Hw H1 H2 Hc; [exact Hc|].
  bsplit Hw. now apply const_wstop.
Qed.
Lemma clist_nodot rest c k : wf_clist rest = true -> clist_starts_dot rest = false ->
  negb (Byte.eqb c x2e) = true -> nodot (pr_clist rest (c :: k)) = true.
Proof.
  destruct rest as [|v b s rest]; cbn [pr_clist wf_clist clist_starts_dot]; intros Hw H2 Hc; [exact Hc|].
  bsplit Hw. now apply const_nodot.
Qed.
Lemma cmapl_wstop rest c k : wf_cmapl rest = true -> cmapl_starts_word rest = false -> cmapl_starts_dot rest = false ->
  wstopc c = true -> wstop (pr_cmapl rest (c :: k)) = true.
Proof.
  destruct rest as [|key b1 b2 v b3 s rest]; cbn [pr_cmapl wf_cmapl cmapl_starts_word cmapl_starts_dot]; intros Hw H1 H2 Hc; [exact Hc|].
  bsplit Hw. now apply const_wstop.
Qed.
Lemma cmapl_nodot rest c k : wf_cmapl rest = true -> cmapl_starts_dot rest = false ->
  negb (Byte.eqb c x2e) = true -> nodot (pr_cmapl rest (c :: k)) = true.
Proof.
  destruct rest as [|key b1 b2 v b3 s rest]; cbn [pr_cmapl wf_cmapl cmapl_starts_dot]; intros Hw H2 Hc; [exact Hc|].
  bsplit Hw. now apply const_nodot.
Qed.

Lemma len_const v k : wf_const v = true -> length k < length (pr_const v k).
Proof.
  intros Hw. destruct v as [l|b|p|d|i|b0 els|b0 els]; cbn [pr_const wf_const] in *.
  - unfold pr_lit. cbn [length]. rewrite app_length. cbn [length]. lia.
  - destruct b; rewrite app_length; cbn; lia.
  - apply andb_prop in Hw. destruct Hw as [Hw _]. unfold wf_path in Hw. apply andb_prop in Hw. destruct Hw as [Hh _].
    unfold pr_path. rewrite app_length. pose proof (sfx_len _ _ (sfx_path_tail k (cp_tail p) k (sfx_refl k))).
    destruct (cp_head p); [discriminate|]. cbn [length]. lia.
  - pose proof (sfx_len _ _ (sfx_dbl k d k (sfx_refl k))) as L. unfold pr_dbl in *. rewrite !app_length in *.
    unfold wf_dbl in Hw. destruct (cd_body d) as [ip fp ex|fp ex|ip ex]; cbn [pr_dbody wf_dbody] in *; bsplit Hw.
    + rewrite app_length. cbn [length]. rewrite app_length. pose proof (sfx_len _ _ (sfx_oexp k ex k (sfx_refl k))). lia.
    + cbn [length]. rewrite app_length. pose proof (sfx_len _ _ (sfx_oexp k ex k (sfx_refl k))). lia.
    + rewrite app_length. pose proof (sfx_len _ _ (sfx_oexp k (Some ex) k (sfx_refl k))) as L2. cbn [pr_oexp] in L2.
      assert (Nip : negb (is_nil ip) = true) by assumption. destruct ip; [discriminate|]. cbn [length]. lia.
  - unfold wf_int in Hw. bsplit Hw. unfold pr_int. rewrite len_minus, !app_length.
    assert (Nd : negb (is_nil (ci_digits i)) = true) by assumption. destruct (ci_digits i); [discriminate|]. cbn [length]. lia.
  - pose proof (sfx_len _ _ (sfx_blank k b0 _ (sfx_clist els k _ (sfx_app_r k (txt "]") k (sfx_refl k))))) as L.
    rewrite app_length. cbn [length txt]. cbn. cbn in L. lia.
  - pose proof (sfx_len _ _ (sfx_blank k b0 _ (sfx_cmapl els k _ (sfx_app_r k (txt "}") k (sfx_refl k))))) as L.
    rewrite app_length. cbn. cbn in L. lia.
Qed.

Section ConstMain.
Variable lf : nat.
Variable whole : list byte.
Hypothesis Hlf : length whole < lf.

(* a path constant: what follows is not read as a continuation of the path *)
Lemma cvfollow_nosep k : cvfollow true true k -> sfx k whole -> is_perr (p_path_sep lf k).
Proof.
  intros H S. destruct (H eq_refl) as [eof [bl [k' [-> [Hw [He [Hn [H1 H2]]]]]]]].
  unfold p_path_sep. destruct (oblank_e lf whole Hlf eof bl k' Hw He Hn S) as [o ->]. cbn [pbind]. apply pbind_err.
  apply dot_err. auto.
Qed.

(* ---------- what follows a value, exactly ----------
   Nothing is asked after a literal, a list or a map.  After a word or a number: the text does not continue it
   ([cont_ok], Print.v), it begins with an ASCII byte (every token of the grammar does), and after a path it is not a
   path separator followed by an identifier. *)
Definition cfollow (v : cconst) (k : list byte) : Prop :=
  const_ends_word v = true -> cont_ok v k = true /\ hd_ascii k = true /\ (const_is_path v = true -> sepfollow lf k).

Lemma bs_endc b : blank_start b = true -> endc b = true.
Proof. destruct b; vm_compute; intro H; try reflexivity; discriminate H. Qed.
Lemma wstopc_ascii b : wstopc b = true -> N.ltb (bn b) 128 = true.
Proof. unfold wstopc. intros H. bsplit H. exact H. Qed.

(* the structural follow condition (a blank, or a byte that ends every word and number) is a special case *)
Lemma cvfollow_cfollow v k : cvfollow (const_ends_word v) (const_is_path v) k -> sfx k whole -> cfollow v k.
Proof.
  intros H S He. rewrite He in H. destruct (H eq_refl) as [eof [bl [k' [E [Hw [Hf [Hn [H1 H2]]]]]]]].
  split; [|split].
  - apply cont_ok_end. subst k. unfold endk. eapply blank_then_e; eauto using bs_endc. intros Eb.
    apply wstop_endk. auto.
  - subst k. unfold hd_ascii. eapply blank_then_e; eauto using bs_ascii. intros Eb.
    generalize (H1 Eb). apply hd_sat_imp. exact wstopc_ascii.
  - intros Hp. rewrite Hp in H. left. now apply cvfollow_nosep.
Qed.

Lemma cfollow_wordend v k : cfollow v k -> const_ends_word v = true -> (forall kk, cont_ok v kk = negb (hd_is wordch kk)) -> wordend k = true.
Proof.
  intros H He Hc. destruct (H He) as [H1 [H2 _]]. rewrite Hc in H1. apply negb_true_iff in H1.
  destruct k as [|b k]; [reflexivity|]. cbn in *. unfold wordch in H1. unfold identch. now rewrite H2, H1.
Qed.
Lemma cfollow_nid v k : cfollow v k -> const_ends_word v = true -> (forall kk, cont_ok v kk = negb (hd_is wordch kk)) -> nid k = true.
Proof. intros H He Hc. apply wordend_identch. eapply cfollow_wordend; eauto. Qed.

(* a value whose text begins with '.' continues with a digit *)
Lemma const_dot_digit v k : wf_const v = true -> nodot (pr_const v k) = true \/ exists d r, pr_const v k = x2e :: d :: r /\ is_digit d = true.
Proof.
  intros Hw. destruct (const_starts_dot v) eqn:E; [|left; now apply const_nodot].
  right. destruct v as [l|b|p|dd|i|b0 els|b0 els]; cbn [const_starts_dot] in E; try discriminate.
  destruct dd as [[|] [|] body]; cbn in E; try discriminate. destruct body as [ip fp ex|fp ex|ip ex]; try discriminate.
  cbn [wf_const] in Hw. unfold wf_dbl in Hw. cbn [cd_body wf_dbody] in Hw. bsplit Hw.
  destruct fp as [|d fp]; [discriminate|]. cbn [is_digits forallb] in W0. apply andb_prop in W0. destruct W0 as [Hd _].
  exists d, (fp ++ pr_oexp ex k). split; [reflexivity|exact Hd].
Qed.

(* a blank and then either no '.', or a '.' and a digit: not a path separator followed by an identifier *)
Lemma sepfollow_head b Y : wf_blank b = true -> nb Y = true ->
  (nodot Y = true \/ exists d r, Y = x2e :: d :: r /\ is_digit d = true) -> sfx (pr_blank b Y) whole ->
  sepfollow lf (pr_blank b Y).
Proof.
  intros Hb Hn HY S. unfold sepfollow, p_path_sep. destruct (oblank lf whole Hlf b Y Hb Hn S) as [o ->]. cbn [pbind].
  destruct HY as [HY|[d [r [-> Hd]]]].
  - left. apply pbind_err, dot_err, HY.
  - right. change sym_path_dot with [x2e]. change (x2e :: d :: r) with ([x2e] ++ d :: r). rewrite tag_ok. cbn [pbind].
    assert (Hnb : nb (d :: r) = true).
    { cbn. destruct (blank_start d) eqn:Eb; [|reflexivity]. pose proof (blank_start_not_identch d Eb) as Hi.
      rewrite (digit_identch d Hd) in Hi. discriminate. }
    rewrite (opt_err (p_blank lf)) by (apply blank_err, Hnb). cbn [pbind].
    exists (d :: r), tt. split; [reflexivity|]. split.
    + apply same_len_shorter. pose proof (len_blank b ([x2e] ++ d :: r)) as L. cbn [app length] in *. lia.
    + apply ident_err. cbn. destruct d; vm_compute in Hd |- *; congruence.
Qed.

Lemma sep_byte_endc semi : endc (sep_byte semi) = true.
Proof. destruct semi; reflexivity. Qed.

(* the follow condition of an element of a list / a map, from the glue condition.  R = nxt ++ X is the text of the
   following elements (nxt) and of what follows the list (X, which begins with the closing bracket) *)
Lemma glue_cfollow v b s nxt X : wf_blank b = true -> wf_sep s = true -> nb (nxt ++ X) = true -> lstopk X = true ->
  glue_ok v b s nxt = true -> hd_ascii (nxt ++ X) = true ->
  (nodot (nxt ++ X) = true \/ exists d r, nxt ++ X = x2e :: d :: r /\ is_digit d = true) ->
  sfx (pr_blank b (pr_sep s (nxt ++ X))) whole ->
  cfollow v (pr_blank b (pr_sep s (nxt ++ X))).
Proof.
  intros Hb Hs Hn HX Hg Ha Hd S He.
  assert (Hend : (s <> SepNone \/ b <> []) -> endk (pr_blank b (pr_sep s (nxt ++ X))) = true).
  { intros Hc. unfold endk. apply blank_then; auto using bs_endc. intros ->. destruct s as [|semi bl]; [destruct Hc; contradiction|].
    cbn [pr_sep hd_sat]. apply sep_byte_endc. }
  split; [|split].
  - destruct s as [|semi bl]; [destruct b as [|a b]|].
    + cbn [pr_blank pr_sep glue_ok] in *. now rewrite (cont_ok_local v nxt X HX).
    + apply cont_ok_end, Hend. right. discriminate.
    + apply cont_ok_end, Hend. left. discriminate.
  - unfold hd_ascii. apply blank_then; auto using bs_ascii. intros _. destruct s as [|[|] bl]; cbn [pr_sep sep_byte hd_sat]; auto.
  - intros _. destruct s as [|semi bl].
    + cbn [pr_sep] in *. now apply sepfollow_head.
    + apply sepfollow_head; auto; [destruct semi; reflexivity|left; destruct semi; reflexivity].
Qed.

Lemma cvstart_ascii b : cvstart b = true -> N.ltb (bn b) 128 = true.
Proof. destruct b; vm_compute; intro H; try reflexivity; discriminate H. Qed.

Lemma clist_ascii l c k : wf_clist l = true -> N.ltb (bn c) 128 = true -> hd_ascii (pr_clist l (c :: k)) = true.
Proof. destruct l as [|v b s rest]; cbn [pr_clist wf_clist]; intros H Hc; [exact Hc|]. bsplit H. apply const_head; auto using cvstart_ascii. Qed.
Lemma cmapl_ascii l c k : wf_cmapl l = true -> N.ltb (bn c) 128 = true -> hd_ascii (pr_cmapl l (c :: k)) = true.
Proof. destruct l as [|key b1 b2 v b3 s rest]; cbn [pr_cmapl wf_cmapl]; intros H Hc; [exact Hc|]. bsplit H. apply const_head; auto using cvstart_ascii. Qed.
Lemma clist_dot l c k : wf_clist l = true -> negb (Byte.eqb c x2e) = true ->
  nodot (pr_clist l (c :: k)) = true \/ exists d r, pr_clist l (c :: k) = x2e :: d :: r /\ is_digit d = true.
Proof. destruct l as [|v b s rest]; cbn [pr_clist wf_clist]; intros H Hc; [left; exact Hc|]. bsplit H. now apply const_dot_digit. Qed.
Lemma cmapl_dot l c k : wf_cmapl l = true -> negb (Byte.eqb c x2e) = true ->
  nodot (pr_cmapl l (c :: k)) = true \/ exists d r, pr_cmapl l (c :: k) = x2e :: d :: r /\ is_digit d = true.
Proof. destruct l as [|key b1 b2 v b3 s rest]; cbn [pr_cmapl wf_cmapl]; intros H Hc; [left; exact Hc|]. bsplit H. now apply const_dot_digit. Qed.

Section Loops.
Variable cv : parser ConstValue.
Variable d : nat.
Hypothesis Hcv : forall v k, cv_depth v < d -> wf_const v = true -> cfollow v k ->
  sfx (pr_const v k) whole -> cv (pr_const v k) = POk k (erase_const v).
Hypothesis Hstop : forall c k, (c = x5d \/ c = x7d) -> is_perr (cv (c :: k)).

Lemma cv_elem_ok v b0 b s R : cv_depth v < d -> wf_blank b0 = true -> wf_const v = true -> wf_blank b = true -> wf_sep s = true ->
  nb R = true -> nosep R = true -> cfollow v (pr_blank b (pr_sep s R)) ->
  sfx (pr_blank b0 (pr_const v (pr_blank b (pr_sep s R)))) whole ->
  cv_elem lf cv (pr_blank b0 (pr_const v (pr_blank b (pr_sep s R)))) = POk R (erase_const v).
Proof.
  intros Hd Hb0 Hv Hb Hs Hn Hns Hf S. unfold cv_elem.
  obk lf whole Hlf S ltac:(now apply const_nb).
  rewrite (Hcv v _ Hd Hv Hf) by (sfx_of S). cbn [pbind].
  obk lf whole Hlf S ltac:(now apply sep_nb).
  destruct (osep_ok lf whole Hlf s R Hs Hn Hns ltac:(sfx_of S)) as [osep ->]. reflexivity.
Qed.

Lemma clist_loop : forall els b0 k fuel c, c = x5d -> wf_blank b0 = true -> wf_clist els = true -> clist_depth els < d ->
  sfx (pr_blank b0 (pr_clist els (c :: k))) whole -> length (pr_blank b0 (pr_clist els (c :: k))) < fuel ->
  many0 fuel (cv_elem lf cv) (pr_blank b0 (pr_clist els (c :: k))) =
  POk (match els with CLNil => pr_blank b0 (c :: k) | _ => c :: k end) (erase_clist els).
Proof.
  induction els as [|v b s rest IH]; intros b0 k fuel c Hc Hb0 Hw Hd S Hf; (destruct fuel as [|f]; [lia|]);
    cbn [pr_clist erase_clist wf_clist clist_depth] in *.
  - apply many0_stop. unfold cv_elem.
    destruct (oblank lf whole Hlf b0 (c :: k) Hb0 ltac:(subst c; reflexivity) S) as [o ->]. cbn [pbind].
    apply pbind_err, Hstop. tauto.
  - bsplit Hw.
    assert (Dv : cv_depth v < d) by (clear - Hd; lia). assert (Dr : clist_depth rest < d) by (clear - Hd; lia). clear Hd.
    remember (pr_clist rest (c :: k)) as R eqn:ER.
    assert (NR : nb R = true) by (subst R; apply clist_nb; [assumption|subst c; reflexivity]).
    assert (SR : nosep R = true) by (subst R; apply clist_nosep; [assumption|subst c; reflexivity]).
    assert (ERa : R = pr_clist rest [] ++ c :: k) by (subst R; apply pr_clist_app).
    assert (F : cfollow v (pr_blank b (pr_sep s R))).
    { rewrite ERa. apply glue_cfollow; try assumption; try rewrite <- ERa; try assumption.
      - subst c. reflexivity.
      - subst R. apply clist_ascii; [assumption|subst c; reflexivity].
      - subst R. apply clist_dot; [assumption|subst c; reflexivity].
      - sfx_of S. }
    assert (L : length R < length (pr_blank b0 (pr_const v (pr_blank b (pr_sep s R))))).
    { pose proof (len_blank b0 (pr_const v (pr_blank b (pr_sep s R)))) as L1.
      pose proof (len_const v (pr_blank b (pr_sep s R)) ltac:(assumption)) as L2.
      pose proof (len_blank b (pr_sep s R)) as L3. pose proof (len_sep s R) as L4. clear - L1 L2 L3 L4. lia. }
    rewrite (many0_step _ f _ R (erase_const v) (cv_elem_ok v b0 b s R Dv Hb0 ltac:(assumption) ltac:(assumption) ltac:(assumption) NR SR F S) L).
    assert (SR' : sfx (pr_blank [] (pr_clist rest (c :: k))) whole) by (cbn [pr_blank]; rewrite <- ER; sfx_of S).
    assert (LR : length (pr_blank [] (pr_clist rest (c :: k))) < f) by (cbn [pr_blank]; rewrite <- ER; clear - L Hf; lia).
    rewrite ER. change (pr_clist rest (c :: k)) with (pr_blank [] (pr_clist rest (c :: k))) at 1.
    rewrite (IH [] k f c Hc eq_refl ltac:(assumption) Dr SR' LR).
    cbn [pbind]. destruct rest; reflexivity.
Qed.

Lemma cv_kv_ok key v b0 b1 b2 b3 s R : cv_depth key < d -> cv_depth v < d -> wf_blank b0 = true -> wf_const key = true ->
  wf_blank b1 = true -> wf_blank b2 = true -> wf_const v = true -> wf_blank b3 = true -> wf_sep s = true ->
  nb R = true -> nosep R = true -> cfollow v (pr_blank b3 (pr_sep s R)) ->
  sfx (pr_blank b0 (pr_const key (pr_blank b1 (txt ":" ++ pr_blank b2 (pr_const v (pr_blank b3 (pr_sep s R))))))) whole ->
  cv_kv lf cv (pr_blank b0 (pr_const key (pr_blank b1 (txt ":" ++ pr_blank b2 (pr_const v (pr_blank b3 (pr_sep s R)))))))
  = POk R (erase_const key, erase_const v).
Proof.
  intros Hdk Hdv Hb0 Hk Hb1 Hb2 Hv Hb3 Hs Hn Hns Hf S. unfold cv_kv.
  obk lf whole Hlf S ltac:(now apply const_nb).
  assert (Fk : cfollow key (pr_blank b1 (txt ":" ++ pr_blank b2 (pr_const v (pr_blank b3 (pr_sep s R)))))).
  { apply cvfollow_cfollow; [|sfx_of S]. intros _. eexists false, b1, _. split; [reflexivity|]. repeat split; auto. discriminate. }
  rewrite (Hcv key _ Hdk Hk Fk) by (sfx_of S). cbn [pbind].
  obk lf whole Hlf S ltac:(reflexivity).
  tg sym_cmap_colon (txt ":").
  obk lf whole Hlf S ltac:(now apply const_nb).
  rewrite (Hcv v _ Hdv Hv Hf) by (sfx_of S). cbn [pbind].
  obk lf whole Hlf S ltac:(now apply sep_nb).
  destruct (osep_ok lf whole Hlf s R Hs Hn Hns ltac:(sfx_of S)) as [osep ->]. reflexivity.
Qed.

Lemma cmapl_loop : forall els b0 k fuel c, c = x7d -> wf_blank b0 = true -> wf_cmapl els = true -> cmapl_depth els < d ->
  sfx (pr_blank b0 (pr_cmapl els (c :: k))) whole -> length (pr_blank b0 (pr_cmapl els (c :: k))) < fuel ->
  many0 fuel (cv_kv lf cv) (pr_blank b0 (pr_cmapl els (c :: k))) =
  POk (match els with CMNil => pr_blank b0 (c :: k) | _ => c :: k end) (erase_cmapl els).
Proof.
  induction els as [|key b1 b2 v b3 s rest IH]; intros b0 k fuel c Hc Hb0 Hw Hd S Hf; (destruct fuel as [|f]; [lia|]);
    cbn [pr_cmapl erase_cmapl wf_cmapl cmapl_depth] in *.
  - apply many0_stop. unfold cv_kv.
    destruct (oblank lf whole Hlf b0 (c :: k) Hb0 ltac:(subst c; reflexivity) S) as [o ->]. cbn [pbind].
    apply pbind_err, Hstop. tauto.
  - bsplit Hw.
    assert (Dk : cv_depth key < d) by (clear - Hd; lia). assert (Dv : cv_depth v < d) by (clear - Hd; lia).
    assert (Dr : cmapl_depth rest < d) by (clear - Hd; lia). clear Hd.
    remember (pr_cmapl rest (c :: k)) as R eqn:ER.
    assert (NR : nb R = true) by (subst R; apply cmapl_nb; [assumption|subst c; reflexivity]).
    assert (SR : nosep R = true) by (subst R; apply cmapl_nosep; [assumption|subst c; reflexivity]).
    assert (ERa : R = pr_cmapl rest [] ++ c :: k) by (subst R; apply pr_cmapl_app).
    assert (F : cfollow v (pr_blank b3 (pr_sep s R))).
    { rewrite ERa. apply glue_cfollow; try assumption; try rewrite <- ERa; try assumption.
      - subst c. reflexivity.
      - subst R. apply cmapl_ascii; [assumption|subst c; reflexivity].
      - subst R. apply cmapl_dot; [assumption|subst c; reflexivity].
      - sfx_of S. }
    assert (L : length R < length (pr_blank b0 (pr_const key (pr_blank b1 (txt ":" ++ pr_blank b2 (pr_const v (pr_blank b3 (pr_sep s R)))))))).
    { pose proof (len_blank b0 (pr_const key (pr_blank b1 (txt ":" ++ pr_blank b2 (pr_const v (pr_blank b3 (pr_sep s R))))))) as L1.
      pose proof (len_const key (pr_blank b1 (txt ":" ++ pr_blank b2 (pr_const v (pr_blank b3 (pr_sep s R))))) ltac:(assumption)) as L2.
      pose proof (len_blank b1 (txt ":" ++ pr_blank b2 (pr_const v (pr_blank b3 (pr_sep s R))))) as L3.
      rewrite app_length in L3. pose proof (len_blank b2 (pr_const v (pr_blank b3 (pr_sep s R)))) as L4.
      pose proof (len_const v (pr_blank b3 (pr_sep s R)) ltac:(assumption)) as L5.
      pose proof (len_blank b3 (pr_sep s R)) as L6. pose proof (len_sep s R) as L7. clear - L1 L2 L3 L4 L5 L6 L7. lia. }
    rewrite (many0_step _ f _ R (erase_const key, erase_const v)
               (cv_kv_ok key v b0 b1 b2 b3 s R Dk Dv Hb0 ltac:(assumption) ltac:(assumption) ltac:(assumption) ltac:(assumption)
                         ltac:(assumption) ltac:(assumption) NR SR F S) L).
    assert (SR' : sfx (pr_blank [] (pr_cmapl rest (c :: k))) whole) by (cbn [pr_blank]; rewrite <- ER; sfx_of S).
    assert (LR : length (pr_blank [] (pr_cmapl rest (c :: k))) < f) by (cbn [pr_blank]; rewrite <- ER; clear - L Hf; lia).
    rewrite ER. change (pr_cmapl rest (c :: k)) with (pr_blank [] (pr_cmapl rest (c :: k))) at 1.
    rewrite (IH [] k f c Hc eq_refl ltac:(assumption) Dr SR' LR).
    cbn [pbind]. destruct rest; reflexivity.
Qed.

End Loops.

Theorem rt_const : forall d v k, cv_depth v < d -> wf_const v = true ->
  cfollow v k -> sfx (pr_const v k) whole ->
  p_const_value lf d (pr_const v k) = POk k (erase_const v).
Proof.
  induction d as [|d IH]; intros v k Hd Hw Hf S; [lia|]. rewrite p_cv_eq.
  assert (Hstop : d <> 0 -> forall c k0, c = x5d \/ c = x7d -> is_perr (p_const_value lf d (c :: k0))).
  { intros Hd0 c k0 Hc. destruct d as [|d']; [contradiction|]. apply (cv_err_punct lf whole Hlf).
    destruct Hc as [-> | ->]; reflexivity. }
  assert (Lk : length k < lf).
  { eapply sfx_lt; [exact Hlf|]. eapply sfx_trans; [|exact S]. apply sfx_const, sfx_refl. }
  destruct v as [l|b|p|dd|i|b0 els|b0 els]; cbn [pr_const erase_const wf_const cv_depth] in *.
  - (* literal *)
    apply alt_ok. unfold cv_str, pmap. rewrite (rt_literal lf l k Hw) by (eapply sfx_lt; [exact Hlf|exact S]). reflexivity.
  - (* bool *)
    pose proof (cfollow_wordend _ _ Hf eq_refl (fun kk => eq_refl)) as We.
    rewrite alt_err by (apply pmap_err, lit_err; destruct b; reflexivity).
    destruct b.
    + apply alt_ok. unfold cv_true. change kw_true with (txt "true"). now rewrite rt_keyword.
    + rewrite alt_err by (unfold cv_true, p_keyword; apply pbind_err, pbind_err, tag_mism; reflexivity).
      apply alt_ok. unfold cv_false. change kw_false with (txt "false"). now rewrite rt_keyword.
  - (* path *)
    apply andb_prop in Hw. destruct Hw as [Hwp Hnk].
    pose proof Hwp as Hwp'. unfold wf_path in Hwp'. apply andb_prop in Hwp'. destruct Hwp' as [Hh Ht].
    pose proof (cfollow_nid _ _ Hf eq_refl (fun kk => eq_refl)) as Hk1. pose proof (path_tail_head (cp_tail p) k Ht Hk1) as Hrest.
    apply negb_true_iff in Hnk. cbn [bytes_in] in Hnk. apply orb_false_elim in Hnk. destruct Hnk as [N1 N2].
    apply orb_false_elim in N2. destruct N2 as [N2 _].
    rewrite alt_err by (apply pmap_err, lit_err, path_head; auto; intros b Hb; now apply (stop_noquote [b]), idh_stop).
    unfold pr_path in *.
    rewrite alt_err by (apply pbind_err; now apply keyword_not_ident).
    rewrite alt_err by (apply pbind_err; now apply keyword_not_ident).
    apply alt_ok. unfold cv_path, pmap. change (cp_head p ++ pr_path_tail (cp_tail p) k) with (pr_path p k).
    destruct (Hf eq_refl) as [_ [_ Hsep]].
    rewrite (rt_path lf whole Hlf p k Hwp (conj Hk1 (Hsep eq_refl)) S). reflexivity.
  - (* double *)
    destruct (Hf eq_refl) as [Hk1 _]. cbn [cont_ok] in Hk1.
    assert (Hi : nidh (pr_dbl dd k) = true) by (apply dbl_head; auto; intros c; destruct c; vm_compute; intro H; try reflexivity; discriminate H).
    rewrite alt_err by (apply pmap_err, lit_err, dbl_head; auto; intros c; destruct c; vm_compute; intro H; try reflexivity; discriminate H).
    rewrite alt_err by (apply pbind_err, kw_err_nidh; [discriminate|reflexivity|exact Hi]).
    rewrite alt_err by (apply pbind_err, kw_err_nidh; [discriminate|reflexivity|exact Hi]).
    rewrite alt_err by (apply pmap_err, path_err, Hi).
    apply alt_ok. unfold cv_dbl, pmap. rewrite (rt_dbl lf dd k Hw Hk1) by (eapply sfx_lt; [exact Hlf|exact S]). reflexivity.
  - (* integer *)
    destruct (Hf eq_refl) as [Hk0 _]. cbn [cont_ok] in Hk0. apply andb_prop in Hk0. destruct Hk0 as [Hk1 Hk2].
    assert (Hi : nidh (pr_int i k) = true) by (apply int_head; auto; intros c; destruct c; vm_compute; intro H; try reflexivity; discriminate H).
    rewrite alt_err by (apply pmap_err, lit_err, int_head; auto; intros c; destruct c; vm_compute; intro H; try reflexivity; discriminate H).
    rewrite alt_err by (apply pbind_err, kw_err_nidh; [discriminate|reflexivity|exact Hi]).
    rewrite alt_err by (apply pbind_err, kw_err_nidh; [discriminate|reflexivity|exact Hi]).
    rewrite alt_err by (apply pmap_err, path_err, Hi).
    rewrite alt_err by (apply pmap_err; now apply (int_not_dbl lf whole Hlf)).
    apply alt_ok. unfold cv_int, pmap. rewrite (rt_int lf i k Hw Hk1) by (eapply sfx_lt; [exact Hlf|exact S]). reflexivity.
  - (* list *)
    apply andb_prop in Hw. destruct Hw as [Hb0 Hels].
    destruct (six_err lf whole Hlf (txt "[" ++ pr_blank b0 (pr_clist els (txt "]" ++ k))) eq_refl) as [E1 [E2 [E3 [E4 [E5 E6]]]]].
    rewrite alt_err by exact E1. rewrite alt_err by exact E2. rewrite alt_err by exact E3. rewrite alt_err by exact E4.
    rewrite alt_err by exact E5. rewrite alt_err by exact E6.
    apply alt_ok. unfold cv_list. tg sym_clist_open (txt "[").
    change (txt "]" ++ k) with (x5d :: k) in *.
    rewrite (clist_loop (p_const_value lf d) d (fun v k Hd' => IH v k Hd') (Hstop ltac:(lia)) els b0 k lf x5d eq_refl Hb0 Hels ltac:(lia))
      by (first [solve [sfx_of S] | eapply sfx_lt; [exact Hlf|sfx_of S]]).
    cbn [pbind]. destruct els as [|v b s rest].
    + destruct (oblank lf whole Hlf b0 (x5d :: k) Hb0 eq_refl ltac:(sfx_of S)) as [o ->]. cbn [pbind].
      change (x5d :: k) with (sym_clist_close ++ k). rewrite tag_ok. reflexivity.
    + rewrite (opt_err (p_blank lf)) by (apply blank_err; reflexivity). cbn [pbind].
      change (x5d :: k) with (sym_clist_close ++ k). rewrite tag_ok. reflexivity.
  - (* map *)
    apply andb_prop in Hw. destruct Hw as [Hb0 Hels].
    destruct (six_err lf whole Hlf (txt "{" ++ pr_blank b0 (pr_cmapl els (txt "}" ++ k))) eq_refl) as [E1 [E2 [E3 [E4 [E5 E6]]]]].
    rewrite alt_err by exact E1. rewrite alt_err by exact E2. rewrite alt_err by exact E3. rewrite alt_err by exact E4.
    rewrite alt_err by exact E5. rewrite alt_err by exact E6.
    rewrite alt_err by (unfold cv_list; apply pbind_err; exact I).
    cbn [alt]. unfold cv_map. tg sym_cmap_open (txt "{").
    change (txt "}" ++ k) with (x7d :: k) in *.
    rewrite (cmapl_loop (p_const_value lf d) d (fun v k Hd' => IH v k Hd') (Hstop ltac:(lia)) els b0 k lf x7d eq_refl Hb0 Hels ltac:(lia))
      by (first [solve [sfx_of S] | eapply sfx_lt; [exact Hlf|sfx_of S]]).
    cbn [pbind]. destruct els as [|key b1 b2 v b3 s rest].
    + destruct (oblank lf whole Hlf b0 (x7d :: k) Hb0 eq_refl ltac:(sfx_of S)) as [o ->]. cbn [pbind].
      change (x7d :: k) with (sym_cmap_close ++ k). rewrite tag_ok. reflexivity.
    + rewrite (opt_err (p_blank lf)) by (apply blank_err; reflexivity). cbn [pbind].
      change (x7d :: k) with (sym_cmap_close ++ k). rewrite tag_ok. reflexivity.
Qed.

End ConstMain.

(* non-vacuity:  { 'a' : [ 1 -0x2 x.y, .5e3 ; ] # c
   /*d*/ true : {} }  followed by ";" -- nested list and map, all separator choices, the three comment styles *)
Example rt_const_example :
  let one := CCInt (mkCInt 0 false (txt "1")) in
  let mtwo := CCInt (mkCInt 1 true (txt "2")) in
  let xy := CCPath (mkCPath (txt "x") [([], [], txt "y")]) in
  let half := CCDbl (mkCDbl false false (DBodyB (txt "5") (Some (mkCExp false (mkCInt 0 false (txt "3")))))) in
  let lst := CCList [BWs (txt " ")] (CLCons one [BWs (txt " ")] SepNone (CLCons mtwo [BWs (txt " ")] SepNone
               (CLCons xy [] (SepSome false [BWs (txt " ")]) (CLCons half [BWs (txt " ")] (SepSome true [BWs (txt " ")]) CLNil)))) in
  let v := CCMap [BWs (txt " ")]
             (CMCons (CCLit (mkLit false (txt "a"))) [BWs (txt " ")] [BWs (txt " ")] lst [BWs (txt " "); BHash (txt " c"); BWs [x0a]; BBlock (txt "d"); BWs (txt " ")] SepNone
             (CMCons (CCBool true) [BWs (txt " ")] [BWs (txt " ")] (CCMap [] CMNil) [BWs (txt " ")] SepNone CMNil)) in
  wf_const v = true /\ cv_depth v = 2 /\
  p_const_value 200 3 (pr_const v (txt ";")) = POk (txt ";") (erase_const v) /\
  erase_const v = CMap [(CString (txt "a"), CList [CInt 1; CInt (-2); CPath [txt "x"; txt "y"]; CDouble (txt ".5e3")]);
                        (CBool true, CMap [])].
Proof. vm_compute. repeat split. Qed.
