(* C09 at the generated-code level: the emitted sync decoders (Gen.gen_decode) are total.
     A. the sync primitive readers commute with erasing the pending-bool-field flag (ERA); corollary: no reader
        ever SETS that flag (only field_begin_len does)                      [also used by Proofs/AsyncGenP.v]
     B. totality: on every byte string, every schema, every type, every protocol, every initial reader context,
        fuel [length input + 1] gives a value or a genuine error: never a panic (the panic sites of the emitted
        code are the TLengthProtocol assertions of the compact reader: field_begin_len(Bool) with a pending bool,
        field_end_len / field_stop_len with a pending bool, the unwraps of field_begin_len), never fuel exhaustion
     C. the decoders are monotone in the input: what they return on a buffer (value OR panic) they return on every
        extension of it, leaving the extension unread
     D. every strict prefix of what the emitted encoder wrote is rejected with a genuine error
     E. recursion depth is bounded by the input length and by nothing else (no depth limit in the templates) *)
From PV Require Import Thrift.Skip Proofs.TablesP Proofs.PrimP Proofs.HeaderP Proofs.RoundtripP Proofs.TotalP Proofs.SkipP Proofs.PrefixP.
From PVGen Require Import Gen GenSpec Proofs.GenBase Proofs.EncP Proofs.RoundP.
From Coq Require Import ZifyN ZifyNat ZifyBool.
Open Scope Z_scope.

(* ================= A. erasing the pending-bool-field flag ================= *)
Definition erase (s : rst) : rst :=
  set_rc s (mkR (r_last (rc s)) (r_stack (rc s)) (r_pbool (rc s)) false).

Lemma erase_id s : r_pfield (rc s) = false -> erase s = s.
Proof. destruct s as [b [l st pb pf]]. cbn. intros ->. reflexivity. Qed.
Lemma erase_pf s : r_pfield (rc (erase s)) = false.
Proof. reflexivity. Qed.
Lemma erase_buf s : rbuf (erase s) = rbuf s.
Proof. reflexivity. Qed.
Lemma erase_blen s : blen (erase s) = blen s.
Proof. reflexivity. Qed.
Lemma erase_erase s : erase (erase s) = erase s.
Proof. reflexivity. Qed.

Definition ERA {A} (m : rm A) : Prop :=
  forall s x s', m s = Ok (x, s') -> m (erase s) = Ok (x, erase s').

Lemma ERA_bind {A B} (m : rm A) (f : A -> rm B) :
  ERA m -> (forall x, ERA (f x)) -> ERA (fun s => let* (x, s1) := m s in f x s1).
Proof. intros Hm Hf s y s' H. binv H. rewrite (Hm _ _ _ E). cbn [bind]. apply Hf, H. Qed.
Lemma ERA_ret {A} (x : A) : ERA (fun s => Ok (x, s)).
Proof. intros s y s' H. injection H as <- <-. reflexivity. Qed.
Lemma ERA_map {A B} (m : rm A) (g : A -> B) : ERA m -> ERA (fun s => let* (x, s1) := m s in Ok (g x, s1)).
Proof. intros H. apply (ERA_bind m (fun x s1 => Ok (g x, s1))); auto. intros x. apply ERA_ret. Qed.
Lemma ERA_fail {A} e : ERA (fun _ : rst => @Err (A * rst) e).
Proof. intros s x s' H. discriminate. Qed.

(* a reader never sets the flag *)
Lemma ERA_noset {A} (m : rm A) : ERA m ->
  forall s x s', m s = Ok (x, s') -> r_pfield (rc s) = false -> r_pfield (rc s') = false.
Proof.
  intros Hm s x s' H Hp. pose proof (Hm _ _ _ H) as H2. rewrite (erase_id s Hp), H in H2.
  injection H2 as H2. rewrite H2. reflexivity.
Qed.

Lemma ERA_take n : ERA (r_take n).
Proof.
  intros s a s' H. unfold r_take in *. cbn [erase set_rc rbuf].
  destruct (take n (rbuf s)) as [[a' r]|]; [|discriminate]. injection H as <- <-. reflexivity.
Qed.
Lemma ERA_varint m : ERA (r_varint m).
Proof.
  intros s n s' H. unfold r_varint in *. cbn [erase set_rc rbuf].
  destruct (read_var_u64 m (rbuf s)) as [[n' r]| |]; cbn [bind] in *; try discriminate.
  injection H as <- <-. reflexivity.
Qed.
Lemma ERA_byte : ERA r_byte.
Proof. apply (ERA_map _ of_le), ERA_take. Qed.
Lemma ERA_i8 : ERA r_i8.
Proof. apply (ERA_map _ (fun a => wrap_s 8 (of_le a))), ERA_take. Qed.
Lemma ERA_fixed p n b : ERA (r_fixed p n b).
Proof. apply (ERA_map _ (fun a => wrap_s b (unfx p a))), ERA_take. Qed.
Lemma ERA_i16 p : ERA (r_i16 p).
Proof. destruct p; cbn [r_i16]; try apply ERA_fixed. apply (ERA_map _ (fun n => wrap_s 16 (unzigzag n))), ERA_varint. Qed.
Lemma ERA_i32 p : ERA (r_i32 p).
Proof. destruct p; cbn [r_i32]; try apply ERA_fixed. apply (ERA_map _ (fun n => wrap_s 32 (unzigzag n))), ERA_varint. Qed.
Lemma ERA_i64 p : ERA (r_i64 p).
Proof. destruct p; cbn [r_i64]; try apply ERA_fixed. apply (ERA_map _ (fun n => wrap_s 64 (unzigzag n))), ERA_varint. Qed.
Lemma ERA_double p : ERA (r_double p).
Proof. apply (ERA_map _ (fun a => match p with PBinary => of_be a | _ => of_le a end)), ERA_take. Qed.
Lemma ERA_uuid : ERA r_uuid.
Proof. apply ERA_take. Qed.
Lemma ERA_len p : ERA (r_len p).
Proof.
  destruct p; cbn [r_len].
  1,2: apply (ERA_map _ (wrap_u 64)), ERA_i32.
  apply (ERA_map _ (wrap_u 32)), ERA_varint.
Qed.
Lemma ERA_split n : ERA (r_split n).
Proof.
  intros s a s' H. unfold r_split in *. cbn [erase set_rc rbuf].
  destruct (n <=? Z.of_nat (length (rbuf s))); [|discriminate]. apply (ERA_take _ _ _ _ H).
Qed.
Lemma ERA_bytes p : ERA (r_bytes p).
Proof. unfold r_bytes. apply ERA_bind; [apply ERA_len|]. intros n. apply ERA_split. Qed.
Lemma ERA_ttype : ERA r_ttype.
Proof.
  unfold r_ttype. apply ERA_bind; [apply ERA_byte|]. intros b. destruct (ttype_of_byte b); [apply ERA_ret|apply ERA_fail].
Qed.

Lemma r_bool_compact_pf s b s' : r_bool PCompact s = Ok (b, s') -> r_pfield (rc s') = false.
Proof.
  cbn [r_bool]. destruct (r_pbool (rc s)); [intros H; injection H as <- <-; reflexivity|].
  set (s1 := set_rc s _). assert (Hs1 : r_pfield (rc s1) = false) by reflexivity. clearbody s1.
  destruct (r_byte s1) as [[z s2]| |] eqn:E; cbn [bind]; try discriminate. apply r_byte_rc in E.
  destruct (ctype_of_code z) as [[]|]; try discriminate; intros H; injection H as <- <-; congruence.
Qed.

Lemma ERA_bool p : ERA (r_bool p).
Proof.
  destruct p.
  1,2: cbn [r_bool]; apply (ERA_map _ (fun b => negb (b =? 0))), ERA_i8.
  intros s b s' H. pose proof (r_bool_compact_pf _ _ _ H) as Hp. rewrite (erase_id s' Hp).
  rewrite <- H. destruct s as [bf [l st pb pf]]. reflexivity.
Qed.

Lemma ERA_struct_begin p : ERA (r_struct_begin p).
Proof. intros s x s' H. destruct p; cbn [r_struct_begin] in *; injection H as <- <-; reflexivity. Qed.
Lemma ERA_struct_end p : ERA (r_struct_end p).
Proof.
  intros s x s' H. destruct p; cbn [r_struct_end erase set_rc rc r_stack] in *; try (injection H as <- <-; reflexivity).
  destruct (r_stack (rc s)); [discriminate|]. injection H as <- <-. reflexivity.
Qed.

Lemma ERA_field_begin p : ERA (r_field_begin p).
Proof.
  destruct p.
  1,2: cbn [r_field_begin]; apply ERA_bind; [apply ERA_ttype|]; intros ty; destruct ty; try apply ERA_ret;
       apply (ERA_map _ (fun id => (_, Some id))); first [apply (ERA_i16 PBinary) | apply (ERA_i16 PBinaryLE)].
  (* compact: the flag is dropped on entry, so the erased start state behaves identically *)
  intros s h s' H. pose proof (r_field_begin_compact_pfield _ _ _ H) as Hp. rewrite (erase_id s' Hp).
  rewrite <- H. destruct s as [bf [l st pb pf]]. reflexivity.
Qed.

Lemma check_size_erase n s : check_size n (erase s) = check_size n s.
Proof. reflexivity. Qed.

Lemma ERA_coll_begin p : ERA (r_coll_begin p).
Proof.
  intros s h s' H. destruct p; cbn [r_coll_begin] in *.
  1,2: binv H; rewrite (ERA_ttype _ _ _ E); cbn [bind]; binv H;
       first [rewrite (ERA_i32 PBinary _ _ _ E0) | rewrite (ERA_i32 PBinaryLE _ _ _ E0)]; cbn [bind];
       rewrite check_size_erase;
       destruct (check_size x0 s1) as [m| |]; cbn [bind] in *; try discriminate;
       injection H as <- <-; reflexivity.
  binv H. rewrite (ERA_byte _ _ _ E). cbn [bind].
  destruct (ttype_of_nibble (x mod 16)) as [et| |]; cbn [bind] in *; try discriminate.
  destruct (negb (x / 16 =? 15)).
  - rewrite check_size_erase. destruct (check_size (x / 16) s0) as [m| |]; cbn [bind] in *; try discriminate.
    injection H as <- <-. reflexivity.
  - binv H. rewrite (ERA_varint _ _ _ _ E0). cbn [bind]. rewrite check_size_erase.
    destruct (check_size (wrap_s 32 x0) s1) as [m| |]; cbn [bind] in *; try discriminate.
    injection H as <- <-. reflexivity.
Qed.

Lemma ERA_map_begin p : ERA (r_map_begin p).
Proof.
  intros s h s' H. destruct p; cbn [r_map_begin] in *.
  1,2: binv H; rewrite (ERA_ttype _ _ _ E); cbn [bind]; binv H; rewrite (ERA_ttype _ _ _ E0); cbn [bind]; binv H;
       first [rewrite (ERA_i32 PBinary _ _ _ E1) | rewrite (ERA_i32 PBinaryLE _ _ _ E1)]; cbn [bind];
       rewrite check_size_erase;
       destruct (check_size x1 s2) as [m| |]; cbn [bind] in *; try discriminate;
       injection H as <- <-; reflexivity.
  binv H. rewrite (ERA_varint _ _ _ _ E). cbn [bind].
  destruct (wrap_s 32 x =? 0); [injection H as <- <-; reflexivity|].
  binv H. rewrite (ERA_byte _ _ _ E0). cbn [bind].
  destruct (ttype_of_nibble (x0 / 16)) as [kt| |]; cbn [bind] in *; try discriminate.
  destruct (ttype_of_nibble (x0 mod 16)) as [vt| |]; cbn [bind] in *; try discriminate.
  rewrite check_size_erase.
  destruct (check_size (wrap_s 32 x) s1) as [m| |]; cbn [bind] in *; try discriminate.
  injection H as <- <-. reflexivity.
Qed.

Section LoopsEra.
  Variable p : pk.
  Variable rec : ttype -> rm tval.
  Hypothesis Hrec : forall ty, ERA (rec ty).

  Lemma ERA_fields : forall n acc, ERA (fun s => fields_loop p rec n s acc).
  Proof.
    induction n as [|n IH]; intros acc s x s' H; [discriminate|]. cbn [fields_loop] in *.
    binv H. rewrite (ERA_field_begin p _ _ _ E). cbn [bind].
    destruct (ttype_eqb (fst x0) TStop); [injection H as <- <-; reflexivity|].
    binv H. rewrite (Hrec _ _ _ _ E0). cbn [bind]. apply IH, H.
  Qed.
  Lemma ERA_elems : forall m et n acc, ERA (fun s => elems_loop rec m et n s acc).
  Proof.
    induction m as [|m IH]; intros et n acc s x s' H; cbn [elems_loop] in *.
    - destruct (n <=? 0); [injection H as <- <-; reflexivity|discriminate].
    - destruct (n <=? 0); [injection H as <- <-; reflexivity|].
      binv H. rewrite (Hrec _ _ _ _ E). cbn [bind]. apply IH, H.
  Qed.
  Lemma ERA_pairs : forall m kt vt n acc, ERA (fun s => pairs_loop rec m kt vt n s acc).
  Proof.
    induction m as [|m IH]; intros kt vt n acc s x s' H; cbn [pairs_loop] in *.
    - destruct (n <=? 0); [injection H as <- <-; reflexivity|discriminate].
    - destruct (n <=? 0); [injection H as <- <-; reflexivity|].
      binv H. rewrite (Hrec _ _ _ _ E). cbn [bind]. binv H. rewrite (Hrec _ _ _ _ E0). cbn [bind]. apply IH, H.
  Qed.
End LoopsEra.

Theorem ERA_read_val p : forall f ty, ERA (read_val p f ty).
Proof.
  induction f as [|f IH]; intros ty s v s' H; [discriminate|].
  rewrite read_val_S in *. destruct ty; try discriminate.
  - eapply (ERA_map _ VBool (ERA_bool p)); eauto.
  - eapply (ERA_map _ VI8 ERA_i8); eauto.
  - eapply (ERA_map _ VDouble (ERA_double p)); eauto.
  - eapply (ERA_map _ VI16 (ERA_i16 p)); eauto.
  - eapply (ERA_map _ VI32 (ERA_i32 p)); eauto.
  - eapply (ERA_map _ VI64 (ERA_i64 p)); eauto.
  - eapply (ERA_map _ VBinary (ERA_bytes p)); eauto.
  - binv H. rewrite (ERA_struct_begin p _ _ _ E). cbn [bind]. binv H.
    rewrite (ERA_fields p _ IH _ _ _ _ _ E0). cbn [bind]. binv H.
    rewrite (ERA_struct_end p _ _ _ E1). cbn [bind]. injection H as <- <-. reflexivity.
  - binv H. rewrite (ERA_map_begin p _ _ _ E). cbn [bind]. binv H.
    rewrite (ERA_pairs _ IH _ _ _ _ _ _ _ _ E0). cbn [bind]. injection H as <- <-. reflexivity.
  - binv H. rewrite (ERA_coll_begin p _ _ _ E). cbn [bind]. binv H.
    rewrite (ERA_elems _ IH _ _ _ _ _ _ _ E0). cbn [bind]. injection H as <- <-. reflexivity.
  - binv H. rewrite (ERA_coll_begin p _ _ _ E). cbn [bind]. binv H.
    rewrite (ERA_elems _ IH _ _ _ _ _ _ _ E0). cbn [bind]. injection H as <- <-. reflexivity.
  - eapply (ERA_map _ VUuid ERA_uuid); eauto.
Qed.

(* ================= B. totality ================= *)
Definition pf_clear (p : pk) (s : rst) : Prop := is_compact p = true -> r_pfield (rc s) = false.

Lemma assert_ok p n s : pf_clear p s -> r_assert_no_pending p n s = Ok (n, s).
Proof. unfold pf_clear, r_assert_no_pending. destruct p; cbn; auto. intros H. rewrite (H eq_refl). reflexivity. Qed.

Lemma ttype_bool_resolve S t : ttype_of_ty S t = TBool -> resolve S t = TyBool.
Proof.
  unfold ttype_of_ty. destruct (resolve S t) as [| | | | | | | | | |et|et|kt vt|n]; cbn; try discriminate; auto.
  destruct (lookup S n) as [[| | |]|]; cbn; discriminate.
Qed.

Lemma ctype_ttype_back ct t : ttype_of_ctype ct = Some t -> t = TStop \/ t = TBool \/ ctype_of_ttype t <> None.
Proof. destruct ct; cbn; intros H; injection H as <-; auto; right; right; discriminate. Qed.

(* what read_field_begin hands to field_begin_len *)
Lemma r_field_begin_post p s ft id s1 : r_field_begin p s = Ok ((ft, id), s1) ->
  pf_clear p s1 /\
  (ft <> TStop -> exists i, id = Some i /\ (is_compact p = true -> ft = TBool \/ ctype_of_ttype ft <> None)).
Proof.
  intros H. split.
  { intros Hc. destruct p; try discriminate. eapply r_field_begin_compact_pfield; eauto. }
  intros Hns. destruct p; cbn [r_field_begin] in H.
  1,2: binv H; destruct x; try (injection H as <- <- <-; congruence);
       binv H; injection H as <- <- <-; (eexists; split; [reflexivity|intros Hc; cbn in Hc; discriminate Hc]).
  revert H. generalize (clear_pfield s). clear s. intros s H.
  binv H. set (lo := x mod 16) in *. set (delta := x / 16) in *.
  binv H.
  assert (Hty : x0 = TStop \/ x0 = TBool \/ ctype_of_ttype x0 <> None).
  { destruct (lo =? ctype_code CBooleanTrue); [injection E0 as <- _; auto|].
    destruct (lo =? ctype_code CBooleanFalse); [injection E0 as <- _; auto|].
    destruct (ctype_of_code lo) as [ct|]; [|discriminate].
    destruct (ttype_of_ctype ct) as [t0|] eqn:Et; [|discriminate]. injection E0 as <- _.
    eapply ctype_ttype_back; eauto. }
  destruct x0; try (injection H as <- <- <-; congruence);
    (destruct (negb (delta =? 0));
     [injection H as <- <- <-|binv H; injection H as <- <- <-];
     (eexists; split; [reflexivity|]; intros _; destruct Hty as [Hty|[Hty|Hty]]; [congruence|auto|auto])).
Qed.

Lemma fbl_spec p ft i s : pf_clear p s -> (is_compact p = true -> ft = TBool \/ ctype_of_ttype ft <> None) ->
  exists n s2, r_field_begin_len p ft (Some i) s = Ok (n, s2) /\ rbuf s2 = rbuf s /\
    (is_compact p = true -> r_pfield (rc s2) = ttype_eqb ft TBool).
Proof.
  intros Hp Hft. destruct p.
  1,2: exists 3, s; repeat split; auto; discriminate.
  specialize (Hp eq_refl). specialize (Hft eq_refl). unfold r_field_begin_len. rewrite Hp.
  destruct (ttype_eqb_spec ft TBool) as [->|Hnb].
  - eexists _, _. split; [reflexivity|]. split; reflexivity.
  - destruct Hft as [Hft|Hft]; [contradiction|].
    destruct ft; try contradiction; cbn [ctype_of_ttype] in *; try contradiction;
      (eexists _, s; split; [reflexivity|]; split; [reflexivity|]; intros _; exact Hp).
Qed.

Lemma match_field_spec S fs : forall i id ft j f, match_field S fs i id ft = Some (j, f) ->
  In f fs /\ ttype_of_ty S (f_ty f) = ft.
Proof.
  induction fs as [|g r IH]; intros i id ft j f; cbn [match_field]; [discriminate|].
  destruct id as [z|]; [|discriminate].
  destruct ((f_id g =? z) && ttype_eqb (ttype_of_ty S (f_ty g)) ft) eqn:E.
  - intros H. injection H as _ <-. apply andb_prop in E as [_ E].
    split; [left; reflexivity|]. destruct (ttype_eqb_spec (ttype_of_ty S (f_ty g)) ft); [auto|discriminate].
  - intros H. destruct (IH _ _ _ _ _ H). split; [right|]; auto.
Qed.

(* the skipper of the templates: total, and it leaves no pending flag behind *)
Lemma skip_good p fk ft s : (blen s < fk)%nat -> good (skip p fk ft s) s 0.
Proof.
  intros Hf. unfold skip. pose proof (read_val_good p fk ft s Hf) as G.
  destruct (read_val p fk ft s) as [[v s']| |]; cbn [bind good] in *; auto.
  destruct (Nat.leb (vdepth v) maximum_skip_depth_nat); cbn [good]; [exact G|discriminate].
Qed.

Lemma skip_pf p fk ft s n s' : skip p fk ft s = Ok (n, s') ->
  is_compact p = true -> (r_pfield (rc s) = false \/ ft = TBool) -> r_pfield (rc s') = false.
Proof.
  unfold skip. intros H Hc Hor. destruct (read_val p fk ft s) as [[v s1]| |] eqn:E; cbn [bind] in H; try discriminate.
  destruct (Nat.leb (vdepth v) maximum_skip_depth_nat); [|discriminate]. injection H as _ <-.
  destruct Hor as [Hp| ->].
  - eapply (ERA_noset _ (ERA_read_val p fk ft)); eauto.
  - destruct fk as [|fk]; [discriminate|]. rewrite read_val_S in E. destruct p; try discriminate.
    destruct (r_bool PCompact s) as [[b s2]| |] eqn:Eb; cbn [bind] in E; try discriminate.
    injection E as _ <-. eapply r_bool_compact_pf; eauto.
Qed.

  (* one step shared by the struct and the union loop: read_field_begin, then Stop + field_stop_len, or
     field_begin_len; afterwards the flag is set iff the wire type is Bool *)
  Lemma header_step p s :
    match r_field_begin p s with
    | Ok (h, s1) =>
        (blen s1 + 1 <= blen s)%nat /\
        if ttype_eqb (fst h) TStop then r_field_stop_len p s1 = Ok (1, s1) /\ pf_clear p s1
        else exists n s2, r_field_begin_len p (fst h) (snd h) s1 = Ok (n, s2) /\ blen s2 = blen s1 /\
                          (is_compact p = true -> r_pfield (rc s2) = ttype_eqb (fst h) TBool)
    | Err e => e <> EOutOfFuel
    | Panic _ => False
    end.
  Proof.
    pose proof (r_field_begin_good p s) as G.
    destruct (r_field_begin p s) as [[[ft id] s1]| |] eqn:E; cbn [good] in G; auto.
    split; [exact G|]. cbn [fst snd].
    destruct (r_field_begin_post _ _ _ _ _ E) as [Hp Hid].
    destruct (ttype_eqb_spec ft TStop) as [->|Hns].
    - split; [apply assert_ok, Hp|exact Hp].
    - destruct (Hid Hns) as (i & -> & Hft).
      destruct (fbl_spec p ft i s1 Hp Hft) as (n & s2 & H1 & H2 & H3).
      exists n, s2. split; [exact H1|]. split; [unfold blen; rewrite H2; reflexivity|exact H3].
  Qed.


Section LoopsTotal.
  Variable S : schema.
  Variable p : pk.
  Variable rec : ty -> rst -> res (gval * rst).
  Variable f' : nat.
  Hypothesis Hg : forall t s, (blen s < f')%nat -> good (rec t s) s 0.
  Hypothesis Hn : forall t s x s', rec t s = Ok (x, s') -> is_compact p = true ->
    (r_pfield (rc s) = false \/ ttype_of_ty S t = TBool) -> r_pfield (rc s') = false.

  Lemma g_elems_good : forall m et n s acc, n <= Z.of_nat m -> (blen s < f')%nat ->
    good (dec_elems rec m et n s acc) s 0.
  Proof using All.
    induction m as [|m IH]; intros et n s acc Hm Hf; cbn [dec_elems].
    - replace (n <=? 0) with true by lia. cbn. lia.
    - destruct (Z.leb_spec n 0); [cbn; lia|].
      pose proof (Hg et s Hf) as G.
      destruct (rec et s) as [[x s1]| |]; cbn [bind good] in *; auto.
      specialize (IH et (n - 1) s1 (x :: acc) ltac:(lia) ltac:(lia)).
      destruct (dec_elems rec m et (n - 1) s1 _) as [[l s2]| |]; cbn [good] in *; auto. lia.
  Qed.

  Lemma g_elems_pf : forall m et n s acc l s', dec_elems rec m et n s acc = Ok (l, s') ->
    is_compact p = true -> r_pfield (rc s) = false -> r_pfield (rc s') = false.
  Proof using All.
    induction m as [|m IH]; intros et n s acc l s' H Hc Hp; cbn [dec_elems] in H.
    - destruct (n <=? 0); [injection H as _ <-; exact Hp|discriminate].
    - destruct (n <=? 0); [injection H as _ <-; exact Hp|].
      destruct (rec et s) as [[x s1]| |] eqn:E; cbn [bind] in H; try discriminate.
      eapply IH; eauto.
  Qed.

  Lemma g_pairs_good : forall m kt vt n s acc, n <= Z.of_nat m -> (blen s < f')%nat ->
    good (dec_pairs rec m kt vt n s acc) s 0.
  Proof using All.
    induction m as [|m IH]; intros kt vt n s acc Hm Hf; cbn [dec_pairs].
    - replace (n <=? 0) with true by lia. cbn. lia.
    - destruct (Z.leb_spec n 0); [cbn; lia|].
      pose proof (Hg kt s Hf) as G.
      destruct (rec kt s) as [[a s1]| |]; cbn [bind good] in *; auto.
      pose proof (Hg vt s1 ltac:(lia)) as G2.
      destruct (rec vt s1) as [[b s2]| |]; cbn [bind good] in *; auto.
      specialize (IH kt vt (n - 1) s2 ((a, b) :: acc) ltac:(lia) ltac:(lia)).
      destruct (dec_pairs rec m kt vt (n - 1) s2 _) as [[l s3]| |]; cbn [good] in *; auto. lia.
  Qed.

  Lemma g_pairs_pf : forall m kt vt n s acc l s', dec_pairs rec m kt vt n s acc = Ok (l, s') ->
    is_compact p = true -> r_pfield (rc s) = false -> r_pfield (rc s') = false.
  Proof using All.
    induction m as [|m IH]; intros kt vt n s acc l s' H Hc Hp; cbn [dec_pairs] in H.
    - destruct (n <=? 0); [injection H as _ <-; exact Hp|discriminate].
    - destruct (n <=? 0); [injection H as _ <-; exact Hp|].
      destruct (rec kt s) as [[a s1]| |] eqn:E; cbn [bind] in H; try discriminate.
      destruct (rec vt s1) as [[b s2]| |] eqn:E2; cbn [bind] in H; try discriminate.
      eapply IH; eauto.
  Qed.

  Lemma g_fields_good fk : forall m fs vars s, (blen s < m)%nat -> (blen s <= f')%nat -> (blen s <= fk)%nat ->
    good (dec_fields S p fk rec m fs vars s) s 1.
  Proof using All.
    induction m as [|m IH]; intros fs vars s Hm Hf Hk; [lia|].
    cbn [dec_fields]. pose proof (header_step p s) as Hh.
    destruct (r_field_begin p s) as [[h s1]| |]; cbn [bind good]; auto.
    destruct Hh as [Hl Hh]. destruct (ttype_eqb (fst h) TStop) eqn:Estop.
    { destruct Hh as [-> _]. cbn [bind good]. lia. }
    destruct Hh as (n & s2 & -> & Hb2 & Hp2). cbn [bind].
    (* the matched field or the skipper *)
    assert (Hstep : match (match match_field S fs 0 (snd h) (fst h) with
                           | Some (i, f) => let* (x, s) := rec (f_ty f) s2 in Ok (set_nth i (Some x) vars, s)
                           | None => let* (_, s) := skip p fk (fst h) s2 in Ok (vars, s)
                           end) with
                    | Ok (_, s3) => (blen s3 <= blen s2)%nat /\ pf_clear p s3
                    | Err e => e <> EOutOfFuel
                    | Panic _ => False
                    end).
    { destruct (match_field S fs 0 (snd h) (fst h)) as [[i f]|] eqn:Em.
      - destruct (match_field_spec _ _ _ _ _ _ _ Em) as [_ Hty].
        pose proof (Hg (f_ty f) s2 ltac:(lia)) as G.
        destruct (rec (f_ty f) s2) as [[x s3]| |] eqn:Er; cbn [bind good] in *; auto.
        split; [lia|]. intros Hc. eapply Hn; eauto. rewrite (Hp2 Hc), Hty.
        destruct (ttype_eqb_spec (fst h) TBool); auto.
      - pose proof (skip_good p fk (fst h) s2 ltac:(lia)) as G.
        destruct (skip p fk (fst h) s2) as [[k s3]| |] eqn:Es; cbn [bind good] in *; auto.
        split; [lia|]. intros Hc. eapply skip_pf; eauto. rewrite (Hp2 Hc).
        destruct (ttype_eqb_spec (fst h) TBool); auto. }
    match type of Hstep with match ?e with _ => _ end => destruct e as [[vars' s3]| |] end; cbn [bind good]; auto.
    destruct Hstep as [Hl3 Hp3]. unfold r_field_end_len. rewrite (assert_ok p 0 s3 Hp3). cbn [bind].
    specialize (IH fs vars' s3 ltac:(lia) ltac:(lia) ltac:(lia)).
    destruct (dec_fields S p fk rec m fs vars' s3) as [[v4 s4]| |]; cbn [good] in *; auto. lia.
  Qed.

  (* a struct loop ends right after a read_field_begin: no flag is pending *)
  Lemma g_fields_pf fk : forall m fs vars s vars' s', dec_fields S p fk rec m fs vars s = Ok (vars', s') -> pf_clear p s'.
  Proof using All.
    induction m as [|m IH]; intros fs vars s vars' s' H; [discriminate|].
    cbn [dec_fields] in H. pose proof (header_step p s) as Hh.
    destruct (r_field_begin p s) as [[h s1]| |]; cbn [bind] in H; try discriminate.
    destruct Hh as [Hl Hh]. destruct (ttype_eqb (fst h) TStop).
    { destruct Hh as [E Hp]. rewrite E in H. cbn [bind] in H. injection H as _ <-. exact Hp. }
    destruct Hh as (n & s2 & E & _ & _). rewrite E in H. cbn [bind] in H.
    match type of H with bind ?e _ = _ => destruct e as [[v3 s3]| |] end; cbn [bind] in H; try discriminate.
    destruct (r_field_end_len p s3) as [[z s4]| |]; cbn [bind] in H; try discriminate.
    eapply IH; eauto.
  Qed.

  Lemma g_variants_good fk : forall m vs ret s, (blen s < m)%nat -> (blen s <= f')%nat -> (blen s <= fk)%nat ->
    good (dec_variants S p fk rec m vs ret s) s 1.
  Proof using All.
    induction m as [|m IH]; intros vs ret s Hm Hf Hk; [lia|].
    cbn [dec_variants]. pose proof (header_step p s) as Hh.
    destruct (r_field_begin p s) as [[h s1]| |]; cbn [bind good]; auto.
    destruct Hh as [Hl Hh]. destruct (ttype_eqb (fst h) TStop) eqn:Estop.
    { destruct Hh as [-> _]. cbn [bind good]. lia. }
    destruct Hh as (n & s2 & -> & Hb2 & Hp2). cbn [bind].
    match goal with |- good (match ?k with Some _ => _ | None => _ end) _ _ => destruct k as [[id vt]|] end.
    - destruct ret; [cbn; discriminate|].
      pose proof (Hg vt s2 ltac:(lia)) as G.
      destruct (rec vt s2) as [[x s3]| |]; cbn [bind good] in *; auto.
      specialize (IH vs (Some (id, x)) s3 ltac:(lia) ltac:(lia) ltac:(lia)).
      destruct (dec_variants S p fk rec m vs (Some (id, x)) s3) as [[v4 s4]| |]; cbn [good] in *; auto. lia.
    - pose proof (skip_good p fk (fst h) s2 ltac:(lia)) as G.
      destruct (skip p fk (fst h) s2) as [[k s3]| |]; cbn [bind good] in *; auto.
      specialize (IH vs ret s3 ltac:(lia) ltac:(lia) ltac:(lia)).
      destruct (dec_variants S p fk rec m vs ret s3) as [[v4 s4]| |]; cbn [good] in *; auto. lia.
  Qed.

  Lemma g_variants_pf fk : forall m vs ret s ret' s', dec_variants S p fk rec m vs ret s = Ok (ret', s') -> pf_clear p s'.
  Proof using All.
    induction m as [|m IH]; intros vs ret s ret' s' H; [discriminate|].
    cbn [dec_variants] in H. pose proof (header_step p s) as Hh.
    destruct (r_field_begin p s) as [[h s1]| |]; cbn [bind] in H; try discriminate.
    destruct Hh as [Hl Hh]. destruct (ttype_eqb (fst h) TStop).
    { destruct Hh as [E Hp]. rewrite E in H. cbn [bind] in H. injection H as _ <-. exact Hp. }
    destruct Hh as (n & s2 & E & _ & _). rewrite E in H. cbn [bind] in H.
    match type of H with (match ?k with Some _ => _ | None => _ end) = _ => destruct k as [[id vt]|] end.
    - destruct ret; [discriminate|].
      destruct (rec vt s2) as [[x s3]| |]; cbn [bind] in H; try discriminate. eapply IH; eauto.
    - destruct (skip p fk (fst h) s2) as [[k s3]| |]; cbn [bind] in H; try discriminate. eapply IH; eauto.
  Qed.
End LoopsTotal.

Lemma struct_end_pf p s u s' : r_struct_end p s = Ok (u, s') -> pf_clear p s -> pf_clear p s'.
Proof.
  intros H Hp Hc. specialize (Hp Hc). destruct p; try discriminate. cbn [r_struct_end] in H.
  destruct (r_stack (rc s)); [discriminate|]. injection H as _ <-. exact Hp.
Qed.

Lemma finish_fields_good fs : forall vars,
  match finish_fields fs vars with Ok _ => True | Err e => e <> EOutOfFuel | Panic _ => False end.
Proof.
  induction fs as [|g r IH]; intros vars; cbn [finish_fields]; auto.
  destruct vars as [|v vt]; [discriminate|]. specialize (IH vt).
  destruct (finish_fields r vt) as [rest| |]; cbn [bind]; auto.
  destruct v; auto. destruct (f_dflt g) as [[? ?]|]; auto. destruct (f_req g); auto. discriminate.
Qed.

Theorem gen_total S p : forall f,
  (forall t s, (blen s < f)%nat -> good (gen_decode S p f t s) s 0) /\
  (forall t s x s', gen_decode S p f t s = Ok (x, s') -> is_compact p = true ->
     (r_pfield (rc s) = false \/ ttype_of_ty S t = TBool) -> r_pfield (rc s') = false).
Proof.
  induction f as [|f [IHg IHn]]; (split; [intros t s Hf|intros t s x s' H Hc Hor]); try lia; try discriminate.
  - (* good *)
    rewrite gen_decode_S.
    destruct (resolve S t) as [| | | | | | | | | |et|et|kt vt|n].
    + apply (good_map _ GBool). apply r_bool_good.
    + apply (good_map _ GI8). apply (good_weaken _ _ 1); [lia|apply r_i8_good].
    + apply (good_map _ GI16). apply (good_weaken _ _ 1); [lia|apply r_i16_good].
    + apply (good_map _ GI32). apply (good_weaken _ _ 1); [lia|apply r_i32_good].
    + apply (good_map _ GI64). apply (good_weaken _ _ 1); [lia|apply r_i64_good].
    + apply (good_map _ GDouble). apply (good_weaken _ _ 8); [lia|apply r_double_good].
    + apply (good_map _ GBytes). apply (good_weaken _ _ 1); [lia|apply r_bytes_good].
    + apply (good_map _ GBytes). apply (good_weaken _ _ 1); [lia|apply r_bytes_good].
    + apply (good_map _ GUuid). apply (good_weaken _ _ 16); [lia|apply r_uuid_good].
    + pose proof (r_struct_begin_good p s) as G0.
      destruct (r_struct_begin p s) as [[u s0]| |]; cbn [bind good] in *; auto.
      pose proof (r_struct_end_good p s0) as G1.
      destruct (r_struct_end p s0) as [[u1 s1]| |]; cbn [bind good] in *; auto. lia.
    + pose proof (r_coll_begin_good p s) as G0.
      destruct (r_coll_begin p s) as [[h s0]| |]; cbn [bind good good_hdr] in *; auto. destruct G0 as [G0 Gs].
      pose proof (g_elems_good S p _ f IHg IHn (Datatypes.S f) et (snd h) s0 [] ltac:(lia) ltac:(lia)) as G1.
      destruct (dec_elems _ _ et (snd h) s0 []) as [[l s1]| |]; cbn [bind good] in *; auto. lia.
    + pose proof (r_coll_begin_good p s) as G0.
      destruct (r_coll_begin p s) as [[h s0]| |]; cbn [bind good good_hdr] in *; auto. destruct G0 as [G0 Gs].
      pose proof (g_elems_good S p _ f IHg IHn (Datatypes.S f) et (snd h) s0 [] ltac:(lia) ltac:(lia)) as G1.
      destruct (dec_elems _ _ et (snd h) s0 []) as [[l s1]| |]; cbn [bind good] in *; auto. lia.
    + pose proof (r_map_begin_good p s) as G0.
      destruct (r_map_begin p s) as [[h s0]| |]; cbn [bind good good_hdr] in *; auto. destruct G0 as [G0 Gs].
      pose proof (g_pairs_good S p _ f IHg IHn (Datatypes.S f) kt vt (snd h) s0 [] ltac:(lia) ltac:(lia)) as G1.
      destruct (dec_pairs _ _ kt vt (snd h) s0 []) as [[l s1]| |]; cbn [bind good] in *; auto. lia.
    + destruct (lookup S n) as [[fs kp ia|vs vo kp|ms|tt]|]; try (cbn; discriminate).
      * pose proof (r_struct_begin_good p s) as G0.
        destruct (r_struct_begin p s) as [[u s0]| |]; cbn [bind good] in *; auto.
        pose proof (g_fields_good S p _ f IHg IHn f (Datatypes.S f) fs (map init_var fs) s0 ltac:(lia) ltac:(lia) ltac:(lia)) as G1.
        destruct (dec_fields S p f _ _ fs _ s0) as [[vars s1]| |]; cbn [bind good] in *; auto.
        pose proof (r_struct_end_good p s1) as G2.
        destruct (r_struct_end p s1) as [[u2 s2]| |]; cbn [bind good] in *; auto.
        pose proof (finish_fields_good fs vars) as Gf.
        destruct (finish_fields fs vars) as [out| |]; cbn [bind good]; [lia|exact Gf|exact Gf].
      * pose proof (r_struct_begin_good p s) as G0.
        destruct (r_struct_begin p s) as [[u s0]| |]; cbn [bind good] in *; auto.
        pose proof (g_variants_good S p _ f IHg IHn f (Datatypes.S f) vs None s0 ltac:(lia) ltac:(lia) ltac:(lia)) as G1.
        destruct (dec_variants S p f _ _ vs None s0) as [[ret s1]| |]; cbn [bind good] in *; auto.
        pose proof (r_struct_end_good p s1) as G2.
        destruct (r_struct_end p s1) as [[u2 s2]| |]; cbn [bind good] in *; auto.
        destruct ret as [[id x]|]; [cbn; lia|].
        destruct vo; [|cbn; discriminate]. destruct vs as [|[id0 t0] r]; cbn; [discriminate|lia].
      * apply (good_map _ GEnum). apply (good_weaken _ _ 1); [lia|apply r_i32_good].
  - (* the flag *)
    rewrite gen_decode_S in H.
    assert (Hnb : forall t', resolve S t = t' -> t' <> TyBool -> r_pfield (rc s) = false).
    { intros t' Et Hne. destruct Hor as [Hp|Hb]; [exact Hp|]. apply ttype_bool_resolve in Hb. congruence. }
    destruct (resolve S t) as [| | | | | | | | | |et|et|kt vt|n] eqn:Eres.
    + destruct p; try discriminate. binv H. injection H as _ <-. eapply r_bool_compact_pf; eauto.
    + binv H. injection H as _ <-. eapply (ERA_noset _ ERA_i8); eauto. eapply Hnb; eauto; discriminate.
    + binv H. injection H as _ <-. eapply (ERA_noset _ (ERA_i16 p)); eauto. eapply Hnb; eauto; discriminate.
    + binv H. injection H as _ <-. eapply (ERA_noset _ (ERA_i32 p)); eauto. eapply Hnb; eauto; discriminate.
    + binv H. injection H as _ <-. eapply (ERA_noset _ (ERA_i64 p)); eauto. eapply Hnb; eauto; discriminate.
    + binv H. injection H as _ <-. eapply (ERA_noset _ (ERA_double p)); eauto. eapply Hnb; eauto; discriminate.
    + binv H. injection H as _ <-. eapply (ERA_noset _ (ERA_bytes p)); eauto. eapply Hnb; eauto; discriminate.
    + binv H. injection H as _ <-. eapply (ERA_noset _ (ERA_bytes p)); eauto. eapply Hnb; eauto; discriminate.
    + binv H. injection H as _ <-. eapply (ERA_noset _ ERA_uuid); eauto. eapply Hnb; eauto; discriminate.
    + binv H. binv H. injection H as _ <-.
      eapply (ERA_noset _ (ERA_struct_end p)); eauto. eapply (ERA_noset _ (ERA_struct_begin p)); eauto.
      eapply Hnb; eauto; discriminate.
    + binv H. binv H. injection H as _ <-.
      eapply (g_elems_pf S p _ f IHg IHn (Datatypes.S f)); eauto.
      eapply (ERA_noset _ (ERA_coll_begin p)); eauto. eapply Hnb; eauto; discriminate.
    + binv H. binv H. injection H as _ <-.
      eapply (g_elems_pf S p _ f IHg IHn (Datatypes.S f)); eauto.
      eapply (ERA_noset _ (ERA_coll_begin p)); eauto. eapply Hnb; eauto; discriminate.
    + binv H. binv H. injection H as _ <-.
      eapply (g_pairs_pf S p _ f IHg IHn (Datatypes.S f)); eauto.
      eapply (ERA_noset _ (ERA_map_begin p)); eauto. eapply Hnb; eauto; discriminate.
    + destruct (lookup S n) as [[fs kp ia|vs vo kp|ms|tt]|]; try discriminate.
      * binv H. binv H. binv H.
        destruct (finish_fields fs x1) as [out| |]; cbn [bind] in H; try discriminate. injection H as _ <-.
        eapply (struct_end_pf p); eauto. eapply (g_fields_pf S p _ f IHg IHn); eauto.
      * binv H. binv H. binv H.
        assert (Hs : s2 = s').
        { destruct x1 as [[id y]|]; [injection H as _ <-; reflexivity|].
          destruct vo; [|discriminate]. destruct vs as [|[id0 t0] r]; [discriminate|]. injection H as _ <-. reflexivity. }
        subst s'. eapply (struct_end_pf p); eauto. eapply (g_variants_pf S p _ f IHg IHn); eauto.
      * binv H. injection H as _ <-. eapply (ERA_noset _ (ERA_i32 p)); eauto. eapply Hnb; eauto; discriminate.
Qed.

(* C09 (generated code): no panic, no hang -- every schema, every type, every protocol, ALL byte strings, every
   initial reader context *)
Theorem gen_decode_total S p t (l : list byte) rcx :
  let o := gen_decode S p (length l + 1) t (mkS l rcx) in
  (forall st, o <> Panic st) /\ o <> Err EOutOfFuel.
Proof.
  intros o. destruct (gen_total S p (length l + 1)) as [G _].
  specialize (G t (mkS l rcx) ltac:(unfold blen; cbn [rbuf]; lia)). fold o in G.
  destruct o as [[v s']| |]; cbn [good] in G.
  - split; discriminate.
  - split; [discriminate|]. intros H. injection H as ->. congruence.
  - destruct G.
Qed.

(* more fuel changes nothing: any fuel above the input length will do *)
Theorem gen_decode_total_fuel S p t (l : list byte) rcx fuel : (length l < fuel)%nat ->
  let o := gen_decode S p fuel t (mkS l rcx) in
  (forall st, o <> Panic st) /\ o <> Err EOutOfFuel.
Proof.
  intros Hf o. destruct (gen_total S p fuel) as [G _].
  specialize (G t (mkS l rcx) ltac:(unfold blen; cbn [rbuf]; lia)). fold o in G.
  destruct o as [[v s']| |]; cbn [good] in G.
  - split; discriminate.
  - split; [discriminate|]. intros H. injection H as ->. congruence.
  - destruct G.
Qed.

Corollary gen_decode_top_total S p t (l : list byte) :
  (forall st, gen_decode_top S p t l <> Panic st) /\ gen_decode_top S p t l <> Err EOutOfFuel.
Proof.
  unfold gen_decode_top. destruct (gen_decode_total_fuel S p t l r0 (length l + 80) ltac:(lia)) as [H1 H2].
  destruct (gen_decode S p (length l + 80) t (mkS l r0)) as [[v s']| |]; cbn [bind].
  - split; discriminate.
  - split; [discriminate|]. congruence.
  - exfalso. eapply H1. reflexivity.
Qed.

(* never consumes more than there is, and what containers preallocate from is bounded by the input (the
   element counts accepted by read_list_begin / read_map_begin are: PV.Proofs.TotalP.coll_size_bounded) *)
Theorem gen_decode_consumes S p f t s v s' : (blen s < f)%nat -> gen_decode S p f t s = Ok (v, s') -> (blen s' <= blen s)%nat.
Proof.
  intros Hf H. destruct (gen_total S p f) as [G _]. specialize (G t s Hf). rewrite H in G. cbn [good] in G. lia.
Qed.

(* ================= C. monotone in the input ================= *)
Definition mono {A} (tl : list byte) (o1 o2 : res (A * rst)) : Prop :=
  match o1 with
  | Ok (x, s') => o2 = Ok (x, ext s' tl)
  | Panic st => o2 = Panic st
  | Err _ => True
  end.
Definition MONO {A} (m : rm A) : Prop := forall s tl, mono tl (m s) (m (ext s tl)).
Definition NP {A} (m : rm A) : Prop := forall s st, m s <> Panic st.

Lemma MONO_bind {A B} (m : rm A) (f : A -> rm B) :
  MONO m -> (forall x, MONO (f x)) -> MONO (fun s => let* (x, s1) := m s in f x s1).
Proof.
  intros Hm Hf s tl. specialize (Hm s tl). unfold mono in *.
  destruct (m s) as [[x s1]| |]; cbn [bind]; auto; rewrite Hm; cbn [bind]; auto. apply Hf.
Qed.
Lemma MONO_ret {A} (x : A) : MONO (fun s => Ok (x, s)).
Proof. intros s tl. reflexivity. Qed.
Lemma MONO_of_EXT {A} (m : rm A) : EXT m -> NP m -> MONO m.
Proof.
  intros He Hn s tl. unfold mono. destruct (m s) as [[x s1]| |] eqn:E; auto.
  exfalso. eapply Hn; eauto.
Qed.
Lemma good_np {A} (o : res (A * rst)) s k : good o s k -> forall st, o <> Panic st.
Proof. destruct o as [[a s']| |]; cbn [good]; intros H st; [discriminate|discriminate|destruct H]. Qed.

Lemma NP_bind {A B} (m : rm A) (f : A -> rm B) : NP m -> (forall x, NP (f x)) -> NP (fun s => let* (x, s1) := m s in f x s1).
Proof.
  intros Hm Hf s st. specialize (Hm s). destruct (m s) as [[x s1]| |]; cbn [bind]; [apply Hf|discriminate|].
  exfalso. eapply Hm. reflexivity.
Qed.
Lemma NP_ret {A} (r : res (A * rst)) : (forall st, r <> Panic st) -> NP (fun _ => r).
Proof. intros H s. apply H. Qed.

Lemma NP_field_begin p : NP (r_field_begin p).
Proof. intros s. eapply good_np, r_field_begin_good. Qed.
Lemma NP_coll_begin p : NP (r_coll_begin p).
Proof.
  intros s st. pose proof (r_coll_begin_good p s) as G. destruct (r_coll_begin p s) as [[h s']| |]; try discriminate. destruct G.
Qed.
Lemma NP_map_begin p : NP (r_map_begin p).
Proof.
  intros s st. pose proof (r_map_begin_good p s) as G. destruct (r_map_begin p s) as [[h s']| |]; try discriminate. destruct G.
Qed.

Section LoopsNP.
  Variable p : pk.
  Variable rec : ttype -> rm tval.
  Hypothesis Hrec : forall ty, NP (rec ty).
  Lemma NP_fields : forall n acc, NP (fun s => fields_loop p rec n s acc).
  Proof.
    induction n as [|n IH]; intros acc s st; cbn [fields_loop]; [discriminate|].
    pose proof (NP_field_begin p s) as H0. destruct (r_field_begin p s) as [[h s1]| |]; cbn [bind]; [|discriminate|exfalso; eapply H0; reflexivity].
    destruct (ttype_eqb (fst h) TStop); [discriminate|].
    pose proof (Hrec (fst h) s1) as H1. destruct (rec (fst h) s1) as [[x s2]| |]; cbn [bind]; [apply IH|discriminate|exfalso; eapply H1; reflexivity].
  Qed.
  Lemma NP_elems : forall m et n acc, NP (fun s => elems_loop rec m et n s acc).
  Proof.
    induction m as [|m IH]; intros et n acc s st; cbn [elems_loop]; destruct (n <=? 0); try discriminate.
    pose proof (Hrec et s) as H1. destruct (rec et s) as [[x s2]| |]; cbn [bind]; [apply IH|discriminate|exfalso; eapply H1; reflexivity].
  Qed.
  Lemma NP_pairs : forall m kt vt n acc, NP (fun s => pairs_loop rec m kt vt n s acc).
  Proof.
    induction m as [|m IH]; intros kt vt n acc s st; cbn [pairs_loop]; destruct (n <=? 0); try discriminate.
    pose proof (Hrec kt s) as H1. destruct (rec kt s) as [[x s2]| |]; cbn [bind]; [|discriminate|exfalso; eapply H1; reflexivity].
    pose proof (Hrec vt s2) as H2. destruct (rec vt s2) as [[y s3]| |]; cbn [bind]; [apply IH|discriminate|exfalso; eapply H2; reflexivity].
  Qed.
End LoopsNP.

Lemma NP_map {A B} (m : rm A) (g : A -> B) : NP m -> NP (fun s => let* (x, s1) := m s in Ok (g x, s1)).
Proof. intros H. apply (NP_bind m (fun x s1 => Ok (g x, s1))); auto. intros x s st. discriminate. Qed.

Theorem NP_read_val p : forall f ty, NP (read_val p f ty).
Proof.
  induction f as [|f IH]; intros ty s st; [discriminate|].
  rewrite read_val_S. destruct ty; try discriminate.
  - apply (NP_map _ VBool). intros s0. eapply good_np, r_bool_good.
  - apply (NP_map _ VI8). intros s0. eapply good_np, r_i8_good.
  - apply (NP_map _ VDouble). intros s0. eapply good_np, r_double_good.
  - apply (NP_map _ VI16). intros s0. eapply good_np, r_i16_good.
  - apply (NP_map _ VI32). intros s0. eapply good_np, r_i32_good.
  - apply (NP_map _ VI64). intros s0. eapply good_np, r_i64_good.
  - apply (NP_map _ VBinary). intros s0. eapply good_np, r_bytes_good.
  - pose proof (good_np _ _ _ (r_struct_begin_good p s)) as H0.
    destruct (r_struct_begin p s) as [[u s0]| |]; cbn [bind]; [|discriminate|exfalso; eapply H0; reflexivity].
    pose proof (NP_fields p _ IH (Datatypes.S f) [] s0) as H1. cbv beta in H1.
    destruct (fields_loop p _ _ s0 []) as [[fs s1]| |]; cbn [bind]; [|discriminate|exfalso; eapply H1; reflexivity].
    pose proof (good_np _ _ _ (r_struct_end_good p s1)) as H2.
    destruct (r_struct_end p s1) as [[u2 s2]| |]; cbn [bind]; [discriminate|discriminate|exfalso; eapply H2; reflexivity].
  - pose proof (NP_map_begin p s) as H0.
    destruct (r_map_begin p s) as [[h s0]| |]; cbn [bind]; [|discriminate|exfalso; eapply H0; reflexivity].
    pose proof (NP_pairs _ IH (Datatypes.S f) (fst (fst h)) (snd (fst h)) (snd h) [] s0) as H1. cbv beta in H1.
    destruct (pairs_loop _ _ _ _ _ s0 []) as [[l s1]| |]; cbn [bind]; [discriminate|discriminate|exfalso; eapply H1; reflexivity].
  - pose proof (NP_coll_begin p s) as H0.
    destruct (r_coll_begin p s) as [[h s0]| |]; cbn [bind]; [|discriminate|exfalso; eapply H0; reflexivity].
    pose proof (NP_elems _ IH (Datatypes.S f) (fst h) (snd h) [] s0) as H1. cbv beta in H1.
    destruct (elems_loop _ _ _ _ s0 []) as [[l s1]| |]; cbn [bind]; [discriminate|discriminate|exfalso; eapply H1; reflexivity].
  - pose proof (NP_coll_begin p s) as H0.
    destruct (r_coll_begin p s) as [[h s0]| |]; cbn [bind]; [|discriminate|exfalso; eapply H0; reflexivity].
    pose proof (NP_elems _ IH (Datatypes.S f) (fst h) (snd h) [] s0) as H1. cbv beta in H1.
    destruct (elems_loop _ _ _ _ s0 []) as [[l s1]| |]; cbn [bind]; [discriminate|discriminate|exfalso; eapply H1; reflexivity].
  - apply (NP_map _ VUuid). intros s0. eapply good_np, r_uuid_good.
Qed.

(* primitives *)
Lemma MONO_prim {A} (m : rm A) k : EXT m -> (forall s, good (m s) s k) -> MONO m.
Proof. intros He Hg. apply MONO_of_EXT; [exact He|]. intros s. eapply good_np, Hg. Qed.

Lemma MONO_map {A B} (m : rm A) (g : A -> B) : MONO m -> MONO (fun s => let* (x, s1) := m s in Ok (g x, s1)).
Proof. intros H. apply (MONO_bind m (fun x s1 => Ok (g x, s1))); auto. intros x. apply MONO_ret. Qed.

Lemma MONO_skip p fk ft : MONO (skip p fk ft).
Proof.
  intros s tl. unfold skip, mono.
  pose proof (EXT_read_val p fk ft s) as He. pose proof (NP_read_val p fk ft s) as Hn.
  destruct (read_val p fk ft s) as [[v s1]| |]; cbn [bind]; auto.
  - rewrite (He _ _ tl eq_refl). cbn [bind].
    destruct (Nat.leb (vdepth v) maximum_skip_depth_nat); auto.
    unfold ext. cbn [rbuf]. rewrite !app_length. f_equal. f_equal. lia.
  - exfalso. eapply Hn. reflexivity.
Qed.

(* the TLengthProtocol calls look at the reader context only *)
Lemma fbl_ext p ft id s tl :
  r_field_begin_len p ft id (ext s tl) =
  match r_field_begin_len p ft id s with Ok (n, s') => Ok (n, ext s' tl) | Err e => Err e | Panic st => Panic st end.
Proof.
  unfold r_field_begin_len. destruct p; try reflexivity. cbn [ext rc].
  destruct ft; try (destruct (r_pfield (rc s)); reflexivity);
    cbn [ctype_of_ttype]; try reflexivity; destruct id; reflexivity.
Qed.
Lemma assert_ext p n s tl :
  r_assert_no_pending p n (ext s tl) =
  match r_assert_no_pending p n s with Ok (k, s') => Ok (k, ext s' tl) | Err e => Err e | Panic st => Panic st end.
Proof. unfold r_assert_no_pending. destruct p; try reflexivity. cbn [ext rc]. destruct (r_pfield (rc s)); reflexivity. Qed.

Lemma MONO_fbl p ft id : MONO (r_field_begin_len p ft id).
Proof. intros s tl. unfold mono. rewrite fbl_ext. destruct (r_field_begin_len p ft id s) as [[n s']| |]; auto. Qed.
Lemma MONO_assert p n : MONO (r_assert_no_pending p n).
Proof. intros s tl. unfold mono. rewrite assert_ext. destruct (r_assert_no_pending p n s) as [[k s']| |]; auto. Qed.

Section LoopsMono.
  Variable S : schema.
  Variable p : pk.
  Variable fk : nat.
  Variable rec : ty -> rm gval.
  Hypothesis Hrec : forall t, MONO (rec t).

  Lemma MONO_dec_elems : forall m et n acc, MONO (fun s => dec_elems rec m et n s acc).
  Proof.
    induction m as [|m IH]; intros et n acc s tl; cbn [dec_elems]; destruct (n <=? 0); try reflexivity.
    apply (MONO_bind (rec et) (fun x s1 => dec_elems rec m et (n - 1) s1 (x :: acc))); [apply Hrec|intros x; apply IH].
  Qed.
  Lemma MONO_dec_pairs : forall m kt vt n acc, MONO (fun s => dec_pairs rec m kt vt n s acc).
  Proof.
    induction m as [|m IH]; intros kt vt n acc s tl; cbn [dec_pairs]; destruct (n <=? 0); try reflexivity.
    apply (MONO_bind (rec kt) (fun a s1 => let* (b, s2) := rec vt s1 in dec_pairs rec m kt vt (n - 1) s2 ((a, b) :: acc))); [apply Hrec|].
    intros a. apply (MONO_bind (rec vt) (fun b s2 => dec_pairs rec m kt vt (n - 1) s2 ((a, b) :: acc))); [apply Hrec|intros b; apply IH].
  Qed.
  Lemma MONO_dec_fields : forall m fs vars, MONO (fun s => dec_fields S p fk rec m fs vars s).
  Proof.
    induction m as [|m IH]; intros fs vars s tl; cbn [dec_fields]; [reflexivity|].
    apply (MONO_bind (r_field_begin p) (fun h s =>
             if ttype_eqb (fst h) TStop then let* (_, s) := r_field_stop_len p s in Ok (vars, s)
             else let* (_, s) := r_field_begin_len p (fst h) (snd h) s in
                  let* (vars, s) := match match_field S fs 0 (snd h) (fst h) with
                                    | Some (i, f) => let* (x, s) := rec (f_ty f) s in Ok (set_nth i (Some x) vars, s)
                                    | None => let* (_, s) := skip p fk (fst h) s in Ok (vars, s)
                                    end in
                  let* (_, s) := r_field_end_len p s in dec_fields S p fk rec m fs vars s)).
    - apply (MONO_prim _ 1); [apply EXT_field_begin|apply r_field_begin_good].
    - intros h. destruct (ttype_eqb (fst h) TStop).
      + apply (MONO_map (r_field_stop_len p) (fun _ => vars)). apply MONO_assert.
      + apply (MONO_bind (r_field_begin_len p (fst h) (snd h))); [apply MONO_fbl|]. intros z.
        apply (MONO_bind (fun s => match match_field S fs 0 (snd h) (fst h) with
                                    | Some (i, f) => let* (x, s) := rec (f_ty f) s in Ok (set_nth i (Some x) vars, s)
                                    | None => let* (_, s) := skip p fk (fst h) s in Ok (vars, s)
                                    end)
                         (fun vars s => let* (_, s) := r_field_end_len p s in dec_fields S p fk rec m fs vars s)).
        * destruct (match_field S fs 0 (snd h) (fst h)) as [[i f]|].
          -- apply (MONO_map (rec (f_ty f)) (fun x => set_nth i (Some x) vars)). apply Hrec.
          -- apply (MONO_map (skip p fk (fst h)) (fun _ => vars)). apply MONO_skip.
        * intros vars'. apply (MONO_bind (r_field_end_len p) (fun _ s => dec_fields S p fk rec m fs vars' s)); [apply MONO_assert|].
          intros z'. apply IH.
  Qed.
  Lemma MONO_dec_variants : forall m vs ret, MONO (fun s => dec_variants S p fk rec m vs ret s).
  Proof.
    induction m as [|m IH]; intros vs ret s tl; cbn [dec_variants]; [reflexivity|].
    apply (MONO_bind (r_field_begin p) (fun h s =>
             if ttype_eqb (fst h) TStop then let* (_, s) := r_field_stop_len p s in Ok (ret, s)
             else let* (_, s) := r_field_begin_len p (fst h) (snd h) s in
                  match (match snd h with
                         | Some id => match find_variant vs id with
                                      | Some vt => if is_void (resolve S vt) then None else Some (id, vt)
                                      | None => None
                                      end
                         | None => None
                         end) with
                  | Some (id, vt) =>
                      match ret with
                      | None => let* (x, s) := rec vt s in dec_variants S p fk rec m vs (Some (id, x)) s
                      | Some _ => Err EInvalidData
                      end
                  | None => let* (_, s) := skip p fk (fst h) s in dec_variants S p fk rec m vs ret s
                  end)).
    - apply (MONO_prim _ 1); [apply EXT_field_begin|apply r_field_begin_good].
    - intros h. destruct (ttype_eqb (fst h) TStop).
      + apply (MONO_map (r_field_stop_len p) (fun _ => ret)). apply MONO_assert.
      + apply (MONO_bind (r_field_begin_len p (fst h) (snd h))); [apply MONO_fbl|]. intros z.
        match goal with |- MONO (fun s => match ?k with Some _ => _ | None => _ end) => destruct k as [[id vt]|] end.
        * destruct ret; [intros s0 tl0; reflexivity|].
          apply (MONO_bind (rec vt) (fun x s => dec_variants S p fk rec m vs (Some (id, x)) s)); [apply Hrec|]. intros x. apply IH.
        * apply (MONO_bind (skip p fk (fst h)) (fun _ s => dec_variants S p fk rec m vs ret s)); [apply MONO_skip|]. intros k. apply IH.
  Qed.
End LoopsMono.

Theorem MONO_gen_decode S p : forall f t, MONO (gen_decode S p f t).
Proof.
  induction f as [|f IH]; intros t s tl; [reflexivity|].
  rewrite !gen_decode_S.
  destruct (resolve S t) as [| | | | | | | | | |et|et|kt vt|n].
  - apply (MONO_map (r_bool p) GBool). apply (MONO_prim _ 0); [apply EXT_bool|apply r_bool_good].
  - apply (MONO_map r_i8 GI8). apply (MONO_prim _ 1); [apply EXT_i8|apply r_i8_good].
  - apply (MONO_map (r_i16 p) GI16). apply (MONO_prim _ 1); [apply EXT_i16|apply r_i16_good].
  - apply (MONO_map (r_i32 p) GI32). apply (MONO_prim _ 1); [apply EXT_i32|apply r_i32_good].
  - apply (MONO_map (r_i64 p) GI64). apply (MONO_prim _ 1); [apply EXT_i64|apply r_i64_good].
  - apply (MONO_map (r_double p) GDouble). apply (MONO_prim _ 8); [apply EXT_double|apply r_double_good].
  - apply (MONO_map (r_bytes p) GBytes). apply (MONO_prim _ 1); [apply EXT_bytes|apply r_bytes_good].
  - apply (MONO_map (r_bytes p) GBytes). apply (MONO_prim _ 1); [apply EXT_bytes|apply r_bytes_good].
  - apply (MONO_map r_uuid GUuid). apply (MONO_prim _ 16); [apply EXT_uuid|apply r_uuid_good].
  - apply (MONO_bind (r_struct_begin p) (fun _ s => let* (_, s) := r_struct_end p s in Ok (GVoid, s))).
    + apply (MONO_prim _ 0); [apply EXT_struct_begin|apply r_struct_begin_good].
    + intros u. apply (MONO_map (r_struct_end p) (fun _ => GVoid)). apply (MONO_prim _ 0); [apply EXT_struct_end|apply r_struct_end_good].
  - apply (MONO_bind (r_coll_begin p) (fun h s => let* (l, s) := dec_elems (gen_decode S p f) (Datatypes.S f) et (snd h) s [] in Ok (GList l, s))).
    + apply MONO_of_EXT; [apply EXT_coll_begin|apply NP_coll_begin].
    + intros h. apply (MONO_map (fun s => dec_elems (gen_decode S p f) (Datatypes.S f) et (snd h) s []) GList). apply MONO_dec_elems, IH.
  - apply (MONO_bind (r_coll_begin p) (fun h s => let* (l, s) := dec_elems (gen_decode S p f) (Datatypes.S f) et (snd h) s [] in Ok (GSet l, s))).
    + apply MONO_of_EXT; [apply EXT_coll_begin|apply NP_coll_begin].
    + intros h. apply (MONO_map (fun s => dec_elems (gen_decode S p f) (Datatypes.S f) et (snd h) s []) GSet). apply MONO_dec_elems, IH.
  - apply (MONO_bind (r_map_begin p) (fun h s => let* (l, s) := dec_pairs (gen_decode S p f) (Datatypes.S f) kt vt (snd h) s [] in Ok (GMap l, s))).
    + apply MONO_of_EXT; [apply EXT_map_begin|apply NP_map_begin].
    + intros h. apply (MONO_map (fun s => dec_pairs (gen_decode S p f) (Datatypes.S f) kt vt (snd h) s []) GMap). apply MONO_dec_pairs, IH.
  - destruct (lookup S n) as [[fs kp ia|vs vo kp|ms|tt]|]; try reflexivity.
    + apply (MONO_bind (r_struct_begin p) (fun _ s =>
               let* (vars, s) := dec_fields S p f (gen_decode S p f) (Datatypes.S f) fs (map init_var fs) s in
               let* (_, s) := r_struct_end p s in
               let* out := finish_fields fs vars in Ok (GStruct out [], s))).
      * apply (MONO_prim _ 0); [apply EXT_struct_begin|apply r_struct_begin_good].
      * intros u. apply (MONO_bind (fun s => dec_fields S p f (gen_decode S p f) (Datatypes.S f) fs (map init_var fs) s)
                           (fun vars s => let* (_, s) := r_struct_end p s in let* out := finish_fields fs vars in Ok (GStruct out [], s))).
        -- apply MONO_dec_fields, IH.
        -- intros vars. apply (MONO_bind (r_struct_end p) (fun _ s => let* out := finish_fields fs vars in Ok (GStruct out [], s))).
           ++ apply (MONO_prim _ 0); [apply EXT_struct_end|apply r_struct_end_good].
           ++ intros u2 s0 tl0. unfold mono. destruct (finish_fields fs vars); reflexivity.
    + apply (MONO_bind (r_struct_begin p) (fun _ s =>
               let* (ret, s) := dec_variants S p f (gen_decode S p f) (Datatypes.S f) vs None s in
               let* (_, s) := r_struct_end p s in
               match ret with
               | Some (id, x) => Ok (GUnion id x, s)
               | None => if vo then match vs with (id0, _) :: _ => Ok (GUnion id0 GVoid, s) | [] => Err EInvalidData end
                         else Err EInvalidData
               end)).
      * apply (MONO_prim _ 0); [apply EXT_struct_begin|apply r_struct_begin_good].
      * intros u. apply (MONO_bind (fun s => dec_variants S p f (gen_decode S p f) (Datatypes.S f) vs None s)
                           (fun ret s => let* (_, s) := r_struct_end p s in
                              match ret with
                              | Some (id, x) => Ok (GUnion id x, s)
                              | None => if vo then match vs with (id0, _) :: _ => Ok (GUnion id0 GVoid, s) | [] => Err EInvalidData end
                                        else Err EInvalidData
                              end)).
        -- apply MONO_dec_variants, IH.
        -- intros ret. apply (MONO_bind (r_struct_end p)).
           ++ apply (MONO_prim _ 0); [apply EXT_struct_end|apply r_struct_end_good].
           ++ intros u2 s0 tl0. unfold mono. destruct ret as [[id x]|]; [reflexivity|].
              destruct vo; [|reflexivity]. destruct vs as [|[id0 t0] r]; reflexivity.
    + apply (MONO_map (r_i32 p) GEnum). apply (MONO_prim _ 1); [apply EXT_i32|apply r_i32_good].
Qed.

(* what the decoder returns on a buffer it returns on every extension, leaving the extension unread *)
Corollary gen_decode_monotone S p f t s v s' tl :
  gen_decode S p f t s = Ok (v, s') -> gen_decode S p f t (ext s tl) = Ok (v, ext s' tl).
Proof. intros H. pose proof (MONO_gen_decode S p f t s tl) as M. unfold mono in M. rewrite H in M. exact M. Qed.

(* ================= D. strict prefixes of valid encodings are rejected ================= *)
Theorem gen_prefix_rejected S p k t v :
  wf_schema S = true -> has_type S t v = true ->
  forall c, w_pend c = None ->
  exists ss, enc_ty S p k t v c = Ok (ss, c) /\
    forall n fuel rcx, (n < length (flat ss))%nat -> (vsize (to_tval S t v) <= fuel)%nat -> (n < fuel)%nat -> idle rcx ->
      exists e, gen_decode S p fuel t (mkS (firstn n (flat ss)) rcx) = Err e /\ e <> EOutOfFuel.
Proof.
  intros Hwf Ht c Hp. destruct (gen_roundtrip S p k t v Hwf Ht c Hp) as (ss & Hw & Hr).
  exists ss. split; [exact Hw|]. intros n fuel rcx Hn Hv Hf Hi.
  assert (Hlen : length (firstn n (flat ss)) = n) by (apply firstn_length_le; lia).
  destruct (gen_total S p fuel) as [G _].
  specialize (G t (mkS (firstn n (flat ss)) rcx) ltac:(unfold blen; cbn [rbuf]; lia)).
  pose proof (MONO_gen_decode S p fuel t (mkS (firstn n (flat ss)) rcx) (skipn n (flat ss))) as M.
  unfold ext in M. cbn [rbuf rc] in M. rewrite firstn_skipn in M.
  specialize (Hr fuel [] rcx Hv Hi). rewrite app_nil_r in Hr. rewrite Hr in M.
  destruct (gen_decode S p fuel t (mkS (firstn n (flat ss)) rcx)) as [[v' s']| |] eqn:E; cbn [good mono] in *.
  - exfalso. assert (M2 : rbuf {| rbuf := []; rc := rcx |} = rbuf (ext s' (skipn n (flat ss)))) by (injection M as _ M; rewrite M; reflexivity).
    clear M. rename M2 into M. cbn [rbuf ext] in M.
    symmetry in M. apply app_eq_nil in M as [_ M].
    apply (f_equal (@length byte)) in M. rewrite skipn_length in M. cbn in M. lia.
  - exists e. auto.
  - destruct G.
Qed.

(* non-vacuity: a well-formed schema with a struct, a value of it, and its 10-byte compact / 19-byte binary encoding *)
Definition ex_schema : schema :=
  [DStruct [mkField 1 Required TyI32 None; mkField 2 Optional (TyList TyString) None; mkField 3 Optional TyBool None] false false].
Definition ex_value : gval := GStruct [(1, GI32 7); (2, GList [GBytes [x61]%byte]); (3, GBool true)] [].
Example ex_ok : wf_schema ex_schema = true /\ has_type ex_schema (TyRef 0) ex_value = true /\
  gen_encode ex_schema PCompact BContig (TyRef 0) ex_value = Ok [x15; x0e; x19; x18; x01; x61; x11; x00]%byte.
Proof. vm_compute. auto. Qed.

(* ================= E. recursion depth: bounded by the input, by nothing else ================= *)
(* nesting depth of a decoded value *)
Fixpoint gdepth (v : gval) : nat :=
  match v with
  | GList l | GSet l =>
      Datatypes.S ((fix go (l : list gval) : nat := match l with [] => O | x :: r => Nat.max (gdepth x) (go r) end) l)
  | GMap l =>
      Datatypes.S ((fix go (l : list (gval * gval)) : nat :=
                      match l with [] => O | (a, b) :: r => Nat.max (Nat.max (gdepth a) (gdepth b)) (go r) end) l)
  | GStruct fs _ =>
      Datatypes.S ((fix go (fs : list (Z * gval)) : nat := match fs with [] => O | (_, x) :: r => Nat.max (gdepth x) (go r) end) fs)
  | GUnion _ x => Datatypes.S (gdepth x)
  | _ => 1%nat
  end.

Definition optP (P : gval -> Prop) (o : option gval) : Prop := match o with Some x => P x | None => True end.

Lemma set_nth_Forall {A} (P : A -> Prop) : forall i x l, P x -> Forall P l -> Forall P (set_nth i x l).
Proof.
  intros i x l Hx H. revert i. induction H as [|y l Hy Hl IH]; intros i; destruct i; cbn [set_nth]; constructor; auto.
Qed.

(* the field variables of a struct decode only ever hold values returned by the recursive calls *)
Lemma dec_fields_inv S p fk rec (P : gval -> Prop) : forall m fs vars s vars' s',
  (forall fld s x s', In fld fs -> rec (f_ty fld) s = Ok (x, s') -> P x) ->
  Forall (optP P) vars -> dec_fields S p fk rec m fs vars s = Ok (vars', s') -> Forall (optP P) vars'.
Proof.
  induction m as [|m IH]; intros fs vars s vars' s' Hrec Hv H; [discriminate|].
  cbn [dec_fields] in H. binv H.
  destruct (ttype_eqb (fst x) TStop); [binv H; injection H as <- _; exact Hv|].
  binv H. binv H. binv H.
  eapply IH; [exact Hrec| |exact H].
  destruct (match_field S fs 0 (snd x) (fst x)) as [[i fld]|] eqn:Em.
  - binv E1. injection E1 as <- _. apply set_nth_Forall; [|exact Hv].
    destruct (match_field_spec _ _ _ _ _ _ _ Em) as [Hin _]. cbn [optP]. eapply Hrec; eauto.
  - binv E1. injection E1 as <- _. exact Hv.
Qed.

(* struct R { 1: optional R next }: every value of it is decodable, and decoding a value nested d deep needs
   more than d nested decode calls *)
Definition rec_schema : schema := [DStruct [mkField 1 Optional (TyRef 0) None] false false].
Fixpoint nest_val (d : nat) : gval :=
  match d with O => GStruct [] [] | Datatypes.S d' => GStruct [(1, nest_val d')] [] end.

Lemma nest_val_depth d : gdepth (nest_val d) = Datatypes.S d.
Proof. induction d as [|d IH]; cbn [nest_val gdepth]; [reflexivity|]. rewrite IH. lia. Qed.
Lemma nest_val_type d : has_type rec_schema (TyRef 0) (nest_val d) = true.
Proof.
  induction d as [|d IH]; [reflexivity|]. cbn [nest_val]. rewrite has_type_struct.
  change (resolve rec_schema (TyRef 0)) with (TyRef 0). cbv iota beta.
  change (lookup rec_schema 0) with (Some (DStruct [mkField 1 Optional (TyRef 0) None] false false)). cbv iota beta.
  rewrite ht_fields_cons. cbn [split_at f_id f_req f_ty Z.eqb Pos.eqb]. rewrite IH. reflexivity.
Qed.
Lemma nest_val_fill d : fill_defaults rec_schema (TyRef 0) (nest_val d) = nest_val d.
Proof.
  induction d as [|d IH]; [reflexivity|]. cbn [nest_val]. rewrite fill_defaults_struct.
  change (resolve rec_schema (TyRef 0)) with (TyRef 0). cbv iota beta.
  change (lookup rec_schema 0) with (Some (DStruct [mkField 1 Optional (TyRef 0) None] false false)). cbv iota beta.
  rewrite fd_fields_cons. cbn [split_at f_id f_req f_ty Z.eqb Pos.eqb defaults_of flat_map app fd_fields f_dflt]. rewrite IH. reflexivity.
Qed.

Lemma rec_schema_depth p : forall f s v s',
  gen_decode rec_schema p f (TyRef 0) s = Ok (v, s') -> (gdepth v <= f)%nat.
Proof.
  induction f as [|f IH]; intros s v s' H; [discriminate|].
  rewrite gen_decode_S in H. cbn [resolve resolve_n lookup nth_error rec_schema length] in H.
  binv H. binv H. binv H.
  assert (Hv : Forall (optP (fun y => (gdepth y <= f)%nat)) x0).
  { eapply (dec_fields_inv rec_schema p f (gen_decode rec_schema p f) (fun y => (gdepth y <= f)%nat)); [| |exact E0].
    - intros fld s3 y s3' [<-|[]] Hy. cbn [f_ty] in Hy. eapply IH; eauto.
    - cbn. constructor; [exact I|constructor]. }
  destruct x0 as [|o vt]; [discriminate|]. cbn [finish_fields bind] in H.
  inversion Hv as [|? ? Ho _]; subst.
  destruct o as [y|]; cbn [f_dflt f_req f_id bind] in H; injection H as <- _; cbn [gdepth optP] in *; lia.
Qed.

(* the templates have no depth limit: for every d there is a (4d+1)-byte message that the emitted decoder of a
   recursive struct accepts, and producing its value takes more than d nested decode calls (the fuel is consumed
   once per nested call) -- native recursion proportional to the nesting of the INPUT: finding F-09f *)
Theorem gen_depth_unbounded : exists S t, wf_schema S = true /\
  forall d : nat, exists l v fuel,
    gen_decode S PBinary fuel t (mkS l r0) = Ok (v, mkS [] r0) /\ gdepth v = Datatypes.S d /\
    forall f s', (f <= d)%nat -> gen_decode S PBinary f t (mkS l r0) <> Ok (v, s').
Proof.
  exists rec_schema, (TyRef 0). split; [reflexivity|]. intros d.
  destruct (gen_roundtrip rec_schema PBinary BContig (TyRef 0) (nest_val d) eq_refl (nest_val_type d) w0 eq_refl)
    as (ss & Hw & Hr).
  exists (flat ss), (nest_val d), (vsize (to_tval rec_schema (TyRef 0) (nest_val d))).
  split; [|split].
  - specialize (Hr _ [] r0 (Nat.le_refl _) idle_r0). rewrite app_nil_r in Hr. rewrite Hr, nest_val_fill. reflexivity.
  - apply nest_val_depth.
  - intros f s' Hf H. apply rec_schema_depth in H. rewrite nest_val_depth in H. lia.
Qed.
