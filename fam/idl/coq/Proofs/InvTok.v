(* C15, converse direction, token level: a successful run of the blank / separator / identifier / literal / path parsers
   read backwards -- the consumed text is the print of a (well-formed) piece of concrete syntax. *)
From PVIdl Require Import Comb Ast Parser Print Proofs.Total Proofs.RoundTok Proofs.RoundPath Proofs.RoundAnn Proofs.RoundTy Proofs.RoundKit
  Proofs.Lex Proofs.InvKit.
From Coq Require Import ZifyN ZifyNat ZifyBool.
From Coq Require String.
Import String.StringSyntax.
Open Scope nat_scope.

(* ---------- comments ---------- *)
Lemma find_sub_inv i : forall p r, find_sub [x2a; x2f] i = Some (p, r) ->
  i = p ++ r /\ no_star_slash p = true /\ exists r', r = x2a :: x2f :: r'.
Proof.
  induction i as [|b i IH]; intros p r H; cbn [find_sub] in H.
  - cbn in H. discriminate.
  - destruct (strip_prefix [x2a; x2f] (b :: i)) as [r0|] eqn:E.
    + inversion H; subst. apply strip_prefix_app in E. repeat split. exists r0. exact E.
    + destruct (find_sub [x2a; x2f] i) as [[p' r']|] eqn:F; [|discriminate]. inversion H; subst.
      destruct (IH p' r eq_refl) as [-> [Hn Hr]]. repeat split; auto. cbn [no_star_slash]. rewrite Hn, andb_true_r.
      cbn [strip_prefix] in E. destruct (Byte.eqb b x2a) eqn:Eb; [|reflexivity]. cbn [andb].
      destruct (p' ++ r) as [|c l] eqn:El.
      * destruct p'; [|discriminate]. reflexivity.
      * destruct p' as [|c' p'']; cbn [app] in El.
        -- destruct Hr as [r'' ->]. inversion El; subst. reflexivity.
        -- inversion El; subst. destruct (Byte.eqb c x2f); [discriminate|reflexivity].
Qed.

Lemma line_body_inv stop i r body : stop = [x0a] -> take_till (fun b => bmem b stop) i = POk r body ->
  i = body ++ r /\ forallb (fun b => negb (is_nl b)) body = true /\ (r = [] \/ exists r', r = x0a :: r').
Proof.
  intros -> H. unfold take_till in H. apply take_while_inv in H. destruct H as [-> [Hb Hr]]. split; [reflexivity|]. split.
  - rewrite forallb_forall in *. intros x Hx. specialize (Hb x Hx). cbn [bmem] in Hb. rewrite orb_false_r in Hb. exact Hb.
  - destruct r as [|c r]; [left; reflexivity|right]. cbn in Hr. rewrite orb_false_r in Hr. apply negb_true_iff, negb_false_iff in Hr.
    apply byte_dec_bl in Hr. subst. eauto.
Qed.

Definition item : parser (list byte) := alt [p_comment; multispace1].

Definition atom_body (a : batom) : list byte := match a with BWs x | BLine x | BHash x | BBlock x => x end.

Lemma atom_inv i r v : item i = POk r v -> exists a, i = pr_atom a r /\ atom_body a = v /\ wf_atom a = true /\ atom_follow a r.
Proof.
  unfold item. intros H. apply alt_cons_inv in H. destruct H as [H|[_ H]].
  - rewrite p_comment_eq in H. apply alt_cons_inv in H. destruct H as [H|[_ H]]; [|apply alt_cons_inv in H; destruct H as [H|[_ H]]].
    + unfold cmt1 in H. apply pbind_ok in H. destruct H as [i1 [t [E1 H]]]. apply tag_inv in E1. destruct E1 as [-> _].
      apply (line_body_inv cmt_line_stop) in H; [|reflexivity]. destruct H as [-> [Hb Hr]].
      exists (BLine v). repeat split; auto.
    + unfold cmt2 in H. apply pbind_ok in H. destruct H as [i1 [t [E1 H]]]. apply tag_inv in E1. destruct E1 as [-> _].
      apply pbind_ok in H. destruct H as [i2 [c [E2 H]]]. apply pbind_ok in H. destruct H as [i3 [t3 [E3 H]]]. inversion H; subst.
      unfold take_until in E2. change cmt_block_until with [x2a; x2f] in E2.
      destruct (find_sub [x2a; x2f] i1) as [[p' r']|] eqn:F; [|discriminate]. inversion E2; subst.
      destruct (find_sub_inv _ _ _ F) as [-> [Hn [r'' ->]]]. apply tag_inv in E3. destruct E3 as [E3 _].
      change cmt_block_close with [x2a; x2f] in E3. cbn [app] in E3. inversion E3; subst.
      exists (BBlock v). repeat split; auto.
    + apply alt_one_inv in H. unfold cmt3 in H. apply pbind_ok in H. destruct H as [i1 [t [E1 H]]]. apply tag_inv in E1.
      destruct E1 as [-> _]. apply (line_body_inv cmt_hash_stop) in H; [|reflexivity]. destruct H as [-> [Hb Hr]].
      exists (BHash v). repeat split; auto.
  - apply alt_one_inv in H. unfold multispace1 in H. apply span1_inv in H. destruct H as [-> [Hne [Hs Hr]]].
    exists (BWs v). repeat split; auto. cbn [wf_atom]. rewrite Hs. destruct v; [contradiction|reflexivity].
Qed.

(* the text that remains after a blank does not begin another blank atom *)
Definition noblank (r : list byte) : Prop := is_perr (item r).

Lemma noblank_blank lf r : noblank r -> is_perr (p_blank lf r).
Proof. unfold noblank, p_blank, many1. fold item. intros H. destruct (item r); cbn in H; try contradiction. exact I. Qed.

Lemma noblank_oblank lf r r' o : noblank r -> opt (p_blank lf) r = POk r' o -> r' = r /\ o = None.
Proof.
  intros Hn H. apply opt_inv in H. destruct H as [[a [-> H]]|[-> [-> _]]]; [|auto].
  pose proof (noblank_blank lf r Hn) as E. rewrite H in E. contradiction.
Qed.

Lemma space_item b r : is_space b = true -> ~ noblank (b :: r).
Proof.
  intros Hb Hn. unfold noblank, item in Hn.
  assert (E : exists r' v, multispace1 (b :: r) = POk r' v).
  { unfold multispace1, span1. cbn [span]. rewrite Hb. destruct (span is_space r) as [p' r'']. cbn [is_nil]. eauto. }
  destruct E as [r' [v E]]. cbn [alt] in Hn. destruct (p_comment (b :: r)); cbn in Hn; try contradiction.
  rewrite E in Hn. contradiction.
Qed.

(* a chain of atoms read by the loop is a well-formed blank -- or, at the end of input, one that may end with an
   unterminated line comment *)
Definition blank_ok (bl : blank) (r : list byte) : Prop :=
  wf_blank bl = true \/ (r = [] /\ wf_blank_eof bl = true).

Lemma blank_ok_wfb bl r : blank_ok bl r -> wfb (is_nil r) bl = true.
Proof. intros [H|[-> H]]; cbn [is_nil wfb]; [apply wfb_false_of, H|exact H]. Qed.

Lemma chain_blank (cs : blank) r : chain pr_atom (fun a r => wf_atom a = true /\ atom_follow a r) cs r -> noblank r ->
  prl pr_atom cs r = pr_blank cs r /\ blank_ok cs r.
Proof.
  intros Hc Hn. induction cs as [|a cs IH]; cbn [chain prl fold_right pr_blank] in *.
  - split; [reflexivity|left; reflexivity].
  - destruct Hc as [[Hw Hf] Hc]. destruct (IH Hc) as [E Hok]. fold (prl pr_atom cs r) in *. rewrite E in *. split; [reflexivity|].
    assert (Hadj : (cs <> [] -> adj_ok a cs = true) /\ (cs = [] -> adj_ok_eof a cs = true /\ (adj_ok a cs = true \/ r = []))).
    { destruct a as [ws|body|body|body]; cbn [atom_follow adj_ok adj_ok_eof] in *.
      - split; [|intros ->; auto]. intros _. destruct cs as [|[ws'| | |] cs']; try reflexivity. exfalso.
        cbn [chain] in Hc. destruct Hc as [[Hw' _] _]. cbn [wf_atom] in Hw'. apply andb_prop in Hw'. destruct Hw' as [N S'].
        destruct ws' as [|w ws']; [discriminate|]. cbn [forallb] in S'. apply andb_prop in S'. destruct S' as [Sw _].
        cbn [pr_blank pr_atom app hd_sat] in Hf. rewrite Sw in Hf. discriminate.
      - split.
        + intros Hne. destruct cs as [|a' cs']; [contradiction|]. cbn [pr_blank] in Hf. destruct Hf as [Hf|[r' Hf]].
          * destruct a'; cbn [pr_atom] in Hf; try discriminate. cbn [chain] in Hc. destruct Hc as [[Hw' _] _]. cbn [wf_atom] in Hw'.
            destruct ws; [discriminate|discriminate].
          * destruct a' as [ws'| | |]; cbn [pr_atom] in Hf; try discriminate.
            destruct ws' as [|w ws']; [|cbn [app] in Hf; inversion Hf; subst; reflexivity].
            cbn [chain] in Hc. destruct Hc as [[Hw' _] _]. discriminate.
        + intros ->. cbn [pr_blank] in Hf. split; [reflexivity|]. destruct Hf as [->|[r' ->]]; [right; reflexivity|].
          exfalso. apply (space_item x0a r'); auto.
      - split.
        + intros Hne. destruct cs as [|a' cs']; [contradiction|]. cbn [pr_blank] in Hf. destruct Hf as [Hf|[r' Hf]].
          * destruct a'; cbn [pr_atom] in Hf; try discriminate. cbn [chain] in Hc. destruct Hc as [[Hw' _] _]. cbn [wf_atom] in Hw'.
            destruct ws; [discriminate|discriminate].
          * destruct a' as [ws'| | |]; cbn [pr_atom] in Hf; try discriminate.
            destruct ws' as [|w ws']; [|cbn [app] in Hf; inversion Hf; subst; reflexivity].
            cbn [chain] in Hc. destruct Hc as [[Hw' _] _]. discriminate.
        + intros ->. cbn [pr_blank] in Hf. split; [reflexivity|]. destruct Hf as [->|[r' ->]]; [right; reflexivity|].
          exfalso. apply (space_item x0a r'); auto.
      - split; intros; auto. }
    destruct Hadj as [A1 A2]. unfold blank_ok. cbn [wf_blank wf_blank_eof]. rewrite Hw. cbn [andb].
    destruct cs as [|a' cs'].
    + destruct (A2 eq_refl) as [Ae [Aa| ->]].
      * left. now rewrite Aa.
      * right. split; [reflexivity|]. now rewrite Ae.
    + rewrite (A1 ltac:(discriminate)). cbn [andb]. destruct Hok as [Hok|[-> Hok]]; [left; exact Hok|right; split; [reflexivity|]].
      assert (Ee : adj_ok_eof a (a' :: cs') = true).
      { pose proof (A1 ltac:(discriminate)) as X. destruct a; cbn [adj_ok_eof]; exact X. }
      rewrite Ee. exact Hok.
Qed.

Theorem blank_inv lf i r u : p_blank lf i = POk r u ->
  exists bl, i = pr_blank bl r /\ bl <> [] /\ blank_ok bl r /\ noblank r.
Proof.
  unfold p_blank. intros H. apply pbind_ok in H. destruct H as [i1 [l [E H]]]. inversion H; subst.
  apply (many1_inv item atom_body pr_atom (fun a r => wf_atom a = true /\ atom_follow a r)) in E.
  - destruct E as [c [cs [-> [_ [Hq [Hc Hp]]]]]].
    destruct (chain_blank (c :: cs) r) as [E Hok]; [cbn [chain]; auto|exact Hp|].
    exists (c :: cs). cbn [prl fold_right] in E. repeat split; auto. discriminate.
  - intros i0 r0 a0 H0. destruct (atom_inv i0 r0 a0 H0) as [a [-> [Hb [Hw Hf]]]]. exists a. repeat split; auto.
Qed.

(* ---------- optional blanks ---------- *)
Lemma len_atom_lt a r : wf_atom a = true -> length r < length (pr_atom a r).
Proof. apply lt_len_atom. Qed.

Lemma many1_loop_item_not_err : forall fuel i, ~ is_perr (many1_loop fuel item i).
Proof.
  induction fuel as [|f IH]; intros i H; cbn [many1_loop] in H; [exact H|].
  destruct (item i) as [i1 a| | | |] eqn:E; try exact H.
  destruct (atom_inv _ _ _ E) as [at_ [-> [_ [Hw _]]]]. rewrite (same_len_shorter _ _ (len_atom_lt at_ i1 Hw)) in H.
  destruct (many1_loop f item i1) eqn:E2; cbn [pbind] in H; try exact H. apply (IH i1). rewrite E2. exact I.
Qed.

Lemma blank_err_noblank lf i : is_perr (p_blank lf i) -> noblank i.
Proof.
  unfold p_blank, many1, noblank. fold item. intros H. destruct (item i) as [i1 a| | | |] eqn:E; try exact H; try exact I.
  exfalso. destruct (many1_loop lf item i1) eqn:E2; cbn [pbind] in H; try exact H. apply (many1_loop_item_not_err lf i1). now rewrite E2.
Qed.

Theorem oblank_inv lf i r o : opt (p_blank lf) i = POk r o ->
  exists bl, i = pr_blank bl r /\ blank_ok bl r /\ noblank r /\ (o = None -> bl = []).
Proof.
  intros H. apply opt_inv in H. destruct H as [[u [-> H]]|[-> [-> H]]].
  - destruct (blank_inv _ _ _ _ H) as [bl [-> [_ [Hok Hn]]]]. exists bl. repeat split; auto. discriminate.
  - exists []. repeat split; [left; reflexivity|now apply (blank_err_noblank lf)].
Qed.

(* ---------- separators ---------- *)
(* what is known after an optional separator: its blank is read to the end, or nothing was read and no separator follows *)
Definition sep_ok (s : csep) (r : list byte) : Prop :=
  match s with
  | SepSome _ bl => blank_ok bl r /\ noblank r
  | SepNone => nosep r = true
  end.

Lemma list_separator_inv lf i r b : p_list_separator lf i = POk r b ->
  exists semi bl, i = sep_byte semi :: pr_blank bl r /\ b = sep_byte semi /\ blank_ok bl r /\ noblank r.
Proof.
  unfold p_list_separator. intros H. apply pbind_ok in H. destruct H as [i1 [c [E1 H]]]. apply one_of_inv in E1. destruct E1 as [-> M].
  apply pbind_ok in H. destruct H as [i2 [o2 [E2 H]]]. inversion H; subst.
  destruct (oblank_inv _ _ _ _ E2) as [bl [-> [Hok [Hn _]]]].
  change set_list_separator with [x2c; x3b] in M. cbn [bmem] in M. rewrite orb_false_r in M. apply orb_prop in M.
  destruct M as [M|M]; apply byte_dec_bl in M; subst b; [exists false, bl|exists true, bl]; repeat split; auto.
Qed.

Theorem osep_inv lf i r o : opt (p_list_separator lf) i = POk r o -> exists s, i = pr_sep s r /\ sep_ok s r.
Proof.
  intros H. apply opt_inv in H. destruct H as [[b [-> H]]|[-> [-> H]]].
  - unfold p_list_separator in H. apply pbind_ok in H. destruct H as [i1 [c [E1 H]]]. apply one_of_inv in E1. destruct E1 as [-> M].
    apply pbind_ok in H. destruct H as [i2 [o2 [E2 H]]]. inversion H; subst.
    destruct (oblank_inv _ _ _ _ E2) as [bl [-> [Hok [Hn _]]]].
    change set_list_separator with [x2c; x3b] in M. cbn [bmem] in M. rewrite orb_false_r in M. apply orb_prop in M.
    destruct M as [M|M]; apply byte_dec_bl in M; subst b; [exists (SepSome false bl)|exists (SepSome true bl)]; repeat split; auto.
  - exists SepNone. split; [reflexivity|]. unfold sep_ok, nosep. destruct i as [|c i]; [reflexivity|]. cbn [hd_sat].
    unfold p_list_separator in H. cbn [one_of] in H. destruct (bmem c set_list_separator); [|reflexivity].
    cbn [pbind] in H. destruct (opt (p_blank lf) i) eqn:E; cbn [pbind] in H; try contradiction.
    unfold opt in E. destruct (p_blank lf i); discriminate.
Qed.

(* ---------- identifiers, annotation keys, keywords ---------- *)
Theorem ident_inv i r s : p_ident i = POk r s -> i = s ++ r /\ is_ident s = true /\ nid r = true.
Proof.
  unfold p_ident. intros H. apply recognize_inv in H. destruct H as [a [H ->]].
  apply pbind_ok in H. destruct H as [i1 [b [E1 H]]]. apply satisfy_b_inv in E1. destruct E1 as [-> Hb].
  apply take_while_inv in H. destruct H as [-> [Ha Hr]].
  change (b :: a ++ r) with ((b :: a) ++ r). rewrite consumed_app. repeat split; auto. cbn [is_ident]. now rewrite Hb, Ha.
Qed.

Theorem annkey_inv i r s : p_annotation_key i = POk r s -> i = s ++ r /\ is_annkey s = true /\ hd_sat (fun b => negb (annch b)) r = true.
Proof.
  unfold p_annotation_key. intros H. apply recognize_inv in H. destruct H as [a [H ->]].
  apply pbind_ok in H. destruct H as [i1 [b [E1 H]]]. apply satisfy_b_inv in E1. destruct E1 as [-> Hb].
  apply take_while_inv in H. destruct H as [-> [Ha Hr]].
  change (b :: a ++ r) with ((b :: a) ++ r). rewrite consumed_app. repeat split; auto. cbn [is_annkey]. now rewrite Hb, Ha.
Qed.

Definition kwend (r : list byte) : Prop := is_perr (p_alphanumeric_or_underscore r).

Theorem keyword_inv k i r u : p_keyword k i = POk r u -> i = k ++ r /\ kwend r.
Proof.
  unfold p_keyword. intros H. apply pbind_ok in H. destruct H as [i1 [t [E1 H]]]. apply tag_inv in E1. destruct E1 as [-> _].
  apply pbind_ok in H. destruct H as [i2 [u2 [E2 H]]]. inversion H; subst. unfold peek, not_ in E2. unfold kwend.
  destruct (p_alphanumeric_or_underscore i1) eqn:EA; try discriminate. inversion E2; subst. rewrite EA. split; [reflexivity|exact I].
Qed.

(* ---------- literals ---------- *)
Section Quote.
Variable q : byte.
Variable none_set : list byte.
Hypothesis Hset : forall b, bmem b none_set = Byte.eqb b x5c || Byte.eqb b q.

Lemma escaped_inv : forall fuel pre i r res,
  escaped_loop fuel (none_of none_set) x5c (one_of [x27; x22; x6e; x5c]) (pre ++ i) i = POk r res ->
  exists body, i = body ++ r /\ res = pre ++ body /\ lit_body_ok q body = true.
Proof.
  induction fuel as [|f IH]; intros pre i r res H; cbn [escaped_loop] in H; [discriminate|].
  destruct i as [|b tl].
  - inversion H; subst. exists []. repeat split.
  - cbn [none_of] in H. rewrite Hset in H. destruct (Byte.eqb b x5c) eqn:Eb; cbn [orb] in H.
    + (* escape *)
      apply byte_dec_bl in Eb. subst b. destruct tl as [|c tl']; [discriminate|].
      cbn [one_of] in H. destruct (bmem c [x27; x22; x6e; x5c]) eqn:Ec; [|discriminate].
      destruct (is_nil tl') eqn:N.
      * destruct tl'; [|discriminate]. inversion H; subst. exists [x5c; c]. repeat split. cbn [lit_body_ok]. now rewrite Ec.
      * replace (pre ++ x5c :: c :: tl') with ((pre ++ [x5c; c]) ++ tl') in H by (rewrite <- app_assoc; reflexivity).
        destruct (IH _ _ _ _ H) as [body [-> [-> Hb]]]. exists (x5c :: c :: body). repeat split.
        -- now rewrite <- app_assoc.
        -- cbn [lit_body_ok]. now rewrite Ec, Hb.
    + destruct (Byte.eqb b q) eqn:Eq.
      * (* the closing quote: normal fails, not the control character *)
        destruct (same_len (b :: tl) (pre ++ b :: tl)) eqn:SL; [discriminate|]. inversion H; subst.
        rewrite consumed_app. exists []. repeat split. now rewrite app_nil_r.
      * destruct (is_nil tl) eqn:N.
        -- destruct tl; [|discriminate]. inversion H; subst. exists [b]. repeat split. cbn [lit_body_ok]. now rewrite Eb, Eq.
        -- change (b :: tl) with ([b] ++ tl) in H at 1. rewrite (same_len_app_false [b] tl) in H by discriminate. cbn [app] in H.
           replace (pre ++ b :: tl) with ((pre ++ [b]) ++ tl) in H by (rewrite <- app_assoc; reflexivity).
           destruct (IH _ _ _ _ H) as [body [-> [-> Hb]]]. exists (b :: body). repeat split.
           ++ now rewrite <- app_assoc.
           ++ cbn [lit_body_ok]. now rewrite Eb, Eq, Hb.
Qed.

Lemma quote_inv lf i r s : set_escapable = [x27; x22; x6e; x5c] -> one_byte lit_ctrl = x5c -> lit_empty = [] ->
  p_quote_parser lf [q] none_set i = POk r s -> i = q :: s ++ q :: r /\ lit_body_ok q s = true.
Proof.
  intros E1 E2 E3 H. unfold p_quote_parser in H. rewrite E1, E2, E3 in H.
  apply pbind_ok in H. destruct H as [i1 [t [T1 H]]]. apply tag_inv in T1. destruct T1 as [-> _].
  apply pbind_ok in H. destruct H as [i2 [body [B H]]]. apply pbind_ok in H. destruct H as [i3 [t3 [T3 H]]]. inversion H; subst.
  apply tag_inv in T3. destruct T3 as [-> _]. cbn [app].
  apply alt_cons_inv in B. destruct B as [B|[_ B]].
  - unfold escaped in B. destruct (escaped_inv lf [] i1 _ _ B) as [b' [-> [-> Hb]]]. cbn [app]. split; [reflexivity|exact Hb].
  - apply alt_one_inv in B. cbn in B. inversion B; subst. split; reflexivity.
Qed.
End Quote.

Theorem literal_inv lf i r s : p_literal lf i = POk r s -> exists l, i = pr_lit l r /\ erase_lit l = s /\ wf_lit l = true.
Proof.
  unfold p_literal. intros H. apply alt_cons_inv in H. destruct H as [H|[_ H]].
  - unfold p_single_quote in H. change lit_quote_single with [x27] in H.
    apply (quote_inv x27 set_none_of_single) in H; try reflexivity.
    + destruct H as [-> Hb]. exists (mkLit false s). repeat split. exact Hb.
    + intros b. change set_none_of_single with [x5c; x27]. cbn [bmem]. now rewrite orb_false_r.
  - apply alt_one_inv in H. unfold p_double_quote in H. change lit_quote_double with [x22] in H.
    apply (quote_inv x22 set_none_of_double) in H; try reflexivity.
    + destruct H as [-> Hb]. exists (mkLit true s). repeat split. exact Hb.
    + intros b. change set_none_of_double with [x5c; x22]. cbn [bmem]. now rewrite orb_false_r.
Qed.

(* ---------- paths ---------- *)
Lemma blank_ok_nonnil bl r : blank_ok bl r -> r <> [] -> wf_blank bl = true.
Proof. intros [H|[-> _]] Hr; [exact H|contradiction]. Qed.

(* a blank slot begins with an ASCII byte if what follows it does *)
Lemma blank_ok_ascii bl r : blank_ok bl r -> hd_ascii r = true -> hd_ascii (pr_blank bl r) = true.
Proof. intros Hb Hr. unfold hd_ascii. apply (blank_then_e _ (is_nil r)); [now apply blank_ok_wfb|exact bs_ascii|auto]. Qed.
Lemma blank_ne_ascii bl r : blank_ok bl r -> bl <> [] -> hd_ascii (pr_blank bl r) = true.
Proof.
  intros Hb Hne. unfold hd_ascii. apply (blank_then_e _ (is_nil r)); [now apply blank_ok_wfb|exact bs_ascii|intros E; contradiction].
Qed.

Definition wf_ptail (t : list (blank * blank * Ident)) : bool :=
  forallb (fun x => wf_blank (fst (fst x)) && wf_blank (snd (fst x)) && is_ident (snd x)) t.

(* how a path ends: no separator follows, or a separator that is not followed by an identifier *)
Definition path_end (lf : nat) (r : list byte) : Prop :=
  is_perr (p_path_sep lf r) \/ exists i1 u, p_path_sep lf r = POk i1 u /\ is_perr (p_ident i1).

Lemma path_sep_inv lf i r u : p_path_sep lf i = POk r u ->
  exists b1 b2, i = pr_blank b1 (txt "." ++ pr_blank b2 r) /\ wf_blank b1 = true /\ blank_ok b2 r /\ noblank r.
Proof.
  unfold p_path_sep. intros H. apply pbind_ok in H. destruct H as [i1 [o1 [E1 H]]].
  apply pbind_ok in H. destruct H as [i2 [t [E2 H]]]. apply pbind_ok in H. destruct H as [i3 [o3 [E3 H]]]. inversion H; subst.
  destruct (oblank_inv _ _ _ _ E1) as [b1 [-> [Hok1 _]]]. apply tag_inv in E2. destruct E2 as [-> _].
  destruct (oblank_inv _ _ _ _ E3) as [b2 [-> [Hok2 [Hn2 _]]]]. exists b1, b2. repeat split; auto.
  apply (blank_ok_nonnil _ _ Hok1). discriminate.
Qed.

Lemma sep_loop_path_inv lf : forall fuel i r l, sep_loop fuel (p_path_sep lf) p_ident i = POk r l ->
  exists t, i = pr_path_tail t r /\ map (fun x => snd x) t = l /\ wf_ptail t = true /\ path_end lf r /\ (t <> [] -> nid r = true).
Proof.
  induction fuel as [|f IH]; intros i r l H; cbn [sep_loop] in H; [discriminate|].
  destruct (p_path_sep lf i) as [i1 u| | | |] eqn:E; try discriminate.
  - destruct (same_len i1 i); [discriminate|]. destruct (p_ident i1) as [i2 s| | | |] eqn:E2; try discriminate.
    + apply pbind_ok in H. destruct H as [r' [l' [E3 H]]]. inversion H; subst.
      destruct (path_sep_inv _ _ _ _ E) as [b1 [b2 [-> [W1 [Hok2 _]]]]]. destruct (ident_inv _ _ _ E2) as [-> [Hs Hns]].
      destruct (IH _ _ _ E3) as [t [-> [<- [Wt [He Hnt]]]]].
      exists ((b1, b2, s) :: t). repeat split; auto.
      * cbn [wf_ptail forallb fst snd]. rewrite W1, Hs. cbn [andb].
        rewrite (blank_ok_nonnil _ _ Hok2); [exact Wt|]. destruct s; [discriminate|discriminate].
      * intros _. destruct t as [|x t]; [exact Hns|apply Hnt; discriminate].
    + inversion H; subst. exists []. repeat split; [|contradiction]. right. exists i1, u. split; [exact E|rewrite E2; exact I].
  - inversion H; subst. exists []. repeat split; [|contradiction]. left. rewrite E. exact I.
Qed.

Theorem path_inv lf i r l : p_path lf i = POk r l ->
  exists p, i = pr_path p r /\ erase_path p = l /\ wf_path p = true /\ path_end lf r /\ nid r = true.
Proof.
  unfold p_path, separated_list1. intros H. apply pbind_ok in H. destruct H as [i1 [h [E1 H]]].
  apply pbind_ok in H. destruct H as [i2 [l' [E2 H]]]. inversion H; subst.
  destruct (ident_inv _ _ _ E1) as [-> [Hh Hnh]]. destruct (sep_loop_path_inv _ _ _ _ _ E2) as [t [-> [<- [Wt [He Hnt]]]]].
  exists (mkCPath h t). repeat split; auto.
  - unfold wf_path. cbn [cp_head cp_tail]. now rewrite Hh.
  - destruct t as [|x t]; [exact Hnh|apply Hnt; discriminate].
Qed.
