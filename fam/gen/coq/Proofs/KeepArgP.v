(* C13 domain w.r.t. F-13a: the message-relative condition arg_free follows from the type-level reachability condition
   no_keep_arg_reach (no struct reachable from T is both keep and is_arg), which follows from the schema-wide no_keep_arg. *)
From PVGen Require Import Gen GenKeep GenSpec EvoSpec KeepSpec Proofs.GenBase Proofs.EncP Proofs.EvoBase Proofs.KeepBase.
From PV Require Import Proofs.RoundtripP.
Open Scope Z_scope.

Lemma nkar_step S t u : no_keep_arg_reach S t -> tstep S t u -> no_keep_arg_reach S u.
Proof. intros H Hs w n dfs ia Hr. apply H. eapply tr_step; eauto. Qed.

Theorem reach_arg_free S v : forall t, no_keep_arg_reach S t -> arg_free S t v = true.
Proof.
  induction v using tval_ind'; intros t Hr; try reflexivity.
  - rewrite af_struct. destruct (resolve S t) eqn:Er; try reflexivity.
    destruct (lookup S n) as [[dfs kp ia|vs vok kp|?|?]|] eqn:El; try reflexivity.
    + apply andb_true_intro. split.
      { destruct kp; [|reflexivity]. rewrite (Hr t n dfs ia (tr_refl S t) Er El). reflexivity. }
      induction fs as [|[id x] r IHr]; [reflexivity|]. inversion H as [|? ? Hx Hxs]; subst. cbn [snd] in Hx.
      cbn [af_fields]. rewrite (IHr Hxs), andb_true_r. unfold af_field.
      destruct (match_field S dfs 0 (Some id) (ttype_of x)) as [[i fl]|] eqn:Em; [|reflexivity].
      destruct (match_field_inv _ _ _ _ _ _ _ Em) as (Hin & _ & _).
      apply Hx. eapply nkar_step; [exact Hr|]. eapply ts_field; eauto.
    + induction fs as [|[id x] r IHr]; [reflexivity|]. inversion H as [|? ? Hx Hxs]; subst. cbn [snd] in Hx.
      cbn [af_variants]. rewrite (IHr Hxs), andb_true_r. unfold af_variant, variant_by_id.
      destruct (find_variant vs id) as [vt|] eqn:Ev; [|reflexivity].
      destruct (is_void (resolve S vt)); [reflexivity|].
      apply Hx. eapply nkar_step; [exact Hr|]. eapply ts_variant; eauto. apply find_variant_in; exact Ev.
  - rewrite af_list. destruct (resolve S t) eqn:Er; try reflexivity.
    assert (Hr' : no_keep_arg_reach S t0) by (eapply nkar_step; [exact Hr|apply ts_list; exact Er]).
    induction l as [|x r IHr]; [reflexivity|]. inversion H as [|? ? Hx Hxs]; subst.
    cbn [af_elems]. rewrite (Hx _ Hr'), (IHr Hxs). reflexivity.
  - rewrite af_set. destruct (resolve S t) eqn:Er; try reflexivity.
    assert (Hr' : no_keep_arg_reach S t0) by (eapply nkar_step; [exact Hr|apply ts_set; exact Er]).
    induction l as [|x r IHr]; [reflexivity|]. inversion H as [|? ? Hx Hxs]; subst.
    cbn [af_elems]. rewrite (Hx _ Hr'), (IHr Hxs). reflexivity.
  - rewrite af_map. destruct (resolve S t) eqn:Er; try reflexivity.
    assert (Hk : no_keep_arg_reach S t0_1) by (eapply nkar_step; [exact Hr|eapply ts_mapk; exact Er]).
    assert (Hv : no_keep_arg_reach S t0_2) by (eapply nkar_step; [exact Hr|eapply ts_mapv; exact Er]).
    induction l as [|[a b] r IHr]; [reflexivity|]. inversion H as [|? ? [Ha Hb] Hxs]; subst. cbn [fst snd] in *.
    cbn [af_pairs]. rewrite (Ha _ Hk), (Hb _ Hv), (IHr Hxs). reflexivity.
Qed.

Lemma no_keep_arg_all S T : no_keep_arg S = true -> no_keep_arg_reach S T.
Proof.
  intros H u n dfs ia _ _ Hl. unfold no_keep_arg in H. rewrite forallb_forall in H.
  specialize (H _ (nth_error_In _ _ Hl)). destruct ia; [discriminate|reflexivity].
Qed.

(* proving the type-level condition: an invariant closed under tstep *)
Lemma nkar_invariant S (P : ty -> Prop) T : P T ->
  (forall t u, P t -> tstep S t u -> P u) ->
  (forall t n dfs ia, P t -> resolve S t = TyRef n -> lookup S n = Some (DStruct dfs true ia) -> ia = false) ->
  no_keep_arg_reach S T.
Proof.
  intros H0 Hstep Hok u n dfs ia Hr. assert (Hu : P u); [|apply Hok; exact Hu].
  induction Hr as [|t u' w Hs Hr IH]; [exact H0|]. apply IH. eapply Hstep; eauto.
Qed.
