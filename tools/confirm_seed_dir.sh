#!/bin/bash
# confirm_seed_dir.sh <id> <cargo package> [existing-test args...]
# For seeded changes whose demonstration is a directory /tmp/mut_out/<id>/demo with run.sh (WORKTREE=<worktree> demo/run.sh;
# exit 0 = property holds).  Confirms in the scratch worktree /tmp/mut_<id>: patch applies on a clean tree, the package builds,
# its existing tests pass with the patch, the demo FAILS with the patch and PASSES without.  Writes /verif/seeded/<id>/.
set -u
ID=$1; PKG=$2; shift 2; TESTARGS="$*"
WT=/tmp/mut_$ID; OUT=/tmp/mut_out/$ID; SD=/verif/seeded/$ID
export CARGO_TARGET_DIR=$WT/target CARGO_NET_OFFLINE=true WORKTREE=$WT
cd $WT || exit 2
git checkout -q -- . ; git clean -fdq -e target
git apply --check $OUT/patch.diff || { echo "patch does not apply"; exit 2; }
git apply $OUT/patch.diff
LOG=$OUT/confirm.log; : > $LOG
echo "== build with patch" >> $LOG
cargo build -p $PKG --offline >> $LOG 2>&1; B=$?
echo "== existing tests with patch" >> $LOG
cargo test -p $PKG --offline $TESTARGS >> $LOG 2>&1; T=$?
echo "== demo with patch (expected to fail)" >> $LOG
( cd $OUT/demo && timeout 3000 bash ./run.sh ) >> $LOG 2>&1; D1=$?
git apply -R $OUT/patch.diff
echo "== demo without patch (expected to pass)" >> $LOG
( cd $OUT/demo && timeout 3000 bash ./run.sh ) >> $LOG 2>&1; D0=$?
echo "build=$B existing_tests=$T demo_with_patch=$D1 demo_without_patch=$D0" | tee -a $LOG
if [ $B -eq 0 ] && [ $T -eq 0 ] && [ $D1 -ne 0 ] && [ $D0 -eq 0 ]; then
  mkdir -p $SD; cp $OUT/patch.diff $SD/patch.diff; rm -rf $SD/demo; cp -r $OUT/demo $SD/demo; cp $OUT/notes.md $SD/notes.md 2>/dev/null
  find $SD/demo -name target -type d -prune -exec rm -rf {} + 2>/dev/null
  tail -1 $LOG > $SD/confirm.txt
  echo "CONFIRMED $ID"
else
  echo "NOT CONFIRMED $ID"
fi
git checkout -q -- . ; git clean -fdq -e target
