(* C13 infrastructure: names and equation lemmas for the loops of KeepSpec.viewk, the unfolding of
   gen_decode_keep, and the leaf types on which the keep build and the plain build run the same code. *)
From PVGen Require Import Gen GenKeep GenSpec EvoSpec KeepSpec Proofs.GenBase Proofs.EncP Proofs.EvoBase.
From PV Require Import Proofs.TablesP Proofs.PrimP Proofs.HeaderP Proofs.RoundtripP.
From Coq Require Import ZifyN ZifyNat ZifyBool.
Open Scope Z_scope.

Section Names.
  Variable S : schema.
  Variable p : pk.
  Variable k : bk.
  Variable c : wctx.

  Notation VK := (viewk S p k c).

  Definition viewk_elems (et : ty) : list tval -> res (list gval) :=
    fix go (l : list tval) : res (list gval) :=
      match l with
      | [] => Ok []
      | x :: r => let* y := VK et x in let* ys := go r in Ok (y :: ys)
      end.
  Definition viewk_pairs (kt vt : ty) : list (tval * tval) -> res (list (gval * gval)) :=
    fix go (l : list (tval * tval)) : res (list (gval * gval)) :=
      match l with
      | [] => Ok []
      | (a, b) :: r =>
          let* a' := VK kt a in let* b' := VK vt b in let* ys := go r in Ok ((a', b') :: ys)
      end.
  Definition viewk_fields (dfs : list field) (keep : bool)
    : list (Z * tval) -> list (option gval) -> list (list byte) -> res (list (option gval) * list (list byte)) :=
    fix go (fs : list (Z * tval)) (vars : list (option gval)) (unk : list (list byte)) {struct fs}
      : res (list (option gval) * list (list byte)) :=
      match fs with
      | [] => Ok (vars, unk)
      | (id, x) :: r =>
          match match_field S dfs O (Some id) (ttype_of x) with
          | Some (i, f) => let* y := VK (f_ty f) x in go r (set_nth i (Some y) vars) unk
          | None => go r vars (if keep then unk ++ [fbytes p k c id x] else unk)
          end
      end.
  Definition viewk_variantsk (vs : list (Z * ty)) : list (Z * tval) -> uret -> res uret :=
    fix go (fs : list (Z * tval)) (ret : uret) {struct fs} : res uret :=
      match fs with
      | [] => Ok ret
      | (id, x) :: r =>
          match variant_by_id S vs id with
          | Some vt =>
              match ret with
              | UNone => let* y := VK vt x in go r (UKnown id y)
              | _ => Err EInvalidData
              end
          | None =>
              match ret with
              | UNone => go r (UUnknown (fbytes p k c id x))
              | _ => Err EInvalidData
              end
          end
      end.
  Definition viewk_variants (vs : list (Z * ty)) : list (Z * tval) -> option (Z * gval) -> res (option (Z * gval)) :=
    fix go (fs : list (Z * tval)) (ret : option (Z * gval)) {struct fs} : res (option (Z * gval)) :=
      match fs with
      | [] => Ok ret
      | (id, x) :: r =>
          match variant_by_id S vs id with
          | Some vt =>
              match ret with
              | None => let* y := VK vt x in go r (Some (id, y))
              | Some _ => Err EInvalidData
              end
          | None => go r ret
          end
      end.

  Lemma viewk_list t a l : VK t (VList a l) =
    match resolve S t with TyList et => let* ys := viewk_elems et l in Ok (GList ys) | _ => Err EOther end.
  Proof. reflexivity. Qed.
  Lemma viewk_set t a l : VK t (VSet a l) =
    match resolve S t with TySet et => let* ys := viewk_elems et l in Ok (GSet ys) | _ => Err EOther end.
  Proof. reflexivity. Qed.
  Lemma viewk_map t ka va l : VK t (VMap ka va l) =
    match resolve S t with TyMap kt vt => let* ys := viewk_pairs kt vt l in Ok (GMap ys) | _ => Err EOther end.
  Proof. reflexivity. Qed.
  Lemma viewk_struct t fs : VK t (VStruct fs) =
    match resolve S t with
    | TyRef n =>
        match lookup S n with
        | Some (DStruct dfs keep _) =>
            let* r := viewk_fields dfs keep fs (map init_var dfs) [] in
            let* out := finish_fields dfs (fst r) in
            Ok (GStruct out (snd r))
        | Some (DUnion vs void_ok true) =>
            let* ret := viewk_variantsk vs fs UNone in union_resultk vs void_ok ret
        | Some (DUnion vs void_ok false) =>
            let* ret := viewk_variants vs fs None in union_result vs void_ok ret
        | _ => Err EOther
        end
    | _ => Err EOther
    end.
  Proof. reflexivity. Qed.
  Lemma viewk_elems_cons et x r : viewk_elems et (x :: r) =
    let* y := VK et x in let* ys := viewk_elems et r in Ok (y :: ys).
  Proof. reflexivity. Qed.
  Lemma viewk_pairs_cons kt vt a b r : viewk_pairs kt vt ((a, b) :: r) =
    let* a' := VK kt a in let* b' := VK vt b in let* ys := viewk_pairs kt vt r in Ok ((a', b') :: ys).
  Proof. reflexivity. Qed.
  Lemma viewk_fields_cons dfs keep id x r vars unk : viewk_fields dfs keep ((id, x) :: r) vars unk =
    match match_field S dfs O (Some id) (ttype_of x) with
    | Some (i, f) => let* y := VK (f_ty f) x in viewk_fields dfs keep r (set_nth i (Some y) vars) unk
    | None => viewk_fields dfs keep r vars (if keep then unk ++ [fbytes p k c id x] else unk)
    end.
  Proof. reflexivity. Qed.
  Lemma viewk_variantsk_cons vs id x r ret : viewk_variantsk vs ((id, x) :: r) ret =
    match variant_by_id S vs id with
    | Some vt =>
        match ret with
        | UNone => let* y := VK vt x in viewk_variantsk vs r (UKnown id y)
        | _ => Err EInvalidData
        end
    | None =>
        match ret with
        | UNone => viewk_variantsk vs r (UUnknown (fbytes p k c id x))
        | _ => Err EInvalidData
        end
    end.
  Proof. reflexivity. Qed.
  Lemma viewk_variants_cons vs id x r ret : viewk_variants vs ((id, x) :: r) ret =
    match variant_by_id S vs id with
    | Some vt =>
        match ret with
        | None => let* y := VK vt x in viewk_variants vs r (Some (id, y))
        | Some _ => Err EInvalidData
        end
    | None => viewk_variants vs r ret
    end.
  Proof. reflexivity. Qed.
End Names.

(* ---------- gen_decode_keep, one step ---------- *)
Lemma gen_decode_keep_eq S p f t s : gen_decode_keep S p (Datatypes.S f) t s =
  match resolve S t with
  | TyBool => let* (b, s) := r_bool p s in Ok (GBool b, s)
  | TyI8 => let* (z, s) := r_i8 s in Ok (GI8 z, s)
  | TyI16 => let* (z, s) := r_i16 p s in Ok (GI16 z, s)
  | TyI32 => let* (z, s) := r_i32 p s in Ok (GI32 z, s)
  | TyI64 => let* (z, s) := r_i64 p s in Ok (GI64 z, s)
  | TyDouble => let* (z, s) := r_double p s in Ok (GDouble z, s)
  | TyString | TyBinary => let* (l, s) := r_bytes p s in Ok (GBytes l, s)
  | TyUuid => let* (l, s) := r_uuid s in Ok (GUuid l, s)
  | TyVoid =>
      let* (_, s) := r_struct_begin p s in
      let* (_, s) := r_struct_end p s in Ok (GVoid, s)
  | TyList et =>
      let* (h, s) := r_coll_begin p s in
      let* (l, s) := dec_elems (gen_decode_keep S p f) (Datatypes.S f) et (snd h) s [] in
      Ok (GList l, s)
  | TySet et =>
      let* (h, s) := r_coll_begin p s in
      let* (l, s) := dec_elems (gen_decode_keep S p f) (Datatypes.S f) et (snd h) s [] in
      Ok (GSet l, s)
  | TyMap kt vt =>
      let* (h, s) := r_map_begin p s in
      let* (l, s) := dec_pairs (gen_decode_keep S p f) (Datatypes.S f) kt vt (snd h) s [] in
      Ok (GMap l, s)
  | TyRef n =>
      match lookup S n with
      | Some (DEnum _) => let* (z, s) := r_i32 p s in Ok (GEnum z, s)
      | Some (DStruct fs true is_arg) =>
          let* (_, s) := r_struct_begin p s in
          let* (r, s) := dec_fields_keep S p f (gen_decode_keep S p f) (Datatypes.S f) fs is_arg (map init_var fs)
                                         (Z.of_nat (length fs)) [] s in
          let* (_, s) := r_struct_end p s in
          let* out := finish_fields fs (fst r) in
          Ok (GStruct out (snd r), s)
      | Some (DStruct fs false _) =>
          let* (_, s) := r_struct_begin p s in
          let* (vars, s) := dec_fields S p f (gen_decode_keep S p f) (Datatypes.S f) fs (map init_var fs) s in
          let* (_, s) := r_struct_end p s in
          let* out := finish_fields fs vars in
          Ok (GStruct out [], s)
      | Some (DUnion vs void_ok true) =>
          let* (_, s) := r_struct_begin p s in
          let* (ret, s) := dec_variants_keep S p f (gen_decode_keep S p f) (Datatypes.S f) vs UNone s in
          let* (_, s) := r_struct_end p s in
          match ret with
          | UKnown id x => Ok (GUnion id x, s)
          | UUnknown c => Ok (GUnionUnknown c, s)
          | UNone =>
              if void_ok then
                match vs with (id0, _) :: _ => Ok (GUnion id0 GVoid, s) | [] => Err EInvalidData end
              else Err EInvalidData
          end
      | Some (DUnion vs void_ok false) =>
          let* (_, s) := r_struct_begin p s in
          let* (ret, s) := dec_variants S p f (gen_decode_keep S p f) (Datatypes.S f) vs None s in
          let* (_, s) := r_struct_end p s in
          match ret with
          | Some (id, x) => Ok (GUnion id x, s)
          | None =>
              if void_ok then
                match vs with (id0, _) :: _ => Ok (GUnion id0 GVoid, s) | [] => Err EInvalidData end
              else Err EInvalidData
          end
      | Some (DTypedef _) => Err EOther
      | None => Err EOther
      end
  end.
Proof. reflexivity. Qed.

(* on values without fields the two builds run the same code and the two specifications coincide *)
Definition leaf (v : tval) : bool :=
  match v with
  | VStruct _ | VList _ _ | VSet _ _ | VMap _ _ _ => false
  | _ => true
  end.

Lemma leaf_decode_same S p fuel t s x : leaf x = true -> ttype_of x = ttype_of_ty S t ->
  gen_decode_keep S p fuel t s = gen_decode S p fuel t s.
Proof.
  intros Hl Hty. destruct fuel as [|f]; [reflexivity|]. rewrite gen_decode_keep_eq, gen_decode_eq.
  symmetry in Hty. destruct x; try discriminate Hl; cbn [ttype_of] in Hty; tycases Hty; reflexivity.
Qed.

Lemma leaf_view_same S p k c t x : leaf x = true -> viewk S p k c t x = view S t x.
Proof. intros Hl. destruct x; try discriminate Hl; reflexivity. Qed.

(* ---------- names for arg_free ---------- *)
Section AFNames.
  Variable S : schema.
  Definition af_elems (et : ty) : list tval -> bool :=
    fix go (l : list tval) : bool := match l with [] => true | x :: r => arg_free S et x && go r end.
  Definition af_pairs (kt vt : ty) : list (tval * tval) -> bool :=
    fix go (l : list (tval * tval)) : bool :=
      match l with [] => true | (a, b) :: r => arg_free S kt a && arg_free S vt b && go r end.
  Definition af_field (dfs : list field) (id : Z) (x : tval) : bool :=
    match match_field S dfs O (Some id) (ttype_of x) with Some (_, f) => arg_free S (f_ty f) x | None => true end.
  Definition af_fields (dfs : list field) : list (Z * tval) -> bool :=
    fix go (fs : list (Z * tval)) : bool := match fs with [] => true | (id, x) :: r => af_field dfs id x && go r end.
  Definition af_variant (vs : list (Z * ty)) (id : Z) (x : tval) : bool :=
    match variant_by_id S vs id with Some vt => arg_free S vt x | None => true end.
  Definition af_variants (vs : list (Z * ty)) : list (Z * tval) -> bool :=
    fix go (fs : list (Z * tval)) : bool := match fs with [] => true | (id, x) :: r => af_variant vs id x && go r end.

  Lemma af_list t a l : arg_free S t (VList a l) = match resolve S t with TyList et => af_elems et l | _ => true end.
  Proof. reflexivity. Qed.
  Lemma af_set t a l : arg_free S t (VSet a l) = match resolve S t with TySet et => af_elems et l | _ => true end.
  Proof. reflexivity. Qed.
  Lemma af_map t ka va l : arg_free S t (VMap ka va l) = match resolve S t with TyMap kt vt => af_pairs kt vt l | _ => true end.
  Proof. reflexivity. Qed.
  Lemma af_struct t fs : arg_free S t (VStruct fs) =
    match resolve S t with
    | TyRef n =>
        match lookup S n with
        | Some (DStruct dfs keep ia) => negb (keep && ia) && af_fields dfs fs
        | Some (DUnion vs _ _) => af_variants vs fs
        | _ => true
        end
    | _ => true
    end.
  Proof. reflexivity. Qed.
End AFNames.
