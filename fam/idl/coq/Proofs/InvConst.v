(* C15, converse direction: constant values (ConstValue::parse with nested lists and maps) read backwards. *)
From PVIdl Require Import Comb Ast Parser Print Proofs.Total Proofs.RoundTok Proofs.RoundPath Proofs.RoundAnn Proofs.RoundTy
  Proofs.RoundKit Proofs.Lex Proofs.RoundNum Proofs.RoundConst Proofs.InvKit Proofs.InvTok Proofs.InvTy Proofs.InvNum.
From Coq Require Import ZifyN ZifyNat ZifyBool.
From Coq Require String.
Import String.StringSyntax.
Open Scope nat_scope.

(* what is known of a value c read with the rest r: it is well-formed if r begins with an ASCII byte (a path constant
   whose first word is true / false can only be read before a non-ASCII letter), r does not continue it, and its own text
   begins with an ASCII byte *)
Definition constP (c : cconst) (r : list byte) : Prop :=
  (((hd_ascii r = true -> wf_const c = true) /\ pr_const c r <> []) /\ cont_ok c r = true) /\ hd_ascii (pr_const c r) = true.

Lemma sep_ascii s R : hd_ascii R = true -> hd_ascii (pr_sep s R) = true.
Proof. destruct s as [|[|] bl]; cbn [pr_sep sep_byte]; auto. Qed.

(* the glue condition of an element of a list / a map, from what is known about the text that followed the element *)
Lemma glue_of_cont v b s nxt X : lstopk X = true -> cont_ok v (pr_blank b (pr_sep s (nxt ++ X))) = true -> glue_ok v b s nxt = true.
Proof.
  intros HX H. destruct s as [|semi bl]; [|reflexivity]. destruct b as [|a b]; [|reflexivity].
  cbn [glue_ok pr_blank pr_sep] in *. now rewrite (cont_ok_local v nxt X HX) in H.
Qed.

(* list elements as the loop reads them:  [blank] value [blank] [separator] *)
Definition lel : Type := (blank * cconst * blank * csep)%type.
Definition pr_lel (e : lel) (r : list byte) : list byte :=
  match e with (bl, v, b, s) => pr_blank bl (pr_const v (pr_blank b (pr_sep s r))) end.
Definition lelQ (e : lel) (r : list byte) : Prop :=
  match e with (bl, v, b, s) =>
    constP v (pr_blank b (pr_sep s r)) /\ blank_ok bl (pr_const v (pr_blank b (pr_sep s r))) /\ blank_ok b (pr_sep s r) /\
    sep_ok s r /\ noblank r /\ (noblank (pr_lel e r) -> bl = [])
  end.
Fixpoint to_clist (es : list lel) : clist :=
  match es with [] => CLNil | (_, v, b, s) :: es' => CLCons v b s (to_clist es') end.
Definition hdnil (es : list lel) : Prop := match es with [] => True | (bl, _, _, _) :: _ => bl = [] end.

Lemma pr_lel_len e r : length r <= length (pr_lel e r).
Proof.
  destruct e as [[[bl v] b] s]. cbn [pr_lel]. apply sfx_len. apply sfx_blank, sfx_const, sfx_blank, sfx_sep, sfx_refl.
Qed.
Lemma prl_lel_nonnil es k : k <> [] -> prl pr_lel es k <> [].
Proof.
  intros Hk. induction es as [|e es IH]; cbn [prl fold_right]; [exact Hk|]. fold (prl pr_lel es k).
  pose proof (pr_lel_len e (prl pr_lel es k)). destruct (prl pr_lel es k); [contradiction|].
  destruct (pr_lel e (b :: l)); [cbn in *; lia|discriminate].
Qed.

Lemma chain_clist es k : k <> [] -> lstopk k = true -> hd_ascii k = true -> chain pr_lel lelQ es k -> hdnil es ->
  prl pr_lel es k = pr_clist (to_clist es) k /\ wf_clist (to_clist es) = true /\ hd_ascii (prl pr_lel es k) = true.
Proof.
  intros Hk Hlk Hak. induction es as [|[[[bl v] b] s] es IH]; cbn [chain prl fold_right to_clist pr_clist hdnil]; intros Hc Hh.
  - split; [reflexivity|split; [reflexivity|exact Hak]].
  - subst bl. destruct Hc as [[[[[Hw Hnn] Hct] Hav] [_ [Kb [Hs [Hn _]]]]] Hc]. fold (prl pr_lel es k) in *.
    assert (Hh' : hdnil es).
    { destruct es as [|[[[bl' v'] b'] s'] es']; [exact I|]. cbn [chain] in Hc. destruct Hc as [[_ [_ [_ [_ [_ Hx]]]]] _].
      apply Hx. exact Hn. }
    destruct (IH Hc Hh') as [E [Wr Ar]]. pose proof (prl_lel_nonnil es k Hk) as Rn. rewrite E in *. cbn [pr_blank]. split; [reflexivity|].
    split; [|exact Hav]. cbn [wf_clist].
    rewrite (Hw (blank_ok_ascii _ _ Kb (sep_ascii s _ Ar))), (blank_ok_nonnil _ _ Kb (pr_sep_nonnil s _ Rn)).
    rewrite (wf_sep_of s _ Hs Rn). cbn [andb].
    rewrite (pr_clist_app (to_clist es) k) in Hct. rewrite (glue_of_cont v b s _ k Hlk Hct). cbn [andb]. exact Wr.
Qed.

(* map elements:  [blank] key [blank] : [blank] value [blank] [separator] *)
Definition mel : Type := (blank * cconst * blank * blank * cconst * blank * csep)%type.
Definition pr_mel (e : mel) (r : list byte) : list byte :=
  match e with (bl, key, b1, b2, v, b3, s) =>
    pr_blank bl (pr_const key (pr_blank b1 (txt ":" ++ pr_blank b2 (pr_const v (pr_blank b3 (pr_sep s r)))))) end.
Definition melQ (e : mel) (r : list byte) : Prop :=
  match e with (bl, key, b1, b2, v, b3, s) =>
    constP key (pr_blank b1 (txt ":" ++ pr_blank b2 (pr_const v (pr_blank b3 (pr_sep s r))))) /\
    blank_ok bl (pr_const key (pr_blank b1 (txt ":" ++ pr_blank b2 (pr_const v (pr_blank b3 (pr_sep s r)))))) /\
    constP v (pr_blank b3 (pr_sep s r)) /\ wf_blank b1 = true /\ blank_ok b2 (pr_const v (pr_blank b3 (pr_sep s r))) /\
    blank_ok b3 (pr_sep s r) /\ sep_ok s r /\ noblank r /\ (noblank (pr_mel e r) -> bl = [])
  end.
Fixpoint to_cmapl (es : list mel) : cmapl :=
  match es with [] => CMNil | (_, key, b1, b2, v, b3, s) :: es' => CMCons key b1 b2 v b3 s (to_cmapl es') end.
Definition hdnilm (es : list mel) : Prop := match es with [] => True | (bl, _, _, _, _, _, _) :: _ => bl = [] end.

Lemma pr_mel_len e r : length r <= length (pr_mel e r).
Proof.
  destruct e as [[[[[[bl key] b1] b2] v] b3] s]. cbn [pr_mel]. apply sfx_len.
  apply sfx_blank, sfx_const, sfx_blank, sfx_app_r, sfx_blank, sfx_const, sfx_blank, sfx_sep, sfx_refl.
Qed.
Lemma prl_mel_nonnil es k : k <> [] -> prl pr_mel es k <> [].
Proof.
  intros Hk. induction es as [|e es IH]; cbn [prl fold_right]; [exact Hk|]. fold (prl pr_mel es k).
  pose proof (pr_mel_len e (prl pr_mel es k)). destruct (prl pr_mel es k); [contradiction|].
  destruct (pr_mel e (b :: l)); [cbn in *; lia|discriminate].
Qed.

Lemma chain_cmapl es k : k <> [] -> lstopk k = true -> hd_ascii k = true -> chain pr_mel melQ es k -> hdnilm es ->
  prl pr_mel es k = pr_cmapl (to_cmapl es) k /\ wf_cmapl (to_cmapl es) = true /\ hd_ascii (prl pr_mel es k) = true.
Proof.
  intros Hk Hlk Hak. induction es as [|[[[[[[bl key] b1] b2] v] b3] s] es IH]; cbn [chain prl fold_right to_cmapl pr_cmapl hdnilm]; intros Hc Hh.
  - split; [reflexivity|split; [reflexivity|exact Hak]].
  - subst bl. destruct Hc as [[[[[Hwk _] _] Hak0] [_ [[[[Hwv Hnv] Hct] _] [W1 [K2 [K3 [Hs [Hn _]]]]]]]] Hc]. fold (prl pr_mel es k) in *.
    assert (Hh' : hdnilm es).
    { destruct es as [|[[[[[[bl' k'] b1'] b2'] v'] b3'] s'] es']; [exact I|]. cbn [chain] in Hc.
      destruct Hc as [[_ [_ [_ [_ [_ [_ [_ [_ Hx]]]]]]]] _]. apply Hx. exact Hn. }
    destruct (IH Hc Hh') as [E [Wr Ar]]. pose proof (prl_mel_nonnil es k Hk) as Rn. rewrite E in *. cbn [pr_blank]. split; [reflexivity|].
    split; [|exact Hak0]. cbn [wf_cmapl].
    assert (A1 : hd_ascii (pr_blank b1 (txt ":" ++ pr_blank b2 (pr_const v (pr_blank b3 (pr_sep s (pr_cmapl (to_cmapl es) k)))))) = true).
    { unfold hd_ascii. apply blank_then; [exact W1|exact bs_ascii|reflexivity]. }
    rewrite (Hwk A1), W1, (blank_ok_nonnil _ _ K2 Hnv), (Hwv (blank_ok_ascii _ _ K3 (sep_ascii s _ Ar))).
    rewrite (blank_ok_nonnil _ _ K3 (pr_sep_nonnil s _ Rn)).
    rewrite (wf_sep_of s _ Hs Rn). cbn [andb].
    rewrite (pr_cmapl_app (to_cmapl es) k) in Hct. rewrite (glue_of_cont v b3 s _ k Hlk Hct). cbn [andb]. exact Wr.
Qed.

Section Const.
Variable lf : nat.

Section Elems.
Variable cv : parser ConstValue.
Hypothesis Hcv : forall i r v, cv i = POk r v -> exists c, i = pr_const c r /\ erase_const c = v /\ constP c r.

Lemma elem_inv i r v : cv_elem lf cv i = POk r v -> exists e : lel, i = pr_lel e r /\ (fun e : lel => erase_const (snd (fst (fst e)))) e = v /\ lelQ e r.
Proof.
  unfold cv_elem. intros H. binv H. inversion H; subst.
  destruct (oblank_inv _ _ _ _ E) as [bl [Ei [Kl [_ Hnone]]]]. destruct (Hcv _ _ _ E0) as [c [-> [<- Pc]]].
  destruct (oblank_inv _ _ _ _ E1) as [b [-> [Kb [Nb _]]]]. destruct (osep_inv _ _ _ _ E2) as [s [-> Hs]].
  exists (bl, c, b, s). cbn [pr_lel lelQ fst snd]. repeat split; auto; try apply Pc.
  - apply (sep_ok_noblank s r Hs). intros ->. exact Nb.
  - intros Hn. rewrite <- Ei in Hn. destruct (noblank_oblank _ _ _ _ Hn E) as [_ ->]. auto.
Qed.

Lemma kv_inv i r kv : cv_kv lf cv i = POk r kv ->
  exists e : mel, i = pr_mel e r /\
    (fun e : mel => match e with (_, key, _, _, v, _, _) => (erase_const key, erase_const v) end) e = kv /\ melQ e r.
Proof.
  unfold cv_kv. intros H. binv H. inversion H; subst.
  destruct (oblank_inv _ _ _ _ E) as [bl [Ei [Kl [_ Hnone]]]]. destruct (Hcv _ _ _ E0) as [ck [-> [<- Pk]]].
  destruct (oblank_inv _ _ _ _ E1) as [b1 [-> [K1 _]]]. apply tag_inv in E2. destruct E2 as [-> _].
  destruct (oblank_inv _ _ _ _ E3) as [b2 [-> [K2 _]]]. destruct (Hcv _ _ _ E4) as [c [-> [<- Pc]]].
  destruct (oblank_inv _ _ _ _ E5) as [b3 [-> [K3 [N3 _]]]]. destruct (osep_inv _ _ _ _ E6) as [s [-> Hs]].
  exists (bl, ck, b1, b2, c, b3, s). cbn [pr_mel melQ]. change sym_cmap_colon with (txt ":") in *. repeat split; auto; try apply Pk; try apply Pc.
  - apply (blank_ok_nonnil _ _ K1). discriminate.
  - apply (sep_ok_noblank s r Hs). intros ->. exact N3.
  - intros Hn. rewrite <- Ei in Hn. destruct (noblank_oblank _ _ _ _ Hn E) as [_ ->]. auto.
Qed.

Lemma set_bl_nil (e : lel) r : lelQ e r -> match e with (bl, v, b, s) => lelQ ([], v, b, s) r end.
Proof. destruct e as [[[bl v] b] s]. cbn [lelQ pr_lel pr_blank]. intros [H1 [_ [H3 [H4 [H5 _]]]]]. repeat split; auto; try apply H1. left. reflexivity. Qed.

Lemma list_inv i r v : cv_list lf cv i = POk r v -> exists c, i = pr_const c r /\ erase_const c = v /\ constP c r.
Proof.
  unfold cv_list. intros H. binv H. inversion H; subst. apply tag_inv in E. destruct E as [-> _].
  apply (many0_inv (cv_elem lf cv) (fun e : lel => erase_const (snd (fst (fst e)))) pr_lel lelQ elem_inv) in E0.
  destruct E0 as [es [-> [<- [Hc Hp]]]]. apply tag_inv in E2. destruct E2 as [-> _].
  destruct (oblank_inv _ _ _ _ E1) as [bc [-> [Kc [Nc Hnone]]]].
  change (sym_clist_close ++ r) with (x5d :: r) in *.
  destruct es as [|[[[bl0 v0] b0] s0] es].
  - cbn [prl fold_right map]. exists (CCList bc CLNil). unfold constP. cbn [pr_const pr_clist erase_const erase_clist wf_const wf_clist].
    change sym_clist_open with (txt "["). change (txt "]" ++ r) with (x5d :: r). split; [reflexivity|]. split; [reflexivity|].
    split; [split; [split; [|discriminate]|reflexivity]|reflexivity].
    intros _. rewrite (blank_ok_nonnil _ _ Kc) by discriminate. reflexivity.
  - (* the closing blank slot is empty: the last element has read every blank *)
    assert (Ebc : bc = []).
    { assert (Hn : noblank (pr_blank bc (x5d :: r))).
      { clear - Hc. revert Hc. generalize (pr_blank bc (x5d :: r)) as k. generalize (bl0, v0, b0, s0) as e. induction es as [|e' es IH]; intros e k Hc.
        - cbn [chain prl fold_right] in Hc. destruct e as [[[? ?] ?] ?]. cbn [lelQ] in Hc. tauto.
        - cbn [chain] in Hc. destruct Hc as [_ Hc]. exact (IH e' k Hc). }
      destruct bc as [|at0 bc]; [reflexivity|exfalso].
      destruct Kc as [Kc|[Kc _]]; [|discriminate]. pose proof (noblank_pr_blank (at0 :: bc) (x5d :: r) Kc eq_refl Hn). discriminate. }
    subst bc. cbn [pr_blank] in *.
    cbn [chain] in Hc. destruct Hc as [Hq Hc]. pose proof (set_bl_nil _ _ Hq) as Hq0. cbn beta iota in Hq0.
    destruct (chain_clist (([], v0, b0, s0) :: es) (x5d :: r)) as [E [Wl _]]; [discriminate|reflexivity|reflexivity|cbn [chain]; split; [exact Hq0|exact Hc]|reflexivity|].
    cbn [prl fold_right pr_lel pr_blank to_clist pr_clist] in E. cbn [prl fold_right pr_lel].
    exists (CCList bl0 (to_clist ((bl0, v0, b0, s0) :: es))). unfold constP.
    cbn [pr_const erase_const wf_const to_clist pr_clist]. change sym_clist_open with (txt "["). change (txt "]" ++ r) with (x5d :: r).
    split; [f_equal; f_equal; exact E|]. split; [|split; [split; [split; [|discriminate]|reflexivity]|reflexivity]].
    + f_equal. clear. cbn [map erase_clist fst snd]. f_equal.
      induction es as [|[[[? ?] ?] ?] es IH]; cbn [map to_clist erase_clist fst snd]; [reflexivity|]. now rewrite IH.
    + intros _. cbn [to_clist] in Wl. rewrite Wl. destruct Hq as [[[[_ Hnn] _] _] [Kl _]]. rewrite (blank_ok_nonnil _ _ Kl Hnn). reflexivity.
Qed.

Lemma set_bl_nil_m (e : mel) r : melQ e r -> match e with (bl, key, b1, b2, v, b3, s) => melQ ([], key, b1, b2, v, b3, s) r end.
Proof.
  destruct e as [[[[[[bl key] b1] b2] v] b3] s]. cbn [melQ pr_mel pr_blank]. intros [H1 [_ [H2 [H3 [H4 [H5 [H6 [H7 _]]]]]]]]. repeat split; auto; try apply H1; try apply H2. left. reflexivity.
Qed.

Lemma map_inv i r v : cv_map lf cv i = POk r v -> exists c, i = pr_const c r /\ erase_const c = v /\ constP c r.
Proof.
  unfold cv_map. intros H. binv H. inversion H; subst. apply tag_inv in E. destruct E as [-> _].
  apply (many0_inv (cv_kv lf cv) (fun e : mel => match e with (_, key, _, _, v, _, _) => (erase_const key, erase_const v) end)
           pr_mel melQ kv_inv) in E0.
  destruct E0 as [es [-> [<- [Hc Hp]]]]. apply tag_inv in E2. destruct E2 as [-> _].
  destruct (oblank_inv _ _ _ _ E1) as [bc [-> [Kc [Nc Hnone]]]].
  change (sym_cmap_close ++ r) with (x7d :: r) in *.
  destruct es as [|[[[[[[bl0 k0] b10] b20] v0] b30] s0] es].
  - cbn [prl fold_right map]. exists (CCMap bc CMNil). unfold constP. cbn [pr_const pr_cmapl erase_const erase_cmapl wf_const wf_cmapl].
    change sym_cmap_open with (txt "{"). change (txt "}" ++ r) with (x7d :: r). split; [reflexivity|]. split; [reflexivity|].
    split; [split; [split; [|discriminate]|reflexivity]|reflexivity].
    intros _. rewrite (blank_ok_nonnil _ _ Kc) by discriminate. reflexivity.
  - assert (Ebc : bc = []).
    { assert (Hn : noblank (pr_blank bc (x7d :: r))).
      { clear - Hc. revert Hc. generalize (pr_blank bc (x7d :: r)) as k. generalize (bl0, k0, b10, b20, v0, b30, s0) as e.
        induction es as [|e' es IH]; intros e k Hc.
        - cbn [chain prl fold_right] in Hc. destruct e as [[[[[[? ?] ?] ?] ?] ?] ?]. cbn [melQ] in Hc. tauto.
        - cbn [chain] in Hc. destruct Hc as [_ Hc]. exact (IH e' k Hc). }
      destruct bc as [|at0 bc]; [reflexivity|exfalso].
      destruct Kc as [Kc|[Kc _]]; [|discriminate]. pose proof (noblank_pr_blank (at0 :: bc) (x7d :: r) Kc eq_refl Hn). discriminate. }
    subst bc. cbn [pr_blank] in *.
    cbn [chain] in Hc. destruct Hc as [Hq Hc]. pose proof (set_bl_nil_m _ _ Hq) as Hq0. cbn beta iota in Hq0.
    destruct (chain_cmapl (([], k0, b10, b20, v0, b30, s0) :: es) (x7d :: r)) as [E [Wl _]]; [discriminate|reflexivity|reflexivity|cbn [chain]; split; [exact Hq0|exact Hc]|reflexivity|].
    cbn [prl fold_right pr_mel pr_blank to_cmapl pr_cmapl] in E. cbn [prl fold_right pr_mel].
    exists (CCMap bl0 (to_cmapl ((bl0, k0, b10, b20, v0, b30, s0) :: es))). unfold constP.
    cbn [pr_const erase_const wf_const to_cmapl pr_cmapl]. change sym_cmap_open with (txt "{"). change (txt "}" ++ r) with (x7d :: r).
    split; [f_equal; f_equal; exact E|]. split; [|split; [split; [split; [|discriminate]|reflexivity]|reflexivity]].
    + f_equal. clear. cbn [map erase_cmapl]. f_equal.
      induction es as [|[[[[[[? ?] ?] ?] ?] ?] ?] es IH]; cbn [map to_cmapl erase_cmapl]; [reflexivity|]. now rewrite IH.
    + intros _. cbn [to_cmapl] in Wl. rewrite Wl. destruct Hq as [[[[_ Hnn] _] _] [Kl _]]. rewrite (blank_ok_nonnil _ _ Kl Hnn). reflexivity.
Qed.

End Elems.

(* [-] digits followed by '.' or by an exponent: the double alternative does not answer Error *)
Lemma dbl_err_inner i : is_perr (p_double_constant lf i) -> is_perr (dbl_inner lf i).
Proof.
  rewrite p_dbl_eq. unfold map_res, recognize. destruct (dbl_inner lf i); cbn; auto.
Qed.

Lemma opt_digit1_ok i : exists r o, opt digit1 i = POk r o.
Proof.
  unfold opt, digit1, span1. destruct (span is_digit i) as [p r]. destruct (is_nil p); eauto.
Qed.

Lemma int_dbl_nperr c r : wf_int c = true -> int_stops c r = true -> int_not_double c r = false ->
  nperr (p_double_constant lf (pr_int c r)).
Proof.
  intros Hw Hst Hnd C. apply dbl_err_inner in C. destruct c as [n hex ds]. unfold wf_int, int_stops, int_not_double, pr_int in *.
  cbn [ci_minus ci_hex ci_digits] in *. destruct hex; [discriminate|]. cbn [orb app] in *.
  apply orb_false_elim in Hnd. destruct Hnd as [Hn Hnd]. apply Nat.leb_gt in Hn. apply negb_false_iff in Hnd.
  bsplit Hw. apply andb_prop in Hst. destruct Hst as [Hst _]. apply negb_true_iff in Hst.
  assert (Hne : ds <> []) by (intros ->; discriminate Hw).
  assert (Ed : digit1 (ds ++ r) = POk r ds) by (apply digit1_ok; auto; now apply hd_is_sat).
  (* the three alternatives on ds ++ r *)
  assert (A : nperr (alt (dbl_alts lf) (ds ++ r))).
  { unfold dbl_alts. destruct r as [|b r']; [discriminate|]. cbn [hd_is] in Hnd. destruct (Byte.eqb b x2e) eqn:Eb.
    - apply byte_dec_bl in Eb. subst b. cbn [alt]. unfold dbl_a at 1. rewrite Ed. cbn [pbind].
      change sym_dbl_dot_a with [x2e]. change (x2e :: r') with ([x2e] ++ r'). rewrite tag_ok. cbn [pbind].
      destruct (opt_digit1_ok r') as [r2 [o ->]]. cbn [pbind].
      unfold opt. destruct (p_exponent lf sym_dbl_exp_a r2); cbn [pbind]; intros K; exact K.
    - cbn [orb] in Hnd. cbn [alt].
      assert (Ta : is_perr (tag [x2e] (b :: r'))) by (apply tag_hd_ne; exact Eb).
      unfold dbl_a at 1. rewrite Ed. cbn [pbind]. change sym_dbl_dot_a with [x2e].
      destruct (tag [x2e] (b :: r')) eqn:ET; cbn in Ta; try contradiction. cbn [pbind].
      unfold dbl_b at 1. rewrite (opt_ok digit1 _ _ _ Ed). cbn [pbind]. change sym_dbl_dot_b with [x2e]. rewrite ET. cbn [pbind].
      unfold dbl_c. rewrite Ed. cbn [pbind].
      exact (exp_starts_nperr lf sym_dbl_exp_c (b :: r') eq_refl Hnd). }
  assert (Hd0 : exists d ds', ds = d :: ds' /\ is_digit d = true).
  { destruct ds as [|d ds']; [contradiction|]. exists d, ds'. split; [reflexivity|]. cbn [forallb] in W0. now apply andb_prop in W0. }
  destruct Hd0 as [d [ds' [Eds Hd]]].
  assert (Tm : is_perr (tag sym_dbl_minus (ds ++ r))).
  { rewrite Eds. cbn [app]. apply tag_hd_ne. revert Hd. clear. destruct d; vm_compute; intro H; try reflexivity; discriminate H. }
  assert (Tp : is_perr (tag sym_dbl_plus (ds ++ r))).
  { rewrite Eds. cbn [app]. apply tag_hd_ne. revert Hd. clear. destruct d; vm_compute; intro H; try reflexivity; discriminate H. }
  unfold dbl_inner in C. destruct n as [|[|n]]; [| |lia]; cbn [minus_run] in C.
  - rewrite (opt_err _ _ Tm) in C. cbn [pbind] in C. rewrite (opt_err _ _ Tp) in C. cbn [pbind] in C. exact (A C).
  - change (x2d :: ds ++ r) with (sym_dbl_minus ++ ds ++ r) in C. rewrite (opt_ok _ _ _ _ (tag_ok sym_dbl_minus _)) in C. cbn [pbind] in C.
    rewrite (opt_err _ _ Tp) in C. cbn [pbind] in C. exact (A C).
Qed.

Lemma nid_wordch r : nid r = true -> hd_is wordch r = false.
Proof. intros H. apply hd_sat_is. exact H. Qed.

Theorem const_inv : forall d i r v, p_const_value lf d i = POk r v -> exists c, i = pr_const c r /\ erase_const c = v /\ constP c r.
Proof.
  induction d as [|d IH]; intros i r v H; [discriminate|]. rewrite p_cv_eq in H.
  apply alt_cons_inv in H. destruct H as [H|[_ H]]; [|apply alt_cons_inv in H; destruct H as [H|[Htrue H]];
    [|apply alt_cons_inv in H; destruct H as [H|[Hfalse H]]; [|apply alt_cons_inv in H; destruct H as [H|[_ H]];
    [|apply alt_cons_inv in H; destruct H as [H|[Hdbl H]]; [|apply alt_cons_inv in H; destruct H as [H|[_ H]];
    [|apply alt_cons_inv in H; destruct H as [H|[_ H]]; [|apply alt_one_inv in H]]]]]]].
  - (* literal *)
    unfold cv_str in H. apply pmap_ok in H. destruct H as [s [H ->]]. destruct (literal_inv _ _ _ _ H) as [l [-> [<- Wl]]].
    exists (CCLit l). unfold constP. cbn [pr_const erase_const wf_const cont_ok]. repeat split; auto; [unfold pr_lit; discriminate|].
    destruct l as [[|] body]; reflexivity.
  - unfold cv_true in H. binv H. inversion H; subst. destruct (keyword_inv _ _ _ _ E) as [-> Hk].
    exists (CCBool true). unfold constP. cbn [pr_const erase_const wf_const cont_ok]. repeat split; auto; [discriminate|].
    now rewrite (nid_wordch _ (kwend_nid _ Hk)).
  - unfold cv_false in H. binv H. inversion H; subst. destruct (keyword_inv _ _ _ _ E) as [-> Hk].
    exists (CCBool false). unfold constP. cbn [pr_const erase_const wf_const cont_ok]. repeat split; auto; [discriminate|].
    now rewrite (nid_wordch _ (kwend_nid _ Hk)).
  - unfold cv_path in H. apply pmap_ok in H. destruct H as [l [H ->]]. destruct (path_inv _ _ _ _ H) as [p [-> [<- [Wp [_ Hnr]]]]].
    exists (CCPath p). unfold constP. cbn [pr_const erase_const wf_const cont_ok]. repeat split; auto.
    + intros Ha. rewrite Wp. cbn [andb]. apply negb_true_iff.
      destruct (bytes_in (cp_head p) [txt "true"; txt "false"]) eqn:Eb; [|reflexivity]. exfalso.
      pose proof Wp as Wp'. unfold wf_path in Wp'. apply andb_prop in Wp'. destruct Wp' as [_ Wt].
      assert (G : forall kw (q : parser ConstValue), (forall j, is_perr (q j) -> is_perr (p_keyword kw j)) -> bytes_eq (cp_head p) kw = true ->
                  is_perr (q (pr_path p r)) -> False).
      { intros kw q Hq Ek Hb. apply bytes_eq_eq in Ek. apply Hq in Hb. unfold pr_path in Hb. rewrite Ek in Hb.
        exact (keyword_path_ascii kw (cp_tail p) r Wt Ha Hnr Hb). }
      cbn [bytes_in] in Eb. apply orb_prop in Eb. destruct Eb as [Eb|Eb].
      * apply (G kw_true cv_true); auto. intros j. unfold cv_true. destruct (p_keyword kw_true j); cbn; auto.
      * apply orb_prop in Eb. destruct Eb as [Eb|Eb]; [|discriminate].
        apply (G kw_false cv_false); auto. intros j. unfold cv_false. destruct (p_keyword kw_false j); cbn; auto.
    + unfold pr_path. unfold wf_path in Wp. apply andb_prop in Wp. destruct Wp as [Wh _].
      destruct (cp_head p); [discriminate Wh|cbn [app]; discriminate].
    + now rewrite (nid_wordch _ Hnr).
    + unfold pr_path. unfold wf_path in Wp. apply andb_prop in Wp. destruct Wp as [Wh _]. now apply ident_ascii.
  - unfold cv_dbl in H. apply pmap_ok in H. destruct H as [s [H ->]]. destruct (dbl_inv _ _ _ _ H) as [dd [-> [<- [Wd Sd]]]].
    exists (CCDbl dd). unfold constP. cbn [pr_const erase_const wf_const cont_ok]. repeat split; auto.
    + pose proof (len_const (CCDbl dd) r Wd) as L. cbn [pr_const] in L. intros E. rewrite E in L. cbn in L. lia.
    + apply dbl_head; auto using digit_ascii.
  - unfold cv_int in H. apply pmap_ok in H. destruct H as [z [H ->]]. destruct (int_inv _ _ _ _ H) as [ci [-> [<- [Wi [_ Si]]]]].
    exists (CCInt ci). unfold constP. cbn [pr_const erase_const wf_const cont_ok]. repeat split; auto; [| |apply int_head; auto using digit_ascii].
    + pose proof (len_const (CCInt ci) r Wi) as L. cbn [pr_const] in L. intros E. rewrite E in L. cbn in L. lia.
    + rewrite Si. cbn [andb]. destruct (int_not_double ci r) eqn:En; [reflexivity|]. exfalso.
      unfold cv_dbl in Hdbl. apply (int_dbl_nperr ci r Wi Si En). unfold pmap in Hdbl.
      destruct (p_double_constant lf (pr_int ci r)); cbn in Hdbl |- *; auto.
  - exact (list_inv (p_const_value lf d) IH _ _ _ H).
  - exact (map_inv (p_const_value lf d) IH _ _ _ H).
Qed.

End Const.
