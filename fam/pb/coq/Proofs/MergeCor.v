(* C18, corollaries of the left-fold shape (decode_concat): what ONE more record does to a decoded value.
   singular / optional scalars: the last occurrence wins; repeated: appended in order (unpacked and packed);
   oneof: a later member replaces whatever member was set; map: AHashMap::insert (an equal key keeps its slot
   and gets the new value); embedded messages: merged into the existing sub-message, field-wise. *)
From PVPb Require Import Msg Proofs.BitsP Proofs.VarintP Proofs.WireP Proofs.CastP Proofs.CodecP Proofs.TotalP Proofs.DepthP Proofs.MergeP.
From Coq Require Import ZifyN ZifyNat ZifyBool.
Open Scope Z_scope.

(* the field of the struct that a field number addresses, its current value, and how to put a new value back
   (mirrors the `match tag { .. }` of the generated merge_field) *)
Fixpoint locate (fs : list field) (xs : list val) (tag : Z) : option (field * val * (val -> list val)) :=
  match fs, xs with
  | f :: fs', x :: xs' =>
      if existsb (Z.eqb tag) (field_tags f) then Some (f, x, fun x' => x' :: xs')
      else match locate fs' xs' tag with
           | Some (f', x0, k) => Some (f', x0, fun x' => x :: k x')
           | None => None
           end
  | _, _ => None
  end.

Lemma merge_in_fields_located rec dflt tag wt ctx s : forall fs xs f x k, locate fs xs tag = Some (f, x, k) ->
  merge_in_fields rec dflt fs xs tag wt ctx s = (let+ x' := merge_fieldval rec dflt f x tag wt ctx in ret (k x')) s.
Proof.
  induction fs as [|f0 fs IH]; intros xs f x k H; cbn [locate] in H; [discriminate|].
  destruct xs as [|x0 xs]; [discriminate|]. cbn [merge_in_fields].
  destruct (existsb (Z.eqb tag) (field_tags f0)).
  - inversion H; subst. reflexivity.
  - destruct (locate fs xs tag) as [[[f' x1] k']|] eqn:E; [|discriminate]. inversion H; subst.
    unfold bind at 1. rewrite (IH _ _ _ _ E). unfold bind. destruct (merge_fieldval rec dflt f x tag wt ctx s); reflexivity.
Qed.

Lemma bind_bind_ok {A B C} (m : M A) (g : A -> M B) (f : B -> M C) s a s' :
  m s = OOk a s' -> bind (bind m g) f s = bind (g a) f s'.
Proof. unfold bind. intros ->. reflexivity. Qed.

Definition inner_depth : nat := Z.to_nat recursion_limit.

Lemma merge_field_located (sc : schema) i (fs : msgdesc) xs t wt f x k s :
  nth_error sc i = Some fs -> locate fs xs t = Some (f, x, k) ->
  merge_field depth_fuel sc i (VL NMsg xs) t wt ctx_default s
  = (let+ x' := merge_fieldval (merge_field inner_depth sc) (default_ty inner_depth sc) f x t wt ctx_default in ret (VL NMsg (k x'))) s.
Proof.
  intros Hn Hl. unfold depth_fuel. cbn [merge_field]. rewrite Hn. unfold bind at 1.
  rewrite (merge_in_fields_located _ _ _ _ _ _ _ _ _ _ _ Hl). unfold bind, inner_depth.
  destruct (merge_fieldval _ _ f x t wt ctx_default s); reflexivity.
Qed.

Lemma msg_merge_nil sc i x a : msg_merge sc i x (mkR [] a) = OOk x (mkR [] a).
Proof. reflexivity. Qed.

(* one more record R (non-empty, consumed exactly by the body) after a successful decode of e1 *)
Lemma decode_then_record sc i e1 a xs s1 R x' a' : R <> [] ->
  msg_decode sc i (mkR e1 a) = OOk (VL NMsg xs) s1 ->
  top_body sc i (VL NMsg xs) (mkR (R ++ []) (ra s1)) = OOk x' (mkR [] a') ->
  msg_decode sc i (mkR (e1 ++ R) a) = OOk x' (mkR [] a').
Proof.
  intros Hne H1 H2. rewrite (decode_concat sc i e1 R a _ s1 H1).
  rewrite <- (app_nil_r R) at 1. rewrite (msg_merge_step sc i _ R [] _ _ _ Hne H2). apply msg_merge_nil.
Qed.

Lemma encode_scalar_nonempty m t v : encode_scalar m t v <> [].
Proof. unfold encode_scalar. intros H. apply app_eq_nil in H. destruct H as [H _]. exact (encode_key_nonempty _ _ H). Qed.

Section OneRecord.
  Variable sc : schema.
  Variable i : nat.
  Variable fs : msgdesc.
  Hypothesis Hnth : nth_error sc i = Some fs.
  Variables (e1 : list byte) (a : Z) (xs : list val) (s1 : rd).
  Hypothesis Hdec : msg_decode sc i (mkR e1 a) = OOk (VL NMsg xs) s1.

  (* ---------------------------------------------------------------- singular / optional scalar: last wins *)
  Theorem last_wins_singular t t' p m v k xold :
    locate fs xs t = Some (FSingular t' (TScalar p), xold, k) -> scalar_module p = Some m -> scalar_mod m = true ->
    tag_ok t -> mod_value_okb m v = true ->
    msg_decode sc i (mkR (e1 ++ encode_scalar m t v) a) = OOk (VL NMsg (k v)) (mkR [] (ra s1 + payload_cost m v)).
  Proof.
    intros Hl Hm Hs Ht Hv. apply (decode_then_record sc i e1 a xs s1 _ _ _ (encode_scalar_nonempty m t v) Hdec).
    unfold top_body, encode_scalar. rewrite <- !app_assoc.
    rewrite (bind_ok _ _ _ _ _ (decode_key_rt t (mod_wire_type m) _ _ Ht)).
    rewrite (merge_field_located sc i fs xs t _ _ _ _ _ Hnth Hl). cbn [merge_fieldval merge_ty]. rewrite Hm.
    rewrite (bind_ok _ _ _ _ _ (payload_rt m v [] _ Hs Hv)). reflexivity.
  Qed.

  Theorem last_wins_optional t t' p m v k xold :
    locate fs xs t = Some (FOptional t' (TScalar p), xold, k) -> scalar_module p = Some m -> scalar_mod m = true ->
    tag_ok t -> mod_value_okb m v = true ->
    msg_decode sc i (mkR (e1 ++ encode_scalar m t v) a) = OOk (VL NMsg (k (VL NSome [v]))) (mkR [] (ra s1 + payload_cost m v)).
  Proof.
    intros Hl Hm Hs Ht Hv. apply (decode_then_record sc i e1 a xs s1 _ _ _ (encode_scalar_nonempty m t v) Hdec).
    unfold top_body, encode_scalar. rewrite <- !app_assoc.
    rewrite (bind_ok _ _ _ _ _ (decode_key_rt t (mod_wire_type m) _ _ Ht)).
    rewrite (merge_field_located sc i fs xs t _ _ _ _ _ Hnth Hl). cbn [merge_fieldval merge_ty]. rewrite Hm.
    rewrite (bind_bind_ok _ _ _ _ _ _ (payload_rt m v [] _ Hs Hv)). reflexivity.
  Qed.

  (* ---------------------------------------------------------------- repeated: accumulate in order *)
  Theorem repeated_order t t' p m v k vs :
    locate fs xs t = Some (FRepeated t' (TScalar p), VL NRep vs, k) -> scalar_module p = Some m -> scalar_mod m = true ->
    tag_ok t -> mod_value_okb m v = true ->
    msg_decode sc i (mkR (e1 ++ encode_scalar m t v) a)
    = OOk (VL NMsg (k (VL NRep (vs ++ [v])))) (mkR [] (ra s1 + payload_cost m v + 1)).
  Proof.
    intros Hl Hm Hs Ht Hv. apply (decode_then_record sc i e1 a xs s1 _ _ _ (encode_scalar_nonempty m t v) Hdec).
    unfold top_body, encode_scalar. rewrite <- !app_assoc.
    rewrite (bind_ok _ _ _ _ _ (decode_key_rt t (mod_wire_type m) _ _ Ht)).
    rewrite (merge_field_located sc i fs xs t _ _ _ _ _ Hnth Hl). cbn [merge_fieldval merge_rep]. rewrite Hm.
    rewrite (bind_bind_ok _ _ _ _ _ _ (merge_repeated_one m _ v vs [] _ _ Hs Hv eq_refl eq_refl)). reflexivity.
  Qed.

  Theorem repeated_order_packed t t' p m vs' k vs :
    locate fs xs t = Some (FRepeated t' (TScalar p), VL NRep vs, k) -> scalar_module p = Some m -> numeric_mod m = true ->
    tag_ok t -> vs' <> [] -> Forall (fun v => mod_value_okb m v = true) vs' -> zlen (flat_map (payload m) vs') < two64 ->
    msg_decode sc i (mkR (e1 ++ encode_packed m t vs') a)
    = OOk (VL NMsg (k (VL NRep (vs ++ vs')))) (mkR [] (ra s1 + Z.of_nat (length vs'))).
  Proof.
    intros Hl Hm Hn Ht Hne Hg Hz.
    pose proof (packed_rt m t vs' vs [] (ra s1) Hn Ht Hne Hg Hz) as P.
    assert (Hnonempty : encode_packed m t vs' <> []).
    { unfold encode_packed. destruct vs'; [congruence|]. intros H. apply app_eq_nil in H. destruct H as [H _]. exact (encode_key_nonempty _ _ H). }
    apply (decode_then_record sc i e1 a xs s1 _ _ _ Hnonempty Hdec).
    unfold top_body. unfold encode_packed in *. destruct vs' as [|v0 vs0]; [congruence|].
    rewrite <- !app_assoc in P. rewrite (bind_ok _ _ _ _ _ (decode_key_rt t LengthDelimited _ _ Ht)) in P. cbn [snd] in P.
    rewrite <- !app_assoc. rewrite (bind_ok _ _ _ _ _ (decode_key_rt t LengthDelimited _ _ Ht)).
    rewrite (merge_field_located sc i fs xs t _ _ _ _ _ Hnth Hl). cbn [merge_fieldval merge_rep]. rewrite Hm.
    rewrite (bind_bind_ok _ _ _ _ _ _ P). reflexivity.
  Qed.

  (* ---------------------------------------------------------------- oneof: a later member replaces an earlier one *)
  Theorem oneof_replace t ms idx p m v k cur :
    locate fs xs t = Some (FOneof ms, cur, k) -> find_member ms t 0 = Some (idx, TScalar p) ->
    scalar_module p = Some m -> scalar_mod m = true -> tag_ok t -> mod_value_okb m v = true ->
    msg_decode sc i (mkR (e1 ++ encode_scalar m t v) a)
    = OOk (VL NMsg (k (VL (NOne idx) [v]))) (mkR [] (ra s1 + payload_cost m v)).
  Proof.
    intros Hl Hf Hm Hs Ht Hv. apply (decode_then_record sc i e1 a xs s1 _ _ _ (encode_scalar_nonempty m t v) Hdec).
    unfold top_body, encode_scalar. rewrite <- !app_assoc.
    rewrite (bind_ok _ _ _ _ _ (decode_key_rt t (mod_wire_type m) _ _ Ht)).
    rewrite (merge_field_located sc i fs xs t _ _ _ _ _ Hnth Hl). cbn [merge_fieldval]. unfold merge_oneof. rewrite Hf.
    cbn [merge_ty]. rewrite Hm.
    rewrite (bind_bind_ok _ _ _ _ _ _ (payload_rt m v [] _ Hs Hv)). reflexivity.
  Qed.
End OneRecord.

(* ------------------------------------------------------------------ maps *)
Definition map_entry_bytes (mk mv : codec_module) (kv vv : val) : list byte :=
  encode_scalar mk 1 kv ++ encode_scalar mv 2 vv.
Definition map_record (t : Z) (mk mv : codec_module) (kv vv : val) : list byte :=
  encode_key t LengthDelimited ++ encode_varint (zlen (map_entry_bytes mk mv kv vv)) ++ map_entry_bytes mk mv kv vv.

Lemma tag_ok_1 : tag_ok 1.
Proof. unfold tag_ok. vm_compute. split; congruence. Qed.

Lemma ctx_default_pos : 1 <= ctx_default.
Proof. vm_compute. congruence. Qed.

(* hash_map::merge on one entry with key and value present: (key, value), both payload costs *)
Lemma map_entry_merge_rt rec kp vp mk mv kd vd kv vv r a :
  scalar_module kp = Some mk -> scalar_module vp = Some mv -> scalar_mod mk = true -> scalar_mod mv = true ->
  mod_value_okb mk kv = true -> mod_value_okb mv vv = true -> zlen (map_entry_bytes mk mv kv vv) < two64 ->
  map_entry_merge (fun wt x c => merge_ty rec (TScalar kp) wt x c) (fun wt x c => merge_ty rec (TScalar vp) wt x c) kd vd ctx_default
    (mkR (encode_varint (zlen (map_entry_bytes mk mv kv vv)) ++ map_entry_bytes mk mv kv vv ++ r) a)
  = OOk (kv, vv) (mkR r (a + payload_cost mk kv + payload_cost mv vv)).
Proof.
  intros Hk Hv Hsk Hsv Hok Hov Hz. unfold map_entry_merge.
  pose proof ctx_default_pos as Hp.
  rewrite (bind_ok _ _ _ _ _ (limit_ok ctx_default _ ltac:(lia))).
  rewrite (bind_ok _ _ _ _ _ (enter_ok ctx_default _ Hp)).
  set (body := fun kv0 : val * val => _).
  pose (enc := fun x : bool * val => if fst x then encode_scalar mk 1 (snd x) else encode_scalar mv 2 (snd x)).
  pose (step := fun (kv0 : val * val) (x : bool * val) => if fst x then (snd x, snd kv0) else (fst kv0, snd x)).
  pose (cost := fun x : bool * val => if fst x then payload_cost mk (snd x) else payload_cost mv (snd x)).
  pose (good := fun x : bool * val => mod_value_okb (if fst x then mk else mv) (snd x) = true).
  assert (Hbody : forall t x rest a0, good x -> body t (mkR (enc x ++ rest) a0) = OOk (step t x) (mkR rest (a0 + cost x))).
  { intros [k0 v0] [[|] y] rest a0 Hg; unfold good, enc, step, cost, body in *; cbn [fst snd] in *; unfold encode_scalar; rewrite <- !app_assoc.
    - rewrite (bind_ok _ _ _ _ _ (decode_key_rt 1 (mod_wire_type mk) _ a0 tag_ok_1)). change (1 =? 1) with true. cbv iota.
      cbn [merge_ty]. rewrite Hk. rewrite (bind_ok _ _ _ _ _ (payload_rt mk y rest a0 Hsk Hg)). reflexivity.
    - rewrite (bind_ok _ _ _ _ _ (decode_key_rt 2 (mod_wire_type mv) _ a0 tag_ok_2)). change (2 =? 1) with false. change (2 =? 2) with true. cbv iota.
      cbn [merge_ty]. rewrite Hv. rewrite (bind_ok _ _ _ _ _ (payload_rt mv y rest a0 Hsv Hg)). reflexivity. }
  assert (Hne : forall x, good x -> (1 <= length (enc x))%nat).
  { intros [[|] y] _; unfold enc; cbn [fst snd];
      match goal with |- (1 <= length (encode_scalar ?m ?t ?y))%nat =>
        pose proof (encode_scalar_nonempty m t y); destruct (encode_scalar m t y); [congruence|cbn [length]; lia] end. }
  pose proof (merge_loop_exact body enc step cost good Hbody Hne [(true, kv); (false, vv)] (kd, vd) r a) as L.
  assert (Hflat : flat_map enc [(true, kv); (false, vv)] = map_entry_bytes mk mv kv vv)
    by (cbn [flat_map]; unfold enc; cbn [fst snd]; rewrite app_nil_r; reflexivity).
  rewrite Hflat in L. rewrite L.
  - cbn [fold_left map sumZ fold_right]. unfold step, cost. cbn [fst snd]. f_equal. f_equal. lia.
  - repeat constructor; unfold good; cbn [fst snd]; assumption.
  - exact Hz.
Qed.

Theorem map_replace (sc : schema) i (fs : msgdesc) e1 a xs s1 t t' kp vp mk mv kv vv k es :
  nth_error sc i = Some fs -> msg_decode sc i (mkR e1 a) = OOk (VL NMsg xs) s1 ->
  locate fs xs t = Some (FMap t' kp (TScalar vp), VL NMap es, k) ->
  scalar_module kp = Some mk -> scalar_module vp = Some mv -> scalar_mod mk = true -> scalar_mod mv = true ->
  tag_ok t -> mod_value_okb mk kv = true -> mod_value_okb mv vv = true -> zlen (map_entry_bytes mk mv kv vv) < two64 ->
  msg_decode sc i (mkR (e1 ++ map_record t mk mv kv vv) a)
  = OOk (VL NMsg (k (VL NMap (map_insert kv vv es)))) (mkR [] (ra s1 + payload_cost mk kv + payload_cost mv vv + 1)).
Proof.
  intros Hnth Hdec Hl Hk Hv Hsk Hsv Ht Hok Hov Hz.
  assert (Hne : map_record t mk mv kv vv <> []).
  { unfold map_record. intros H. apply app_eq_nil in H. destruct H as [H _]. exact (encode_key_nonempty _ _ H). }
  apply (decode_then_record sc i e1 a xs s1 _ _ _ Hne Hdec).
  unfold top_body, map_record. rewrite <- !app_assoc.
  rewrite (bind_ok _ _ _ _ _ (decode_key_rt t LengthDelimited _ _ Ht)).
  rewrite (merge_field_located sc i fs xs t _ _ _ _ _ Hnth Hl). cbn [merge_fieldval]. unfold merge_map.
  pose proof (map_entry_merge_rt (merge_field inner_depth sc) kp vp mk mv (default_ty inner_depth sc (TScalar kp))
                (default_ty inner_depth sc (TScalar vp)) kv vv [] (ra s1) Hk Hv Hsk Hsv Hok Hov Hz) as E.
  match goal with |- bind (bind (bind ?m0 ?g1) ?g2) ?K ?s0 = _ =>
    assert (E2 : bind m0 g1 s0 = OOk (map_insert kv vv es) (mkR [] (ra s1 + payload_cost mk kv + payload_cost mv vv + 1)))
      by (rewrite (bind_ok _ _ _ _ _ E); reflexivity)
  end.
  rewrite (bind_bind_ok _ _ _ _ _ _ E2). reflexivity.
Qed.

(* AHashMap::insert as modelled: an equal key keeps its slot and gets the new value; otherwise appended *)
Fixpoint map_lookup (k : val) (es : list val) : option val :=
  match es with
  | [] => None
  | VL NPair [k'; v'] :: more => if key_eqb k' k then Some v' else map_lookup k more
  | _ :: more => map_lookup k more
  end.

Lemma map_insert_lookup k v : key_eqb k k = true -> forall es, map_lookup k (map_insert k v es) = Some v.
Proof.
  intros Hr. induction es as [|e es IH]; cbn [map_insert map_lookup]; [rewrite Hr; reflexivity|].
  destruct e as [z|l|kd l]; cbn [map_lookup]; try exact IH.
  destruct kd; cbn [map_lookup]; try exact IH.
  destruct l as [|k' [|v' [|x l]]]; cbn [map_lookup]; try exact IH.
  destruct (key_eqb k' k) eqn:E; cbn [map_lookup]; rewrite E; [reflexivity|exact IH].
Qed.

Lemma map_insert_present_length k v : forall es, map_lookup k es <> None -> length (map_insert k v es) = length es.
Proof.
  induction es as [|e es IH]; cbn [map_insert map_lookup]; [congruence|]. intros H.
  destruct e as [z|l|kd l]; cbn [length]; try (f_equal; apply IH; exact H).
  destruct kd; cbn [length]; try (f_equal; apply IH; exact H).
  destruct l as [|k' [|v' [|x l]]]; cbn [length]; try (f_equal; apply IH; exact H).
  destruct (key_eqb k' k); cbn [length]; [reflexivity|f_equal; apply IH; exact H].
Qed.

(* ------------------------------------------------------------------ embedded messages merge field-wise *)
(* merge_loop over a body whose records merge successfully on their own *)
Lemma merge_loop_of_run {T} (body : T -> M T) v b a v' s' r :
  (forall v, framed (body v)) -> zlen b < two64 ->
  while_remaining (S (length b)) 0 body v (mkR b a) = OOk v' s' ->
  merge_loop body v (mkR (encode_varint (zlen b) ++ b ++ r) a) = OOk v' (mkR r (ra s')).
Proof.
  intros Hfr Hz H. pose proof (zlen_nonneg b). pose proof (while_remaining_done _ _ _ _ _ _ H) as Hnil.
  rewrite (rd_eta s') in H. rewrite Hnil in H.
  unfold merge_loop. rewrite (bind_ok _ _ _ _ _ (decode_varint_rt (zlen b) _ a ltac:(lia))).
  rewrite (bind_ok _ _ _ _ _ (remaining_eq _)). cbn [rb]. rewrite app_length.
  replace (Z.of_nat (length b + length r) <? zlen b) with false by (unfold zlen; lia).
  replace (length b + length r - Z.to_nat (zlen b))%nat with (0 + length r)%nat by (unfold zlen; lia).
  unfold while_rem. unfold bind at 1. unfold bind at 1. rewrite remaining_eq. cbn [rb]. rewrite app_length.
  rewrite (while_remaining_frame body Hfr _ _ _ _ _ _ _ _ r (S (length b + length r)) H ltac:(lia)).
  cbn [app]. unfold bind. rewrite remaining_eq. cbn [rb]. rewrite Nat.eqb_refl. reflexivity.
Qed.

Definition embedded_record (t : Z) (b : list byte) : list byte :=
  encode_key t LengthDelimited ++ encode_varint (zlen b) ++ b.

(* the records of an embedded message body, merged at the inner budget into a start value *)
Definition inner_run (sc : schema) (j : nat) (y : val) (b : list byte) (a : Z) : out val :=
  while_remaining (S (length b)) 0
    (fun msg => let+ (tag, fwt) := decode_key in merge_field inner_depth sc j msg tag fwt (ctx_default - 1)) y (mkR b a).

Theorem embedded_merge (sc : schema) i (fs : msgdesc) e1 a xs s1 t t' j k y b y' s' :
  nth_error sc i = Some fs -> msg_decode sc i (mkR e1 a) = OOk (VL NMsg xs) s1 ->
  locate fs xs t = Some (FOptional t' (TMsg j), VL NSome [y], k) -> tag_ok t -> zlen b < two64 ->
  inner_run sc j y b (ra s1) = OOk y' s' ->
  msg_decode sc i (mkR (e1 ++ embedded_record t b) a) = OOk (VL NMsg (k (VL NSome [y']))) (mkR [] (ra s')).
Proof.
  intros Hnth Hdec Hl Ht Hz Hrun.
  assert (Hne : embedded_record t b <> []).
  { unfold embedded_record. intros H. apply app_eq_nil in H. destruct H as [H _]. exact (encode_key_nonempty _ _ H). }
  apply (decode_then_record sc i e1 a xs s1 _ _ _ Hne Hdec).
  unfold top_body, embedded_record. rewrite <- !app_assoc.
  rewrite (bind_ok _ _ _ _ _ (decode_key_rt t LengthDelimited _ _ Ht)).
  rewrite (merge_field_located sc i fs xs t _ _ _ _ _ Hnth Hl). cbn [merge_fieldval merge_ty]. unfold message_merge.
  pose proof ctx_default_pos as Hp.
  assert (E : (let+ _ := check_wire_type LengthDelimited LengthDelimited in
               let+ _ := limit_reached ctx_default in
               let+ ctx' := enter_recursion ctx_default in
               merge_loop (fun msg => let+ (tag, fwt) := decode_key in merge_field inner_depth sc j msg tag fwt ctx') y)
                (mkR (encode_varint (zlen b) ++ b ++ []) (ra s1)) = OOk y' (mkR [] (ra s'))).
  { rewrite (bind_ok _ _ _ _ _ (check_wire_type_same _ _)).
    rewrite (bind_ok _ _ _ _ _ (limit_ok ctx_default _ ltac:(lia))).
    rewrite (bind_ok _ _ _ _ _ (enter_ok ctx_default _ Hp)).
    apply merge_loop_of_run; [|exact Hz|exact Hrun].
    intros v. apply framed_bind; [apply framed_decode_key|]. intros [tag fwt]. apply framed_merge_field. }
  rewrite (bind_bind_ok _ _ _ _ _ _ E). reflexivity.
Qed.

(* ------------------------------------------------------------------ non-vacuity *)
Definition demo_schema : schema :=
  [[FSingular 1 (TScalar TYPE_INT32); FRepeated 2 (TScalar TYPE_SINT32); FMap 3 TYPE_STRING (TScalar TYPE_INT64);
    FOneof [(4, TScalar TYPE_BOOL); (5, TScalar TYPE_UINT32)]; FOptional 6 (TMsg 0)]].

Example merge_corollaries_nonvacuous :
  (* 1 = 7, then 1 = 9: last wins; 2 += -1 then packed [2; -3]: order; 3["a"] = 1 then 3["a"] = 2: replaced in place;
     4 = true then 5 = 8: member replaced; 6 = {1 = 1} then 6 = {2 += 5}: merged field-wise *)
  msg_decode demo_schema 0 (mkR ([x08; x07] ++ [x08; x09]) 0)
    = OOk (VL NMsg [VI 9; VL NRep []; VL NMap []; VL NNone []; VL NNone []]) (mkR [] 0) /\
  msg_decode demo_schema 0 (mkR ([x10; x01] ++ encode_packed MSInt32 2 [VI 2; VI (-3)]) 0)
    = OOk (VL NMsg [VI 0; VL NRep [VI (-1); VI 2; VI (-3)]; VL NMap []; VL NNone []; VL NNone []]) (mkR [] 3) /\
  msg_decode demo_schema 0 (mkR (map_record 3 MFastStr MInt64 (VB [x61]) (VI 1) ++ map_record 3 MFastStr MInt64 (VB [x61]) (VI 2)) 0)
    = OOk (VL NMsg [VI 0; VL NRep []; VL NMap [VL NPair [VB [x61]; VI 2]]; VL NNone []; VL NNone []]) (mkR [] 4) /\
  msg_decode demo_schema 0 (mkR ([x20; x01] ++ [x28; x08]) 0)
    = OOk (VL NMsg [VI 0; VL NRep []; VL NMap []; VL (NOne 1) [VI 8]; VL NNone []]) (mkR [] 0) /\
  msg_decode demo_schema 0 (mkR (embedded_record 6 [x08; x01] ++ embedded_record 6 [x10; x0a]) 0)
    = OOk (VL NMsg [VI 0; VL NRep []; VL NMap []; VL NNone [];
                    VL NSome [VL NMsg [VI 1; VL NRep [VI 5]; VL NMap []; VL NNone []; VL NNone []]]]) (mkR [] 1).
Proof. vm_compute. repeat split; reflexivity. Qed.
