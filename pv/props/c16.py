"""C16 -- Thrift IDL parser is total on arbitrary text.

proof gate   : fam/idl/coq/Properties/C16.v  (C16_total, C16_depth, C16_nesting_range, C16_repetition_is_iteration, C16_no_panic)
correspondence `idl-parse` : the extracted Gallina port of the 16 parser files (fam/idl/coq/Parser.v) and the real
               parsers (pilota-thrift-parser, through fam/idl/harness) run the same texts; the result lines
               (outcome class, bytes remaining, nom ErrorKind, canonical AST) are compared verbatim.
oracle (implementation only): every text yields `OK ..` or `ERR E|F ..` -- no PANIC (catch_unwind, silent hook), no
               ABORT (the parse runs on a thread with a 2 MiB stack inside a child process; a stack overflow kills
               the child, the supervisor reports it) for nesting <= 64 -- however long a flat repetition in the text is
               (flat_cases: 10^3 .. 10^5 comment / white-space pieces at every blank place, every repeatable production
               repeated) -- and an answer within the time bound.
shape        : C16_repetition_is_iteration ties which combinator carries each repetition of the Rust code, and which
               functions recurse, to the model (Generated/IdlReps.v from tools/extract_idl.py against Proofs/RepSites.v).
"""
import importlib.util, os, random, time
from collections import Counter
from .. import core, idlgen as ig

FAM = core.Family("idl")
STACK = 2 << 20
CLAIM_DEPTH = 64

TRUSTED = [
    "Coq 8.16.1 kernel (coqc full .vo build of fam/idl/coq)",
    "tools/extract_idl.py (regex-level translator: every tag / one_of / none_of / take_until literal, the item dispatch table, "
    "the scope list and pinned character-class closures of the 16 parser files; the non-ASCII alphanumeric table dumped from the toolchain)",
    "Coq extraction (ExtrOcamlBasic only), OCaml 4.13, hand-written glue fam/idl/runner/main.ml (hex decoding, canonical printing)",
    "fam/idl/harness (supervisor/worker process pair, 2 MiB worker stack, catch_unwind, canonical printing canon.rs) and pv/idlgen.py (generators, mutators)",
    "hand-written Gallina port fam/idl/coq/{Comb,Parser}.v of nom 7.1.3 combinators and of the parser files: tied to the code by this "
    "differential run (outcome class, error position, ErrorKind and AST compared), not verified against the Rust text",
    "panic sites: tools/extract_idl.py reads, per function of the parser files, unwrap / expect, panic macros, indexing / slicing, unary "
    "minus, binary + - *, division by a non-literal (regular expressions over the comment- and literal-stripped text); nom 7.1.3's INTERNAL "
    "slicing (take_split / slice(..offset) inside tag, take_while, take_until, recognize, escaped ...) stays modelled by total functions "
    "(Comb.consumed / take_len / drop_len): its preconditions are nom's own invariants, exercised by the differential run, not re-proved",
    "native stack bytes per recursion level are measured (harness, debug and release), not modelled; the model bounds the recursion depth",
    "repetition sites: tools/extract_idl.py reads, per function of the parser files, the calls of nom's repeating combinators, the call "
    "graph (X::parse, free functions, macro-defined functions; by regular expressions over the comment-stripped text) and whether each "
    "combinator's body in the nom source named by Cargo.lock is a loop without self call; that a Rust `loop` keeps the stack flat is assumed "
    "(and measured by the long flat repetition cases)",
]


def unmapped_model_parsers():
    """parser definitions of Parser.v that Proofs/RepSites.v does not map to a function of the source (its inventory of the
    model is computed from the definitions it is given: a definition left out would not be counted)"""
    import re
    src = open(os.path.join(FAM.coq, "Parser.v"), encoding="utf-8").read()
    rs = open(os.path.join(FAM.coq, "Proofs", "RepSites.v"), encoding="utf-8").read()
    rows = " ".join(re.findall(r"ltac:\(row \"[^\"]*\" ([^;\]]*?)\)\s*[;\]]", rs))
    ps = open(os.path.join(FAM.coq, "Proofs", "PanicSites.v"), encoding="utf-8").read()
    prows = " ".join(re.findall(r"ltac:\(prow \"[^\"]*\" ([^;\]]*?)\)\s*[;\]]", ps))
    defs = re.findall(r"^(?:Definition|Fixpoint|with)\s+(p_\w+|parse_file)\b", src, flags=re.M)
    return [d for d in defs if not re.search(r"\b%s\b" % d, rows) or not re.search(r"\b%s\b" % d, prows)], len(defs)


def _extract_idl():
    p = os.path.join(core.ROOT, "tools", "extract_idl.py")
    spec = importlib.util.spec_from_file_location("extract_idl", p)
    m = importlib.util.module_from_spec(spec)
    spec.loader.exec_module(m)
    return m


def norm(line):
    """result line -> comparable form (the model names the panic site, the implementation prints the message)"""
    if line.startswith("PANIC"):
        return "PANIC"
    return line


def outcome_class(line):
    t = line.split(" ", 3)
    if t[0] == "OK":
        return "ok"
    if t[0] == "ERR":
        return "err-" + t[1] + "-" + line.rsplit(" ", 1)[-1]
    return t[0].lower()


# --------------------------------------------------------------------------- case generation

FRAG = ["type", "cv", "field", "function", "struct", "union", "exception", "enum", "service", "constant", "typedef", "namespace",
        "include", "annotations", "literal", "int", "double", "path", "ident"]


def fragment(g, entry):
    """(tokens, canon) of a valid fragment for a sub-parser entry"""
    r = g.r
    if entry == "type":
        return g.type_(3)
    if entry == "cv":
        return g.const_value(3)
    if entry == "field":
        return g.field(r.randrange(1, 100))
    if entry == "function":
        return g.function()
    if entry in ("struct", "union", "exception"):
        return g.struct_like(entry)
    if entry == "enum":
        return g.enum()
    if entry == "service":
        return g.service()
    if entry == "constant":
        return g.constant()
    if entry == "typedef":
        return g.typedef()
    if entry == "namespace":
        return g.namespace()[:2]
    if entry == "include":
        return g.include()
    if entry == "annotations":
        return g.annotations()
    if entry == "literal":
        return g.literal()
    if entry == "int":
        v = g.int_value()
        return [("num", g.int_text(v))], str(v)
    if entry == "double":
        d = g.double_text()
        return [("dbl", d)], ig.lit_canon(d)
    if entry == "path":
        return g.path()
    if entry == "ident":
        s = g.ident()
        return [("id", s)], s
    raise ValueError(entry)


def deep_cases(g, depths):
    """texts whose type / constant nesting is exactly n, stand-alone and inside a document; (case, depth, what)"""
    out = []
    for n in depths:
        tt, _ = g.nested_type(n)
        ct, _ = g.nested_const(n)
        t, c = ig.text_of(tt), ig.text_of(ct)
        out.append(("type " + ig.hx(t), n, "type"))
        out.append(("cv " + ig.hx(c), n, "const"))
        doc = "struct S {\n 1: required %s f = %s (a = 'b'),\n}\nconst %s K = %s\nservice X { %s m(1: %s a) throws (1: %s e) }\n" % (t, c, t, c, t, t, t)
        out.append(("file " + ig.hx(doc), n, "doc"))
        # an unterminated nest: n openers and nothing else
        out.append(("type " + ig.hx("list<" * n), n, "type-open"))
        out.append(("cv " + ig.hx("[" * n), n, "const-open"))
        out.append(("cv " + ig.hx("{" * n), n, "map-open"))
        out.append(("file " + ig.hx("const i8 x = " + "[{1:" * (n // 2)), n, "doc-open"))
        out.append(("file " + ig.hx("typedef " + "map<i8,/*>*/" * n), n, "doc-open-comment"))
    return out


FIXED = [
    ("file", "struct A { 12345678901: i32 x }"),            # F-16a
    ("file", "struct A { 2147483648: i32 x }"),
    ("file", "struct A { 2147483647: i32 x }"),
    ("file", "struct A { 00000000000000000000000000000000000000001: i32 x }"),
    ("field", "99999999999999999999999999999999999999999: i32 x"),
    ("file", "const i64 x = 9223372036854775807"),
    ("file", "const i64 x = 9223372036854775808"),
    ("file", "const i64 x = -9223372036854775808"),
    ("file", "const i64 x = 0x7fffffffffffffff"),
    ("file", "const i64 x = 0x8000000000000000"),
    ("file", "const i64 x = 0xffffffffffffffffffffffffffffffffffffffff"),
    ("file", "const i64 x = " + "9" * 40),
    ("file", "const double x = 1e" + "9" * 40),
    ("file", "const double x = " + "9" * 40 + "." + "9" * 40),
    ("file", "enum E { A = 99999999999999999999 }"),
    ("file", "enum E { A = 0x }"),
    ("file", "const i64 x = " + "-" * 3000 + "1"),          # F-16b
    ("file", "const i64 x = " + "-" * 60001 + "1"),
    ("int", "-" * 65000),
    ("file", "/* never closed"),
    ("file", "struct A { 1: string s = 'never closed }"),
    ("file", "struct A { 1: string s = \"abc\\"),
    ("file", "struct A { 1: string s = 'abc\\q' }"),
    ("file", "include 'a.thrift"),
    ("file", "namespace rs"),
    ("file", "#"),
    ("file", "//"),
    ("file", "/*/"),
    ("file", "é"),
    ("file", "struct é {}"),
    ("file", "const bool b = trueé"),
    ("file", "const bool b = true٣"),
    ("file", "struct A { 1: optionalé x }"),
    ("file", " " * 65536),
    ("file", "a" * 65536),
    ("file", "/*" + "*" * 65530 + "*/"),
    ("file", "struct A {" + " 1: i32 a," * 6000 + "}"),
    ("file", "const list<i8> x = [" + "1," * 30000 + "]"),
    ("file", "const string s = '" + "\\n" * 30000 + "'"),
    ("file", "service S { void f(" + "1: i8 a, " * 3000 + ") }"),
    ("file", "typedef a" + ".b" * 20000 + " T"),
    ("file", ""),
]
# sign runs x boundary magnitudes, decimal and hex, in every position an integer constant can take: the sign handling and
# the magnitude conversion are two places that have to agree at i64::MIN / 2^63 / 2^64
for _signs in ("", "-", "--", "---", "----", "+", "-+", "+-"):
    for _mag in ("9223372036854775807", "9223372036854775808", "9223372036854775809", "18446744073709551615", "18446744073709551616",
                 "2147483647", "2147483648", "0x7fffffffffffffff", "0x8000000000000000", "0xffffffffffffffff", "0x10000000000000000", "0"):
        FIXED.append(("file", "const i64 x = %s%s" % (_signs, _mag)))
        FIXED.append(("int", "%s%s" % (_signs, _mag)))
    for _tpl in ("const list<i64> x = [%s9223372036854775808, 1]", "enum E { A = %s9223372036854775808 }", "struct S { 1: i64 a = %s9223372036854775808 }",
                 "const double x = 1.5e%s9223372036854775808", "const map<i64,i64> m = {%s9223372036854775808: %s0x8000000000000000}"):
        FIXED.append(("file", _tpl.replace("%s", _signs)))


# --------------------------------------------------------------------------- long flat repetition (stack use must not grow with it)
# Every repetition of the grammar (many0 / many1 / many_till / separated_list / escaped / the fold over a digit or sign run) is a
# loop in the parser: the native stack needed depends on the NESTING only.  These texts keep the nesting small (or exactly at the
# claimed 64) and make one repetition long: 10^3 .. 10^5 pieces.  A repetition implemented by self-recursion overflows the 2 MiB
# worker stack on them and the supervisor reports the ABORT with the text.

# one document that uses every production; `@` = a place where the grammar has opt(blank) (default: nothing), `^` = the same, but
# the neighbours are two words (default: one space), `~` = a place where the grammar has a mandatory blank (default: one space)
BLANK_TEMPLATE = (
    "@include~'a.thrift';@cpp_include~\"b\"@namespace~rs~a@.@b@(@x@=@'y'@,@)@;@"
    "typedef~map@<@i8@,@list@<@i8@>~cpp_type~'v'@>@(@a@=@'b'@)~T@(@a@=@'b'@,@k@=@\"v\"@)"
    "const~set~cpp_type~'s'@<@i8@>~C@=@[@1@,@{@1@:@'s'@,@x@.@y@:@-0x1f@}@2.5e3@;@true@]@;@"
    "enum~E@{@A@=@1@(@a@=@'b'@),@B@;@C@=@-2@}@(@a@=@'b'@)@"
    "struct~S@{@1@:@required~i8^a@=@1@(@a@=@'b'@)@;@2@:@a@.@b^c^3@:@optional~string^s@=@'x'@,@}@(@a@=@'b'@);@"
    "union~U@{@1@:@i8^a@}@exception~X@{@}@"
    "service~V~extends~a@.@b@{@oneway~void~f@(@1@:@i8^a@,@2@:@i8^b@)@throws@(@1@:@E^e@)@(@a@=@'b'@);@i8~g@(@)@}@;@")
BLANK_SLOTS = [i for i, ch in enumerate(BLANK_TEMPLATE) if ch in "@~^"]

# (name, the text repeated, pieces of `blank` per repetition)
BLANK_STYLES = [("hash", "#x\n", 1), ("slash", "//x\n", 1), ("block", "/*x*/", 1), ("block-space", "/**/ ", 2), ("space-block", " \n/**/", 2),
                ("mixed", "#a\n/*b*/\t//c\n/**/", 4)]


def blank_run(style, pieces):
    _, unit, per = BLANK_STYLES[style % len(BLANK_STYLES)]
    return unit * max(1, pieces // per)


def fill_template(k, run):
    """the template document with the blank place at template index k replaced by `run` (k = -1: the plain document)"""
    return "".join((run if i == k else (" " if ch in "~^" else "")) if ch in "@~^" else ch for i, ch in enumerate(BLANK_TEMPLATE))


def flat_repetitions(n):
    """(what, entry, text): every repeatable production repeated n times, nesting <= 2; valid and cut short"""
    out = [
        ("includes", "file", "include 'a'\n" * n),
        ("cpp-includes", "file", "cpp_include 'a';" * n),
        ("namespaces", "file", "namespace rs a.b\n" * n),
        ("items-typedef", "file", "typedef i8 T\n" * n),
        ("items-const", "file", "const i8 c = 1;" * n),
        ("items-struct", "file", "struct S{}" * n),
        ("items-enum", "file", "enum E{A}" * n),
        ("items-service", "file", "service S{}\n" * n),
        ("items-nosep", "file", "const i8 c=1 " * n),
        ("fields", "file", "struct S {" + "1:i8 a;" * n + "}"),
        ("fields-nosep", "file", "struct S {" + " 1:i8 a" * n + "}"),
        ("fields-full", "file", "union U {" + "1: optional list<i8> a = [1] (a = 'b'),\n" * (n // 4 + 1) + "}"),
        ("fields-open", "file", "exception X {" + "1:i8 a," * n),
        ("enum-values", "file", "enum E {" + "A," * n + "}"),
        ("enum-values-eq", "file", "enum E {" + "A=1 " * n + "}"),
        ("enum-values-ann", "file", "enum E {" + "A(a='b');" * n + "}"),
        ("enum-open", "file", "enum E {" + "A," * n),
        ("annotations", "file", "struct S{}(" + "a='b'," * n + ")"),
        ("annotations-nosep", "file", "typedef i8 T (" + "a='b' " * n + ")"),
        ("annotations-field", "field", "1: i8 a (" + "a.b=\"c\";" * n + ")"),
        ("annotations-open", "annotations", "(" + "a='b'," * n),
        ("list-elements", "file", "const list<i8> x = [" + "1," * n + "]"),
        ("list-elements-nosep", "cv", "[" + "1 " * n + "]"),
        ("list-elements-str", "cv", "[" + "'a';" * n + "]"),
        ("list-elements-list", "cv", "[" + "[]," * n + "]"),
        ("list-elements-map", "cv", "[" + "{}" * n + "]"),
        ("list-open", "cv", "[" + "1," * n),
        ("map-elements", "file", "const map<i8,i8> x = {" + "1:2," * n + "}"),
        ("map-elements-nosep", "cv", "{" + "a:b " * n + "}"),
        ("map-open", "cv", "{" + "1:2," * n),
        ("signs-minus", "file", "const i64 x = " + "-" * n + "1"),
        ("signs-mixed", "int", "-+" * (n // 2) + "1"),
        ("signs-double", "double", "-" * n + "1.5"),
        ("signs-enum", "file", "enum E { A = " + "-" * n + "1 }"),
        ("path-segments", "file", "typedef a" + ".b" * n + " T"),
        ("path-segments-const", "cv", "a" + ".b" * n),
        ("path-segments-scope", "file", "namespace rs a" + ".b" * n),
        ("path-segments-extends", "file", "service S extends a" + ".b" * n + " {}"),
        ("args", "file", "service S { void f(" + "1: i8 a, " * n + ") }"),
        ("throws", "function", "void f() throws (" + "1:E e;" * n + ")"),
        ("functions", "file", "service S {" + "void f()," * n + "}"),
        ("functions-nosep", "service", "service S {" + " oneway void f()" * n + "}"),
        ("functions-open", "service", "service S {" + "void f();" * n),
        ("escapes-single", "file", "const string s = '" + "\\n" * n + "'"),
        ("escapes-double", "literal", "\"" + "\\\"" * n + "\""),
        ("escapes-open", "literal", "'" + "\\'" * n),
        ("digits", "int", "9" * n),
        ("digits-hex", "int", "0x" + "f" * n),
        ("digits-double", "double", "1" * n + "." + "2" * n + "e" + "3" * n),
        ("digits-field-id", "field", "0" * n + "1: i8 a"),
        ("ident", "file", "struct " + "a" * n + " {}"),
        ("literal", "file", "include '" + "a" * n + "'"),
        ("whitespace", "file", " \t\r\n" * n + "struct S{}"),
        ("block-comment", "file", "/*" + "*/ /*" * n + "*/"),
        ("block-comment-stars", "file", "/*" + "*" * n + "/ */"),
        ("line-comment", "file", "#" * n),
        ("cpp-types", "type", "list<" * 2 + "i8" + "> cpp_type 'x'" * 2 + " " * n),
    ]
    return out


def nest_with_run(g, n, run):
    """type and constant nests of depth n with `run` (a blank) before / after the innermost element: (what, entry, text)"""
    tt, _ = g.nested_type(n)
    ct, _ = g.nested_const(n)
    t, c = ig.text_of(tt), ig.text_of(ct)
    assert t.count("i32") == 1 and sum(1 for kd, tx in ct if (kd, tx) == ("num", "1")) == 1
    tb, ta = t.replace("i32", run + "i32"), t.replace("i32", "i32" + run)
    k = [j for j, tk in enumerate(ct) if tk == ("num", "1")][0]
    cb = ig.text_of(ct[:k]) + run + ig.text_of(ct[k:])
    ca = ig.text_of(ct[:k + 1]) + run + ig.text_of(ct[k + 1:])
    return [("type-before", "type", tb), ("type-after", "type", ta), ("const-before", "cv", cb), ("const-after", "cv", ca),
            ("doc", "file", "struct S {\n 1: required %s f = %s (a = 'b'),\n}\nservice X { %s m(1: %s a) throws (1: %s e) }\n" % (tb, ca, ta, tb, tb))]


def flat_cases(rng, tier):
    """(case_line, kind, depth): kind `flat-*` runs on the model too, kind `flatbig-*` (10^4 .. 10^5 pieces; the extracted model
    needs seconds for each) on the implementation only; kind `deep-run-*` = nesting 64 with a long blank at the innermost element"""
    q = tier == "quick"
    g = ig.Gen(rng)
    mid, big = 1500, 20000
    out = [("file " + ig.hx(fill_template(-1, "")), "flat-template", None)]
    for j, k in enumerate(BLANK_SLOTS):
        # every blank place of the grammar: a medium run (3 ways) and a big one (implementation), the style rotating with the place
        styles = [j + rng.randrange(len(BLANK_STYLES))] if q else range(len(BLANK_STYLES))
        for st in styles:
            nm = BLANK_STYLES[st % len(BLANK_STYLES)][0]
            out.append(("file " + ig.hx(fill_template(k, blank_run(st, mid))), "flat-blank-" + nm, None))
            out.append(("file " + ig.hx(fill_template(k, blank_run(st + 1, big))), "flatbig-blank-" + BLANK_STYLES[(st + 1) % len(BLANK_STYLES)][0], None))
    for st in range(len(BLANK_STYLES)):
        nm = BLANK_STYLES[st][0]
        # a blank-only document, a fragment entry, and 10^5 pieces once per style
        out.append(("file " + ig.hx(blank_run(st, mid)), "flat-blank-only-" + nm, None))
        out.append(("file " + ig.hx(blank_run(st, 100000)), "flatbig-blank-only-" + nm, None))
        out.append(("file " + ig.hx(blank_run(st, 100000) + "struct S{}"), "flatbig-blank-lead-" + nm, None))
        out.append(("file " + ig.hx("struct S{" + blank_run(st, 100000)), "flatbig-blank-open-" + nm, None))
        out.append(("type " + ig.hx("map<" + blank_run(st, mid) + "i8" + blank_run(st, mid) + ",i8>"), "flat-blank-frag-" + nm, None))
        for n in ((64,) if q else (63, 64)):
            # the stack budget is shared between the nesting and whatever a blank costs: run lengths below and above what
            # a flat document tolerates
            for pieces in (300, 1000, 2000):
                for what, e, t in nest_with_run(g, n, blank_run(st, pieces)):
                    out.append((e + " " + ig.hx(t), "deep-run-" + what, n))
    for what, e, t in flat_repetitions(mid):
        out.append((e + " " + ig.hx(t), "flat-rep-" + what, None))
    for n in ((big,) if q else (big, 100000)):
        for what, e, t in flat_repetitions(n):
            out.append((e + " " + ig.hx(t), "flatbig-rep-" + what, None))
    return out


def gen_cases(rng, tier):
    """list of (case_line, kind, depth_or_None)"""
    q = tier == "quick"
    n_docs = 250 if q else 12000
    n_mut_per_doc = 10 if q else 14
    n_frag = 3000 if q else 200000
    n_small, n_mid, n_big = (1500, 80, 6) if q else (120000, 4000, 150)
    cases = []
    for e, t in FIXED:
        cases.append((e + " " + ig.hx(t), "fixed", None))
    g = ig.Gen(rng)
    for c, n, what in deep_cases(g, [1, 2, 8, 32, 63, 64]):
        cases.append((c, "deep-" + what, n))
    for c, n, what in deep_cases(g, [65, 128, 256, 1024, 4096]):
        cases.append((c, "probe-" + what, n))
    cases += flat_cases(rng, tier)
    for i in range(n_docs):
        mode = ("random", "random", "minimal", "maximal")[i % 4]
        toks, _ = ig.gen_document(rng, mode)
        text = ig.text_of(toks)
        cases.append(("file " + ig.hx(text), "valid", None))
        if len(text) > 6000:
            continue
        for j in range(n_mut_per_doc):
            kind = ig.MUTATIONS[(i + j) % len(ig.MUTATIONS)] if j < len(ig.MUTATIONS) else None
            t, k = ig.mutate(rng, toks, kind)
            cases.append(("file " + ig.hx(t), "mut-" + k, None))
        # nest one type / constant of the document to the claimed depth
        if i % 5 == 0:
            n = rng.choice([16, 48, 64])
            tt, _ = g.nested_type(n)
            ct, _ = g.nested_const(n)
            idx = [k for k, (kd, tx) in enumerate(toks) if kd == "kw" and tx in ig.BASE_TYPES and tx != "void"]
            if idx:
                tk = list(toks)
                k = rng.choice(idx)
                tk[k:k + 1] = tt
                cases.append(("file " + ig.hx(ig.text_of(tk)), "mut-nest-type", n))
            idx = [k for k, (kd, tx) in enumerate(toks) if kd == "num" and k > 0 and toks[k - 1][1] != "{"]
            if idx:
                tk = list(toks)
                k = rng.choice(idx)
                tk[k:k + 1] = ct
                cases.append(("file " + ig.hx(ig.text_of(tk)), "mut-nest-const", n))
    for i in range(n_frag):
        e = FRAG[i % len(FRAG)]
        gg = ig.Gen(rng, "random")
        toks, _ = fragment(gg, e)
        toks = gg.finish(toks)
        if i % 3 == 0:
            cases.append((e + " " + ig.hx(ig.text_of(toks)), "frag-valid", None))
        else:
            t, k = ig.mutate(rng, toks)
            cases.append((e + " " + ig.hx(t), "frag-mut-" + k, None))
    for i in range(n_small):
        cases.append(("file " + ig.hx(ig.random_utf8(rng, rng.choice([1, 2, 5, 20, 60, 200]))), "utf8-small", None))
    for i in range(n_mid):
        cases.append(("file " + ig.hx(ig.random_utf8(rng, rng.choice([1000, 4096]))), "utf8-mid", None))
    for i in range(n_big):
        cases.append(("file " + ig.hx(ig.random_utf8(rng, 65536)[:65536]), "utf8-64k", None))
    # a valid prefix followed by random text (so that the junk is met deep inside the grammar)
    for i in range(n_small // 3):
        gg = ig.Gen(rng, "random")
        toks, _ = fragment(gg, rng.choice(["struct", "service", "constant", "enum"]))
        t = ig.text_of(gg.finish(toks))
        b = t.encode("utf-8")[:rng.randrange(len(t.encode("utf-8")) + 1)].decode("utf-8", "ignore")
        cases.append(("file " + ig.hx(b + ig.random_utf8(rng, rng.choice([1, 5, 50]))), "prefix+junk", None))
    return cases


def oracle(line, kind, depth):
    """C16 on the implementation's output alone: None, or the reason it fails"""
    if line.startswith("OK ") or line.startswith("ERR E ") or line.startswith("ERR F "):
        return None
    if line.startswith("ABORT") and kind.startswith("probe-"):
        return None                      # beyond the claimed nesting: recorded, not required
    if line.startswith("PANIC"):
        return "the parser panicked: " + line[:200]
    if line.startswith("ABORT") and (kind.startswith("flat") or kind.startswith("deep-run-")):
        return ("the parser killed its worker (stack overflow on a %d-byte stack) on a long flat repetition [%s, nesting %s]: the stack "
                "needed grows with the LENGTH of a repetition, not only with the nesting: %s" % (STACK, kind, depth if depth else "<= 3", line[:100]))
    if line.startswith("ABORT"):
        return "the parser killed its worker (stack overflow on a %d-byte stack, nesting %s): %s" % (STACK, depth, line[:100])
    if line.startswith("CRASH"):
        return "no answer within the time bound: " + line[:100]
    return "unexpected harness output: " + line[:200]


def run(chk, replay=None):
    gate, hb = core.std_setup(chk, fam=FAM)
    chk.cov["trusted_base"] = TRUSTED
    chk.cov["checker_cmd"] = ("make -C fam/idl/coq Properties/C16.vo && coqc -Q coq PV -Q fam/idl/coq PVIdl Properties/C16.v "
                              "(Print Assumptions allowlist = empty, forbidden-vernacular grep)")
    rng = random.Random(chk.seed)
    if replay is not None:
        cases = [(replay["case"], replay.get("case_kind", "replay"), replay.get("depth"))]
    else:
        cases = gen_cases(rng, chk.tier)
    lines = [c for c, _, _ in cases]
    chk.cov["rule"] = ("case = <parser entry> <text>; texts: valid generated documents (3 layouts), every single-token mutation kind of "
                       "pv/idlgen.py applied to documents and to fragments of 19 sub-parsers, numbers inflated to 11/20/40 digits, "
                       "unterminated comments/strings, type and constant nests of depth 1..64 (stand-alone, inside documents, "
                       "unterminated), random UTF-8 of 1 B .. 64 KiB, valid prefix + junk; long flat repetition: a run of 1500 and of "
                       "2*10^4 comment / white-space pieces (6 styles) at each of the %d blank places of a document that uses every "
                       "production, alone and at the innermost element of a 64-deep nest, and every repeatable production "
                       "(items, fields, enum values, annotations, list / map elements, signs, path segments, arguments, throws, "
                       "functions, escapes, digits) repeated 1500 / 2*10^4 / 10^5 times; every case runs on the implementation " % len(BLANK_SLOTS) +
                       "(2 MiB worker stack, child process) and, except the 2*10^4- and 10^5-fold repetitions, on the extracted model and the result lines are compared; "
                       "non-trivial = the text is not accepted as a whole or nests >= 8; distinct by SHA-1 of the case line")
    bins = []
    if hb:
        bins.append(("debug", hb))
        if chk.tier == "thorough":
            ok, hb2, log = core.build_harness(release=True, fam=FAM)
            if ok:
                bins.append(("release", hb2))
            else:
                chk.notes.append("release harness did not build: " + log[-200:])
    # facts about std the model relies on (exhaustive over all chars) + digest of the regenerated Unicode table
    if hb and replay is None:
        st = core.run_lines(hb, ["selftest"], shards=1)[0]
        try:
            n, fnv = _extract_idl().unicode_digest()
            want = "SELFTEST ok alnum_nonascii=%d fnv=%s" % (n, fnv)
        except SystemExit:
            want = "SELFTEST ok (translator failed)"
        chk.cov["selftest"] = st
        if st != want:
            chk.violation("harness self-test of the std facts the model relies on failed: got '%s', want '%s'" % (st, want),
                          dict(kind="selftest", got=st, want=want), no_input=True)
    if replay is None:
        miss, ndefs = unmapped_model_parsers()
        chk.cov["repetition_sites"] = dict(
            theorem="C16_repetition_is_iteration", model_parser_definitions=ndefs, unmapped=miss,
            note="src_rep_sites / src_recursive / nom_loop_combinators (Generated/IdlReps.v, regenerated from the Rust text) against the "
                 "inventory Ltac computes from the definitions of Parser.v; every p_* definition of Parser.v must occur in the maps of Proofs/RepSites.v and Proofs/PanicSites.v (C16_no_panic: the same for the panic-capable sites)")
        if miss or not ndefs:
            chk.violation("Proofs/RepSites.v does not map these parser definitions of Parser.v to a function of the source: %s" % ", ".join(miss),
                          dict(kind="rep-sites-map", unmapped=miss), no_input=True)
    t0 = time.time()
    model = None
    if os.path.exists(FAM.runner):
        # the extracted model needs seconds per 64 KiB text: the `flatbig-*` texts (10^4 .. 10^5 repetitions) run on the
        # implementation only -- what is asked of them is the oracle (no overflow, no panic), their 1500-fold versions are compared
        midx = [i for i, (_, k, _) in enumerate(cases) if replay is not None or not k.startswith("flatbig-")]
        model = [None] * len(lines)
        for i, o in zip(midx, core.run_lines(FAM.runner, [lines[i] for i in midx], timeout=1500)):
            model[i] = norm(o)
    # model only: the least depth fuel C16_depth allows (nesting + 1) gives the same result as |s| + 1, and the
    # nesting measure is what it is meant to be on the texts nested by construction
    fuel_mism, nest_mism = [], []
    if model is not None:
        fidx = [i for i, l in enumerate(lines) if l.startswith("file ") and model[i] is not None]
        fmin = [norm(l) for l in core.run_lines(FAM.runner, ["filemin " + lines[i][5:] for i in fidx], timeout=1500)]
        for i, o in zip(fidx, fmin):
            if o != model[i]:
                fuel_mism.append((lines[i], model[i], o))
        nidx = [i for i, (c, k, d) in enumerate(cases) if k.split("-", 1)[-1] in ("type", "const", "type-open", "const-open", "map-open")
                and k.split("-")[0] in ("deep", "probe")]
        nst = core.run_lines(FAM.runner, ["nesting " + lines[i].split(" ", 1)[1] for i in nidx], shards=1)
        for i, o in zip(nidx, nst):
            if o != "NEST %d" % cases[i][2]:
                nest_mism.append((lines[i], cases[i][2], o))
        chk.cov["min_depth_fuel_runs"] = len(fidx)
        chk.cov["nesting_measure_checked"] = len(nidx)
    t_model = time.time() - t0
    failing, mism = [], []
    compared = Counter()      # what was actually compared: model vs implementation lines, oracle-only lines, per build
    dist_out = Counter()
    probes = {}
    flat_ok = [0, 0]
    for prof, b in bins:
        t0 = time.time()
        impl = core.run_lines(b, lines, timeout=900, args=("--stack", str(STACK)))
        chk.cov["wall_impl_" + prof] = round(time.time() - t0, 2)
        for (c, kind, depth), o, idx in zip(cases, impl, range(len(cases))):
            why = oracle(o, kind, depth)
            compared["oracle_" + prof] += 1
            if why:
                failing.append((c, kind, depth, "%s [%s build]" % (why, prof), o))
            if prof == "debug":
                dist_out[outcome_class(o)] += 1
            if prof == "debug" and (kind.startswith("flat-blank-") or kind.startswith("flatbig-blank-") or kind.startswith("deep-run-")):
                # generator sanity: these are valid texts (only `...-open-*` is cut short); a rejected one does not test a blank place
                flat_ok[0 if (o.startswith("OK 0 ") or "-open-" in kind) else 1] += 1
            if (kind.startswith("probe-") or kind.startswith("deep-")) and not kind.startswith("deep-run-"):
                probes.setdefault(prof, {}).setdefault(kind.split("-", 1)[1], {})[str(depth)] = o.split(" ")[0]
            if model is not None and model[idx] is not None and not (kind.startswith("probe-") and o.startswith("ABORT")):
                compared["model_vs_impl_" + prof] += 1
                if norm(o) != model[idx]:
                    mism.append((c, kind, o, model[idx], prof))
    for (c, kind, depth), idx in zip(cases, range(len(cases))):
        nontrivial = not (model is not None and (model[idx] or "").startswith("OK 0 ")) or (depth or 0) >= 8 or kind.startswith("flat")
        chk.count(c, nontrivial)
    for i in (0, len(cases) // 3, len(cases) // 2, len(cases) - 1):
        c = cases[i][0]
        chk.sample(dict(case=c[:160] + ("..." if len(c) > 160 else ""), kind=cases[i][1],
                        model=(model[i][:120] if model and model[i] else None)))
    sizes = [(len(c.split(" ")[1]) // 2 if c.split(" ")[1] != "-" else 0) for c in lines]
    # counted inside the comparison loops: result lines of the model compared with result lines of the implementation (0 if no
    # model ran; the flatbig-* texts and probe depths the implementation aborts on are not compared), plus the min-fuel re-runs
    chk.cov["disagreements_checked"] = sum(v for k, v in compared.items() if k.startswith("model_vs_impl_")) + (chk.cov.get("min_depth_fuel_runs") or 0)
    chk.cov["compared"] = dict(compared, min_fuel_vs_full_fuel=chk.cov.get("min_depth_fuel_runs") or 0,
                               cases=len(cases), model_lines=(sum(1 for x in model if x is not None) if model is not None else 0))
    chk.cov["model_impl_mismatches"] = len(mism)
    chk.cov["wall_model"] = round(t_model, 2)
    chk.cov["distribution"] = dict(
        kinds=dict(Counter(k.split("-")[0] + ("-" + k.split("-")[1] if k.startswith("mut-") else "") for _, k, _ in cases)),
        outcomes=dict(dist_out),
        size_bytes=dict(max=max(sizes), total=sum(sizes), ge_1k=sum(1 for s in sizes if s >= 1024), ge_64k=sum(1 for s in sizes if s >= 65536)),
        share_not_accepted=round(1 - dist_out.get("ok", 0) / max(1, len(cases)), 3),
        entries=dict(Counter(c.split(" ")[0] for c in lines)))
    fk = Counter(k.split("-")[0] + "-" + k.split("-")[1] for _, k, _ in cases if k.startswith("flat") or k.startswith("deep-run-"))
    chk.cov["flat_repetition"] = dict(
        blank_run_texts_accepted=flat_ok[0], blank_run_texts_rejected=flat_ok[1], blank_places=len(BLANK_SLOTS), blank_styles=[n for n, _, _ in BLANK_STYLES], cases=dict(fk),
        repeated_productions=sorted(set(k[len("flat-rep-"):] for _, k, _ in cases if k.startswith("flat-rep-"))),
        note="flat-*: 1500 repetitions, implementation and model compared; flatbig-*: 2*10^4 / 10^5 repetitions, implementation "
             "only (oracle: an answer on the 2 MiB stack); deep-run-*: nesting 64 with a blank of 300 / 1000 / 2000 pieces before / after the innermost element")
    chk.cov["stack_probe"] = dict(stack_bytes=STACK, claimed_depth=CLAIM_DEPTH, outcome_by_depth=probes,
                                  note="depths <= 64 are required to parse; larger depths are probes (ABORT = stack overflow of the worker)")
    if flat_ok[1] and not failing:
        chk.notes.append("%d of the texts with a long blank run at a blank place were not accepted as a whole (generator out of date?)" % flat_ok[1])
    # report
    seen = set()
    failing.sort(key=lambda f: len(f[0]))           # the shortest failing text first
    for c, kind, depth, why, o in failing:
        key = why.split(":")[0].split("[")[0]
        if key in seen:
            continue
        seen.add(key)
        chk.violation("C16 fails on the implementation: " + why,
                      dict(kind="case", case=c, case_kind=kind, depth=depth, impl_output=o[:2000]))
        if len(seen) >= 3:
            break
    if not failing:
        if mism:
            c, kind, o, m, prof = mism[0]
            chk.violation("correspondence idl-parse broken: model and implementation disagree (%d cases; first of kind %s) but the "
                          "no-panic / no-overflow oracle found no failing input" % (len(mism), kind),
                          dict(kind="correspondence", correspondence="idl-parse (fam/idl/coq/Parser.v vs pilota-thrift-parser)",
                               case=c, case_kind=kind, impl_output=o[:2000], model_output=m[:2000], build=prof), no_input=True)
        if fuel_mism:
            c, a, b = fuel_mism[0]
            chk.violation("model: depth fuel nesting+1 and |s|+1 give different results (%d cases)" % len(fuel_mism),
                          dict(kind="model-fuel", case=c, full_fuel=a[:500], min_fuel=b[:500]), no_input=True)
        if nest_mism:
            c, n, o = nest_mism[0]
            chk.violation("model: the nesting measure of a text nested %d deep by construction is '%s'" % (n, o),
                          dict(kind="model-nesting", case=c[:300], expected=n, got=o), no_input=True)
        if not gate["ok"]:
            chk.violation("proof obligation broken: %s (%s)" % (gate.get("failed"), (gate.get("error") or "")[:300]),
                          dict(kind="proof", theorem_file="fam/idl/coq/Properties/C16.v", failed=gate.get("failed"),
                               error=gate.get("error"), theorems=gate["theorems"]), no_input=True)
        if model is None:
            chk.violation("model runner missing", dict(kind="runner"), no_input=True)
    return chk.finish()
