(* C06: the regenerated codec-selection table agrees with the encoding guide, and for every declared
   scalar type the bytes pilota writes are the bytes the guide prescribes. *)
From PVPb Require Import Spec Proofs.BitsP Proofs.VarintP Proofs.WireP Proofs.CastP Proofs.CodecP.
From Coq Require Import ZifyN ZifyNat ZifyBool.
Open Scope Z_scope.

(* the finite lemma, by computation over the REGENERATED ty_module / ty_category / lower_ty / resolve
   tables: a wrong arm (e.g. sint32 routed to the int32 codec) makes this false *)
Lemma module_table_forallb :
  forallb (fun t => match scalar_module t, spec_module t with
                    | Some m, Some m' => codec_module_eqb m m'
                    | _, _ => false
                    end) declared_scalars = true.
Proof. vm_compute. reflexivity. Qed.

Lemma codec_module_eqb_eq a b : codec_module_eqb a b = true -> a = b.
Proof. destruct a, b; try reflexivity; discriminate. Qed.

Theorem module_table : forall t, In t declared_scalars -> scalar_module t = spec_module t /\ spec_module t <> None.
Proof.
  intros t Ht. pose proof module_table_forallb as H. rewrite forallb_forall in H. specialize (H t Ht).
  destruct (scalar_module t) as [m|], (spec_module t) as [m'|]; try discriminate H.
  apply codec_module_eqb_eq in H. subst. split; [reflexivity|discriminate].
Qed.

(* message-typed fields go through encoding::message, and maps / messages are classified as such *)
Lemma message_table : module_of_decl TYPE_MESSAGE = Some MMessage /\ category_of_decl TYPE_MESSAGE = Some CatMessage /\
  scalar_module TYPE_MESSAGE = None /\ module_of_decl TYPE_GROUP = None.
Proof. vm_compute. auto. Qed.

(* ------------------------------------------------------------------ varints and keys: pilota = spec *)
Lemma spec_varint_f_eq f : forall v, 0 <= v -> spec_varint_f f v = enc_varint f v.
Proof.
  induction f as [|f IH]; intros v Hv; [reflexivity|].
  rewrite enc_varint_unfold by exact Hv. cbn [spec_varint_f].
  destruct (v <? 128); [reflexivity|]. rewrite IH by (apply Z.div_pos; lia). f_equal. f_equal. lia.
Qed.

Lemma spec_varint_eq v : 0 <= v -> spec_varint v = encode_varint v.
Proof. apply spec_varint_f_eq. Qed.

Lemma spec_key_eq tag w wt : tag_ok tag -> spec_wt_code w = wire_type_code wt -> spec_key tag w = encode_key tag wt.
Proof.
  intros Ht Hw. rewrite encode_key_eq by exact Ht. unfold spec_key, key_of. rewrite Hw.
  apply spec_varint_eq. pose proof (tag_ok_range _ Ht). pose proof (wire_code_range wt). lia.
Qed.

Lemma spec_le_eq n : forall z, spec_le n z = le_bytes n z.
Proof.
  induction n as [|n IH]; intros z; [reflexivity|]. cbn [spec_le le_bytes]. rewrite IH. f_equal. apply z2b_mod.
Qed.

(* ------------------------------------------------------------------ every declared scalar type *)
Lemma spec_value_ok_mod t m v : scalar_module t = Some m -> spec_module t = Some m -> In t declared_scalars ->
  spec_value_ok t v = true -> t <> TYPE_STRING -> mod_value_okb m v = true.
Proof.
  intros _ Hs Hin Hv Hne.
  destruct t; try (exfalso; cbn in Hin; intuition discriminate); cbn in Hs; inversion Hs; subst; try congruence;
    destruct v as [z|l|k l]; try discriminate Hv; cbn [spec_value_ok mod_value_okb] in *;
    try (unfold in_sb; consts; change (2 ^ (32 - 1)) with 2147483648; change (2 ^ (64 - 1)) with 9223372036854775808; lia).
  unfold zlen. consts. lia.
Qed.

Theorem spec_scalar_bytes t m tag v : In t declared_scalars -> scalar_module t = Some m -> tag_ok tag ->
  spec_value_ok t v = true ->
  encode_scalar m tag v = spec_encode_field t tag v.
Proof.
  intros Hin Hm Ht Hv. destruct (module_table t Hin) as [Hs _]. rewrite Hm in Hs. symmetry in Hs.
  unfold encode_scalar, spec_encode_field.
  destruct t; try (exfalso; cbn in Hin; intuition discriminate); cbn in Hs; inversion Hs; subst m; clear Hs;
    destruct v as [z|l|k l]; try discriminate Hv; cbn [spec_value_ok] in Hv;
    (f_equal; [symmetry; apply spec_key_eq; [exact Ht|reflexivity]|]);
    unfold payload; cbn [is_varint_mod spec_payload vint vbytes].
  - (* double *) vm_compute fixed_of. unfold fixed_payload. rewrite spec_le_eq. cbn [Z.to_nat Pos.to_nat Pos.iter_op Nat.add].
    f_equal. consts. change (2 ^ (8 * 8)) with 18446744073709551616. rewrite Z.mod_small by lia. reflexivity.
  - (* float *) vm_compute fixed_of. unfold fixed_payload. rewrite spec_le_eq.
    f_equal. consts. change (2 ^ (8 * 4)) with 4294967296. rewrite Z.mod_small by lia. reflexivity.
  - (* int64 *) cbv [to_uint64]. unfold as_u64. consts. rewrite spec_varint_eq by (destruct (z <? 0) eqn:E; lia).
    f_equal. destruct (Z.ltb_spec z 0); [|rewrite Z.mod_small by lia; reflexivity].
    symmetry. apply (Z.mod_unique_pos _ _ (-1)); lia.
  - (* uint64 *) cbv [to_uint64]. apply spec_varint_eq. lia.
  - (* int32 *) cbv [to_uint64]. unfold as_u64. consts. rewrite spec_varint_eq by (destruct (z <? 0) eqn:E; lia).
    f_equal. destruct (Z.ltb_spec z 0); [|rewrite Z.mod_small by lia; reflexivity].
    symmetry. apply (Z.mod_unique_pos _ _ (-1)); lia.
  - (* fixed64 *) vm_compute fixed_of. unfold fixed_payload. rewrite spec_le_eq.
    f_equal. consts. change (2 ^ (8 * 8)) with 18446744073709551616. rewrite Z.mod_small by lia. reflexivity.
  - (* fixed32 *) vm_compute fixed_of. unfold fixed_payload. rewrite spec_le_eq.
    f_equal. consts. change (2 ^ (8 * 4)) with 4294967296. rewrite Z.mod_small by lia. reflexivity.
  - (* bool *) cbv [to_uint64]. apply spec_varint_eq. lia.
  - (* string *) vm_compute fixed_of. unfold zlen. rewrite spec_varint_eq by lia. reflexivity.
  - (* bytes *) vm_compute fixed_of. unfold zlen. rewrite spec_varint_eq by lia. reflexivity.
  - (* uint32 *) cbv [to_uint64]. apply spec_varint_eq. lia.
  - (* enum *) cbv [to_uint64]. unfold as_u64. consts. rewrite spec_varint_eq by (destruct (z <? 0) eqn:E; lia).
    f_equal. destruct (Z.ltb_spec z 0); [|rewrite Z.mod_small by lia; reflexivity].
    symmetry. apply (Z.mod_unique_pos _ _ (-1)); lia.
  - (* sfixed32 *) vm_compute fixed_of. unfold fixed_payload. rewrite spec_le_eq.
    f_equal. consts. change (2 ^ (8 * 4)) with 4294967296.
    destruct (Z.ltb_spec z 0); [|rewrite Z.mod_small by lia; reflexivity].
    apply (Z.mod_unique_pos _ _ (-1)); lia.
  - (* sfixed64 *) vm_compute fixed_of. unfold fixed_payload. rewrite spec_le_eq.
    f_equal. consts. change (2 ^ (8 * 8)) with 18446744073709551616.
    destruct (Z.ltb_spec z 0); [|rewrite Z.mod_small by lia; reflexivity].
    apply (Z.mod_unique_pos _ _ (-1)); lia.
  - (* sint32 *) rewrite sint32_to by (consts; lia). unfold spec_zigzag, zz.
    apply spec_varint_eq. destruct (z <? 0) eqn:E; lia.
  - (* sint64 *) rewrite sint64_to by (consts; lia). unfold spec_zigzag, zz.
    apply spec_varint_eq. destruct (z <? 0) eqn:E; lia.
Qed.

Example spec_nonvacuous :
  spec_encode_field TYPE_SINT32 1 (VI (-1)) = [x08; x01] /\ spec_encode_field TYPE_SFIXED32 2 (VI (-2)) = [x15; xfe; xff; xff; xff] /\
  scalar_module TYPE_SINT64 = Some MSInt64.
Proof. vm_compute. auto. Qed.
