(* C19, protobuf half: the ownership model (Own.v) is the decoder of Msg.v with ghost components, and its ledger always
   equals what the targets hold -- so after a failed decode and the drop of the partial message nothing is live. *)
From PVPb Require Import Own.
From Coq Require Import Lia.
Open Scope Z_scope.

(* ------------------------------------------------------------------ ledger arithmetic *)
Lemma ledger_ext a b : l_heap a = l_heap b -> l_refs a = l_refs b -> l_tail a = l_tail b -> a = b.
Proof. destruct a, b; cbn. intros -> -> ->. reflexivity. Qed.

(* L' - o' = L - o, component by component *)
Definition bal (L' o' L o : ledger) : Prop :=
  l_heap L' - l_heap o' = l_heap L - l_heap o /\ l_refs L' - l_refs o' = l_refs L - l_refs o.

Ltac lnorm := unfold bal in *; cbn [l_heap l_refs l_tail ladd lsub lzero one_heap one_ref one_tail cut_tail lsum] in *.
Ltac lsolve := lnorm; repeat match goal with H : _ /\ _ |- _ => destruct H end; try split; lia.

Lemma lsum_app a b : lsum (a ++ b) = ladd (lsum a) (lsum b).
Proof. induction a as [|x a IH]; cbn [app lsum]; [apply ledger_ext; cbn; lia|]. rewrite IH. apply ledger_ext; cbn; lia. Qed.

(* ------------------------------------------------------------------ conservation: the ledger moves with what the target holds *)
Definition pres {S} (own : S -> ledger) (L : ledger) (st : S) (r : pout S) : Prop :=
  match r with POk st' _ L' | PErr _ st' _ L' | PPanic _ st' L' => bal L' (own st') L (own st) end.

Definition conserves {S} (own : S -> ledger) (f : PM S) : Prop := forall st s L, pres own L st (f st s L).

Lemma pres_trans {S} (own : S -> ledger) L st L1 st1 r : bal L1 (own st1) L (own st) -> pres own L1 st1 r -> pres own L st r.
Proof. intros H1 H2. destruct r; cbn [pres] in *; lsolve. Qed.

Lemma conserves_ext {S} (own own2 : S -> ledger) (f : PM S) : (forall x, own x = own2 x) -> conserves own f -> conserves own2 f.
Proof. intros He H st s L. specialize (H st s L). destruct (f st s L); cbn [pres] in *; rewrite <- !He; exact H. Qed.

Lemma conserves_pret {S} (own : S -> ledger) : conserves own pret.
Proof. intros st s L. cbn. lsolve. Qed.

Lemma conserves_pfail {S} (own : S -> ledger) e : conserves own (pfail e).
Proof. intros st s L. cbn. lsolve. Qed.

Lemma conserves_with_m {S A} (own : S -> ledger) (m : M A) (k : A -> PM S) :
  (forall a, conserves own (k a)) -> conserves own (with_m m k).
Proof. intros H st s L. unfold with_m. destruct (m s) as [a s'|e s'|p]; [apply H|cbn; lsolve|cbn; lsolve]. Qed.

Lemma pres_zoom {S S'} (own : S -> ledger) (own' : S' -> ledger) get put (f : PM S') st s L :
  conserves own' f -> (forall x, bal (own (put st x)) (own' x) (own st) (own' (get st))) ->
  pres own L st (zoom get put f st s L).
Proof.
  intros Hf Hp. unfold zoom. specialize (Hf (get st) s L). destruct (f (get st) s L) as [x s' L'|e x s' L'|p x L']; cbn [pres] in *;
    specialize (Hp x); lsolve.
Qed.

(* [commit x] moves the local x into the target: it takes over what x holds *)
Definition absorbs {S S'} (own : S -> ledger) (own' : S' -> ledger) (commit : S' -> PM S) : Prop :=
  forall x st s L, match commit x st s L with
                   | POk st' _ L' | PErr _ st' _ L' | PPanic _ st' L' => bal L' (own st') (lsub L (own' x)) (own st)
                   end.

Lemma conserves_local {S S'} (own : S -> ledger) (own' : S' -> ledger) init (f : PM S') commit :
  conserves own' f -> own' init = lzero -> absorbs own own' commit -> conserves own (local init own' f commit).
Proof.
  intros Hf Hi Hc st s L. unfold local. specialize (Hf init s L).
  destruct (f init s L) as [x s' L'|e x s' L'|p x L']; cbn [pres] in *; rewrite Hi in Hf; [|lsolve|lsolve].
  specialize (Hc x st s' L'). destruct (commit x st s' L'); cbn [pres]; lsolve.
Qed.

Lemma conserves_pwhile {S} (own : S -> ledger) (body : PM S) limit : conserves own body ->
  forall fuel, conserves own (pwhile_remaining fuel limit body).
Proof.
  intros Hb. induction fuel as [|f IH]; intros st s L; cbn [pwhile_remaining]; destruct (Nat.ltb limit (length (rb s))); try (cbn; lsolve).
  specialize (Hb st s L). destruct (body st s L) as [st' s' L'|e st' s' L'|p st' L']; cbn [pres] in Hb; [|cbn; lsolve|cbn; lsolve].
  eapply pres_trans; [exact Hb|apply IH].
Qed.

Lemma conserves_pwhile_rem {S} (own : S -> ledger) (body : PM S) limit : conserves own body -> conserves own (pwhile_rem limit body).
Proof. intros Hb. unfold pwhile_rem. apply conserves_with_m. intros rem. apply conserves_pwhile. exact Hb. Qed.

Lemma conserves_pmerge_loop {S} (own : S -> ledger) (body : PM S) : conserves own body -> conserves own (pmerge_loop body).
Proof.
  intros Hb. unfold pmerge_loop. apply conserves_with_m. intros len. apply conserves_with_m. intros rem.
  destruct (Z.of_nat rem <? len); [apply conserves_pfail|]. intros st s L.
  pose proof (conserves_pwhile_rem own body (rem - Z.to_nat len) Hb st s L) as H.
  destruct (pwhile_rem (rem - Z.to_nat len) body st s L) as [st' s' L'|e st' s' L'|p st' L']; cbn [pres] in H; [|cbn; lsolve|cbn; lsolve].
  eapply pres_trans; [exact H|]. apply conserves_with_m. intros rem'. destruct (Nat.eqb rem' (rem - Z.to_nat len)); [apply conserves_pret|apply conserves_pfail].
Qed.

(* ------------------------------------------------------------------ scalars *)
Lemma own_scalar_faststr v : bal (if faststr_inline_cap <? zlen (vbytes v) then own_scalar MBytes v else lzero) (own_scalar MFastStr v) lzero lzero.
Proof.
  destruct v as [z|l|k l]; cbn [vbytes own_scalar]; try (vm_compute; split; reflexivity).
  destruct (faststr_inline_cap <? zlen l) eqn:E; [|lsolve]. destruct l; [discriminate E|lsolve].
Qed.

Lemma conserves_pmerge_scalar m wt : conserves (own_scalar m) (pmerge_scalar m wt).
Proof.
  assert (Hd : conserves (own_scalar m) (with_m (merge_scalar m wt) (fun v => passign m v))).
  { apply conserves_with_m. intros v st s L. unfold passign. cbn [pres]. lsolve. }
  destruct m; try exact Hd; cbn [pmerge_scalar]; apply conserves_with_m; intros v st s L.
  - destruct (utf8_valid (vbytes v)); cbn [pres]; lsolve.
  - cbn [pres]. pose proof (own_scalar_faststr v) as H. destruct (faststr_inline_cap <? zlen (vbytes v)); lsolve.
  - cbn [pres]. destruct (vbytes v), (rb s); lsolve.
Qed.

Lemma own_scalar_default m : own_scalar m (if is_len_mod m then VB [] else VI 0) = lzero.
Proof. destruct m; reflexivity. Qed.

Section Vec.
  Variable own_e : val -> ledger.
  Variable z : bool.
  Definition own_list (xs : list val) : ledger :=
    ladd (match xs with [] => lzero | _ => if z then lzero else one_heap end) (lsum (map own_e xs)).

  Lemma absorbs_ppush : absorbs own_list own_e (ppush z).
  Proof.
    intros v xs s L. unfold ppush, with_m, push, bind, charge, ret. cbn. unfold own_list. rewrite map_app, lsum_app. cbn [map lsum].
    destruct xs as [|x xs]; cbn [app]; destruct z; lsolve.
  Qed.
End Vec.

Lemma own_vec_list own_rec zst t xs : own_vec own_rec zst t xs = own_list (own_ty own_rec t) (zst t) xs.
Proof. reflexivity. Qed.

Lemma conserves_pmerge_one m wt : conserves (own_list (own_scalar m) false) (pmerge_one m wt).
Proof. apply conserves_local; [apply conserves_pmerge_scalar|apply own_scalar_default|apply absorbs_ppush]. Qed.

Lemma conserves_pmerge_repeated m wt : conserves (own_list (own_scalar m) false) (pmerge_repeated m wt).
Proof.
  unfold pmerge_repeated. destruct (is_len_mod m); [apply conserves_with_m; intros _; apply conserves_pmerge_one|].
  destruct wt; try (apply conserves_with_m; intros _; apply conserves_pmerge_one).
  apply conserves_pmerge_loop. apply conserves_pmerge_one.
Qed.

Lemma conserves_pmessage_merge {T} (own : T -> ledger) (mf : Z -> wire_type -> Z -> PM T) wt ctx :
  (forall tag fwt c, conserves own (mf tag fwt c)) -> conserves own (pmessage_merge mf wt ctx).
Proof.
  intros H. unfold pmessage_merge. apply conserves_with_m. intros _. apply conserves_with_m. intros _. apply conserves_with_m. intros ctx'.
  apply conserves_pmerge_loop. apply conserves_with_m. intros kw. apply H.
Qed.

(* ------------------------------------------------------------------ maps *)
Section MapOwn.
  Variables (own_k own_v : val -> ledger).
  Definition own_e2 (e : val) : ledger := match e with VL NPair [kv; vv] => ladd (own_k kv) (own_v vv) | _ => lzero end.

  Lemma lsum_map_insert k v : forall es,
    bal (lsum (map own_e2 (map_insert k v es)))
        (ladd (ladd (own_k k) (own_v v)) (match map_old k es with Some old => lsub lzero (ladd (own_k k) (own_v old)) | None => lzero end))
        (lsum (map own_e2 es)) lzero.
  Proof.
    induction es as [|e es IH]; cbn [map_insert map_old map lsum own_e2]; [lsolve|].
    destruct e as [z|l|kd l]; cbn [map lsum own_e2]; try lsolve.
    destruct kd; cbn [map lsum own_e2]; try lsolve.
    destruct l as [|k' [|v' [|x l]]]; cbn [map lsum own_e2]; try lsolve.
    destruct (key_eqb k' k); cbn [map lsum own_e2]; lsolve.
  Qed.
End MapOwn.

Lemma find_member_sound : forall ms tag k idx t, find_member ms tag k = Some (idx, t) ->
  (k <= idx)%nat /\ exists tag', nth_error ms (idx - k) = Some (tag', t).
Proof.
  induction ms as [|[t0 ty0] ms IH]; intros tag k idx t H; cbn [find_member] in H; [discriminate|].
  destruct (t0 =? tag).
  - inversion H; subst. split; [lia|]. replace (idx - idx)%nat with 0%nat by lia. exists t0. reflexivity.
  - destruct (IH _ _ _ _ H) as [Hle [tag' Hn]]. split; [lia|]. exists tag'.
    replace (idx - k)%nat with (S (idx - S k)) by lia. exact Hn.
Qed.

(* ------------------------------------------------------------------ the generated arms *)
Section StepP.
  Variable prec : nat -> Z -> wire_type -> Z -> PM val.
  Variable dflt : ty -> val.
  Variable own_rec : nat -> val -> ledger.
  Variable zst : ty -> bool.
  Hypothesis Hrec : forall i tag wt ctx, conserves (own_rec i) (prec i tag wt ctx).
  Hypothesis Hdflt : forall t, own_ty own_rec t (dflt t) = lzero.
  Hypothesis Hzst : forall p, zst (TScalar p) = false.

  Local Notation oty := (own_ty own_rec).

  Lemma conserves_pmerge_ty t wt ctx : conserves (oty t) (pmerge_ty prec t wt ctx).
  Proof.
    destruct t as [p|i]; cbn [pmerge_ty].
    - destruct (scalar_module p) as [m|] eqn:E; [|apply conserves_pfail].
      apply (conserves_ext (own_scalar m)); [intros x; cbn [own_ty]; rewrite E; reflexivity|apply conserves_pmerge_scalar].
    - apply (conserves_ext (own_rec i)); [reflexivity|]. apply conserves_pmessage_merge. intros. apply Hrec.
  Qed.

  Lemma conserves_pmerge_rep t wt ctx : conserves (own_vec own_rec zst t) (pmerge_rep prec dflt own_rec zst t wt ctx).
  Proof.
    destruct t as [p|i]; cbn [pmerge_rep].
    - destruct (scalar_module p) as [m|] eqn:E; [|apply conserves_pfail].
      apply (conserves_ext (own_list (own_scalar m) false)); [|apply conserves_pmerge_repeated].
      intros xs. unfold own_vec, own_list. rewrite Hzst. f_equal. f_equal. apply map_ext. intros x. cbn [own_ty]. rewrite E. reflexivity.
    - apply conserves_with_m. intros _. apply (conserves_local (own_list (oty (TMsg i)) (zst (TMsg i))) (oty (TMsg i))).
      + apply conserves_pmessage_merge. intros. apply Hrec.
      + apply Hdflt.
      + apply absorbs_ppush.
  Qed.

  Lemma conserves_pentry_body k vt ctx' : conserves (own_pair own_rec k vt) (pentry_body prec k vt ctx').
  Proof.
    unfold pentry_body. apply conserves_with_m. intros [tag wt]. cbn [fst snd].
    destruct (tag =? 1); [|destruct (tag =? 2)].
    - intros kv s L. apply (pres_zoom (own_pair own_rec k vt) (oty (TScalar k))); [apply conserves_pmerge_ty|].
      intros x. unfold own_pair. cbn [fst snd]. lsolve.
    - intros kv s L. apply (pres_zoom (own_pair own_rec k vt) (oty vt)); [apply conserves_pmerge_ty|].
      intros x. unfold own_pair. cbn [fst snd]. lsolve.
    - apply conserves_with_m. intros _. apply conserves_pret.
  Qed.

  Lemma own_map_e2 k vt es : own_map own_rec k vt es =
    ladd (match es with [] => lzero | _ => one_heap end) (lsum (map (own_e2 (oty (TScalar k)) (oty vt)) es)).
  Proof. reflexivity. Qed.

  Lemma map_insert_nonempty k v es : map_insert k v es <> [].
  Proof.
    destruct es as [|e es]; cbn [map_insert]; [discriminate|]. destruct e as [z|l|kd l]; try discriminate.
    destruct kd; try discriminate. destruct l as [|k' [|v' [|x l]]]; try discriminate. destruct (key_eqb k' k); discriminate.
  Qed.

  Lemma absorbs_pinsert k vt : absorbs (own_map own_rec k vt) (own_pair own_rec k vt) (pinsert own_rec k vt).
  Proof.
    intros kv es s L. unfold pinsert, with_m, charge. rewrite !own_map_e2. unfold insert_delta, own_pair.
    pose proof (lsum_map_insert (oty (TScalar k)) (oty vt) (fst kv) (snd kv) es) as H.
    assert (Hh : (match map_insert (fst kv) (snd kv) es with [] => lzero | _ => one_heap end) = one_heap).
    { pose proof (map_insert_nonempty (fst kv) (snd kv) es). destruct (map_insert (fst kv) (snd kv) es); [congruence|reflexivity]. }
    rewrite Hh.
    assert (He : (match es with [] => one_heap | _ => lzero end) = lsub one_heap (match es with [] => lzero | _ => one_heap end))
      by (destruct es; reflexivity).
    rewrite He. destruct (map_old (fst kv) es) as [old|]; lsolve.
  Qed.

  Lemma conserves_pmerge_map k vt ctx : conserves (own_map own_rec k vt) (pmerge_map prec dflt own_rec k vt ctx).
  Proof.
    unfold pmerge_map. apply conserves_local.
    - unfold pmap_entry_merge. apply conserves_with_m. intros _. apply conserves_with_m. intros ctx'.
      apply conserves_pmerge_loop. apply conserves_pentry_body.
    - unfold own_pair. cbn [fst snd]. rewrite !Hdflt. reflexivity.
    - apply absorbs_pinsert.
  Qed.

  Lemma conserves_pmerge_oneof ms tag wt ctx : conserves (own_field own_rec zst (FOneof ms)) (pmerge_oneof prec dflt own_rec zst ms tag wt ctx).
  Proof.
    intros cur s L. unfold pmerge_oneof. destruct (find_member ms tag 0) as [[idx t]|] eqn:Ef; [|cbn; lsolve].
    destruct (find_member_sound _ _ _ _ _ Ef) as [_ [tag' Hn]]. rewrite Nat.sub_0_r in Hn.
    assert (Hnew : forall x, own_field own_rec zst (FOneof ms) (VL (NOne idx) [x]) = oty t x) by (intros x; cbn [own_field]; rewrite Hn; reflexivity).
    assert (Hfresh : pres (own_field own_rec zst (FOneof ms)) L cur
              (local (dflt t) (oty t) (pmerge_ty prec t wt ctx)
                 (fun x old s0 L0 => POk (VL (NOne idx) [x]) s0 (lsub L0 (own_field own_rec zst (FOneof ms) old))) cur s L)).
    { apply conserves_local; [apply conserves_pmerge_ty|apply Hdflt|]. intros x old s0 L0. rewrite Hnew. lsolve. }
    destruct cur as [z|l|kd l]; try exact Hfresh. destruct kd; try exact Hfresh.
    destruct l as [|v [|w l]]; try exact Hfresh. destruct (Nat.eqb_spec idx0 idx) as [->|Hne]; [|exact Hfresh].
    apply (pres_zoom _ (oty t)); [apply conserves_pmerge_ty|]. intros x. rewrite !Hnew. lsolve.
  Qed.

  Lemma conserves_pmerge_fieldval f tag wt ctx : conserves (own_field own_rec zst f) (pmerge_fieldval prec dflt own_rec zst f tag wt ctx).
  Proof.
    destruct f as [t0 t|t0 t|t0 t|t0 k vt|ms]; cbn [pmerge_fieldval].
    - apply conserves_pmerge_ty.
    - intros x s L. apply (pres_zoom _ (oty t)); [apply conserves_pmerge_ty|]. intros y. cbn [own_field].
      destruct x as [z|l|kd l]; try (rewrite Hdflt; lsolve). destruct kd; try (rewrite Hdflt; lsolve).
      destruct l as [|v [|w l]]; try (rewrite Hdflt; lsolve). lsolve.
    - intros x s L. destruct x as [z|l|kd l]; try (cbn; lsolve). destruct kd; try (cbn; lsolve).
      apply (pres_zoom _ (own_vec own_rec zst t)); [apply conserves_pmerge_rep|]. intros y. cbn [own_field]. lsolve.
    - intros x s L. destruct x as [z|l|kd l]; try (cbn; lsolve). destruct kd; try (cbn; lsolve).
      apply (pres_zoom _ (own_map own_rec k vt)); [apply conserves_pmerge_map|]. intros y. cbn [own_field]. lsolve.
    - apply conserves_pmerge_oneof.
  Qed.

  Lemma conserves_pmerge_in_fields tag wt ctx : forall fs,
    conserves (own_fields own_rec zst fs) (pmerge_in_fields prec dflt own_rec zst fs tag wt ctx).
  Proof.
    induction fs as [|f fs IH]; intros xs s L; cbn [pmerge_in_fields].
    - apply conserves_with_m. intros _. apply conserves_pret.
    - destruct xs as [|x xs]; [apply conserves_with_m; intros _; apply conserves_pret|].
      destruct (existsb (Z.eqb tag) (field_tags f)).
      + apply (pres_zoom _ (own_field own_rec zst f)); [apply conserves_pmerge_fieldval|]. intros y. cbn [own_fields]. lsolve.
      + apply (pres_zoom _ (own_fields own_rec zst fs)); [apply IH|]. intros y. cbn [own_fields]. lsolve.
  Qed.
End StepP.

(* a default value holds nothing *)
Lemma own_default_scalar p : own_ty (fun _ _ => lzero) (TScalar p) (default_scalar p) = lzero.
Proof. cbn [own_ty]. unfold default_scalar. destruct (scalar_module p) as [m|]; [apply own_scalar_default|reflexivity]. Qed.

Lemma own_default_msg sc : forall d i, own_msg d sc i (default_msg d sc i) = lzero.
Proof.
  induction d as [|d IH]; intros i; cbn [own_msg default_msg]; [reflexivity|].
  destruct (nth_error sc i) as [fs|]; [|reflexivity].
  induction fs as [|f fs IHf]; cbn [map own_fields]; [reflexivity|]. rewrite IHf.
  assert (own_field (own_msg d sc) (elem_zst sc) f (default_field (fun t => match t with TScalar p => default_scalar p | TMsg j => default_msg d sc j end) f) = lzero) as ->.
  { destruct f as [t0 t|t0 t|t0 t|t0 k vt|ms]; cbn [default_field own_field]; try reflexivity.
    destruct t as [p|j]; cbn [own_ty]; [|apply IH]. unfold default_scalar. destruct (scalar_module p) as [m|]; [apply own_scalar_default|reflexivity]. }
  reflexivity.
Qed.

Lemma own_default_ty sc d t : own_ty (own_msg d sc) t (default_ty d sc t) = lzero.
Proof.
  destruct t as [p|j]; cbn [own_ty default_ty]; [|apply own_default_msg].
  unfold default_scalar. destruct (scalar_module p) as [m|]; [apply own_scalar_default|reflexivity].
Qed.

Theorem conserves_pmerge_field sc : forall d i tag wt ctx, conserves (own_msg d sc i) (pmerge_field d sc i tag wt ctx).
Proof.
  induction d as [|d IH]; intros i tag wt ctx x s L; cbn [pmerge_field own_msg]; [cbn; lsolve|].
  destruct (nth_error sc i) as [fs|]; [|cbn; lsolve].
  destruct x as [z|l|kd l]; try (cbn; lsolve). destruct kd; try (cbn; lsolve).
  apply (pres_zoom _ (own_fields (own_msg d sc) (elem_zst sc) fs)).
  - apply conserves_pmerge_in_fields; [exact IH|apply own_default_ty|reflexivity].
  - intros y. lsolve.
Qed.

Theorem conserves_pmsg_merge sc i : conserves (own_msg depth_fuel sc i) (pmsg_merge sc i).
Proof. unfold pmsg_merge. apply conserves_pwhile_rem. apply conserves_with_m. intros kw. apply conserves_pmerge_field. Qed.

(* ------------------------------------------------------------------ erasure: the same decoder as Msg.v *)
Definition same {S} (pf : PM S) (f : S -> M S) : Prop := forall st s L, erase (pf st s L) = f st s.

Lemma same_with_m {S A} (m : M A) (k : A -> PM S) (k' : A -> S -> M S) :
  (forall a, same (k a) (k' a)) -> same (with_m m k) (fun st => bind m (fun a => k' a st)).
Proof. intros H st s L. unfold with_m, bind. destruct (m s) as [a s'|e s'|p]; [apply H|reflexivity|reflexivity]. Qed.

Lemma same_zoom {S S'} get put (f : PM S') (f' : S' -> M S') :
  same f f' -> same (zoom get put f) (fun st : S => bind (f' (get st)) (fun x => ret (put st x))).
Proof. intros H st s L. unfold zoom, bind. rewrite <- (H (get st) s L). destruct (f (get st) s L); reflexivity. Qed.

Lemma same_local {S S'} init own' (f : PM S') (f' : S' -> M S') (commit : S' -> PM S) (c' : S' -> S -> M S) :
  same f f' -> (forall x, same (commit x) (c' x)) -> same (local init own' f commit) (fun st => bind (f' init) (fun x => c' x st)).
Proof.
  intros H Hc st s L. unfold local, bind. rewrite <- (H init s L). destruct (f init s L) as [x s' L'|e x s' L'|p x L']; [apply Hc|reflexivity|reflexivity].
Qed.

Lemma same_pwhile {S} (body : PM S) (b : S -> M S) limit : same body b ->
  forall fuel, same (pwhile_remaining fuel limit body) (while_remaining fuel limit b).
Proof.
  intros H. induction fuel as [|f IH]; intros st s L; cbn [pwhile_remaining while_remaining]; destruct (Nat.ltb limit (length (rb s))); try reflexivity.
  unfold bind. rewrite <- (H st s L). destruct (body st s L) as [st' s' L'|e st' s' L'|p st' L']; [apply IH|reflexivity|reflexivity].
Qed.

Lemma same_pwhile_rem {S} (body : PM S) (b : S -> M S) limit : same body b -> same (pwhile_rem limit body) (while_rem limit b).
Proof.
  intros H st s L. unfold pwhile_rem, while_rem. apply (same_with_m remaining _ (fun rem st => while_remaining (Datatypes.S rem) limit b st)).
  intros rem. apply same_pwhile. exact H.
Qed.

Lemma same_pmerge_loop {S} (body : PM S) (b : S -> M S) : same body b -> same (pmerge_loop body) (merge_loop b).
Proof.
  intros H st s L. unfold pmerge_loop, merge_loop, with_m, bind.
  destruct (decode_varint s) as [len s1|e s1|p]; try reflexivity. unfold remaining at 1 3. cbn beta iota.
  destruct (Z.of_nat (length (rb s1)) <? len); [reflexivity|].
  rewrite <- (same_pwhile_rem body b _ H st s1 L). destruct (pwhile_rem _ body st s1 L) as [st' s' L'|e st' s' L'|p st' L']; cbn [erase]; try reflexivity.
  unfold remaining. destruct (Nat.eqb (length (rb s')) _); reflexivity.
Qed.

Lemma same_pmerge_scalar m wt : same (pmerge_scalar m wt) (fun _ => merge_scalar m wt).
Proof.
  assert (Hd : same (with_m (merge_scalar m wt) (fun v => passign m v)) (fun _ => merge_scalar m wt)).
  { intros st s L. unfold with_m, passign. destruct (merge_scalar m wt s); reflexivity. }
  destruct m; try exact Hd; intros st s L; cbn [pmerge_scalar]; unfold with_m.
  - change (merge_scalar MString wt s) with (string_merge wt s). unfold string_merge, bind.
    destruct (bytes_merge_one_copy wt s) as [v s'|e s'|p]; try reflexivity. destruct (utf8_valid (vbytes v)); reflexivity.
  - change (merge_scalar MFastStr wt s) with (faststr_merge wt s). destruct (faststr_merge wt s); reflexivity.
  - change (merge_scalar MBytes wt s) with (bytes_merge wt s). destruct (bytes_merge wt s); reflexivity.
Qed.

Lemma same_ppush z v : same (ppush z v) (fun xs => push xs v).
Proof. intros xs s L. unfold ppush, with_m. destruct (push xs v s); reflexivity. Qed.

Lemma same_pmerge_one m wt : same (pmerge_one m wt) (fun vs => let+ v := merge_scalar m wt in push vs v).
Proof.
  apply (same_local _ _ _ (fun _ => merge_scalar m wt) _ (fun v xs => push xs v)); [apply same_pmerge_scalar|apply same_ppush].
Qed.

Lemma same_pmerge_repeated m wt : same (pmerge_repeated m wt) (merge_repeated m wt).
Proof.
  intros vs s L. unfold pmerge_repeated, merge_repeated. destruct (is_len_mod m).
  - apply (same_with_m _ _ (fun _ vs => let+ v := merge_scalar m wt in push vs v)). intros _. apply same_pmerge_one.
  - destruct wt; try (apply (same_with_m _ _ (fun _ vs => let+ v := merge_scalar m _ in push vs v)); intros _; apply same_pmerge_one).
    apply same_pmerge_loop. apply same_pmerge_one.
Qed.

Lemma same_pmessage_merge {T} (mf : Z -> wire_type -> Z -> PM T) (mf' : T -> Z -> wire_type -> Z -> M T) wt ctx :
  (forall tag fwt c, same (mf tag fwt c) (fun x => mf' x tag fwt c)) ->
  same (pmessage_merge mf wt ctx) (fun x => message_merge mf' wt x ctx).
Proof.
  intros H x s L. unfold pmessage_merge, message_merge.
  apply (same_with_m _ _ (fun _ x => let+ _ := limit_reached ctx in let+ ctx' := enter_recursion ctx in
                                     merge_loop (fun msg => let+ (tag, fwt) := decode_key in mf' msg tag fwt ctx') x)). intros _.
  apply (same_with_m _ _ (fun _ x => let+ ctx' := enter_recursion ctx in
                                     merge_loop (fun msg => let+ (tag, fwt) := decode_key in mf' msg tag fwt ctx') x)). intros _.
  apply (same_with_m _ _ (fun ctx' x => merge_loop (fun msg => let+ (tag, fwt) := decode_key in mf' msg tag fwt ctx') x)). intros ctx'.
  apply same_pmerge_loop.
  apply (same_with_m decode_key _ (fun kw msg => let (tag, fwt) := kw in mf' msg tag fwt ctx')). intros [tag fwt]. apply H.
Qed.

Section StepSame.
  Variable prec : nat -> Z -> wire_type -> Z -> PM val.
  Variable rec : nat -> val -> Z -> wire_type -> Z -> M val.
  Variable dflt : ty -> val.
  Variable own_rec : nat -> val -> ledger.
  Variable zst : ty -> bool.
  Hypothesis Hrec : forall i tag wt ctx, same (prec i tag wt ctx) (fun x => rec i x tag wt ctx).

  Lemma same_pmerge_ty t wt ctx : same (pmerge_ty prec t wt ctx) (fun x => merge_ty rec t wt x ctx).
  Proof.
    destruct t as [p|i]; cbn [pmerge_ty merge_ty].
    - destruct (scalar_module p) as [m|]; [apply same_pmerge_scalar|intros st s L; reflexivity].
    - apply same_pmessage_merge. intros. apply Hrec.
  Qed.

  Lemma same_pmerge_rep t wt ctx : same (pmerge_rep prec dflt own_rec zst t wt ctx) (fun xs => merge_rep rec dflt t wt xs ctx).
  Proof.
    destruct t as [p|i]; cbn [pmerge_rep merge_rep].
    - destruct (scalar_module p) as [m|]; [apply same_pmerge_repeated|intros st s L; reflexivity].
    - apply (same_with_m _ _ (fun _ xs => let+ v := message_merge (rec i) LengthDelimited (dflt (TMsg i)) ctx in push xs v)). intros _.
      apply (same_local _ _ _ (fun x => message_merge (rec i) LengthDelimited x ctx) _ (fun v xs => push xs v)); [|apply same_ppush].
      apply same_pmessage_merge. intros. apply Hrec.
  Qed.

  Lemma same_pentry_body k vt ctx' :
    same (pentry_body prec k vt ctx')
         (fun kv : val * val =>
            let+ (tag, wt) := decode_key in
            if tag =? 1 then let+ k' := merge_ty rec (TScalar k) wt (fst kv) ctx' in ret (k', snd kv)
            else if tag =? 2 then let+ v' := merge_ty rec vt wt (snd kv) ctx' in ret (fst kv, v')
            else let+ _ := skip_field depth_fuel wt tag ctx' in ret kv).
  Proof.
    unfold pentry_body.
    apply (same_with_m decode_key _ (fun kw kv => let (tag, wt) := kw in
            if tag =? 1 then let+ k' := merge_ty rec (TScalar k) wt (fst kv) ctx' in ret (k', snd kv)
            else if tag =? 2 then let+ v' := merge_ty rec vt wt (snd kv) ctx' in ret (fst kv, v')
            else let+ _ := skip_field depth_fuel wt tag ctx' in ret kv)).
    intros [tag wt]. cbn [fst snd]. destruct (tag =? 1); [|destruct (tag =? 2)].
    - apply (same_zoom fst (fun kv x => (x, snd kv)) _ (fun x => merge_ty rec (TScalar k) wt x ctx')). apply same_pmerge_ty.
    - apply (same_zoom snd (fun kv x => (fst kv, x)) _ (fun x => merge_ty rec vt wt x ctx')). apply same_pmerge_ty.
    - apply (same_with_m _ _ (fun _ kv => ret kv)). intros _ st s L. reflexivity.
  Qed.

  Lemma same_pmerge_map k vt ctx : same (pmerge_map prec dflt own_rec k vt ctx) (fun es => merge_map rec dflt k vt es ctx).
  Proof.
    unfold pmerge_map, merge_map, map_entry_merge.
    apply (same_local _ _ _ (fun kv0 => let+ _ := limit_reached ctx in let+ ctx' := enter_recursion ctx in
                                         merge_loop (fun kv : val * val =>
                                           let+ (tag, wt) := decode_key in
                                           if tag =? 1 then let+ k' := merge_ty rec (TScalar k) wt (fst kv) ctx' in ret (k', snd kv)
                                           else if tag =? 2 then let+ v' := merge_ty rec vt wt (snd kv) ctx' in ret (fst kv, v')
                                           else let+ _ := skip_field depth_fuel wt tag ctx' in ret kv) kv0)
                       _ (fun kv es => let+ _ := charge 1 in ret (map_insert (fst kv) (snd kv) es))).
    - unfold pmap_entry_merge.
      apply (same_with_m _ _ (fun _ kv0 => let+ ctx' := enter_recursion ctx in merge_loop _ kv0)). intros _.
      apply (same_with_m _ _ (fun ctx' kv0 => merge_loop _ kv0)). intros ctx'.
      apply same_pmerge_loop. apply same_pentry_body.
    - intros kv es s L. reflexivity.
  Qed.

  Lemma same_pmerge_oneof ms tag wt ctx : same (pmerge_oneof prec dflt own_rec zst ms tag wt ctx) (fun cur => merge_oneof rec dflt ms cur tag wt ctx).
  Proof.
    intros cur s L. unfold pmerge_oneof, merge_oneof. destruct (find_member ms tag 0) as [[idx t]|]; [|reflexivity].
    assert (Hfresh : forall st, erase (local (dflt t) (own_ty own_rec t) (pmerge_ty prec t wt ctx)
                 (fun x old s0 L0 => POk (VL (NOne idx) [x]) s0 (lsub L0 (own_field own_rec zst (FOneof ms) old))) st s L)
              = (let+ v' := merge_ty rec t wt (dflt t) ctx in ret (VL (NOne idx) [v'])) s).
    { intros st. apply (same_local _ _ _ (fun x => merge_ty rec t wt x ctx) _ (fun v' _ => ret (VL (NOne idx) [v']))); [apply same_pmerge_ty|].
      intros x st0 s0 L0. reflexivity. }
    destruct cur as [z|l|kd l]; try apply Hfresh. destruct kd; try apply Hfresh.
    destruct l as [|v [|w l]]; try apply Hfresh. destruct (Nat.eqb idx0 idx); [|apply Hfresh].
    apply (same_zoom (fun _ => v) (fun _ x => VL (NOne idx) [x]) _ (fun x => merge_ty rec t wt x ctx)). apply same_pmerge_ty.
  Qed.

  Lemma same_pmerge_fieldval f tag wt ctx :
    same (pmerge_fieldval prec dflt own_rec zst f tag wt ctx) (fun x => merge_fieldval rec dflt f x tag wt ctx).
  Proof.
    destruct f as [t0 t|t0 t|t0 t|t0 k vt|ms]; cbn [pmerge_fieldval merge_fieldval].
    - apply same_pmerge_ty.
    - apply (same_zoom _ (fun _ v => VL NSome [v]) _ (fun x => merge_ty rec t wt x ctx)). apply same_pmerge_ty.
    - intros x s L. destruct x as [z|l|kd l]; try reflexivity. destruct kd; try reflexivity.
      apply (same_zoom (fun _ => l) (fun _ xs' => VL NRep xs') _ (fun xs => merge_rep rec dflt t wt xs ctx)). apply same_pmerge_rep.
    - intros x s L. destruct x as [z|l|kd l]; try reflexivity. destruct kd; try reflexivity.
      apply (same_zoom (fun _ => l) (fun _ es' => VL NMap es') _ (fun es => merge_map rec dflt k vt es ctx)). apply same_pmerge_map.
    - apply same_pmerge_oneof.
  Qed.

  Lemma same_pmerge_in_fields tag wt ctx : forall fs,
    same (pmerge_in_fields prec dflt own_rec zst fs tag wt ctx) (fun xs => merge_in_fields rec dflt fs xs tag wt ctx).
  Proof.
    induction fs as [|f fs IH]; intros xs s L; cbn [pmerge_in_fields merge_in_fields].
    - apply (same_with_m _ _ (fun _ xs => ret xs)). intros _ st s0 L0. reflexivity.
    - destruct xs as [|x xs]; [apply (same_with_m _ _ (fun _ xs => ret xs)); intros _ st s0 L0; reflexivity|].
      destruct (existsb (Z.eqb tag) (field_tags f)).
      + apply (same_zoom (fun _ => x) (fun _ x' => x' :: xs) _ (fun x => merge_fieldval rec dflt f x tag wt ctx)). apply same_pmerge_fieldval.
      + apply (same_zoom (fun _ => xs) (fun _ r => x :: r) _ (fun xs => merge_in_fields rec dflt fs xs tag wt ctx)). apply IH.
  Qed.
End StepSame.

Theorem same_pmerge_field sc : forall d i tag wt ctx, same (pmerge_field d sc i tag wt ctx) (fun x => merge_field d sc i x tag wt ctx).
Proof.
  induction d as [|d IH]; intros i tag wt ctx x s L; cbn [pmerge_field merge_field]; [reflexivity|].
  destruct (nth_error sc i) as [fs|]; [|reflexivity].
  destruct x as [z|l|kd l]; try reflexivity. destruct kd; try reflexivity.
  apply (same_zoom (fun _ => l) (fun _ xs' => VL NMsg xs') _ (fun xs => merge_in_fields (merge_field d sc) (default_ty d sc) fs xs tag wt ctx)).
  apply same_pmerge_in_fields. exact IH.
Qed.

Theorem same_pmsg_merge sc i : same (pmsg_merge sc i) (msg_merge sc i).
Proof.
  unfold pmsg_merge, msg_merge. apply same_pwhile_rem.
  apply (same_with_m decode_key _ (fun kw x => let (tag, wt) := kw in merge_field depth_fuel sc i x tag wt ctx_default)).
  intros [tag wt]. apply same_pmerge_field.
Qed.

(* ------------------------------------------------------------------ C19_pb_no_leak *)
Lemma settle_erase {S} (own : S -> ledger) (r : pout S) : fst (settle own r) = erase r.
Proof. destruct r; reflexivity. Qed.

(* equal in the components a value can be asked about (heap blocks, handles of non-empty slices) *)
Definition same_hr (a b : ledger) : Prop := l_heap a = l_heap b /\ l_refs a = l_refs b.

Lemma bal_zero L o : bal L o lzero lzero -> same_hr L o.
Proof. intros H. unfold same_hr. lsolve. Qed.

Lemma bal_zero_cut L o : bal L o lzero lzero -> cut_tail 0 (lsub L o) = lzero.
Proof. intros H. apply ledger_ext; lsolve. Qed.

(* Message::decode: the model is Msg.v's decoder; after a failure (DecodeError or unwinding) nothing the decode allocated
   is live and no handle on the input survives; after a success the live heap blocks and handles are exactly what the returned
   message holds *)
Theorem no_leak sc i s :
  fst (own_decode sc i s) = msg_decode sc i s /\
  match fst (own_decode sc i s) with
  | OOk v _ => same_hr (snd (own_decode sc i s)) (own_msg depth_fuel sc i v)
  | _ => snd (own_decode sc i s) = lzero
  end.
Proof.
  unfold own_decode. split; [rewrite settle_erase; apply same_pmsg_merge|].
  pose proof (conserves_pmsg_merge sc i (default_msg depth_fuel sc i) s lzero) as H.
  destruct (pmsg_merge sc i (default_msg depth_fuel sc i) s lzero) as [v s' L'|e v s' L'|p v L']; cbn [pres settle fst snd] in *;
    rewrite own_default_msg in H; [apply bal_zero|apply bal_zero_cut|apply bal_zero_cut]; exact H.
Qed.

(* merging into a message the caller already owns: while it is alive the ledger is what it holds -- the partially merged
   message after a failure included --, and dropping it leaves nothing *)
Theorem merge_no_leak sc i x s L :
  erase (pmsg_merge sc i x s L) = msg_merge sc i x s /\
  match pmsg_merge sc i x s (own_msg depth_fuel sc i x) with
  | POk x' _ L' | PErr _ x' _ L' | PPanic _ x' L' => same_hr L' (own_msg depth_fuel sc i x')
  end /\
  match fst (own_merge_then_drop sc i x s) with
  | OOk x' _ => same_hr (snd (own_merge_then_drop sc i x s)) (own_msg depth_fuel sc i x')
  | _ => snd (own_merge_then_drop sc i x s) = lzero
  end.
Proof.
  split; [apply same_pmsg_merge|].
  pose proof (conserves_pmsg_merge sc i x s (own_msg depth_fuel sc i x)) as H. unfold own_merge_then_drop.
  destruct (pmsg_merge sc i x s (own_msg depth_fuel sc i x)) as [v s' L'|e v s' L'|p v L']; cbn [pres settle fst snd] in *;
    (split; [unfold same_hr; lsolve|]); [unfold same_hr; lsolve|apply ledger_ext; lsolve|apply ledger_ext; lsolve].
Qed.

(* wrapper impls of types.rs *)
Lemma conserves_pwrapper_merge m : conserves (own_wrapper m) (pwrapper_merge m).
Proof.
  unfold pwrapper_merge. apply conserves_pwhile_rem. apply conserves_with_m. intros [tag wt]. cbn [fst snd].
  destruct m as [m'|]; cbn [pwrapper_merge_field own_wrapper].
  - destruct (tag =? 1); [apply conserves_pmerge_scalar|apply conserves_with_m; intros _; apply conserves_pret].
  - apply conserves_with_m; intros _; apply conserves_pret.
Qed.

Lemma same_pwrapper_merge m : same (pwrapper_merge m) (wrapper_merge m).
Proof.
  unfold pwrapper_merge, wrapper_merge. apply same_pwhile_rem.
  apply (same_with_m decode_key _ (fun kw x => let (tag, wt) := kw in wrapper_merge_field m x tag wt ctx_default)).
  intros [tag wt]. cbn [fst snd]. destruct m as [m'|]; cbn [pwrapper_merge_field wrapper_merge_field].
  - destruct (tag =? 1); [apply same_pmerge_scalar|]. apply (same_with_m _ _ (fun _ x => ret x)). intros _ st s L. reflexivity.
  - apply (same_with_m _ _ (fun _ x => ret x)). intros _ st s L. reflexivity.
Qed.

Lemma own_wrapper_default m : own_wrapper m (wrapper_default m) = lzero.
Proof. destruct m as [m'|]; cbn [own_wrapper wrapper_default]; [apply own_scalar_default|reflexivity]. Qed.

Theorem wrapper_no_leak m s :
  fst (own_wrapper_decode m s) = wrapper_decode m s /\
  match fst (own_wrapper_decode m s) with
  | OOk v _ => same_hr (snd (own_wrapper_decode m s)) (own_wrapper m v)
  | _ => snd (own_wrapper_decode m s) = lzero
  end.
Proof.
  unfold own_wrapper_decode. split; [rewrite settle_erase; apply same_pwrapper_merge|].
  pose proof (conserves_pwrapper_merge m (wrapper_default m) s lzero) as H.
  destruct (pwrapper_merge m (wrapper_default m) s lzero) as [v s' L'|e v s' L'|p v L']; cbn [pres settle fst snd] in *;
    rewrite own_wrapper_default in H; [apply bal_zero|apply bal_zero_cut|apply bal_zero_cut]; exact H.
Qed.
(* ------------------------------------------------------------------ non-vacuity *)
(* message 0 { repeated bytes r = 1; string s = 2; map<int32, bytes> m = 3; }   message 1 { repeated Msg0 items = 1; } *)
Definition own_schema : schema :=
  [ [FRepeated 1 (TScalar TYPE_BYTES); FSingular 2 (TScalar TYPE_STRING); FMap 3 TYPE_INT32 (TScalar TYPE_BYTES)];
    [FRepeated 1 (TMsg 0)] ].

(* r = ["ab"], m = {1: "x"}, then a string record that announces 5 bytes and has 1 *)
Definition own_bad : list byte := [x0a; x02; x61; x62; x1a; x05; x08; x01; x12; x01; x78; x12; x05; x61].
Definition own_good : list byte := [x0a; x02; x61; x62; x1a; x05; x08; x01; x12; x01; x78; x12; x01; x61].

(* at the moment the decode fails the partially built message holds two heap blocks (the Vec, the table) and two handles
   on the input (the element, the map value); Message::decode drops it: nothing is left *)
Example partial_message_is_dropped : exists e partial s,
  pmsg_merge own_schema 0 (default_msg depth_fuel own_schema 0) (mkR own_bad 0) lzero = PErr e partial s (mkL 2 2 0) /\
  own_msg depth_fuel own_schema 0 partial = mkL 2 2 0 /\
  own_decode own_schema 0 (mkR own_bad 0) = (OErr e s, lzero).
Proof. vm_compute. repeat eexists. Qed.

Example success_holds_its_resources : exists v s,
  own_decode own_schema 0 (mkR own_good 0) = (OOk v s, mkL 2 2 0) /\ own_msg depth_fuel own_schema 0 v = mkL 2 2 0.
Proof. vm_compute. repeat eexists. Qed.

(* a local is dropped where it fails: the element of `items` under construction held a Vec and a handle; the target
   (`items`, still empty) holds nothing, and the ledger at the error exit is already empty *)
Example local_is_dropped : exists e s,
  pmsg_merge own_schema 1 (default_msg depth_fuel own_schema 1) (mkR ([x0a; x07; x0a; x02; x61; x62; x12; x05; x61]) 0) lzero
  = PErr e (VL NMsg [VL NRep []]) s lzero.
Proof. vm_compute. repeat eexists. Qed.

(* the zero-length Bytes cut at the very end of the input pins the buffer: r = [""] as the last record *)
Example tail_handle : exists v s, own_decode own_schema 0 (mkR [x0a; x00] 0) = (OOk v s, mkL 1 0 1).
Proof. vm_compute. repeat eexists. Qed.

(* ... and is released with the message when the decode fails after it (an embedded Msg0 of declared length 1 whose bytes
   field reads its length prefix beyond that: "delimited length exceeded") *)
Example tail_handle_dropped : exists e s,
  own_decode own_schema 1 (mkR [x0a; x01; x0a; x00] 0) = (OErr e s, lzero).
Proof. vm_compute. repeat eexists. Qed.

(* overwriting releases: a map entry with an existing key drops the new key's and the old value's resources
   (m = {1: "x"} then {1: "yz"}: one table, one handle) *)
Example overwrite_releases : exists v s,
  own_decode own_schema 0 (mkR [x1a; x05; x08; x01; x12; x01; x78; x1a; x06; x08; x01; x12; x02; x79; x7a] 0) = (OOk v s, mkL 1 1 0).
Proof. vm_compute. repeat eexists. Qed.
