(* accounted = regenerated, as lists of (file, generator function, kind, line text) -- by computation on the table that
   tools/gen_template_inventory.py rewrites from the pilota-build / pilota sources on every run *)
From Coq Require Import String List Bool.
From PVGen Require Import Generated.TemplateSites TemplateAcc.
Import ListNotations.
Local Open Scope bool_scope.

Lemma template_own_accounted : map fst accounted_own_sites = template_own_sites.
Proof. vm_compute. reflexivity. Qed.

Lemma template_panic_accounted : map fst accounted_panic_sites = template_panic_sites.
Proof. vm_compute. reflexivity. Qed.

Definition odisp_eqb (a b : odisp) : bool :=
  match a, b with OListArm, OListArm | OSliceCopy, OSliceCopy | OSliceSplit, OSliceSplit | ORuntime, ORuntime => true | _, _ => false end.
Definition pdisp_eqb (a b : pdisp) : bool :=
  match a, b with
  | PModelPanic, PModelPanic | PRuntimeLen, PRuntimeLen | PAllocClause, PAllocClause | PGuardedCounter, PGuardedCounter
  | PEncodeSize, PEncodeSize | PNotAnOperation, PNotAnOperation => true
  | _, _ => false
  end.
Definition kind_of (r : (string * string * string * string)) : string := snd (fst r).
Definition file_of (r : (string * string * string * string)) : string := fst (fst (fst r)).

(* shape of the accounting: the emitted text leaves the safe fragment in exactly ONE place that can lose a value (the list arm:
   every `unsafe` / pointer write / set_len of the templates outside mod.rs); the raw pointer of the retention templates only
   feeds get_bytes; every with_capacity is under the memory clause; exactly one arithmetic site is a modelled panic *)
Lemma template_own_shape :
  forallb (fun sr => if String.eqb (file_of (fst sr)) "ty.rs" then odisp_eqb (snd sr) OListArm else negb (odisp_eqb (snd sr) OListArm))
          accounted_own_sites = true /\
  forallb (fun sr => if odisp_eqb (snd sr) OSliceCopy || odisp_eqb (snd sr) OSliceSplit
                     then String.eqb (kind_of (fst sr)) "as_ptr" || String.eqb (kind_of (fst sr)) "get_bytes" || String.eqb (kind_of (fst sr)) "unsafe"
                     else true) accounted_own_sites = true.
Proof. vm_compute. auto. Qed.

Lemma template_panic_shape :
  forallb (fun sr => Bool.eqb (String.eqb (kind_of (fst sr)) "alloc") (pdisp_eqb (snd sr) PAllocClause)) accounted_panic_sites = true /\
  length (filter (fun sr => pdisp_eqb (snd sr) PModelPanic) accounted_panic_sites) = 1%nat /\
  forallb (fun sr => negb (String.eqb (kind_of (fst sr)) "unwrap" || String.eqb (kind_of (fst sr)) "expect" ||
                           String.eqb (kind_of (fst sr)) "panic_macro" || String.eqb (kind_of (fst sr)) "index")) accounted_panic_sites = true.
Proof. vm_compute. auto. Qed.

Lemma template_own_inventory :
  map fst accounted_own_sites = template_own_sites /\
  forallb (fun sr => if String.eqb (file_of (fst sr)) "ty.rs" then odisp_eqb (snd sr) OListArm else negb (odisp_eqb (snd sr) OListArm))
          accounted_own_sites = true.
Proof. split; [exact template_own_accounted|exact (proj1 template_own_shape)]. Qed.

Lemma template_panic_inventory :
  map fst accounted_panic_sites = template_panic_sites /\
  forallb (fun sr => Bool.eqb (String.eqb (kind_of (fst sr)) "alloc") (pdisp_eqb (snd sr) PAllocClause)) accounted_panic_sites = true /\
  length (filter (fun sr => pdisp_eqb (snd sr) PModelPanic) accounted_panic_sites) = 1%nat /\
  forallb (fun sr => negb (String.eqb (kind_of (fst sr)) "unwrap" || String.eqb (kind_of (fst sr)) "expect" ||
                           String.eqb (kind_of (fst sr)) "panic_macro" || String.eqb (kind_of (fst sr)) "index")) accounted_panic_sites = true.
Proof. split; [exact template_panic_accounted|exact template_panic_shape]. Qed.
