(* ImplDefaultPlugin (pilota-build/src/plugin/mod.rs 343-440) and the decode-time default filling, as functions
   of the lowered schema (whose field defaults are the values of the IDL literals).  Model only, no proofs. *)
From PVGen Require Export Gen.
Open Scope Z_scope.

(* Rust Default::default() of the emitted type *)
Fixpoint default_val (S : schema) (fuel : nat) (t : ty) : option gval :=
  match fuel with
  | O => None
  | Datatypes.S f =>
      match resolve S t with
      | TyBool => Some (GBool false)
      | TyI8 => Some (GI8 0) | TyI16 => Some (GI16 0) | TyI32 => Some (GI32 0) | TyI64 => Some (GI64 0)
      | TyDouble => Some (GDouble 0)
      | TyString | TyBinary => Some (GBytes [])
      | TyUuid => Some (GUuid (repeat x00 16))
      | TyVoid => Some GVoid
      | TyList _ => Some (GList []) | TySet _ => Some (GSet []) | TyMap _ _ => Some (GMap [])
      | TyRef n =>
          match lookup S n with
          | Some (DEnum _) => Some (GEnum 0)                 (* derive(Default) on the i32 newtype *)
          | Some (DStruct fs _ _) =>
              (* all fields without default: derive(Default); otherwise the explicit impl: the default
                 (Some(..) when optional) or Default::default() *)
              match
                (fix go (fs : list field) : option (list (Z * gval)) :=
                   match fs with
                   | [] => Some []
                   | fd :: r =>
                       match go r with
                       | None => None
                       | Some rest =>
                           match f_dflt fd with
                           | Some (_, d) => Some ((f_id fd, d) :: rest)
                           | None =>
                               match f_req fd with
                               | Optional => Some rest                     (* Option::default() = None *)
                               | Required => match default_val S f (f_ty fd) with
                                             | Some d => Some ((f_id fd, d) :: rest)
                                             | None => None
                                             end
                               end
                           end
                       end
                   end) fs
              with
              | Some l => Some (GStruct l [])
              | None => None
              end
          | Some (DUnion ((id, vt) :: _) _ _) =>
              match default_val S f vt with Some d => Some (GUnion id d) | None => None end
          | _ => None
          end
      end
  end.

Definition default_of (S : schema) (t : ty) : option gval := default_val S (Datatypes.S (Datatypes.S (length S))) t.
