"""C09 -- safe Thrift decoders are total (primitive level: in-memory and asynchronous readers of
binary / binary-LE / compact under the self-describing value interpreter)."""
import random, re
from .. import core, thriftgen as tg, malform as mf

PKS = ["binary", "binary_le", "compact"]
MEM_SLOPE, MEM_CONST = 64, 64 * 1024


def valid_encodings(rng, n, runner):
    """(pk, ttype code, bytes, is_struct) of generated well-typed values, encoded by the model
    (whose encoder is proved correct: C01)"""
    reqs = []
    for pk in PKS:
        for v in ["S2 f1 i5 f2 s6162", "S1 f1 L8,2 i1 i2", "S2 f1 b1 f2 M11,8,1 s61 i7", "S1 f1 S1 f1 S1 f1 y1",
                  "L11,2 s6162 s63", "M8,15,1 i1 L3,2 y1 y2", "S1 f3 u000102030405060708090a0b0c0d0e0f",
                  "S1 f1 T10,1 l-1", "S1 f1 d4609434218613702656"]:
            reqs.append((pk, v))
    while len(reqs) < n:
        reqs.append((rng.choice(PKS), tg.gen_of_type(rng, rng.choice(["struct", "struct", "struct", "list", "map", "set"]),
                                                      rng.choice([1, 2, 2, 3]), big_ok=False)))
    outs = core.run_lines(runner, ["rt %s contig - 1 %s" % (pk, v) for pk, v in reqs])
    res = []
    for (pk, v), o in zip(reqs, outs):
        if o.startswith("W "):
            hx = o.split(" ")[1]
            b = b"" if hx == "-" else bytes.fromhex(hx)
            code = {"S": 12, "L": 15, "T": 14, "M": 13}[v[0]]
            if len(b) <= 400:
                res.append((pk, code, b, v[0] == "S"))
    return res


def gen_cases(rng, n, runner):
    """case line -> (kind, is strict prefix of a valid struct encoding)"""
    cases = {}
    valids = valid_encodings(rng, max(30, n // 150), runner)
    for pk, code, b, is_struct in valids:
        cases.setdefault("rd %s %d %s" % (pk, code, tg.hx(b)), ("valid", False))
        for m, kind in mf.truncations(b, rng):
            cases.setdefault("rd %s %d %s" % (pk, code, tg.hx(m)), (kind, is_struct and len(m) < len(b)))
        for m, kind in mf.bitflips(b, rng) + mf.overwrites(b, pk, rng):
            cases.setdefault("rd %s %d %s" % (pk, code, tg.hx(m)), (kind, False))
        # the skippers are decoders too (generated decoders skip unknown fields): in-memory, asynchronous, and a
        # tolerant struct reader that skips some field ids
        for m, kind in mf.truncations(b, rng, cap=8) + mf.overwrites(b, pk, rng, cap=12) + mf.bitflips(b, rng, cap=6):
            cases.setdefault("sk %s sync %d %s -" % (pk, code, tg.hx(m)), ("skip-" + kind, False))
            cases.setdefault("sk %s async:%s %d %s -" % (pk, rng.choice(["all", "b1"]), code, tg.hx(m)), ("askip-" + kind, False))
            if is_struct:
                ids = ",".join(str(i) for i in sorted(set(rng.choice([1, 2, 3, 5, 16, 200, -3]) for _ in range(2))))
                cases.setdefault("rds %s sync %s %s" % (pk, tg.hx(m), ids), ("tolerant-" + kind, False))
                cases.setdefault("rds %s async:%s %s %s" % (pk, rng.choice(["all", "b1", "h"]), tg.hx(m), ids), ("atolerant-" + kind, False))
        # asynchronous reader: a few truncations / corruptions under different delivery schedules
        for m, kind in (mf.truncations(b, rng, cap=6) + mf.overwrites(b, pk, rng, cap=6) + [(b, "valid")]):
            sched = rng.choice(["all", "b1", "h", "b1/p1"])
            cases.setdefault("ard %s %d %s %s" % (pk, code, tg.hx(m), sched), ("async-" + kind, False))
    for m, kind in mf.randoms(rng, max(50, n // 20)):
        for pk in PKS:
            cases.setdefault("rd %s %d %s" % (pk, rng.choice([12, 12, 13, 14, 15, 11, 8, 16, 2]), tg.hx(m)), (kind, False))
    items = list(cases.items())
    if len(items) > n:
        keep = [it for it in items if it[1][0] in ("valid", "trunc")]
        rest = [it for it in items if it[1][0] not in ("valid", "trunc")]
        rng.shuffle(rest)
        items = keep + rest[:max(0, n - len(keep))]
    return items


DEEP = 100000


def deep_inputs(pk, depth):
    """(kind, top ttype code, bytes) : `depth` levels of nesting through ONE container kind alone and mixed; the innermost
    value is an empty container, so the input is well-formed for a reader without a depth limit"""
    out = []
    if pk == "compact":
        lst, st = b"\x19", b"\x1a"
        out.append(("list", 15, lst * depth + b"\x03"))
        out.append(("set", 14, st * depth + b"\x03"))
        out.append(("map-value", 13, b"\x01\x3b\x00" * depth + b"\x00"))
        out.append(("map-key", 13, b"\x01\xb3" * depth + b"\x00" + b"\x00" * depth))
        out.append(("struct", 12, b"\x1c" * depth + b"\x00" * (depth + 1)))
        # mixed: list of set of map(value) of struct(field 1) of list ...
        unit_open = b"\x1a" + b"\x1b" + b"\x01\x3c" + b"\x00" + b"\x19"      # list<set>, set<map>, map<i8,struct> hdr, key, struct field 1: list
        out.append(("mixed", 15, b"\x1a" + (b"\x1b" + b"\x01\x3c\x00" + b"\x19" + b"\x1a") * (depth // 4) + b"\x03"))
    else:
        def i32(n):
            return n.to_bytes(4, "big" if pk == "binary" else "little")
        def i16(n):
            return n.to_bytes(2, "big" if pk == "binary" else "little")
        out.append(("list", 15, (b"\x0f" + i32(1)) * depth + b"\x03" + i32(0)))
        out.append(("set", 14, (b"\x0e" + i32(1)) * depth + b"\x03" + i32(0)))
        out.append(("map-value", 13, (b"\x03\x0d" + i32(1) + b"\x00") * depth + b"\x03\x03" + i32(0)))
        out.append(("map-key", 13, (b"\x0d\x03" + i32(1)) * depth + b"\x03\x03" + i32(0) + b"\x00" * depth))
        out.append(("struct", 12, (b"\x0c" + i16(1)) * depth + b"\x00" * (depth + 1)))
        out.append(("mixed", 15, b"\x0e" + i32(1) + (b"\x0d" + i32(1) + b"\x03\x0c" + i32(1) + b"\x00" + b"\x0f" + i16(1) + b"\x0e" + i32(1)) * (depth // 4)
                    + b"\x03" + i32(0)))
    return out


def deep_cases(depth=DEEP):
    """hostile nesting far beyond every limit, through each container kind, for every skipper and reader entry"""
    cases = []
    for pk in PKS:
        for kind, code, b in deep_inputs(pk, depth):
            hx = b.hex()
            # an exception / enclosing struct whose (unknown) field 9 is the deep value
            if pk == "compact":
                ct = {15: 9, 14: 10, 13: 11, 12: 12}[code]
                fld = bytes([0x90 | ct])
            else:
                fld = bytes([code]) + (b"\x00\x09" if pk == "binary" else b"\x09\x00")
            fh = (fld + b).hex()
            cases.append(("sk %s sync %d %s -" % (pk, code, hx), dict(kind="deep-skip", nest=kind)))
            cases.append(("sk %s async:all %d %s -" % (pk, code, hx), dict(kind="deep-askip", nest=kind)))
            cases.append(("appr %s %s" % (pk, fh), dict(kind="deep-app", nest=kind)))
            cases.append(("aappr %s %s all" % (pk, fh), dict(kind="deep-aapp", nest=kind)))
            cases.append(("rds %s sync %s 9" % (pk, fh), dict(kind="deep-loop", nest=kind)))
            cases.append(("rds %s async:all %s 9" % (pk, fh), dict(kind="deep-aloop", nest=kind)))
            if kind != "mixed":
                cases.append(("rd %s %d %s" % (pk, code, hx), dict(kind="deep-read", nest=kind)))
                cases.append(("ard %s %d %s all" % (pk, code, hx), dict(kind="deep-aread", nest=kind)))
            if pk == "binary" and kind != "mixed":
                cases.append(("usk %d %s -" % (code, hx + "00" * 16), dict(kind="deep-uskip", nest=kind)))
    return cases


def deep_oracle(case, meta, out):
    if out.startswith("panic"):
        return "decoder panicked on deeply nested input (%s)" % meta["nest"]
    if out.startswith("CRASH"):
        return "decoder crashed the process on deeply nested input (%s nesting, %d levels): stack overflow / abort" % (meta["nest"], DEEP)
    if out.startswith("HANG"):
        return "asynchronous decoder did not finish on deeply nested input"
    k = meta["kind"]
    if k in ("deep-skip", "deep-askip", "deep-app", "deep-aapp", "deep-loop", "deep-aloop"):
        if not out.startswith("err DepthLimit"):
            return "nesting of %d levels (%s) is beyond the skip-depth limit but the skipper answered: %s" % (DEEP, meta["nest"], out[:60])
    elif not (out.startswith("ok ") or out.startswith("err ")):
        return "unexpected output: " + out[:60]
    return None


def answered(x):
    """a harness / runner line that is an answer (not empty, not the driver's marker for a dead or silent process)"""
    return bool(x) and not x.startswith(("CRASH", "HANG", "TIMEOUT", "NOANSWER"))

def strip_impl(o):
    o = re.sub(r" MEM \d+", "", o)
    i = o.find(" ORACLE-FAIL")
    return o if i < 0 else o[:i]


def oracle(case, meta, out):
    """C09 restated on the implementation's output alone"""
    kind, strict_prefix = meta
    hxs = case.split(" ")[4 if case.startswith("sk ") else 3]
    nbytes = 0 if hxs == "-" else len(hxs) // 2
    if out.startswith("panic"):
        return "decoder panicked"
    if out.startswith("CRASH"):
        return "decoder crashed the process (abort / stack overflow / timeout)"
    if out.startswith("HANG"):
        return "asynchronous decoder did not finish within its poll budget"
    if not (out.startswith("ok ") or out.startswith("err ")):
        return "unexpected output: " + out[:80]
    m = re.search(r" MEM (\d+)", out)
    if m and int(m.group(1)) > MEM_SLOPE * nbytes + MEM_CONST:
        return "decoder requested %s bytes of memory for %d bytes of input" % (m.group(1), nbytes)
    if strict_prefix and out.startswith("ok "):
        return "a strict prefix of a valid struct encoding was accepted"
    if "ORACLE-FAIL" in out:
        return "read flavours disagree: " + out[out.index("ORACLE-FAIL"):]
    return None


def run_prim(chk, replay=None):
    gate, hb = core.std_setup(chk)
    rng = random.Random(chk.seed)
    n = 20000 if chk.tier == "quick" else 1500000
    have_model = gate is not None and core.os.path.exists(core.RUNNER)
    if replay is not None:
        items = [(replay["case"], tuple(replay.get("meta", ("replay", False))))]
    else:
        items = gen_cases(rng, n, core.RUNNER)
    cases = [c for c, _ in items]
    chk.cov["rule"] = ("rd/ard cases: for generated valid encodings (model-encoded, depth<=3) every truncation point "
                       "(all for <=48 bytes), single-bit flips, every offset overwritten with boundary words/varints "
                       "(-1, 0, 1, remaining+-1, i32::MAX, u32::MAX, over-long varints) and type bytes, plus random strings; "
                       "x {binary, binary_le, compact}; ard = the asynchronous reader under a delivery schedule. "
                       "non-trivial = derived from a valid encoding (not pure random); distinct by SHA-1 of the case line. "
                       "deep: %d levels of nesting through list / set / map key / map value / struct alone and mixed x 3 protocols x "
                       "{skip, async skip, ApplicationException::decode(_async) with the value as an unknown field, field-loop skip sync/async, "
                       "generic reader sync/async, unchecked iterative skipper}, each case in its own process (stack overflow = crash)" % DEEP)
    bins = [("debug", hb)] if hb else []
    if hb and chk.tier == "thorough":
        ok, hb2, _ = core.build_harness(release=True)
        if ok:
            bins.append(("release", hb2))
    model = [re.sub(r"panic \w+", "panic", l) for l in core.run_lines(core.RUNNER, cases)] if have_model else None
    failing, mism = [], []
    compared = oracled = 0      # pairs (implementation answer, model answer) actually compared / answers put to the oracle
    kinds = {}
    for c, meta in items:
        kinds[meta[0]] = kinds.get(meta[0], 0) + 1
        chk.count(c, meta[0] != "random")
    outcome = {}
    for prof, b in bins:
        impl = core.run_lines(b, cases)
        for (c, meta), o in zip(items, impl):
            oracled += 1
            why = oracle(c, meta, o)
            outcome[o.split(" ")[0] + ((" " + o.split(" ")[1]) if o.startswith("err") else "")] = \
                outcome.get(o.split(" ")[0] + ((" " + o.split(" ")[1]) if o.startswith("err") else ""), 0) + 1
            if why:
                failing.append((c, meta, "%s [%s build]" % (why, prof), o))
        if model is not None:
            for c, o, m in zip(cases, impl, model):
                if not (answered(o) and answered(m)):
                    if answered(o) != answered(m):
                        mism.append((c, o, m, prof))
                    continue
                compared += 1
                if strip_impl(o) != m:
                    mism.append((c, o, m, prof))
    # hostile nesting: every case in its own process (an overflow of the native stack kills the process; the driver then
    # reports the case as CRASH and the input is the replay)
    deep = deep_cases() if replay is None else []
    if replay is not None and str(replay.get("meta", [""])[0]).startswith("deep-"):
        deep = [(replay["case"], dict(kind=replay["meta"][0], nest=replay["meta"][1]))]
        items, cases = [], []
    for prof, b in bins:
        if deep:
            # one process per case, at most 16 at a time (each deep `rd` / `ard` case reserves a large stack for the harness's own
            # recursion; a hundred of them at once is a needless load on a small machine)
            douts = []
            dl = [c for c, _ in deep]
            for i in range(0, len(dl), 16):
                douts += core.run_lines(b, dl[i:i + 16], shards=len(dl[i:i + 16]), timeout=600)
            for (c, meta), o in zip(deep, douts):
                kinds[meta["kind"]] = kinds.get(meta["kind"], 0) + 1
                chk.count(c[:200] + str(len(c)), True)
                oracled += 1
                why = deep_oracle(c, meta, o)
                if why:
                    failing.append((c, (meta["kind"], meta["nest"]), "%s [%s build]" % (why, prof), o))
    for c in ((cases[0], cases[len(cases) // 3], cases[-1]) if cases else ()):
        chk.sample(c[:300])
    chk.cov["disagreements_checked"] = compared
    chk.cov["oracle_checked"] = oracled
    chk.cov["model_impl_mismatches"] = len(mism)
    chk.cov["distribution"] = dict(kinds=kinds, outcomes=outcome,
                                   max_input_bytes=max((len(c.split(" ")[4 if c.startswith("sk ") else 3]) // 2 for c in cases), default=0))
    for c, meta, why, o in failing[:3]:
        chk.violation("C09 fails on the implementation: " + why, dict(kind="case", case=c, meta=list(meta), impl_output=o[:500]))
    if not failing:
        if mism:
            c, o, m, prof = mism[0]
            chk.violation("correspondence rd/ard broken: model and implementation disagree (%d cases) but the totality "
                          "oracle found no failing input" % len(mism),
                          dict(kind="correspondence", correspondence="rd/ard (coq/Thrift/Interp.v, Async.v vs pilota::thrift readers)",
                               case=c, impl_output=o[:500], model_output=m[:500], build=prof), no_input=True)
        if not gate["ok"]:
            chk.violation("proof obligation broken: %s (%s)" % (gate.get("failed"), gate.get("error", "")[:300]),
                          dict(kind="proof", theorem_file="coq/Properties/C09.v", failed=gate.get("failed"),
                               error=gate.get("error"), theorems=gate["theorems"]), no_input=True)
    return chk.finish()


def run(chk, replay=None):
    """primitive level (value interpreter over the runtime API) + generated-code level (code emitted by the real
    pilota-build, gen family); a replay file belongs to exactly one of them"""
    from .. import genextra
    is_gen = replay is not None and isinstance(replay.get("case"), dict)
    parts = []
    if replay is None or not is_gen:
        parts.append(("primitive", lambda c: run_prim(c, replay)))
    if replay is None or is_gen:
        parts.append(("generated", lambda c: genextra.run_c09g(c, replay, prop="C09")))
    return chk.run_parts(parts)
