(* Extraction of the executable models for the correspondence runner.
   Directives: ExtrOcamlBasic only (bool, option, unit, list, prod, sumbool, sumor -> OCaml's).
   Z / positive / N / nat / byte stay the extracted inductive types.  No Extract Constant. *)
Require Extraction.
Require Import ExtrOcamlBasic.
From PV Require Import Thrift.Interp Thrift.Len Thrift.Async Thrift.Skip Thrift.Spec Thrift.Msg Thrift.Unsafe Thrift.AppMsg.

Extraction "model.ml"
  Z.add Z.mul Z.sub Z.opp Z.div Z.modulo Z.ltb Z.eqb Z.of_nat Z.to_nat Z.of_N Pos.succ
  b2z z2b
  write_val write_vals read_val read_vals flat zc_len w0 r0 mkS rbuf len_val len_vals aread_val aread_vals skip askip sencB sencC annot w_message_begin r_message_begin spec_msgB spec_msgC mtype_of_code mtype_code uwrite_vals uw_contig uw_linked uread_vals uread_val u_skip u_field_begin urest tread_struct atread_struct utread_struct
  app_encode app_size app_decode app_decode_async w_message_end a_message_begin uw_message_begin u_message_begin uwrite_val
  ttype_of_byte ttype_code.
