#!/usr/bin/env python3
"""Translator: re-reads /repo's Rust sources and regenerates coq/Generated/*.v.

Every declarative table/constant the Coq models depend on comes from here, so the
theorems are re-checked against what the code says *now*.  Fails loudly (exit 2) when a
table cannot be found or has an unexpected shape -- it never keeps an old value.
Usage: extract.py [--repo /repo] [--out /verif/coq/Generated]   (writes only on change)
"""
import re, sys, os, argparse, hashlib, json

def die(msg):
    print("extract.py: " + msg, file=sys.stderr)
    sys.exit(2)

def read(repo, rel):
    p = os.path.join(repo, rel)
    try:
        return open(p, encoding="utf-8").read()
    except OSError as e:
        die(f"cannot read {p}: {e}")

def strip_comments(s):
    s = re.sub(r"/\*.*?\*/", "", s, flags=re.S)
    s = re.sub(r"//[^\n]*", "", s)
    return s

def num(tok):
    tok = tok.strip().replace("_", "")
    m = re.fullmatch(r"(0x[0-9a-fA-F]+|0b[01]+|\d+)(?:[iu](?:8|16|32|64|size))?", tok)
    if not m:
        # simple products like 4 * 1024
        if re.fullmatch(r"[\d\s\*\+x0-9a-fA-F]+", tok):
            return int(eval(tok, {"__builtins__": {}}))
        die(f"cannot parse number {tok!r}")
    return int(m.group(1), 0)

def enum_body(src, name):
    m = re.search(r"pub enum " + name + r"\s*\{(.*?)\n\}", src, flags=re.S)
    if not m:
        die(f"enum {name} not found")
    body = strip_comments(m.group(1))
    out = []
    for part in body.split(","):
        part = part.strip()
        if not part:
            continue
        part = re.sub(r"#\[[^\]]*\]", "", part).strip()
        mm = re.fullmatch(r"(\w+)\s*=\s*(\S+)", part)
        if not mm:
            die(f"enum {name}: cannot parse member {part!r}")
        out.append((mm.group(1), num(mm.group(2))))
    return out

# the target the checks run on; a cfg predicate outside this vocabulary stops the translator
TARGET = {"target_os": "linux", "target_arch": "x86_64", "target_family": "unix", "target_pointer_width": "64", "target_endian": "little"}

def cfg_eval(expr, what):
    """evaluate the argument of #[cfg(..)] for TARGET: all(..) any(..) not(..) key = "value" unix/windows/test/debug_assertions"""
    toks = re.findall(r'\w+|"[^"]*"|[(),=]', expr)
    pos = [0]
    def peek(): return toks[pos[0]] if pos[0] < len(toks) else None
    def take(t=None):
        x = peek()
        if x is None or (t is not None and x != t): die("const %s: cannot parse cfg(%s)" % (what, expr))
        pos[0] += 1; return x
    def pred():
        w = take()
        if w in ("all", "any", "not"):
            take("("); args = []
            while peek() != ")":
                args.append(pred())
                if peek() == ",": take(",")
            take(")")
            if w == "not":
                if len(args) != 1: die("const %s: not() with %d arguments" % (what, len(args)))
                return not args[0]
            return all(args) if w == "all" else any(args)
        if peek() == "=":
            take("="); v = take()
            if w not in TARGET: die("const %s: cfg key %s is not in the target description of tools/extract.py" % (what, w))
            return TARGET[w] == v.strip('"')
        if w in ("unix",): return True
        if w in ("windows", "test", "miri", "loom"): return False
        die("const %s: cfg predicate %s is not in the target description of tools/extract.py" % (what, w))
    r = pred()
    if pos[0] != len(toks): die("const %s: trailing tokens in cfg(%s)" % (what, expr))
    return r

def const(src, name):
    # every definition of the name, with ALL the attribute / comment lines directly above it; exactly one must apply to TARGET
    ms = list(re.finditer(r"((?:[ \t]*(?:#\[[^\n]*\]|//[^\n]*)[ \t]*\n)*)[ \t]*(?:pub(?:\([^)]*\))?\s+)?(?:const|static)\s+" + name + r"\s*:\s*[\w:]+\s*=\s*([^;]+);", src))
    if not ms:
        die(f"const {name} not found")
    live = []
    for m in ms:
        cfgs = re.findall(r"#\[cfg\((.*)\)\]", m.group(1))
        if re.search(r"#\[cfg_attr", m.group(1)):
            die(f"const {name}: cfg_attr above a definition is not understood")
        if all(cfg_eval(c, name) for c in cfgs):
            live.append(m)
    if len(live) != 1:
        die(f"const {name}: {len(live)} definitions apply to the target {TARGET['target_os']}/{TARGET['target_arch']} (of {len(ms)}): ambiguous")
    return num(strip_comments(live[0].group(2)))

TT = ["Stop", "Void", "Bool", "I8", "Double", "I16", "I32", "I64", "Binary", "Struct", "Map", "Set", "List", "Uuid"]
CT = ["Stop", "BooleanTrue", "BooleanFalse", "Byte", "I16", "I32", "I64", "Double", "Binary", "List", "Set", "Map", "Struct", "Uuid"]
MT = ["Call", "Reply", "Exception", "OneWay"]

def coq_tt(n):
    if n not in TT: die(f"unknown TType member {n}")
    return "T" + n
def coq_ct(n):
    if n not in CT: die(f"unknown TCompactType member {n}")
    return "C" + n

def table_arms(text, rx, what, expect=None, or_ok=False):
    """arms of a match used as a TABLE: every arm of [text] must be matched by rx exactly once -- no guard, no or-pattern
    (unless the caller splits them), no duplicate left-hand side, and as many arms as the enum has members"""
    text = strip_comments(text)
    n_arrows = len(re.findall(r"=>", text))
    if re.search(r"\bif\b[^,{]*=>", text):
        die("%s: a guarded arm (`pat if cond =>`) -- the table extraction does not understand guards" % what)
    arms = re.findall(rx, text)
    if len(arms) != n_arrows:
        die("%s: %d arms in the source, %d understood" % (what, n_arrows, len(arms)))
    if not or_ok and re.search(r"\|", re.sub(r"\|\|", "", text)):
        die("%s: an or-pattern -- the table extraction keeps one alternative per arm" % what)
    lhs = [a[0].strip() for a in arms]
    if len(set(lhs)) != len(lhs):
        die("%s: duplicate arm %r" % (what, [x for x in lhs if lhs.count(x) > 1][0]))
    if expect is not None and len(arms) != expect:
        die("%s: %d arms, expected %d" % (what, len(arms), expect))
    return arms

def gen_thrift(repo):
    mod = read(repo, "pilota/src/thrift/mod.rs")
    compact = read(repo, "pilota/src/thrift/compact.rs").split("#[cfg(test)]")[0]
    binary = read(repo, "pilota/src/thrift/binary.rs")
    binary_le = read(repo, "pilota/src/thrift/binary_le.rs")
    out = []
    out.append("(* GENERATED by tools/extract.py from pilota/src/thrift/{mod,compact,binary,binary_le}.rs -- do not edit *)")
    out.append("From PV Require Import Thrift.Types.\nOpen Scope Z_scope.\n")
    # TType
    tt = enum_body(mod, "TType")
    if sorted(n for n, _ in tt) != sorted(TT): die(f"TType members changed: {tt}")
    out.append("Definition ttype_code (t : ttype) : Z :=\n  match t with\n" + "".join(f"  | {coq_tt(n)} => {v}\n" for n, v in tt) + "  end.\n")
    # TTYPE_LOOKUP
    m = re.search(r"static TTYPE_LOOKUP\s*:\s*\[Option<TType>;\s*(\d+)\]\s*=\s*\[(.*?)\];", mod, flags=re.S)
    if not m: die("TTYPE_LOOKUP not found")
    ents = [e.strip() for e in strip_comments(m.group(2)).split(",") if e.strip()]
    if len(ents) != int(m.group(1)): die("TTYPE_LOOKUP length mismatch")
    def ent(e):
        if e == "None": return "None"
        mm = re.fullmatch(r"Some\(TType::(\w+)\)", e)
        if not mm: die(f"TTYPE_LOOKUP entry {e!r}")
        return f"Some {coq_tt(mm.group(1))}"
    out.append("Definition ttype_lookup : list (option ttype) :=\n  [" + "; ".join(ent(e) for e in ents) + "].\n")
    # fixed size table
    m = re.search(r"const BINARY_BASIC_TYPE_FIXED_SIZE\s*:\s*\[usize;\s*(\d+)\]\s*=\s*\[(.*?)\];", mod, flags=re.S)
    if not m: die("BINARY_BASIC_TYPE_FIXED_SIZE not found")
    ents = [num(e) for e in strip_comments(m.group(2)).split(",") if e.strip()]
    if len(ents) != int(m.group(1)): die("BINARY_BASIC_TYPE_FIXED_SIZE length mismatch")
    out.append("Definition binary_fixed_size : list Z :=\n  [" + "; ".join(str(e) for e in ents) + "].\n")
    out.append(f"Definition maximum_skip_depth : Z := {const(mod, 'MAXIMUM_SKIP_DEPTH')}.")
    out.append(f"Definition zero_copy_threshold : Z := {const(mod, 'ZERO_COPY_THRESHOLD')}.\n")
    # message types
    mt = enum_body(mod, "TMessageType")
    if sorted(n for n, _ in mt) != sorted(MT): die(f"TMessageType members changed: {mt}")
    out.append("Definition mtype_code (t : mtype) : Z :=\n  match t with\n" + "".join(f"  | M{n} => {v}\n" for n, v in mt) + "  end.\n")
    m = re.search(r"impl TryFrom<u8> for TMessageType \{.*?match value \{(.*?)_ =>", mod, flags=re.S)
    if not m: die("TryFrom<u8> for TMessageType not found")
    arms = table_arms(m.group(1), r"(\S+)\s*=>\s*Ok\(TMessageType::(\w+)\)", "TryFrom<u8> for TMessageType", expect=len(MT))
    if sorted(n for _, n in arms) != sorted(MT): die("TryFrom<u8> for TMessageType: members %r" % (arms,))
    out.append("Definition mtype_of_code (z : Z) : option mtype :=\n  " + " ".join(f"if z =? {num(a)} then Some M{n} else" for a, n in arms) + " None.\n")
    # compact
    ct = enum_body(compact, "TCompactType")
    if sorted(n for n, _ in ct) != sorted(CT): die(f"TCompactType members changed: {ct}")
    out.append("Definition ctype_code (t : ctype) : Z :=\n  match t with\n" + "".join(f"  | {coq_ct(n)} => {v}\n" for n, v in ct) + "  end.\n")
    m = re.search(r"impl TryFrom<u8> for TCompactType \{.*?match value \{(.*?)_ =>", compact, flags=re.S)
    if not m: die("TryFrom<u8> for TCompactType not found")
    arms = table_arms(m.group(1), r"(\S+)\s*=>\s*Ok\(TCompactType::(\w+)\)", "TryFrom<u8> for TCompactType", expect=len(CT))
    if sorted(n for _, n in arms) != sorted(CT): die("TryFrom<u8> for TCompactType: members %r" % (arms,))
    out.append("Definition ctype_of_code (z : Z) : option ctype :=\n  " + "\n  ".join(f"if z =? {num(a)} then Some {coq_ct(n)} else" for a, n in arms) + " None.\n")
    m = re.search(r"impl TryFrom<TType> for TCompactType \{.*?match value \{(.*?)_ =>", compact, flags=re.S)
    if not m: die("TryFrom<TType> for TCompactType not found")
    arms = table_arms(m.group(1), r"TType::(\w+)\s*=>\s*Ok\(Self::(\w+)\)", "TryFrom<TType> for TCompactType", expect=len(TT) - 1)
    out.append("Definition ctype_of_ttype (t : ttype) : option ctype :=\n  match t with\n" + "".join(f"  | {coq_tt(a)} => Some {coq_ct(b)}\n" for a, b in arms) + "  | _ => None\n  end.\n")
    m = re.search(r"impl TryFrom<TCompactType> for TType \{.*?match value \{(.*?)\n        \}", compact, flags=re.S)
    if not m: die("TryFrom<TCompactType> for TType not found")
    arms = table_arms(m.group(1), r"((?:TCompactType::\w+\s*\|?\s*)+)=>\s*Ok\((?:Self|TType)::(\w+)\)", "TryFrom<TCompactType> for TType", or_ok=True)
    lines = []
    seen = set()
    for lhs, rhs in arms:
        for c in re.findall(r"TCompactType::(\w+)", lhs):
            if c in seen: die("TryFrom<TCompactType> for TType: %s on two arms" % c)
            lines.append(f"  | {coq_ct(c)} => Some {coq_tt(rhs)}\n"); seen.add(c)
    if not seen: die("TryFrom<TCompactType> for TType: no arm found")
    # members the conversion rejects (an Err arm or the catch-all) map to None: the table lemmas then decide
    dflt = "" if seen == set(CT) else "  | _ => None\n"
    out.append("Definition ttype_of_ctype (c : ctype) : option ttype :=\n  match c with\n" + "".join(lines) + dflt + "  end.\n")
    for n in ["COMPACT_PROTOCOL_ID", "COMPACT_VERSION", "COMPACT_VERSION_MASK", "COMPACT_TYPE_MASK", "COMPACT_TYPE_SHIFT_AMOUNT"]:
        out.append(f"Definition {n.lower()} : Z := {const(compact, n)}.")
    out.append(f"Definition binary_version_1 : Z := {const(binary, 'VERSION_1')}.")
    out.append(f"Definition binary_version_mask : Z := {const(binary, 'VERSION_MASK')}.")
    out.append(f"Definition binary_le_version : Z := {const(binary_le, 'VERSION_LE')}.")
    out.append(f"Definition binary_le_version_mask : Z := {const(binary_le, 'VERSION_MASK')}.")
    return "\n".join(out) + "\n"

# ----------------------------------------------------------------------------- reader site inventory (C09)
# Every panic-capable and allocation site of the safe Thrift READERS, regenerated on every run into
# coq/Generated/ReaderSites.v; coq/Thrift/Sites.v (hand-written) says how the model accounts for each one and
# Proofs/SitesP.v compares the two lists by computation (Properties/C09.v: C09_site_inventory).

def strip_rust(src):
    """comments -> removed, string / char literal contents -> removed (quotes kept); newlines preserved"""
    out = []
    i, n = 0, len(src)
    while i < n:
        c = src[i]
        if src.startswith("//", i):
            j = src.find("\n", i)
            i = n if j < 0 else j
        elif src.startswith("/*", i):
            depth, j = 1, i + 2
            while j < n and depth:
                if src.startswith("/*", j): depth += 1; j += 2
                elif src.startswith("*/", j): depth -= 1; j += 2
                else:
                    if src[j] == "\n": out.append("\n")
                    j += 1
            i = j
        elif c == "r" and re.match(r'r#*"', src[i:i + 12]) and (i == 0 or not (src[i - 1].isalnum() or src[i - 1] == "_")):
            m = re.match(r'r(#*)"', src[i:])
            close = '"' + m.group(1)
            j = src.find(close, i + len(m.group(0)))
            j = n if j < 0 else j
            out.append('""' + "\n" * src.count("\n", i, j))
            i = j + len(close)
        elif c == '"':
            j = i + 1
            while j < n and src[j] != '"':
                j += 2 if src[j] == "\\" else 1
            out.append('""' + "\n" * src.count("\n", i, j))
            i = j + 1
        elif c == "'":
            m = re.match(r"'(\\.[^']*|[^'\\])'", src[i:])
            if m:
                out.append("' '")
                i += len(m.group(0))
            else:
                out.append(c)  # lifetime
                i += 1
        else:
            out.append(c)
            i += 1
    return "".join(out)

def block_span(s, header_re, what):
    """(start line, end line) of the brace block introduced by the first match of header_re"""
    ms = list(re.finditer(header_re, s, flags=re.M))
    if not ms:
        die("reader site inventory: %s not found" % what)
    if len(ms) > 1:
        die("reader site inventory: %s: %d blocks match the header -- a second block would go unscanned" % (what, len(ms)))
    m = ms[0]
    i = s.find("{", m.end() - 1 if s[m.end() - 1] == "{" else m.end())
    if i < 0:
        die("reader site inventory: %s has no body" % what)
    depth, j = 0, i
    while j < len(s):
        if s[j] == "{": depth += 1
        elif s[j] == "}":
            depth -= 1
            if depth == 0:
                return s.count("\n", 0, m.start()) + 1, s.count("\n", 0, j) + 1
        j += 1
    die("reader site inventory: unbalanced braces in %s" % what)

def enclosing_names(s):
    """line -> innermost enclosing fn (or macro_rules! name, or <impl/trait header>)"""
    res, stack, depth, pending, line = {}, [], 0, None, 1
    def cur():
        fns = [nm for nm, _, isfn in stack if isfn]
        if pending is not None and pending[1]:
            fns.append(pending[0])
        return fns[-1] if fns else (stack[-1][0] if stack else "<top>")
    for t in re.finditer(r"\bfn\s+(?:r#)?(\w+)|\bmacro_rules!\s*(\w+)|\bimpl\b[^{;]*|\btrait\s+(\w+)|[{};]|\n", s):
        tok = t.group(0)
        if tok == "\n":
            res[line] = cur(); line += 1
        elif tok.startswith("fn"):
            pending = (t.group(1), True)
        elif tok.startswith("macro_rules"):
            pending = ("macro " + t.group(2), True)
        elif tok.startswith("impl"):
            if pending is None:
                pending = ("<" + re.sub(r"\s+", " ", tok.strip()) + ">", False)
            for _ in range(tok.count("\n")):
                res[line] = cur(); line += 1
        elif tok.startswith("trait"):
            pending = ("<trait " + t.group(3) + ">", False)
        elif tok == "{":
            depth += 1
            if pending is not None:
                stack.append((pending[0], depth, pending[1])); pending = None
        elif tok == "}":
            if stack and stack[-1][1] == depth:
                stack.pop()
            depth -= 1
        elif tok == ";":
            if pending is not None and pending[1] and not pending[0].startswith("macro "):
                pending = None
    res[line] = cur()
    return res

INT = r"(?:usize|isize|[iu](?:8|16|32|64|128))"
NOT_TRAIT = r"(?!(?:Send|Sync|Unpin|Sized|Copy|Clone|AsyncRead|AsyncWrite|'\w+)\b)"
SITE_KINDS = [   # (kind, regex) -- one site per (line, kind); the snippet is the whole normalised line
    ("unwrap", r"\.unwrap(?:_unchecked)?\(\)"),
    ("expect", r"\.expect\("),
    ("panic", r"\b(?:panic|unreachable|todo|unimplemented)!"),
    ("assert", r"\b(?:debug_)?assert(?:_eq|_ne)?!"),
    ("call_panics", r"(?<!fn )\bassert_no_pending_\w+\("),
    ("split_to", r"\.split_(?:to|off)\("),
    ("advance", r"\.advance\("),
    ("copy_to", r"\.copy_to_(?:bytes|slice)\("),
    ("buf_get", r"\.get_(?:[iu](?:8|16|32|64|128)|f32|f64|int|uint)(?:_le|_ne)?\("),
    ("index", r"(?<=[\w\)\]])\["),
    ("with_capacity", r"\bwith_capacity\("),
    ("vec_n", r"\bvec!\[[^\]]*;"),
    ("reserve", r"\.(?:reserve(?:_exact)?|resize|set_len|read_to_end)\("),
    ("copy_from", r"\bcopy_from_slice\("),
    ("convert", r"\.into\(\)|\.to_vec\(\)|\bBytes::from\b|\bfrom_string\b"),
    ("push", r"\.push\("),
    ("loop", r"\b(?:loop|while|for)\b(?! [A-Z<])"),
    ("wrapping", r"\bwrapping_\w+\("),
    ("cast", r"\bas\s+" + INT + r"\b"),
    ("arith_assign", r"(?<![=!<>+\-*/])[+\-*]=(?!=)"),
    ("arith", r"(?<=[\w\)\]]) [+\-*] " + NOT_TRAIT + r"(?=[\w\(&$])"),
    ("unchecked", r"\bfrom_(?:utf8|bytes)_unchecked\b"),
    ("unsafe", r"\bunsafe\b"),
]

# (file, [(label, header regex)]) -- every block must be found (exit 2 otherwise)
READER_BLOCKS = [
    ("mod.rs", [
        ("trait TInputProtocol", r"^pub trait TInputProtocol\b[^{]*\{"),
        ("trait TAsyncInputProtocol", r"^pub trait TAsyncInputProtocol\b[^{]*\{"),
        ("TryFrom<u8> for TType", r"^impl TryFrom<u8> for TType\s*\{"),
    ]),
    ("rw_ext.rs", [
        ("macro io_read_impl", r"^macro_rules! io_read_impl\s*\{"),
        ("macro assert_remaining", r"^macro_rules! assert_remaining\s*\{"),
        ("split_to_checked", r"^pub\(crate\) fn split_to_checked\b[^{]*\{"),
        ("checked_container_size", r"^pub\(crate\) fn checked_container_size\b[^{]*\{"),
        ("read_exact_to_vec", r"^pub\(crate\) async fn read_exact_to_vec\b[^{]*\{"),
        ("ReadExt for B", r"^impl<B> ReadExt for B\b[^{]*\{"),
    ]),
    ("varint_ext.rs", [
        ("VarIntExt for VI", r"^impl<VI: VarInt> VarIntExt for VI\s*\{"),
        ("VarIntProcessor", r"^impl VarIntProcessor\s*\{"),
    ]),
    ("binary.rs", [
        ("field_type_from_u8", r"^fn field_type_from_u8\b[^{]*\{"),
        ("TLengthProtocol for TBinaryProtocol<T>", r"^impl<T> TLengthProtocol for TBinaryProtocol<T>\s*\{"),
        ("TInputProtocol for TBinaryProtocol<&mut Bytes>", r"^impl TInputProtocol for TBinaryProtocol<&mut Bytes>\s*\{"),
        ("TAsyncBinaryProtocol<R>", r"^impl<R> TAsyncBinaryProtocol<R>[^{]*\{"),
        ("TAsyncInputProtocol for TAsyncBinaryProtocol<R>", r"^impl<R> TAsyncInputProtocol for TAsyncBinaryProtocol<R>[^{]*\{"),
    ]),
    ("binary_le.rs", [
        ("field_type_from_u8", r"^fn field_type_from_u8\b[^{]*\{"),
        ("TLengthProtocol for TBinaryProtocol<T>", r"^impl<T> TLengthProtocol for TBinaryProtocol<T>\s*\{"),
        ("TInputProtocol for TBinaryProtocol<&mut Bytes>", r"^impl TInputProtocol for TBinaryProtocol<&mut Bytes>\s*\{"),
        ("TAsyncBinaryProtocol<R>", r"^impl<R> TAsyncBinaryProtocol<R>[^{]*\{"),
        ("TAsyncInputProtocol for TAsyncBinaryProtocol<R>", r"^impl<R> TAsyncInputProtocol for TAsyncBinaryProtocol<R>[^{]*\{"),
    ]),
    ("compact.rs", [
        ("TryFrom<u8> for TCompactType", r"^impl TryFrom<u8> for TCompactType\s*\{"),
        ("TryFrom<TCompactType> for TType", r"^impl TryFrom<TCompactType> for TType\s*\{"),
        ("tcompact_get_ttype", r"^fn tcompact_get_ttype\b[^{]*\{"),
        ("TAsyncInputProtocol for TAsyncCompactProtocol<R>", r"^impl<R> TAsyncInputProtocol for TAsyncCompactProtocol<R>[^{]*\{"),
        ("TAsyncCompactProtocol<R>", r"^impl<R> TAsyncCompactProtocol<R>[^{]*\{"),
        ("TCompactInputProtocol<T>", r"^impl<T> TCompactInputProtocol<T>\s*\{"),
        ("TCompactInputProtocol<&mut Bytes>", r"^impl TCompactInputProtocol<&mut Bytes>\s*\{"),
        ("macro read_field_header_len", r"^macro_rules! read_field_header_len\s*\{"),
        ("TLengthProtocol for TCompactInputProtocol<T>", r"^impl<T> TLengthProtocol for TCompactInputProtocol<T>\s*\{"),
        ("TInputProtocol for TCompactInputProtocol<&mut Bytes>", r"^impl TInputProtocol for TCompactInputProtocol<&mut Bytes>\s*\{"),
    ]),
]

def reader_sites(repo):
    out = []
    for fn, blocks in READER_BLOCKS:
        s = strip_rust(read(repo, "pilota/src/thrift/" + fn))
        if fn == "compact.rs":
            s = s.split("#[cfg(test)]\nmod tests")[0]
        names = enclosing_names(s)
        lines = s.split("\n")
        spans = []
        for label, hre in blocks:
            a, b = block_span(s, hre, "%s: %s" % (fn, label))
            spans.append((a, b, label))
        spans.sort()
        for k in range(1, len(spans)):
            if spans[k][0] <= spans[k - 1][1]:
                die("reader site inventory: blocks overlap in %s (%s / %s)" % (fn, spans[k - 1][2], spans[k][2]))
        for a, b, label in spans:
            for no in range(a, b + 1):
                ln = lines[no - 1]
                if not ln.strip() or re.match(r"\s*#\[", ln):
                    continue
                for kind, rx in SITE_KINDS:
                    if re.search(rx, ln):
                        f0 = names.get(no, "<top>")
                        if f0.startswith("<"):        # not inside a fn: the block itself
                            f0 = label
                        out.append(dict(file=fn, line=no, block=label, fn=f0, kind=kind,
                                        qual=(f0 if f0 == label else label + " :: " + f0),
                                        snippet=re.sub(r"\s+", " ", ln).strip()))
    # the scanner must still understand the source: the sites every version of the readers has
    need = [("rw_ext.rs", "split_to_checked", "split_to"), ("rw_ext.rs", "read_exact_to_vec", "with_capacity"),
            ("rw_ext.rs", "read_exact_to_vec", "vec_n"), ("compact.rs", "assert_no_pending_bool_read", "panic"),
            ("varint_ext.rs", "push", "index"), ("mod.rs", "skip_till_depth", "advance")]
    for f, fnm, kd in need:
        if not any(x["file"] == f and x["fn"] == fnm and x["kind"] == kd for x in out):
            die("reader site inventory: expected a %s site in %s:%s -- the scanner no longer understands the source" % (kd, f, fnm))
    return out

def coq_str(s):
    return '"' + s.replace('"', '""') + '"'

def gen_reader_sites(repo):
    sites = reader_sites(repo)
    rw = read(repo, "pilota/src/thrift/rw_ext.rs")
    a, b = block_span(strip_rust(rw), r"^pub\(crate\) async fn read_exact_to_vec\b[^{]*\{", "rw_ext.rs: read_exact_to_vec")
    body = "\n".join(strip_rust(rw).split("\n")[a - 1:b])
    lim = const(body, "PREALLOC_LIMIT")
    # the shape of read_exact_to_vec the allocation model (Thrift/Alloc.v rx_alloc) transcribes
    flat = re.sub(r"\s+", " ", body)
    for piece in ["if len <= PREALLOC_LIMIT { let mut v = vec![0; len];", "let mut v = Vec::with_capacity(PREALLOC_LIMIT);",
                  "reader.take(len as u64).read_to_end(&mut v)"]:
        if piece not in flat:
            die("read_exact_to_vec changed shape (expected %r)" % piece)
    out = ["(* GENERATED by tools/extract.py from pilota/src/thrift/{mod,rw_ext,varint_ext,binary,binary_le,compact}.rs -- do not edit.",
           "   Inventory of the panic-capable and allocation sites of the safe Thrift readers (sync and async input",
           "   protocols, their helpers, the default skippers): (file, block :: enclosing fn, kind, normalised line), in source order.",
           "   kinds: " + " ".join(k for k, _ in SITE_KINDS) + " *)",
           "From Coq Require Import String List ZArith.", "Import ListNotations.", "Open Scope string_scope.", "",
           "Definition rsite : Type := (string * string * string * string)%type.", "",
           "Definition reader_sites : list rsite :=\n  [" +
           ";\n   ".join("(%s, %s, %s, %s)" % (coq_str(x["file"]), coq_str(x["qual"]), coq_str(x["kind"]), coq_str(x["snippet"])) for x in sites) + "].", "",
           "(* rw_ext.rs read_exact_to_vec: const PREALLOC_LIMIT *)",
           "Definition prealloc_limit : Z := %d%%Z." % lim, "",
           "(* where the sites are today (for people; not part of the identity):",
           "\n".join("   %s:%d %s" % (x["file"], x["line"], x["kind"]) for x in sites) + " *)", ""]
    return "\n".join(out)

# ----------------------------------------------------------------------------- primitive operations (C01 / C03 / C04)
# coq/Generated/PrimOps.v: for every protocol struct of pilota/src/thrift/{binary,binary_le,compact,binary_unsafe}.rs
# and every scalar method, the method body lowered to the small statement / expression language of
# coq/Thrift/PrimOp.v (buffer operations, sibling calls, the compact writer's state updates).  Parsing: tools/rustmini.py.
# A body outside the understood shapes is exit 2.  Thrift/PrimOpsSem.v gives the language a denotation over the byte
# model and Proofs/PrimOpsP.v proves that every regenerated row denotes the hand-written primitive of Proto.v / Len.v.

import importlib.util as _ilu
def _rustmini():
    here = os.path.dirname(os.path.abspath(__file__))
    spec = _ilu.spec_from_file_location("rustmini", os.path.join(here, "rustmini.py"))
    mod = _ilu.module_from_spec(spec)
    spec.loader.exec_module(mod)
    return mod

class LowerError(Exception):
    pass

def cq(s):
    return '"' + s.replace('"', '""') + '"'

def clist(xs):
    return "[" + "; ".join(xs) + "]"

PUT_KINDS = {"u8", "i8", "i16", "i16_le", "i32", "i32_le", "i64", "i64_le", "f64", "f64_le", "slice", "u16", "u16_le",
             "u32", "u32_le", "u64", "u64_le"}
IDENT_FIELDS = {"size", "element_type", "key_type", "value_type", "message_type", "sequence_number", "name", "id", "field_type"}

class Lower:
    """lowers one parsed method body (writers and length methods of the checked protocols)"""
    def __init__(self, params):
        self.params = dict(params)           # name -> rust type text
        self.arrays = {}                      # local array name -> list of lowered element exprs
        self.bytes_of = {}                    # local name -> (endian, lowered expr)

    # ---------------- expressions
    def x(self, e):
        k = e[0]
        if k == "num":
            return "EK %d" % e[1]
        if k == "tuple":
            return "ETuple %s" % clist(self.x(z) for z in e[1])
        if k == "struct" and re.fullmatch(r"T(List|Set|Map)Identifier", e[1]):
            return "ETuple %s" % clist(self.x(v) for _, v in e[2])
        if k == "mcall" and e[1] == ("path", "self") and e[2].startswith("read_") and not e[3]:
            return self.read_expr(e)
        if k == "match" and e[1][0] == "path" and [p for p, _ in e[2]] == ["0", "_"]:
            return "EIfE (EBin %s (%s) (EK 0)) (%s) (%s)" % (cq("=="), self.x(e[1]), self.x(e[2][0][1]), self.x(e[2][1][1]))
        if k == "match" and e[1] == ("path", "field_type") and [p for p, _ in e[2]] == ["TType::Stop", "_"]:
            return "EIfE (EBin %s (EVar %s) (ENamed %s)) (%s) (%s)" % (cq("=="), cq("field_type"), cq("TType::Stop"),
                                                                      self.x(e[2][0][1]), self.x(e[2][1][1]))
        if k in ("paren", "ref"):
            return self.x(e[1])
        if k == "un" and e[1] == "*":
            return self.x(e[2])
        if k == "un" and e[1] == "!":
            return "ENot (%s)" % self.x(e[2])
        if k == "path" and e[1] in ("true", "false"):
            return "EK %d" % (1 if e[1] == "true" else 0)
        if k == "path" and e[1] == "None":
            return "EK 0"
        if k == "path":
            p = e[1]
            if "::" in p or re.fullmatch(r"[A-Z][A-Z0-9_]*", p):
                return "ENamed %s" % cq(p)
            return "EVar %s" % cq(p.lstrip("$"))
        if k == "field":
            r, f = e[1], e[2]
            if r == ("path", "self") or r == ("path", "$self"):
                return "ESelf %s" % cq(f)
            if r[0] == "path" and "::" not in r[1]:
                return "EVar %s" % cq(r[1].lstrip("$") + "." + f)
            raise LowerError("field access %r" % (e,))
        if k == "index":
            r, i = e[1], e[2]
            if r[0] == "path" and r[1] in self.bytes_of and i[0] == "num":
                en, w, inner = self.bytes_of[r[1]]
                return "EByteOf %s %d %d (%s)" % (cq(en), w, i[1], inner)
            raise LowerError("index expression %r" % (e,))
        if k == "cast":
            return "ECast %s (%s)" % (cq(e[2]), self.x(e[1]))
        if k == "bin":
            return "EBin %s (%s) (%s)" % (cq(e[1]), self.x(e[2]), self.x(e[3]))
        if k == "if":
            c, t, f = e[1], e[2], e[3]
            if f is None or t[1] or f[1] or t[2] is None or f[2] is None:
                raise LowerError("if-expression with statements %r" % (e,))
            return "EIfE (%s) (%s) (%s)" % (self.x(c), self.x(t[2]), self.x(f[2]))
        if k == "await":
            return self.x(e[1])
        if k == "unsafe" and not e[1][1] and e[1][2] is not None:
            return self.x(e[1][2])
        if k == "try":
            i = e[1]
            if i[0] == "await":
                i = i[1]
            if i[0] == "call" and i[1] in ("tcompact_get_compact", "TCompactType::try_from") and len(i[2]) == 1:
                return "ECompact (%s)" % self.x(i[2][0])
            r = self.read_expr(i)
            if r is not None:
                return r
            if i[0] == "match" and i[1] == ("path", "field_type") and [p for p, _ in i[2]] == ["TType::Stop", "_"]:
                def arm(b):
                    if b[0] == "await":
                        b = b[1]
                    if b[0] == "call" and b[1] == "Ok" and len(b[2]) == 1:
                        return self.x(b[2][0])
                    rr = self.read_expr(b)
                    if rr is None:
                        raise LowerError("match arm under `?`: %r" % (b,))
                    return rr
                return "EIfE (EBin %s (EVar %s) (ENamed %s)) (%s) (%s)" % (cq("=="), cq("field_type"), cq("TType::Stop"),
                                                                          arm(i[2][0][1]), arm(i[2][1][1]))
            raise LowerError("`?` on %r" % (i,))
        if k == "call":
            f, a = e[1], e[2]
            if f == "VarInt::required_space" and len(a) == 1:
                return "EReqSpace (%s)" % self.typed(a[0])
            if f == "Ok" and len(a) == 1:
                return self.x(a[0])
            if f in ("FastStr::from_bytes_unchecked", "String::from_utf8_unchecked", "Bytes::from", "FastStr::from_string") and len(a) == 1:
                return self.x(a[0])
            if re.fullmatch(r"T(List|Set|Map|Field)Identifier::new(::<.*>)?", f):
                return "ETuple %s" % clist(self.x(z) for z in a if z != ("path", "None"))
            raise LowerError("call %s" % f)
        if k == "mcall":
            r, m, a = e[1], e[2], e[3]
            if m == "len" and not a:
                return "ELen (%s)" % self.x(r)
            if m in ("clone", "as_bytes", "as_ref", "to_bits") and not a:
                return self.x(r)
            if m == "map" and len(a) == 1 and a[0][0] == "path" and a[0][1] in ("Bytes::from", "FastStr::from_string"):
                return self.x(r)
            if m == "into" and not a and r[0] == "try":
                return self.x(r)
            if m in ("to_le_bytes", "to_be_bytes") and not a and r[0] == "path" and r[1] in self.params:
                w = {"i8": 1, "u8": 1, "i16": 2, "u16": 2, "i32": 4, "u32": 4, "i64": 8, "u64": 8, "f64": 8}.get(self.params[r[1]])
                if w is None:
                    raise LowerError("to_xx_bytes of a %s" % self.params[r[1]])
                return "EBytes %s %d (%s)" % (cq(m[3:5]), w, self.x(r))
            if m == "into" and not a:
                return "ECast %s (%s)" % (cq("into"), self.x(r))
            if m == "is_some" and not a:
                return "EIsSome (%s)" % self.x(r)
            if m in ("unwrap", "expect"):
                if r[0] == "call" and r[1] in ("tcompact_get_compact", "TCompactType::try_from") and len(r[2]) == 1:
                    return "ECompactU (%s)" % self.x(r[2][0])
                return "EUnwrap (%s)" % self.x(r)
            if r in (("path", "self"), ("path", "$self")) and m.endswith("_len"):
                return "ECallLen %s %s" % (cq(m), clist(self.x(z) for z in a))
            raise LowerError("method call .%s on %r" % (m, r))
        raise LowerError("expression %r" % (e,))

    def read_expr(self, i):
        """the fallible reads of the input protocols (the expression under `?`)"""
        # self.trans.read_<k>() / self.reader.read_<k>()
        if i[0] == "mcall" and i[1] in (("field", ("path", "self"), "trans"), ("field", ("path", "self"), "reader")) \
           and i[2].startswith("read_"):
            kk = i[2][len("read_"):]
            if kk in PUT_KINDS and not i[3]:
                return "EGet %s" % cq(kk)
            if kk == "to_string" and len(i[3]) == 1:
                return "ESplit %s (%s)" % (cq("read_to_string"), self.x(i[3][0]))
            raise LowerError("transport read %s" % i[2])
        # self.read_<m>() -- a sibling method
        if i[0] == "mcall" and i[1] == ("path", "self") and i[2].startswith("read_") and not i[3]:
            m = re.match(r"(read_varint(?:_async)?)::<(\w+)>$", i[2])
            if m:
                return "EVarintR %s" % cq(m.group(2))
            return "ERead %s" % cq(i[2])
        # self.read_byte().and_then(|n| Ok(field_type_from_u8(n)?))
        if i[0] == "mcall" and i[2] == "and_then" and len(i[3]) == 1 and i[3][0][0] == "closure" and \
           i[3][0][1] == ("call", "Ok", [("try", ("call", "field_type_from_u8", [("path", "n")]))]):
            inner = i[1][1] if i[1][0] == "await" else i[1]
            r = self.read_expr(inner)
            if r is not None:
                return "ETryTType (%s)" % r
        # x.try_into().map_err(|_| ..)  with x a byte: u8 -> TType
        if i[0] == "mcall" and i[2] == "map_err" and i[1][0] == "mcall" and i[1][2] == "try_into" and not i[1][3]:
            return "ETryTType (%s)" % self.x(i[1][1])
        if i[0] == "call" and i[1] == "checked_container_size" and len(i[2]) == 2 and \
           i[2][1] == ("mcall", ("field", ("path", "self"), "trans"), "len", []):
            return "ECheckSize (%s)" % self.x(i[2][0])
        if i[0] == "call" and i[1] == "split_to_checked" and len(i[2]) == 2 and i[2][0] == ("field", ("path", "self"), "trans"):
            return "ESplit %s (%s)" % (cq("split_to_checked"), self.x(i[2][1]))
        if i[0] == "call" and i[1] == "read_exact_to_vec" and len(i[2]) == 2:
            return "ESplit %s (%s)" % (cq("read_exact_to_vec"), self.x(i[2][1]))
        return None

    def typed(self, e):
        """argument of a generic VarInt function: the static integer type decides zigzag or not"""
        if e[0] == "path" and e[1].lstrip("$") in self.params:
            t = self.params[e[1].lstrip("$")]
            if t not in ("i16", "i32", "i64", "u32", "u64", "VI"):
                raise LowerError("varint of a %s" % t)
            return "ETyped %s (%s)" % (cq(t), self.x(e))
        if e[0] == "cast":
            return self.x(e)
        raise LowerError("cannot type the varint argument %r" % (e,))

    # ---------------- statements
    def is_ok_unit(self, e):
        return e == ("call", "Ok", [("tuple", [])])

    def trans_put(self, e):
        """self.trans[.bytes_mut()].write_<k>(arg) -> (k, arg) or None"""
        if e[0] != "mcall" or not e[2].startswith("write_") or len(e[3]) != 1:
            return None
        r = e[1]
        if r[0] == "mcall" and r[2] == "bytes_mut" and not r[3]:
            r = r[1]
        if r != ("field", ("path", "self"), "trans"):
            return None
        k = e[2][len("write_"):]
        if k not in PUT_KINDS:
            raise LowerError("unknown buffer write %s" % e[2])
        return k, e[3][0]

    def stmts(self, blk, tail_is_value=False):
        """-> (list of lowered stmts, lowered tail value or None)"""
        assert blk[0] == "block"
        out = []
        for st in blk[1]:
            out += self.stmt(st)
        val = None
        if blk[2] is not None:
            t = blk[2]
            if self.is_ok_unit(t):
                pass
            elif tail_is_value:
                sv = self.as_stmt_expr(t, True)
                if sv is not None:
                    out += sv[0]
                    val = sv[1]
                else:
                    val = self.x(t)
            else:
                out += self.stmt(("expr", t))
        return out, val

    def as_stmt_expr(self, e, tail_is_value):
        """if / match used as (tail) expression with statement arms: handled as a statement whose arms end in values"""
        if e[0] == "if" and (e[2][1] or (e[3] and e[3][1])):
            raise LowerError("if with statements in value position")
        if e[0] == "match":
            try:
                return [], self.x(e)
            except LowerError:
                pass
            s, v = self.match(e, tail_is_value)
            return s, v
        return None

    def stmt(self, st):
        k = st[0]
        if k == "let":
            pat, init = st[1], st[2]
            name = pat.replace("mut ", "").strip()
            mt = re.fullmatch(r"\( (\w+) , (\w+) \)", name)
            if mt and init is not None:
                return ["SLet2 %s %s (%s)" % (cq(mt.group(1)), cq(mt.group(2)), self.x(init))]
            if not re.fullmatch(r"\$?\w+", name):
                raise LowerError("let pattern %r" % pat)
            name = name.lstrip("$")
            if init is None:
                raise LowerError("let without initialiser")
            if init[0] == "repeat" and init[1][0] == "num" and init[2][0] == "num":
                self.arrays[name] = ["EK %d" % init[1][1]] * init[2][1]
                return []
            if init[0] == "mcall" and init[2] in ("to_be_bytes", "to_le_bytes") and not init[3] and init[1][0] == "path" \
               and init[1][1] in self.params:
                w = {"i16": 2, "u16": 2, "i32": 4, "u32": 4, "i64": 8, "u64": 8}.get(self.params[init[1][1]])
                if w is None:
                    raise LowerError("to_xx_bytes of a %s" % self.params[init[1][1]])
                self.bytes_of[name] = ("be" if init[2] == "to_be_bytes" else "le", w, self.x(init[1]))
                return []
            if init[0] == "mcall" and init[2] == "encode_var":
                # let size = n.encode_var(&mut buf)
                self.varint_src = self.x(init[1])
                self.varint_len = name
                return []
            return ["SLet %s (%s)" % (cq(name), self.x(init))]
        if k == "assign":
            op, lhs, rhs = st[1], st[2], st[3]
            if lhs[0] == "index" and lhs[1][0] == "path" and lhs[1][1] in self.arrays and lhs[2][0] == "num" and op == "=":
                self.arrays[lhs[1][1]][lhs[2][1]] = self.x(rhs)
                return []
            if lhs[0] == "field" and lhs[1] in (("path", "self"), ("path", "$self")):
                f = lhs[2]
                if op == "=" and f.startswith("pending_") and f.endswith("_bool_field_identifier"):
                    if rhs[0] == "call" and rhs[1] == "Some" and rhs[2][0][0] == "struct":
                        fid = dict(rhs[2][0][2]).get("id")
                        if fid is None:
                            raise LowerError("pending bool identifier without id")
                        if fid[0] == "call" and fid[1] == "Some":
                            return ["SSetPending (%s)" % self.x(fid[2][0])]
                        return ["SSetPendingOpt (%s)" % self.x(fid)]
                    raise LowerError("assignment to %s" % f)
                if op == "=" and rhs[0] == "try" and self.is_pop(rhs[1]):
                    return ["SPopLast"]
                if op == "=" and rhs[0] == "mcall" and rhs[2] == "unwrap" and self.is_pop(rhs[1]):
                    return ["SPopLastUnwrap"]
                if op == "=":
                    return ["SSet %s (%s)" % (cq(f), self.x(rhs))]
                if op == "+=":
                    return ["SAdd %s (%s)" % (cq(f), self.x(rhs))]
            if lhs[0] == "path" and op == "+=":
                return ["SAddVar %s (%s)" % (cq(lhs[1].lstrip("$")), self.x(rhs))]
            raise LowerError("assignment %r %s" % (lhs, op))
        if k == "expr":
            e = st[1]
            if e[0] == "try":
                e = e[1]
            if e[0] == "await":
                e = e[1]
            if self.is_ok_unit(e):
                return []
            if e[0] == "return":
                if e[1] is not None and self.is_ok_unit(e[1]):
                    return ["SReturnOk"]
                if e[1] is not None and e[1][0] == "call" and e[1][1] == "Err" and e[1][2][0][0] == "call" and \
                   e[1][2][0][1] == "new_protocol_exception" and e[1][2][0][2][0][0] == "path":
                    return ["SFail %s" % cq(e[1][2][0][2][0][1].split("::")[-1])]
                raise LowerError("return of a value")
            if e[0] == "mcall" and e[2] in ("read_to_slice", "read_exact") and len(e[3]) == 1 and e[3][0][0] == "ref" and \
               e[3][0][1][0] == "path" and e[3][0][1][1] in self.arrays:
                nm = e[3][0][1][1]
                n = len(self.arrays.pop(nm))
                return ["SLet %s (EGetSlice %d)" % (cq(nm), n)]
            if e[0] == "macro":
                if e[1] == "panic":
                    return ["SPanic"]
                if e[1] in ("write_field_header_len", "read_field_header_len") and len(e[2]) == 4 and None not in e[2] \
                   and e[2][0] == ("path", "self") and e[2][1][0] == "path":
                    return ["SHeaderLen %s (%s) (%s)" % (cq(e[2][1][1]), self.x(e[2][2]), self.x(e[2][3]))]
                raise LowerError("macro %s!" % e[1])
            if e[0] == "if":
                c, t, f = e[1], e[2], e[3]
                ts, _ = self.stmts(t)
                fs = self.stmts(f)[0] if f is not None else []
                return ["SIf (%s) %s %s" % (self.x(c), clist(ts), clist(fs))]
            if e[0] == "match":
                s, _ = self.match(e, False)
                return s
            tp = self.trans_put(e)
            if tp is not None:
                kk, a = tp
                if kk == "slice":
                    if a[0] == "ref":
                        a = a[1]
                    if a[0] == "array":
                        return ["SPutArr %s" % clist(self.x(z) for z in a[1])]
                    if a[0] == "path" and a[1] in self.arrays:
                        return ["SPutArr %s" % clist(self.arrays[a[1]])]
                    if a[0] == "index" and a[2][0] == "range" and getattr(self, "varint_len", None) and \
                       a[2] == ("range", ("num", 0), ("path", self.varint_len)):
                        return ["SVarint (%s)" % self.varint_src]
                return ["SPut %s (%s)" % (cq(kk), self.x(a))]
            if e[0] == "mcall":
                r, m, a = e[1], e[2], e[3]
                if r in (("path", "self"), ("path", "$self")):
                    if m.startswith("assert_no_pending_bool_") and not a:
                        return ["SAssertNoPending"]
                    if m in ("write_varint", "read_varint"):
                        return ["SCall %s %s" % (cq(m), clist(self.typed(z) for z in a))]
                    return ["SCall %s %s" % (cq(m), clist(self.x(z) for z in a))]
                if r[0] == "field" and r[1] == ("path", "self") and r[2].endswith("_field_id_stack") and m == "push" \
                   and len(a) == 1 and a[0][0] == "field" and a[0][2].startswith("last_"):
                    return ["SPushLast"]
                if r == ("field", ("path", "self"), "trans") and m in ("insert", "insert_faststr") and len(a) == 1:
                    return ["SInsert (%s)" % self.x(a[0])]
            raise LowerError("statement %r" % (e,))
        raise LowerError("statement kind %s" % k)

    def is_pop(self, e):
        # self.<x>_field_id_stack.pop().ok_or_else(|| ...)
        return e[0] == "mcall" and e[2] == "ok_or_else" and e[1][0] == "mcall" and e[1][2] == "pop" and \
            e[1][1][0] == "field" and e[1][1][2].endswith("_field_id_stack")

    def arm(self, body, tail_is_value):
        if body[0] == "block":
            return self.stmts(body, tail_is_value)
        return self.stmts(("block", [], body), tail_is_value)

    def match(self, e, tail_is_value):
        scrut, arms = e[1], e[2]
        pats = [p for p, _ in arms]
        def val(v):
            return v if v is not None else "EK 0"
        if scrut == ("path", "field_type") and pats == ["TType::Bool", "_"]:
            (s1, v1), (s2, v2) = self.arm(arms[0][1], tail_is_value), self.arm(arms[1][1], tail_is_value)
            if tail_is_value:
                return ["SIfV (%s) %s (%s) %s (%s)" % ('EBin "==" (EVar "field_type") (ENamed "TType::Bool")', clist(s1), val(v1), clist(s2), val(v2))], "EVar \"$match\""
            return ["SIf (%s) %s %s" % ('EBin "==" (EVar "field_type") (ENamed "TType::Bool")', clist(s1), clist(s2))], None
        if scrut[0] == "mcall" and scrut[2] == "take" and scrut[1][0] == "field" and scrut[1][1] == ("path", "self") and \
           scrut[1][2].startswith("pending_") and len(pats) == 2 and re.fullmatch(r"Some \( (\w+) \)", pats[0]) and pats[1] == "None":
            nm = re.fullmatch(r"Some \( (\w+) \)", pats[0]).group(1)
            (s1, v1), (s2, v2) = self.arm(arms[0][1], tail_is_value), self.arm(arms[1][1], tail_is_value)
            if tail_is_value:
                return ["STakePendingV %s %s (%s) %s (%s)" % (cq(nm), clist(s1), val(v1), clist(s2), val(v2))], "EVar \"$match\""
            return ["STakePending %s %s %s" % (cq(nm), clist(s1), clist(s2))], None
        raise LowerError("match on %r with arms %r" % (scrut, pats))


def fn_bodies(s, a, b):
    """(name, signature text, body text) of the fns defined directly inside lines a..b of the stripped source"""
    txt = "\n".join(s.split("\n")[a - 1:b])
    out = []
    for m in re.finditer(r"\n    (?:pub(?:\([^)]*\))? )?(?:async )?(?:unsafe )?fn (\w+)", txt):
        i = txt.find("{", m.end())
        # the signature may contain a where clause but no braces
        depth, j = 0, i
        while True:
            if txt[j] == "{": depth += 1
            elif txt[j] == "}":
                depth -= 1
                if depth == 0: break
            j += 1
        out.append((m.group(1), re.sub(r"\s+", " ", txt[m.end():i]).strip(), txt[i + 1:j]))
    return out

def sig_params(sig):
    m = re.match(r"(?:<[^>]*>)?\s*\((.*)\)\s*(?:->.*)?$", sig)
    if not m:
        die("prim ops: cannot read the signature %r" % sig)
    out = []
    depth, cur = 0, ""
    for ch in m.group(1) + ",":
        if ch in "<([": depth += 1
        if ch in ">)]": depth -= 1
        if ch == "," and depth == 0:
            cur = cur.strip()
            if cur and not re.fullmatch(r"&(?:mut )?self", cur):
                mm = re.fullmatch(r"(?:mut )?(\w+)\s*:\s*(.+)", cur)
                if not mm:
                    die("prim ops: cannot read the parameter %r" % cur)
                out.append((mm.group(1), mm.group(2)))
            cur = ""
        else:
            cur += ch
    return out

# (file, protocol, class, flavour, impl header regex [, extra impl header with the private helpers])
PRIM_IMPLS = [
    ("binary.rs", "binary", "len", "any", r"^impl<T> TLengthProtocol for TBinaryProtocol<T>\s*\{"),
    ("binary.rs", "binary", "write", "bytesmut", r"^impl TOutputProtocol for TBinaryProtocol<&mut BytesMut>\s*\{"),
    ("binary.rs", "binary", "write", "linked", r"^impl TOutputProtocol for TBinaryProtocol<&mut LinkedBytes>\s*\{"),
    ("binary_le.rs", "binary_le", "len", "any", r"^impl<T> TLengthProtocol for TBinaryProtocol<T>\s*\{"),
    ("binary_le.rs", "binary_le", "write", "bytesmut", r"^impl TOutputProtocol for TBinaryProtocol<&mut BytesMut>\s*\{"),
    ("binary_le.rs", "binary_le", "write", "linked", r"^impl TOutputProtocol for TBinaryProtocol<&mut LinkedBytes>\s*\{"),
    ("compact.rs", "compact", "len", "any", r"^impl<T> TLengthProtocol for TCompactOutputProtocol<T>\s*\{"),
    ("compact.rs", "compact", "write", "bytesmut", r"^impl TCompactOutputProtocol<&mut BytesMut>\s*\{"),
    ("compact.rs", "compact", "write", "bytesmut", r"^impl TOutputProtocol for TCompactOutputProtocol<&mut BytesMut>\s*\{"),
    ("compact.rs", "compact", "write", "linked", r"^impl TCompactOutputProtocol<&mut LinkedBytes>\s*\{"),
    ("compact.rs", "compact", "write", "linked", r"^impl TOutputProtocol for TCompactOutputProtocol<&mut LinkedBytes>\s*\{"),
]
PRIM_READ_IMPLS = [
    ("binary.rs", "binary", "read", "sync", r"^impl TInputProtocol for TBinaryProtocol<&mut Bytes>\s*\{"),
    ("binary.rs", "binary", "read", "async", r"^impl<R> TAsyncInputProtocol for TAsyncBinaryProtocol<R>[^{]*\{"),
    ("binary_le.rs", "binary_le", "read", "sync", r"^impl TInputProtocol for TBinaryProtocol<&mut Bytes>\s*\{"),
    ("binary_le.rs", "binary_le", "read", "async", r"^impl<R> TAsyncInputProtocol for TAsyncBinaryProtocol<R>[^{]*\{"),
    ("compact.rs", "compact", "read", "sync", r"^impl TInputProtocol for TCompactInputProtocol<&mut Bytes>\s*\{"),
    ("compact.rs", "compact", "read", "async", r"^impl<R> TAsyncInputProtocol for TAsyncCompactProtocol<R>[^{]*\{"),
]
# reader methods NOT lowered (reported as such in coq/NOTES.md): the stateful compact readers and the envelope
PRIM_READ_NOT_LOWERED = {
    "compact": {"read_field_begin", "read_bool", "read_map_begin", "read_message_begin", "read_struct_begin", "read_struct_end"},
    "binary": {"read_message_begin"}, "binary_le": {"read_message_begin"},
}
PRIM_SKIP = {"flush", "buf_mut", "reset", "zero_copy_len", "new", "buf", "get_bytes", "skip_till_depth", "skip"}

def prim_rows(repo):
    R = _rustmini()
    rows = []
    srcs = {}
    for fn, proto, cls, flav, hre in PRIM_IMPLS:
        if fn not in srcs:
            src = read(repo, "pilota/src/thrift/" + fn)
            if fn == "compact.rs":
                src = src.split("#[cfg(test)]\nmod tests")[0]
            srcs[fn] = strip_rust(src)
        s = srcs[fn]
        a, b = block_span(s, hre, "prim ops: %s: %s" % (fn, hre))
        found = 0
        for name, sig, body in fn_bodies(s, a, b):
            if name in PRIM_SKIP:
                continue
            found += 1
            params = sig_params(sig)
            try:
                tree = R.parse_body(body)
                lw = Lower(params)
                st, val = lw.stmts(tree, tail_is_value=(cls == "len"))
            except (R.ParseError, LowerError) as e:
                die("prim ops: %s %s/%s/%s: body shape not understood: %s" % (fn, proto, flav, name, e))
            rows.append(dict(file=fn, proto=proto, cls=cls, flavour=flav, method=name,
                             params=[p for p, _ in params], ptypes=[t for _, t in params], stmts=st, value=val))
        if found < 3:
            die("prim ops: %s: %s: too few methods found" % (fn, hre))
    # the length macro of the compact writer (expanded in field_begin_len / bool_len)
    s = srcs["compact.rs"]
    a, b = block_span(s, r"^macro_rules! write_field_header_len\s*\{", "prim ops: compact.rs: macro write_field_header_len")
    txt = "\n".join(s.split("\n")[a - 1:b])
    m = re.search(r"\(\s*\$self:\w+\s*,\s*\$ax:\w+\s*,\s*\$field_type:\w+\s*,\s*\$id:\w+\s*\)\s*=>\s*\{(.*)\};?\s*\}\s*$", txt, flags=re.S)
    if not m:
        die("prim ops: macro write_field_header_len changed shape")
    try:
        lw = Lower([("ax", "usize"), ("field_type", "TCompactType"), ("id", "i16")])
        st, val = lw.stmts(R.parse_body(m.group(1)))
    except (R.ParseError, LowerError) as e:
        die("prim ops: macro write_field_header_len: body shape not understood: %s" % e)
    rows.append(dict(file="compact.rs", proto="compact", cls="len", flavour="any", method="macro write_field_header_len",
                     params=["ax", "field_type", "id"], ptypes=["usize", "TCompactType", "i16"], stmts=st, value=None))
    for fn, proto, cls, flav, hre in PRIM_READ_IMPLS:
        s = srcs[fn]
        a, b = block_span(s, hre, "prim ops: %s: %s" % (fn, hre))
        found = 0
        for name, sig, body in fn_bodies(s, a, b):
            if name in PRIM_SKIP or name in PRIM_READ_NOT_LOWERED.get(proto, ()):
                continue
            found += 1
            params = sig_params(sig)
            try:
                tree = R.parse_body(body)
                lw = Lower(params)
                st, val = lw.stmts(tree, tail_is_value=True)
            except (R.ParseError, LowerError) as e:
                die("prim ops: %s %s/%s/%s: body shape not understood: %s" % (fn, proto, flav, name, e))
            rows.append(dict(file=fn, proto=proto, cls=cls, flavour=flav, method=name,
                             params=[p for p, _ in params], ptypes=[t for _, t in params], stmts=st, value=val))
        if found < 10:
            die("prim ops: %s: %s: too few reader methods found" % (fn, hre))
    return rows

def lower_macro_calls(text):
    return text

def gen_prim_ops(repo):
    rows = prim_rows(repo)
    out = ["(* GENERATED by tools/extract.py (gen_prim_ops, parser tools/rustmini.py) from",
           "   pilota/src/thrift/{binary,binary_le,compact}.rs (writers over BytesMut / LinkedBytes, length methods, sync and async readers) -- do not edit.",
           "   One row per protocol struct and method: the method body lowered to the language of Thrift/PrimOp.v. *)",
           "From Coq Require Import String List ZArith.", "From PV Require Import Thrift.PrimOp.",
           "Import ListNotations.", "Open Scope string_scope.", "Open Scope Z_scope.", "",
           "Definition prim_ops : list prow :=\n  [" +
           ";\n   ".join("mkRow %s %s %s %s %s\n      %s\n      (%s)" % (
               cq(r["proto"]), cq(r["cls"]), cq(r["flavour"]), cq(r["method"]), clist(cq(p) for p in r["params"]),
               clist(r["stmts"]), ("Some (%s)" % r["value"]) if r["value"] is not None else "None") for r in rows) + "].", ""]
    return "\n".join(out)

# ---- trait method lists (completeness side of the PrimOps table) ----
TRAITS = ["TLengthProtocol", "TOutputProtocol", "TInputProtocol", "TAsyncInputProtocol"]

def trait_methods(repo):
    s = strip_rust(read(repo, "pilota/src/thrift/mod.rs"))
    out = []
    for tr in TRAITS:
        a, b = block_span(s, r"^pub trait %s\b[^{]*\{" % tr, "trait methods: mod.rs: trait %s" % tr)
        txt = "\n".join(s.split("\n")[a - 1:b])
        ms = []
        for m in re.finditer(r"^    (?:async |unsafe )?fn (\w+)", txt, flags=re.M):
            rest = re.sub(r"\[[^\]]*\]", "[]", txt[m.end():])
            k = re.search(r"[;{]", rest)
            if not k:
                die("trait methods: %s::%s: cannot find the end of the signature" % (tr, m.group(1)))
            ms.append((m.group(1), k.group(0) == ";"))
        if len(ms) < 20:
            die("trait methods: trait %s: too few methods found" % tr)
        out.append((tr, ms))
    return out

def gen_trait_methods(repo):
    tm = trait_methods(repo)
    out = ["(* GENERATED by tools/extract.py (gen_trait_methods) from the trait definitions of pilota/src/thrift/mod.rs -- do not edit.",
           "   Per trait: (method name, required?) in source order; required = declared without a default body, so every impl",
           "   of the trait has it. *)",
           "From Coq Require Import String List Bool.", "Import ListNotations.", "Open Scope string_scope.", "",
           "Definition trait_methods : list (string * list (string * bool)) :=\n  [" +
           ";\n   ".join("(%s,\n    [%s])" % (cq(tr), "; ".join("(%s, %s)" % (cq(n), "true" if r else "false") for n, r in ms)) for tr, ms in tm) + "].", ""]
    return "\n".join(out)

# ---- every fn of the Thrift protocol files (completeness side of the site inventory) ----
# The site inventory scans an explicit list of blocks (READER_BLOCKS).  So that a NEW helper fn, impl block or macro in
# these files cannot stay outside it unnoticed, Generated/ThriftFns.v lists every top-level item of every file with the
# fns it contains and whether the inventory scans it; coq/Thrift/FnsKnown.v pins that list (Proofs/SitesP.v-style
# comparison by computation: Proofs/FnsP.v, Properties/C09.v C09_fn_inventory).
THRIFT_FILES = ["mod.rs", "rw_ext.rs", "varint_ext.rs", "binary.rs", "binary_le.rs", "compact.rs", "binary_unsafe.rs"]

def thrift_items(repo):
    spans_by_file = {}
    for fn, blocks in READER_BLOCKS:
        s = strip_rust(read(repo, "pilota/src/thrift/" + fn))
        if fn == "compact.rs":
            s = s.split("#[cfg(test)]\nmod tests")[0]
        spans_by_file[fn] = [block_span(s, hre, "%s: %s" % (fn, label))[:2] for label, hre in blocks]
    out = []
    for fn in THRIFT_FILES:
        s = strip_rust(read(repo, "pilota/src/thrift/" + fn))
        s = re.split(r"#\[cfg\(test\)\]\s*\n\s*mod \w+", s)[0]
        spans = spans_by_file.get(fn, [])
        i, n, depth, start = 0, len(s), 0, 0
        while i < n:
            c = s[i]
            if c == "{":
                if depth == 0:
                    hdr_a = start; body_a = i
                depth += 1
            elif c == "}":
                depth -= 1
                if depth < 0:
                    die("fn inventory: %s: unbalanced braces" % fn)
                if depth == 0:
                    hdr = re.sub(r"#\[[^\]]*\]", " ", s[hdr_a:body_a])
                    hdr = re.sub(r"\s+", " ", hdr).strip()
                    hdr = hdr.split(";")[-1].strip()          # `use ..;` / `const ..;` lines before the item
                    body = s[hdr_a:i + 1]
                    fns = re.findall(r"\bfn\s+(?:r#)?(\w+)", body)
                    la = s.count("\n", 0, body_a) + 1; lb = s.count("\n", 0, i) + 1
                    scanned = any(a <= la and lb <= b for a, b in spans)
                    partly = any(not (b < la or lb < a) for a, b in spans)
                    if partly and not scanned:
                        die("fn inventory: %s: item %r is only partly inside a scanned block" % (fn, hdr))
                    if fns or re.match(r"(?:pub(?:\([^)]*\))?\s+)?(?:unsafe\s+)?(?:impl|trait|macro_rules!)", hdr):
                        out.append((fn, hdr, fns, scanned))
                    start = i + 1
            elif c == ";" and depth == 0:
                start = i + 1
            i += 1
        if depth != 0:
            die("fn inventory: %s: unbalanced braces" % fn)
    if len(out) < 40:
        die("fn inventory: too few items found")
    return out

def gen_thrift_fns(repo):
    items = thrift_items(repo)
    out = ["(* GENERATED by tools/extract.py (gen_thrift_fns) from pilota/src/thrift/{%s} (test modules cut) -- do not edit." % ",".join(f[:-3] for f in THRIFT_FILES),
           "   Every top-level item that is an impl / trait / macro or contains a fn: (file, header, fns in source order, scanned by the",
           "   reader-site inventory?). *)",
           "From Coq Require Import String List Bool.", "Import ListNotations.", "Open Scope string_scope.", "",
           "Definition thrift_items : list (string * string * list string * bool) :=\n  [" +
           ";\n   ".join("(%s, %s,\n    [%s], %s)" % (cq(f), coq_str(h), "; ".join(cq(x) for x in fns), "true" if sc else "false") for f, h, fns, sc in items) + "].", ""]
    return "\n".join(out)

GENERATORS = {"ThriftConsts.v": gen_thrift, "ReaderSites.v": gen_reader_sites, "PrimOps.v": gen_prim_ops, "TraitMethods.v": gen_trait_methods, "ThriftFns.v": gen_thrift_fns}


def main():
    ap = argparse.ArgumentParser()
    ap.add_argument("--repo", default="/repo")
    ap.add_argument("--out", default=os.path.join(os.path.dirname(os.path.abspath(__file__)), "..", "coq", "Generated"))
    ap.add_argument("--only", default=None)
    ap.add_argument("--family", default="all", help="main | <family name> | all")
    a = ap.parse_args()
    os.makedirs(a.out, exist_ok=True)
    digests = {}
    jobs = [(os.path.join(a.out, fn), g) for fn, g in GENERATORS.items()] if a.family in ("all", "main") else []
    # family plug-ins: tools/extract_<family>.py defines GENERATORS = {path relative to /verif: fn(repo) -> text}
    import glob, importlib.util
    here = os.path.dirname(os.path.abspath(__file__))
    for plug in sorted(glob.glob(os.path.join(here, "extract_*.py"))):
        if a.family != "all" and os.path.basename(plug) != "extract_%s.py" % a.family:
            continue
        spec = importlib.util.spec_from_file_location(os.path.basename(plug)[:-3], plug)
        mod = importlib.util.module_from_spec(spec)
        spec.loader.exec_module(mod)
        for rel, g in mod.GENERATORS.items():
            jobs.append((os.path.join(here, "..", rel), g))
    for p, g in jobs:
        fn = os.path.basename(p)
        if a.only and fn not in a.only.split(","): continue
        text = g(a.repo)
        os.makedirs(os.path.dirname(p), exist_ok=True)
        old = open(p).read() if os.path.exists(p) else None
        if old != text:
            with open(p, "w") as f: f.write(text)
            print(f"extract.py: {fn} regenerated (changed)")
        digests[fn] = hashlib.sha256(text.encode()).hexdigest()[:16]
    json.dump(digests, open(os.path.join(a.out, "digests_%s.json" % a.family), "w"), indent=1, sort_keys=True)

if __name__ == "__main__":
    main()
