(* C16: the panic-capable operations of the parser files are modelled as PARTIAL operations (Comb.v: checked_neg,
   slice_p, map_unwrap) that answer [PPanic] when their precondition fails.  This file discharges the preconditions at
   the sites where the ported parser uses them, so that the parser equals its total reading ("the operation cannot
   fail here") on every input -- which is what the rest of the development (Total.v, Round*.v, Inv*.v) works with.

   The one site of the unmodified tree: IntConstant::parse negates the magnitude it has just converted
   ([if minus % 2 == 1 { IntConstant(-v.0) }]).  The magnitude comes from i64::from_str / from_str_radix of a run of
   digits WITHOUT sign, so it lies in [0, i64::MAX]; i64::MIN, the only operand [-] panics on, is out of reach. *)
From PVIdl Require Import Comb Ast Parser.
From Coq Require Import Lia ZArith.
Open Scope Z_scope.

Lemma digit_val_nonneg' d : 0 <= digit_val d.
Proof. destruct d; vm_compute; discriminate. Qed.

Lemma digits_val_range radix max : 0 <= radix -> forall ds acc v, 0 <= acc <= max -> digits_val radix max acc ds = Some v -> 0 <= v <= max.
Proof.
  intros Hr. induction ds as [|d ds IH]; intros acc v Ha H; cbn [digits_val] in H.
  - inversion H; subst. exact Ha.
  - pose proof (digit_val_nonneg' d). destruct (acc * radix + digit_val d <=? max) eqn:E; [|discriminate].
    apply Z.leb_le in E. assert (M : 0 <= acc * radix) by (apply Z.mul_nonneg_nonneg; [apply Ha|exact Hr]).
    refine (IH _ _ _ H). split; [|exact E]. apply Z.add_nonneg_nonneg; assumption.
Qed.

Lemma parse_unsigned_range radix max ds v : 0 <= radix -> 0 <= max -> parse_unsigned radix max ds = Some v -> 0 <= v <= max.
Proof. intros Hr Hm. unfold parse_unsigned. apply digits_val_range; lia. Qed.

(* the precondition of the negation: a value in [0, i64::MAX] is not i64::MIN *)
Lemma checked_neg_magnitude v : 0 <= v <= i64_max -> checked_neg v = Some (- v).
Proof. intros H. unfold checked_neg. replace (v =? i64_min) with false; [reflexivity|]. symmetry. apply Z.eqb_neq. unfold i64_min. lia. Qed.

(* ... and it is needed: on i64::MIN the operation panics (the seeded change C16c converts the digits together with the
   innermost sign, so that "--9223372036854775808" reaches the negation with i64::MIN) *)
Example checked_neg_min : checked_neg i64_min = None /\ checked_neg (- i64_max) = Some i64_max.
Proof. split; reflexivity. Qed.

(* &s[2..end] with end = 1 ("/*/": the terminator found by a search from the START of the input overlaps the opening
   delimiter -- seeded change C16) and &s[..=more] where the byte at more+1 continues a character ("includé": seeded
   change C16b counts CHARACTERS and slices BYTES) violate the precondition of the slice operation *)
Example slice_p_examples :
  slice_p [x2f; x2a; x2f] 2 1 = None /\
  slice_p [x69; xc3; xa9; x20] 0 2 = None /\ slice_p [x69; xc3; xa9; x20] 0 3 = Some [x69; xc3; xa9].
Proof. repeat split; reflexivity. Qed.

Section Int.
Variable lf : nat.

(* IntConstant::parse with the negation read as total *)
Definition p_int_constant_total : parser Z :=
  fun i => do i, minus <- many0_count lf (tag sym_int_minus) i ;;
           do i, v <- alt [ (fun i => do i, _ <- tag sym_int_hex i ;;
                                      map_res hex_digit1 (parse_unsigned 16 i64_max) i);
                            map_res digit1 (parse_unsigned 10 i64_max) ] i ;;
           POk i (if Nat.odd minus then - v else v).

Theorem p_int_constant_is_total i : p_int_constant lf i = p_int_constant_total i.
Proof.
  unfold p_int_constant, p_int_constant_total.
  destruct (many0_count lf (tag sym_int_minus) i) as [i1 minus| | | |]; cbn [pbind]; try reflexivity.
  match goal with |- pbind ?x _ = pbind ?x _ => destruct x as [i2 v| | | |] eqn:E end; cbn [pbind]; try reflexivity.
  destruct (Nat.odd minus); [|reflexivity].
  assert (R : 0 <= v <= i64_max).
  { cbn [alt] in E. destruct (tag sym_int_hex i1) as [j t| | | |] eqn:ET; cbn [pbind] in E.
    - unfold map_res in E. destruct (hex_digit1 j) as [j2 ds| | | |]; try discriminate.
      + destruct (parse_unsigned 16 i64_max ds) as [z|] eqn:EP.
        * inversion E; subst. apply (parse_unsigned_range 16 i64_max ds); [lia|unfold i64_max; lia|exact EP].
        * unfold map_res in E. destruct (digit1 i1) as [j3 ds3| | | |]; try discriminate.
          destruct (parse_unsigned 10 i64_max ds3) as [z|] eqn:EP3; inversion E; subst.
          apply (parse_unsigned_range 10 i64_max ds3); [lia|unfold i64_max; lia|exact EP3].
      + unfold map_res in E. destruct (digit1 i1) as [j3 ds3| | | |]; try discriminate.
        destruct (parse_unsigned 10 i64_max ds3) as [z|] eqn:EP3; inversion E; subst.
        apply (parse_unsigned_range 10 i64_max ds3); [lia|unfold i64_max; lia|exact EP3].
    - unfold map_res in E. destruct (digit1 i1) as [j3 ds3| | | |]; try discriminate.
      destruct (parse_unsigned 10 i64_max ds3) as [z|] eqn:EP3; inversion E; subst.
      apply (parse_unsigned_range 10 i64_max ds3); [lia|unfold i64_max; lia|exact EP3].
    - discriminate. - discriminate. - discriminate. }
  now rewrite (checked_neg_magnitude v R).
Qed.

End Int.
