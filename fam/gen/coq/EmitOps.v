(* The op language the EMITTED code is lowered to (tools/emitted_ops.py, at check time, from the text the real
   pilota-build wrote for the corpus), and the op sequences the template model (Gen.v / GenKeep.v) PRESCRIBES for a
   schema type.  One row per schema type: the bodies of `encode`, `size`, `decode` of its
   `impl ::pilota::thrift::Message`.

   The lowering keeps what the text says: which protocol method is called (by its KIND: write_faststr and
   write_string are different ops), the TType arguments and field ids written in the text, the order of the
   statements, the `if let Some(value)` / `map_or(0, ..)` wrappers of optional fields, the match arms of the decoder
   with their guards, the initialisers of the field variables, the required checks, the late defaults, the
   retention statements of keep builds.  [norm_row] forgets what the model does not distinguish (String / FastStr,
   Bytes / Vec<u8>, u8 / i8, f64 / OrderedFloat, hash / btree containers, Box / Arc, Rust names); the comparison
   with the prescription is on normal forms.  No proofs in this file. *)
From Coq Require Import String.
From PVGen Require Export Gen GenKeep.
Open Scope Z_scope.

(* ---------- value level: write_<k>(x) / <k>_len(x) ---------- *)
Inductive vop :=
| VK (k : kind)                                  (* k among KString .. KUuid: the scalar / byte-string methods *)
| VVoid                                          (* write_struct_begin(&*VOID_IDENT); write_struct_end()  /  void_len() *)
| VList (et : ttype) (e : vop)                   (* write_list(et, &x, |p, val| e)  /  list_len(et, x, |p, el| e) *)
| VSet (bt : bool) (et : ttype) (e : vop)        (* write_set / write_btree_set *)
| VMap (bt : bool) (kt vt : ttype) (a b : vop)   (* write_map / write_btree_map *)
| VPath (n : nat).                               (* write_struct(x) / struct_len(x): Message::encode / size of row n *)

(* ---------- field level: write_<k>_field(id, x) / <k>_field_len(Some(id), x) ---------- *)
Inductive fop :=
| FK (k : kind)
| FEnum (n : nat)                                (* write_i32_field(id, (x).inner()) / i32_field_len(Some(id), (x).inner()) *)
| FList (et : ttype) (e : vop)
| FSet (bt : bool) (et : ttype) (e : vop)
| FMap (bt : bool) (kt vt : ttype) (a b : vop)
| FPath (ht : option ttype) (n : nat)            (* write_struct_field(id, x, tt) ; struct_field_len(Some(id), x): no TType in the text *)
| FNone.                                         (* no statement: a member of type () ; union arm of a void variant: `=> {}` / `=> 0` *)

Record efield := mkEF { ef_name : string; ef_id : Z; ef_opt : bool; ef_op : fop }.

(* ---------- decode: read_<k>() ---------- *)
Inductive rop :=
| RK (k : kind)
| RVoid                                          (* { read_struct_begin()?; read_struct_end()?; () } *)
| RList (e : rop)                                (* read_list_begin; with_capacity(size); size times e; read_list_end *)
| RSet (bt : bool) (e : rop)
| RMap (bt : bool) (a b : rop)
| RPath (n : nat)                                (* ::pilota::thrift::Message::decode(__protocol)? at Rust type = row n *)
| RBox (e : rop) | RArc (e : rop).

Inductive dinit := INone | IConst (some : bool).        (* let mut var = None | = <expr> | = Some(<expr>) *)
Inductive lenform := LNo | LCall | LAdd.                (* absent | `__protocol.f(..);` | `__pilota_offset += __protocol.f(..);` *)

Record darm := mkArm {
  da_id : Z; da_tt : ttype;                      (* Some(id) if field_ident.field_type == tt *)
  da_var : nat;                                  (* index of the assigned variable in the `let mut` sequence *)
  da_some : bool;                                (* var = Some(read) | var = read *)
  da_read : rop;
  da_count : bool                                (* __pilota_fields_num -= 1; *)
}.

Record dstruct := mkDS {
  ds_count : bool;                               (* let mut __pilota_fields_num = 0; and `+= 1` after EVERY variable *)
  ds_inits : list dinit;
  ds_unk : bool;                                 (* let mut _unknown_fields = LinkedBytes::new(); *)
  ds_skip_all : bool;                            (* loop head: if __pilota_fields_num == 0 { push_back(get_bytes(None, remaining - 2)?); break; } *)
  ds_ptr : bool;                                 (* let mut __pilota_offset = 0; let __pilota_begin_ptr = ..chunk().as_ptr(); *)
  ds_stop_len : lenform; ds_begin_len : lenform; ds_end_len : lenform;
  ds_arms : list darm;
  ds_skip : lenform;                             (* `_ =>` arm: skip(field_type)?  (LCall) | __pilota_offset += skip(..)? (LAdd) *)
  ds_push : bool;                                (* _unknown_fields.push_back(get_bytes(Some(begin_ptr), offset)?); *)
  ds_required : list nat;                        (* let Some(var) = var else { return Err(InvalidData ..) }; in this order *)
  ds_late : list (nat * bool);                   (* (var, true): if var.is_none() { var = Some(d) } ; (var, false): let var = var.unwrap_or_else(|| d); *)
  ds_build : list (string * nat);                (* Self { name: var, .. } *)
  ds_build_unk : bool                            (* .. _unknown_fields } *)
}.

Record uarm := mkUArm {
  ua_id : Z; ua_name : string; ua_read : rop;    (* Some(id) => if ret.is_none() { let field_ident = read; len; ret = Some(Name::Variant(field_ident)) } else { Err(InvalidData) } *)
  ua_len : lenform; ua_size : option vop         (* `size(&field_ident);` on the reader object *)
}.
Record dunion := mkDU {
  du_ptr : bool; du_stop_len : lenform; du_begin_len : lenform;
  du_arms : list uarm;
  du_skip : lenform;
  du_unknown : bool;                             (* `_ =>` arm retains: if ret.is_none() { ret = Some(_UnknownFields(get_bytes(..))) } else { Err } *)
  du_void_ok : bool                              (* no field at all: Ok(Name::Ok(())) instead of Err("received empty union") *)
}.

Inductive erow :=
| ENone                                          (* no row (the default of a table lookup) *)
| EStruct (name : string) (enc : list efield) (enc_unk : bool) (size : list efield) (size_unk : bool) (dec : dstruct)
| EUnion (name : string) (enc : list efield) (enc_unk : bool) (size : list efield) (size_unk : bool) (dec : dunion)
| EEnum (name : string)                          (* write_i32(self.inner()) ; i32_len(self.inner()) ; read_i32 + TryFrom *)
| ENewtype (name : string) (enc size : vop) (dec : rop).

(* ---------- normal forms ---------- *)
Definition nk (k : kind) : kind :=
  match k with
  | KString => KFastStr | KBytesVec => KBytes | KU8 => KI8 | KOrderedF64 => KF64
  | _ => k
  end.

Fixpoint norm_vop (e : vop) : vop :=
  match e with
  | VK k => VK (nk k)
  | VVoid => VVoid
  | VList et e => VList et (norm_vop e)
  | VSet _ et e => VSet false et (norm_vop e)
  | VMap _ kt vt a b => VMap false kt vt (norm_vop a) (norm_vop b)
  | VPath n => VPath n
  end.

Definition norm_fop (f : fop) : fop :=
  match f with
  | FK k => FK (nk k)
  | FEnum n => FEnum n
  | FList et e => FList et (norm_vop e)
  | FSet _ et e => FSet false et (norm_vop e)
  | FMap _ kt vt a b => FMap false kt vt (norm_vop a) (norm_vop b)
  | FPath ht n => FPath ht n
  | FNone => FNone
  end.

Definition norm_field (f : efield) : efield := mkEF EmptyString (ef_id f) (ef_opt f) (norm_fop (ef_op f)).

Fixpoint norm_rop (e : rop) : rop :=
  match e with
  | RK k => RK (nk k)
  | RVoid => RVoid
  | RList e => RList (norm_rop e)
  | RSet _ e => RSet false (norm_rop e)
  | RMap _ a b => RMap false (norm_rop a) (norm_rop b)
  | RPath n => RPath n
  | RBox e => norm_rop e
  | RArc e => norm_rop e
  end.

Definition norm_arm (a : darm) : darm := mkArm (da_id a) (da_tt a) (da_var a) (da_some a) (norm_rop (da_read a)) (da_count a).
Definition norm_ds (d : dstruct) : dstruct :=
  mkDS (ds_count d) (ds_inits d) (ds_unk d) (ds_skip_all d) (ds_ptr d) (ds_stop_len d) (ds_begin_len d) (ds_end_len d)
       (map norm_arm (ds_arms d)) (ds_skip d) (ds_push d) (ds_required d) (ds_late d)
       (map (fun q => (EmptyString, snd q)) (ds_build d)) (ds_build_unk d).
Definition norm_uarm (a : uarm) : uarm :=
  mkUArm (ua_id a) EmptyString (norm_rop (ua_read a)) (ua_len a) (option_map norm_vop (ua_size a)).
Definition norm_du (d : dunion) : dunion :=
  mkDU (du_ptr d) (du_stop_len d) (du_begin_len d) (map norm_uarm (du_arms d)) (du_skip d) (du_unknown d) (du_void_ok d).

Definition norm_row (r : erow) : erow :=
  match r with
  | ENone => ENone
  | EStruct _ enc eu size su dec => EStruct EmptyString (map norm_field enc) eu (map norm_field size) su (norm_ds dec)
  | EUnion _ enc eu size su dec => EUnion EmptyString (map norm_field enc) eu (map norm_field size) su (norm_du dec)
  | EEnum _ => EEnum EmptyString
  | ENewtype _ enc size dec => ENewtype EmptyString (norm_vop enc) (norm_vop size) (norm_rop dec)
  end.

(* ---------- Rust names: the three bodies of a struct speak of the same member for the same field id ---------- *)
Fixpoint arm_of_var (arms : list darm) (v : nat) : option Z :=
  match arms with
  | [] => None
  | a :: r => if Nat.eqb (da_var a) v then Some (da_id a) else arm_of_var r v
  end.

(* (member name, field id) as the decoder has it: `Self { name: var }` and the arm that assigns var *)
Definition dec_members (d : dstruct) : list (string * option Z) :=
  map (fun q => (fst q, arm_of_var (ds_arms d) (snd q))) (ds_build d).
Definition enc_members (fs : list efield) : list (string * option Z) :=
  map (fun f => (ef_name f, Some (ef_id f))) fs.

Definition member_eqb (a b : string * option Z) : bool :=
  (String.eqb (fst a) (fst b) && match snd a, snd b with Some x, Some y => Z.eqb x y | _, _ => false end)%bool.
Fixpoint members_eqb (a b : list (string * option Z)) : bool :=
  match a, b with
  | [], [] => true
  | x :: ra, y :: rb => (member_eqb x y && members_eqb ra rb)%bool
  | _, _ => false
  end.
Fixpoint sub_members (a b : list (string * option Z)) : bool :=       (* a is a subsequence of b *)
  match a, b with
  | [], _ => true
  | _ :: _, [] => false
  | x :: ra, y :: rb => if member_eqb x y then sub_members ra rb else sub_members a rb
  end.

(* struct: encode, size and the decoder (`Self { name: var }` + the arm that assigns var) name the same members, in the same
   order, under the same field ids.  union: encode and size have the same arms; the decoder's arms are among them *)
Definition names_ok (r : erow) : bool :=
  match r with
  | EStruct _ enc _ size _ dec =>
      (members_eqb (enc_members enc) (dec_members dec) && members_eqb (enc_members size) (dec_members dec))%bool
  | EUnion _ enc _ size _ dec =>
      (members_eqb (enc_members enc) (enc_members size)
       && sub_members (map (fun a => (ua_name a, Some (ua_id a))) (du_arms dec)) (enc_members enc))%bool
  | _ => true
  end.

(* ---------- what the template model prescribes ---------- *)
Section Presc.
  Variable S : schema.
  Variable cfg_keep : bool.          (* the builder configuration has keep_unknown_fields *)

  Fixpoint presc_vop (t : ty) : vop :=
    match t with
    | TyBool => VK KBool | TyI8 => VK KI8 | TyI16 => VK KI16 | TyI32 => VK KI32 | TyI64 => VK KI64
    | TyDouble => VK KF64 | TyString => VK KFastStr | TyBinary => VK KBytes | TyUuid => VK KUuid
    | TyVoid => VVoid
    | TyList e => VList (ttype_of_ty S e) (presc_vop e)
    | TySet e => VSet false (ttype_of_ty S e) (presc_vop e)
    | TyMap a b => VMap false (ttype_of_ty S a) (ttype_of_ty S b) (presc_vop a) (presc_vop b)
    | TyRef n => VPath n
    end.

  (* codegen_encode_field (size = false) / codegen_field_size (size = true) *)
  Definition presc_fop (size : bool) (t : ty) : fop :=
    match t with
    | TyBool => FK KBool | TyI8 => FK KI8 | TyI16 => FK KI16 | TyI32 => FK KI32 | TyI64 => FK KI64
    | TyDouble => FK KF64 | TyString => FK KFastStr | TyBinary => FK KBytes | TyUuid => FK KUuid
    | TyVoid => FNone
    | TyList e => FList (ttype_of_ty S e) (presc_vop e)
    | TySet e => FSet false (ttype_of_ty S e) (presc_vop e)
    | TyMap a b => FMap false (ttype_of_ty S a) (ttype_of_ty S b) (presc_vop a) (presc_vop b)
    | TyRef n =>
        match lookup S n with
        | Some (DEnum _) => FEnum n
        | _ => FPath (if size then None else Some (ttype_of_ty S t)) n
        end
    end.

  Definition is_opt (f : field) : bool := match f_req f with Optional => true | Required => false end.

  (* a member of type void has no statement in encode / size: FNone *)
  Definition presc_field (size : bool) (f : field) : efield :=
    mkEF EmptyString (f_id f) (is_opt f) (if is_void (resolve S (f_ty f)) then FNone else presc_fop size (f_ty f)).
  Definition presc_fields (size : bool) (fs : list field) : list efield := map (presc_field size) fs.

  (* the arm of a void variant is empty: no id in the text (0 here; the `Ok` variant of a reply has the id 0) *)
  Definition presc_variant (size : bool) (q : Z * ty) : efield :=
    if is_void (resolve S (snd q)) then mkEF EmptyString 0 false FNone
    else mkEF EmptyString (fst q) false (presc_fop size (snd q)).
  Definition presc_variants (size : bool) (vs : list (Z * ty)) : list efield := map (presc_variant size) vs.

  Fixpoint presc_rop (t : ty) : rop :=
    match t with
    | TyBool => RK KBool | TyI8 => RK KI8 | TyI16 => RK KI16 | TyI32 => RK KI32 | TyI64 => RK KI64
    | TyDouble => RK KF64 | TyString => RK KFastStr | TyBinary => RK KBytes | TyUuid => RK KUuid
    | TyVoid => RVoid
    | TyList e => RList (presc_rop e)
    | TySet e => RSet false (presc_rop e)
    | TyMap a b => RMap false (presc_rop a) (presc_rop b)
    | TyRef n => RPath n
    end.

  Definition lf (kk : bool) : lenform := if kk then LAdd else LCall.

  Definition const_dflt (f : field) : bool := match f_dflt f with Some (true, _) => true | _ => false end.
  Definition late_dflt (f : field) : bool := match f_dflt f with Some (false, _) => true | _ => false end.
  Definition no_dflt (f : field) : bool := match f_dflt f with None => true | _ => false end.

  Fixpoint indexed {A} (i : nat) (l : list A) : list (nat * A) :=
    match l with [] => [] | x :: r => (i, x) :: indexed (Datatypes.S i) r end.

  (* codegen_decode + codegen_decode_fields, sync *)
  Definition presc_dstruct (fs : list field) (keep is_arg : bool) : dstruct :=
    let kk := (cfg_keep && keep)%bool in
    let ka := (kk && is_arg)%bool in
    let ifs := indexed 0 fs in
    mkDS ka
         (map (fun f => if const_dflt f then IConst (is_opt f) else INone) fs)
         kk ka kk (lf kk) (lf kk) (lf kk)
         (map (fun q => mkArm (f_id (snd q)) (ttype_of_ty S (f_ty (snd q))) (fst q)
                              (is_opt (snd q) || negb (const_dflt (snd q)))%bool (presc_rop (f_ty (snd q))) ka) ifs)
         (lf kk) kk
         (map fst (filter (fun q => (negb (is_opt (snd q)) && no_dflt (snd q))%bool) ifs))
         (map (fun q => (fst q, is_opt (snd q))) (filter (fun q => late_dflt (snd q)) ifs))
         (map (fun q => (EmptyString, fst q)) ifs)
         kk.

  (* codegen_enum_impl (repr None), sync: arms for the variants that are not void *)
  Definition presc_dunion (vs : list (Z * ty)) (void_ok keep : bool) : dunion :=
    let kk := (cfg_keep && keep)%bool in
    mkDU kk (lf kk) (lf kk)
         (map (fun q => mkUArm (fst q) EmptyString (presc_rop (snd q)) (lf kk) (Some (presc_vop (snd q))))
              (filter (fun q => negb (is_void (resolve S (snd q)))) vs))
         (lf kk) kk void_ok.

  Definition presc_row (d : decl) : erow :=
    match d with
    | DStruct fs keep is_arg =>
        let kk := (cfg_keep && keep)%bool in
        EStruct EmptyString (presc_fields false fs) kk (presc_fields true fs) kk (presc_dstruct fs keep is_arg)
    | DUnion vs void_ok keep =>
        let kk := (cfg_keep && keep)%bool in
        EUnion EmptyString (presc_variants false vs) kk (presc_variants true vs) kk (presc_dunion vs void_ok keep)
    | DEnum _ => EEnum EmptyString
    | DTypedef t => ENewtype EmptyString (presc_vop t) (presc_vop t) (presc_rop t)
    end.

  Definition presc_tbl : list erow := map presc_row S.
End Presc.

(* ---------- decode_async: the same decoder shapes, read with `.await`; no length calls on the reader object, no countdown,
   no retention statement (`_unknown_fields: LinkedBytes::new()` in the construction of a keeping struct): what GenAsync.v
   models, and the structural content of finding F-12a ---------- *)
Inductive arow :=
| ANone
| AStruct (dec : dstruct)
| AUnion (dec : dunion)
| AEnum                                          (* let value = read_i32().await?; TryFrom *)
| ANewtype (dec : rop).

Definition norm_arow (r : arow) : arow :=
  match r with
  | ANone => ANone
  | AStruct d => AStruct (norm_ds d)
  | AUnion d => AUnion (norm_du d)
  | AEnum => AEnum
  | ANewtype d => ANewtype (norm_rop d)
  end.

Section PrescAsync.
  Variable S : schema.
  Variable cfg_keep : bool.

  Definition presc_dstruct_async (fs : list field) (keep : bool) : dstruct :=
    let kk := (cfg_keep && keep)%bool in
    let ifs := indexed 0 fs in
    mkDS false
         (map (fun f => if const_dflt f then IConst (is_opt f) else INone) fs)
         false false false LNo LNo LNo
         (map (fun q => mkArm (f_id (snd q)) (ttype_of_ty S (f_ty (snd q))) (fst q)
                              (is_opt (snd q) || negb (const_dflt (snd q)))%bool (presc_rop (f_ty (snd q))) false) ifs)
         LCall false
         (map fst (filter (fun q => (negb (is_opt (snd q)) && no_dflt (snd q))%bool) ifs))
         (map (fun q => (fst q, is_opt (snd q))) (filter (fun q => late_dflt (snd q)) ifs))
         (map (fun q => (EmptyString, fst q)) ifs)
         kk.

  Definition presc_dunion_async (vs : list (Z * ty)) (void_ok : bool) : dunion :=
    mkDU false LNo LNo
         (map (fun q => mkUArm (fst q) EmptyString (presc_rop (snd q)) LNo None)
              (filter (fun q => negb (is_void (resolve S (snd q)))) vs))
         LCall false void_ok.

  Definition presc_arow (d : decl) : arow :=
    match d with
    | DStruct fs keep _ => AStruct (presc_dstruct_async fs keep)
    | DUnion vs void_ok _ => AUnion (presc_dunion_async vs void_ok)
    | DEnum _ => AEnum
    | DTypedef t => ANewtype (presc_rop t)
    end.
End PrescAsync.

Definition aops_match (S : schema) (cfg_keep : bool) (emitted : list arow) : Prop :=
  map norm_arow emitted = map (presc_arow S cfg_keep) S.

(* S: schema.txt restricted to the types the configuration emits (a configuration emits a subset of the corpus) *)
Definition ops_match (S : schema) (cfg_keep : bool) (emitted : list erow) : Prop :=
  map norm_row emitted = presc_tbl S cfg_keep /\ forallb names_ok emitted = true.
