(* C16 -- the Thrift IDL parser is total on arbitrary text.
   Only statements, each closed by [exact] of a lemma proved in Proofs/, with Print Assumptions beneath.
   [parse_file s] is the Gallina port of [File::parse] (Parser.v); its outcome type has, besides nom's three results,
   [PPanic] (a Rust panic: an unwrap on a failed conversion) and [PFuel] (loop / depth fuel exhausted).
   [p_file lf df] is the same parser with explicit loop fuel [lf] (handed to every nom loop) and depth fuel [df],
   decremented exactly where the Rust code recurses natively: Ty::parse -> Type::parse -> Ty::parse and
   ConstValue::parse -> ConstValue::parse; [parse_file s = p_file (|s|+1) (|s|+1) s]. *)
From Coq Require Import String List.
From PVIdl Require Import Comb Ast Parser Proofs.Partial Proofs.Nesting Proofs.Total Generated.IdlReps Proofs.RepSites
  Generated.IdlPanics Proofs.PanicSites.
Import ListNotations.

(* on every byte string (a superset of all &str) the parser returns a parse result, a recoverable error or a
   failure: never a panic (the i32 / i64 conversions are modelled with their real ranges), and the fuel
   [length s + 1] never runs out *)
Theorem C16_total : forall s : list byte,
  match parse_file s with
  | POk _ _ | PErr _ _ | PFail _ _ => True
  | PPanic _ | PFuel _ => False
  end.
Proof. exact parse_total. Qed.
Print Assumptions C16_total.

(* the logic half of the stack claim: the native recursion is never deeper than [nesting s + 1] activations of the
   Ty / ConstValue knots, where [nesting s] (Proofs/Nesting.v: a seven-state scanner that skips the three comment
   styles and the two quote styles) is the deepest nesting of '<' '[' '{' against '>' ']' '}' in s: depth fuel above
   the nesting is never exhausted (c = 1 knot activation per level, c' = 1).  The bytes of stack per activation are
   measured by the harness (pv/props/c16.py, evidence stack_probe). *)
Theorem C16_depth : forall (lf df : nat) (s : list byte),
  (length s < lf)%nat -> (nesting s < Z.of_nat df)%Z ->
  match p_file lf df s with
  | POk _ _ | PErr _ _ | PFail _ _ => True
  | PPanic _ | PFuel _ => False
  end.
Proof. exact parse_depth_bound. Qed.
Print Assumptions C16_depth.

(* the nesting of a text is at most its length (so that C16_total is the instance df = |s|+1 of C16_depth) and
   never negative *)
Theorem C16_nesting_range : forall s : list byte, (0 <= nesting s <= Z.of_nat (length s))%Z.
Proof. exact nesting_range. Qed.
Print Assumptions C16_nesting_range.

(* the shape half of the stack claim.  C16_depth bounds the DEPTH fuel by the nesting; that says something about the
   native stack only if the repetitions of the Rust code are loops where the model spends LOOP fuel, and its recursion
   is where the model spends depth fuel.  [src_rep_sites] / [src_recursive] / [nom_loop_combinators] are regenerated
   from the Rust text on every run (tools/extract_idl.py: for every function of the 16 parser files the nom
   combinators that apply a sub-parser repeatedly, with multiplicity; the functions that can reach themselves in the
   call graph; whether each such combinator is a loop without self call in the source of the nom version of
   Cargo.lock).  [model_rep_sites] / [model_depth_users] are computed by Ltac from the definitions of Parser.v
   (Proofs/RepSites.v: unfold the definitions that port a function, count the applications of each Comb.v loop
   combinator and the occurrences of [FDepth]).  A repetition rewritten as self-recursion -- same language, same
   results, one native frame per iteration -- leaves C16_total and C16_depth true of the model and breaks this. *)
Theorem C16_repetition_is_iteration :
  src_rep_sites = model_rep_sites /\
  map (fun r => nonzero (fst (snd r))) model_counts_shared = [[]; []] /\
  src_recursive = ["ConstValue::parse"; "Ty::parse"; "Type::parse"]%string /\
  model_depth_users = ["ConstValue::parse"; "Ty::parse"]%string /\
  (forall lf df i, p_ty lf 0 i = PFuel FDepth /\ p_const_value lf 0 i = PFuel FDepth /\ p_type lf df = p_type_of lf (p_ty lf df)) /\
  all_loops nom_loop_combinators = true /\
  map fst nom_loop_combinators = ["escaped"; "many0"; "many0_count"; "many1"; "many_till"; "separated_list1"]%string /\
  (forall A B (p : parser A) (q : parser B) c i,
     many0 0 p i = PFuel FLoop /\ many1_loop 0 p i = PFuel FLoop /\ many0_count 0 p i = PFuel FLoop /\
     many_till 0 p q i = PFuel FLoop /\ sep_loop 0 q p i = PFuel FLoop /\ escaped_loop 0 p c q i i = PFuel FLoop).
Proof. exact repetition_is_iteration. Qed.
Print Assumptions C16_repetition_is_iteration.

(* the panic half of the claim as an obligation.  The result type [pres] has [PPanic]; C16_total says the parser never
   returns it -- which says something only if the panic-capable operations of the Rust code ARE operations of the model
   that can answer [PPanic].  [src_panic_sites] is regenerated from the Rust text on every run (tools/extract_idl.py: for
   every function of the 16 parser files the unwrap / expect calls, panic macros, indexing and slicing, unary minus,
   binary + - *, division by a non-literal); [model_panic_sites] counts, in the definitions of Parser.v, the applications
   of the partial operations of Comb.v (checked_neg: i64 negation, panics on i64::MIN; slice_p: &s[a..b], panics unless
   a <= b <= len on char boundaries; map_unwrap).  The unmodified tree has one site, the negation in IntConstant::parse;
   its precondition holds because the operand is the unsigned conversion of a digit run (Proofs/Partial.v), so the
   parser equals its total reading and every other theorem of C15 / C16 is about the same function.  A new slice
   (&input[2..end], &input[..=more]) has no counterpart in the model; a negation whose operand is converted together
   with its sign changes the pinned conversion clauses (extract_idl.py PINNED) on which the precondition lemma rests. *)
Theorem C16_no_panic :
  src_panic_sites = model_panic_sites /\
  (forall lf i, p_int_constant lf i = p_int_constant_total lf i) /\
  (forall v, (0 <= v <= i64_max)%Z -> checked_neg v = Some (- v)%Z) /\
  checked_neg i64_min = None.
Proof. exact no_panic_obligation. Qed.
Print Assumptions C16_no_panic.
