(* Less used entry points (Thrift/AppMsg.v): ApplicationException size / encode, message envelopes in sequences on one
   protocol object, the unchecked codec's envelope. *)
From PV Require Import Thrift.AppMsg Proofs.VarintP Proofs.TablesP Proofs.PrimP Proofs.HeaderP Proofs.RoundtripP Proofs.LenP
  Proofs.SpecP Proofs.UnsafeP.
From Coq Require Import ZifyN ZifyNat ZifyBool.
Open Scope Z_scope.

(* ================================================================== *)
(* ApplicationException: size = bytes written, contexts restored *)

Lemma app_val_wt msg kind : len_ok (length msg) = true -> in_s 32 kind -> wt (app_val msg kind) = true.
Proof.
  intros Hm Hk. unfold app_val. rewrite wt_struct. cbn [wtf wt]. rewrite Hm. apply in_sb_spec in Hk. rewrite Hk. reflexivity.
Qed.

(* for every protocol, buffer kind and STARTING context (a pending bool id, if any, being an i16): whenever encode()
   succeeds, size() started from the same context returns exactly the number of bytes written and ends in the same
   context *)
Theorem app_exception_size p k msg kind c ss c' :
  len_ok (length msg) = true -> in_s 32 kind -> pend_ok c ->
  app_encode p k msg kind c = Ok (ss, c') ->
  app_size p msg kind c = Ok (Z.of_nat (length (flat ss)), c') /\ pend_ok c'.
Proof. intros Hm Hk Hp H. exact (len_val_exact p k _ (app_val_wt msg kind Hm Hk) c ss c' Hp H). Qed.

(* on a protocol object with nothing pending: encode() succeeds and leaves the context as it found it; so does size(),
   which therefore returns the same number however often and in whatever order the two are called *)
Theorem app_exception_balanced p k msg kind c :
  len_ok (length msg) = true -> in_s 32 kind -> w_pend c = None ->
  exists ss, app_encode p k msg kind c = Ok (ss, c) /\
             app_size p msg kind c = Ok (Z.of_nat (length (flat ss)), c).
Proof.
  intros Hm Hk Hp. pose proof (app_val_wt msg kind Hm Hk) as Hwt.
  destruct (roundtrip_val p k _ Hwt c Hp) as (ss & Hw & _). exists ss. split; [exact Hw|].
  exact (proj1 (size_then_encode p k _ c ss c Hwt Hp Hw)).
Qed.

(* ================================================================== *)
(* message envelopes *)

Lemma hdr_facts p t :
  let size := wrap_s 32 (Z.lor (version_of p) (mtype_code t)) in
  p <> PCompact ->
  in_s 32 size /\ (0 <? size) = false /\ mtype_of_code (Z.land size 15) = Some t /\
  (Z.land size (wrap_s 32 (version_mask_of p)) =? wrap_s 32 (version_of p)) = true.
Proof.
  intros size Hp. subst size. split; [apply wrap_s_range; lia|].
  destruct p; [| |congruence]; destruct t; vm_compute; repeat split; reflexivity.
Qed.

Lemma w_message_end_ok p c : w_pend c = None -> w_message_end p c = Ok ([], c).
Proof. intros H. unfold w_message_end, assert_no_pending_w. rewrite H. destruct p; reflexivity. Qed.

(* the envelope round trip, every protocol, buffer kind, writer context, reader context, trailing bytes *)
Theorem msg_roundtrip p k m c :
  len_ok (length (m_name m)) = true -> in_s 32 (m_seq m) ->
  exists ss, w_message_begin p k m c = Ok (ss, c) /\
    forall r rcx, r_message_begin p (mkS (flat ss ++ r) rcx) = Ok (m, mkS r rcx).
Proof.
  intros Hn Hs. destruct m as [name t seq]. cbn [m_name m_seq] in *.
  destruct p.
  1,2: match goal with |- context [w_message_begin ?p _ _ _] =>
         destruct (hdr_facts p t ltac:(discriminate)) as (F0 & F1 & F2 & F3);
         cbn [w_message_begin m_type m_name m_seq];
         destruct (w_i32_ok p (wrap_s 32 (Z.lor (version_of p) (mtype_code t))) c) as (l1 & W1 & R1);
         destruct (w_bytes_ok p k name c) as (sb & Wb & Rb);
         destruct (w_i32_ok p seq c) as (l3 & W3 & R3);
         eexists; split; [eapply wseq_ok; [eapply wseq_ok; [exact W1|exact Wb]|exact W3]|];
         intros r rcx; rewrite !flat_app, !flat_copy, <- !app_assoc; cbn [r_message_begin];
         rewrite (R1 F0); cbn [bind]; rewrite F1, F2, F3; cbn [negb];
         rewrite (Rb Hn); cbn [bind]; rewrite (R3 Hs); reflexivity
       end.
  destruct (msg_compact_write k name t seq c Hn Hs) as (ss & W & E). exists ss. split; [exact W|].
  intros r rcx. rewrite E. apply msg_compact_read; auto.
Qed.

(* several enveloped messages written back to back with ONE writer are read back by ONE reader: same envelopes, same
   values (up to the key / value types of an empty compact map), exactly the bytes written are consumed, and both the writer
   and the reader context are left as they were found -- whatever they were *)
Definition msg_ok (q : msgid * tval) : Prop :=
  len_ok (length (m_name (fst q))) = true /\ in_s 32 (m_seq (fst q)) /\ wt (snd q) = true.

Theorem message_sequence p k : forall msgs, Forall msg_ok msgs ->
  forall c, w_pend c = None ->
  exists ss, write_msgs p k msgs c = Ok (ss, c) /\
    forall fuel r rcx, (forall q, In q msgs -> (vsize (snd q) <= fuel)%nat) -> idle rcx ->
      read_msgs p fuel (map (fun q => ttype_of (snd q)) msgs) (mkS (flat ss ++ r) rcx)
        = Ok (map (fun q => (fst q, canon p (snd q))) msgs, mkS r rcx).
Proof.
  induction msgs as [|[m v] t IH]; intros HF c Hp.
  - exists []. split; [reflexivity|]. intros. reflexivity.
  - inversion HF as [|? ? (Hn & Hs & Hwt) Ht]; subst. cbn [fst snd] in *.
    destruct (msg_roundtrip p k m c Hn Hs) as (s1 & W1 & R1).
    destruct (roundtrip_val p k v Hwt c Hp) as (s2 & W2 & _ & R2).
    destruct (IH Ht c Hp) as (s3 & W3 & R3).
    exists (((s1 ++ s2) ++ []) ++ s3). split.
    + cbn [write_msgs]. eapply wseq_ok; [|exact W3].
      eapply wseq_ok; [eapply wseq_ok; [exact W1|exact W2]|apply w_message_end_ok; exact Hp].
    + intros fuel r rcx Hf Hi. cbn [map read_msgs fst snd].
      rewrite !flat_app, flat_nil, app_nil_r, <- !app_assoc.
      rewrite R1. cbn [bind]. rewrite (R2 fuel _ rcx (Hf (m, v) (or_introl eq_refl)) Hi). cbn [bind].
      rewrite (R3 fuel r rcx (fun q Hq => Hf q (or_intror Hq)) Hi). reflexivity.
Qed.

(* non-vacuity: two messages, the second after a struct with a bool field; compact, zero-copy linked buffer *)
Example message_sequence_example :
  let msgs := [(mkMsg [x70; x69; x6e; x67] MCall 7, VStruct [(1, VBool true); (2, VI32 5)]);
               (mkMsg [] MReply (-3), VStruct [(1, VList TBool [VBool true; VBool false])])] in
  Forall msg_ok msgs /\
  exists ss, write_msgs PCompact (BLinked true) msgs w0 = Ok (ss, w0) /\
    read_msgs PCompact 9 [TStruct; TStruct] (mkS (flat ss ++ [xff]) r0) = Ok (msgs, mkS [xff] r0).
Proof.
  cbv zeta. split.
  - repeat (apply Forall_cons; [vm_compute; repeat split; congruence|]). apply Forall_nil.
  - eexists. split; [vm_compute; reflexivity|]. vm_compute. reflexivity.
Qed.

(* ================================================================== *)
(* the unchecked codec's envelope: on every input on which the checked binary reader reads an envelope (and a sequence
   of enveloped messages), the unchecked reader returns the same, never reads outside its window, and its cursor stands
   where the checked reader stopped *)

Lemma rewindow_RU {A} (x : A) s u : RU s u -> exists u', (let* (_, u1) := u_rewindow u in Ok (x, u1)) = Ok (x, u') /\ RU s u'.
Proof.
  intros [Hb Hi]. unfold u_rewindow. replace (Nat.leb (uidx u) (length (ubuf u))) with true by (symmetry; apply Nat.leb_le; lia).
  cbn [bind]. eexists. split; [reflexivity|]. split; cbn [urest ubuf uidx skipn]; [exact Hb|lia].
Qed.

Lemma message_begin_usim s u : RU s u -> usim (r_message_begin PBinary s) (u_message_begin u).
Proof.
  intros H. cbn [r_message_begin]. unfold u_message_begin.
  destruct (r_i32 PBinary s) as [[size s1]| |] eqn:E; cbn [bind usim]; auto.
  pose proof (fixed_usim 4 32 s u H) as S. change (r_fixed PBinary 4 32 s) with (r_i32 PBinary s) in S. rewrite E in S.
  destruct S as (u1 & Eu & H1). fold u_i32 in Eu. rewrite Eu. cbn [bind].
  destruct (0 <? size); [exact I|].
  destruct (mtype_of_code (Z.land size 15)) as [mt|]; [|exact I].
  cbn [version_mask_of version_of].
  destruct (negb (Z.land size (wrap_s 32 binary_version_mask) =? wrap_s 32 binary_version_1)); [exact I|].
  destruct (r_bytes PBinary s1) as [[name s2]| |] eqn:Eb; cbn [bind usim]; auto.
  pose proof (bytes_usim s1 u1 H1) as Sb. rewrite Eb in Sb. destruct Sb as (u2 & Eub & H2). rewrite Eub. cbn [bind].
  destruct (r_i32 PBinary s2) as [[seq s3]| |] eqn:E3; cbn [bind usim]; auto.
  pose proof (fixed_usim 4 32 s2 u2 H2) as S3. change (r_fixed PBinary 4 32 s2) with (r_i32 PBinary s2) in S3. rewrite E3 in S3.
  destruct S3 as (u3 & Eu3 & H3). fold u_i32 in Eu3. rewrite Eu3. cbn [bind].
  destruct (rewindow_RU (mkMsg name mt seq) s3 u3 H3) as (u4 & E4 & H4). rewrite E4. eauto.
Qed.

Theorem message_sequence_usim : forall tys f s u, RU s u ->
  usim (read_msgs PBinary f tys s) (uread_msgs f tys u).
Proof.
  induction tys as [|ty t IH]; intros f s u H; cbn [read_msgs uread_msgs]; [apply usim_ret; exact H|].
  eapply usim_bind; [apply message_begin_usim; exact H|]. intros m s1 u1 H1.
  eapply usim_bind; [apply uread_val_sim; exact H1|]. intros v s2 u2 H2.
  eapply usim_bind; [apply IH; exact H2|]. intros r s3 u3 H3. apply usim_ret; exact H3.
Qed.

Theorem unchecked_message_eq tys f l rcx ms s' :
  read_msgs PBinary f tys (mkS l rcx) = Ok (ms, s') ->
  exists u', uread_msgs f tys (mkU l 0) = Ok (ms, u') /\ urest u' = rbuf s' /\ (uidx u' <= length (ubuf u'))%nat.
Proof.
  intros H. pose proof (message_sequence_usim tys f (mkS l rcx) (mkU l 0)) as S.
  rewrite H in S. destruct (S ltac:(split; cbn; [reflexivity|lia])) as (u' & E & [Hb Hi]).
  exists u'. repeat split; auto.
Qed.

(* composed with message_sequence: what the checked binary writer produces for a sequence of enveloped messages is read
   back by the unchecked reader *)
Theorem unchecked_message_roundtrip k msgs c : Forall msg_ok msgs -> w_pend c = None ->
  exists ss, write_msgs PBinary k msgs c = Ok (ss, c) /\
    forall fuel r, (forall q, In q msgs -> (vsize (snd q) <= fuel)%nat) ->
      exists u', uread_msgs fuel (map (fun q => ttype_of (snd q)) msgs) (mkU (flat ss ++ r) 0)
                   = Ok (map (fun q => (fst q, canon PBinary (snd q))) msgs, u') /\ urest u' = r.
Proof.
  intros HF Hp. destruct (message_sequence PBinary k msgs HF c Hp) as (ss & W & R). exists ss. split; [exact W|].
  intros fuel r Hf. specialize (R fuel r r0 Hf idle_r0).
  destruct (unchecked_message_eq _ _ _ _ _ _ R) as (u' & E & Hr & _). exists u'. split; [exact E|exact Hr].
Qed.
