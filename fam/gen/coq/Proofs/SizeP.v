(* P2 (C04 at the generated-code level): the emitted size() is the value interpreter's size pass on to_tval
   -- outside the class of finding F-04a (compact + a field whose declared type is a typedef of bool) -- hence,
   by the primitive-level theorem len_val_exact, the number of bytes the emitted encoder writes. *)
From PVGen Require Import Gen GenSpec Proofs.GenBase Proofs.EncP.
From PV Require Import Proofs.TablesP Proofs.PrimP Proofs.HeaderP Proofs.RoundtripP Proofs.LenP.
From Coq Require Import ZifyN ZifyNat ZifyBool.
Open Scope Z_scope.

(* ---------- the class of finding F-04a, restricted to what a value of the type can reach ---------- *)
Fixpoint ty_refs (t : ty) : list nat :=
  match t with
  | TyRef n => [n]
  | TyList a | TySet a => ty_refs a
  | TyMap a b => ty_refs a ++ ty_refs b
  | _ => []
  end.
Definition decl_refs (d : decl) : list nat :=
  match d with
  | DStruct fs _ _ => flat_map (fun f => ty_refs (f_ty f)) fs
  | DUnion vs _ _ => flat_map (fun '(_, t) => ty_refs t) vs
  | DTypedef t => ty_refs t
  | DEnum _ => []
  end.
Definition rmem (n : nat) (R : list nat) : bool := existsb (Nat.eqb n) R.
Definition refs_in (R : list nat) (t : ty) : bool := forallb (fun n => rmem n R) (ty_refs t).
(* R is closed under "the declaration of n mentions m" *)
Definition closed_refs (S : schema) (R : list nat) : bool :=
  forallb (fun n => match lookup S n with Some d => forallb (fun m => rmem m R) (decl_refs d) | None => true end) R.
Definition decls_no_tdbool (S : schema) (R : list nat) : bool :=
  forallb (fun n => match lookup S n with Some d => decl_no_tdbool S d | None => true end) R.
Fixpoint reach_n (S : schema) (fuel : nat) (R : list nat) : list nat :=
  match fuel with
  | O => R
  | Datatypes.S f =>
      reach_n S f (R ++ nodup Nat.eq_dec (filter (fun m => negb (rmem m R))
                                            (flat_map (fun n => match lookup S n with Some d => decl_refs d | None => [] end) R)))
  end.
(* the declarations reachable from t (typedef targets, container components, struct fields, union variants), checked to be
   closed -- so no adequacy of the iteration count is assumed -- contain no typedef-of-bool field *)
Definition no_tdbool_reach (S : schema) (t : ty) : bool :=
  let R := reach_n S (length S) (nodup Nat.eq_dec (ty_refs t)) in
  closed_refs S R && refs_in R t && decls_no_tdbool S R.

Lemma rmem_in n R : rmem n R = true -> In n R.
Proof. unfold rmem. rewrite existsb_exists. intros (x & Hx & E). apply Nat.eqb_eq in E. subst. exact Hx. Qed.

Section Size.
  Variable S : schema.
  Hypothesis Hwf : wf_schema S = true.
  Variable p : pk.
  Variable R : list nat.
  Hypothesis Hcl : p = PCompact -> closed_refs S R = true.
  Hypothesis HnbR : p = PCompact -> decls_no_tdbool S R = true.

  Lemma closed_decl n d m : p = PCompact -> rmem n R = true -> lookup S n = Some d -> In m (decl_refs d) -> rmem m R = true.
  Proof.
    intros Hp Hn Hl Hm. specialize (Hcl Hp). unfold closed_refs in Hcl. rewrite forallb_forall in Hcl.
    specialize (Hcl _ (rmem_in _ _ Hn)). rewrite Hl in Hcl. rewrite forallb_forall in Hcl. exact (Hcl _ Hm).
  Qed.

  Lemma refs_resolve_n f : forall t, p = PCompact -> refs_in R t = true -> refs_in R (resolve_n S f t) = true.
  Proof.
    induction f as [|f IH]; intros t Hp H; [exact H|]. destruct t; try exact H.
    cbn [resolve_n]. destruct (lookup S n) as [[| | |t']|] eqn:El; try exact H.
    apply IH; [exact Hp|]. unfold refs_in. rewrite forallb_forall. intros m Hm.
    unfold refs_in in H. cbn [ty_refs forallb] in H. apply andb_prop in H as [Hn _].
    exact (closed_decl n _ m Hp Hn El Hm).
  Qed.
  Lemma refs_resolve t : (p = PCompact -> refs_in R t = true) -> p = PCompact -> refs_in R (resolve S t) = true.
  Proof. intros H Hp. apply refs_resolve_n; auto. Qed.

  Lemma refs_field n dfs kp ia f : (p = PCompact -> refs_in R (TyRef n) = true) -> lookup S n = Some (DStruct dfs kp ia) -> In f dfs ->
    p = PCompact -> refs_in R (f_ty f) = true.
  Proof.
    intros H Hl Hin Hp. specialize (H Hp). unfold refs_in in H. cbn [ty_refs forallb] in H. apply andb_prop in H as [Hn _].
    unfold refs_in. rewrite forallb_forall. intros m Hm. apply (closed_decl n _ m Hp Hn Hl).
    cbn [decl_refs]. apply in_flat_map. exists f. split; assumption.
  Qed.
  Lemma refs_variant n vs vok kp id vt : (p = PCompact -> refs_in R (TyRef n) = true) -> lookup S n = Some (DUnion vs vok kp) ->
    In (id, vt) vs -> p = PCompact -> refs_in R vt = true.
  Proof.
    intros H Hl Hin Hp. specialize (H Hp). unfold refs_in in H. cbn [ty_refs forallb] in H. apply andb_prop in H as [Hn _].
    unfold refs_in. rewrite forallb_forall. intros m Hm. apply (closed_decl n _ m Hp Hn Hl).
    cbn [decl_refs]. apply in_flat_map. exists (id, vt). split; assumption.
  Qed.

  Lemma decl_ok n d : (p = PCompact -> refs_in R (TyRef n) = true) -> lookup S n = Some d -> p = PCompact -> decl_no_tdbool S d = true.
  Proof.
    intros H Hl Hp. specialize (H Hp). unfold refs_in in H. cbn [ty_refs forallb] in H. apply andb_prop in H as [Hn _].
    specialize (HnbR Hp). unfold decls_no_tdbool in HnbR. rewrite forallb_forall in HnbR.
    specialize (HnbR _ (rmem_in _ _ Hn)). rewrite Hl in HnbR. exact HnbR.
  Qed.

  (* the only place where size() and encode announce different TTypes *)
  Lemma l_field_begin_size_ttype t id c :
    ttype_ok S t = true -> (p = PCompact -> tdbool_field S t = false) ->
    l_field_begin p (size_field_ttype S t) id c = l_field_begin p (ttype_of_ty S t) id c.
  Proof.
    intros Hok Hb. unfold size_field_ttype. destruct (is_nonenum_path S t) eqn:E; [|reflexivity].
    destruct p; try reflexivity.
    specialize (Hb eq_refl). unfold tdbool_field in Hb. rewrite E in Hb. cbn [andb] in Hb.
    unfold ttype_ok in Hok. unfold path_field_len_ttype.
    destruct (ttype_of_ty S t); cbn in Hok, Hb; try discriminate; reflexivity.
  Qed.

  Lemma no_tdbool_field n dfs kp ia f : (p = PCompact -> refs_in R (TyRef n) = true) -> lookup S n = Some (DStruct dfs kp ia) -> In f dfs ->
    p = PCompact -> tdbool_field S (f_ty f) = false.
  Proof.
    intros Hr Hl Hin Hp. pose proof (decl_ok n _ Hr Hl Hp) as Hnb. cbn [decl_no_tdbool] in Hnb.
    rewrite forallb_forall in Hnb. specialize (Hnb _ Hin). apply negb_true_iff in Hnb. exact Hnb.
  Qed.

  Lemma no_tdbool_variant n vs vok kp id vt : (p = PCompact -> refs_in R (TyRef n) = true) -> lookup S n = Some (DUnion vs vok kp) -> In (id, vt) vs ->
    p = PCompact -> tdbool_field S vt = false.
  Proof.
    intros Hr Hl Hin Hp. pose proof (decl_ok n _ Hr Hl Hp) as Hnb. cbn [decl_no_tdbool] in Hnb.
    rewrite forallb_forall in Hnb. specialize (Hnb _ Hin). cbn in Hnb. apply negb_true_iff in Hnb. exact Hnb.
  Qed.

  Ltac sub_refs t Hr Eres :=
    let Hp := fresh "Hp" in let Q := fresh "Q" in
    intros Hp; pose proof (refs_resolve t Hr Hp) as Q; rewrite Eres in Q;
    first [ exact Q
          | unfold refs_in in Q; cbn [ty_refs] in Q; rewrite forallb_app in Q; apply andb_prop in Q as [? ?]; assumption ].

  Theorem size_as_len v : forall t, has_type S t v = true -> (p = PCompact -> refs_in R t = true) ->
    forall c, size_ty S p t v c = len_val p (to_tval S t v) c.
  Proof.
    induction v using gval_ind'; intros t Ht Hrf c.
    1-10: cbn [has_type size_ty to_tval len_val] in *; res_cases S t; try reflexivity.
    - decl_cases S n. reflexivity.
    - (* list *)
      rewrite has_type_list in Ht. rewrite size_ty_list, to_tval_list. res_cases S t.
      apply andb_prop in Ht as [_ He].
      change (len_val p (VList (ttype_of_ty S et) (tv_elems S et l))) with
        (l_coll_begin p (ttype_of_ty S et) (Z.of_nat (length (tv_elems S et l))) +++ len_elems p (tv_elems S et l)).
      rewrite tv_elems_length. apply lseq_ext; [reflexivity|]. clear c.
      induction l as [|x r IHr]; intros c; [reflexivity|].
      inversion H as [|? ? Hx Hr]; subst. cbn [ht_elems] in He. apply andb_prop in He as [He1 He2].
      rewrite size_elems_cons. cbn [tv_elems].
      change (len_elems p (to_tval S et x :: tv_elems S et r)) with
        (len_val p (to_tval S et x) +++ len_elems p (tv_elems S et r)).
      apply lseq_ext; [apply Hx; [exact He1|sub_refs t Hrf Eres]|intros; apply IHr; auto].
    - (* set *)
      rewrite has_type_set in Ht. rewrite size_ty_set, to_tval_set. res_cases S t.
      apply andb_prop in Ht as [_ He].
      change (len_val p (VSet (ttype_of_ty S et) (tv_elems S et l))) with
        (l_coll_begin p (ttype_of_ty S et) (Z.of_nat (length (tv_elems S et l))) +++ len_elems p (tv_elems S et l)).
      rewrite tv_elems_length. apply lseq_ext; [reflexivity|]. clear c.
      induction l as [|x r IHr]; intros c; [reflexivity|].
      inversion H as [|? ? Hx Hr]; subst. cbn [ht_elems] in He. apply andb_prop in He as [He1 He2].
      rewrite size_elems_cons. cbn [tv_elems].
      change (len_elems p (to_tval S et x :: tv_elems S et r)) with
        (len_val p (to_tval S et x) +++ len_elems p (tv_elems S et r)).
      apply lseq_ext; [apply Hx; [exact He1|sub_refs t Hrf Eres]|intros; apply IHr; auto].
    - (* map *)
      rewrite has_type_map in Ht. rewrite size_ty_map, to_tval_map. res_cases S t.
      apply andb_prop in Ht as [_ He].
      change (len_val p (VMap (ttype_of_ty S kt) (ttype_of_ty S vt) (tv_pairs S kt vt l))) with
        (l_map_begin p (ttype_of_ty S kt) (ttype_of_ty S vt) (Z.of_nat (length (tv_pairs S kt vt l))) +++
         len_pairs p (tv_pairs S kt vt l)).
      rewrite tv_pairs_length. apply lseq_ext; [reflexivity|]. clear c.
      induction l as [|[a b] r IHr]; intros c; [reflexivity|].
      inversion H as [|? ? Hx Hr]; subst. cbn [fst snd] in Hx. destruct Hx as [Ha Hb].
      cbn [ht_pairs] in He. apply andb_prop in He as [He He3]. apply andb_prop in He as [He1 He2].
      rewrite size_pairs_cons. cbn [tv_pairs].
      change (len_pairs p ((to_tval S kt a, to_tval S vt b) :: tv_pairs S kt vt r)) with
        (len_val p (to_tval S kt a) +++ len_val p (to_tval S vt b) +++ len_pairs p (tv_pairs S kt vt r)).
      apply lseq_ext; [|intros; apply IHr; auto].
      apply lseq_ext; [apply Ha; [exact He1|sub_refs t Hrf Eres]|intros; apply Hb; [exact He2|sub_refs t Hrf Eres]].
    - (* struct *)
      rewrite has_type_struct in Ht. rewrite size_ty_struct, to_tval_struct. destruct unk; [|discriminate].
      res_cases S t. decl_cases S n.
      assert (Hrn : p = PCompact -> refs_in R (TyRef n) = true) by sub_refs t Hrf Eres.
      pose proof (ht_struct_inv S Hwf _ _ _ _ _ Elk Ht) as HF. clear Ht.
      change (len_val p (VStruct (tv_fields S dfs fs))) with
        (l_struct_begin p +++ len_fields p (tv_fields S dfs fs) +++ l_field_stop p +++ l_struct_end p).
      apply lseq_ext; [|reflexivity]. apply lseq_ext; [|reflexivity].
      cbn [l_unknown fold_right]. rewrite lseq_ret0_r.
      apply lseq_ext; [reflexivity|]. clear c.
      induction fs as [|[id x] r IHr]; intros c; [reflexivity|].
      inversion H as [|? ? Hx Hr]; subst. inversion HF as [|? ? (f & Hf & Hok & Hty) HFr]; subst.
      cbn [fst snd] in *. rewrite size_fields_cons, tv_fields_cons, Hf.
      change (len_fields p ((id, to_tval S (f_ty f) x) :: tv_fields S dfs r)) with
        (l_field_begin p (ttype_of (to_tval S (f_ty f) x)) id +++ len_val p (to_tval S (f_ty f) x) +++
         l_field_end p +++ len_fields p (tv_fields S dfs r)).
      apply lseq_ext; [|intros; apply IHr; auto].
      destruct (field_ok_inv _ _ Hok) as (_ & Hto & Hnv & _).
      unfold size_field. rewrite Hnv, (to_tval_ttype _ _ _ Hty).
      apply lseq_ext; [|reflexivity]. apply lseq_ext; [|intros c1; apply Hx; [exact Hty|exact (refs_field n _ _ _ f Hrn Elk (proj1 (find_field_in _ _ _ Hf)))]].
      apply l_field_begin_size_ttype; [exact Hto|].
      eapply no_tdbool_field; [exact Hrn|exact Elk|]. apply (find_field_in _ _ _ Hf).
    - (* union *)
      rewrite has_type_union in Ht. rewrite size_ty_union, to_tval_union. res_cases S t. decl_cases S n.
      assert (Hrn : p = PCompact -> refs_in R (TyRef n) = true) by sub_refs t Hrf Eres.
      destruct (find_variant vs id) as [vt|] eqn:Ev; [|discriminate].
      destruct (is_void (resolve S vt)) eqn:Evoid; [reflexivity|].
      change (len_val p (VStruct [(id, to_tval S vt v)])) with
        (l_struct_begin p +++
         (l_field_begin p (ttype_of (to_tval S vt v)) id +++ len_val p (to_tval S vt v) +++ l_field_end p +++ lret 0) +++
         l_field_stop p +++ l_struct_end p).
      apply lseq_ext; [|reflexivity]. apply lseq_ext; [|reflexivity]. apply lseq_ext; [reflexivity|].
      intros c1. rewrite lseq_ret0_r, (to_tval_ttype _ _ _ Ht).
      apply lseq_ext; [|reflexivity]. apply lseq_ext; [|intros c2; apply IHv; [exact Ht|exact (refs_variant n _ _ _ id vt Hrn Elk (find_variant_in _ _ _ Ev))]].
      pose proof (find_variant_in _ _ _ Ev) as Hin.
      apply l_field_begin_size_ttype; [eapply (wf_variant_ok S Hwf); eauto|eapply no_tdbool_variant; eauto].
    - discriminate.
  Qed.
End Size.

(* ---------- C04 at the generated-code level ---------- *)
Lemma reach_hyps S p t : (p = PCompact -> no_tdbool_reach S t = true) ->
  let R := reach_n S (length S) (nodup Nat.eq_dec (ty_refs t)) in
  (p = PCompact -> closed_refs S R = true) /\ (p = PCompact -> decls_no_tdbool S R = true) /\ (p = PCompact -> refs_in R t = true).
Proof.
  intros H R. repeat split; intros Hp; specialize (H Hp); unfold no_tdbool_reach in H; fold R in H;
    apply andb_prop in H as [H H3]; apply andb_prop in H as [H1 H2]; assumption.
Qed.

Theorem size_exact : forall S p k t v,
  wf_schema S = true -> has_type S t v = true -> (p = PCompact -> no_tdbool_reach S t = true) ->
  forall c ss c', pend_ok c -> enc_ty S p k t v c = Ok (ss, c') ->
    size_ty S p t v c = Ok (Z.of_nat (length (flat ss)), c') /\ pend_ok c'.
Proof.
  intros S p k t v Hwf Ht Hnb c ss c' Hp He.
  destruct (reach_hyps S p t Hnb) as (H1 & H2 & H3).
  rewrite (enc_as_tval S Hwf p k v t Ht) in He.
  rewrite (size_as_len S Hwf p _ H1 H2 v t Ht H3).
  exact (len_val_exact p k _ (to_tval_wt S Hwf v t Ht) c ss c' Hp He).
Qed.

(* the top-level entry points: fresh protocol object *)
Corollary gen_size_exact : forall S p k t v b,
  wf_schema S = true -> has_type S t v = true -> (p = PCompact -> no_tdbool_reach S t = true) ->
  gen_encode S p k t v = Ok b -> gen_size S p t v = Ok (Z.of_nat (length b)).
Proof.
  intros S p k t v b Hwf Ht Hnb He. unfold gen_encode in He. unfold gen_size.
  destruct (enc_ty S p k t v w0) as [[ss c']| |] eqn:E; cbn [bind] in He; try discriminate.
  injection He as <-.
  destruct (size_exact S p k t v Hwf Ht Hnb w0 ss c' I E) as [-> _]. reflexivity.
Qed.

(* the excluded class is a real divergence of the emitted code (finding F-04a) *)
Definition S_f04a : schema := [DTypedef TyBool; DStruct [mkField 1 Required (TyRef 0) None] false false].
Definition v_f04a : gval := GStruct [(1, GBool true)] [].

Theorem size_refuted : exists S t v,
  wf_schema S = true /\ has_type S t v = true /\
  exists n b, gen_size S PCompact t v = Ok n /\ gen_encode S PCompact BContig t v = Ok b /\ n <> Z.of_nat (length b).
Proof.
  exists S_f04a, (TyRef 1), v_f04a. split; [vm_compute; reflexivity|]. split; [vm_compute; reflexivity|].
  exists 3, [x11; x00]. split; [vm_compute; reflexivity|]. split; [vm_compute; reflexivity|].
  vm_compute. discriminate.
Qed.

(* ---------- non-vacuity ---------- *)
Definition S0 : schema :=
  [ DTypedef TyBool;
    DStruct [mkField 1 Required (TyRef 0) None; mkField 2 Optional TyI32 (Some (true, GI32 7));
             mkField 5 Optional (TyList TyString) None] false false;
    DUnion [(1, TyI32); (2, TyRef 1)] false false;
    DEnum [1; 2] ].
Definition v0 : gval := GStruct [(1, GBool true); (5, GList [GBytes [x61]; GBytes []])] [].

(* S0 without the typedef-of-bool field: inside the C04 domain for compact as well *)
Definition S1 : schema :=
  [ DTypedef TyI64;
    DStruct [mkField 1 Required TyBool None; mkField 2 Optional TyI32 (Some (true, GI32 7));
             mkField 5 Optional (TyList TyString) None; mkField 9 Optional (TyRef 0) None;
             mkField 300 Optional (TyMap TyI16 (TyRef 3)) None] false false;
    DUnion [(1, TyI32); (2, TyRef 1)] false false;
    DEnum [1; 2] ].
Definition v1 : gval :=
  GUnion 2 (GStruct [(1, GBool true); (5, GList [GBytes [x61]; GBytes []]); (9, GI64 (-5));
                     (300, GMap [(GI16 3, GEnum 2)])] []).

Example size_exact_nonvacuous :
  wf_schema S1 = true /\ has_type S1 (TyRef 2) v1 = true /\ no_tdbool S1 = true /\
  (exists b, gen_encode S1 PCompact BContig (TyRef 2) v1 = Ok b /\ (10 < length b)%nat) /\
  wf_schema S0 = true /\ has_type S0 (TyRef 1) v0 = true /\ no_tdbool S0 = false.
Proof.
  split; [vm_compute; reflexivity|]. split; [vm_compute; reflexivity|]. split; [vm_compute; reflexivity|].
  split; [eexists; split; [vm_compute; reflexivity|cbn; lia]|].
  split; [vm_compute; reflexivity|]. split; vm_compute; reflexivity.
Qed.

(* the condition follows the TYPE: in a schema with a typedef-of-bool field somewhere (no_tdbool false) a type that does not reach
   it keeps the compact size guarantee, a type that reaches it (directly, through a union variant) does not *)
Definition S2 : schema := S0 ++ [DStruct [mkField 1 Required TyI32 None; mkField 2 Optional (TyList (TyRef 3)) None] false false].
Example no_tdbool_reach_nonvacuous :
  no_tdbool S2 = false /\ no_tdbool_reach S2 (TyRef 4) = true /\ no_tdbool_reach S2 (TyMap TyString (TyRef 4)) = true /\
  no_tdbool_reach S2 (TyRef 1) = false /\ no_tdbool_reach S2 (TyRef 2) = false /\
  wf_schema S2 = true /\ has_type S2 (TyRef 4) (GStruct [(1, GI32 5); (2, GList [GEnum 1])] []) = true.
Proof. vm_compute. repeat split; reflexivity. Qed.
