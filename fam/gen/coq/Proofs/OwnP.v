(* C19: lemmas about the ownership-instrumented decode templates (Own.v).
     - erasing the ghost gives back the emitted decoders: Gen.gen_decode (sync), GenAsync.gen_decode_async (async);
     - a successful decode leaks nothing;
     - the only clause that leaks is the sync list arm with a Drop-needing element type: no such list reachable
       (or the async instance) => nothing is leaked, on every input, every protocol;
     - for that arm the leaked values are exactly the elements decoded before the failing one (plus what the
       failing element leaked itself);
     - the arm does leak: witness list<string> truncated inside the second element (finding F-19a);
     - the regenerated inventory of unsafe sites is the list the model accounts for. *)
From PV Require Import Thrift.AppMsg.
From PVGen Require Import Gen GenSpec GenKeep GenAsync Own Proofs.GenBase Proofs.EncP Proofs.RoundP.
From PV Require Import Proofs.TotalP.
From Coq Require Import ZifyN ZifyNat ZifyBool.
Open Scope Z_scope.

(* ---------- inventory ---------- *)
(* fails to compile as soon as tools/extract_gen.py finds another unsafe block / set_len / as_mut_ptr /
   mem::forget / from_raw_parts in the decode templates of the working tree *)
Lemma inventory_accounted : inventory_sites = own_sites.
Proof. reflexivity. Qed.

(* ---------- algebra of [own] ---------- *)
Lemma fst_obind_leak {A B} ex (r : own A) (f : A -> own B) :
  fst (obind_leak ex r f) = bind (fst r) (fun a => fst (f a)).
Proof. unfold obind_leak. destruct (fst r); reflexivity. Qed.

Lemma fst_obind_ext {A B} (r : own A) (f : A -> own B) (e : res A) (g : A -> res B) :
  fst r = e -> (forall a, fst (f a) = g a) -> fst (obind r f) = bind e g.
Proof. intros <- H. unfold obind. rewrite fst_obind_leak. destruct (fst r); cbn [bind]; auto. Qed.

Lemma fst_lift {A} (r : res A) : fst (lift r) = r.
Proof. reflexivity. Qed.

Definition OKNIL {A} (r : own A) : Prop := forall a, fst r = Ok a -> snd r = [].
Definition NOLEAK {A} (r : own A) : Prop := snd r = [].

Lemma noleak_oknil {A} (r : own A) : NOLEAK r -> OKNIL r.
Proof. intros H a _. exact H. Qed.
Lemma oknil_lift {A} (r : res A) : OKNIL (lift r).
Proof. intros a _. reflexivity. Qed.
Lemma noleak_lift {A} (r : res A) : NOLEAK (lift r).
Proof. reflexivity. Qed.

Lemma oknil_bind {A B} ex (r : own A) (f : A -> own B) :
  OKNIL r -> (forall a, OKNIL (f a)) -> OKNIL (obind_leak ex r f).
Proof.
  intros Hr Hf b. unfold obind_leak. destruct (fst r) as [a| |] eqn:E; cbn [fst snd]; try discriminate.
  intros H. rewrite (Hr a E), (Hf a b H). reflexivity.
Qed.

Lemma noleak_bind {A B} (r : own A) (f : A -> own B) :
  NOLEAK r -> (forall a, NOLEAK (f a)) -> NOLEAK (obind r f).
Proof.
  unfold NOLEAK, obind, obind_leak. intros Hr Hf. destruct (fst r) as [a| |]; cbn [snd]; rewrite Hr; auto.
  rewrite Hf. reflexivity.
Qed.

Lemma own_decode_S md A S p f t s : own_decode md A S p (Datatypes.S f) t s =
  match resolve S t with
  | TyBool => lift (let* (b, s) := m_bool md p s in Ok (GBool b, s))
  | TyI8 => lift (let* (z, s) := m_i8 md s in Ok (GI8 z, s))
  | TyI16 => lift (let* (z, s) := m_i16 md p s in Ok (GI16 z, s))
  | TyI32 => lift (let* (z, s) := m_i32 md p s in Ok (GI32 z, s))
  | TyI64 => lift (let* (z, s) := m_i64 md p s in Ok (GI64 z, s))
  | TyDouble => lift (let* (z, s) := m_double md p s in Ok (GDouble z, s))
  | TyString | TyBinary => lift (let* (l, s) := m_bytes md p s in Ok (GBytes l, s))
  | TyUuid => lift (let* (l, s) := m_uuid md s in Ok (GUuid l, s))
  | TyVoid =>
      lift (let* (_, s) := m_struct_begin md p s in
            let* (_, s) := m_struct_end md p s in Ok (GVoid, s))
  | TyList et =>
      let+ (h, s) := lift (m_coll_begin md p s) in
      let+ (l, s) := own_elems (own_decode md A S p f) (is_sync md && owns_heap A S et) (Datatypes.S f) et (snd h) s [] in
      lift (Ok (GList l, s))
  | TySet et =>
      let+ (h, s) := lift (m_coll_begin md p s) in
      let+ (l, s) := own_elems (own_decode md A S p f) false (Datatypes.S f) et (snd h) s [] in
      lift (Ok (GSet l, s))
  | TyMap kt vt =>
      let+ (h, s) := lift (m_map_begin md p s) in
      let+ (l, s) := own_pairs (own_decode md A S p f) (Datatypes.S f) kt vt (snd h) s [] in
      lift (Ok (GMap l, s))
  | TyRef n =>
      match lookup S n with
      | Some (DEnum _) => lift (let* (z, s) := m_i32 md p s in Ok (GEnum z, s))
      | Some (DStruct fs _ _) =>
          let+ (_, s) := lift (m_struct_begin md p s) in
          let+ (vars, s) := own_fields md S p f (own_decode md A S p f) (Datatypes.S f) fs (map init_var fs) s in
          let+ (_, s) := lift (m_struct_end md p s) in
          let+ out := lift (finish_fields fs vars) in
          lift (Ok (GStruct out [], s))
      | Some (DUnion vs void_ok _) =>
          let+ (_, s) := lift (m_struct_begin md p s) in
          let+ (ret, s) := own_variants md S p f (own_decode md A S p f) (Datatypes.S f) vs None s in
          let+ (_, s) := lift (m_struct_end md p s) in
          lift (match ret with
                | Some (id, x) => Ok (GUnion id x, s)
                | None =>
                    if void_ok then
                      match vs with
                      | (id0, _) :: _ => Ok (GUnion id0 GVoid, s)
                      | [] => Err EInvalidData
                      end
                    else Err EInvalidData
                end)
      | Some (DTypedef _) => lift (Err EOther)
      | None => lift (Err EOther)
      end
  end.
Proof. reflexivity. Qed.

Lemma gen_decode_async_S S p f t s : gen_decode_async S p (Datatypes.S f) t s =
  match resolve S t with
  | TyBool => let* (b, s) := a_bool p s in Ok (GBool b, s)
  | TyI8 => let* (z, s) := a_i8 s in Ok (GI8 z, s)
  | TyI16 => let* (z, s) := a_i16 p s in Ok (GI16 z, s)
  | TyI32 => let* (z, s) := a_i32 p s in Ok (GI32 z, s)
  | TyI64 => let* (z, s) := a_i64 p s in Ok (GI64 z, s)
  | TyDouble => let* (z, s) := a_double p s in Ok (GDouble z, s)
  | TyString | TyBinary => let* (l, s) := a_bytes p s in Ok (GBytes l, s)
  | TyUuid => let* (l, s) := a_uuid s in Ok (GUuid l, s)
  | TyVoid =>
      let* (_, s) := a_struct_begin p s in
      let* (_, s) := a_struct_end p s in Ok (GVoid, s)
  | TyList et =>
      let* (h, s) := a_coll_begin p s in
      let* (l, s) := dec_elems (gen_decode_async S p f) (Datatypes.S f) et (snd h) s [] in
      Ok (GList l, s)
  | TySet et =>
      let* (h, s) := a_coll_begin p s in
      let* (l, s) := dec_elems (gen_decode_async S p f) (Datatypes.S f) et (snd h) s [] in
      Ok (GSet l, s)
  | TyMap kt vt =>
      let* (h, s) := a_map_begin p s in
      let* (l, s) := dec_pairs (gen_decode_async S p f) (Datatypes.S f) kt vt (snd h) s [] in
      Ok (GMap l, s)
  | TyRef n =>
      match lookup S n with
      | Some (DEnum _) => let* (z, s) := a_i32 p s in Ok (GEnum z, s)
      | Some (DStruct fs _ _) =>
          let* (_, s) := a_struct_begin p s in
          let* (vars, s) := adec_fields S p f (gen_decode_async S p f) (Datatypes.S f) fs (map init_var fs) s in
          let* (_, s) := a_struct_end p s in
          let* out := finish_fields fs vars in
          Ok (GStruct out [], s)
      | Some (DUnion vs void_ok _) =>
          let* (_, s) := a_struct_begin p s in
          let* (ret, s) := adec_variants S p f (gen_decode_async S p f) (Datatypes.S f) vs None s in
          let* (_, s) := a_struct_end p s in
          match ret with
          | Some (id, x) => Ok (GUnion id x, s)
          | None =>
              if void_ok then
                match vs with
                | (id0, _) :: _ => Ok (GUnion id0 GVoid, s)
                | [] => Err EInvalidData
                end
              else Err EInvalidData
          end
      | Some (DTypedef _) => Err EOther
      | None => Err EOther
      end
  end.
Proof. reflexivity. Qed.

(* ---------- erasing the ghost: the loops ---------- *)
Section ProjLoops.
  Variable rec : ty -> rst -> res (gval * rst).
  Variable orec : ty -> rst -> own (gval * rst).
  Hypothesis Hrec : forall t s, fst (orec t s) = rec t s.

  Lemma own_elems_fst raw : forall m et n s acc,
    fst (own_elems orec raw m et n s acc) = dec_elems rec m et n s acc.
  Proof.
    induction m as [|m IH]; intros et n s acc; cbn [own_elems dec_elems]; destruct (n <=? 0); try reflexivity.
    rewrite fst_obind_leak, Hrec. destruct (rec et s) as [[x s1]| |]; cbn [bind fst snd]; auto.
  Qed.

  Lemma own_pairs_fst : forall m kt vt n s acc,
    fst (own_pairs orec m kt vt n s acc) = dec_pairs rec m kt vt n s acc.
  Proof.
    induction m as [|m IH]; intros kt vt n s acc; cbn [own_pairs dec_pairs]; destruct (n <=? 0); try reflexivity.
    apply fst_obind_ext; [apply Hrec|]. intros [a s1].
    apply fst_obind_ext; [apply Hrec|]. intros [b s2]. apply IH.
  Qed.

  Section Sync.
    Variable S : schema.
    Variable p : pk.
    Variable fk : nat.

    Lemma own_fields_fst_sync : forall m fs vars s,
      fst (own_fields MSync S p fk orec m fs vars s) = dec_fields S p fk rec m fs vars s.
    Proof.
      induction m as [|m IH]; intros fs vars s; cbn [own_fields dec_fields]; [reflexivity|].
      apply fst_obind_ext; [reflexivity|]. intros [h s1].
      destruct (ttype_eqb (fst h) TStop).
      { apply fst_obind_ext; [reflexivity|]. intros [z s2]. reflexivity. }
      apply fst_obind_ext; [reflexivity|]. intros [z s2].
      apply fst_obind_ext.
      - destruct (match_field S fs 0 (snd h) (fst h)) as [[i f]|].
        + apply fst_obind_ext; [apply Hrec|]. intros [x s3]. reflexivity.
        + unfold obind. rewrite fst_obind_leak. cbn [lift fst m_skip].
          destruct (skip p fk (fst h) s2) as [[k s3]| |]; reflexivity.
      - intros [vars' s3]. apply fst_obind_ext; [reflexivity|]. intros [z' s4]. apply IH.
    Qed.

    Lemma own_variants_fst_sync : forall m vs ret s,
      fst (own_variants MSync S p fk orec m vs ret s) = dec_variants S p fk rec m vs ret s.
    Proof.
      induction m as [|m IH]; intros vs ret s; cbn [own_variants dec_variants]; [reflexivity|].
      apply fst_obind_ext; [reflexivity|]. intros [h s1].
      destruct (ttype_eqb (fst h) TStop).
      { apply fst_obind_ext; [reflexivity|]. intros [z s2]. reflexivity. }
      apply fst_obind_ext; [reflexivity|]. intros [z s2].
      match goal with |- context [match ?k with Some _ => _ | None => _ end] =>
        match type of k with option (Z * ty) => destruct k as [[id vt]|] end end.
      - destruct ret; [reflexivity|]. apply fst_obind_ext; [apply Hrec|]. intros [x s3]. apply IH.
      - unfold obind. rewrite fst_obind_leak. cbn [lift fst m_skip].
        destruct (skip p fk (fst h) s2) as [[k s3]| |]; cbn [bind]; auto.
    Qed.
  End Sync.

  Section Async.
    Variable S : schema.
    Variable p : pk.
    Variable fk : nat.

    Lemma own_fields_fst_async : forall m fs vars s,
      fst (own_fields MAsync S p fk orec m fs vars s) = adec_fields S p fk rec m fs vars s.
    Proof.
      induction m as [|m IH]; intros fs vars s; cbn [own_fields adec_fields]; [reflexivity|].
      apply fst_obind_ext; [reflexivity|]. intros [h s1].
      destruct (ttype_eqb (fst h) TStop); [reflexivity|].
      unfold obind at 1. rewrite fst_obind_leak. cbn [lift fst m_field_begin_len bind].
      apply fst_obind_ext.
      - destruct (match_field S fs 0 (snd h) (fst h)) as [[i f]|].
        + apply fst_obind_ext; [apply Hrec|]. intros [x s3]. reflexivity.
        + apply fst_obind_ext; [reflexivity|]. intros [u s3]. reflexivity.
      - intros [vars' s3]. unfold obind at 1. rewrite fst_obind_leak. cbn [lift fst m_field_end_len bind]. apply IH.
    Qed.

    Lemma own_variants_fst_async : forall m vs ret s,
      fst (own_variants MAsync S p fk orec m vs ret s) = adec_variants S p fk rec m vs ret s.
    Proof.
      induction m as [|m IH]; intros vs ret s; cbn [own_variants adec_variants]; [reflexivity|].
      apply fst_obind_ext; [reflexivity|]. intros [h s1].
      destruct (ttype_eqb (fst h) TStop); [reflexivity|].
      unfold obind at 1. rewrite fst_obind_leak. cbn [lift fst m_field_begin_len bind].
      match goal with |- context [match ?k with Some _ => _ | None => _ end] =>
        match type of k with option (Z * ty) => destruct k as [[id vt]|] end end.
      - destruct ret; [reflexivity|]. apply fst_obind_ext; [apply Hrec|]. intros [x s3]. apply IH.
      - apply fst_obind_ext; [reflexivity|]. intros [u s3]. apply IH.
    Qed.
  End Async.
End ProjLoops.

(* erasing the ghost from the sync instance gives Gen.gen_decode *)
Theorem own_proj_sync A S p : forall f t s, fst (own_decode MSync A S p f t s) = gen_decode S p f t s.
Proof.
  induction f as [|f IH]; intros t s; [reflexivity|].
  rewrite own_decode_S, gen_decode_S.
  destruct (resolve S t) as [| | | | | | | | | |et|et|kt vt|n]; try reflexivity.
  - apply fst_obind_ext; [reflexivity|]. intros [h s1].
    apply fst_obind_ext; [apply own_elems_fst, IH|]. intros [l s2]. reflexivity.
  - apply fst_obind_ext; [reflexivity|]. intros [h s1].
    apply fst_obind_ext; [apply own_elems_fst, IH|]. intros [l s2]. reflexivity.
  - apply fst_obind_ext; [reflexivity|]. intros [h s1].
    apply fst_obind_ext; [apply own_pairs_fst, IH|]. intros [l s2]. reflexivity.
  - destruct (lookup S n) as [[fs kp ia|vs vo kp|ms|tt]|]; try reflexivity.
    + apply fst_obind_ext; [reflexivity|]. intros [u s1].
      apply fst_obind_ext; [apply own_fields_fst_sync, IH|]. intros [vars s2].
      apply fst_obind_ext; [reflexivity|]. intros [u2 s3].
      apply fst_obind_ext; [reflexivity|]. intros out. reflexivity.
    + apply fst_obind_ext; [reflexivity|]. intros [u s1].
      apply fst_obind_ext; [apply own_variants_fst_sync, IH|]. intros [ret s2].
      apply fst_obind_ext; [reflexivity|]. intros [u2 s3]. reflexivity.
Qed.

(* erasing the ghost from the async instance gives GenAsync.gen_decode_async *)
Theorem own_proj_async A S p : forall f t s, fst (own_decode MAsync A S p f t s) = gen_decode_async S p f t s.
Proof.
  induction f as [|f IH]; intros t s; [reflexivity|].
  rewrite own_decode_S, gen_decode_async_S.
  destruct (resolve S t) as [| | | | | | | | | |et|et|kt vt|n]; try reflexivity.
  - apply fst_obind_ext; [reflexivity|]. intros [h s1].
    apply fst_obind_ext; [apply own_elems_fst, IH|]. intros [l s2]. reflexivity.
  - apply fst_obind_ext; [reflexivity|]. intros [h s1].
    apply fst_obind_ext; [apply own_elems_fst, IH|]. intros [l s2]. reflexivity.
  - apply fst_obind_ext; [reflexivity|]. intros [h s1].
    apply fst_obind_ext; [apply own_pairs_fst, IH|]. intros [l s2]. reflexivity.
  - destruct (lookup S n) as [[fs kp ia|vs vo kp|ms|tt]|]; try reflexivity.
    + apply fst_obind_ext; [reflexivity|]. intros [u s1].
      apply fst_obind_ext; [apply own_fields_fst_async, IH|]. intros [vars s2].
      apply fst_obind_ext; [reflexivity|]. intros [u2 s3].
      apply fst_obind_ext; [reflexivity|]. intros out. reflexivity.
    + apply fst_obind_ext; [reflexivity|]. intros [u s1].
      apply fst_obind_ext; [apply own_variants_fst_async, IH|]. intros [ret s2].
      apply fst_obind_ext; [reflexivity|]. intros [u2 s3]. reflexivity.
Qed.

Theorem own_proj_top_sync A S p t l : fst (own_decode_top MSync A S p t l) = gen_decode_top S p t l.
Proof. unfold own_decode_top, gen_decode_top. cbn [fst]. rewrite own_proj_sync. reflexivity. Qed.
Theorem own_proj_top_async A S p t l : fst (own_decode_top MAsync A S p t l) = gen_decode_async_top S p t l.
Proof. unfold own_decode_top, gen_decode_async_top. cbn [fst]. rewrite own_proj_async. reflexivity. Qed.

(* ---------- a generic induction: a predicate closed under lift / obind holds of every template ---------- *)
Section Closed.
  Variable md : dmode.
  Variable A : list nat.
  Variable S : schema.
  Variable p : pk.
  Variable Q : forall A, own A -> Prop.
  Hypothesis Qlift : forall A (r : res A), Q A (lift r).
  Hypothesis Qbind : forall A B (r : own A) (f : A -> own B), Q A r -> (forall a, Q B (f a)) -> Q B (obind r f).

  Section L.
    Variable fk : nat.
    Variable orec : ty -> rst -> own (gval * rst).
    Variable T : ty -> Prop.                     (* the types the recursive calls are known to be fine at *)
    Hypothesis Hrec : forall t s, T t -> Q _ (orec t s).

    Lemma closed_pairs : forall m kt vt n s acc, T kt -> T vt -> Q _ (own_pairs orec m kt vt n s acc).
    Proof.
      induction m as [|m IH]; intros kt vt n s acc Hk Hv; cbn [own_pairs]; destruct (n <=? 0); try apply Qlift.
      apply Qbind; [apply Hrec, Hk|]. intros [a s1]. apply Qbind; [apply Hrec, Hv|]. intros [b s2]. apply IH; auto.
    Qed.

    Lemma closed_fields : forall m fs vars s, (forall f, In f fs -> T (f_ty f)) ->
      Q _ (own_fields md S p fk orec m fs vars s).
    Proof.
      induction m as [|m IH]; intros fs vars s Hfs; cbn [own_fields]; [apply Qlift|].
      apply Qbind; [apply Qlift|]. intros [h s1].
      destruct (ttype_eqb (fst h) TStop).
      { apply Qbind; [apply Qlift|]. intros [z s2]. apply Qlift. }
      apply Qbind; [apply Qlift|]. intros [z s2].
      apply Qbind.
      - destruct (match_field S fs 0 (snd h) (fst h)) as [[i f]|] eqn:Em.
        + apply Qbind; [|intros [x s3]; apply Qlift]. apply Hrec, Hfs.
          clear - Em. revert Em. generalize 0%nat. induction fs as [|g r IHr]; intros k; cbn [match_field]; [discriminate|].
          destruct (snd h) as [z|]; [|discriminate].
          destruct ((f_id g =? z) && ttype_eqb (ttype_of_ty S (f_ty g)) (fst h)).
          * intros H. injection H as _ <-. left. reflexivity.
          * intros H. right. eapply IHr. exact H.
        + apply Qbind; [apply Qlift|]. intros [u s3]. apply Qlift.
      - intros [vars' s3]. apply Qbind; [apply Qlift|]. intros [z' s4]. apply IH, Hfs.
    Qed.

    Lemma closed_variants : forall m vs ret s, (forall q, In q vs -> T (snd q)) ->
      Q _ (own_variants md S p fk orec m vs ret s).
    Proof.
      induction m as [|m IH]; intros vs ret s Hvs; cbn [own_variants]; [apply Qlift|].
      apply Qbind; [apply Qlift|]. intros [h s1].
      destruct (ttype_eqb (fst h) TStop).
      { apply Qbind; [apply Qlift|]. intros [z s2]. apply Qlift. }
      apply Qbind; [apply Qlift|]. intros [z s2].
      destruct (snd h) as [id|].
      - destruct (find_variant vs id) as [vt|] eqn:Ef.
        + destruct (is_void (resolve S vt)).
          * apply Qbind; [apply Qlift|]. intros [u s3]. apply IH, Hvs.
          * destruct ret; [apply Qlift|].
            apply Qbind; [|intros [x s3]; apply IH, Hvs].
            apply Hrec. apply (Hvs (id, vt)). apply find_variant_in, Ef.
        + apply Qbind; [apply Qlift|]. intros [u s3]. apply IH, Hvs.
      - apply Qbind; [apply Qlift|]. intros [u s3]. apply IH, Hvs.
    Qed.
  End L.
End Closed.

(* ---------- reachability facts ---------- *)
Lemma reach_resolve_n S t0 : forall fuel t, reach S t0 t -> reach S t0 (resolve_n S fuel t).
Proof.
  induction fuel as [|f IH]; intros t H; cbn [resolve_n]; [exact H|].
  destruct t; try exact H.
  destruct (lookup S n) as [[| | |t']|] eqn:E; try exact H.
  apply IH. eapply reach_typedef; eauto.
Qed.
Lemma reach_resolve S t0 t : reach S t0 t -> reach S t0 (resolve S t).
Proof. apply reach_resolve_n. Qed.

(* ---------- nothing leaks unless a raw list arm is reachable ---------- *)
(* one statement for both template instances: [is_sync md && owns_heap A S et] is the flag of the list arm *)
Theorem own_noleak md A S p t0 :
  (forall et, reach S t0 (TyList et) -> is_sync md && owns_heap A S et = false) ->
  forall f t s, reach S t0 t -> snd (own_decode md A S p f t s) = [].
Proof.
  intros Hno.
  induction f as [|f IH]; intros t s Hr; [reflexivity|].
  rewrite own_decode_S. apply reach_resolve in Hr.
  set (Q := fun (A : Type) (r : own A) => NOLEAK r).
  assert (Ql : forall A (r : res A), Q A (lift r)) by (intros; apply noleak_lift).
  assert (Qb : forall A B (r : own A) (g : A -> own B), Q A r -> (forall a, Q B (g a)) -> Q B (obind r g))
    by (intros; apply noleak_bind; auto).
  destruct (resolve S t) as [| | | | | | | | | |et|et|kt vt|n] eqn:Eres; try reflexivity.
  - (* list *)
    apply noleak_bind; [reflexivity|]. intros [h s1].
    rewrite (Hno et Hr).
    apply noleak_bind; [|intros [l s2]; reflexivity].
    assert (He : reach S t0 et) by (eapply reach_list; eauto).
    generalize (Datatypes.S f) (snd h) s1 (@nil gval).
    induction n as [|m IHm]; intros k s' acc; cbn [own_elems]; destruct (k <=? 0); try reflexivity.
    unfold NOLEAK, obind_leak. specialize (IH et s' He).
    destruct (fst (own_decode md A S p f et s')) as [[x s2]| |]; cbn [snd fst]; rewrite IH; [|reflexivity..].
    apply IHm.
  - (* set *)
    apply noleak_bind; [reflexivity|]. intros [h s1].
    apply noleak_bind; [|intros [l s2]; reflexivity].
    assert (He : reach S t0 et) by (eapply reach_set; eauto).
    generalize (Datatypes.S f) (snd h) s1 (@nil gval).
    induction n as [|m IHm]; intros k s' acc; cbn [own_elems]; destruct (k <=? 0); try reflexivity.
    unfold NOLEAK, obind_leak. specialize (IH et s' He).
    destruct (fst (own_decode md A S p f et s')) as [[x s2]| |]; cbn [snd fst]; rewrite IH; [|reflexivity..].
    apply IHm.
  - (* map *)
    apply noleak_bind; [reflexivity|]. intros [h s1].
    apply noleak_bind; [|intros [l s2]; reflexivity].
    apply (closed_pairs Q Ql Qb (own_decode md A S p f) (reach S t0)).
    + intros t' s' Ht'. apply IH, Ht'.
    + eapply reach_mapk; eauto.
    + eapply reach_mapv; eauto.
  - destruct (lookup S n) as [[fs kp ia|vs vo kp|ms|tt]|] eqn:Elk; try reflexivity.
    + apply noleak_bind; [reflexivity|]. intros [u s1].
      apply noleak_bind.
      * apply (closed_fields md S p Q Ql Qb f (own_decode md A S p f) (reach S t0)).
        -- intros t' s' Ht'. apply IH, Ht'.
        -- intros fd Hin. eapply reach_field; eauto.
      * intros [vars s2]. apply noleak_bind; [reflexivity|]. intros [u2 s3].
        apply noleak_bind; [reflexivity|]. intros out. reflexivity.
    + apply noleak_bind; [reflexivity|]. intros [u s1].
      apply noleak_bind.
      * apply (closed_variants md S p Q Ql Qb f (own_decode md A S p f) (reach S t0)).
        -- intros t' s' Ht'. apply IH, Ht'.
        -- intros q Hin. eapply reach_variant; eauto.
      * intros [ret s2]. apply noleak_bind; [reflexivity|]. intros [u2 s3]. reflexivity.
Qed.

(* C19 for the types outside the class of F-19a: the sync decoder leaks nothing, on every input *)
Theorem no_leak_partial A S t : no_heap_list A S t ->
  forall p f s, snd (own_decode MSync A S p f t s) = [].
Proof.
  intros Hn p f s. apply (own_noleak MSync A S p t); [|apply reach_refl].
  intros et Hr. cbn [is_sync andb]. apply Hn, Hr.
Qed.

(* the async decoder (push) never leaks, whatever the schema *)
Theorem no_leak_async A S t p f s : snd (own_decode MAsync A S p f t s) = [].
Proof. apply (own_noleak MAsync A S p t); [reflexivity|apply reach_refl]. Qed.

Corollary no_leak_partial_top A S t : no_heap_list A S t ->
  forall p l, snd (own_decode_top MSync A S p t l) = [].
Proof. intros H p l. unfold own_decode_top. cbn [snd]. apply no_leak_partial, H. Qed.
Corollary no_leak_async_top A S t p l : snd (own_decode_top MAsync A S p t l) = [].
Proof. unfold own_decode_top. cbn [snd]. apply no_leak_async. Qed.

(* the decidable sufficient condition *)
Lemma nhl_reach A S t0 : no_heap_list_b A S t0 = true -> forall t, reach S t0 t -> nhl_ty A S t = true.
Proof.
  unfold no_heap_list_b. intros H. apply andb_prop in H as [H0 HS]. rewrite forallb_forall in HS.
  assert (Hd : forall n d, lookup S n = Some d -> nhl_decl A S d = true).
  { intros n d E. apply HS. eapply nth_error_In. exact E. }
  induction 1 as [|a _ IH|a _ IH|a b _ IH|a b _ IH|n t' _ _ E|n fs kp ia f _ _ E Hin|n vs vo kp q _ _ E Hin]; auto.
  - cbn [nhl_ty] in IH. apply andb_prop in IH. tauto.
  - cbn [nhl_ty] in IH. apply andb_prop in IH. tauto.
  - cbn [nhl_ty] in IH. apply andb_prop in IH. tauto.
  - apply Hd in E. exact E.
  - apply Hd in E. cbn [nhl_decl] in E. rewrite forallb_forall in E. apply E, Hin.
  - apply Hd in E. cbn [nhl_decl] in E. rewrite forallb_forall in E. apply E, Hin.
Qed.

Lemma no_heap_list_b_sound A S t : no_heap_list_b A S t = true -> no_heap_list A S t.
Proof.
  intros H et Hr. apply (nhl_reach A S t H) in Hr. cbn [nhl_ty] in Hr. apply andb_prop in Hr as [Hr _].
  apply negb_true_iff in Hr. exact Hr.
Qed.

(* ---------- a successful decode leaks nothing (any schema, both instances) ---------- *)
Theorem own_ok_nil md A S p : forall f t s, OKNIL (own_decode md A S p f t s).
Proof.
  set (Q := fun (A : Type) (r : own A) => OKNIL r).
  assert (Ql : forall A (r : res A), Q A (lift r)) by (intros; apply oknil_lift).
  assert (Qb : forall A B (r : own A) (g : A -> own B), Q A r -> (forall a, Q B (g a)) -> Q B (obind r g))
    by (intros; apply oknil_bind; auto).
  assert (Hel : forall orec, (forall t s, OKNIL (orec t s)) -> forall raw m et n s acc, OKNIL (own_elems orec raw m et n s acc)).
  { intros orec Ho raw. induction m as [|m IHm]; intros et n s acc; cbn [own_elems]; destruct (n <=? 0); try apply oknil_lift.
    - intros a H. discriminate.
    - apply oknil_bind; [apply Ho|]. intros xs. apply IHm. }
  induction f as [|f IH]; intros t s; [apply oknil_lift|].
  rewrite own_decode_S.
  destruct (resolve S t) as [| | | | | | | | | |et|et|kt vt|n]; try apply oknil_lift.
  - apply Qb; [apply Ql|]. intros [h s1]. apply Qb; [apply Hel, IH|]. intros [l s2]. apply Ql.
  - apply Qb; [apply Ql|]. intros [h s1]. apply Qb; [apply Hel, IH|]. intros [l s2]. apply Ql.
  - apply Qb; [apply Ql|]. intros [h s1].
    apply Qb; [|intros [l s2]; apply Ql].
    apply (closed_pairs Q Ql Qb (own_decode md A S p f) (fun _ => True)); [intros; apply IH|exact I|exact I].
  - destruct (lookup S n) as [[fs kp ia|vs vo kp|ms|tt]|]; try apply oknil_lift.
    + apply Qb; [apply Ql|]. intros [u s1].
      apply Qb.
      * apply (closed_fields md S p Q Ql Qb f (own_decode md A S p f) (fun _ => True)); [intros; apply IH|intros; exact I].
      * intros [vars s2]. apply Qb; [apply Ql|]. intros [u2 s3]. apply Qb; [apply Ql|]. intros out. apply Ql.
    + apply Qb; [apply Ql|]. intros [u s1].
      apply Qb.
      * apply (closed_variants md S p Q Ql Qb f (own_decode md A S p f) (fun _ => True)); [intros; apply IH|intros; exact I].
      * intros [ret s2]. apply Qb; [apply Ql|]. intros [u2 s3]. apply Ql.
Qed.

Corollary own_ok_no_leak md A S p f t s x : fst (own_decode md A S p f t s) = Ok x -> snd (own_decode md A S p f t s) = [].
Proof. apply own_ok_nil. Qed.

(* ---------- exactly what the raw list arm leaks ---------- *)
Section Exact.
  Variable rec : ty -> rst -> res (gval * rst).
  Variable orec : ty -> rst -> own (gval * rst).
  Hypothesis Hrec : forall t s, fst (orec t s) = rec t s.
  Hypothesis Hok : forall t s, OKNIL (orec t s).

  (* with enough loop fuel (the count never exceeds it): a failing element loop stopped at element number
     |xs|; the leak is what that element leaked itself, then -- raw arm only -- the elements written before *)
  Lemma own_elems_fail raw et : forall m n s acc,
    n <= Z.of_nat m -> failed (fst (own_elems orec raw m et n s acc)) ->
    exists xs sk, decodes_seq rec et s xs sk /\ Z.of_nat (length xs) < n /\ failed (rec et sk) /\
      fst (own_elems orec raw m et n s acc) = match rec et sk with Ok _ => Err EOther | Err e => Err e | Panic st => Panic st end /\
      snd (own_elems orec raw m et n s acc) = snd (orec et sk) ++ (if raw then rev acc ++ xs else []).
  Proof.
    induction m as [|m IH]; intros n s acc Hn; cbn [own_elems].
    - destruct (Z.leb_spec n 0) as [H0|H0]; [|lia]. cbn [lift fst failed]. intros [].
    - destruct (Z.leb_spec n 0) as [H0|H0]; [cbn [lift fst failed]; intros []|].
      unfold obind_leak. pose proof (Hrec et s) as E. pose proof (Hok et s) as Ek.
      destruct (fst (orec et s)) as [[x s1]| |] eqn:Ef; cbn [fst snd].
      + intros Hfail. symmetry in E.
        destruct (IH (n - 1) s1 (x :: acc) ltac:(lia) Hfail) as (xs & sk & Hd & Hl & Hf & Ho & Hs).
        exists (x :: xs), sk. split; [econstructor; eauto|]. split; [cbn [length]; lia|]. split; [exact Hf|].
        split; [exact Ho|]. rewrite Hs, (Ek _ Ef). cbn [app rev]. destruct raw; [|reflexivity].
        rewrite <- !app_assoc. reflexivity.
      + intros _. exists [], s. split; [constructor|]. split; [cbn; lia|]. rewrite <- E. split; [exact I|].
        split; [reflexivity|]. rewrite app_nil_r. reflexivity.
      + intros _. exists [], s. split; [constructor|]. split; [cbn; lia|]. rewrite <- E. split; [exact I|].
        split; [reflexivity|]. rewrite app_nil_r. reflexivity.
  Qed.
End Exact.

(* the sync decoder of a list type on any input that makes it fail: either the header is rejected (nothing was
   built), or elements 0..k-1 = xs were decoded (by Gen.gen_decode, one after the other) and written through the
   raw pointer, element k failed, and what stays alive is what element k leaked itself followed by exactly xs --
   when the element type needs Drop; nothing of this frame otherwise *)
Theorem list_leak_exact A S p f t et s :
  resolve S t = TyList et -> (blen s < Datatypes.S f)%nat ->
  failed (fst (own_decode MSync A S p (Datatypes.S f) t s)) ->
  (failed (r_coll_begin p s) /\ snd (own_decode MSync A S p (Datatypes.S f) t s) = []) \/
  exists h s0 xs sk,
    r_coll_begin p s = Ok (h, s0) /\ decodes_seq (gen_decode S p f) et s0 xs sk /\
    Z.of_nat (length xs) < snd h /\ failed (gen_decode S p f et sk) /\
    snd (own_decode MSync A S p (Datatypes.S f) t s) =
      snd (own_decode MSync A S p f et sk) ++ (if owns_heap A S et then xs else []).
Proof.
  intros Eres Hf. rewrite own_decode_S, Eres.
  pose proof (r_coll_begin_good p s) as G.
  unfold obind, obind_leak. cbn [lift fst snd m_coll_begin].
  destruct (r_coll_begin p s) as [[h s0]| |] eqn:Ec; cbn [good_hdr] in G; cbn [fst snd app];
    [|intros _; left; split; [exact I|reflexivity]..].
  destruct G as [G1 G2].
  set (E := own_elems (own_decode MSync A S p f) (is_sync MSync && owns_heap A S et) (Datatypes.S f) et (snd h) s0 []).
  intros Hfail. right. exists h, s0.
  assert (HfE : failed (fst E)).
  { destruct (fst E) as [[l s2]| |]; cbn [fst lift failed] in Hfail |- *; auto. }
  destruct (own_elems_fail (gen_decode S p f) (own_decode MSync A S p f) (own_proj_sync A S p f) (own_ok_nil MSync A S p f)
              (is_sync MSync && owns_heap A S et) et (Datatypes.S f) (snd h) s0 [] ltac:(lia) HfE)
    as (xs & sk & Hd & Hl & Hfk & Ho & Hs).
  fold E in Ho, Hs. exists xs, sk. repeat split; auto.
  destruct (fst E) as [[l s2]| |]; [destruct HfE|..]; cbn [snd]; rewrite Hs, app_nil_r; cbn [is_sync andb rev app]; reflexivity.
Qed.

(* innermost failing list (no Drop-needing list below the element type): the leak is exactly the decoded prefix *)
Corollary list_leak_exact_flat A S p f t et s :
  resolve S t = TyList et -> (blen s < Datatypes.S f)%nat -> owns_heap A S et = true -> no_heap_list A S et ->
  failed (fst (own_decode MSync A S p (Datatypes.S f) t s)) ->
  (failed (r_coll_begin p s) /\ snd (own_decode MSync A S p (Datatypes.S f) t s) = []) \/
  exists h s0 xs sk,
    r_coll_begin p s = Ok (h, s0) /\ decodes_seq (gen_decode S p f) et s0 xs sk /\
    Z.of_nat (length xs) < snd h /\ failed (gen_decode S p f et sk) /\
    snd (own_decode MSync A S p (Datatypes.S f) t s) = xs.
Proof.
  intros Eres Hf Hh Hn Hfail.
  destruct (list_leak_exact A S p f t et s Eres Hf Hfail) as [H|(h & s0 & xs & sk & H1 & H2 & H3 & H4 & H5)]; [left; exact H|].
  right. exists h, s0, xs, sk. repeat split; auto.
  rewrite H5, Hh, (no_leak_partial A S et Hn). reflexivity.
Qed.

(* ---------- the arm does leak: finding F-19a ---------- *)
(* struct Names { 1: list<string> names }, value Names{names = ["a"; "bbbbb"]} in the binary protocol, cut one
   byte into the second string (4 bytes before the end): field header 0f 0001, list header 0b 00000002,
   "a" = 00000001 61, then 00000005 62 and nothing more *)
Definition leak_schema : schema := [DStruct [mkField 1 Optional (TyList TyString) None] false false].
Definition leak_input : list byte :=
  [x0f; x00; x01; x0b; x00; x00; x00; x02; x00; x00; x00; x01; x61; x00; x00; x00; x05; x62]%byte.

Lemma leak_witness :
  own_decode_top MSync [] leak_schema PBinary (TyRef 0) leak_input = (Err EInvalidData, [GBytes [x61]%byte]).
Proof. vm_compute. reflexivity. Qed.

Theorem list_leak_refuted :
  exists S t p l e, wf_schema S = true /\ fst (own_decode_top MSync [] S p t l) = Err e /\ e <> EOutOfFuel /\
                    snd (own_decode_top MSync [] S p t l) <> [].
Proof.
  exists leak_schema, (TyRef 0), PBinary, leak_input, EInvalidData.
  rewrite leak_witness. cbn [fst snd]. split; [vm_compute; reflexivity|]. split; [reflexivity|]. split; discriminate.
Qed.

(* the same bytes through the async instance: same error class family, nothing leaked *)
Example leak_witness_async :
  own_decode_top MAsync [] leak_schema PBinary (TyRef 0) leak_input = (Err ETransport, []).
Proof. vm_compute. reflexivity. Qed.

(* compact protocol: field header 19 (delta 1, list), list header 28 (2 x binary), 01 61, 05 62 *)
Example leak_witness_compact :
  own_decode_top MSync [] leak_schema PCompact (TyRef 0) [x19; x28; x01; x61; x05; x62]%byte
  = (Err EInvalidData, [GBytes [x61]%byte]).
Proof. vm_compute. reflexivity. Qed.

(* ---------- non-vacuity ---------- *)
(* a schema with containers that is OUTSIDE the class: list<i32>, set<string>, map<string,string>, a nested struct
   with a list<double>; the hypothesis of no_leak_partial holds, and a failing input exists *)
Definition safe_schema : schema :=
  [DStruct [mkField 1 Optional (TyList TyI32) None; mkField 2 Optional (TySet TyString) None;
            mkField 3 Optional (TyMap TyString TyString) None; mkField 4 Optional (TyRef 1) None] false false;
   DStruct [mkField 1 Required (TyList TyDouble) None] false false].

Example safe_schema_ok : wf_schema safe_schema = true /\ no_heap_list [] safe_schema (TyRef 0).
Proof. split; [vm_compute; reflexivity|]. apply no_heap_list_b_sound. vm_compute. reflexivity. Qed.

(* set<string> {"a", <truncated>}: fails, and nothing is leaked *)
Example safe_fails_clean :
  own_decode_top MSync [] safe_schema PBinary (TyRef 0)
    [x0e; x00; x02; x0b; x00; x00; x00; x02; x00; x00; x00; x01; x61; x00; x00; x00; x05; x62]%byte
  = (Err EInvalidData, []).
Proof. vm_compute. reflexivity. Qed.

(* the hypotheses of list_leak_exact_flat are satisfiable: list<string> *)
Example exact_hyps : resolve [] (TyList TyString) = TyList TyString /\ owns_heap [] [] TyString = true /\ no_heap_list [] [] TyString.
Proof.
  split; [reflexivity|]. split; [reflexivity|]. apply no_heap_list_b_sound. reflexivity.
Qed.

(* a list of lists leaks at both levels: [[“a”], [“b”, <truncated>]] : the inner frame leaks "b", the outer [“a”] *)
Example nested_leak :
  own_decode_top MSync [] [] PBinary (TyList (TyList TyString))
    [x0f; x00; x00; x00; x02;
     x0b; x00; x00; x00; x01; x00; x00; x00; x01; x61;
     x0b; x00; x00; x00; x02; x00; x00; x00; x01; x62; x00; x00; x00; x09]%byte
  = (Err EInvalidData, [GBytes [x62]%byte; GList [GBytes [x61]%byte]]).
Proof. vm_compute. reflexivity. Qed.

(* pilota.rust_wrapper_arc: the lowered schema represents `Arc<T>` as a reference to a typedef box `DTypedef T` whose index is
   listed in [A] (transparent for decoding: typedefs are resolved; an allocation for ownership).  ArcEl { 1: required Arc<Pt> p },
   Pt { 1: required i32 x }: without the marking ArcEl owns nothing and list<ArcEl> is in the no-leak class; with it the first
   element of a list whose second element is cut off is never dropped (observed on the emitted code: 40 bytes stay live). *)
Definition arc_schema : schema :=
  [DStruct [mkField 1 Required TyI32 None] false false;
   DStruct [mkField 1 Required (TyRef 2) None] false false;
   DTypedef (TyRef 0)].
Definition arc_input : list byte :=
  [x0c; x00; x00; x00; x02;  x0c; x00; x01; x08; x00; x01; x00; x00; x00; x05; x00; x00;  x0c]%byte.
Example arc_member_leak :
  owns_heap [] arc_schema (TyRef 1) = false /\ owns_heap [2%nat] arc_schema (TyRef 1) = true /\
  no_heap_list_b [2%nat] arc_schema (TyList (TyRef 1)) = false /\
  (exists e x, own_decode_top MSync [2%nat] arc_schema PBinary (TyList (TyRef 1)) arc_input = (Err e, [x])) /\
  snd (own_decode_top MSync [] arc_schema PBinary (TyList (TyRef 1)) arc_input) = [].
Proof. vm_compute. repeat split; eauto. Qed.

(* ================= the sync templates of keep_unknown_fields builds ================= *)
Lemma own_decode_keep_S A S p f t s : own_decode_keep A S p (Datatypes.S f) t s =
  match resolve S t with
  | TyBool => lift (let* (b, s) := r_bool p s in Ok (GBool b, s))
  | TyI8 => lift (let* (z, s) := r_i8 s in Ok (GI8 z, s))
  | TyI16 => lift (let* (z, s) := r_i16 p s in Ok (GI16 z, s))
  | TyI32 => lift (let* (z, s) := r_i32 p s in Ok (GI32 z, s))
  | TyI64 => lift (let* (z, s) := r_i64 p s in Ok (GI64 z, s))
  | TyDouble => lift (let* (z, s) := r_double p s in Ok (GDouble z, s))
  | TyString | TyBinary => lift (let* (l, s) := r_bytes p s in Ok (GBytes l, s))
  | TyUuid => lift (let* (l, s) := r_uuid s in Ok (GUuid l, s))
  | TyVoid =>
      lift (let* (_, s) := r_struct_begin p s in
            let* (_, s) := r_struct_end p s in Ok (GVoid, s))
  | TyList et =>
      let+ (h, s) := lift (r_coll_begin p s) in
      let+ (l, s) := own_elems (own_decode_keep A S p f) (owns_heap_keep A S et) (Datatypes.S f) et (snd h) s [] in
      lift (Ok (GList l, s))
  | TySet et =>
      let+ (h, s) := lift (r_coll_begin p s) in
      let+ (l, s) := own_elems (own_decode_keep A S p f) false (Datatypes.S f) et (snd h) s [] in
      lift (Ok (GSet l, s))
  | TyMap kt vt =>
      let+ (h, s) := lift (r_map_begin p s) in
      let+ (l, s) := own_pairs (own_decode_keep A S p f) (Datatypes.S f) kt vt (snd h) s [] in
      lift (Ok (GMap l, s))
  | TyRef n =>
      match lookup S n with
      | Some (DEnum _) => lift (let* (z, s) := r_i32 p s in Ok (GEnum z, s))
      | Some (DStruct fs true is_arg) =>
          let+ (_, s) := lift (r_struct_begin p s) in
          let+ (r, s) := own_fields_keep S p f (own_decode_keep A S p f) (Datatypes.S f) fs is_arg (map init_var fs)
                                         (Z.of_nat (length fs)) [] s in
          let+ (_, s) := lift (r_struct_end p s) in
          let+ out := lift (finish_fields fs (fst r)) in
          lift (Ok (GStruct out (snd r), s))
      | Some (DStruct fs false _) =>
          let+ (_, s) := lift (r_struct_begin p s) in
          let+ (vars, s) := own_fields MSync S p f (own_decode_keep A S p f) (Datatypes.S f) fs (map init_var fs) s in
          let+ (_, s) := lift (r_struct_end p s) in
          let+ out := lift (finish_fields fs vars) in
          lift (Ok (GStruct out [], s))
      | Some (DUnion vs void_ok true) =>
          let+ (_, s) := lift (r_struct_begin p s) in
          let+ (ret, s) := own_variants_keep S p f (own_decode_keep A S p f) (Datatypes.S f) vs UNone s in
          let+ (_, s) := lift (r_struct_end p s) in
          lift (match ret with
                | UKnown id x => Ok (GUnion id x, s)
                | UUnknown c => Ok (GUnionUnknown c, s)
                | UNone =>
                    if void_ok then
                      match vs with (id0, _) :: _ => Ok (GUnion id0 GVoid, s) | [] => Err EInvalidData end
                    else Err EInvalidData
                end)
      | Some (DUnion vs void_ok false) =>
          let+ (_, s) := lift (r_struct_begin p s) in
          let+ (ret, s) := own_variants MSync S p f (own_decode_keep A S p f) (Datatypes.S f) vs None s in
          let+ (_, s) := lift (r_struct_end p s) in
          lift (match ret with
                | Some (id, x) => Ok (GUnion id x, s)
                | None =>
                    if void_ok then
                      match vs with (id0, _) :: _ => Ok (GUnion id0 GVoid, s) | [] => Err EInvalidData end
                    else Err EInvalidData
                end)
      | Some (DTypedef _) => lift (Err EOther)
      | None => lift (Err EOther)
      end
  end.
Proof. reflexivity. Qed.

Lemma gen_decode_keep_S S p f t s : gen_decode_keep S p (Datatypes.S f) t s =
  match resolve S t with
  | TyBool => let* (b, s) := r_bool p s in Ok (GBool b, s)
  | TyI8 => let* (z, s) := r_i8 s in Ok (GI8 z, s)
  | TyI16 => let* (z, s) := r_i16 p s in Ok (GI16 z, s)
  | TyI32 => let* (z, s) := r_i32 p s in Ok (GI32 z, s)
  | TyI64 => let* (z, s) := r_i64 p s in Ok (GI64 z, s)
  | TyDouble => let* (z, s) := r_double p s in Ok (GDouble z, s)
  | TyString | TyBinary => let* (l, s) := r_bytes p s in Ok (GBytes l, s)
  | TyUuid => let* (l, s) := r_uuid s in Ok (GUuid l, s)
  | TyVoid =>
      let* (_, s) := r_struct_begin p s in
      let* (_, s) := r_struct_end p s in Ok (GVoid, s)
  | TyList et =>
      let* (h, s) := r_coll_begin p s in
      let* (l, s) := dec_elems (gen_decode_keep S p f) (Datatypes.S f) et (snd h) s [] in
      Ok (GList l, s)
  | TySet et =>
      let* (h, s) := r_coll_begin p s in
      let* (l, s) := dec_elems (gen_decode_keep S p f) (Datatypes.S f) et (snd h) s [] in
      Ok (GSet l, s)
  | TyMap kt vt =>
      let* (h, s) := r_map_begin p s in
      let* (l, s) := dec_pairs (gen_decode_keep S p f) (Datatypes.S f) kt vt (snd h) s [] in
      Ok (GMap l, s)
  | TyRef n =>
      match lookup S n with
      | Some (DEnum _) => let* (z, s) := r_i32 p s in Ok (GEnum z, s)
      | Some (DStruct fs true is_arg) =>
          let* (_, s) := r_struct_begin p s in
          let* (r, s) := dec_fields_keep S p f (gen_decode_keep S p f) (Datatypes.S f) fs is_arg (map init_var fs)
                                         (Z.of_nat (length fs)) [] s in
          let* (_, s) := r_struct_end p s in
          let* out := finish_fields fs (fst r) in
          Ok (GStruct out (snd r), s)
      | Some (DStruct fs false _) =>
          let* (_, s) := r_struct_begin p s in
          let* (vars, s) := dec_fields S p f (gen_decode_keep S p f) (Datatypes.S f) fs (map init_var fs) s in
          let* (_, s) := r_struct_end p s in
          let* out := finish_fields fs vars in
          Ok (GStruct out [], s)
      | Some (DUnion vs void_ok true) =>
          let* (_, s) := r_struct_begin p s in
          let* (ret, s) := dec_variants_keep S p f (gen_decode_keep S p f) (Datatypes.S f) vs UNone s in
          let* (_, s) := r_struct_end p s in
          match ret with
          | UKnown id x => Ok (GUnion id x, s)
          | UUnknown c => Ok (GUnionUnknown c, s)
          | UNone =>
              if void_ok then
                match vs with (id0, _) :: _ => Ok (GUnion id0 GVoid, s) | [] => Err EInvalidData end
              else Err EInvalidData
          end
      | Some (DUnion vs void_ok false) =>
          let* (_, s) := r_struct_begin p s in
          let* (ret, s) := dec_variants S p f (gen_decode_keep S p f) (Datatypes.S f) vs None s in
          let* (_, s) := r_struct_end p s in
          match ret with
          | Some (id, x) => Ok (GUnion id x, s)
          | None =>
              if void_ok then
                match vs with (id0, _) :: _ => Ok (GUnion id0 GVoid, s) | [] => Err EInvalidData end
              else Err EInvalidData
          end
      | Some (DTypedef _) => Err EOther
      | None => Err EOther
      end
  end.
Proof. reflexivity. Qed.

Section ProjKeep.
  Variable rec : ty -> rst -> res (gval * rst).
  Variable orec : ty -> rst -> own (gval * rst).
  Hypothesis Hrec : forall t s, fst (orec t s) = rec t s.
  Variable S : schema.
  Variable p : pk.
  Variable fk : nat.

  Lemma own_fields_keep_fst : forall m fs ia vars num unk s,
    fst (own_fields_keep S p fk orec m fs ia vars num unk s) = dec_fields_keep S p fk rec m fs ia vars num unk s.
  Proof using Hrec.
    induction m as [|m IH]; intros fs ia vars num unk s; cbn [own_fields_keep dec_fields_keep]; [reflexivity|].
    destruct (ia && (num =? 0)).
    { destruct (Z.of_nat (length (rbuf s)) <? 2); reflexivity. }
    apply fst_obind_ext; [reflexivity|]. intros [h s1].
    destruct (ttype_eqb (fst h) TStop).
    { apply fst_obind_ext; [reflexivity|]. intros [z s2]. reflexivity. }
    apply fst_obind_ext; [reflexivity|]. intros [n1 s2].
    apply fst_obind_ext.
    - destruct (match_field S fs 0 (snd h) (fst h)) as [[i f]|].
      + apply fst_obind_ext; [apply Hrec|]. intros [x s3]. reflexivity.
      + apply fst_obind_ext; [reflexivity|]. intros [n2 s3]. reflexivity.
    - intros [r s3]. apply fst_obind_ext; [reflexivity|]. intros [z' s4]. apply IH.
  Qed.

  Lemma own_variants_keep_fst : forall m vs ret s,
    fst (own_variants_keep S p fk orec m vs ret s) = dec_variants_keep S p fk rec m vs ret s.
  Proof using Hrec.
    induction m as [|m IH]; intros vs ret s; cbn [own_variants_keep dec_variants_keep]; [reflexivity|].
    apply fst_obind_ext; [reflexivity|]. intros [h s1].
    destruct (ttype_eqb (fst h) TStop).
    { apply fst_obind_ext; [reflexivity|]. intros [z s2]. reflexivity. }
    apply fst_obind_ext; [reflexivity|]. intros [n1 s2].
    match goal with |- context [match ?k with Some _ => _ | None => _ end] =>
      match type of k with option (Z * ty) => destruct k as [[id vt]|] end end.
    - destruct ret; try reflexivity. apply fst_obind_ext; [apply Hrec|]. intros [x s3]. apply IH.
    - apply fst_obind_ext; [reflexivity|]. intros [n2 s3]. destruct ret; try reflexivity. apply IH.
  Qed.
End ProjKeep.

(* erasing the ghost from the keep-build instance gives GenKeep.gen_decode_keep *)
Theorem own_proj_keep A S p : forall f t s, fst (own_decode_keep A S p f t s) = gen_decode_keep S p f t s.
Proof.
  induction f as [|f IH]; intros t s; [reflexivity|].
  rewrite own_decode_keep_S, gen_decode_keep_S.
  destruct (resolve S t) as [| | | | | | | | | |et|et|kt vt|n]; try reflexivity.
  - apply fst_obind_ext; [reflexivity|]. intros [h s1].
    apply fst_obind_ext; [apply own_elems_fst, IH|]. intros [l s2]. reflexivity.
  - apply fst_obind_ext; [reflexivity|]. intros [h s1].
    apply fst_obind_ext; [apply own_elems_fst, IH|]. intros [l s2]. reflexivity.
  - apply fst_obind_ext; [reflexivity|]. intros [h s1].
    apply fst_obind_ext; [apply own_pairs_fst, IH|]. intros [l s2]. reflexivity.
  - destruct (lookup S n) as [[fs [|] ia|vs vo [|]|ms|tt]|]; try reflexivity.
    + apply fst_obind_ext; [reflexivity|]. intros [u s1].
      apply fst_obind_ext; [apply own_fields_keep_fst, IH|]. intros [r s2].
      apply fst_obind_ext; [reflexivity|]. intros [u2 s3].
      apply fst_obind_ext; [reflexivity|]. intros out. reflexivity.
    + apply fst_obind_ext; [reflexivity|]. intros [u s1].
      apply fst_obind_ext; [apply own_fields_fst_sync, IH|]. intros [vars s2].
      apply fst_obind_ext; [reflexivity|]. intros [u2 s3].
      apply fst_obind_ext; [reflexivity|]. intros out. reflexivity.
    + apply fst_obind_ext; [reflexivity|]. intros [u s1].
      apply fst_obind_ext; [apply own_variants_keep_fst, IH|]. intros [ret s2].
      apply fst_obind_ext; [reflexivity|]. intros [u2 s3]. reflexivity.
    + apply fst_obind_ext; [reflexivity|]. intros [u s1].
      apply fst_obind_ext; [apply own_variants_fst_sync, IH|]. intros [ret s2].
      apply fst_obind_ext; [reflexivity|]. intros [u2 s3]. reflexivity.
Qed.

Theorem own_proj_keep_top A S p t l : fst (own_decode_keep_top A S p t l) = gen_decode_keep_top S p t l.
Proof. unfold own_decode_keep_top, gen_decode_keep_top. cbn [fst]. rewrite own_proj_keep. reflexivity. Qed.

Section ClosedKeep.
  Variable A : list nat.
  Variable S : schema.
  Variable p : pk.
  Variable Q : forall A, own A -> Prop.
  Hypothesis Qlift : forall A (r : res A), Q A (lift r).
  Hypothesis Qbind : forall A B (r : own A) (f : A -> own B), Q A r -> (forall a, Q B (f a)) -> Q B (obind r f).
  Variable fk : nat.
  Variable orec : ty -> rst -> own (gval * rst).
  Variable T : ty -> Prop.
  Hypothesis Hrec : forall t s, T t -> Q _ (orec t s).

  Lemma match_field_in fs : forall i id ft j f, match_field S fs i id ft = Some (j, f) -> In f fs.
  Proof.
    induction fs as [|g r IHr]; intros i id ft j f; cbn [match_field]; [discriminate|].
    destruct id as [z|]; [|discriminate].
    destruct ((f_id g =? z) && ttype_eqb (ttype_of_ty S (f_ty g)) ft).
    - intros H. injection H as _ <-. left. reflexivity.
    - intros H. right. eapply IHr. exact H.
  Qed.

  Lemma closed_fields_keep : forall m fs ia vars num unk s, (forall f, In f fs -> T (f_ty f)) ->
    Q _ (own_fields_keep S p fk orec m fs ia vars num unk s).
  Proof using Qlift Qbind Hrec.
    induction m as [|m IH]; intros fs ia vars num unk s Hfs; cbn [own_fields_keep]; [apply Qlift|].
    destruct (ia && (num =? 0)).
    { destruct (Z.of_nat (length (rbuf s)) <? 2); apply Qlift. }
    apply Qbind; [apply Qlift|]. intros [h s1].
    destruct (ttype_eqb (fst h) TStop).
    { apply Qbind; [apply Qlift|]. intros [z s2]. apply Qlift. }
    apply Qbind; [apply Qlift|]. intros [n1 s2].
    apply Qbind.
    - destruct (match_field S fs 0 (snd h) (fst h)) as [[i f]|] eqn:Em.
      + apply Qbind; [|intros [x s3]; apply Qlift]. apply Hrec, Hfs. eapply match_field_in; eauto.
      + apply Qbind; [apply Qlift|]. intros [n2 s3]. apply Qlift.
    - intros [r s3]. apply Qbind; [apply Qlift|]. intros [z' s4]. apply IH, Hfs.
  Qed.

  Lemma closed_variants_keep : forall m vs ret s, (forall q, In q vs -> T (snd q)) ->
    Q _ (own_variants_keep S p fk orec m vs ret s).
  Proof using Qlift Qbind Hrec.
    induction m as [|m IH]; intros vs ret s Hvs; cbn [own_variants_keep]; [apply Qlift|].
    apply Qbind; [apply Qlift|]. intros [h s1].
    destruct (ttype_eqb (fst h) TStop).
    { apply Qbind; [apply Qlift|]. intros [z s2]. apply Qlift. }
    apply Qbind; [apply Qlift|]. intros [n1 s2].
    destruct (snd h) as [id|].
    - destruct (find_variant vs id) as [vt|] eqn:Ef.
      + destruct (is_void (resolve S vt)).
        * apply Qbind; [apply Qlift|]. intros [n2 s3]. destruct ret; try apply Qlift. apply IH, Hvs.
        * destruct ret; try apply Qlift.
          apply Qbind; [|intros [x s3]; apply IH, Hvs].
          apply Hrec. apply (Hvs (id, vt)). apply find_variant_in, Ef.
      + apply Qbind; [apply Qlift|]. intros [n2 s3]. destruct ret; try apply Qlift. apply IH, Hvs.
    - apply Qbind; [apply Qlift|]. intros [n2 s3]. destruct ret; try apply Qlift. apply IH, Hvs.
  Qed.
End ClosedKeep.

(* keep builds: nothing leaks unless a list with an element type that needs Drop IN SUCH A BUILD is reachable *)
Theorem own_keep_noleak A S p t0 : no_heap_list_keep A S t0 ->
  forall f t s, reach S t0 t -> snd (own_decode_keep A S p f t s) = [].
Proof.
  intros Hno.
  induction f as [|f IH]; intros t s Hr; [reflexivity|].
  rewrite own_decode_keep_S. apply reach_resolve in Hr.
  set (Q := fun (A : Type) (r : own A) => NOLEAK r).
  assert (Ql : forall A (r : res A), Q A (lift r)) by (intros; apply noleak_lift).
  assert (Qb : forall A B (r : own A) (g : A -> own B), Q A r -> (forall a, Q B (g a)) -> Q B (obind r g))
    by (intros; apply noleak_bind; auto).
  assert (Hel : forall et, reach S t0 et -> forall m k s' acc, NOLEAK (own_elems (own_decode_keep A S p f) false m et k s' acc)).
  { intros et He. induction m as [|m IHm]; intros k s' acc; cbn [own_elems]; destruct (k <=? 0); try reflexivity.
    unfold NOLEAK, obind_leak. specialize (IH et s' He).
    destruct (fst (own_decode_keep A S p f et s')) as [[x s2]| |]; cbn [snd fst]; rewrite IH; [|reflexivity..].
    apply IHm. }
  destruct (resolve S t) as [| | | | | | | | | |et|et|kt vt|n] eqn:Eres; try reflexivity.
  - apply noleak_bind; [reflexivity|]. intros [h s1]. rewrite (Hno et Hr).
    apply noleak_bind; [|intros [l s2]; reflexivity]. apply Hel. eapply reach_list; eauto.
  - apply noleak_bind; [reflexivity|]. intros [h s1].
    apply noleak_bind; [|intros [l s2]; reflexivity]. apply Hel. eapply reach_set; eauto.
  - apply noleak_bind; [reflexivity|]. intros [h s1].
    apply noleak_bind; [|intros [l s2]; reflexivity].
    apply (closed_pairs Q Ql Qb (own_decode_keep A S p f) (reach S t0)).
    + intros t' s' Ht'. apply IH, Ht'.
    + eapply reach_mapk; eauto.
    + eapply reach_mapv; eauto.
  - destruct (lookup S n) as [[fs [|] ia|vs vo [|]|ms|tt]|] eqn:Elk; try reflexivity.
    + apply noleak_bind; [reflexivity|]. intros [u s1].
      apply noleak_bind.
      * apply (closed_fields_keep S p Q Ql Qb f (own_decode_keep A S p f) (reach S t0)).
        -- intros t' s' Ht'. apply IH, Ht'.
        -- intros fd Hin. eapply reach_field; eauto.
      * intros [r s2]. apply noleak_bind; [reflexivity|]. intros [u2 s3].
        apply noleak_bind; [reflexivity|]. intros out. reflexivity.
    + apply noleak_bind; [reflexivity|]. intros [u s1].
      apply noleak_bind.
      * apply (closed_fields MSync S p Q Ql Qb f (own_decode_keep A S p f) (reach S t0)).
        -- intros t' s' Ht'. apply IH, Ht'.
        -- intros fd Hin. eapply reach_field; eauto.
      * intros [vars s2]. apply noleak_bind; [reflexivity|]. intros [u2 s3].
        apply noleak_bind; [reflexivity|]. intros out. reflexivity.
    + apply noleak_bind; [reflexivity|]. intros [u s1].
      apply noleak_bind.
      * apply (closed_variants_keep S p Q Ql Qb f (own_decode_keep A S p f) (reach S t0)).
        -- intros t' s' Ht'. apply IH, Ht'.
        -- intros q Hin. eapply reach_variant; eauto.
      * intros [ret s2]. apply noleak_bind; [reflexivity|]. intros [u2 s3]. reflexivity.
    + apply noleak_bind; [reflexivity|]. intros [u s1].
      apply noleak_bind.
      * apply (closed_variants MSync S p Q Ql Qb f (own_decode_keep A S p f) (reach S t0)).
        -- intros t' s' Ht'. apply IH, Ht'.
        -- intros q Hin. eapply reach_variant; eauto.
      * intros [ret s2]. apply noleak_bind; [reflexivity|]. intros [u2 s3]. reflexivity.
Qed.

Theorem no_leak_keep_partial A S t : no_heap_list_keep A S t ->
  forall p f s, snd (own_decode_keep A S p f t s) = [].
Proof. intros Hn p f s. apply (own_keep_noleak A S p t Hn). apply reach_refl. Qed.

(* the keep-build sync decoder leaks the same way: struct Names { 1: list<string> } compiled with retention *)
Definition leak_schema_keep : schema := [DStruct [mkField 1 Optional (TyList TyString) None] true false].
Example leak_witness_keep :
  own_decode_keep_top [] leak_schema_keep PBinary (TyRef 0) leak_input = (Err EInvalidData, [GBytes [x61]%byte]).
Proof. vm_compute. reflexivity. Qed.

(* a list of scalar-only structs leaks nothing in a plain build, but does in a keep build (every kept struct
   owns a LinkedBytes): list<struct P { 1: i32 }>, two elements, the second truncated *)
Definition pt_schema (kp : bool) : schema := [DStruct [mkField 1 Optional TyI32 None] kp false].
Definition pt_input : list byte := [x0c; x00; x00; x00; x02; x08; x00; x01; x00; x00; x00; x05; x00; x08; x00]%byte.
Example pt_plain : own_decode_top MSync [] (pt_schema false) PBinary (TyList (TyRef 0)) pt_input = (Err EInvalidData, []).
Proof. vm_compute. reflexivity. Qed.
Example pt_keep :
  own_decode_keep_top [] (pt_schema true) PBinary (TyList (TyRef 0)) pt_input = (Err EInvalidData, [GStruct [(1, GI32 5)] []]).
Proof. vm_compute. reflexivity. Qed.

(* ================= the message level ================= *)
(* the regenerated inventory of process-wide / thread-local retention sites of pilota/src/thrift is the list this
   model accounts for, and every accounted reason is valid: fails to compile as soon as the working tree gains a
   table, pool, cache, lazily initialised global or deliberate leak in the Thrift runtime *)
Lemma retention_inventory_accounted : map fst accounted_retain_sites = retain_sites.
Proof. vm_compute. reflexivity. Qed.
Lemma retention_inventory_justified : forallb inert_justified accounted_retain_sites = true.
Proof. vm_compute. reflexivity. Qed.

(* hence no site retains anything *)
Lemma retain_sites_inert : forallb (fun st => negb (site_retains st)) retain_sites = true.
Proof.
  rewrite <- retention_inventory_accounted. rewrite forallb_forall. intros st Hin.
  apply in_map_iff in Hin as (sr & <- & Hin).
  pose proof retention_inventory_justified as J. rewrite forallb_forall in J. specialize (J sr Hin).
  unfold inert_justified in J. destruct (snd sr). apply andb_prop in J as [J _]. exact J.
Qed.

Lemma retain_flags_projection : retain_flags = map site_retains retain_sites.
Proof. vm_compute. reflexivity. Qed.

Lemma global_retained_nil hs : global_retained hs = [].
Proof.
  unfold global_retained. rewrite retain_flags_projection.
  pose proof retain_sites_inert as H. rewrite forallb_forall in H.
  induction retain_sites as [|st r IH]; [reflexivity|]. cbn [map flat_map].
  rewrite (proj1 (negb_true_iff _) (H st (or_introl eq_refl))). cbn [app]. apply IH. intros x Hx. apply H. right. exact Hx.
Qed.

Lemma own_body_noleak md kb A S p fuel b s : body_no_heap_list md kb A S b -> snd (own_body md kb A S p fuel b s) = [].
Proof.
  destruct b as [t|]; cbn [own_body body_no_heap_list]; [|reflexivity].
  destruct md, kb; intros H.
  - apply no_leak_keep_partial, H.
  - apply no_leak_partial, H.
  - apply no_leak_async.
  - apply no_leak_async.
Qed.

(* whatever happens to envelope and body, once identifier, value / error, protocol and input have been dropped nothing
   that the identifier held is held by anything else *)
Theorem message_ident_released md kb A S p fuel b s : mo_retained (own_message md kb A S p fuel b s) = [].
Proof.
  unfold own_message. destruct (m_message_begin md p s) as [[id s1]| |]; [|reflexivity..].
  destruct (fst (own_body md kb A S p fuel b s1)) as [[v s2]| |]; cbn [mo_retained]; apply global_retained_nil.
Qed.

(* C19 at the message level, outside the class of F-19a *)
Theorem message_no_leak_partial md kb A S p fuel b s : body_no_heap_list md kb A S b ->
  mo_leaked (own_message md kb A S p fuel b s) = [] /\ mo_retained (own_message md kb A S p fuel b s) = [].
Proof.
  intros H. split; [|apply message_ident_released].
  unfold own_message. destruct (m_message_begin md p s) as [[id s1]| |]; [|reflexivity..].
  pose proof (own_body_noleak md kb A S p fuel b s1 H) as E.
  destruct (fst (own_body md kb A S p fuel b s1)) as [[v s2]| |]; cbn [mo_leaked]; exact E.
Qed.

(* what the body leaks at the message level is what the body decoder leaks (F-19a unchanged by the envelope) *)
Theorem message_leak_is_body_leak md kb A S p fuel b s id s1 :
  m_message_begin md p s = Ok (id, s1) ->
  mo_leaked (own_message md kb A S p fuel b s) = snd (own_body md kb A S p fuel b s1) /\
  mo_ident (own_message md kb A S p fuel b s) = name_holds md (m_name id).
Proof.
  intros E. unfold own_message. rewrite E.
  destruct (fst (own_body md kb A S p fuel b s1)) as [[v s2]| |]; split; reflexivity.
Qed.

(* erasing the ghosts: the outcome is read_message_begin followed by the emitted decoder on the same protocol object *)
Theorem message_erase_sync A S p fuel t s :
  mo_outcome (own_message MSync false A S p fuel (BType t) s) =
  (let* (id, s1) := r_message_begin p s in let* (v, s2) := gen_decode S p fuel t s1 in Ok (id, v, s2)).
Proof.
  unfold own_message. cbn [m_message_begin own_body]. destruct (r_message_begin p s) as [[id s1]| |]; cbn [bind]; try reflexivity.
  rewrite own_proj_sync. destruct (gen_decode S p fuel t s1) as [[v s2]| |]; reflexivity.
Qed.
Theorem message_erase_async A S kb p fuel t s :
  mo_outcome (own_message MAsync kb A S p fuel (BType t) s) =
  (let* (id, s1) := a_message_begin p s in let* (v, s2) := gen_decode_async S p fuel t s1 in Ok (id, v, s2)).
Proof.
  unfold own_message. cbn [m_message_begin own_body]. destruct (a_message_begin p s) as [[id s1]| |]; cbn [bind]; try reflexivity.
  replace (match kb with true => own_decode MAsync A S p fuel t s1 | false => own_decode MAsync A S p fuel t s1 end)
    with (own_decode MAsync A S p fuel t s1) by (destruct kb; reflexivity).
  rewrite own_proj_async. destruct (gen_decode_async S p fuel t s1) as [[v s2]| |]; reflexivity.
Qed.

(* non-vacuity: binary CALL envelope, 30-byte method name (beyond FastStr's inline capacity), sequence number 7, then a
   struct { 1: list<i32> } body cut inside the list: the identifier holds a slice of the input while it lives, the
   body is rejected, nothing is left afterwards *)
Definition msg_schema : schema := [DStruct [mkField 1 Optional (TyList TyI32) None] false false].
Definition msg_input : list byte :=
  ([x80; x01; x00; x01; x00; x00; x00; x1e] ++ repeat x6d 30 ++ [x00; x00; x00; x07] ++
   [x0f; x00; x01; x08; x00; x00; x00; x02; x00; x00; x00; x05; x00])%byte.
Example msg_rejected :
  let o := own_message_top MSync false [] msg_schema PBinary (BType (TyRef 0)) msg_input in
  mo_stage o = 1%nat /\ mo_outcome o = Err EInvalidData /\ mo_ident o = [HInputRef] /\ mo_leaked o = [] /\ mo_retained o = [].
Proof. vm_compute. auto. Qed.
Example msg_class : body_no_heap_list MSync false [] msg_schema (BType (TyRef 0)).
Proof. cbn. apply no_heap_list_b_sound. vm_compute. reflexivity. Qed.
(* the same bytes through the async readers: the name is an owned heap string *)
Example msg_rejected_async :
  let o := own_message_top MAsync false [] msg_schema PBinary (BType (TyRef 0)) msg_input in
  mo_stage o = 1%nat /\ mo_ident o = [HHeap] /\ mo_leaked o = [] /\ mo_retained o = [].
Proof. vm_compute. auto. Qed.
