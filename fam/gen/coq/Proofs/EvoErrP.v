(* C08, meaning of the specification's failures: [view] fails exactly for the reasons the property names
   ([must_fail]: a required field without default is carried by no wire field, a union carries no / more than one
   known variant -- hereditarily along the known fields), with error class InvalidData on input of the declared
   shape, and never asks for a panic.  Pure list reasoning about EvoSpec.v; no bytes. *)
From PVGen Require Import Gen GenSpec EvoSpec Proofs.GenBase Proofs.EncP Proofs.EvoBase.
From PV Require Import Proofs.TablesP Proofs.PrimP Proofs.HeaderP Proofs.RoundtripP.
From Coq Require Import ZifyN ZifyNat ZifyBool.
Open Scope Z_scope.

(* ---------- the specification never asks for a panic ---------- *)
Definition np {A} (o : res A) : Prop := forall q, o <> Panic q.

Lemma np_bind {A B} (o : res A) (f : A -> res B) : np o -> (forall x, np (f x)) -> np (bind o f).
Proof. intros Ho Hf q. destruct o as [x|e|q']; cbn [bind]; [apply Hf|discriminate|exfalso; apply (Ho q'); reflexivity]. Qed.
Lemma np_ok {A} (x : A) : np (Ok x).
Proof. intros q; discriminate. Qed.
Lemma np_err {A} e : np (@Err A e).
Proof. intros q; discriminate. Qed.

Lemma finish_fields_np dfs : forall vars, np (finish_fields dfs vars).
Proof.
  induction dfs as [|f r IH]; intros vars; [apply np_ok|].
  destruct vars as [|v vt]; [apply np_err|]. cbn [finish_fields]. apply np_bind; [apply IH|]. intros rest.
  destruct v; [apply np_ok|]. destruct (f_dflt f) as [[? d]|]; [apply np_ok|]. destruct (f_req f); [apply np_err|apply np_ok].
Qed.

Lemma view_np R v : forall t, np (view R t v).
Proof.
  induction v using tval_ind'; intros t.
  1-8: cbn [view]; destruct (resolve R t); try apply np_err; try apply np_ok.
  - destruct (lookup R n) as [[]|]; try apply np_err; apply np_ok.
  - rewrite view_struct. destruct (resolve R t) as [| | | | | | | | | |?|?|? ?|n]; try apply np_err.
    destruct (lookup R n) as [[dfs ? ?|vs vok ?|?|?]|]; try apply np_err.
    + apply np_bind; [|intros vars; apply np_bind; [apply finish_fields_np|intros; apply np_ok]].
      generalize (map init_var dfs). induction fs as [|[i x] r IHr]; intros vars; [apply np_ok|].
      inversion H as [|? ? Hx Hr]; subst. cbn [snd] in Hx. rewrite view_fields_cons.
      destruct (match_field R dfs 0 (Some i) (ttype_of x)) as [[j fl]|]; [|apply IHr; auto].
      apply np_bind; [apply Hx|]. intros y. apply IHr; auto.
    + apply np_bind.
      * generalize (@None (Z * gval)). induction fs as [|[i x] r IHr]; intros ret; [apply np_ok|].
        inversion H as [|? ? Hx Hr]; subst. cbn [snd] in Hx. rewrite view_variants_cons.
        destruct (known_variant R vs i (ttype_of x)) as [vt|]; [|apply IHr; auto].
        destruct ret; [apply np_err|]. apply np_bind; [apply Hx|]. intros y. apply IHr; auto.
      * intros ret. unfold union_result. destruct ret as [[id y]|]; [apply np_ok|].
        destruct vok; [|apply np_err]. destruct vs as [|[id0 t0] r]; [apply np_err|apply np_ok].
  - rewrite view_list. destruct (resolve R t); try apply np_err.
    apply np_bind; [|intros; apply np_ok].
    induction l as [|x r IHr]; [apply np_ok|]. inversion H as [|? ? Hx Hr]; subst. rewrite view_elems_cons.
    apply np_bind; [apply Hx|]. intros y. apply np_bind; [apply IHr; auto|]. intros; apply np_ok.
  - rewrite view_set. destruct (resolve R t); try apply np_err.
    apply np_bind; [|intros; apply np_ok].
    induction l as [|x r IHr]; [apply np_ok|]. inversion H as [|? ? Hx Hr]; subst. rewrite view_elems_cons.
    apply np_bind; [apply Hx|]. intros y. apply np_bind; [apply IHr; auto|]. intros; apply np_ok.
  - rewrite view_map. destruct (resolve R t); try apply np_err.
    apply np_bind; [|intros; apply np_ok].
    induction l as [|[x y] r IHr]; [apply np_ok|]. inversion H as [|? ? [Hx Hy] Hr]; subst. cbn [fst snd] in *.
    rewrite view_pairs_cons.
    apply np_bind; [apply Hx|]. intros a. apply np_bind; [apply Hy|]. intros b.
    apply np_bind; [apply IHr; auto|]. intros; apply np_ok.
Qed.

Lemma not_ok_err {A} (o : res A) : np o -> (forall x, o <> Ok x) -> exists e, o = Err e.
Proof. intros Hn Ho. destruct o as [x|e|q]; [exfalso; apply (Ho x); reflexivity|eauto|exfalso; apply (Hn q); reflexivity]. Qed.

(* inversion of the specification's binds *)
Lemma bind_ok_inv {A B} (o : res A) (f : A -> res B) y : bind o f = Ok y -> exists x, o = Ok x /\ f x = Ok y.
Proof. destruct o; cbn [bind]; intros H; try discriminate. eauto. Qed.
Lemma bind_err_inv {A B} (o : res A) (f : A -> res B) e :
  bind o f = Err e -> o = Err e \/ exists x, o = Ok x /\ f x = Err e.
Proof. destruct o; cbn [bind]; intros H; try discriminate; [right; eauto|left; injection H as ->; reflexivity]. Qed.

(* ---------- names for the loops of must_fail ---------- *)
Section MF.
  Variable S : schema.

  Definition mf_elems (et : ty) : list tval -> bool :=
    fix go (l : list tval) : bool := match l with [] => false | x :: r => must_fail S et x || go r end.
  Definition mf_pairs (kt vt : ty) : list (tval * tval) -> bool :=
    fix go (l : list (tval * tval)) : bool :=
      match l with [] => false | (a, b) :: r => must_fail S kt a || must_fail S vt b || go r end.
  Definition mf_field (dfs : list field) (id : Z) (x : tval) : bool :=
    match match_field S dfs O (Some id) (ttype_of x) with
    | Some (_, f) => must_fail S (f_ty f) x
    | None => false
    end.
  Definition mf_fields (dfs : list field) : list (Z * tval) -> bool :=
    fix go (fs : list (Z * tval)) : bool := match fs with [] => false | (id, x) :: r => mf_field dfs id x || go r end.
  Definition mf_variant (vs : list (Z * ty)) (id : Z) (x : tval) : bool :=
    match known_variant S vs id (ttype_of x) with
    | Some vt => must_fail S vt x
    | None => false
    end.
  Definition mf_variants (vs : list (Z * ty)) : list (Z * tval) -> bool :=
    fix go (fs : list (Z * tval)) : bool := match fs with [] => false | (id, x) :: r => mf_variant vs id x || go r end.

  Definition union_fail (vs : list (Z * ty)) (void_ok : bool) (fs : list (Z * tval)) : bool :=
    Nat.leb 2 (known_count S vs fs)
    || (Nat.eqb (known_count S vs fs) 0 && negb (void_ok && match vs with [] => false | _ :: _ => true end))
    || mf_variants vs fs.

  Lemma must_fail_list t a l : must_fail S t (VList a l) =
    match resolve S t with TyList et => mf_elems et l | _ => false end.
  Proof. reflexivity. Qed.
  Lemma must_fail_set t a l : must_fail S t (VSet a l) =
    match resolve S t with TySet et => mf_elems et l | _ => false end.
  Proof. reflexivity. Qed.
  Lemma must_fail_map t ka va l : must_fail S t (VMap ka va l) =
    match resolve S t with TyMap kt vt => mf_pairs kt vt l | _ => false end.
  Proof. reflexivity. Qed.
  Lemma must_fail_struct t fs : must_fail S t (VStruct fs) =
    match resolve S t with
    | TyRef n =>
        match lookup S n with
        | Some (DStruct dfs _ _) => mf_fields dfs fs || negb (required_present S dfs fs)
        | Some (DUnion vs void_ok _) => union_fail vs void_ok fs
        | _ => false
        end
    | _ => false
    end.
  Proof. reflexivity. Qed.
  Lemma mf_fields_cons dfs id x r : mf_fields dfs ((id, x) :: r) = mf_field dfs id x || mf_fields dfs r.
  Proof. reflexivity. Qed.
  Lemma mf_variants_cons vs id x r : mf_variants vs ((id, x) :: r) = mf_variant vs id x || mf_variants vs r.
  Proof. reflexivity. Qed.

  Definition kn (vs : list (Z * ty)) (q : Z * tval) : bool :=
    match known_variant S vs (fst q) (ttype_of (snd q)) with Some _ => true | None => false end.
  Lemma known_count_cons vs id x r : known_count S vs ((id, x) :: r) =
    ((if kn vs (id, x) then 1 else 0) + known_count S vs r)%nat.
  Proof. unfold known_count. cbn [filter]. fold (kn vs (id, x)). destruct (kn vs (id, x)); reflexivity. Qed.
End MF.

(* ---------- set_nth / nth_error ---------- *)
Lemma set_nth_length {A} (x : A) : forall n l, length (set_nth n x l) = length l.
Proof. induction n as [|n IH]; intros [|h t]; cbn [set_nth length]; auto. Qed.
Lemma set_nth_same {A} (x : A) : forall n l, (n < length l)%nat -> nth_error (set_nth n x l) n = Some x.
Proof.
  induction n as [|n IH]; intros [|h t] H; cbn [length] in H; try lia; cbn [set_nth nth_error]; [reflexivity|].
  apply IH. lia.
Qed.
Lemma set_nth_other {A} (x : A) : forall n l i, i <> n -> nth_error (set_nth n x l) i = nth_error l i.
Proof.
  induction n as [|n IH]; intros [|h t] i H; cbn [set_nth]; auto.
  - destruct i; [congruence|reflexivity].
  - destruct i; [reflexivity|]. cbn [nth_error]. apply IH. congruence.
Qed.

(* ---------- match_field as a lookup by position ---------- *)
Lemma match_field_nth S dfs : forall i0 id ft j g, match_field S dfs i0 (Some id) ft = Some (j, g) ->
  exists k, j = (i0 + k)%nat /\ nth_error dfs k = Some g /\ f_id g = id /\ ttype_eqb (ttype_of_ty S (f_ty g)) ft = true.
Proof.
  induction dfs as [|h r IH]; intros i0 id ft j g; cbn [match_field]; [discriminate|].
  destruct ((f_id h =? id) && ttype_eqb (ttype_of_ty S (f_ty h)) ft) eqn:E.
  - intros H. injection H as <- <-. apply andb_prop in E as [E1 E2]. exists O. repeat split; auto; lia.
  - intros H. destruct (IH _ _ _ _ _ H) as (k & -> & Hk & Hid & Ht). exists (Datatypes.S k). repeat split; auto. lia.
Qed.

Lemma match_field_none S dfs : forall i0 id ft, match_field S dfs i0 (Some id) ft = None ->
  forall f, In f dfs -> (f_id f =? id) && ttype_eqb (ttype_of_ty S (f_ty f)) ft = false.
Proof.
  induction dfs as [|h r IH]; intros i0 id ft H f Hin; [destruct Hin|]. cbn [match_field] in H.
  destruct ((f_id h =? id) && ttype_eqb (ttype_of_ty S (f_ty h)) ft) eqn:E; [discriminate|].
  destruct Hin as [<-|Hin]; [exact E|eauto].
Qed.

Lemma nodup_nth_id dfs : nodup_ids (map f_id dfs) = true ->
  forall i j f g, nth_error dfs i = Some f -> nth_error dfs j = Some g -> f_id f = f_id g -> i = j.
Proof.
  induction dfs as [|h r IH]; intros Hnd i j f g Hi Hj Hid; [destruct i; discriminate|].
  cbn [map nodup_ids] in Hnd. apply andb_prop in Hnd as [H1 H2]. apply negb_true_iff in H1.
  destruct i as [|i], j as [|j]; cbn [nth_error] in *.
  - reflexivity.
  - injection Hi as ->. exfalso. apply (existsb_eqb_false _ _ H1 (f_id g)); [|exact Hid].
    apply in_map. eapply nth_error_In; eauto.
  - injection Hj as ->. exfalso. apply (existsb_eqb_false _ _ H1 (f_id f)); [|symmetry; exact Hid].
    apply in_map. eapply nth_error_In; eauto.
  - f_equal. eapply IH; eauto.
Qed.

Lemma match_field_carrier S dfs : nodup_ids (map f_id dfs) = true ->
  forall i f q, nth_error dfs i = Some f -> carries S f q = true ->
  match_field S dfs 0 (Some (fst q)) (ttype_of (snd q)) = Some (i, f).
Proof.
  intros Hnd i f q Hi Hc. unfold carries in Hc.
  destruct (match_field S dfs 0 (Some (fst q)) (ttype_of (snd q))) as [[j g]|] eqn:Em.
  - destruct (match_field_nth _ _ _ _ _ _ _ Em) as (k & -> & Hk & Hid & _). cbn [Nat.add].
    apply andb_prop in Hc as [Hc _].
    assert (i = k) by (eapply nodup_nth_id; eauto; lia). subst k. congruence.
  - rewrite (match_field_none _ _ _ _ _ Em f (nth_error_In _ _ Hi)) in Hc. discriminate.
Qed.

(* ---------- what the struct fold does to one variable ---------- *)
Section Fields.
  Variable R : schema.
  Variable dfs : list field.

  Lemma view_fields_length : forall fs vars vars', view_fields R dfs fs vars = Ok vars' -> length vars' = length vars.
  Proof.
    induction fs as [|[id x] r IH]; intros vars vars' H; [injection H as <-; reflexivity|].
    rewrite view_fields_cons in H.
    destruct (match_field R dfs 0 (Some id) (ttype_of x)) as [[j fl]|]; [|eauto].
    apply bind_ok_inv in H as (y & _ & H). rewrite (IH _ _ H). apply set_nth_length.
  Qed.

  (* once set, a variable stays set *)
  Lemma view_fields_mono : forall fs vars vars' i, view_fields R dfs fs vars = Ok vars' ->
    (exists y, nth_error vars i = Some (Some y)) -> exists y, nth_error vars' i = Some (Some y).
  Proof.
    induction fs as [|[id x] r IH]; intros vars vars' i H Hy; [injection H as <-; exact Hy|].
    rewrite view_fields_cons in H.
    destruct (match_field R dfs 0 (Some id) (ttype_of x)) as [[j fl]|]; [|eauto].
    apply bind_ok_inv in H as (y & _ & H). eapply IH; [exact H|].
    destruct (Nat.eq_dec i j) as [->|Hne].
    - destruct Hy as (y0 & Hy). exists y. apply set_nth_same. apply nth_error_Some. congruence.
    - rewrite set_nth_other by exact Hne. exact Hy.
  Qed.

  (* a variable whose field is carried by no wire field keeps its initial value *)
  Lemma view_fields_untouched : forall fs vars vars' i f, view_fields R dfs fs vars = Ok vars' ->
    nth_error dfs i = Some f -> existsb (carries R f) fs = false -> nth_error vars' i = nth_error vars i.
  Proof.
    induction fs as [|[id x] r IH]; intros vars vars' i f H Hi Hc; [injection H as <-; reflexivity|].
    cbn [existsb] in Hc. apply orb_false_iff in Hc as [Hc Hcr].
    rewrite view_fields_cons in H.
    destruct (match_field R dfs 0 (Some id) (ttype_of x)) as [[j fl]|] eqn:Em; [|eauto].
    apply bind_ok_inv in H as (y & _ & H). rewrite (IH _ _ _ _ H Hi Hcr).
    apply set_nth_other. intros ->.
    destruct (match_field_nth _ _ _ _ _ _ _ Em) as (k & Hj & Hk & Hid & Ht). cbn [Nat.add] in Hj. subst k.
    assert (fl = f) by congruence. subst fl.
    unfold carries in Hc. cbn [fst snd] in Hc. rewrite Ht in Hc. replace (f_id f =? id) with true in Hc by lia. discriminate.
  Qed.

  (* a variable whose field is carried by some wire field is set *)
  Lemma view_fields_carried : nodup_ids (map f_id dfs) = true ->
    forall fs vars vars' i f, view_fields R dfs fs vars = Ok vars' ->
    nth_error dfs i = Some f -> (i < length vars)%nat -> existsb (carries R f) fs = true ->
    exists y, nth_error vars' i = Some (Some y).
  Proof.
    intros Hnd. induction fs as [|[id x] r IH]; intros vars vars' i f H Hi Hl Hc; [discriminate|].
    cbn [existsb] in Hc. rewrite view_fields_cons in H.
    destruct (carries R f (id, x)) eqn:Hcx.
    - pose proof (match_field_carrier R dfs Hnd i f (id, x) Hi Hcx) as Em. cbn [fst snd] in Em. rewrite Em in H.
      apply bind_ok_inv in H as (y & _ & H). eapply view_fields_mono; [exact H|].
      exists y. apply set_nth_same. exact Hl.
    - cbn [orb] in Hc.
      destruct (match_field R dfs 0 (Some id) (ttype_of x)) as [[j fl]|]; [|eauto].
      apply bind_ok_inv in H as (y & _ & H). eapply IH; eauto. rewrite set_nth_length. exact Hl.
  Qed.
End Fields.

(* ---------- finish_fields ---------- *)
Lemma finish_err_class dfs : forall vars e, length vars = length dfs -> finish_fields dfs vars = Err e -> e = EInvalidData.
Proof.
  induction dfs as [|f r IH]; intros vars e Hl H; [discriminate|].
  destruct vars as [|v vt]; [discriminate|]. cbn [length] in Hl. cbn [finish_fields] in H.
  apply bind_err_inv in H as [H|(rest & _ & H)]; [eapply IH; eauto|].
  destruct v; [discriminate|]. destruct (f_dflt f) as [[? d]|]; [discriminate|]. destruct (f_req f); [|discriminate].
  injection H as <-. reflexivity.
Qed.

Lemma finish_missing dfs : forall vars i f, length vars = length dfs ->
  nth_error dfs i = Some f -> nth_error vars i = Some None -> f_dflt f = None -> f_req f = Required ->
  forall out, finish_fields dfs vars <> Ok out.
Proof.
  induction dfs as [|g r IH]; intros vars i f Hl Hi Hv Hd Hq out H; [destruct i; discriminate|].
  destruct vars as [|v vt]; [discriminate|]. cbn [length] in Hl. cbn [finish_fields] in H.
  apply bind_ok_inv in H as (rest & Hr & H).
  destruct i as [|i]; cbn [nth_error] in Hi, Hv.
  - injection Hi as ->. injection Hv as ->. rewrite Hd, Hq in H. discriminate.
  - eapply IH; eauto.
Qed.

Lemma finish_present dfs : forall vars, length vars = length dfs ->
  (forall i f, nth_error dfs i = Some f -> f_dflt f = None -> f_req f = Required -> exists y, nth_error vars i = Some (Some y)) ->
  exists out, finish_fields dfs vars = Ok out.
Proof.
  induction dfs as [|g r IH]; intros vars Hl Hp; [eexists; reflexivity|].
  destruct vars as [|v vt]; [discriminate|]. cbn [length] in Hl. cbn [finish_fields].
  destruct (IH vt ltac:(lia) (fun i f Hi => Hp (Datatypes.S i) f Hi)) as (rest & ->). cbn [bind].
  destruct v; [eexists; reflexivity|]. destruct (f_dflt g) as [[? d]|] eqn:Ed; [eexists; reflexivity|].
  destruct (f_req g) eqn:Eq; [|eexists; reflexivity].
  destruct (Hp O g eq_refl Ed Eq) as (y & Hy). discriminate.
Qed.

Lemma required_present_false R dfs fs : required_present R dfs fs = false ->
  exists i f, nth_error dfs i = Some f /\ f_req f = Required /\ f_dflt f = None /\ existsb (carries R f) fs = false.
Proof.
  unfold required_present. intros H.
  assert (E : exists f, In f dfs /\ match f_req f, f_dflt f with Required, None => existsb (carries R f) fs | _, _ => true end = false).
  { induction dfs as [|g r IH]; [discriminate|]. cbn [forallb] in H. apply andb_false_iff in H as [H|H].
    - exists g. split; [left; reflexivity|exact H].
    - destruct (IH H) as (f & Hin & Hf). exists f. split; [right; exact Hin|exact Hf]. }
  destruct E as (f & Hin & Hf). destruct (In_nth_error _ _ Hin) as (i & Hi). exists i, f.
  destruct (f_req f); [|discriminate]. destruct (f_dflt f); [discriminate|]. auto.
Qed.

Lemma required_present_true R dfs fs : required_present R dfs fs = true ->
  forall i f, nth_error dfs i = Some f -> f_dflt f = None -> f_req f = Required -> existsb (carries R f) fs = true.
Proof.
  unfold required_present. rewrite forallb_forall. intros H i f Hi Hd Hq.
  specialize (H f (nth_error_In _ _ Hi)). rewrite Hd, Hq in H. exact H.
Qed.

Lemma init_var_nth dfs i f : nth_error dfs i = Some f -> nth_error (map init_var dfs) i = Some (init_var f).
Proof. intros H. rewrite nth_error_map, H. reflexivity. Qed.

(* the struct clause, both directions *)
Lemma struct_present_ok R dfs fs vars' : nodup_ids (map f_id dfs) = true ->
  view_fields R dfs fs (map init_var dfs) = Ok vars' -> required_present R dfs fs = true ->
  exists out, finish_fields dfs vars' = Ok out.
Proof.
  intros Hnd Hv Hp. apply finish_present.
  - rewrite (view_fields_length _ _ _ _ _ Hv). apply map_length.
  - intros i f Hi Hd Hq. eapply view_fields_carried; eauto.
    + rewrite map_length. apply nth_error_Some. congruence.
    + eapply required_present_true; eauto.
Qed.

Lemma struct_absent_fails R dfs fs vars' :
  view_fields R dfs fs (map init_var dfs) = Ok vars' -> required_present R dfs fs = false ->
  forall out, finish_fields dfs vars' <> Ok out.
Proof.
  intros Hv Hp. destruct (required_present_false _ _ _ Hp) as (i & f & Hi & Hq & Hd & Hc).
  eapply finish_missing; eauto.
  - rewrite (view_fields_length _ _ _ _ _ Hv). apply map_length.
  - rewrite (view_fields_untouched _ _ _ _ _ _ _ Hv Hi Hc), (init_var_nth _ _ _ Hi). unfold init_var. rewrite Hd. reflexivity.
Qed.

(* ---------- the union fold ---------- *)
Section Variants.
  Variable R : schema.
  Variable vs : list (Z * ty).

  Lemma kn_known id x : kn R vs (id, x) = match known_variant R vs id (ttype_of x) with Some _ => true | None => false end.
  Proof. reflexivity. Qed.

  Lemma vv_none_known : forall fs ret, known_count R vs fs = O -> view_variants R vs fs ret = Ok ret.
  Proof.
    induction fs as [|[id x] r IH]; intros ret H; [reflexivity|].
    rewrite known_count_cons, kn_known in H. rewrite view_variants_cons.
    destruct (known_variant R vs id (ttype_of x)); [lia|]. apply IH. lia.
  Qed.

  Lemma vv_some_known : forall fs r0, (1 <= known_count R vs fs)%nat -> view_variants R vs fs (Some r0) = Err EInvalidData.
  Proof.
    induction fs as [|[id x] r IH]; intros r0 H; [cbn in H; lia|].
    rewrite known_count_cons, kn_known in H. rewrite view_variants_cons.
    destruct (known_variant R vs id (ttype_of x)); [reflexivity|]. apply IH. lia.
  Qed.

  Lemma vv_two_known : forall fs, (2 <= known_count R vs fs)%nat -> forall ret', view_variants R vs fs None <> Ok ret'.
  Proof.
    induction fs as [|[id x] r IH]; intros H ret'; [cbn in H; lia|].
    rewrite known_count_cons, kn_known in H. rewrite view_variants_cons.
    destruct (known_variant R vs id (ttype_of x)) as [vt|]; [|apply IH; lia].
    intros E. apply bind_ok_inv in E as (y & _ & E). rewrite vv_some_known in E by lia. discriminate.
  Qed.

  (* results *)
  Lemma vv_ok_count : forall fs ret ret', view_variants R vs fs ret = Ok ret' ->
    match ret with
    | Some _ => known_count R vs fs = O /\ ret' = ret
    | None => match ret' with None => known_count R vs fs = O | Some _ => known_count R vs fs = 1%nat end
    end.
  Proof.
    induction fs as [|[id x] r IH]; intros ret ret' H.
    - injection H as <-. destruct ret; auto.
    - rewrite known_count_cons, kn_known. rewrite view_variants_cons in H.
      destruct (known_variant R vs id (ttype_of x)) as [vt|].
      + destruct ret; [discriminate|]. apply bind_ok_inv in H as (y & _ & H).
        destruct (IH _ _ H) as [Hc ->]. lia.
      + apply IH in H. destruct ret; [exact H|]. destruct ret'; exact H.
  Qed.

  Lemma vv_err_some : forall fs r0 e, view_variants R vs fs (Some r0) = Err e -> (1 <= known_count R vs fs)%nat.
  Proof.
    intros fs r0 e H. destruct (known_count R vs fs) eqn:E; [|lia]. rewrite vv_none_known in H by exact E. discriminate.
  Qed.
End Variants.

(* ---------- completeness: the named conditions make the specification fail ---------- *)
Lemma must_fail_not_ok R v : forall t, must_fail R t v = true -> forall g, view R t v <> Ok g.
Proof.
  induction v using tval_ind'; intros t Hm g Hg; try (cbn [must_fail] in Hm; discriminate).
  - (* struct *)
    rewrite must_fail_struct in Hm. rewrite view_struct in Hg.
    destruct (resolve R t) as [| | | | | | | | | |?|?|? ?|n]; try discriminate.
    destruct (lookup R n) as [[dfs ? ?|vs vok ?|?|?]|]; try discriminate.
    + apply bind_ok_inv in Hg as (vars' & Hv & Hg). apply bind_ok_inv in Hg as (out & Hf & _).
      apply orb_prop in Hm as [Hm|Hm].
      * (* a known field's value must fail *)
        clear Hf. revert Hv. generalize (map init_var dfs). revert vars'.
        induction fs as [|[id x] r IHr]; intros vars' vars Hv; [discriminate|].
        inversion H as [|? ? Hx Hr]; subst. cbn [snd] in Hx.
        rewrite mf_fields_cons in Hm. unfold mf_field in Hm. rewrite view_fields_cons in Hv.
        destruct (match_field R dfs 0 (Some id) (ttype_of x)) as [[j fl]|].
        -- apply bind_ok_inv in Hv as (y & Hy & Hv). apply orb_prop in Hm as [Hm|Hm].
           ++ exact (Hx _ Hm _ Hy).
           ++ exact (IHr Hr Hm _ _ Hv).
        -- cbn [orb] in Hm. exact (IHr Hr Hm _ _ Hv).
      * apply negb_true_iff in Hm. exact (struct_absent_fails R dfs fs vars' Hv Hm out Hf).
    + apply bind_ok_inv in Hg as (ret & Hv & Hg). unfold union_fail in Hm.
      apply orb_prop in Hm as [Hm|Hm]; [apply orb_prop in Hm as [Hm|Hm]|].
      * apply (vv_two_known R vs fs ltac:(lia) ret Hv).
      * apply andb_prop in Hm as [Hc Hm]. apply Nat.eqb_eq in Hc.
        rewrite vv_none_known in Hv by exact Hc. injection Hv as <-. unfold union_result in Hg.
        destruct vok; [|discriminate]. destruct vs; [discriminate|]. discriminate.
      * clear Hg. revert Hv. generalize (@None (Z * gval)). revert ret.
        induction fs as [|[id x] r IHr]; intros ret' ret Hv; [discriminate|].
        inversion H as [|? ? Hx Hr]; subst. cbn [snd] in Hx.
        rewrite mf_variants_cons in Hm. unfold mf_variant in Hm. rewrite view_variants_cons in Hv.
        destruct (known_variant R vs id (ttype_of x)) as [vt|].
        -- destruct ret; [discriminate|]. apply bind_ok_inv in Hv as (y & Hy & Hv). apply orb_prop in Hm as [Hm|Hm].
           ++ exact (Hx _ Hm _ Hy).
           ++ exact (IHr Hr Hm _ _ Hv).
        -- cbn [orb] in Hm. exact (IHr Hr Hm _ _ Hv).
  - (* list *)
    rewrite must_fail_list in Hm. rewrite view_list in Hg. destruct (resolve R t); try discriminate.
    apply bind_ok_inv in Hg as (ys & Hv & _). clear g. revert ys Hv.
    induction l as [|x r IHr]; intros ys Hv; [discriminate|]. inversion H as [|? ? Hx Hr]; subst.
    cbn [mf_elems] in Hm. rewrite view_elems_cons in Hv.
    apply bind_ok_inv in Hv as (y & Hy & Hv). apply bind_ok_inv in Hv as (ys' & Hys & _).
    apply orb_prop in Hm as [Hm|Hm]; [exact (Hx _ Hm _ Hy)|exact (IHr Hr Hm _ Hys)].
  - (* set *)
    rewrite must_fail_set in Hm. rewrite view_set in Hg. destruct (resolve R t); try discriminate.
    apply bind_ok_inv in Hg as (ys & Hv & _). clear g. revert ys Hv.
    induction l as [|x r IHr]; intros ys Hv; [discriminate|]. inversion H as [|? ? Hx Hr]; subst.
    cbn [mf_elems] in Hm. rewrite view_elems_cons in Hv.
    apply bind_ok_inv in Hv as (y & Hy & Hv). apply bind_ok_inv in Hv as (ys' & Hys & _).
    apply orb_prop in Hm as [Hm|Hm]; [exact (Hx _ Hm _ Hy)|exact (IHr Hr Hm _ Hys)].
  - (* map *)
    rewrite must_fail_map in Hm. rewrite view_map in Hg. destruct (resolve R t); try discriminate.
    apply bind_ok_inv in Hg as (ys & Hv & _). clear g. revert ys Hv.
    induction l as [|[a b] r IHr]; intros ys Hv; [discriminate|]. inversion H as [|? ? [Ha Hb] Hr]; subst.
    cbn [fst snd] in *. cbn [mf_pairs] in Hm. rewrite view_pairs_cons in Hv.
    apply bind_ok_inv in Hv as (a' & Hya & Hv). apply bind_ok_inv in Hv as (b' & Hyb & Hv).
    apply bind_ok_inv in Hv as (ys' & Hys & _).
    apply orb_prop in Hm as [Hm|Hm]; [apply orb_prop in Hm as [Hm|Hm]|].
    + exact (Ha _ Hm _ Hya). + exact (Hb _ Hm _ Hyb). + exact (IHr Hr Hm _ Hys).
Qed.

Theorem must_fail_complete : forall R v t, must_fail R t v = true -> exists e, view R t v = Err e.
Proof. intros R v t H. apply not_ok_err; [apply view_np|]. apply must_fail_not_ok; exact H. Qed.

(* ---------- soundness: an InvalidData failure of the specification has one of the named reasons ---------- *)
Lemma must_fail_sound_ R : wf_schema R = true -> forall v t, view R t v = Err EInvalidData -> must_fail R t v = true.
Proof.
  intros Hwf. induction v using tval_ind'; intros t Hv.
  1-8: cbn [view] in Hv; destruct (resolve R t); try discriminate.
  - destruct (lookup R n) as [[]|]; discriminate.
  - (* struct *)
    rewrite view_struct in Hv. rewrite must_fail_struct.
    destruct (resolve R t) as [| | | | | | | | | |?|?|? ?|n]; try discriminate.
    destruct (lookup R n) as [[dfs kp ia|vs vok kp|?|?]|] eqn:Elk; try discriminate.
    + destruct (wf_struct R Hwf _ _ _ _ Elk) as [Hnd _].
      apply bind_err_inv in Hv as [Hv|(vars' & Hvf & Hv)].
      * apply orb_true_intro. left. revert Hv. generalize (map init_var dfs).
        induction fs as [|[id x] r IHr]; intros vars Hv; [discriminate|].
        inversion H as [|? ? Hx Hr]; subst. cbn [snd] in Hx.
        rewrite mf_fields_cons. unfold mf_field. rewrite view_fields_cons in Hv.
        destruct (match_field R dfs 0 (Some id) (ttype_of x)) as [[j fl]|].
        -- apply bind_err_inv in Hv as [Hv|(y & _ & Hv)].
           ++ rewrite (Hx _ Hv). reflexivity.
           ++ rewrite (IHr Hr _ Hv). apply orb_true_r.
        -- exact (IHr Hr _ Hv).
      * apply orb_true_intro. right. apply negb_true_iff.
        destruct (required_present R dfs fs) eqn:Ep; [|reflexivity].
        destruct (struct_present_ok R dfs fs vars' Hnd Hvf Ep) as (out & Ho).
        rewrite Ho in Hv. discriminate.
    + unfold union_fail. apply bind_err_inv in Hv as [Hv|(ret & Hvf & Hv)].
      * (* the fold fails: a nested failure or a second known variant *)
        assert (G : (2 <= known_count R vs fs)%nat \/ mf_variants R vs fs = true).
        { clear Elk. revert Hv. induction fs as [|[id x] r IHr]; intros Hv; [discriminate|].
          inversion H as [|? ? Hx Hr]; subst. cbn [snd] in Hx.
          rewrite known_count_cons, kn_known, mf_variants_cons. unfold mf_variant. rewrite view_variants_cons in Hv.
          destruct (known_variant R vs id (ttype_of x)) as [vt|].
          - apply bind_err_inv in Hv as [Hv|(y & _ & Hv)].
            + right. rewrite (Hx _ Hv). reflexivity.
            + left. apply vv_err_some in Hv. lia.
          - destruct (IHr Hr Hv) as [G|G]; [left; lia|right; exact G]. }
        destruct G as [G|G].
        -- replace (Nat.leb 2 (known_count R vs fs)) with true by (symmetry; apply Nat.leb_le; exact G). reflexivity.
        -- rewrite G. apply orb_true_r.
      * apply vv_ok_count in Hvf. unfold union_result in Hv. destruct ret as [[id y]|]; [discriminate|].
        rewrite Hvf. cbn [Nat.leb Nat.eqb orb andb].
        destruct vok; [|reflexivity]. destruct vs as [|[id0 t0] vs']; [reflexivity|discriminate Hv].
  - (* list *)
    rewrite view_list in Hv. rewrite must_fail_list. destruct (resolve R t); try discriminate.
    apply bind_err_inv in Hv as [Hv|(ys & _ & Hv)]; [|discriminate].
    induction l as [|x r IHr]; [discriminate|]. inversion H as [|? ? Hx Hr]; subst.
    cbn [mf_elems]. rewrite view_elems_cons in Hv.
    apply bind_err_inv in Hv as [Hv|(y & _ & Hv)]; [rewrite (Hx _ Hv); reflexivity|].
    apply bind_err_inv in Hv as [Hv|(ys & _ & Hv)]; [|discriminate]. rewrite (IHr Hr Hv). apply orb_true_r.
  - (* set *)
    rewrite view_set in Hv. rewrite must_fail_set. destruct (resolve R t); try discriminate.
    apply bind_err_inv in Hv as [Hv|(ys & _ & Hv)]; [|discriminate].
    induction l as [|x r IHr]; [discriminate|]. inversion H as [|? ? Hx Hr]; subst.
    cbn [mf_elems]. rewrite view_elems_cons in Hv.
    apply bind_err_inv in Hv as [Hv|(y & _ & Hv)]; [rewrite (Hx _ Hv); reflexivity|].
    apply bind_err_inv in Hv as [Hv|(ys & _ & Hv)]; [|discriminate]. rewrite (IHr Hr Hv). apply orb_true_r.
  - (* map *)
    rewrite view_map in Hv. rewrite must_fail_map. destruct (resolve R t); try discriminate.
    apply bind_err_inv in Hv as [Hv|(ys & _ & Hv)]; [|discriminate].
    induction l as [|[a b] r IHr]; [discriminate|]. inversion H as [|? ? [Ha Hb] Hr]; subst. cbn [fst snd] in *.
    cbn [mf_pairs]. rewrite view_pairs_cons in Hv.
    apply bind_err_inv in Hv as [Hv|(a' & _ & Hv)]; [rewrite (Ha _ Hv); reflexivity|].
    apply bind_err_inv in Hv as [Hv|(b' & _ & Hv)]; [rewrite (Hb _ Hv); rewrite orb_true_r; reflexivity|].
    apply bind_err_inv in Hv as [Hv|(ys & _ & Hv)]; [|discriminate]. rewrite (IHr Hr Hv). apply orb_true_r.
Qed.

Theorem must_fail_sound : forall R, wf_schema R = true -> forall v t,
  view R t v = Err EInvalidData -> must_fail R t v = true.
Proof. exact must_fail_sound_. Qed.

(* ---------- error class on input of the declared shape ---------- *)
Lemma resolve_nonref R t n : resolve R t = TyRef n -> exists m, t = TyRef m.
Proof. unfold resolve. destruct t; cbn [resolve_n]; try discriminate. eauto. Qed.

Lemma closed_ref R t n : ty_closed R t = true -> resolve R t = TyRef n ->
  exists d, lookup R n = Some d /\ forall t', d <> DTypedef t'.
Proof.
  intros Hc Hr. destruct (resolve_nonref _ _ _ Hr) as (m & ->). cbn [ty_closed] in Hc.
  destruct (lookup R m); [|discriminate]. rewrite Hr in Hc.
  destruct (lookup R n) as [[]|]; try discriminate; eexists; (split; [reflexivity|intros; discriminate]).
Qed.

Lemma resolve_closed R : wf_schema R = true -> forall fuel t, ty_closed R t = true ->
  match resolve_n R fuel t with
  | TyList a | TySet a => ty_closed R a = true
  | TyMap a b => ty_closed R a = true /\ ty_closed R b = true
  | _ => True
  end.
Proof.
  intros Hwf. induction fuel as [|fuel IH]; intros t H.
  - cbn [resolve_n]. destruct t; cbn [ty_closed] in H; auto. apply andb_prop in H. exact H.
  - destruct t; cbn [resolve_n]; cbn [ty_closed] in H; auto.
    + apply andb_prop in H. exact H.
    + destruct (lookup R n) as [[| | |t']|] eqn:E; auto.
      apply IH. pose proof (wf_lookup R Hwf _ _ E) as Hd. cbn [decl_ok] in Hd. apply andb_prop in Hd as [Hd _]. exact Hd.
Qed.

Lemma resolve_closed' R : wf_schema R = true -> forall t, ty_closed R t = true ->
  match resolve R t with
  | TyList a | TySet a => ty_closed R a = true
  | TyMap a b => ty_closed R a = true /\ ty_closed R b = true
  | _ => True
  end.
Proof. intros Hwf t H. exact (resolve_closed R Hwf _ t H). Qed.

Lemma variant_closed R : wf_schema R = true -> forall n vs vok kp id vt,
  lookup R n = Some (DUnion vs vok kp) -> find_variant vs id = Some vt -> ty_closed R vt = true.
Proof.
  intros Hwf n vs vok kp id vt Hl Hv. apply (wf_lookup R Hwf) in Hl. cbn [decl_ok] in Hl.
  apply andb_prop in Hl as [Hl _]. apply andb_prop in Hl as [_ Hl].
  rewrite forallb_forall in Hl. specialize (Hl _ (find_variant_in _ _ _ Hv)). cbn in Hl.
  apply andb_prop in Hl as [_ Hl]. exact Hl.
Qed.

Definition ECL (R : schema) (v : tval) : Prop :=
  forall t e, ty_closed R t = true -> wt v = true -> ttype_of v = ttype_of_ty R t -> evo_dom R t v = true ->
    view R t v = Err e -> e = EInvalidData.

Lemma ecl_elems R et l : Forall (ECL R) l -> ty_closed R et = true ->
  (forall x, In x l -> wt x = true /\ ttype_of x = ttype_of_ty R et) ->
  walk_elems R skippable true et l = true -> forall e, view_elems R et l = Err e -> e = EInvalidData.
Proof.
  induction l as [|x r IH]; intros HF Hc Hel Hw e Hv; [discriminate|].
  inversion HF as [|? ? Hx Hr]; subst. rewrite walk_elems_cons in Hw. apply andb_prop in Hw as [Hw1 Hw2].
  rewrite view_elems_cons in Hv. destruct (Hel x (or_introl eq_refl)) as [Hwx Htx].
  apply bind_err_inv in Hv as [Hv|(y & _ & Hv)]; [exact (Hx et e Hc Hwx Htx Hw1 Hv)|].
  apply bind_err_inv in Hv as [Hv|(ys & _ & Hv)]; [|discriminate].
  apply (IH Hr Hc (fun y Hy => Hel y (or_intror Hy)) Hw2 e Hv).
Qed.

Lemma ecl_pairs R kt vt l : Forall (fun q => ECL R (fst q) /\ ECL R (snd q)) l ->
  ty_closed R kt = true -> ty_closed R vt = true ->
  (forall q, In q l -> wt (fst q) = true /\ ttype_of (fst q) = ttype_of_ty R kt /\
                       wt (snd q) = true /\ ttype_of (snd q) = ttype_of_ty R vt) ->
  walk_pairs R skippable true kt vt l = true -> forall e, view_pairs R kt vt l = Err e -> e = EInvalidData.
Proof.
  induction l as [|[a b] r IH]; intros HF Hck Hcv Hel Hw e Hv; [discriminate|].
  inversion HF as [|? ? [Ha Hb] Hr]; subst. cbn [fst snd] in *.
  rewrite walk_pairs_cons in Hw. apply andb_prop in Hw as [Hw Hw3]. apply andb_prop in Hw as [Hw1 Hw2].
  rewrite view_pairs_cons in Hv. destruct (Hel (a, b) (or_introl eq_refl)) as (Hwa & Hta & Hwb & Htb). cbn [fst snd] in *.
  apply bind_err_inv in Hv as [Hv|(a' & _ & Hv)]; [exact (Ha kt e Hck Hwa Hta Hw1 Hv)|].
  apply bind_err_inv in Hv as [Hv|(b' & _ & Hv)]; [exact (Hb vt e Hcv Hwb Htb Hw2 Hv)|].
  apply bind_err_inv in Hv as [Hv|(ys & _ & Hv)]; [|discriminate].
  apply (IH Hr Hck Hcv (fun y Hy => Hel y (or_intror Hy)) Hw3 e Hv).
Qed.

Lemma ecl_fields R dfs : (forall f, In f dfs -> field_ok R f = true) ->
  forall fs, Forall (fun q => ECL R (snd q)) fs -> wtf fs = true -> walk_fields R skippable true dfs fs = true ->
  forall vars e, view_fields R dfs fs vars = Err e -> e = EInvalidData.
Proof.
  intros Hok. induction fs as [|[id x] r IH]; intros HF Hwt Hw vars e Hv; [discriminate|].
  inversion HF as [|? ? Hx Hr]; subst. cbn [snd] in Hx.
  cbn [wtf] in Hwt. apply andb_prop in Hwt as [Hwt Hwr]. apply andb_prop in Hwt as [_ Hwx].
  rewrite walk_fields_cons in Hw. apply andb_prop in Hw as [Hw1 Hw2]. unfold walk_field in Hw1.
  rewrite view_fields_cons in Hv.
  destruct (match_field R dfs 0 (Some id) (ttype_of x)) as [[j fl]|] eqn:Em; [|eauto].
  destruct (match_field_inv _ _ _ _ _ _ _ Em) as (Hin & _ & Hft).
  apply bind_err_inv in Hv as [Hv|(y & _ & Hv)]; [|eauto].
  apply (Hx (f_ty fl) e); auto.
  specialize (Hok fl Hin). unfold field_ok in Hok. apply andb_prop in Hok as [Hok _]. apply andb_prop in Hok as [Hok _].
  apply andb_prop in Hok as [_ Hok]. exact Hok.
Qed.

Lemma ecl_variants R vs : (forall id vt, find_variant vs id = Some vt -> ty_closed R vt = true) ->
  forall fs, Forall (fun q => ECL R (snd q)) fs -> wtf fs = true -> walk_variants R skippable true vs fs = true ->
  forall ret e, view_variants R vs fs ret = Err e -> e = EInvalidData.
Proof.
  intros Hok. induction fs as [|[id x] r IH]; intros HF Hwt Hw ret e Hv; [discriminate|].
  inversion HF as [|? ? Hx Hr]; subst. cbn [snd] in Hx.
  cbn [wtf] in Hwt. apply andb_prop in Hwt as [Hwt Hwr]. apply andb_prop in Hwt as [_ Hwx].
  rewrite walk_variants_cons in Hw. apply andb_prop in Hw as [Hw1 Hw2]. unfold walk_variant in Hw1.
  rewrite view_variants_cons in Hv. unfold known_variant in Hv.
  destruct (find_variant vs id) as [vt|] eqn:Ev; [|eauto].
  destruct (is_void (resolve R vt)); [eauto|].
  destruct (ttype_eqb_spec (ttype_of_ty R vt) (ttype_of x)) as [Hft|]; [|eauto].
  destruct ret; [injection Hv as <-; reflexivity|].
  apply bind_err_inv in Hv as [Hv|(y & _ & Hv)]; [|eauto].
  apply (Hx vt e); eauto.
Qed.

Theorem view_error_class : forall R, wf_schema R = true -> forall v t e,
  ty_closed R t = true -> wt v = true -> ttype_of v = ttype_of_ty R t -> evo_dom R t v = true ->
  view R t v = Err e -> e = EInvalidData.
Proof.
  intros R Hwf. induction v using tval_ind'; intros t e Hc Hwt Hty Hd Hv; symmetry in Hty; cbn [ttype_of] in Hty.
  1-8: cbn [view] in Hv; tycases Hty; discriminate Hv.
  - (* struct *)
    rewrite view_struct in Hv. unfold evo_dom in Hd. rewrite walk_struct in Hd. rewrite wt_struct in Hwt.
    tycases Hty.
    + destruct (wf_struct R Hwf _ _ _ _ Elk) as [_ Hok].
      apply bind_err_inv in Hv as [Hv|(vars' & Hvf & Hv)].
      * eapply ecl_fields; eauto.
      * apply bind_err_inv in Hv as [Hv|(out & _ & Hv)]; [|discriminate].
        eapply finish_err_class; [|exact Hv]. rewrite (view_fields_length _ _ _ _ _ Hvf). apply map_length.
    + apply bind_err_inv in Hv as [Hv|(ret & Hvf & Hv)].
      * eapply ecl_variants; eauto. intros id vt Hf. eapply variant_closed; eauto.
      * unfold union_result in Hv. destruct ret as [[id y]|]; [discriminate|].
        destruct vok; [|injection Hv as <-; reflexivity].
        destruct vs as [|[id0 t0] vs']; [injection Hv as <-; reflexivity|discriminate].
    + destruct (closed_ref R t n Hc Eres) as (d & Hl & Hnt). rewrite Elk in Hl. injection Hl as <-.
      exfalso. exact (Hnt _ eq_refl).
    + destruct (closed_ref R t n Hc Eres) as (d & Hl & _). rewrite Elk in Hl. discriminate.
  - (* list *)
    rewrite view_list in Hv. unfold evo_dom in Hd. rewrite walk_list in Hd.
    pose proof (resolve_closed' R Hwf t Hc) as Hrc. tycases Hty.
    destruct (wt_list_inv _ _ Hwt) as (_ & _ & Hel). apply andb_prop in Hd as [Ha Hd].
    apply bind_err_inv in Hv as [Hv|(ys & _ & Hv)]; [|discriminate].
    apply (ecl_elems R et0 l H Hrc); [|exact Hd|exact Hv]. intros x Hx. destruct (Hel x Hx) as [Hwx Htx]. split; [exact Hwx|].
    destruct l; [destruct Hx|]. cbn [nonempty_is] in Ha. destruct (ttype_eqb_spec et (ttype_of_ty R et0)) as [Eet|]; [rewrite Htx; exact Eet|discriminate Ha].
  - (* set *)
    rewrite view_set in Hv. unfold evo_dom in Hd. rewrite walk_set in Hd.
    pose proof (resolve_closed' R Hwf t Hc) as Hrc. tycases Hty.
    rewrite wt_set in Hwt. destruct (wt_list_inv _ _ Hwt) as (_ & _ & Hel). apply andb_prop in Hd as [Ha Hd].
    apply bind_err_inv in Hv as [Hv|(ys & _ & Hv)]; [|discriminate].
    apply (ecl_elems R et0 l H Hrc); [|exact Hd|exact Hv]. intros x Hx. destruct (Hel x Hx) as [Hwx Htx]. split; [exact Hwx|].
    destruct l; [destruct Hx|]. cbn [nonempty_is] in Ha. destruct (ttype_eqb_spec et (ttype_of_ty R et0)) as [Eet|]; [rewrite Htx; exact Eet|discriminate Ha].
  - (* map *)
    rewrite view_map in Hv. unfold evo_dom in Hd. rewrite walk_map in Hd.
    pose proof (resolve_closed' R Hwf t Hc) as Hrc. tycases Hty. destruct Hrc as [Hck Hcv].
    destruct (wt_map_inv _ _ _ Hwt) as (_ & _ & _ & Hel). apply andb_prop in Hd as [Ha Hd].
    apply bind_err_inv in Hv as [Hv|(ys & _ & Hv)]; [|discriminate].
    apply (ecl_pairs R kt0 vt0 l H Hck Hcv); [|exact Hd|exact Hv]. intros q Hq. destruct (Hel q Hq) as (Hwa & Hta & Hwb & Htb).
    destruct l; [destruct Hq|]. cbn [nonempty_is] in Ha. apply andb_prop in Ha as [A1 A2].
    destruct (ttype_eqb_spec kt (ttype_of_ty R kt0)) as [Ek|]; [|discriminate A1].
    destruct (ttype_eqb_spec vt (ttype_of_ty R vt0)) as [Ev|]; [|discriminate A2].
    rewrite Hta, Htb. repeat split; assumption.
Qed.
