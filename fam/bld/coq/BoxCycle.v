(* placeholder *)
