"""A small parser for the subset of Rust used by the method bodies of pilota's Thrift protocols
(pilota/src/thrift/{binary,binary_le,compact,binary_unsafe}.rs).  Input: comment- and string-stripped
text of one fn body.  Output: nested tuples.  Anything outside the subset raises ParseError -- the
translator (tools/extract.py gen_prim_ops) turns that into exit 2.

expr ::= ('num', int) | ('path', 'a::b') | ('str',) | ('call', f, [args]) | ('mcall', recv, name, [args])
       | ('field', recv, name) | ('index', recv, idx) | ('range', lo|None, hi|None) | ('try', e) | ('await', e)
       | ('cast', e, 'ty') | ('bin', op, a, b) | ('un', op, e) | ('ref', e) | ('if', c, blk, blk|None)
       | ('match', e, [(pat, expr)]) | ('block', [stmts], tail|None) | ('unsafe', block) | ('closure', expr)
       | ('array', [es]) | ('repeat', e, n) | ('struct', name, [(field, expr)]) | ('macro', name, [args])
       | ('return', e|None) | ('tuple', [es]) | ('loop', block) | ('continue',) | ('break',)
stmt ::= ('let', pat, expr|None) | ('assign', op, lhs, rhs) | ('expr', e)
pat  ::= source text of the pattern, whitespace-normalised
"""
import re


class ParseError(Exception):
    pass


TOK = re.compile(r"""
    (?P<ws>\s+)
  | (?P<num>0x[0-9a-fA-F_]+(?:[iu](?:8|16|32|64|128|size))?|\d[\d_]*(?:[iu](?:8|16|32|64|128|size))?)
  | (?P<str>"")
  | (?P<chr>'\s')
  | (?P<life>'[A-Za-z_]\w*)
  | (?P<id>[A-Za-z_$]\w*(?:::(?:<[^<>]*(?:<[^<>]*>[^<>]*)*>|[A-Za-z_]\w*))*!?)
  | (?P<op>\.\.=|<<=|>>=|\.\.|<<|>>|<=|>=|==|!=|&&|\|\||=>|->|\+=|-=|\*=|::|[-+*/%&|^!<>=.,;:(){}\[\]?#@])
""", re.X)


def tokenize(s):
    out, i = [], 0
    while i < len(s):
        m = TOK.match(s, i)
        if not m:
            raise ParseError("cannot tokenize at %r" % s[i:i + 30])
        i = m.end()
        k = m.lastgroup
        if k == "ws":
            continue
        out.append((k, m.group(0)))
    out.append(("eof", ""))
    return out


BINPREC = {"||": 1, "&&": 2, "==": 3, "!=": 3, "<": 3, ">": 3, "<=": 3, ">=": 3, "|": 4, "^": 5, "&": 6,
           "<<": 7, ">>": 7, "+": 8, "-": 8, "*": 9, "/": 9, "%": 9}


class P:
    def __init__(self, toks):
        self.t, self.i = toks, 0

    def peek(self, k=0):
        return self.t[min(self.i + k, len(self.t) - 1)]

    def at(self, v):
        return self.peek()[1] == v and self.peek()[0] in ("op", "id")

    def eat(self, v=None):
        tok = self.peek()
        if v is not None and tok[1] != v:
            raise ParseError("expected %r, found %r (token %d)" % (v, tok[1], self.i))
        self.i += 1
        return tok

    # ---- types / patterns: skipped as text
    def skip_until(self, stops):
        """consume tokens until one of `stops` at bracket depth 0; returns the text"""
        depth, out = 0, []
        while True:
            k, v = self.peek()
            if k == "eof":
                raise ParseError("unexpected end while skipping")
            if depth == 0 and v in stops and k == "op":
                return " ".join(out)
            if v in "([{" and k == "op":
                depth += 1
            elif v in ")]}" and k == "op":
                depth -= 1
            elif v == "<" and k == "op" and out and re.match(r"[A-Za-z_]", out[-1][-1:] or " "):
                depth += 1          # generic args after a type name
            elif v == ">" and k == "op" and depth > 0 and "<" in "".join(out):
                depth -= 1
            out.append(v)
            self.i += 1

    # ---- blocks and statements
    def block(self):
        self.eat("{")
        stmts, tail = [], None
        while not self.at("}"):
            if self.at(";"):
                self.eat()
                continue
            if self.peek() == ("id", "let"):
                self.eat()
                pat = self.skip_until({"=", ";", ":"})
                if self.at(":"):
                    self.eat()
                    self.skip_until({"=", ";"})
                init = None
                if self.at("="):
                    self.eat()
                    init = self.expr()
                self.eat(";")
                stmts.append(("let", pat, init))
                continue
            e = self.expr()
            if self.peek()[0] == "op" and self.peek()[1] in ("=", "+=", "-=", "*="):
                op = self.eat()[1]
                rhs = self.expr()
                if self.at(";"):
                    self.eat()
                stmts.append(("assign", op, e, rhs))
                continue
            if self.at(";"):
                self.eat()
                stmts.append(("expr", e))
            elif self.at("}"):
                tail = e
            elif e[0] in ("if", "match", "block", "unsafe", "loop", "for", "while"):
                stmts.append(("expr", e))
            else:
                raise ParseError("expected ; or } after expression, found %r" % (self.peek()[1],))
        self.eat("}")
        return ("block", stmts, tail)

    # ---- expressions
    def expr(self, nostruct=False, minprec=0):
        lhs = self.unary(nostruct)
        while True:
            k, v = self.peek()
            if k == "id" and v == "as":
                if 10 < minprec:
                    break
                self.eat()
                ty = self.type_text()
                lhs = ("cast", lhs, ty)
                continue
            if k == "op" and v in BINPREC and BINPREC[v] >= minprec and BINPREC[v] > 0:
                # `|` could start a closure only in prefix position; here it is binary
                self.eat()
                rhs = self.expr(nostruct, BINPREC[v] + 1)
                lhs = ("bin", v, lhs, rhs)
                continue
            if k == "op" and v == ".." and minprec == 0:
                self.eat()
                hi = None
                if not (self.peek()[1] in ("]", ")", "}", ",", ";")):
                    hi = self.expr(nostruct, 1)
                lhs = ("range", lhs, hi)
                continue
            break
        return lhs

    def type_text(self):
        """a type after `as` / in a turbofish: path, optionally *const T, [T; N], &T"""
        out = []
        k, v = self.peek()
        while v in ("*", "&") or (k == "id" and v in ("const", "mut")):
            out.append(self.eat()[1])
            k, v = self.peek()
        if v == "[":
            out.append(self.skip_bracket())
        elif k == "id":
            out.append(self.eat()[1])
            if self.at("<"):
                raise ParseError("generic type after `as` not supported")
        elif v == "_":
            out.append(self.eat()[1])
        else:
            raise ParseError("type expected, found %r" % (v,))
        return " ".join(out)

    def skip_bracket(self):
        depth, out = 0, []
        while True:
            k, v = self.eat()
            out.append(v)
            if v in "([{":
                depth += 1
            elif v in ")]}":
                depth -= 1
                if depth == 0:
                    return " ".join(out)

    def unary(self, nostruct):
        k, v = self.peek()
        if k == "op" and v in ("!", "-", "*"):
            self.eat()
            return ("un", v, self.unary(nostruct))
        if k == "op" and v in ("&", "&&"):
            self.eat()
            if self.peek() == ("id", "mut"):
                self.eat()
            return ("ref", self.unary(nostruct))
        return self.postfix(self.primary(nostruct), nostruct)

    def args(self):
        self.eat("(")
        out = []
        while not self.at(")"):
            out.append(self.expr())
            if self.at(","):
                self.eat()
        self.eat(")")
        return out

    def postfix(self, e, nostruct):
        while True:
            k, v = self.peek()
            if k == "op" and v == "?":
                self.eat()
                e = ("try", e)
            elif k == "op" and v == ".":
                self.eat()
                k2, name = self.eat()
                if k2 == "num":
                    e = ("field", e, name)
                    continue
                if k2 != "id":
                    raise ParseError("member name expected after '.', found %r" % (name,))
                if name == "await":
                    e = ("await", e)
                elif self.at("("):
                    e = ("mcall", e, name, self.args())
                else:
                    e = ("field", e, name)
            elif k == "op" and v == "[":
                self.eat()
                idx = self.expr()
                self.eat("]")
                e = ("index", e, idx)
            elif k == "op" and v == "(" and e[0] == "path":
                e = ("call", e[1], self.args())
            else:
                return e

    def primary(self, nostruct):
        k, v = self.peek()
        if k == "num":
            self.eat()
            m = re.match(r"(0x[0-9a-fA-F_]+|\d[\d_]*)", v)
            return ("num", int(m.group(1).replace("_", ""), 0))
        if k == "str":
            self.eat()
            return ("str",)
        if k == "chr":
            self.eat()
            return ("str",)
        if k == "op" and v == "(":
            self.eat()
            if self.at(")"):
                self.eat()
                return ("tuple", [])
            e = self.expr()
            if self.at(","):
                es = [e]
                while self.at(","):
                    self.eat()
                    if self.at(")"):
                        break
                    es.append(self.expr())
                self.eat(")")
                return ("tuple", es)
            self.eat(")")
            return ("paren", e)
        if k == "op" and v == "[":
            self.eat()
            if self.at("]"):
                self.eat()
                return ("array", [])
            e = self.expr()
            if self.at(";"):
                self.eat()
                n = self.expr()
                self.eat("]")
                return ("repeat", e, n)
            es = [e]
            while self.at(","):
                self.eat()
                if self.at("]"):
                    break
                es.append(self.expr())
            self.eat("]")
            return ("array", es)
        if k == "op" and v == "{":
            return self.block()
        if k == "op" and v in ("|", "||"):
            # closure: |params| body
            if v == "|":
                self.eat()
                self.skip_until({"|"})
                self.eat("|")
            else:
                self.eat()
            return ("closure", self.expr())
        if k == "id":
            if v == "if":
                self.eat()
                c = self.expr(nostruct=True)
                t = self.block()
                e = None
                if self.peek() == ("id", "else"):
                    self.eat()
                    if self.peek() == ("id", "if"):
                        e = ("block", [], self.primary(False))
                    else:
                        e = self.block()
                return ("if", c, t, e)
            if v == "match":
                self.eat()
                scrut = self.expr(nostruct=True)
                self.eat("{")
                arms = []
                while not self.at("}"):
                    pat = self.skip_until({"=>"})
                    self.eat("=>")
                    body = self.expr()
                    if self.at(","):
                        self.eat()
                    arms.append((re.sub(r"\s+", " ", pat).strip(), body))
                self.eat("}")
                return ("match", scrut, arms)
            if v == "unsafe":
                self.eat()
                return ("unsafe", self.block())
            if v == "loop":
                self.eat()
                return ("loop", self.block())
            if v == "while":
                self.eat()
                c = self.expr(nostruct=True)
                return ("while", c, self.block())
            if v == "for":
                self.eat()
                pat = self.skip_until({"in"}) if False else self._until_in()
                it = self.expr(nostruct=True)
                return ("for", pat, it, self.block())
            if v == "return":
                self.eat()
                if self.peek()[1] in (";", "}", ","):
                    return ("return", None)
                return ("return", self.expr())
            if v == "continue":
                self.eat()
                return ("continue",)
            if v == "break":
                self.eat()
                return ("break",)
            if v.endswith("!"):
                self.eat()
                start = self.i
                self.skip_bracket()
                inner = self.t[start + 1:self.i - 1]
                # top-level comma-separated arguments, each re-parsed as an expression when possible
                args, cur, depth = [], [], 0
                for tk in inner + [("op", ",")]:
                    if tk[1] in "([{" and tk[0] == "op": depth += 1
                    if tk[1] in ")]}" and tk[0] == "op": depth -= 1
                    if tk == ("op", ",") and depth == 0:
                        if cur:
                            try:
                                q = P(cur + [("eof", "")])
                                a = q.expr()
                                args.append(a if q.peek()[0] == "eof" else None)
                            except ParseError:
                                args.append(None)
                        cur = []
                    else:
                        cur.append(tk)
                return ("macro", v[:-1], args)
            self.eat()
            if self.at("{") and not nostruct and re.match(r"[A-Z]", v.split("::")[-1]):
                self.eat("{")
                fs = []
                while not self.at("}"):
                    fk, fname = self.eat()
                    if self.at(":"):
                        self.eat()
                        fs.append((fname, self.expr()))
                    else:
                        fs.append((fname, ("path", fname)))
                    if self.at(","):
                        self.eat()
                self.eat("}")
                return ("struct", v, fs)
            return ("path", v)
        raise ParseError("unexpected token %r" % (v,))

    def _until_in(self):
        out = []
        while self.peek() != ("id", "in"):
            if self.peek()[0] == "eof":
                raise ParseError("`in` expected")
            out.append(self.eat()[1])
        self.eat("in")
        return " ".join(out)


def parse_body(text):
    """text of a fn body WITHOUT the outer braces"""
    p = P(tokenize("{" + text + "}"))
    b = p.block()
    if p.peek()[0] != "eof":
        raise ParseError("trailing tokens after the body")
    return b
