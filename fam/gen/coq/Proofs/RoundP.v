(* P3 (C02): the emitted decoder reads back what the emitted encoder wrote, up to fill_defaults.
   Mirrors PV.Proofs.RoundtripP (primitive read-back laws of HeaderP / PrimP), with the schema-directed
   loops of Gen.v on the reader side. *)
From PVGen Require Import Gen GenSpec Proofs.GenBase Proofs.EncP Proofs.FinishP.
From PV Require Import Proofs.TablesP Proofs.PrimP Proofs.HeaderP Proofs.RoundtripP Proofs.LenP.
From Coq Require Import ZifyN ZifyNat ZifyBool.
Open Scope Z_scope.

(* ---------- reader context facts ---------- *)
Lemma r_take_rc n s a s' : r_take n s = Ok (a, s') -> rc s' = rc s.
Proof.
  unfold r_take. destruct (take n (rbuf s)) as [[x y]|]; [|discriminate].
  intros H; injection H as <- <-. reflexivity.
Qed.
Lemma r_byte_rc s z s' : r_byte s = Ok (z, s') -> rc s' = rc s.
Proof.
  unfold r_byte. destruct (r_take 1 s) as [[a s1]| |] eqn:E; cbn [bind]; try discriminate.
  intros H; injection H as <- <-. eapply r_take_rc; eauto.
Qed.
Lemma r_varint_rc m s z s' : r_varint m s = Ok (z, s') -> rc s' = rc s.
Proof.
  unfold r_varint. destruct (read_var_u64 m (rbuf s)) as [[n r]| |]; cbn [bind]; try discriminate.
  intros H; injection H as <- <-. reflexivity.
Qed.
Lemma r_i16c_rc s z s' : r_i16 PCompact s = Ok (z, s') -> rc s' = rc s.
Proof.
  cbn [r_i16]. destruct (r_varint maxsize_16 s) as [[n s1]| |] eqn:E; cbn [bind]; try discriminate.
  intros H; injection H as <- <-. eapply r_varint_rc; eauto.
Qed.

Lemma r_field_begin_compact_pfield s h s' :
  r_field_begin PCompact s = Ok (h, s') -> r_pfield (rc s') = false.
Proof.
  cbn [r_field_begin]. generalize (eq_refl : r_pfield (rc (clear_pfield s)) = false).
  generalize (clear_pfield s). clear s. intros s Hs.
  destruct (r_byte s) as [[b s1]| |] eqn:Eb; cbn [bind]; try discriminate.
  apply r_byte_rc in Eb. rewrite <- Eb in Hs. clear Eb s.
  match goal with |- context [bind ?e _] => destruct e as [[ty s2]| |] eqn:E2 end; cbn [bind]; try discriminate.
  assert (H2 : r_pfield (rc s2) = false).
  { destruct (b mod 16 =? ctype_code CBooleanTrue); [injection E2 as <- <-; exact Hs|].
    destruct (b mod 16 =? ctype_code CBooleanFalse); [injection E2 as <- <-; exact Hs|].
    destruct (ctype_of_code (b mod 16)) as [ct|]; [|discriminate].
    destruct (ttype_of_ctype ct); [|discriminate]. injection E2 as <- <-. exact Hs. }
  destruct ty; try (intros H; injection H as <- <-; exact H2).
  all: destruct (negb (b / 16 =? 0)); [intros H; injection H as <- <-; exact H2|].
  all: destruct (r_i16 PCompact s2) as [[i s3]| |] eqn:E3; cbn [bind]; try discriminate.
  all: apply r_i16c_rc in E3; intros H; injection H as <- <-; cbn [set_rc rc r_pfield]; rewrite E3; exact H2.
Qed.

Lemma r_bool_pfield s :
  r_bool PCompact (set_rc s (mkR (r_last (rc s)) (r_stack (rc s)) (r_pbool (rc s)) true)) = r_bool PCompact s.
Proof. destruct s as [b [l st pb pf]]. reflexivity. Qed.

Lemma r_field_end_len_idle p r rcx : idle rcx -> r_field_end_len p (mkS r rcx) = Ok (0, mkS r rcx).
Proof.
  intros [_ Hf]. unfold r_field_end_len, r_assert_no_pending. cbn [rc]. rewrite Hf. destruct p; reflexivity.
Qed.
Lemma r_field_stop_len_idle p r rcx : idle rcx -> r_field_stop_len p (mkS r rcx) = Ok (1, mkS r rcx).
Proof.
  intros [_ Hf]. unfold r_field_stop_len, r_assert_no_pending. cbn [rc]. rewrite Hf. destruct p; reflexivity.
Qed.

Lemma r_fbl_nonbool p ft id s : (p = PCompact -> ft <> TBool) -> elem_ttype_ok ft = true ->
  exists n, r_field_begin_len p ft (Some id) s = Ok (n, s).
Proof.
  intros Hnb Hok. destruct p; [eexists; reflexivity..|].
  destruct ft; cbn in Hok; try discriminate; try (eexists; reflexivity).
  exfalso. apply (Hnb eq_refl). reflexivity.
Qed.

Lemma gen_decode_S S p f t s : gen_decode S p (Datatypes.S f) t s =
  match resolve S t with
  | TyBool => let* (b, s) := r_bool p s in Ok (GBool b, s)
  | TyI8 => let* (z, s) := r_i8 s in Ok (GI8 z, s)
  | TyI16 => let* (z, s) := r_i16 p s in Ok (GI16 z, s)
  | TyI32 => let* (z, s) := r_i32 p s in Ok (GI32 z, s)
  | TyI64 => let* (z, s) := r_i64 p s in Ok (GI64 z, s)
  | TyDouble => let* (z, s) := r_double p s in Ok (GDouble z, s)
  | TyString | TyBinary => let* (l, s) := r_bytes p s in Ok (GBytes l, s)
  | TyUuid => let* (l, s) := r_uuid s in Ok (GUuid l, s)
  | TyVoid =>
      let* (_, s) := r_struct_begin p s in
      let* (_, s) := r_struct_end p s in Ok (GVoid, s)
  | TyList et =>
      let* (h, s) := r_coll_begin p s in
      let* (l, s) := dec_elems (gen_decode S p f) (Datatypes.S f) et (snd h) s [] in
      Ok (GList l, s)
  | TySet et =>
      let* (h, s) := r_coll_begin p s in
      let* (l, s) := dec_elems (gen_decode S p f) (Datatypes.S f) et (snd h) s [] in
      Ok (GSet l, s)
  | TyMap kt vt =>
      let* (h, s) := r_map_begin p s in
      let* (l, s) := dec_pairs (gen_decode S p f) (Datatypes.S f) kt vt (snd h) s [] in
      Ok (GMap l, s)
  | TyRef n =>
      match lookup S n with
      | Some (DEnum _) => let* (z, s) := r_i32 p s in Ok (GEnum z, s)
      | Some (DStruct fs _ _) =>
          let* (_, s) := r_struct_begin p s in
          let* (vars, s) := dec_fields S p f (gen_decode S p f) (Datatypes.S f) fs (map init_var fs) s in
          let* (_, s) := r_struct_end p s in
          let* out := finish_fields fs vars in
          Ok (GStruct out [], s)
      | Some (DUnion vs void_ok _) =>
          let* (_, s) := r_struct_begin p s in
          let* (ret, s) := dec_variants S p f (gen_decode S p f) (Datatypes.S f) vs None s in
          let* (_, s) := r_struct_end p s in
          match ret with
          | Some (id, x) => Ok (GUnion id x, s)
          | None =>
              if void_ok then
                match vs with
                | (id0, _) :: _ => Ok (GUnion id0 GVoid, s)
                | [] => Err EInvalidData
                end
              else Err EInvalidData
          end
      | Some (DTypedef _) => Err EOther
      | None => Err EOther
      end
  end.
Proof. reflexivity. Qed.

(* contexts inside a struct *)
Definition wc1_ (p : pk) (c : wctx) : wctx :=
  match p with PCompact => mkW 0 (w_last c :: w_stack c) None | _ => c end.
Definition rc1_ (p : pk) (rcx : rctx) : rctx :=
  match p with PCompact => mkR 0 (r_last rcx :: r_stack rcx) (r_pbool rcx) (r_pfield rcx) | _ => rcx end.

Section Round.
  Variable S : schema.
  Hypothesis Hwf : wf_schema S = true.
  Variable p : pk.
  Variable k : bk.

  Definition GRT (v : gval) : Prop :=
    forall t, has_type S t v = true ->
    forall c, w_pend c = None ->
    exists ss, write_val p k (to_tval S t v) c = Ok (ss, c) /\
      forall fuel r rcx, (vsize (to_tval S t v) <= fuel)%nat -> idle rcx ->
        gen_decode S p fuel t (mkS (flat ss ++ r) rcx) = Ok (fill_defaults S t v, mkS r rcx).

  Lemma wlen tv c ss c' : wt tv = true -> w_pend c = None -> write_val p k tv c = Ok (ss, c') ->
    (1 <= length (flat ss))%nat.
  Proof.
    intros Hwt Hp Hw. destruct (roundtrip_val p k tv Hwt c Hp) as (ss' & Hw' & Hl & _).
    rewrite Hw in Hw'. injection Hw' as -> _. exact Hl.
  Qed.

  (* ----- scalars: through the primitive-level round trip ----- *)
  Ltac scalar_case b :=
    let t := fresh "t" in let Ht := fresh "Ht" in let c := fresh "c" in let Hp := fresh "Hp" in
    intros t Ht c Hp;
    pose proof (to_tval_wt S Hwf _ _ Ht) as Hwt;
    destruct (roundtrip_val p k _ Hwt c Hp) as (ss & Hw & _ & Hr);
    exists ss; split; [exact Hw|];
    intros fuel r rcx Hf Hi; specialize (Hr fuel r rcx Hf Hi);
    destruct fuel as [|f]; [cbn [to_tval vsize] in Hf; lia|];
    rewrite gen_decode_S; cbn [has_type] in Ht.

  Ltac scalar_fin :=
    match goal with
    | Hr : context [read_val] |- _ =>
        cbn [to_tval ttype_of canon read_val fill_defaults] in Hr |- *; revert Hr;
        match goal with |- context [bind ?e _] => destruct e as [[? ?]| |] end;
        cbn [bind]; intros Hr; try discriminate; injection Hr as -> ->; reflexivity
    end.

  Lemma GRT_bool b : GRT (GBool b).
  Proof. scalar_case b. res_cases S t. scalar_fin. Qed.
  Lemma GRT_i8 z : GRT (GI8 z).
  Proof. scalar_case z. res_cases S t. scalar_fin. Qed.
  Lemma GRT_i16 z : GRT (GI16 z).
  Proof. scalar_case z. res_cases S t. scalar_fin. Qed.
  Lemma GRT_i32 z : GRT (GI32 z).
  Proof. scalar_case z. res_cases S t. scalar_fin. Qed.
  Lemma GRT_i64 z : GRT (GI64 z).
  Proof. scalar_case z. res_cases S t. scalar_fin. Qed.
  Lemma GRT_double z : GRT (GDouble z).
  Proof. scalar_case z. res_cases S t. scalar_fin. Qed.
  Lemma GRT_bytes l : GRT (GBytes l).
  Proof. scalar_case l. res_cases S t; scalar_fin. Qed.
  Lemma GRT_uuid l : GRT (GUuid l).
  Proof. scalar_case l. res_cases S t. scalar_fin. Qed.
  Lemma GRT_enum z : GRT (GEnum z).
  Proof. scalar_case z. res_cases S t. decl_cases S n. scalar_fin. Qed.
  Lemma GRT_void : GRT GVoid.
  Proof. intros t Ht. discriminate. Qed.

  (* ----- container loops ----- *)
  Lemma tv_elems_map et l : tv_elems S et l = map (to_tval S et) l.
  Proof. induction l as [|x r IH]; cbn [tv_elems map]; [reflexivity|]. rewrite IH. reflexivity. Qed.

  Lemma g_elems_rt et l :
    Forall GRT l -> ht_elems S et l = true ->
    forall c, w_pend c = None ->
    exists ss, write_elems p k (tv_elems S et l) c = Ok (ss, c) /\ (length l <= length (flat ss))%nat /\
    forall f m r rcx acc, (forall x, In x l -> (vsize (to_tval S et x) <= f)%nat) -> (length l <= m)%nat -> idle rcx ->
      dec_elems (gen_decode S p f) m et (Z.of_nat (length l)) (mkS (flat ss ++ r) rcx) acc
      = Ok (rev acc ++ fd_elems S et l, mkS r rcx).
  Proof.
    induction l as [|x t IH]; intros HF Ht c Hp.
    - exists []. split; [reflexivity|]. split; [cbn; lia|].
      intros f m r rcx acc _ _ _. cbn [length Z.of_nat flat map concat app fd_elems].
      destruct m; cbn [dec_elems Z.leb Z.compare]; rewrite app_nil_r; reflexivity.
    - inversion HF as [|? ? Hx Hxs]; subst. cbn [ht_elems] in Ht. apply andb_prop in Ht as [Ht1 Ht2].
      destruct (Hx et Ht1 c Hp) as (s1 & Hw1 & Hr1).
      pose proof (wlen _ _ _ _ (to_tval_wt S Hwf _ _ Ht1) Hp Hw1) as Hl1.
      destruct (IH Hxs Ht2 c Hp) as (s2 & Hw2 & Hl2 & Hr2).
      exists (s1 ++ s2). split.
      { cbn [tv_elems].
        change (write_elems p k (to_tval S et x :: tv_elems S et t)) with
          (write_val p k (to_tval S et x) ;; write_elems p k (tv_elems S et t)).
        eapply wseq_ok; eauto. }
      split; [rewrite flat_app, app_length; cbn [length]; lia|].
      intros f m r rcx acc Hv Hm Hi.
      destruct m as [|m]; [cbn [length] in Hm; lia|].
      cbn [dec_elems].
      replace (Z.of_nat (length (x :: t)) <=? 0) with false by (cbn [length]; lia).
      rewrite flat_app, <- app_assoc.
      rewrite Hr1; [|apply Hv; left; reflexivity|exact Hi]. cbn [bind].
      replace (Z.of_nat (length (x :: t)) - 1) with (Z.of_nat (length t)) by (cbn [length]; lia).
      rewrite Hr2; [|intros y Hy; apply Hv; right; exact Hy|cbn [length] in Hm; lia|exact Hi].
      cbn [rev fd_elems]. rewrite <- app_assoc. reflexivity.
  Qed.

  Lemma g_pairs_rt kt vt l :
    Forall (fun q => GRT (fst q) /\ GRT (snd q)) l -> ht_pairs S kt vt l = true ->
    forall c, w_pend c = None ->
    exists ss, write_pairs p k (tv_pairs S kt vt l) c = Ok (ss, c) /\ (length l <= length (flat ss))%nat /\
    forall f m r rcx acc,
      (forall q, In q l -> (vsize (to_tval S kt (fst q)) <= f)%nat /\ (vsize (to_tval S vt (snd q)) <= f)%nat) ->
      (length l <= m)%nat -> idle rcx ->
      dec_pairs (gen_decode S p f) m kt vt (Z.of_nat (length l)) (mkS (flat ss ++ r) rcx) acc
      = Ok (rev acc ++ fd_pairs S kt vt l, mkS r rcx).
  Proof.
    induction l as [|[a b] t IH]; intros HF Ht c Hp.
    - exists []. split; [reflexivity|]. split; [cbn; lia|].
      intros f m r rcx acc _ _ _. cbn [length Z.of_nat flat map concat app fd_pairs].
      destruct m; cbn [dec_pairs Z.leb Z.compare]; rewrite app_nil_r; reflexivity.
    - inversion HF as [|? ? Hx Hxs]; subst. cbn [fst snd] in Hx. destruct Hx as [Ha Hb].
      cbn [ht_pairs] in Ht. apply andb_prop in Ht as [Ht Ht3]. apply andb_prop in Ht as [Ht1 Ht2].
      destruct (Ha kt Ht1 c Hp) as (s1 & Hw1 & Hr1).
      pose proof (wlen _ _ _ _ (to_tval_wt S Hwf _ _ Ht1) Hp Hw1) as Hl1.
      destruct (Hb vt Ht2 c Hp) as (s2 & Hw2 & Hr2).
      destruct (IH Hxs Ht3 c Hp) as (s3 & Hw3 & Hl3 & Hr3).
      exists ((s1 ++ s2) ++ s3). split.
      { cbn [tv_pairs].
        change (write_pairs p k ((to_tval S kt a, to_tval S vt b) :: tv_pairs S kt vt t)) with
          (write_val p k (to_tval S kt a) ;; write_val p k (to_tval S vt b) ;; write_pairs p k (tv_pairs S kt vt t)).
        eapply wseq_ok; [eapply wseq_ok|]; eauto. }
      split; [rewrite !flat_app, !app_length; cbn [length]; lia|].
      intros f m r rcx acc Hv Hm Hi.
      destruct m as [|m]; [cbn [length] in Hm; lia|].
      cbn [dec_pairs].
      replace (Z.of_nat (length ((a, b) :: t)) <=? 0) with false by (cbn [length]; lia).
      rewrite !flat_app, <- !app_assoc.
      destruct (Hv (a, b) (or_introl eq_refl)) as [Hva Hvb]. cbn [fst snd] in *.
      rewrite Hr1 by auto. cbn [bind]. rewrite Hr2 by auto. cbn [bind].
      replace (Z.of_nat (length ((a, b) :: t)) - 1) with (Z.of_nat (length t)) by (cbn [length]; lia).
      rewrite Hr3; [|intros y Hy; apply Hv; right; exact Hy|cbn [length] in Hm; lia|exact Hi].
      cbn [rev fd_pairs]. rewrite <- app_assoc. reflexivity.
  Qed.

  Lemma coll_core et l c :
    Forall GRT l -> ttype_ok S et = true -> len_ok (length l) = true -> ht_elems S et l = true -> w_pend c = None ->
    exists ss, (w_coll_begin p (ttype_of_ty S et) (Z.of_nat (length l)) ;; write_elems p k (tv_elems S et l)) c = Ok (ss, c) /\
    forall f r rcx, (forall x, In x l -> (vsize (to_tval S et x) <= f)%nat) -> (length l <= f)%nat -> idle rcx ->
      (let* (h, s) := r_coll_begin p (mkS (flat ss ++ r) rcx) in
       dec_elems (gen_decode S p f) (Datatypes.S f) et (snd h) s []) = Ok (fd_elems S et l, mkS r rcx).
  Proof.
    intros HF Hok Hlen Ht Hp. apply len_ok_bound in Hlen.
    destruct (w_coll_ok p (ttype_of_ty S et) (Z.of_nat (length l)) c Hok Hlen) as (s1 & Hw1 & Hr1).
    destruct (g_elems_rt et l HF Ht c Hp) as (s2 & Hw2 & Hl2 & Hr2).
    exists (s1 ++ s2). split; [eapply wseq_ok; eauto|].
    intros f r rcx Hv Hm Hi. rewrite flat_app, <- app_assoc.
    rewrite Hr1 by (rewrite app_length; lia). cbn [bind snd].
    rewrite Hr2; auto.
  Qed.

  Lemma snd_map_hdr_canon kt vt n : snd (map_hdr_canon p kt vt n) = n.
  Proof. unfold map_hdr_canon. destruct p; try reflexivity. destruct (Z.eqb_spec n 0); cbn [snd]; auto. Qed.

  Lemma map_core kt vt l c :
    Forall (fun q => GRT (fst q) /\ GRT (snd q)) l -> ttype_ok S kt = true -> ttype_ok S vt = true ->
    len_ok (length l) = true -> ht_pairs S kt vt l = true -> w_pend c = None ->
    exists ss, (w_map_begin p (ttype_of_ty S kt) (ttype_of_ty S vt) (Z.of_nat (length l)) ;;
                write_pairs p k (tv_pairs S kt vt l)) c = Ok (ss, c) /\
    forall f r rcx,
      (forall q, In q l -> (vsize (to_tval S kt (fst q)) <= f)%nat /\ (vsize (to_tval S vt (snd q)) <= f)%nat) ->
      (length l <= f)%nat -> idle rcx ->
      (let* (h, s) := r_map_begin p (mkS (flat ss ++ r) rcx) in
       dec_pairs (gen_decode S p f) (Datatypes.S f) kt vt (snd h) s []) = Ok (fd_pairs S kt vt l, mkS r rcx).
  Proof.
    intros HF Hk Hv Hlen Ht Hp. apply len_ok_bound in Hlen.
    destruct (w_map_ok p (ttype_of_ty S kt) (ttype_of_ty S vt) (Z.of_nat (length l)) c Hk Hv Hlen) as (s1 & Hw1 & Hr1).
    destruct (g_pairs_rt kt vt l HF Ht c Hp) as (s2 & Hw2 & Hl2 & Hr2).
    exists (s1 ++ s2). split; [eapply wseq_ok; eauto|].
    intros f r rcx Hvs Hm Hi. rewrite flat_app, <- app_assoc.
    rewrite Hr1 by (rewrite app_length; lia). cbn [bind]. rewrite snd_map_hdr_canon.
    rewrite Hr2; auto.
  Qed.

  Lemma GRT_list l : Forall GRT l -> GRT (GList l).
  Proof.
    intros HF t Ht c Hp. rewrite has_type_list in Ht. rewrite to_tval_list, fill_defaults_list.
    res_cases S t. apply andb_prop in Ht as [Ht He]. apply andb_prop in Ht as [Hok Hlen].
    destruct (coll_core et l c HF Hok Hlen He Hp) as (ss & Hw & Hr).
    exists ss. split.
    { change (write_val p k (VList (ttype_of_ty S et) (tv_elems S et l))) with
        (w_coll_begin p (ttype_of_ty S et) (Z.of_nat (length (tv_elems S et l))) ;; write_elems p k (tv_elems S et l)).
      rewrite tv_elems_length. exact Hw. }
    intros fuel r rcx Hf Hi. destruct fuel as [|f]; [pose proof (vsize_pos (VList (ttype_of_ty S et) (tv_elems S et l))); lia|].
    rewrite gen_decode_S, Eres.
    assert (H1 : forall x, In x l -> (vsize (to_tval S et x) <= f)%nat).
    { intros x Hx. assert (Hin : In (to_tval S et x) (tv_elems S et l)) by (rewrite tv_elems_map; apply in_map; exact Hx).
      pose proof (vsize_list_bound (ttype_of_ty S et) _ _ Hin). lia. }
    assert (H2 : (length l <= f)%nat).
    { pose proof (vsize_list_len (ttype_of_ty S et) (tv_elems S et l)) as Hb. rewrite tv_elems_length in Hb. lia. }
    specialize (Hr f r rcx H1 H2 Hi).
    destruct (r_coll_begin p (mkS (flat ss ++ r) rcx)) as [[h s1]| |]; cbn [bind] in *; try discriminate.
    rewrite Hr. reflexivity.
  Qed.

  Lemma GRT_set l : Forall GRT l -> GRT (GSet l).
  Proof.
    intros HF t Ht c Hp. rewrite has_type_set in Ht. rewrite to_tval_set, fill_defaults_set.
    res_cases S t. apply andb_prop in Ht as [Ht He]. apply andb_prop in Ht as [Hok Hlen].
    destruct (coll_core et l c HF Hok Hlen He Hp) as (ss & Hw & Hr).
    exists ss. split.
    { change (write_val p k (VSet (ttype_of_ty S et) (tv_elems S et l))) with
        (w_coll_begin p (ttype_of_ty S et) (Z.of_nat (length (tv_elems S et l))) ;; write_elems p k (tv_elems S et l)).
      rewrite tv_elems_length. exact Hw. }
    change (vsize (VSet (ttype_of_ty S et) (tv_elems S et l))) with (vsize (VList (ttype_of_ty S et) (tv_elems S et l))).
    intros fuel r rcx Hf Hi. destruct fuel as [|f]; [pose proof (vsize_pos (VList (ttype_of_ty S et) (tv_elems S et l))); lia|].
    rewrite gen_decode_S, Eres.
    assert (H1 : forall x, In x l -> (vsize (to_tval S et x) <= f)%nat).
    { intros x Hx. assert (Hin : In (to_tval S et x) (tv_elems S et l)) by (rewrite tv_elems_map; apply in_map; exact Hx).
      pose proof (vsize_list_bound (ttype_of_ty S et) _ _ Hin). lia. }
    assert (H2 : (length l <= f)%nat).
    { pose proof (vsize_list_len (ttype_of_ty S et) (tv_elems S et l)) as Hb. rewrite tv_elems_length in Hb. lia. }
    specialize (Hr f r rcx H1 H2 Hi).
    destruct (r_coll_begin p (mkS (flat ss ++ r) rcx)) as [[h s1]| |]; cbn [bind] in *; try discriminate.
    rewrite Hr. reflexivity.
  Qed.

  Lemma tv_pairs_in kt vt l a b : In (a, b) l -> In (to_tval S kt a, to_tval S vt b) (tv_pairs S kt vt l).
  Proof.
    induction l as [|[x y] r IH]; intros H; [destruct H|]. cbn [tv_pairs].
    destruct H as [E|H]; [injection E as -> ->; left; reflexivity|right; auto].
  Qed.

  Lemma GRT_map l : Forall (fun q => GRT (fst q) /\ GRT (snd q)) l -> GRT (GMap l).
  Proof.
    intros HF t Ht c Hp. rewrite has_type_map in Ht. rewrite to_tval_map, fill_defaults_map.
    res_cases S t. apply andb_prop in Ht as [Ht He]. apply andb_prop in Ht as [Ht Hlen].
    apply andb_prop in Ht as [Hk Hv].
    destruct (map_core kt vt l c HF Hk Hv Hlen He Hp) as (ss & Hw & Hr).
    exists ss. split.
    { change (write_val p k (VMap (ttype_of_ty S kt) (ttype_of_ty S vt) (tv_pairs S kt vt l))) with
        (w_map_begin p (ttype_of_ty S kt) (ttype_of_ty S vt) (Z.of_nat (length (tv_pairs S kt vt l))) ;;
         write_pairs p k (tv_pairs S kt vt l)).
      rewrite tv_pairs_length. exact Hw. }
    intros fuel r rcx Hf Hi.
    destruct fuel as [|f]; [pose proof (vsize_pos (VMap (ttype_of_ty S kt) (ttype_of_ty S vt) (tv_pairs S kt vt l))); lia|].
    rewrite gen_decode_S, Eres.
    assert (H1 : forall q, In q l -> (vsize (to_tval S kt (fst q)) <= f)%nat /\ (vsize (to_tval S vt (snd q)) <= f)%nat).
    { intros [a b] Hq.
      pose proof (vsize_map_bound (ttype_of_ty S kt) (ttype_of_ty S vt) _ _ (tv_pairs_in kt vt l a b Hq)) as Hb.
      cbn [fst snd] in *. lia. }
    assert (H2 : (length l <= f)%nat).
    { pose proof (vsize_map_len (ttype_of_ty S kt) (ttype_of_ty S vt) (tv_pairs S kt vt l)) as Hb.
      rewrite tv_pairs_length in Hb. lia. }
    specialize (Hr f r rcx H1 H2 Hi).
    destruct (r_map_begin p (mkS (flat ss ++ r) rcx)) as [[h s1]| |]; cbn [bind] in *; try discriminate.
    rewrite Hr. reflexivity.
  Qed.

  (* ----- one field: header, (header length on the reader), value ----- *)
  Lemma tbool_inv t x : ttype_of_ty S t = TBool -> has_type S t x = true ->
    exists b, x = GBool b /\ resolve S t = TyBool.
  Proof.
    intros Ety Ht. pose proof (to_tval_ttype S x t Ht) as E. rewrite Ety in E.
    destruct x; try discriminate E.
    - cbn [has_type] in Ht. res_cases S t. eauto.
    - rewrite to_tval_list in E. destruct (resolve S t); discriminate.
    - rewrite to_tval_set in E. destruct (resolve S t); discriminate.
    - rewrite to_tval_map in E. destruct (resolve S t); discriminate.
    - rewrite to_tval_struct in E. destruct (resolve S t); try discriminate.
      destruct (lookup S n) as [[]|]; discriminate.
    - rewrite to_tval_union in E. destruct (resolve S t); try discriminate.
      destruct (lookup S n) as [[]|]; try discriminate. destruct (find_variant vs id); try discriminate.
      destruct (is_void (resolve S t0)); discriminate.
  Qed.

  Lemma g_field_rt t id x : GRT x -> has_type S t x = true -> ttype_ok S t = true -> in_s 16 id ->
    forall c, w_pend c = None -> (p = PCompact -> in_s 16 (w_last c)) ->
    exists ss, (w_field_begin p (ttype_of_ty S t) id ;; write_val p k (to_tval S t x) ;; w_field_end p) c
               = Ok (ss, wlast_upd p id c) /\
    forall f r rcx, (vsize (to_tval S t x) <= f)%nat -> idle rcx -> (p = PCompact -> r_last rcx = w_last c) ->
      exists s1 n s2, r_field_begin p (mkS (flat ss ++ r) rcx) = Ok ((ttype_of_ty S t, Some id), s1) /\
        r_field_begin_len p (ttype_of_ty S t) (Some id) s1 = Ok (n, s2) /\
        gen_decode S p f t s2 = Ok (fill_defaults S t x, mkS r (rlast_upd p id rcx)).
  Proof.
    intros Hx Ht Hok Hid c Hp Hl.
    destruct (match p, ttype_of_ty S t with PCompact, TBool => true | _, _ => false end) eqn:Ecb.
    - (* compact bool: header and value share one byte *)
      destruct p; try discriminate. destruct (ttype_of_ty S t) eqn:Ety; try discriminate.
      destruct (tbool_inv _ _ Ety Ht) as (b & -> & Eres).
      cbn [to_tval write_val].
      destruct (w_boolfield_ok b id c Hid Hp (Hl eq_refl)) as (s1 & Hw1 & _ & Hr1).
      exists s1. split. { rewrite Hw1. cbn [wlast_upd]. rewrite Hp. reflexivity. }
      intros f r rcx Hf Hi Hlast.
      destruct (Hr1 r rcx (Hlast eq_refl) Hi) as (sx & Hfb & Hrb).
      exists sx, 0, (set_rc sx (mkR (r_last (rc sx)) (r_stack (rc sx)) (r_pbool (rc sx)) true)).
      split; [exact Hfb|]. split.
      + unfold r_field_begin_len. rewrite (r_field_begin_compact_pfield _ _ _ Hfb). reflexivity.
      + destruct f as [|f]; [cbn [vsize] in Hf; lia|]. rewrite gen_decode_S, Eres.
        rewrite r_bool_pfield, Hrb. cbn [bind fill_defaults rlast_upd].
        rewrite (proj1 Hi), (proj2 Hi). reflexivity.
    - assert (Hnb : p = PCompact -> ttype_of_ty S t <> TBool).
      { intros -> E. rewrite E in Ecb. discriminate. }
      assert (Hns : ttype_of_ty S t <> TStop).
      { unfold ttype_ok in Hok. intros E. rewrite E in Hok. discriminate. }
      destruct (w_field_ok p (ttype_of_ty S t) id c Hnb Hns Hok Hid Hp Hl) as (s1 & Hw1 & _ & Hr1).
      set (c1 := wlast_upd p id c) in *.
      assert (Hp1 : w_pend c1 = None) by (subst c1; destruct p; cbn [wlast_upd w_pend]; auto).
      destruct (Hx t Ht c1 Hp1) as (s2 & Hw2 & Hr2).
      exists ((s1 ++ s2) ++ []). split.
      { eapply wseq_ok; [eapply wseq_ok|]; eauto. apply w_field_end_ok; auto. }
      intros f r rcx Hf Hi Hlast. rewrite app_nil_r, flat_app, <- app_assoc.
      destruct (r_fbl_nonbool p (ttype_of_ty S t) id (mkS (flat s2 ++ r) (rlast_upd p id rcx)) Hnb Hok) as (n & Hn).
      exists (mkS (flat s2 ++ r) (rlast_upd p id rcx)), n, (mkS (flat s2 ++ r) (rlast_upd p id rcx)).
      split; [apply Hr1; auto; exact (proj2 Hi)|]. split; [exact Hn|].
      apply Hr2; auto. apply idle_rlast_upd. exact Hi.
  Qed.

  (* ----- struct fields ----- *)
  Definition FOK (dfs : list field) (q : Z * gval) : Prop :=
    exists f, find_field dfs (fst q) = Some f /\ field_ok S f = true /\ has_type S (f_ty f) (snd q) = true.

  Lemma ttype_ok_nonstop t : ttype_ok S t = true -> ttype_eqb (ttype_of_ty S t) TStop = false.
  Proof. unfold ttype_ok. destruct (ttype_of_ty S t); cbn; congruence. Qed.

  Lemma g_fields_rt dfs fs :
    Forall (fun q => GRT (snd q)) fs -> Forall (FOK dfs) fs ->
    forall c, w_pend c = None -> (p = PCompact -> in_s 16 (w_last c)) ->
    exists ss c', write_fields p k (tv_fields S dfs fs) c = Ok (ss, c') /\ w_pend c' = None /\
      w_stack c' = w_stack c /\ (p <> PCompact -> c' = c) /\
    forall f n r rcx vars,
      (forall id x g, In (id, x) fs -> find_field dfs id = Some g -> (vsize (to_tval S (f_ty g) x) <= f)%nat) ->
      (length fs < n)%nat -> idle rcx -> (p = PCompact -> r_last rcx = w_last c) ->
      dec_fields S p f (gen_decode S p f) n dfs vars (mkS (flat ss ++ x00 :: r) rcx)
      = Ok (apply_fields S dfs fs vars, mkS r (rlast_upd p (w_last c') rcx)).
  Proof.
    induction fs as [|[id x] t IH]; intros HF HK c Hp Hl.
    - exists [], c. split; [reflexivity|]. repeat split; auto.
      intros f n r rcx vars _ Hn Hi Hlast. destruct n as [|n]; [cbn in Hn; lia|].
      cbn [flat map concat app dec_fields apply_fields].
      destruct (proj2 (w_field_stop_ok p c Hp) r rcx (proj2 Hi)) as (oid & Hs). rewrite Hs. cbn [bind fst ttype_eqb].
      rewrite r_field_stop_len_idle by exact Hi. cbn [bind]. f_equal. f_equal. f_equal.
      destruct p; cbn [rlast_upd]; auto. rewrite <- (Hlast eq_refl). symmetry. apply rctx_eta.
    - inversion HF as [|? ? Hx Hxs]; subst. inversion HK as [|? ? (g & Hg & Hok & Hty) HKs]; subst.
      cbn [fst snd] in *.
      destruct (field_ok_inv _ _ Hok) as (Hidg & Hto & _ & _). destruct (find_field_in _ _ _ Hg) as [_ Eid].
      rewrite Eid in Hidg.
      destruct (g_field_rt (f_ty g) id x Hx Hty Hto Hidg c Hp Hl) as (s1 & Hw1 & Hr1).
      set (c1 := wlast_upd p id c) in *.
      assert (Hp1 : w_pend c1 = None) by (subst c1; destruct p; cbn [wlast_upd w_pend]; auto).
      assert (Hl1 : p = PCompact -> in_s 16 (w_last c1)) by (intros ->; subst c1; cbn; exact Hidg).
      destruct (IH Hxs HKs c1 Hp1 Hl1) as (s2 & c2 & Hw2 & Hp2 & Hst2 & Hnc2 & Hr2).
      exists (s1 ++ s2), c2. split.
      { rewrite tv_fields_cons, Hg.
        change (write_fields p k ((id, to_tval S (f_ty g) x) :: tv_fields S dfs t)) with
          (w_field_begin p (ttype_of (to_tval S (f_ty g) x)) id ;; write_val p k (to_tval S (f_ty g) x) ;;
           w_field_end p ;; write_fields p k (tv_fields S dfs t)).
        rewrite (to_tval_ttype S _ _ Hty). eapply wseq_ok; eauto. }
      split; [exact Hp2|]. split.
      { rewrite Hst2. subst c1. destruct p; reflexivity. }
      split.
      { intros Hpc. rewrite (Hnc2 Hpc). subst c1. destruct p; try congruence; reflexivity. }
      intros f n r rcx vars Hv Hn Hi Hlast.
      destruct n as [|n]; [cbn in Hn; lia|]. cbn [dec_fields].
      rewrite flat_app, <- app_assoc.
      destruct (Hr1 f (flat s2 ++ x00 :: r) rcx (Hv id x g (or_introl eq_refl) Hg) Hi Hlast)
        as (sx & nn & sy & Hfb & Hfbl & Hdec).
      rewrite Hfb. cbn [bind fst snd]. rewrite (ttype_ok_nonstop _ Hto).
      rewrite Hfbl. cbn [bind]. rewrite (match_field_found S dfs O id g Hg). rewrite Hdec. cbn [bind].
      rewrite r_field_end_len_idle by (apply idle_rlast_upd; exact Hi). cbn [bind].
      rewrite Hr2.
      + cbn [apply_fields]. rewrite Hg. cbn [Nat.add]. f_equal. f_equal. f_equal. destruct p; reflexivity.
      + intros id' x' g' Hin Hg'. apply (Hv id' x' g'); [right; exact Hin|exact Hg'].
      + cbn [length] in Hn. lia.
      + apply idle_rlast_upd; exact Hi.
      + intros ->. subst c1. reflexivity.
  Qed.

  (* ----- struct begin / end frame ----- *)
  Notation wc1 := (wc1_ p).
  Notation rc1 := (rc1_ p).

  Lemma frame_write (body : wm) c s2 c2 :
    w_pend c = None -> body (wc1 c) = Ok (s2, c2) -> w_pend c2 = None -> w_stack c2 = w_stack (wc1 c) ->
    (p <> PCompact -> c2 = wc1 c) ->
    (w_struct_begin p ;; body ;; w_field_stop p ;; w_struct_end p) c = Ok ((([] ++ s2) ++ [Copy [x00]]) ++ [], c).
  Proof.
    intros Hp Hb Hp2 Hst2 Hnc2. unfold wc1_ in *.
    assert (Hbeg : w_struct_begin p c = Ok ([], match p with PCompact => mkW 0 (w_last c :: w_stack c) None | _ => c end)).
    { destruct p; cbn [w_struct_begin]; try reflexivity. rewrite Hp. reflexivity. }
    destruct (w_field_stop_ok p c2 Hp2) as [Hstop _].
    assert (He : w_struct_end p c2 = Ok ([], c)).
    { destruct p eqn:Ep; cbn [w_struct_end].
      - rewrite (Hnc2 ltac:(discriminate)). reflexivity.
      - rewrite (Hnc2 ltac:(discriminate)). reflexivity.
      - rewrite Hp2, Hst2. cbn [w_stack]. rewrite wctx_eta by auto. reflexivity. }
    eapply wseq_ok; [eapply wseq_ok; [eapply wseq_ok|]|]; eauto.
  Qed.

  Lemma wc1_pend c : w_pend c = None -> w_pend (wc1 c) = None.
  Proof. unfold wc1_. destruct p; auto. Qed.
  Lemma wc1_last c : p = PCompact -> in_s 16 (w_last (wc1 c)).
  Proof. intros ->. apply in_s16_0. Qed.
  Lemma rc1_idle rcx : idle rcx -> idle (rc1 rcx).
  Proof. unfold rc1_. destruct p; auto. Qed.
  Lemma rc1_last c rcx : p = PCompact -> r_last (rc1 rcx) = w_last (wc1 c).
  Proof. intros ->. reflexivity. Qed.
  Lemma frame_rbegin b rcx : r_struct_begin p (mkS b rcx) = Ok (tt, mkS b (rc1 rcx)).
  Proof. unfold rc1_. destruct p; reflexivity. Qed.
  Lemma frame_rend r l rcx : r_struct_end p (mkS r (rlast_upd p l (rc1 rcx))) = Ok (tt, mkS r rcx).
  Proof.
    unfold rc1_. destruct p; cbn [r_struct_end rlast_upd]; try reflexivity.
    unfold set_rc. cbn [rc rbuf r_stack r_pbool r_pfield]. rewrite rctx_eta. reflexivity.
  Qed.

  Lemma tv_fields_length dfs fs : Forall (FOK dfs) fs -> length (tv_fields S dfs fs) = length fs.
  Proof.
    induction fs as [|[id x] r IH]; intros H; [reflexivity|].
    inversion H as [|? ? (g & Hg & _) Hr]; subst. cbn [fst] in Hg.
    rewrite tv_fields_cons, Hg. cbn [length]. rewrite IH; auto.
  Qed.
  Lemma tv_fields_in dfs fs id x g : In (id, x) fs -> find_field dfs id = Some g ->
    In (id, to_tval S (f_ty g) x) (tv_fields S dfs fs).
  Proof.
    induction fs as [|[i y] r IH]; intros Hin Hg; [destruct Hin|].
    rewrite tv_fields_cons. destruct Hin as [E|Hin].
    - injection E as -> ->. rewrite Hg. left. reflexivity.
    - destruct (find_field dfs i); [right|]; auto.
  Qed.

  Lemma GRT_struct fs unk : Forall (fun q => GRT (snd q)) fs -> GRT (GStruct fs unk).
  Proof.
    intros HF t Ht c Hp. rewrite has_type_struct in Ht. destruct unk; [|discriminate].
    rewrite to_tval_struct, fill_defaults_struct. res_cases S t. decl_cases S n.
    pose proof (ht_struct_inv S Hwf _ _ _ _ _ Elk Ht) as HK.
    destruct (wf_struct S Hwf _ _ _ _ Elk) as [Hnd _].
    destruct (g_fields_rt dfs fs HF HK (wc1 c) (wc1_pend c Hp) (wc1_last c)) as (s2 & c2 & Hw2 & Hp2 & Hst2 & Hnc2 & Hr2).
    eexists. split.
    { change (write_val p k (VStruct (tv_fields S dfs fs))) with
        (w_struct_begin p ;; write_fields p k (tv_fields S dfs fs) ;; w_field_stop p ;; w_struct_end p).
      eapply frame_write; eauto. }
    cbn [app]. rewrite app_nil_r.
    intros fuel r rcx Hf Hi.
    destruct fuel as [|f]; [pose proof (vsize_pos (VStruct (tv_fields S dfs fs))); lia|].
    rewrite gen_decode_S, Eres, Elk. rewrite flat_app, flat_copy, <- app_assoc. cbn [app].
    rewrite frame_rbegin. cbn [bind].
    rewrite Hr2.
    - cbn [bind]. rewrite frame_rend. cbn [bind].
      rewrite (finish_apply_top S dfs fs Hnd Ht). reflexivity.
    - intros id x g Hin Hg. pose proof (tv_fields_in dfs fs id x g Hin Hg) as Hin'.
      destruct (vsize_struct_bound _ _ Hin') as [Hb _]. cbn [snd] in Hb. lia.
    - pose proof (vsize_struct_len (tv_fields S dfs fs)) as Hb. rewrite tv_fields_length in Hb by exact HK. lia.
    - apply rc1_idle; exact Hi.
    - apply rc1_last.
  Qed.

  (* ----- unions ----- *)
  Lemma void_variant_first n vs vok kp id vt :
    lookup S n = Some (DUnion vs vok kp) -> find_variant vs id = Some vt -> is_void (resolve S vt) = true ->
    vok = true /\ exists t0 r, vs = (id, t0) :: r.
  Proof.
    intros Hl Hv Hvoid. apply (wf_lookup S Hwf) in Hl. cbn [decl_ok] in Hl.
    apply andb_prop in Hl as [_ Hl]. destruct vs as [|[i0 t0] r]; [discriminate|].
    apply andb_prop in Hl as [Hl _]. apply andb_prop in Hl as [Hvok Hr].
    cbn [find_variant] in Hv. destruct (Z.eqb_spec i0 id) as [->|Hne].
    - injection Hv as ->. rewrite Hvoid in Hvok. destruct vok; [|discriminate]. eauto.
    - apply find_variant_in in Hv. rewrite forallb_forall in Hr. specialize (Hr _ Hv). cbn in Hr.
      apply ttype_ok_nonvoid in Hr. congruence.
  Qed.

  Lemma GRT_union id x : GRT x -> GRT (GUnion id x).
  Proof.
    intros Hx t Ht c Hp. rewrite has_type_union in Ht. rewrite to_tval_union, fill_defaults_union.
    res_cases S t. decl_cases S n. destruct (find_variant vs id) as [vt|] eqn:Ev; [|discriminate].
    destruct (is_void (resolve S vt)) eqn:Evoid.
    - (* void variant: the empty struct *)
      destruct x; try discriminate.
      destruct (void_variant_first _ _ _ _ _ _ Elk Ev Evoid) as (-> & t0 & rest & ->).
      eexists. split.
      { change (write_val p k (VStruct [])) with (w_struct_begin p ;; wnop ;; w_field_stop p ;; w_struct_end p).
        exact (frame_write wnop c [] (wc1 c) Hp eq_refl (wc1_pend c Hp) eq_refl (fun _ => eq_refl)). }
      cbn [app]. intros fuel r rcx Hf Hi.
      destruct fuel as [|f]; [cbn [vsize] in Hf; lia|].
      rewrite gen_decode_S, Eres, Elk. rewrite flat_copy. cbn [app].
      rewrite frame_rbegin. cbn [bind dec_variants].
      destruct (proj2 (w_field_stop_ok p c Hp) r (rc1 rcx) (proj2 (rc1_idle _ Hi))) as (oid & Hs). rewrite Hs. cbn [bind fst ttype_eqb].
      rewrite r_field_stop_len_idle by (apply rc1_idle; exact Hi). cbn [bind].
      assert (Hre : r_struct_end p (mkS r (rc1 rcx)) = Ok (tt, mkS r rcx)).
      { pose proof (frame_rend r (r_last (rc1 rcx)) rcx) as E.
        replace (rlast_upd p (r_last (rc1 rcx)) (rc1 rcx)) with (rc1 rcx) in E; [exact E|].
        destruct p; cbn [rlast_upd]; auto; symmetry; apply rctx_eta. }
      rewrite Hre. cbn [bind fill_defaults]. reflexivity.
    - (* one field *)
      pose proof (find_variant_in _ _ _ Ev) as Hin.
      pose proof (wf_variant_ok S Hwf _ _ _ _ _ _ Elk Hin Evoid) as Hto.
      pose proof (wf_variant S Hwf _ _ _ _ _ _ Elk Ev) as Hid.
      destruct (g_field_rt vt id x Hx Ht Hto Hid (wc1 c) (wc1_pend c Hp) (wc1_last c)) as (s1 & Hw1 & Hr1).
      eexists. split.
      { change (write_val p k (VStruct [(id, to_tval S vt x)])) with
          (w_struct_begin p ;;
           (w_field_begin p (ttype_of (to_tval S vt x)) id ;; write_val p k (to_tval S vt x) ;; w_field_end p ;; wnop) ;;
           w_field_stop p ;; w_struct_end p).
        rewrite (to_tval_ttype S _ _ Ht).
        eapply frame_write; [exact Hp|eapply wseq_ok; [exact Hw1|reflexivity]| | |].
        - destruct p; cbn [wlast_upd w_pend]; auto using wc1_pend.
        - destruct p; reflexivity.
        - intros Hpc. destruct p; try congruence; reflexivity. }
      cbn [app]. rewrite !app_nil_r.
      intros fuel r rcx Hf Hi.
      destruct fuel as [|f]; [cbn [vsize] in Hf; lia|].
      destruct f as [|f]; [cbn [vsize] in Hf; lia|].
      rewrite gen_decode_S, Eres, Elk. rewrite flat_app, flat_copy, <- app_assoc. cbn [app].
      rewrite frame_rbegin. cbn [bind]. cbn [dec_variants].
      assert (Hsz : (vsize (to_tval S vt x) <= Datatypes.S f)%nat) by (cbn [vsize] in Hf; lia).
      destruct (Hr1 (Datatypes.S f) (x00 :: r) (rc1 rcx) Hsz (rc1_idle _ Hi) (rc1_last c rcx))
        as (sx & nn & sy & Hfb & Hfbl & Hdec).
      rewrite Hfb. cbn [bind fst snd]. rewrite (ttype_ok_nonstop _ Hto). rewrite Hfbl. cbn [bind].
      rewrite Ev, Evoid. rewrite Hdec. cbn [bind].
      destruct (proj2 (w_field_stop_ok p c Hp) r (rlast_upd p id (rc1 rcx)) (proj2 (idle_rlast_upd _ _ _ (rc1_idle _ Hi)))) as (oid & Hs). rewrite Hs.
      cbn [bind fst ttype_eqb].
      rewrite r_field_stop_len_idle by (apply idle_rlast_upd, rc1_idle; exact Hi). cbn [bind].
      rewrite frame_rend. cbn [bind]. reflexivity.
  Qed.

  Lemma GRT_unk u : GRT (GUnionUnknown u).
  Proof. intros t Ht. discriminate. Qed.

  Theorem GRT_all v : GRT v.
  Proof.
    induction v using gval_ind'.
    - apply GRT_bool. - apply GRT_i8. - apply GRT_i16. - apply GRT_i32. - apply GRT_i64.
    - apply GRT_double. - apply GRT_bytes. - apply GRT_uuid. - apply GRT_void. - apply GRT_enum.
    - apply GRT_list; auto. - apply GRT_set; auto. - apply GRT_map; auto.
    - apply GRT_struct; auto. - apply GRT_union; auto. - apply GRT_unk.
  Qed.
End Round.

(* ---------- C02 ---------- *)
Theorem gen_roundtrip : forall S p k t v,
  wf_schema S = true -> has_type S t v = true ->
  forall c, w_pend c = None ->
  exists ss, enc_ty S p k t v c = Ok (ss, c) /\
    forall fuel r rcx, (vsize (to_tval S t v) <= fuel)%nat -> idle rcx ->
      gen_decode S p fuel t (mkS (flat ss ++ r) rcx) = Ok (fill_defaults S t v, mkS r rcx).
Proof.
  intros S p k t v Hwf Ht c Hp.
  destruct (GRT_all S Hwf p k v t Ht c Hp) as (ss & Hw & Hr).
  exists ss. split; [rewrite (enc_as_tval S Hwf p k v t Ht); exact Hw|exact Hr].
Qed.

(* the same on fresh protocol objects and a complete buffer *)
Corollary gen_roundtrip_fresh : forall S p k t v b,
  wf_schema S = true -> has_type S t v = true -> gen_encode S p k t v = Ok b ->
  forall fuel, (vsize (to_tval S t v) <= fuel)%nat ->
    gen_decode S p fuel t (mkS b r0) = Ok (fill_defaults S t v, mkS [] r0).
Proof.
  intros S p k t v b Hwf Ht He fuel Hf.
  destruct (gen_roundtrip S p k t v Hwf Ht w0 eq_refl) as (ss & Hw & Hr).
  unfold gen_encode in He. rewrite Hw in He. cbn [bind] in He. injection He as <-.
  specialize (Hr fuel [] r0 Hf idle_r0). rewrite app_nil_r in Hr. exact Hr.
Qed.

(* ---------- non-vacuity ---------- *)
From PVGen Require Import Proofs.SizeP.

Example gen_roundtrip_nonvacuous :
  wf_schema S0 = true /\ has_type S0 (TyRef 1) v0 = true /\
  fill_defaults S0 (TyRef 1) v0
    = GStruct [(1, GBool true); (2, GI32 7); (5, GList [GBytes [x61]; GBytes []])] [] /\
  (forall p, exists b, gen_encode S0 p BContig (TyRef 1) v0 = Ok b /\
     gen_decode_top S0 p (TyRef 1) b = Ok (fill_defaults S0 (TyRef 1) v0, [])) /\
  wf_schema S1 = true /\ has_type S1 (TyRef 2) v1 = true /\
  (forall p, exists b, gen_encode S1 p (BLinked true) (TyRef 2) v1 = Ok b /\
     gen_decode_top S1 p (TyRef 2) b = Ok (fill_defaults S1 (TyRef 2) v1, [])).
Proof.
  split; [vm_compute; reflexivity|]. split; [vm_compute; reflexivity|]. split; [vm_compute; reflexivity|].
  split; [intros p; destruct p; (eexists; split; [vm_compute; reflexivity|]); vm_compute; reflexivity|].
  split; [vm_compute; reflexivity|]. split; [vm_compute; reflexivity|].
  intros p; destruct p; (eexists; split; [vm_compute; reflexivity|]); vm_compute; reflexivity.
Qed.
