(* C13, "retention never changes how known fields decode": the specification of the keep build, stripped of the
   retained chunks, IS the specification of the plain build (rmap strip . viewk = view) wherever no keeping union
   consists of fields the reader ignores; decoded values have 16-byte uuids (the side condition of keep_size_exact).
   Pure reasoning about KeepSpec.v / EvoSpec.v. *)
From PVGen Require Import Gen GenKeep GenSpec EvoSpec KeepSpec Proofs.GenBase Proofs.EncP Proofs.EvoBase Proofs.KeepBase.
From PV Require Import Proofs.TablesP Proofs.PrimP Proofs.HeaderP Proofs.RoundtripP.
From Coq Require Import ZifyN ZifyNat ZifyBool.
Open Scope Z_scope.

(* ---------- names for unions_single ---------- *)
Section USNames.
  Variable S : schema.
  Definition us_elems (et : ty) : list tval -> bool :=
    fix go (l : list tval) : bool := match l with [] => true | x :: r => unions_single S et x && go r end.
  Definition us_pairs (kt vt : ty) : list (tval * tval) -> bool :=
    fix go (l : list (tval * tval)) : bool :=
      match l with [] => true | (a, b) :: r => unions_single S kt a && unions_single S vt b && go r end.
  Definition us_field (dfs : list field) (id : Z) (x : tval) : bool :=
    match match_field S dfs O (Some id) (ttype_of x) with Some (_, f) => unions_single S (f_ty f) x | None => true end.
  Definition us_fields (dfs : list field) : list (Z * tval) -> bool :=
    fix go (fs : list (Z * tval)) : bool := match fs with [] => true | (id, x) :: r => us_field dfs id x && go r end.
  Definition us_variant (vs : list (Z * ty)) (id : Z) (x : tval) : bool :=
    match variant_by_id S vs id with Some vt => unions_single S vt x | None => true end.
  Definition us_variants (vs : list (Z * ty)) : list (Z * tval) -> bool :=
    fix go (fs : list (Z * tval)) : bool := match fs with [] => true | (id, x) :: r => us_variant vs id x && go r end.

  Lemma us_list t a l : unions_single S t (VList a l) = match resolve S t with TyList et => us_elems et l | _ => true end.
  Proof. reflexivity. Qed.
  Lemma us_set t a l : unions_single S t (VSet a l) = match resolve S t with TySet et => us_elems et l | _ => true end.
  Proof. reflexivity. Qed.
  Lemma us_map t ka va l : unions_single S t (VMap ka va l) =
    match resolve S t with TyMap kt vt => us_pairs kt vt l | _ => true end.
  Proof. reflexivity. Qed.
  Lemma us_struct t fs : unions_single S t (VStruct fs) =
    match resolve S t with
    | TyRef n =>
        match lookup S n with
        | Some (DStruct dfs _ _) => us_fields dfs fs
        | Some (DUnion vs _ true) =>
            match fs with
            | [] => true
            | [(id, x)] => match variant_by_id S vs id with Some vt => unions_single S vt x | None => false end
            | _ => false
            end
        | Some (DUnion vs _ false) => us_variants vs fs
        | _ => true
        end
    | _ => true
    end.
  Proof. reflexivity. Qed.
End USNames.

(* ---------- values typed by the schema carry no chunks and well-formed uuids ---------- *)
Section Typed.
  Variable S : schema.
  Hypothesis Hwf : wf_schema S = true.

  Lemma has_type_strip v : forall t, has_type S t v = true -> strip v = v.
  Proof.
    induction v using gval_ind'; intros t Ht; try reflexivity.
    - rewrite has_type_list in Ht. res_cases S t. apply andb_prop in Ht as [_ He]. cbn [strip]. f_equal.
      induction l as [|x r IHr]; [reflexivity|]. inversion H as [|? ? Hx Hr]; subst.
      cbn [ht_elems] in He. apply andb_prop in He as [He1 He2]. cbn [map]. rewrite (Hx _ He1), IHr; auto.
    - rewrite has_type_set in Ht. res_cases S t. apply andb_prop in Ht as [_ He]. cbn [strip]. f_equal.
      induction l as [|x r IHr]; [reflexivity|]. inversion H as [|? ? Hx Hr]; subst.
      cbn [ht_elems] in He. apply andb_prop in He as [He1 He2]. cbn [map]. rewrite (Hx _ He1), IHr; auto.
    - rewrite has_type_map in Ht. res_cases S t. apply andb_prop in Ht as [_ He]. cbn [strip]. f_equal.
      induction l as [|[a b] r IHr]; [reflexivity|]. inversion H as [|? ? [Ha Hb] Hr]; subst. cbn [fst snd] in *.
      cbn [ht_pairs] in He. apply andb_prop in He as [He He3]. apply andb_prop in He as [He1 He2].
      cbn [map fst snd]. rewrite (Ha _ He1), (Hb _ He2), IHr; auto.
    - rewrite has_type_struct in Ht. destruct unk; [|discriminate]. res_cases S t. decl_cases S n.
      pose proof (ht_struct_inv S Hwf _ _ _ _ _ Elk Ht) as HF. clear Ht. cbn [strip]. f_equal.
      induction fs as [|[id x] r IHr]; [reflexivity|]. inversion H as [|? ? Hx Hr]; subst.
      inversion HF as [|? ? (f & _ & _ & Hty) HFr]; subst. cbn [fst snd] in *.
      cbn [map fst snd]. rewrite (Hx _ Hty), IHr; auto.
    - rewrite has_type_union in Ht. res_cases S t. decl_cases S n.
      destruct (find_variant vs id) as [vt|]; [|discriminate]. cbn [strip]. f_equal.
      destruct (is_void (resolve S vt)); [destruct v; try discriminate; reflexivity|eauto].
  Qed.

  Lemma has_type_uuids v : forall t, has_type S t v = true -> uuids_ok v = true.
  Proof.
    induction v using gval_ind'; intros t Ht; try reflexivity.
    - cbn [has_type] in Ht. res_cases S t. exact Ht.
    - rewrite has_type_list in Ht. res_cases S t. apply andb_prop in Ht as [_ He]. cbn [uuids_ok].
      induction l as [|x r IHr]; [reflexivity|]. inversion H as [|? ? Hx Hr]; subst.
      cbn [ht_elems] in He. apply andb_prop in He as [He1 He2]. cbn [forallb]. rewrite (Hx _ He1), IHr; auto.
    - rewrite has_type_set in Ht. res_cases S t. apply andb_prop in Ht as [_ He]. cbn [uuids_ok].
      induction l as [|x r IHr]; [reflexivity|]. inversion H as [|? ? Hx Hr]; subst.
      cbn [ht_elems] in He. apply andb_prop in He as [He1 He2]. cbn [forallb]. rewrite (Hx _ He1), IHr; auto.
    - rewrite has_type_map in Ht. res_cases S t. apply andb_prop in Ht as [_ He]. cbn [uuids_ok].
      induction l as [|[a b] r IHr]; [reflexivity|]. inversion H as [|? ? [Ha Hb] Hr]; subst. cbn [fst snd] in *.
      cbn [ht_pairs] in He. apply andb_prop in He as [He He3]. apply andb_prop in He as [He1 He2].
      cbn [forallb fst snd]. rewrite (Ha _ He1), (Hb _ He2), IHr; auto.
    - rewrite has_type_struct in Ht. destruct unk; [|discriminate]. res_cases S t. decl_cases S n.
      pose proof (ht_struct_inv S Hwf _ _ _ _ _ Elk Ht) as HF. clear Ht. cbn [uuids_ok].
      induction fs as [|[id x] r IHr]; [reflexivity|]. inversion H as [|? ? Hx Hr]; subst.
      inversion HF as [|? ? (f & _ & _ & Hty) HFr]; subst. cbn [fst snd] in *.
      cbn [forallb snd]. rewrite (Hx _ Hty), IHr; auto.
    - rewrite has_type_union in Ht. res_cases S t. decl_cases S n.
      destruct (find_variant vs id) as [vt|]; [|discriminate]. cbn [uuids_ok].
      destruct (is_void (resolve S vt)); [destruct v; try discriminate; reflexivity|eauto].
  Qed.

  Lemma default_typed n dfs kp ia f b d : lookup S n = Some (DStruct dfs kp ia) -> In f dfs -> f_dflt f = Some (b, d) ->
    has_type S (f_ty f) d = true.
  Proof.
    intros Hl Hin Hd. destruct (wf_struct S Hwf _ _ _ _ Hl) as [_ Hok].
    destruct (field_ok_inv _ _ (Hok f Hin)) as (_ & _ & _ & H). rewrite Hd in H. exact H.
  Qed.
End Typed.

(* ---------- set_nth and maps ---------- *)
Lemma set_nth_map {A B} (g : A -> B) x : forall n l, set_nth n (g x) (map g l) = map g (set_nth n x l).
Proof. induction n as [|n IH]; intros [|h t]; cbn [set_nth map]; auto. rewrite IH. reflexivity. Qed.

Lemma set_nth_Forall {A} (P : A -> Prop) x : P x -> forall n l, Forall P l -> Forall P (set_nth n x l).
Proof.
  intros Hx. induction n as [|n IH]; intros [|h t] HF; cbn [set_nth]; auto; inversion HF; subst; constructor; auto.
Qed.

Definition osm (o : option gval) : option gval := option_map strip o.
Definition sp (q : Z * gval) : Z * gval := (fst q, strip (snd q)).
Definition spp (q : gval * gval) : gval * gval := (strip (fst q), strip (snd q)).

Section Strip.
  Variable S : schema.
  Hypothesis Hwf : wf_schema S = true.
  Variable p : pk.
  Variable k : bk.
  Variable c : wctx.

  Notation VK := (viewk S p k c).

  Definition VS (v : tval) : Prop :=
    forall t, no_retyped_variant S t v = true -> unions_single S t v = true -> view S t v = rmap strip (VK t v).

  Lemma vs_elems et l : Forall VS l ->
    walk_elems S (fun _ => true) false et l = true -> us_elems S et l = true ->
    view_elems S et l = rmap (map strip) (viewk_elems S p k c et l).
  Proof.
    induction l as [|x r IH]; intros HF Hw Hu; [reflexivity|]. inversion HF as [|? ? Hx Hr]; subst.
    rewrite walk_elems_cons in Hw. apply andb_prop in Hw as [Hw1 Hw2].
    cbn [us_elems] in Hu. apply andb_prop in Hu as [Hu1 Hu2].
    rewrite view_elems_cons, viewk_elems_cons, (Hx et Hw1 Hu1), (IH Hr Hw2 Hu2). unfold rmap.
    destruct (VK et x); cbn [bind]; try reflexivity. destruct (viewk_elems S p k c et r); reflexivity.
  Qed.

  Lemma vs_pairs kt vt l : Forall (fun q => VS (fst q) /\ VS (snd q)) l ->
    walk_pairs S (fun _ => true) false kt vt l = true -> us_pairs S kt vt l = true ->
    view_pairs S kt vt l = rmap (map spp) (viewk_pairs S p k c kt vt l).
  Proof.
    induction l as [|[a b] r IH]; intros HF Hw Hu; [reflexivity|]. inversion HF as [|? ? [Ha Hb] Hr]; subst. cbn [fst snd] in *.
    rewrite walk_pairs_cons in Hw. apply andb_prop in Hw as [Hw Hw3]. apply andb_prop in Hw as [Hw1 Hw2].
    cbn [us_pairs] in Hu. apply andb_prop in Hu as [Hu Hu3]. apply andb_prop in Hu as [Hu1 Hu2].
    rewrite view_pairs_cons, viewk_pairs_cons, (Ha kt Hw1 Hu1), (Hb vt Hw2 Hu2), (IH Hr Hw3 Hu3). unfold rmap.
    destruct (VK kt a); cbn [bind]; try reflexivity. destruct (VK vt b); cbn [bind]; try reflexivity.
    destruct (viewk_pairs S p k c kt vt r); reflexivity.
  Qed.

  Lemma vs_fields dfs keep fs : Forall (fun q => VS (snd q)) fs ->
    walk_fields S (fun _ => true) false dfs fs = true -> us_fields S dfs fs = true ->
    forall vars unk,
      view_fields S dfs fs (map osm vars) = rmap (fun r => map osm (fst r)) (viewk_fields S p k c dfs keep fs vars unk).
  Proof.
    induction fs as [|[id x] r IH]; intros HF Hw Hu vars unk; [reflexivity|]. inversion HF as [|? ? Hx Hr]; subst. cbn [snd] in Hx.
    rewrite walk_fields_cons in Hw. apply andb_prop in Hw as [Hw1 Hw2]. unfold walk_field in Hw1.
    cbn [us_fields] in Hu. apply andb_prop in Hu as [Hu1 Hu2]. unfold us_field in Hu1.
    rewrite view_fields_cons, viewk_fields_cons.
    destruct (match_field S dfs 0 (Some id) (ttype_of x)) as [[i fl]|]; [|apply IH; auto].
    rewrite (Hx _ Hw1 Hu1). unfold rmap at 1. destruct (VK (f_ty fl) x) as [y|e|q]; cbn [bind]; try reflexivity.
    change (Some (strip y)) with (osm (Some y)). rewrite set_nth_map. apply IH; auto.
  Qed.

  Lemma finish_strip dfs : (forall f b d, In f dfs -> f_dflt f = Some (b, d) -> strip d = d) ->
    forall vars, finish_fields dfs (map osm vars) = rmap (map sp) (finish_fields dfs vars).
  Proof.
    induction dfs as [|f r IH]; intros Hd vars; [reflexivity|].
    destruct vars as [|v vt]; [reflexivity|]. cbn [map finish_fields].
    rewrite (IH (fun g b d Hg => Hd g b d (or_intror Hg)) vt). unfold rmap.
    destruct (finish_fields r vt) as [rest|e|q]; cbn [bind]; try reflexivity.
    destruct v as [x|]; cbn [osm option_map]; [reflexivity|].
    destruct (f_dflt f) as [[b d]|] eqn:Ed; [|destruct (f_req f); reflexivity].
    cbn [bind map]. f_equal. f_equal. unfold sp. cbn [fst snd]. rewrite (Hd f b d (or_introl eq_refl) Ed). reflexivity.
  Qed.

  Lemma init_strip dfs : (forall f b d, In f dfs -> f_dflt f = Some (b, d) -> strip d = d) ->
    map osm (map init_var dfs) = map init_var dfs.
  Proof.
    induction dfs as [|f r IH]; intros Hd; [reflexivity|]. cbn [map]. rewrite (IH (fun g b d Hg => Hd g b d (or_intror Hg))).
    f_equal. unfold init_var. destruct (f_dflt f) as [[[|] d]|] eqn:Ed; try reflexivity.
    cbn [osm option_map]. rewrite (Hd f true d (or_introl eq_refl) Ed). reflexivity.
  Qed.

  (* under no_retyped_variant, "known by id" and "known by id and wire type" coincide *)
  Lemma by_id_known vs id x : walk_variant S (fun _ => true) false vs id x = true ->
    known_variant S vs id (ttype_of x) = variant_by_id S vs id.
  Proof.
    unfold walk_variant, known_variant, variant_by_id. destruct (find_variant vs id) as [vt|]; [|reflexivity].
    destruct (is_void (resolve S vt)); [reflexivity|].
    destruct (ttype_eqb (ttype_of_ty S vt) (ttype_of x)); [reflexivity|discriminate].
  Qed.

  Lemma variant_walk2 vs id x vt : walk_variant S (fun _ => true) false vs id x = true ->
    variant_by_id S vs id = Some vt -> no_retyped_variant S vt x = true.
  Proof.
    unfold walk_variant, variant_by_id, no_retyped_variant. destruct (find_variant vs id) as [vt'|]; [|discriminate].
    destruct (is_void (resolve S vt')); [discriminate|]. intros Hw H. injection H as <-.
    destruct (ttype_eqb (ttype_of_ty S vt') (ttype_of x)); [exact Hw|discriminate].
  Qed.

  Lemma vs_variants vs fs : Forall (fun q => VS (snd q)) fs ->
    walk_variants S (fun _ => true) false vs fs = true -> us_variants S vs fs = true ->
    forall ret, view_variants S vs fs (option_map sp ret) = rmap (option_map sp) (viewk_variants S p k c vs fs ret).
  Proof.
    induction fs as [|[id x] r IH]; intros HF Hw Hu ret; [reflexivity|]. inversion HF as [|? ? Hx Hr]; subst. cbn [snd] in Hx.
    rewrite walk_variants_cons in Hw. apply andb_prop in Hw as [Hw1 Hw2].
    cbn [us_variants] in Hu. apply andb_prop in Hu as [Hu1 Hu2]. unfold us_variant in Hu1.
    rewrite view_variants_cons, viewk_variants_cons, (by_id_known _ _ _ Hw1).
    destruct (variant_by_id S vs id) as [vt|] eqn:Ev; [|apply IH; auto].
    destruct ret as [r0|]; [reflexivity|]. cbn [option_map].
    rewrite (Hx vt (variant_walk2 _ _ _ _ Hw1 Ev) Hu1). unfold rmap at 1.
    destruct (VK vt x) as [y|e|q]; cbn [bind]; try reflexivity.
    change (Some (id, strip y)) with (option_map sp (Some (id, y))). apply IH; auto.
  Qed.

  Theorem viewk_strip_all v : VS v.
  Proof.
    induction v using tval_ind'; intros t Hn Hu.
    1-8: cbn [view viewk]; destruct (resolve S t); try reflexivity.
    - destruct (lookup S n) as [[]|]; reflexivity.
    - (* struct *)
      unfold no_retyped_variant in Hn. rewrite walk_struct in Hn. rewrite us_struct in Hu. rewrite view_struct, viewk_struct.
      destruct (resolve S t) as [| | | | | | | | | |?|?|? ?|n]; try reflexivity.
      destruct (lookup S n) as [[dfs kp ia|vs vok kp|?|?]|] eqn:Elk; try reflexivity.
      + assert (Hd : forall f b d, In f dfs -> f_dflt f = Some (b, d) -> strip d = d).
        { intros f b d Hin Hdf. eapply has_type_strip; [exact Hwf|]. eapply default_typed; eauto. }
        rewrite <- (init_strip dfs Hd) at 1. rewrite (vs_fields dfs kp fs H Hn Hu (map init_var dfs) []). unfold rmap.
        destruct (viewk_fields S p k c dfs kp fs (map init_var dfs) []) as [[vars unk]|e|q]; cbn [bind fst snd]; try reflexivity.
        rewrite (finish_strip dfs Hd vars). unfold rmap.
        destruct (finish_fields dfs vars) as [out|e|q]; cbn [bind]; reflexivity.
      + destruct kp.
        * (* keeping union: no field, or one known field *)
          destruct fs as [|[id x] [|q r]]; try discriminate Hu.
          -- cbn [view_variants viewk_variantsk bind]. unfold union_result, union_resultk, rmap.
             destruct vok; [|reflexivity]. destruct vs as [|[id0 t0] vs']; reflexivity.
          -- inversion H as [|? ? Hx _]; subst. cbn [snd] in Hx.
             rewrite walk_variants_cons in Hn. apply andb_prop in Hn as [Hn1 _].
             rewrite view_variants_cons, viewk_variantsk_cons, (by_id_known _ _ _ Hn1).
             destruct (variant_by_id S vs id) as [vt|] eqn:Ev; [|discriminate Hu].
             rewrite (Hx vt (variant_walk2 _ _ _ _ Hn1 Ev) Hu). unfold rmap.
             destruct (VK vt x) as [y|e|q]; cbn [bind view_variants viewk_variantsk union_result union_resultk]; reflexivity.
        * pose proof (vs_variants vs fs H Hn Hu None) as E. cbn [option_map] in E. rewrite E. unfold rmap.
          destruct (viewk_variants S p k c vs fs None) as [ret|e|q]; cbn [bind]; try reflexivity.
          unfold union_result. destruct ret as [[id y]|]; cbn [option_map sp fst snd]; [reflexivity|].
          destruct vok; [|reflexivity]. destruct vs as [|[id0 t0] vs']; reflexivity.
    - (* list *)
      unfold no_retyped_variant in Hn. rewrite walk_list in Hn. rewrite us_list in Hu. rewrite view_list, viewk_list.
      destruct (resolve S t); try reflexivity. apply andb_prop in Hn as [_ Hn].
      rewrite (vs_elems _ _ H Hn Hu). unfold rmap. destruct (viewk_elems S p k c t0 l); reflexivity.
    - (* set *)
      unfold no_retyped_variant in Hn. rewrite walk_set in Hn. rewrite us_set in Hu. rewrite view_set, viewk_set.
      destruct (resolve S t); try reflexivity. apply andb_prop in Hn as [_ Hn].
      rewrite (vs_elems _ _ H Hn Hu). unfold rmap. destruct (viewk_elems S p k c t0 l); reflexivity.
    - (* map *)
      unfold no_retyped_variant in Hn. rewrite walk_map in Hn. rewrite us_map in Hu. rewrite view_map, viewk_map.
      destruct (resolve S t); try reflexivity. apply andb_prop in Hn as [_ Hn].
      rewrite (vs_pairs _ _ _ H Hn Hu). unfold rmap. destruct (viewk_pairs S p k c t0_1 t0_2 l); reflexivity.
  Qed.
End Strip.

Theorem viewk_strip : forall S p k c v t, wf_schema S = true ->
  no_retyped_variant S t v = true -> unions_single S t v = true ->
  view S t v = rmap strip (viewk S p k c t v).
Proof. intros S p k c v t Hwf. exact (viewk_strip_all S Hwf p k c v t). Qed.

(* ---------- decoded values have well-formed uuids ---------- *)
From PVGen Require Import Proofs.EvoErrP.

Definition optok (o : option gval) : Prop := match o with Some y => uuids_ok y = true | None => True end.
Definition uretok (r : uret) : Prop := match r with UKnown _ y => uuids_ok y = true | _ => True end.

Section Uuids.
  Variable S : schema.
  Hypothesis Hwf : wf_schema S = true.
  Variable p : pk.
  Variable k : bk.
  Variable c : wctx.

  Notation VK := (viewk S p k c).

  Definition VU (v : tval) : Prop := forall t g, wt v = true -> VK t v = Ok g -> uuids_ok g = true.

  Lemma finish_uuids dfs : (forall f b d, In f dfs -> f_dflt f = Some (b, d) -> uuids_ok d = true) ->
    forall vars out, Forall optok vars -> finish_fields dfs vars = Ok out -> forallb (fun q => uuids_ok (snd q)) out = true.
  Proof.
    induction dfs as [|f r IH]; intros Hd vars out HF H; [injection H as <-; reflexivity|].
    destruct vars as [|v vt]; [discriminate|]. inversion HF as [|? ? Hv Hvt]; subst. cbn [finish_fields] in H.
    apply bind_ok_inv in H as (rest & Hr & H).
    pose proof (IH (fun g b d Hg => Hd g b d (or_intror Hg)) vt rest Hvt Hr) as Hrest.
    destruct v as [x|].
    - injection H as <-. cbn [forallb snd]. cbn [optok] in Hv. rewrite Hv, Hrest. reflexivity.
    - destruct (f_dflt f) as [[b d]|] eqn:Ed.
      + injection H as <-. cbn [forallb snd]. rewrite (Hd f b d (or_introl eq_refl) Ed), Hrest. reflexivity.
      + destruct (f_req f); [discriminate|]. injection H as <-. exact Hrest.
  Qed.

  Lemma init_uuids dfs : (forall f b d, In f dfs -> f_dflt f = Some (b, d) -> uuids_ok d = true) ->
    Forall optok (map init_var dfs).
  Proof.
    induction dfs as [|f r IH]; intros Hd; [constructor|]. cbn [map]. constructor; [|apply IH; intros g b d Hg; apply Hd; right; exact Hg].
    unfold init_var. destruct (f_dflt f) as [[[|] d]|] eqn:Ed; cbn [optok]; auto. eapply Hd; [left; reflexivity|exact Ed].
  Qed.

  Lemma fields_uuids dfs keep fs : Forall (fun q => VU (snd q)) fs -> wtf fs = true ->
    forall vars unk vars' unk', Forall optok vars -> viewk_fields S p k c dfs keep fs vars unk = Ok (vars', unk') -> Forall optok vars'.
  Proof.
    induction fs as [|[id x] r IH]; intros HF Hwt vars unk vars' unk' Hv H; [injection H as <- _; exact Hv|].
    inversion HF as [|? ? Hx Hr]; subst. cbn [snd] in Hx.
    cbn [wtf] in Hwt. apply andb_prop in Hwt as [Hwt Hwr]. apply andb_prop in Hwt as [_ Hwx].
    rewrite viewk_fields_cons in H.
    destruct (match_field S dfs 0 (Some id) (ttype_of x)) as [[i fl]|]; [|eapply IH; eauto].
    apply bind_ok_inv in H as (y & Hy & H). eapply IH; [exact Hr|exact Hwr| |exact H].
    apply set_nth_Forall; [|exact Hv]. cbn [optok]. eapply Hx; eauto.
  Qed.

  Theorem viewk_uuids_all v : VU v.
  Proof.
    induction v using tval_ind'; intros t g Hwt Hv.
    1-8: cbn [viewk] in Hv; destruct (resolve S t); try discriminate; try (injection Hv as <-; reflexivity).
    - destruct (lookup S n) as [[]|]; try discriminate. injection Hv as <-. reflexivity.
    - injection Hv as <-. cbn [uuids_ok]. cbn [wt] in Hwt. exact Hwt.
    - (* struct *)
      rewrite viewk_struct in Hv. rewrite wt_struct in Hwt.
      destruct (resolve S t) as [| | | | | | | | | |?|?|? ?|n]; try discriminate.
      destruct (lookup S n) as [[dfs kp ia|vs vok kp|?|?]|] eqn:Elk; try discriminate.
      + assert (Hd : forall f b d, In f dfs -> f_dflt f = Some (b, d) -> uuids_ok d = true).
        { intros f b d Hin Hdf. eapply has_type_uuids; [exact Hwf|]. eapply default_typed; eauto. }
        apply bind_ok_inv in Hv as ([vars unk] & Hf & Hv). apply bind_ok_inv in Hv as (out & Ho & Hv).
        injection Hv as <-. cbn [uuids_ok fst] in *.
        eapply finish_uuids; [exact Hd| |exact Ho]. eapply fields_uuids; [exact H|exact Hwt|apply init_uuids; exact Hd|exact Hf].
      + destruct kp.
        * apply bind_ok_inv in Hv as (ret & Hf & Hv).
          assert (Hret : uretok ret).
          { assert (G : forall fs0 r0 ret0, Forall (fun q => VU (snd q)) fs0 -> wtf fs0 = true -> uretok r0 ->
                        viewk_variantsk S p k c vs fs0 r0 = Ok ret0 -> uretok ret0).
            { induction fs0 as [|[id x] r IH]; intros r0 ret0 HF0 Hw0 Hr0 H0; [injection H0 as <-; exact Hr0|].
              inversion HF0 as [|? ? Hx Hr]; subst. cbn [snd] in Hx.
              cbn [wtf] in Hw0. apply andb_prop in Hw0 as [Hw0 Hwr]. apply andb_prop in Hw0 as [_ Hwx].
              rewrite viewk_variantsk_cons in H0.
              destruct (variant_by_id S vs id) as [vt|]; destruct r0; try discriminate.
              - apply bind_ok_inv in H0 as (y & Hy & H0). eapply IH; [exact Hr|exact Hwr| |exact H0]. cbn [uretok]. eapply Hx; eauto.
              - eapply IH; [exact Hr|exact Hwr| |exact H0]. exact I. }
            exact (G fs UNone ret H Hwt I Hf). }
          unfold union_resultk in Hv. destruct ret; try (injection Hv as <-; auto; fail).
          destruct vok; [|discriminate]. destruct vs as [|[id0 t0] vs']; [discriminate|]. injection Hv as <-. reflexivity.
        * apply bind_ok_inv in Hv as (ret & Hf & Hv).
          assert (Hret : match ret with Some q => uuids_ok (snd q) = true | None => True end).
          { assert (G : forall fs0 r0 ret0, Forall (fun q => VU (snd q)) fs0 -> wtf fs0 = true ->
                        match r0 with Some q => uuids_ok (snd q) = true | None => True end ->
                        viewk_variants S p k c vs fs0 r0 = Ok ret0 ->
                        match ret0 with Some q => uuids_ok (snd q) = true | None => True end).
            { induction fs0 as [|[id x] r IH]; intros r0 ret0 HF0 Hw0 Hr0 H0; [injection H0 as <-; exact Hr0|].
              inversion HF0 as [|? ? Hx Hr]; subst. cbn [snd] in Hx.
              cbn [wtf] in Hw0. apply andb_prop in Hw0 as [Hw0 Hwr]. apply andb_prop in Hw0 as [_ Hwx].
              rewrite viewk_variants_cons in H0.
              destruct (variant_by_id S vs id) as [vt|]; [|eapply IH; eauto].
              destruct r0; try discriminate.
              apply bind_ok_inv in H0 as (y & Hy & H0). eapply IH; [exact Hr|exact Hwr| |exact H0]. cbn [snd]. eapply Hx; eauto. }
            exact (G fs None ret H Hwt I Hf). }
          unfold union_result in Hv. destruct ret as [[id y]|]; [injection Hv as <-; exact Hret|].
          destruct vok; [|discriminate]. destruct vs as [|[id0 t0] vs']; [discriminate|]. injection Hv as <-. reflexivity.
    - (* list *)
      rewrite viewk_list in Hv. destruct (resolve S t); try discriminate.
      apply bind_ok_inv in Hv as (ys & Hys & Hv). injection Hv as <-. cbn [uuids_ok].
      destruct (wt_list_inv _ _ Hwt) as (_ & _ & Hel). clear Hwt. revert ys Hys.
      induction l as [|x r IHr]; intros ys Hys; [injection Hys as <-; reflexivity|]. inversion H as [|? ? Hx Hr]; subst.
      rewrite viewk_elems_cons in Hys. apply bind_ok_inv in Hys as (y & Hy & Hys). apply bind_ok_inv in Hys as (ys' & Hys' & Hys).
      injection Hys as <-. cbn [forallb]. rewrite (Hx _ _ (proj1 (Hel x (or_introl eq_refl))) Hy).
      rewrite (IHr Hr (fun z Hz => Hel z (or_intror Hz)) ys' Hys'). reflexivity.
    - (* set *)
      rewrite viewk_set in Hv. destruct (resolve S t); try discriminate.
      apply bind_ok_inv in Hv as (ys & Hys & Hv). injection Hv as <-. cbn [uuids_ok].
      rewrite wt_set in Hwt. destruct (wt_list_inv _ _ Hwt) as (_ & _ & Hel). clear Hwt. revert ys Hys.
      induction l as [|x r IHr]; intros ys Hys; [injection Hys as <-; reflexivity|]. inversion H as [|? ? Hx Hr]; subst.
      rewrite viewk_elems_cons in Hys. apply bind_ok_inv in Hys as (y & Hy & Hys). apply bind_ok_inv in Hys as (ys' & Hys' & Hys).
      injection Hys as <-. cbn [forallb]. rewrite (Hx _ _ (proj1 (Hel x (or_introl eq_refl))) Hy).
      rewrite (IHr Hr (fun z Hz => Hel z (or_intror Hz)) ys' Hys'). reflexivity.
    - (* map *)
      rewrite viewk_map in Hv. destruct (resolve S t); try discriminate.
      apply bind_ok_inv in Hv as (ys & Hys & Hv). injection Hv as <-. cbn [uuids_ok].
      destruct (wt_map_inv _ _ _ Hwt) as (_ & _ & _ & Hel). clear Hwt. revert ys Hys.
      induction l as [|[a b] r IHr]; intros ys Hys; [injection Hys as <-; reflexivity|]. inversion H as [|? ? [Ha Hb] Hr]; subst.
      cbn [fst snd] in *. rewrite viewk_pairs_cons in Hys.
      apply bind_ok_inv in Hys as (a' & Hya & Hys). apply bind_ok_inv in Hys as (b' & Hyb & Hys).
      apply bind_ok_inv in Hys as (ys' & Hys' & Hys). injection Hys as <-. cbn [forallb fst snd].
      destruct (Hel (a, b) (or_introl eq_refl)) as (Hwa & _ & Hwb & _). cbn [fst snd] in *.
      rewrite (Ha _ _ Hwa Hya), (Hb _ _ Hwb Hyb), (IHr Hr (fun z Hz => Hel z (or_intror Hz)) ys' Hys'). reflexivity.
  Qed.
End Uuids.

Theorem viewk_uuids : forall S p k c v t g, wf_schema S = true -> wt v = true ->
  viewk S p k c t v = Ok g -> uuids_ok g = true.
Proof. intros S p k c v t g Hwf. exact (viewk_uuids_all S Hwf p k c v t g). Qed.
